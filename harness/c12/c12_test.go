package c12

import (
	"encoding/json"
	"errors"
	"fmt"
	"os"
	"path/filepath"
	"sort"
	"strings"
	"testing"

	"pgregory.net/rapid"
	"rare/pkg/matchers"
	"rare/pkg/matchers/dissect"
	"verifharness/pbt"
)

// ---------------------------------------------------------------------------
// oracles
// ---------------------------------------------------------------------------

func fmtIdx(v []int) string {
	if v == nil {
		return "no-match"
	}
	return fmt.Sprint(v)
}

func eqInts(a, b []int) bool {
	if len(a) != len(b) {
		return false
	}
	for i := range a {
		if a[i] != b[i] {
			return false
		}
	}
	return true
}

func errKind(err error) string {
	switch {
	case err == nil:
		return ""
	case errors.Is(err, dissect.ErrorUnclosedToken):
		return "unclosed"
	case errors.Is(err, dissect.ErrorSequentialToken):
		return "sequential"
	case errors.Is(err, dissect.ErrorKeyConflict):
		return "conflict"
	}
	return "other:" + err.Error()
}

// compiled is an expression the model accepts, compiled by rare in one mode,
// with one matcher instance.
type compiled struct {
	expr string
	p    Pattern
	ic   bool
	d    *dissect.Dissect
	inst *dissect.DissectInstance
	kept []keptResult
}

// reuse (bounded-exhaustive sweep only): keep the compiled expression and its
// instance per mode while the same expression is enumerated, instead of a
// fresh instance (a 16-100 KiB index pool) per case.
var reuse struct {
	on bool
	cp [2]*compiled
}

// prepare parses the expression with the model, runs CompileEx and compares
// accept/reject (and, when the expression holds exactly one kind of error,
// the error class) and the name table. It returns nil, nil when there is
// nothing to match with: the expression is ambiguous (not judged) or is
// rejected as it should be.
func prepare(expr string, ignoreCase bool, o *pbt.Obs) (*compiled, error) {
	mode, m := "case-sensitive", 0
	if ignoreCase {
		mode, m = "ignore-case", 1
	}
	if reuse.on && reuse.cp[m] != nil && reuse.cp[m].expr == expr {
		return reuse.cp[m], nil
	}
	p := Parse(expr)
	if p.Ambiguous != "" {
		pbt.Exclude("ambiguous-expression")
		return nil, nil
	}
	if ignoreCase && namesCollideWhenLowered(p) {
		// token names that differ only in case (%{ID}=%{id};): "any line matched case-sensitively still
		// matches" with ignore-case, so the expression must keep compiling and matching; how the names are
		// spelled in the name table is not compared for such expressions (namesCaseStable below)
		o.Label(true, "ignore-case:token-names-differ-only-in-case")
	}
	d, err := dissect.CompileEx(expr, ignoreCase)
	if len(p.Errs) > 0 {
		for _, e := range p.Errs {
			o.Label(true, "error:"+e)
		}
		o.Label(len(p.Errs) > 1, "error:several-kinds")
		if err == nil {
			return nil, fmt.Errorf("%s CompileEx(%s) accepts an expression with error(s) %v", mode, pbt.Q([]byte(expr)), p.Errs)
		}
		if len(p.Errs) == 1 && errKind(err) != p.Errs[0] {
			return nil, fmt.Errorf("%s CompileEx(%s): error class %q, want %q", mode, pbt.Q([]byte(expr)), errKind(err), p.Errs[0])
		}
		return nil, nil
	}
	if err != nil {
		return nil, fmt.Errorf("%s CompileEx(%s) rejects a well-formed expression: %v (it reads: leading literal %q, tokens %+v)", mode, pbt.Q([]byte(expr)), err, p.Prefix, p.Tokens)
	}
	if d == nil {
		return nil, fmt.Errorf("%s CompileEx(%s) returned nil without error", mode, pbt.Q([]byte(expr)))
	}
	// with upper-case letters in a token name the docs do not say whether
	// ignore-case keeps the spelling; only case-stable names are compared then
	if !ignoreCase || namesCaseStable(p) {
		if got, want := d.SubexpNameTable(), p.Names(); !namesEqual(got, want) {
			return nil, fmt.Errorf("%s SubexpNameTable of %s: got %v want %v", mode, pbt.Q([]byte(expr)), got, want)
		}
	}
	cp := &compiled{expr: expr, p: p, ic: ignoreCase, d: d, inst: d.CreateInstance()}
	if reuse.on {
		reuse.cp[m] = cp
	}
	return cp, nil
}

func (cp *compiled) find(line string) []int {
	// a private copy of the bytes: the matcher must not depend on the buffer
	// staying alive
	got := cp.inst.FindSubmatchIndex([]byte(line))
	if len(got) == 0 {
		return nil
	}
	if !reuse.on {
		cp.kept = append(cp.kept, keptResult{line, got, append([]int(nil), got...)})
	}
	return got
}

type keptResult struct {
	line       string
	live, copy []int
}

// unaltered: "results returned for earlier lines are not altered by matching
// later lines" - every slice handed out is read again after the last call.
func (cp *compiled) unaltered() error {
	for i, r := range cp.kept {
		if !eqInts(r.live, r.copy) {
			return fmt.Errorf("%s: result %d of %d from one instance was %v when returned and reads %v after the later calls",
				cp.describe(r.line), i+1, len(cp.kept), r.copy, r.live)
		}
	}
	return nil
}

func (cp *compiled) describe(line string) string {
	mode := ""
	if cp.ic {
		mode = "ignore-case "
	}
	return fmt.Sprintf("%sdissect %s on line %s", mode, pbt.Q([]byte(cp.expr)), pbt.Q([]byte(line)))
}

// invariants: "all offsets are ordered and within the line"; one pair per
// capturing token plus the {0} pair.
func invariants(got []int, groups int, lineLen int) error {
	if len(got) == 0 {
		return nil
	}
	if len(got) != 2*groups+2 {
		return fmt.Errorf("result has %d offsets, want %d (%d capturing tokens + {0})", len(got), 2*groups+2, groups)
	}
	seq := []int{got[0]}
	seq = append(seq, got[2:]...)
	seq = append(seq, got[1])
	prev := 0
	for _, v := range seq {
		if v < prev {
			return fmt.Errorf("offsets not ordered / negative: %v", got)
		}
		prev = v
	}
	if prev > lineLen {
		return fmt.Errorf("offset beyond the line (len %d): %v", lineLen, got)
	}
	return nil
}

func namesEqual(got, want map[string]int) bool {
	if len(got) != len(want) {
		return false
	}
	for _, k := range pbt.SortedKeys(want) {
		if v, ok := got[k]; !ok || v != want[k] {
			return false
		}
	}
	return true
}

func namesCaseStable(p Pattern) bool {
	for _, t := range p.Tokens {
		if LowerASCII(t.Name) != t.Name || strings.ToLower(t.Name) != t.Name {
			return false
		}
	}
	return true
}

func namesCollideWhenLowered(p Pattern) bool {
	seenA, seenU := map[string]bool{}, map[string]bool{}
	for _, t := range p.Tokens {
		if t.Skip {
			continue
		}
		a, u := LowerASCII(t.Name), strings.ToLower(t.Name)
		if (seenA[a] || seenU[u]) && len(p.Errs) == 0 {
			return true
		}
		seenA[a], seenU[u] = true, true
	}
	return false
}

func groupsText(line string, idx []int) string {
	var out []string
	for i := 0; i+1 < len(idx); i += 2 {
		if idx[i] >= 0 && idx[i] <= idx[i+1] && idx[i+1] <= len(line) {
			out = append(out, fmt.Sprintf("{%d}=%q", i/2, line[idx[i]:idx[i+1]]))
		} else {
			out = append(out, fmt.Sprintf("{%d}=<bad offsets>", i/2))
		}
	}
	return strings.Join(out, " ")
}

// specLine: the case-sensitive result equals the specification.
func (cp *compiled) specLine(line string, o *pbt.Obs) error {
	want := cp.p.Match(line)
	got := cp.find(line)
	observe(o, cp.p, line, want)
	if !eqInts(got, want) {
		return fmt.Errorf("%s:\n got  %s %s\n want %s %s\n (it reads: leading literal %q, tokens %+v)",
			cp.describe(line), fmtIdx(got), groupsText(line, got), fmtIdx(want), groupsText(line, want), cp.p.Prefix, cp.p.Tokens)
	}
	return invariants(got, cp.p.Groups(), len(line))
}

// icaseLine: the ignore-case relations.
//
//	(i)  a line matched case-sensitively still matches with ignore-case;
//	(ii) for ASCII expression and line the ignore-case result equals the
//	     case-sensitive result on lower-cased expression and line;
//	plus: offsets ordered and within the line.
func (cp *compiled) icaseLine(line string, o *pbt.Obs) error {
	got := cp.find(line)
	cs := cp.p.Match(line)
	observe(o, cp.p, line, cs)
	if err := invariants(got, cp.p.Groups(), len(line)); err != nil {
		return fmt.Errorf("%s: %v", cp.describe(line), err)
	}
	if cs != nil && got == nil {
		return fmt.Errorf("ignore-case loses a match: dissect %s matches line %s case-sensitively (%s %s) but not with ignore-case",
			pbt.Q([]byte(cp.expr)), pbt.Q([]byte(line)), fmtIdx(cs), groupsText(line, cs))
	}
	if IsASCII(cp.expr) && IsASCII(line) {
		o.Label(true, "ascii-relation")
		want := cp.p.Lowered().Match(LowerASCII(line))
		o.Label(want != nil && cs == nil, "match-only-with-ignore-case")
		o.Label(want != nil && cs != nil && !eqInts(want, cs), "ignore-case-result-differs-from-cs")
		if !eqInts(got, want) {
			return fmt.Errorf("%s (all ASCII):\n got  %s %s\n want %s %s (= case-sensitive result on lower-cased expression and line)",
				cp.describe(line), fmtIdx(got), groupsText(line, got), fmtIdx(want), groupsText(line, want))
		}
	} else {
		o.Label(cs != nil, "non-ascii:cs-match-kept")
		o.Label(cs == nil && got != nil, "non-ascii:match-only-with-ignore-case")
	}
	return nil
}

// checkSpec / checkIcase run one expression over some lines (one instance).
func checkSpec(expr string, lines []pbt.S, o *pbt.Obs) error {
	cp, err := prepare(expr, false, o)
	if cp == nil {
		return err
	}
	for _, l := range lines {
		if err := cp.specLine(string(l), o); err != nil {
			return err
		}
	}
	pairs["spec"] += len(lines)
	return cp.unaltered()
}

func checkIcase(expr string, lines []pbt.S, o *pbt.Obs) error {
	cp, err := prepare(expr, true, o)
	if cp == nil {
		return err
	}
	for _, l := range lines {
		if err := cp.icaseLine(string(l), o); err != nil {
			return err
		}
	}
	pairs["icase"] += len(lines)
	return cp.unaltered()
}

// pairs counts the (expression, line) pairs judged, reported as a note.
var pairs = map[string]int{}

func notePairs(sub, key string) {
	pbt.Note("C12", sub+".expression-line-pairs", pairs[key])
	pairs[key] = 0
}

// observe records labels for the classifier.
func observe(o *pbt.Obs, p Pattern, line string, want []int) {
	if o == nil {
		return
	}
	nt := len(p.Tokens)
	if nt > 5 {
		nt = 5
	}
	o.Label(true, fmt.Sprintf("tokens=%d", nt))
	o.Label(len(p.Tokens) >= 2, ">=2-tokens")
	o.Label(p.Prefix == "", "empty-prefix")
	o.Label(len(p.Tokens) > 0 && p.Tokens[len(p.Tokens)-1].Delim == "", "last-token-to-end-of-line")
	nonASCII, percent := false, false
	for _, l := range p.Literals() {
		nonASCII = nonASCII || !IsASCII(l)
		percent = percent || strings.Contains(l, "%")
	}
	o.Label(nonASCII, "non-ascii-literal")
	o.Label(percent, "percent-in-literal")
	o.Label(!IsASCII(line), "non-ascii-line")
	for _, t := range p.Tokens {
		o.Label(t.Skip && t.Name == "", "skip-token")
		o.Label(t.Skip && t.Name != "", "named-skip-token")
		if p.Prefix != "" && t.Delim != "" && (strings.Contains(p.Prefix, t.Delim) || strings.Contains(t.Delim, p.Prefix)) {
			o.Label(true, "delim-overlaps-prefix")
		}
	}
	if want == nil {
		o.Label(true, "cs-no-match")
		if !strings.Contains(line, p.Prefix) {
			o.Label(true, "cs-no-match:prefix-absent")
		} else {
			o.Label(true, "cs-no-match:delimiter-absent")
			o.Label(strings.Count(line, p.Prefix) > 1 && p.Prefix != "", "prefix-repeats")
		}
		return
	}
	o.Label(true, "cs-match")
	o.Label(p.Prefix != "" && strings.Count(line, p.Prefix) > 1, "prefix-repeats")
	o.Label(want[1] < len(line), "text-after-match")
	o.Label(want[0] > 0, "text-before-match")
	// walk the tokens again to see what the delimiter search had to skip
	pos := want[0] + len(p.Prefix)
	for _, t := range p.Tokens {
		if t.Delim == "" {
			break
		}
		k := strings.Index(line[pos:], t.Delim)
		if k < 0 {
			break
		}
		text := line[pos : pos+k]
		o.Label(text == "" && !t.Skip, "empty-capture")
		o.Label(len(t.Delim) >= 2 && strings.IndexByte(text, t.Delim[0]) >= 0, "partial-delimiter-in-text")
		after := line[pos+k+1:]
		o.Label(strings.Contains(after, t.Delim), "delimiter-occurs-again-later")
		pos += k + len(t.Delim)
	}
}

// ---------------------------------------------------------------------------
// generators
// ---------------------------------------------------------------------------

var (
	asciiPieces = []string{"a", "b", "ab", "ba", "A", "B", "aB", " ", ":", "%", "-", "a", "b", "%", " "}
	utf8Pieces  = append(append([]string{}, asciiPieces...), "é", "É", "ж", "Ж", "日", "éa", "é", "ж")
	bytePieces  = append(append([]string{}, utf8Pieces...), "\xc3", "\xa9", "\x89", "\x00", "\u212a", "\u0130", "{", "}", "\xff", "\r")
	namePool    = []string{"a", "b", "c", "val", "x1", "key", "N", "Key", "n", "KEY", "A", "é", "a b", "?", "0", "a%", "b-c"}
)

// widePieces: every printable ASCII character (so that the edges of the
// letter ranges @ A Z [ ` a z { take part), letters doubled.
var widePieces = func() []string {
	var out []string
	for c := byte(' '); c < 0x7f; c++ {
		out = append(out, string(rune(c)))
	}
	out = append(out, "A", "Z", "a", "z", "@", "[", "`", "{", "Az", "zA", "%", "%")
	return out
}()

type profile struct {
	name   string
	pieces []string
}

var profiles = []profile{{"ascii", asciiPieces}, {"ascii", asciiPieces}, {"ascii-wide", widePieces}, {"utf8", utf8Pieces}, {"bytes", bytePieces}}

func drawProfile(t *rapid.T) profile {
	return profiles[rapid.IntRange(0, len(profiles)-1).Draw(t, "profile")]
}

// appendPiece never lets a literal spell "%{" (that is token syntax; the
// docs define no escape, so a literal cannot contain it).
func appendPiece(cur, piece string) string {
	if strings.HasSuffix(cur, "%") && strings.HasPrefix(piece, "{") {
		return cur
	}
	return cur + piece
}

func genLiteral(t *rapid.T, pr profile, min int) string {
	n := rapid.IntRange(min, 3).Draw(t, "nlit")
	s := ""
	for i := 0; i < n; i++ {
		s = appendPiece(s, pr.pieces[rapid.IntRange(0, len(pr.pieces)-1).Draw(t, "piece")])
	}
	if s == "" && min > 0 {
		s = "a"
	}
	return s
}

type genTok struct {
	name  string
	skip  bool
	delim string
}

type genPat struct {
	prefix string
	toks   []genTok
}

func (g genPat) text() string {
	var sb strings.Builder
	sb.WriteString(g.prefix)
	for _, k := range g.toks {
		sb.WriteString("%{")
		if k.skip && k.name != "" {
			sb.WriteString("?")
		}
		sb.WriteString(k.name)
		sb.WriteString("}")
		sb.WriteString(k.delim)
	}
	return sb.String()
}

// genPattern builds a well-formed pattern from pieces. lowerNames: token
// names are kept lower-case (ignore-case sub-property).
func genPattern(t *rapid.T, pr profile, lowerNames bool) genPat {
	var g genPat
	if rapid.IntRange(0, 2).Draw(t, "hasPrefix") > 0 {
		g.prefix = genLiteral(t, pr, 1)
	}
	n := rapid.SampledFrom([]int{0, 1, 1, 2, 2, 2, 3, 3, 4, 5}).Draw(t, "ntok")
	used, usedBySkip := map[string]bool{}, map[string]bool{}
	for i := 0; i < n; i++ {
		var k genTok
		kind := rapid.IntRange(0, 9).Draw(t, "kind")
		k.skip = kind >= 6
		if kind < 8 { // named (captured, or %{?name})
			k.name = namePool[rapid.IntRange(0, len(namePool)-1).Draw(t, "name")]
			if k.skip && k.name == "?" {
				k.name = "q"
			}
			if lowerNames && (strings.ToLower(k.name) != k.name) && rapid.IntRange(0, 2).Draw(t, "lowername") == 0 {
				// (2 in 3 ignore-case patterns keep their upper-case names, also names that differ only in
				// case: matching must not depend on the names; their spelling in the name table is compared
				// for case-stable names only)
				k.name = strings.ToLower(k.name)
			}
			if !k.skip && k.name[0] == '?' {
				k.name = "q" + k.name // a captured name cannot start with '?'
			}
			for used[k.name] {
				// a second use of a name: captured twice is the conflict error
				// (generated separately); a skipped token sharing a name with
				// another token is not specified
				if k.skip || usedBySkip[k.name] {
					pbt.Exclude("skipped-token-shares-a-name")
				}
				k.name += "2"
			}
			used[k.name] = true
			usedBySkip[k.name] = k.skip
		}
		if i < n-1 || rapid.Bool().Draw(t, "lastDelim") {
			k.delim = genLiteral(t, pr, 1)
		}
		g.toks = append(g.toks, k)
	}
	return g
}

// breakPattern turns the text of a well-formed pattern into one holding
// exactly one kind of error.
func breakPattern(t *rapid.T, g genPat) string {
	kinds := []string{"unclosed"}
	if len(g.toks) >= 2 {
		kinds = append(kinds, "sequential")
	}
	var captured []int
	for i, k := range g.toks {
		if !k.skip {
			captured = append(captured, i)
		}
	}
	if len(captured) >= 2 {
		kinds = append(kinds, "conflict")
	}
	switch rapid.SampledFrom(kinds).Draw(t, "errkind") {
	case "sequential":
		i := rapid.IntRange(0, len(g.toks)-2).Draw(t, "seqAt")
		g.toks[i].delim = ""
		return g.text()
	case "conflict":
		i := rapid.IntRange(1, len(captured)-1).Draw(t, "dupAt")
		g.toks[captured[i]].name = g.toks[captured[rapid.IntRange(0, i-1).Draw(t, "dupOf")]].name
		return g.text()
	}
	// unclosed: a token opened and never closed, nothing (so no '}') after it
	cut := rapid.IntRange(0, len(g.toks)).Draw(t, "cutAt")
	h := genPat{prefix: g.prefix, toks: g.toks[:cut]}
	if cut > 0 && h.toks[cut-1].delim == "" {
		h.toks[cut-1].delim = "a"
	}
	return h.text() + "%{" + rapid.SampledFrom([]string{"", "a", "?b", "val"}).Draw(t, "openName")
}

func flipASCII(t *rapid.T, s string, per int) string {
	b := []byte(s)
	for i, c := range b {
		isLetter := ('a' <= c && c <= 'z') || ('A' <= c && c <= 'Z')
		if isLetter && rapid.IntRange(0, per-1).Draw(t, "flip") == 0 {
			b[i] = c ^ 0x20
		}
	}
	return string(b)
}

var utfSwap = strings.NewReplacer("é", "É", "É", "é", "ж", "Ж", "Ж", "ж")

func mutateLiteral(t *rapid.T, s string) string {
	switch rapid.IntRange(0, 4).Draw(t, "mut") {
	case 0:
		if len(s) > 0 {
			return s[:len(s)-1]
		}
	case 1:
		if len(s) > 0 {
			return s[1:]
		}
	case 2:
		return flipASCII(t, s, 1)
	case 3:
		return utfSwap.Replace(s)
	}
	return ""
}

// genLine draws a line for the pattern: built from it (so that it matches,
// with fills that collide with the delimiters), damaged, truncated,
// case-flipped, or unrelated.
func genLine(t *rapid.T, pr profile, g genPat, flipWeight int, clean bool) string {
	mode := rapid.IntRange(0, 19).Draw(t, "linemode")
	if clean { // built from the expression, literals intact: always matches
		mode = 4
	}
	if mode < 3 { // unrelated
		n := rapid.IntRange(0, 8).Draw(t, "nrand")
		s := ""
		for i := 0; i < n; i++ {
			s += pr.pieces[rapid.IntRange(0, len(pr.pieces)-1).Draw(t, "rp")]
		}
		return s
	}
	lits := []string{g.prefix}
	for _, k := range g.toks {
		lits = append(lits, k.delim)
	}
	junk := func(label string, max int) string {
		n := rapid.IntRange(0, max).Draw(t, label)
		s := ""
		for i := 0; i < n; i++ {
			switch rapid.IntRange(0, 5).Draw(t, "jk") {
			case 0: // a proper prefix / suffix of some literal of the pattern
				l := lits[rapid.IntRange(0, len(lits)-1).Draw(t, "jl")]
				if len(l) >= 2 {
					c := rapid.IntRange(1, len(l)-1).Draw(t, "jc")
					if rapid.Bool().Draw(t, "jside") {
						s += l[:c]
					} else {
						s += l[c:]
					}
				}
			case 1: // a whole literal (repeat of the leading literal, another delimiter)
				s += lits[rapid.IntRange(0, len(lits)-1).Draw(t, "jl2")]
			default:
				s += pr.pieces[rapid.IntRange(0, len(pr.pieces)-1).Draw(t, "jp")]
			}
		}
		return s
	}
	lit := func(s string) string {
		if !clean && rapid.IntRange(0, 15).Draw(t, "damage") == 0 {
			return mutateLiteral(t, s)
		}
		return s
	}
	var sb strings.Builder
	sb.WriteString(junk("pre", 2))
	sb.WriteString(lit(g.prefix))
	for _, k := range g.toks {
		sb.WriteString(junk("fill", 3))
		sb.WriteString(lit(k.delim))
	}
	sb.WriteString(junk("post", 2))
	s := sb.String()
	if mode == 3 && len(s) > 0 { // truncated
		s = s[:rapid.IntRange(0, len(s)-1).Draw(t, "trunc")]
	}
	if mode >= 20-flipWeight { // case-flipped
		s = flipASCII(t, s, 2)
		if rapid.IntRange(0, 5).Draw(t, "uflip") == 0 {
			s = utfSwap.Replace(s)
		}
	}
	return s
}

// Case is one expression and the lines matched against it (one instance).
type Case struct {
	Pattern pbt.S
	Lines   []pbt.S
	Obs     *pbt.Obs `json:"-"`
}

func genCase(flipWeight int, lowerNames bool) func(t *rapid.T) Case {
	return func(t *rapid.T) Case {
		pr := drawProfile(t)
		g := genPattern(t, pr, lowerNames)
		var lines []pbt.S
		for i, n := 0, rapid.IntRange(2, 16).Draw(t, "nlines"); i < n; i++ {
			lines = append(lines, pbt.S(genLine(t, pr, g, flipWeight, false)))
		}
		expr := g.text()
		if rapid.IntRange(0, 11).Draw(t, "broken") == 0 {
			expr = breakPattern(t, g)
		}
		if lowerNames && rapid.IntRange(0, 3).Draw(t, "upperPattern") == 0 {
			// upper-case letters in the literals of the expression (names stay)
			up := genPat{prefix: flipASCII(t, g.prefix, 2)}
			for _, k := range g.toks {
				k.delim = flipASCII(t, k.delim, 2)
				up.toks = append(up.toks, k)
			}
			if len(Parse(expr).Errs) == 0 {
				expr = up.text()
			}
		}
		return Case{Pattern: pbt.S(expr), Lines: lines, Obs: pbt.NewObs()}
	}
}

func classify(c Case) (bool, []string) {
	o := c.Obs
	judged := o.Has("cs-match") || o.Has("cs-no-match:delimiter-absent")
	nt := judged && o.Has(">=2-tokens") &&
		(o.Has("partial-delimiter-in-text") || o.Has("delimiter-occurs-again-later") || o.Has("prefix-repeats") ||
			o.Has("delim-overlaps-prefix") || o.Has("non-ascii-literal"))
	return nt, o.All()
}

// Batch is what the driver sees as one case of the rapid sub-properties: a
// few independent (expression, lines) items. The driver pays a goroutine
// hand-over and a journal write per case, which on a loaded machine costs far
// more than an item; batching keeps the search large at a small case count.
// rapid shrinks a failing batch down to the failing item.
type Batch struct {
	Items []Case
	Obs   *pbt.Obs `json:"-"`
}

func genBatch(flipWeight int, lowerNames bool) func(t *rapid.T) Batch {
	item := rapid.Custom(genCase(flipWeight, lowerNames))
	return func(t *rapid.T) Batch {
		return Batch{Items: rapid.SliceOfN(item, 1, 8).Draw(t, "items"), Obs: pbt.NewObs()}
	}
}

// itemLabels counts labels per item (the driver's histogram counts batches);
// reported as notes "items.<sub>.<label>".
var itemLabels = map[string]int{}

func checkBatch(sub string, f func(expr string, lines []pbt.S, o *pbt.Obs) error) func(Batch) error {
	return func(b Batch) error {
		for i := range b.Items {
			it := &b.Items[i]
			if it.Obs == nil {
				it.Obs = pbt.NewObs() // replayed case
			}
			if err := f(string(it.Pattern), it.Lines, it.Obs); err != nil {
				return fmt.Errorf("item %d of %d: %w", i+1, len(b.Items), err)
			}
			nt, labels := classify(*it)
			for _, l := range labels {
				itemLabels[sub+"."+l]++
				b.Obs.Label(true, l)
			}
			itemLabels[sub+".ITEMS"]++
			if nt {
				itemLabels[sub+".NONTRIVIAL-ITEMS"]++
				b.Obs.Add("nontrivial-items", 1)
			}
		}
		return nil
	}
}

func classifyBatch(b Batch) (bool, []string) {
	return b.Obs.Get("nontrivial-items") > 0, b.Obs.All()
}

func noteItems(sub string) {
	for _, k := range pbt.SortedKeys(itemLabels) {
		if strings.HasPrefix(k, sub+".") {
			pbt.Note("C12", "items."+k, itemLabels[k])
			delete(itemLabels, k)
		}
	}
}

// ---------------------------------------------------------------------------
// sub-properties
// ---------------------------------------------------------------------------

var specSpec = pbt.Spec[Batch]{
	Property: "C12", Name: "spec",
	Rule:     "a case is a batch of 1-8 items; item = expression assembled from pieces (leading literal possibly empty, 0-5 tokens %{name}|%{}|%{?name}, delimiters over a colliding alphabet a/b/ab/ba/A/B/blank/:/%/-, or all printable ASCII, plus é É ж Ж 日 and, in the bytes profile, lone UTF-8 bytes, NUL, 0xFF, { }, Kelvin sign, İ; 1 in 12 broken into exactly one of unclosed / adjacent / duplicate-name) x 2-16 lines per expression (one instance), built from the expression with colliding fills (partial delimiters, repeats of the leading literal), damaged, truncated, case-flipped or unrelated; oracle = reference dissect written from the statement: accept/reject and error class, SubexpNameTable, every offset, ordering and bounds. Non-trivial: >=2 tokens, leading literal present in the line, and (partial delimiter inside a token text | delimiter occurring again later | leading literal repeated | delimiter overlapping the leading literal | non-ASCII literal) holds for some item of the batch; per-item label counts are in the notes items.spec.*; distinct by case JSON",
	Budget:   pbt.Budget{Quick: 16000, Thorough: 240000},
	Gen:      genBatch(3, false),
	Check:    checkBatch("spec", checkSpec),
	Classify: classifyBatch,
}

func TestSpec(t *testing.T) {
	defer notePairs("spec", "spec")
	defer noteItems("spec")
	pbt.Run(t, specSpec)
}

var icaseSpec = pbt.Spec[Batch]{
	Property: "C12", Name: "icase",
	Rule:     "same generator with more case-flipped lines and upper-case letters in the literals of the expression (token names kept lower-case); oracle = (i) a line the reference matches case-sensitively is matched with ignore-case, (ii) for all-ASCII expression and line the ignore-case result equals the reference result on ASCII-lower-cased literals and line, offsets ordered and within the line, accept/reject independent of the mode. Batched and non-trivial as for spec (notes items.icase.*); distinct by case JSON",
	Budget:   pbt.Budget{Quick: 16000, Thorough: 240000},
	Gen:      genBatch(8, true),
	Check:    checkBatch("icase", checkIcase),
	Classify: classifyBatch,
}

func TestIgnoreCase(t *testing.T) {
	defer notePairs("icase", "icase")
	defer noteItems("icase")
	pbt.Run(t, icaseSpec)
}

// TestExhaustive: every small expression over a tiny colliding alphabet x
// every short line, both modes.
func TestExhaustive(t *testing.T) {
	L := 6
	if pbt.Thorough() {
		L = 7
	}
	sp := pbt.Spec[Case]{Property: "C12", Name: "exhaustive"}
	sp.Rule = fmt.Sprintf("bounded-exhaustive: leading literal in {\"\",a,ab,%%,B} x 1-2 tokens (captured | skipped) x delimiters in {a,b,ab,ba,%%,a%%,A} (last one also empty) x every line of length<=%d over {a,b,%%,A}; both oracles (spec and ignore-case relations); non-trivial: 2 tokens and the leading literal occurs in the line", L)
	sp.Check = func(c Case) error {
		if err := checkSpec(string(c.Pattern), c.Lines, c.Obs); err != nil {
			return err
		}
		return checkIcase(string(c.Pattern), c.Lines, nil)
	}
	sp.Classify = func(c Case) (bool, []string) {
		o := c.Obs
		var l []string
		for _, k := range []string{"cs-match", "cs-no-match"} {
			if o.Has(k) {
				l = append(l, k)
			}
		}
		return o.Has(">=2-tokens") && (o.Has("cs-match") || o.Has("cs-no-match:delimiter-absent")), l
	}
	prefixes := []string{"", "a", "ab", "%", "B"}
	delims := []string{"a", "b", "ab", "ba", "%", "a%", "A"}
	lastDelims := append([]string{""}, delims...)
	var exprs []string
	for _, p := range prefixes {
		for _, s1 := range []bool{false, true} {
			t1 := "%{x}"
			if s1 {
				t1 = "%{}"
			}
			for _, d1 := range lastDelims {
				exprs = append(exprs, p+t1+d1)
			}
			for _, d1 := range delims {
				for _, s2 := range []bool{false, true} {
					t2 := "%{y}"
					if s2 {
						t2 = "%{?x}"
						if !s1 {
							t2 = "%{?z}"
						}
					}
					for _, d2 := range lastDelims {
						exprs = append(exprs, p+t1+d1+t2+d2)
					}
				}
			}
		}
	}
	sym := []byte{'a', 'b', '%', 'A'}
	var lines []pbt.S
	for n := 0; n <= L; n++ {
		total := 1
		for i := 0; i < n; i++ {
			total *= len(sym)
		}
		for v := 0; v < total; v++ {
			b := make([]byte, n)
			x := v
			for i := range b {
				b[i] = sym[x%len(sym)]
				x /= len(sym)
			}
			lines = append(lines, pbt.S(b))
		}
	}
	reuse.on = os.Getenv("VERIF_REPLAY") == ""
	defer func() { reuse.on = false }()
	k, n := pbt.Shard()
	idx := 0
	pbt.Enum(t, sp, func(yield func(Case) bool) {
		for _, e := range exprs {
			for i := range lines {
				c := Case{Pattern: pbt.S(e), Lines: lines[i : i+1 : i+1]}
				if idx%n == k || os.Getenv("VERIF_REPLAY") != "" {
					c.Obs = pbt.NewObs() // only the cases this shard evaluates
				}
				idx++
				if !yield(c) {
					return
				}
			}
		}
	})
}

// ---------------------------------------------------------------------------
// pool: results returned for earlier lines are not altered by later lines
// ---------------------------------------------------------------------------

// SeqCase is a sequence of N lines fed to instances created from one
// compiled expression through matchers.ToFactory. Line k is
// Lines[mix(k,Salt) % len(Lines)] and goes to instance k % Instances.
type SeqCase struct {
	Pattern    pbt.S
	IgnoreCase bool
	Lines      []pbt.S
	N          int
	Instances  int
	Salt       int
	Obs        *pbt.Obs `json:"-"`
}

func mix(k, salt int) int {
	x := uint64(k)*0x9e3779b97f4a7c15 + uint64(salt)*0xbf58476d1ce4e5b9
	x ^= x >> 29
	x *= 0x94d049bb133111eb
	x ^= x >> 32
	return int(x & 0x7fffffff)
}

func checkSeq(c SeqCase) error {
	expr := string(c.Pattern)
	p := Parse(expr)
	if p.Ambiguous != "" || len(p.Errs) > 0 || len(c.Lines) == 0 || c.Instances < 1 {
		return nil
	}
	ascii := IsASCII(expr)
	cp, err := prepare(expr, c.IgnoreCase, c.Obs)
	if cp == nil {
		return err
	}
	d := cp.d
	fac := matchers.ToFactory[*dissect.DissectInstance](d)
	inst := make([]matchers.Matcher, c.Instances)
	for i := range inst {
		inst[i] = fac.CreateInstance()
	}
	// expected result per distinct line (nil entry in known = not determined
	// by the statement: ignore-case with non-ASCII text)
	want := make([][]int, len(c.Lines))
	known := make([]bool, len(c.Lines))
	mustMatch := make([]bool, len(c.Lines))
	bufs := make([][]byte, len(c.Lines))
	for i, l := range c.Lines {
		s := string(l)
		bufs[i] = []byte(s)
		cs := p.Match(s)
		switch {
		case !c.IgnoreCase:
			want[i], known[i] = cs, true
		case ascii && IsASCII(s):
			want[i], known[i] = p.Lowered().Match(LowerASCII(s)), true
		default:
			mustMatch[i] = cs != nil
		}
	}
	type kept struct {
		k, line int
		live    []int // the slice rare returned
		copy    []int // its contents at the time
	}
	var all []kept
	results := make([]int, c.Instances) // results handed out per instance
	matches := 0
	for k := 0; k < c.N; k++ {
		li := mix(k, c.Salt) % len(c.Lines)
		ii := k % c.Instances
		got := inst[ii].FindSubmatchIndex(bufs[li])
		if len(got) == 0 {
			got = nil
		}
		if known[li] && !eqInts(got, want[li]) {
			return fmt.Errorf("call %d (instance %d) dissect %s ignoreCase=%v on line %s: got %s want %s",
				k+1, ii, pbt.Q([]byte(expr)), c.IgnoreCase, pbt.Q(bufs[li]), fmtIdx(got), fmtIdx(want[li]))
		}
		if mustMatch[li] && got == nil {
			return fmt.Errorf("call %d: ignore-case loses the case-sensitive match of %s on %s", k+1, pbt.Q([]byte(expr)), pbt.Q(bufs[li]))
		}
		if err := invariants(got, p.Groups(), len(bufs[li])); err != nil {
			return fmt.Errorf("call %d: %v", k+1, err)
		}
		if got != nil {
			matches++
			results[ii]++
			all = append(all, kept{k, li, got, append([]int(nil), got...)})
		}
	}
	for _, r := range all {
		if !eqInts(r.live, r.copy) {
			return fmt.Errorf("dissect %s ignoreCase=%v, %d instance(s), %d lines: the result returned for call %d (line %s) was %v and reads %v after the later calls",
				pbt.Q([]byte(expr)), c.IgnoreCase, c.Instances, c.N, r.k+1, pbt.Q(bufs[r.line]), r.copy, r.live)
		}
	}
	for i, l := range c.Lines {
		if string(bufs[i]) != string(l) {
			return fmt.Errorf("the matcher wrote into the line buffer: %s became %s", pbt.Q([]byte(l)), pbt.Q(bufs[i]))
		}
	}
	o := c.Obs
	maxGets := 0
	for _, g := range results {
		if g > maxGets {
			maxGets = g
		}
	}
	o.Add("maxresults", maxGets)
	o.Add("matches", matches)
	o.Label(maxGets > 1024, "pool-refilled(>1024 results from one instance)")
	o.Label(maxGets > 2048, "pool-refilled-twice")
	o.Label(c.Instances > 1, "several-instances")
	o.Label(c.IgnoreCase, "ignore-case")
	o.Label(matches > 0 && matches < c.N, "matching-and-non-matching-lines")
	o.Label(p.Groups() == 0, "no-capturing-token")
	o.Label(p.Groups() >= 2, ">=2-capturing-tokens")
	return nil
}

func genSeq(t *rapid.T) SeqCase {
	pr := drawProfile(t)
	ic := rapid.Bool().Draw(t, "ignoreCase")
	g := genPattern(t, pr, ic)
	c := SeqCase{Pattern: pbt.S(g.text()), IgnoreCase: ic, Obs: pbt.NewObs()}
	nl := rapid.IntRange(1, 7).Draw(t, "nlines")
	for i := 0; i < nl; i++ {
		clean := rapid.IntRange(0, 9).Draw(t, "clean") < 7
		c.Lines = append(c.Lines, pbt.S(genLine(t, pr, g, 2, clean)))
	}
	c.Instances = rapid.SampledFrom([]int{1, 1, 1, 2, 3}).Draw(t, "instances")
	if rapid.IntRange(0, 3).Draw(t, "short") == 0 {
		c.N = rapid.IntRange(1, 60).Draw(t, "n")
	} else {
		c.N = rapid.IntRange(1025*c.Instances, 1200*c.Instances+1500).Draw(t, "n")
	}
	c.Salt = rapid.IntRange(0, 1000).Draw(t, "salt")
	return c
}

var seqSpec = pbt.Spec[SeqCase]{
	Property: "C12", Name: "pool",
	Rule:   "one compiled expression (either mode), 1-3 instances created through matchers.ToFactory, 1-7 distinct lines (generated as for spec) fed N times in a hashed order, N up to 5100 so that one instance hands out more than 1024 results (the size of its index pool); every call compared with the reference, every returned slice kept and re-read after the last call, line buffers unchanged. Non-trivial: some instance returned >1024 results and >=1 match; distinct by case JSON",
	Budget: pbt.Budget{Quick: 8000, Thorough: 120000},
	Gen:    genSeq, Check: checkSeq,
	Classify: func(c SeqCase) (bool, []string) {
		return c.Obs.Get("maxresults") > 1024 && c.Obs.Get("matches") > 0, c.Obs.All()
	},
}

func TestPool(t *testing.T) { pbt.Run(t, seqSpec) }

// ---------------------------------------------------------------------------
// native fuzzing (thorough tier): the same two oracles on raw bytes
// ---------------------------------------------------------------------------

func FuzzDissect(f *testing.F) {
	seeds := [][2]string{
		{"prefix %{name} : %{value} - %{?ignored}", "prefix bob : 123 - x"},
		{"prefix %{name} : %{value}", "prefix bob : 123"},
		{`%{ip} - - [%{timestamp}] "%{verb} %{path} HTTP/%{?http-version}" %{status} %{size} "-" "%{useragent}"`,
			`104.238.185.46 - - [19/Aug/2019:02:26:25 +0000] "GET / HTTP/1.1" 200 546 "-" "Mozilla/5.0 (StatusCake)"`},
		{"%{val};%{};%{?skip} - %{val2}", "Hello;a;b - there"},
		{"ûɾ %{key} ḝłįʈ", "ĉṓɲṩḙċťᶒțûɾ ấɖḯƥĭṩčįɳġ ḝłįʈ, șếᶑ"},
		{"mid %{val};%{val2} after", "string with mid 123;456 after k"},
		{"%{onlymatch}", "a b c"},
		{"", "hello"},
		{"TeSt1", "ATest123"},
		{"pref %{val} post", "a Pref 5 pOst"},
		{"unclosed %{", "x"},
		{"a %{a} %{a}", "a 1 2"},
		{"a %{a}%{b}", "a 12"},
		{"%{a}0%{a}0%{", "x0y0z"}, // two kinds of error at once (found by this target in the model)
		{"%{a}%", "x%"},
		{"%{x} 100%", "load 100% now"},
		{"%{a} 50% of %{b}", "x 50% of y"},
		{"a É %{x}", "a É val"},
		{"HTTP/1.1\" %{code} %{size}", `"GET / HTTP/1.1" 200 546`},
	}
	for _, s := range seeds {
		f.Add(s[0], []byte(s[1]), false)
		f.Add(s[0], []byte(s[1]), true)
	}
	if dir := os.Getenv("VERIF_CORPUS"); dir != "" {
		files, _ := filepath.Glob(filepath.Join(dir, "*.json"))
		sort.Strings(files)
		for _, fn := range files {
			raw, err := os.ReadFile(fn)
			if err != nil {
				continue
			}
			var rf struct {
				Case Batch `json:"case"`
			}
			if json.Unmarshal(raw, &rf) == nil {
				for _, it := range rf.Case.Items {
					for _, l := range it.Lines {
						f.Add(string(it.Pattern), []byte(l), true)
					}
				}
			}
		}
	}
	f.Fuzz(func(t *testing.T, expr string, line []byte, ignoreCase bool) {
		if len(expr) > 200 || len(line) > 400 {
			return
		}
		err := pbt.Guard(func() error {
			l := []pbt.S{pbt.S(line)}
			if err := checkSpec(expr, l, nil); err != nil || !ignoreCase {
				return err
			}
			return checkIcase(expr, l, nil)
		})
		if err != nil {
			t.Fatalf("%v", err)
		}
	})
}
