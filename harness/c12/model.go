// Package c12 decides property C12 (dissect matching equals its
// specification; ignore-case only adds matches; earlier results are not
// altered by later lines).
//
// This file is the reference model. It is written from the property
// statement and /repo/docs/usage/dissect.md, not from rare's code:
//
//	"Anything in a %{} is a variable token."            -> Parse: a token is "%{" up to the next "}"
//	"A blank token, or a token that starts with ? is skipped"
//	"Tokens are extracted by both name and index (in the order they appear)"
//	"Index {0} is the full match, including the delimiters"
//	"Patterns don't need to match the entire line"
//	statement: first occurrence of the leading literal; every token takes the
//	text up to the first following occurrence of its trailing literal, to the
//	end of line if it has none; skipped tokens consume without capturing.
package c12

import "strings"

// Token is one %{...} with the literal that follows it.
type Token struct {
	Name  string // without the leading '?'
	Skip  bool   // %{} or %{?name}
	Delim string // literal text up to the next token / end of pattern
}

// Pattern is a parsed dissect expression.
type Pattern struct {
	Prefix string
	Tokens []Token
	// Errs lists the kinds of error the expression contains, in order of
	// appearance, without repeats: "unclosed", "sequential", "conflict".
	Errs []string
	// Ambiguous is non-empty when docs and statement do not say how the
	// expression reads; such expressions are not judged.
	Ambiguous string
}

func (p *Pattern) addErr(kind string) {
	for _, e := range p.Errs {
		if e == kind {
			return
		}
	}
	p.Errs = append(p.Errs, kind)
}

// Parse reads an expression left to right: "%{" opens a token that runs to
// the next "}", everything else is literal text (a '%' not followed by '{'
// and a '}' outside a token are ordinary characters: the docs define no
// other special sequence and no escape).
func Parse(expr string) Pattern {
	var p Pattern
	var lit []byte
	closeLiteral := func() {
		if n := len(p.Tokens); n == 0 {
			p.Prefix = string(lit)
		} else {
			p.Tokens[n-1].Delim = string(lit)
		}
		lit = lit[:0]
	}
	open := false
	for i := 0; i < len(expr); {
		if expr[i] != '%' || i+1 >= len(expr) || expr[i+1] != '{' {
			lit = append(lit, expr[i])
			i++
			continue
		}
		closeLiteral()
		if n := len(p.Tokens); n > 0 && p.Tokens[n-1].Delim == "" {
			p.addErr("sequential") // two tokens with nothing between them
		}
		body := expr[i+2:]
		j := strings.IndexByte(body, '}')
		if j < 0 {
			p.addErr("unclosed") // the rest of the expression is the open token
			open = true
			break
		}
		name := body[:j]
		tok := Token{Name: name}
		switch {
		case name == "":
			tok.Skip = true
		case name[0] == '?':
			tok.Skip = true
			tok.Name = name[1:]
		}
		if strings.IndexByte(name, '{') >= 0 {
			p.Ambiguous = "token name contains '{' (nested or unclosed token?)"
		}
		p.Tokens = append(p.Tokens, tok)
		i += 2 + j + 1
	}
	if !open {
		closeLiteral()
	}
	// the tokens read so far are judged even when a later one is unclosed: an
	// expression may hold several kinds of error, and which one is reported
	// is not specified
	captured := map[string]bool{} // membership only, never iterated
	for _, t := range p.Tokens {
		if t.Skip {
			continue
		}
		if captured[t.Name] {
			p.addErr("conflict")
		}
		captured[t.Name] = true
	}
	for _, t := range p.Tokens {
		if t.Skip && t.Name != "" && captured[t.Name] {
			p.Ambiguous = "a skipped token carries the name of a captured one"
		}
	}
	return p
}

// Groups is the number of capturing tokens.
func (p Pattern) Groups() int {
	n := 0
	for _, t := range p.Tokens {
		if !t.Skip {
			n++
		}
	}
	return n
}

// Names maps each captured name to its index (1-based, order of appearance).
func (p Pattern) Names() map[string]int {
	m := map[string]int{}
	n := 0
	for _, t := range p.Tokens {
		if !t.Skip {
			n++
			m[t.Name] = n
		}
	}
	return m
}

// Literals returns the leading literal and every delimiter.
func (p Pattern) Literals() []string {
	out := []string{p.Prefix}
	for _, t := range p.Tokens {
		out = append(out, t.Delim)
	}
	return out
}

// Match is the specification: nil when the line does not match, otherwise
// [start0, end0, start1, end1, ...] with one pair per capturing token.
// Offsets are derived from the lengths of the pieces the line is cut into.
func (p Pattern) Match(line string) []int {
	before, rest, found := strings.Cut(line, p.Prefix) // first occurrence; "" is found at 0
	if !found {
		return nil
	}
	res := []int{len(before), 0}
	for _, t := range p.Tokens {
		var text string
		if t.Delim == "" {
			text, rest = rest, "" // no trailing literal: to the end of the line
		} else {
			text, rest, found = strings.Cut(rest, t.Delim) // first following occurrence
			if !found {
				return nil
			}
		}
		if !t.Skip {
			end := len(line) - len(rest) - len(t.Delim)
			res = append(res, end-len(text), end)
		}
	}
	res[1] = len(line) - len(rest) // through the last delimiter
	return res
}

// LowerASCII maps 'A'..'Z' to 'a'..'z' and leaves every other byte alone.
func LowerASCII(s string) string {
	b := []byte(s)
	for i, c := range b {
		if 'A' <= c && c <= 'Z' {
			b[i] = c + ('a' - 'A')
		}
	}
	return string(b)
}

// IsASCII reports whether every byte is below 0x80.
func IsASCII(s string) bool {
	for i := 0; i < len(s); i++ {
		if s[i] >= 0x80 {
			return false
		}
	}
	return true
}

// Lowered is the pattern with every literal lower-cased (ASCII); token names
// are untouched.
func (p Pattern) Lowered() Pattern {
	q := Pattern{Prefix: LowerASCII(p.Prefix)}
	for _, t := range p.Tokens {
		t.Delim = LowerASCII(t.Delim)
		q.Tokens = append(q.Tokens, t)
	}
	return q
}
