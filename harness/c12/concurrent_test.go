// C12, sub-property "pool-concurrent": instances obtained from ONE factory (as the extractor's workers obtain
// them) used at the same time from several goroutines. Same oracle as "pool": every call equals the reference, and
// every returned slice still reads the same after all goroutines have finished.
package c12

import (
	"fmt"
	"runtime"
	"sync"
	"testing"

	"pgregory.net/rapid"
	"rare/pkg/matchers"
	"rare/pkg/matchers/dissect"
	"verifharness/pbt"
)

func checkSeqConcurrent(c SeqCase) error {
	expr := string(c.Pattern)
	p := Parse(expr)
	if p.Ambiguous != "" || len(p.Errs) > 0 || len(c.Lines) == 0 || c.Instances < 2 {
		return nil
	}
	if runtime.GOMAXPROCS(0) < 4 {
		runtime.GOMAXPROCS(8)
	}
	ascii := IsASCII(expr)
	cp, err := prepare(expr, c.IgnoreCase, c.Obs)
	if cp == nil {
		return err
	}
	fac := matchers.ToFactory[*dissect.DissectInstance](cp.d)
	want := make([][]int, len(c.Lines))
	known := make([]bool, len(c.Lines))
	for i, l := range c.Lines {
		s := string(l)
		switch {
		case !c.IgnoreCase:
			want[i], known[i] = p.Match(s), true
		case ascii && IsASCII(s):
			want[i], known[i] = p.Lowered().Match(LowerASCII(s)), true
		}
	}
	type kept struct {
		k, line    int
		live, copy []int
	}
	start := make(chan struct{})
	errs := make([]error, c.Instances)
	matched := make([]int, c.Instances)
	var wg sync.WaitGroup
	for g := 0; g < c.Instances; g++ {
		wg.Add(1)
		go func(g int) {
			defer wg.Done()
			inst := fac.CreateInstance() // each worker asks the factory for its own instance
			bufs := make([][]byte, len(c.Lines))
			for i, l := range c.Lines {
				bufs[i] = []byte(string(l))
			}
			var all []kept
			<-start
			for k := 0; k < c.N; k++ {
				li := mix(k, c.Salt+g) % len(c.Lines)
				got := inst.FindSubmatchIndex(bufs[li])
				if len(got) == 0 {
					got = nil
				}
				if known[li] && !eqInts(got, want[li]) {
					errs[g] = fmt.Errorf("goroutine %d of %d, call %d: dissect %s ignoreCase=%v on line %s: got %s want %s (the same call made alone gives the wanted result)",
						g, c.Instances, k+1, pbt.Q([]byte(expr)), c.IgnoreCase, pbt.Q(bufs[li]), fmtIdx(got), fmtIdx(want[li]))
					return
				}
				if got != nil {
					matched[g]++
					all = append(all, kept{k, li, got, append([]int(nil), got...)})
				}
			}
			for _, r := range all {
				if !eqInts(r.live, r.copy) {
					errs[g] = fmt.Errorf("goroutine %d of %d: the result returned for call %d (line %s) was %v and reads %v after later calls (dissect %s ignoreCase=%v)",
						g, c.Instances, r.k+1, pbt.Q(bufs[r.line]), r.copy, r.live, pbt.Q([]byte(expr)), c.IgnoreCase)
					return
				}
			}
		}(g)
	}
	close(start)
	wg.Wait()
	total := 0
	for g, e := range errs {
		if e != nil {
			return e
		}
		total += matched[g]
	}
	c.Obs.Add("matches", total)
	c.Obs.Label(c.IgnoreCase, "ignore-case")
	c.Obs.Label(c.Instances >= 4, "goroutines>=4")
	c.Obs.Label(c.N > 1024, "pool-refilled-in-every-goroutine")
	c.Obs.Label(runtime.GOMAXPROCS(0) >= 2 && runtime.NumCPU() >= 2, "parallel")
	return nil
}

func genSeqConcurrent(t *rapid.T) SeqCase {
	c := genSeq(t)
	c.Instances = rapid.IntRange(2, 8).Draw(t, "goroutines")
	c.N = rapid.SampledFrom([]int{200, 1100, 2500}).Draw(t, "perGoroutine")
	return c
}

var seqConcSpec = pbt.Spec[SeqCase]{
	Property: "C12", Name: "pool-concurrent",
	Rule:   "one compiled expression, one matchers.ToFactory factory, 2-8 goroutines each asking the factory for an instance and feeding it 200-2500 of the case's 1-7 lines in its own hashed order, all released together (GOMAXPROCS >= 4); oracle of 'pool' per goroutine: every call equals the reference, every returned slice re-read after the goroutine's last call. Non-trivial: >=1 match",
	Budget: pbt.Budget{Quick: 1600, Thorough: 40000},
	Gen:    genSeqConcurrent, Check: checkSeqConcurrent,
	Classify: func(c SeqCase) (bool, []string) { return c.Obs.Get("matches") > 0, c.Obs.All() },
}

func TestPoolConcurrent(t *testing.T) { pbt.Run(t, seqConcSpec) }
