package c12

import (
	"bytes"
	"fmt"
	"os"
	"os/exec"
	"path/filepath"
	"sort"
	"strings"
	"testing"

	"pgregory.net/rapid"
	"verifharness/pbt"
)

// CLICase: `rare filter -d <Pattern> [-I] -e '{0}|{1}|...' file` over a file
// holding Lines (observation point "rare filter -d ... -I" of the property).
type CLICase struct {
	Pattern    pbt.S
	IgnoreCase bool
	Lines      []pbt.S
	Obs        *pbt.Obs `json:"-"`
}

var cliSeq int

func simpleName(s string) bool {
	if s == "" || s[0] < 'a' || s[0] > 'z' {
		return false
	}
	for i := 0; i < len(s); i++ {
		c := s[i]
		if !(('a' <= c && c <= 'z') || ('0' <= c && c <= '9')) {
			return false
		}
	}
	return true
}

func checkCLI(c CLICase) error {
	bin := os.Getenv("VERIF_RARE_BIN")
	if bin == "" {
		return nil
	}
	expr := string(c.Pattern)
	p := Parse(expr)
	if p.Ambiguous != "" || strings.IndexByte(expr, 0) >= 0 {
		return nil
	}
	// the key printed per matching line: every index, then every simple name
	// (a constant first, so that the key is never empty)
	keyParts := []string{"K"}
	for i := 0; i <= p.Groups(); i++ {
		keyParts = append(keyParts, fmt.Sprintf("{%d}", i))
	}
	var named []Token
	for _, t := range p.Tokens {
		if !t.Skip && simpleName(t.Name) {
			named = append(named, t)
			keyParts = append(keyParts, "{"+t.Name+"}")
		}
	}
	names := p.Names()
	var want []string
	if len(p.Errs) == 0 {
		for _, l := range c.Lines {
			s := string(l)
			var idx []int
			if c.IgnoreCase {
				idx = p.Lowered().Match(LowerASCII(s)) // generator keeps these cases ASCII
			} else {
				idx = p.Match(s)
			}
			if idx == nil {
				continue
			}
			parts := []string{"K"}
			for i := 0; i+1 < len(idx); i += 2 {
				parts = append(parts, s[idx[i]:idx[i+1]])
			}
			for _, t := range named {
				g := names[t.Name]
				parts = append(parts, s[idx[2*g]:idx[2*g+1]])
			}
			want = append(want, strings.Join(parts, "|"))
		}
	}
	dir := os.Getenv("VERIF_SCRATCH")
	if dir == "" {
		dir = os.TempDir()
	}
	cliSeq++
	fn := filepath.Join(dir, fmt.Sprintf("c12-cli-%d-%d.txt", os.Getpid(), cliSeq))
	var content bytes.Buffer
	for _, l := range c.Lines {
		content.WriteString(string(l))
		content.WriteByte('\n')
	}
	if err := os.WriteFile(fn, content.Bytes(), 0o644); err != nil {
		return nil // infrastructure, not a verdict
	}
	defer os.Remove(fn)
	args := []string{"--nocolor", "--notrim", "filter", "-d", expr, "-e", strings.Join(keyParts, "|")}
	if c.IgnoreCase {
		args = append(args, "-I")
	}
	args = append(args, fn)
	cmd := exec.Command(bin, args...)
	cmd.Env = []string{"HOME=" + dir, "PATH=/usr/bin:/bin", "TERM=dumb"}
	var stdout, stderr bytes.Buffer
	cmd.Stdout, cmd.Stderr = &stdout, &stderr
	runErr := cmd.Run()
	if _, isExit := runErr.(*exec.ExitError); runErr != nil && !isExit {
		return nil // could not start the binary: infrastructure
	}
	if len(p.Errs) > 0 {
		c.Obs.Label(true, "error-expression")
		if runErr == nil || stdout.Len() > 0 {
			return fmt.Errorf("rare filter -d %s: expression with error(s) %v was not refused (exit ok=%v, stdout %s, stderr %s)",
				pbt.Q([]byte(expr)), p.Errs, runErr == nil, pbt.Q(stdout.Bytes()), pbt.Q(stderr.Bytes()))
		}
		return nil
	}
	var got []string
	if out := stdout.String(); out != "" {
		got = strings.Split(strings.TrimSuffix(out, "\n"), "\n")
	}
	w := append([]string(nil), want...)
	sort.Strings(w)
	sort.Strings(got) // output order across workers is not promised
	c.Obs.Label(len(w) > 0, "some-lines-match")
	c.Obs.Label(len(w) < len(c.Lines), "some-lines-do-not-match")
	c.Obs.Label(c.IgnoreCase, "ignore-case")
	c.Obs.Label(len(named) > 0, "extract-by-name")
	c.Obs.Add("matches", len(w))
	c.Obs.Add("tokens", len(p.Tokens))
	if strings.Join(got, "\n") != strings.Join(w, "\n") || len(got) != len(w) {
		return fmt.Errorf("rare %s\n lines %s\n stdout (sorted) %q\n want   (sorted) %q\n stderr %s",
			strings.Join(quoteAll(args[:len(args)-1]), " "), quoteS(c.Lines), got, w, pbt.Q(stderr.Bytes()))
	}
	return nil
}

func quoteAll(in []string) []string {
	out := make([]string, len(in))
	for i, s := range in {
		out[i] = fmt.Sprintf("%q", s)
	}
	return out
}

func quoteS(in []pbt.S) string {
	var out []string
	for _, s := range in {
		out = append(out, fmt.Sprintf("%q", string(s)))
	}
	return "[" + strings.Join(out, " ") + "]"
}

// cliProfiles: printable text only (line splitting, control characters and
// invalid UTF-8 on a terminal are other properties' business); ignore-case
// cases are ASCII so that the statement fixes the result.
var cliUTF8 = profile{"utf8", append(append([]string{}, asciiPieces...), "é", "É", "ж", "Ж", "日")}

// cliBackslash: literals that look like escape sequences. The expression given with -d is dissect
// text, taken as typed: a backslash and the letter after it are two ordinary characters of a literal
// (the lines hold the same two characters, and also the character the sequence would denote).
var cliBackslash = profile{"ascii-backslash", append(append([]string{}, asciiPieces...), `\`, `\t`, `\n`, `\\`, `\x3d`, `\x3D`, `\u003d`, `\"`, `\`, "t", "n", "\t", "=", "x3d", `\%`)}

func genCLI(t *rapid.T) CLICase {
	ic := rapid.Bool().Draw(t, "ignoreCase")
	pr := profile{"ascii", asciiPieces}
	switch rapid.IntRange(0, 3).Draw(t, "cliProfile") {
	case 0:
		pr = profile{"ascii-wide", widePieces}
	case 1:
		if !ic {
			pr = cliUTF8
		}
	case 2:
		if rapid.Bool().Draw(t, "backslashes") {
			pr = cliBackslash
		}
	}
	g := genPattern(t, pr, ic)
	for i := range g.toks {
		if !IsASCII(g.toks[i].name) && ic {
			g.toks[i].name = fmt.Sprintf("n%d", i) // keep ignore-case cases all-ASCII
		}
	}
	c := CLICase{IgnoreCase: ic, Obs: pbt.NewObs()}
	n := rapid.IntRange(1, 12).Draw(t, "nlines")
	for i := 0; i < n; i++ {
		w := 3
		if ic {
			w = 8
		}
		l := genLine(t, pr, g, w, false)
		if ic && !IsASCII(l) { // utfSwap cannot introduce non-ASCII into ASCII text; defensive
			l = "a"
		}
		c.Lines = append(c.Lines, pbt.S(l))
	}
	expr := g.text()
	if rapid.IntRange(0, 15).Draw(t, "broken") == 0 {
		expr = breakPattern(t, g)
	}
	c.Pattern = pbt.S(expr)
	return c
}

var cliSpec = pbt.Spec[CLICase]{
	Property: "C12", Name: "cli",
	Rule:   "the rare binary: `rare filter -d EXPR [-I] -e 'K|{0}|{1}|..|{name}..' file` on 1-12 generated printable lines (ASCII, all printable ASCII, ASCII with backslash sequences such as \\t \\x3d \\\\ as literal text, or UTF-8 letters; ignore-case cases all-ASCII); oracle = multiset of keys the reference predicts for the matching lines (ignore-case: reference on lower-cased literals and line), expressions with errors refused with non-zero exit and empty stdout. Non-trivial: >=2 tokens and >=1 matching line; distinct by case JSON",
	Budget: pbt.Budget{Quick: 1280, Thorough: 24000},
	Gen:    genCLI, Check: checkCLI,
	Classify: func(c CLICase) (bool, []string) {
		return c.Obs.Get("tokens") >= 2 && c.Obs.Get("matches") >= 1, c.Obs.All()
	},
}

func TestCLI(t *testing.T) {
	if os.Getenv("VERIF_RARE_BIN") == "" {
		t.Skip("VERIF_RARE_BIN not set (checks.json: bin) - CLI observation skipped")
	}
	pbt.Run(t, cliSpec)
}
