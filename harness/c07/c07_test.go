// C07 — aggregators compute the exact fold of their sample history.
package c07

import (
	"fmt"
	"math"
	"math/big"
	"sort"
	"strconv"
	"strings"
	"testing"

	"pgregory.net/rapid"
	"rare/pkg/aggregation"
	"rare/pkg/aggregation/sorting"
	"rare/pkg/expressions/funclib"
	"verifharness/pbt"
)

const sep = "\x00"

// ---------- reference pieces --------------------------------------------

// split on the whole delimiter (reference, via the standard library)
func refSplit(s, delim string) []string { return strings.Split(s, delim) }

func parseInc(s string) (int64, bool) {
	v, err := strconv.ParseInt(s, 10, 64)
	return v, err == nil
}

// ---------- generators -----------------------------------------------------

var smallKeys = []string{"a", "b", "ab", "", "B", "0", "10", "9"}
var oddKeys = []string{"", " ", "  x", "é", "\xff\xfe", "a,b", "a\"b", "long-" + strings.Repeat("k", 40), "x\ny", "\x1b[31mred", "-1", "1.5"}
var incs = []string{"1", "2", "0", "-1", "-7", "+5", "9223372036854775807", "-9223372036854775808", "4611686018427387904", "1.5", "abc", "", " 3", "0x10", "1e3", "99999999999999999999",
	// one past either end of int64 (19 digits, like the limits themselves), 2^64: not an int64, a parse error
	"9223372036854775808", "-9223372036854775809", "9999999999999999999", "18446744073709551616", "-0", "007", "-", "+", "1_0"}

func genKey(t *rapid.T, label string) string {
	switch rapid.IntRange(0, 9).Draw(t, label+"class") {
	case 0, 1:
		return rapid.SampledFrom(oddKeys).Draw(t, label)
	case 2:
		return rapid.StringMatching(`[a-c]{0,3}`).Draw(t, label)
	default:
		return rapid.SampledFrom(smallKeys).Draw(t, label)
	}
}

func genInc(t *rapid.T) string { return rapid.SampledFrom(incs).Draw(t, "inc") }

// ---------- counter ----------------------------------------------------------

type CounterCase struct {
	Samples []pbt.S
	Perm    []int // a permutation of the indexes, for the order-independence relation
}

type counterModel struct {
	counts map[string]*big.Int
	total  *big.Int
	errs   uint64
}

func wrap64(b *big.Int) int64 {
	m := new(big.Int).And(b, new(big.Int).SetUint64(math.MaxUint64))
	return int64(m.Uint64())
}

func (m *counterModel) sample(s string) {
	parts := refSplit(s, sep)
	key := parts[0]
	inc := int64(1)
	if len(parts) >= 2 {
		v, ok := parseInc(parts[1])
		if !ok {
			m.errs++
			return
		}
		inc = v
	}
	if m.counts[key] == nil {
		m.counts[key] = new(big.Int)
	}
	m.counts[key].Add(m.counts[key], big.NewInt(inc))
	m.total.Add(m.total, big.NewInt(inc))
}

func compareCounter(c *aggregation.MatchCounter, m *counterModel, step int) error {
	if c.GroupCount() != len(m.counts) {
		return fmt.Errorf("step %d: GroupCount=%d, fold has %d keys", step, c.GroupCount(), len(m.counts))
	}
	if c.Total() != wrap64(m.total) {
		return fmt.Errorf("step %d: Total=%d, fold gives %d", step, c.Total(), wrap64(m.total))
	}
	if c.ParseErrors() != m.errs {
		return fmt.Errorf("step %d: ParseErrors=%d, fold gives %d", step, c.ParseErrors(), m.errs)
	}
	items := c.Items()
	if len(items) != len(m.counts) {
		return fmt.Errorf("step %d: Items() has %d entries, fold has %d", step, len(items), len(m.counts))
	}
	seen := map[string]bool{}
	for _, it := range items {
		if seen[it.Name] {
			return fmt.Errorf("step %d: key %q listed twice", step, it.Name)
		}
		seen[it.Name] = true
		w, ok := m.counts[it.Name]
		if !ok {
			return fmt.Errorf("step %d: unexpected key %q", step, it.Name)
		}
		if it.Item.Count() != wrap64(w) {
			return fmt.Errorf("step %d: key %q count=%d, fold gives %d", step, it.Name, it.Item.Count(), wrap64(w))
		}
	}
	return nil
}

func checkCounter(c CounterCase) error {
	agg := aggregation.NewCounter()
	m := &counterModel{counts: map[string]*big.Int{}, total: new(big.Int)}
	for i, s := range c.Samples {
		agg.Sample(string(s))
		m.sample(string(s))
		if err := compareCounter(agg, m, i+1); err != nil {
			return err
		}
	}
	if len(c.Perm) == len(c.Samples) && len(c.Perm) > 0 {
		agg2 := aggregation.NewCounter()
		for _, j := range c.Perm {
			agg2.Sample(string(c.Samples[j]))
		}
		if err := compareCounter(agg2, m, -1); err != nil {
			return fmt.Errorf("permuted history differs: %v", err)
		}
		// sorted views agree too
		a := agg.ItemsSortedBy(1000, sorting.NVNameSorter)
		b := agg2.ItemsSortedBy(1000, sorting.NVNameSorter)
		for i := range a {
			if a[i].Name != b[i].Name || a[i].Item.Count() != b[i].Item.Count() {
				return fmt.Errorf("permuted history: sorted item %d differs (%q/%d vs %q/%d)", i, a[i].Name, a[i].Item.Count(), b[i].Name, b[i].Item.Count())
			}
		}
	}
	return nil
}

func genSamples(t *rapid.T, parts int, maxLen int) []pbt.S {
	n := rapid.IntRange(0, maxLen).Draw(t, "n")
	out := make([]pbt.S, n)
	for i := range out {
		var sb strings.Builder
		sb.WriteString(genKey(t, "key"))
		np := parts
		// sometimes fewer / more parts than the aggregator reads
		switch rapid.IntRange(0, 11).Draw(t, "shape") {
		case 0:
			np = parts - 1
		case 1:
			np = parts + 1
		case 2:
			np = parts + 2
		}
		for p := 1; p < np; p++ {
			sb.WriteString(sep)
			sb.WriteString(genKey(t, "sub"))
		}
		if rapid.IntRange(0, 2).Draw(t, "hasinc") > 0 {
			sb.WriteString(sep)
			sb.WriteString(genInc(t))
		}
		out[i] = pbt.S(sb.String())
	}
	return out
}

func genPerm(t *rapid.T, n int) []int {
	p := make([]int, n)
	for i := range p {
		p[i] = i
	}
	for i := n - 1; i > 0; i-- {
		j := rapid.IntRange(0, i).Draw(t, "perm")
		p[i], p[j] = p[j], p[i]
	}
	return p
}

func distinctKeys(samples []pbt.S, part int) int {
	m := map[string]bool{}
	for _, s := range samples {
		ps := refSplit(string(s), sep)
		if part < len(ps) {
			m[ps[part]] = true
		}
	}
	return len(m)
}

func TestCounter(t *testing.T) {
	pbt.Run(t, pbt.Spec[CounterCase]{
		Property: "C07", Name: "counter",
		Rule:   "history of 0..60 samples key[NUL inc][NUL extra] (keys from tiny + hostile alphabets; incs absent/0/negative/+5/MaxInt64/MinInt64/non-numeric) compared to a big.Int fold after every prefix, plus a generated permutation; non-trivial: >=4 samples, >=2 distinct keys",
		Budget: pbt.Budget{Quick: 40000, Thorough: 1500000},
		Gen: func(t *rapid.T) CounterCase {
			s := genSamples(t, 1, 60)
			return CounterCase{Samples: s, Perm: genPerm(t, len(s))}
		},
		Check: checkCounter,
		Classify: func(c CounterCase) (bool, []string) {
			var l pbt.Labels
			hasBad, hasNeg := false, false
			for _, s := range c.Samples {
				ps := refSplit(string(s), sep)
				if len(ps) > 1 {
					if v, ok := parseInc(ps[1]); !ok {
						hasBad = true
					} else if v < 0 {
						hasNeg = true
					}
				}
			}
			l.Add(hasBad, "non-numeric-increment")
			l.Add(hasNeg, "negative-increment")
			return len(c.Samples) >= 4 && distinctKeys(c.Samples, 0) >= 2, l
		},
	})
}

// ---------- sub-key counter ------------------------------------------------

type subModel struct {
	rows map[string]map[string]*big.Int
	tot  map[string]*big.Int
	subs map[string]bool
	errs uint64
}

func (m *subModel) sample(s string) {
	parts := refSplit(s, sep)
	key := parts[0]
	sub := ""
	if len(parts) >= 2 {
		sub = parts[1]
	}
	inc := int64(1)
	if len(parts) >= 3 {
		v, ok := parseInc(parts[2])
		if !ok {
			m.errs++
			return
		}
		inc = v
	}
	if m.rows[key] == nil {
		m.rows[key] = map[string]*big.Int{}
		m.tot[key] = new(big.Int)
	}
	if m.rows[key][sub] == nil {
		m.rows[key][sub] = new(big.Int)
	}
	m.rows[key][sub].Add(m.rows[key][sub], big.NewInt(inc))
	m.tot[key].Add(m.tot[key], big.NewInt(inc))
	m.subs[sub] = true
}

func compareSub(c *aggregation.SubKeyCounter, m *subModel, step int) error {
	if c.ParseErrors() != m.errs {
		return fmt.Errorf("step %d: ParseErrors=%d, fold gives %d", step, c.ParseErrors(), m.errs)
	}
	want := make([]string, 0, len(m.subs))
	for k := range m.subs {
		want = append(want, k)
	}
	sort.Strings(want)
	got := c.SubKeys()
	if len(got) != len(want) {
		return fmt.Errorf("step %d: SubKeys=%q, want %q", step, got, want)
	}
	for i := range want {
		if got[i] != want[i] {
			return fmt.Errorf("step %d: SubKeys=%q, want sorted %q", step, got, want)
		}
	}
	items := c.Items()
	if len(items) != len(m.rows) {
		return fmt.Errorf("step %d: %d rows, fold has %d", step, len(items), len(m.rows))
	}
	for _, it := range items {
		row, ok := m.rows[it.Name]
		if !ok {
			return fmt.Errorf("step %d: unexpected key %q", step, it.Name)
		}
		if it.Item.Count() != wrap64(m.tot[it.Name]) {
			return fmt.Errorf("step %d: key %q total=%d, fold gives %d", step, it.Name, it.Item.Count(), wrap64(m.tot[it.Name]))
		}
		vals := it.Item.Items()
		if len(vals) != len(want) {
			return fmt.Errorf("step %d: key %q has %d values for %d sub-keys (misaligned)", step, it.Name, len(vals), len(want))
		}
		for i, sk := range want {
			w := int64(0)
			if row[sk] != nil {
				w = wrap64(row[sk])
			}
			if vals[i] != w {
				return fmt.Errorf("step %d: key %q sub-key %q = %d, fold gives %d (values %v, sub-keys %q)", step, it.Name, sk, vals[i], w, vals, want)
			}
		}
	}
	return nil
}

func checkSub(c CounterCase) error {
	agg := aggregation.NewSubKeyCounter()
	m := &subModel{rows: map[string]map[string]*big.Int{}, tot: map[string]*big.Int{}, subs: map[string]bool{}}
	for i, s := range c.Samples {
		agg.Sample(string(s))
		m.sample(string(s))
		if err := compareSub(agg, m, i+1); err != nil {
			return err
		}
	}
	if len(c.Perm) == len(c.Samples) && len(c.Perm) > 0 {
		agg2 := aggregation.NewSubKeyCounter()
		for _, j := range c.Perm {
			agg2.Sample(string(c.Samples[j]))
		}
		if err := compareSub(agg2, m, -1); err != nil {
			return fmt.Errorf("permuted history differs: %v", err)
		}
	}
	return nil
}

func insertsBefore(samples []pbt.S, part int) bool {
	seen := []string{}
	for _, s := range samples {
		ps := refSplit(string(s), sep)
		k := ""
		if part < len(ps) {
			k = ps[part]
		}
		isNew := true
		for _, x := range seen {
			if x == k {
				isNew = false
			}
		}
		if isNew {
			for _, x := range seen {
				if k < x {
					return true
				}
			}
			seen = append(seen, k)
		}
	}
	return false
}

func TestSubKey(t *testing.T) {
	pbt.Run(t, pbt.Spec[CounterCase]{
		Property: "C07", Name: "subkey",
		Rule:   "history of 0..60 samples key NUL subkey [NUL inc] vs. a big.Int fold after every prefix (sorted sub-key list, per-row value slice aligned with it, row totals, parse errors) + permutation; non-trivial: >=4 samples, >=2 keys and a new sub-key that sorts before an existing one",
		Budget: pbt.Budget{Quick: 40000, Thorough: 1500000},
		Gen: func(t *rapid.T) CounterCase {
			s := genSamples(t, 2, 60)
			return CounterCase{Samples: s, Perm: genPerm(t, len(s))}
		},
		Check: checkSub,
		Classify: func(c CounterCase) (bool, []string) {
			ib := insertsBefore(c.Samples, 1)
			var l pbt.Labels
			l.Add(ib, "subkey-inserted-before-existing")
			return len(c.Samples) >= 4 && distinctKeys(c.Samples, 0) >= 2 && ib, l
		},
	})
}

// ---------- table ------------------------------------------------------------

type TrimSpec struct {
	Kind   string // cols | rows | value | cell
	Names  []pbt.S
	Thresh int64
	Mod    int
}

type TableCase struct {
	Delim   pbt.S
	Samples []pbt.S
	Perm    []int
	Trim    *TrimSpec
}

type tableModel struct {
	cells map[string]map[string]*big.Int // row -> col -> value
	cols  map[string]bool
	errs  uint64
}

func (m *tableModel) sample(s, delim string) {
	parts := refSplit(s, delim)
	col := parts[0]
	row := ""
	if len(parts) >= 2 {
		row = parts[1]
	}
	inc := int64(1)
	if len(parts) >= 3 {
		v, ok := parseInc(parts[2])
		if !ok {
			m.errs++
			return
		}
		inc = v
	}
	if m.cells[row] == nil {
		m.cells[row] = map[string]*big.Int{}
	}
	if m.cells[row][col] == nil {
		m.cells[row][col] = new(big.Int)
	}
	m.cells[row][col].Add(m.cells[row][col], big.NewInt(inc))
	m.cols[col] = true
}

func compareTable(tb *aggregation.TableAggregator, m *tableModel, step int, totals bool) error {
	if tb.ParseErrors() != m.errs {
		return fmt.Errorf("step %d: ParseErrors=%d, fold gives %d", step, tb.ParseErrors(), m.errs)
	}
	if tb.RowCount() != len(m.cells) {
		return fmt.Errorf("step %d: RowCount=%d, fold has %d rows", step, tb.RowCount(), len(m.cells))
	}
	if tb.ColumnCount() != len(m.cols) {
		return fmt.Errorf("step %d: ColumnCount=%d, fold has %d columns (%v)", step, tb.ColumnCount(), len(m.cols), pbt.SortedKeys(m.cols))
	}
	for _, c := range tb.Columns() {
		if !m.cols[c] {
			return fmt.Errorf("step %d: unexpected column %q", step, c)
		}
	}
	grand := new(big.Int)
	colTot := map[string]*big.Int{}
	minV, maxV := int64(math.MaxInt64), int64(math.MinInt64)
	any := false
	rows := tb.Rows()
	if len(rows) != len(m.cells) {
		return fmt.Errorf("step %d: Rows() has %d entries, fold %d", step, len(rows), len(m.cells))
	}
	for _, r := range rows {
		mr, ok := m.cells[r.Name()]
		if !ok {
			return fmt.Errorf("step %d: unexpected row %q", step, r.Name())
		}
		rs := new(big.Int)
		for c := range m.cols {
			w := int64(0)
			if mr[c] != nil {
				w = wrap64(mr[c])
				rs.Add(rs, mr[c])
				if colTot[c] == nil {
					colTot[c] = new(big.Int)
				}
				colTot[c].Add(colTot[c], mr[c])
			}
			if r.Value(c) != w {
				return fmt.Errorf("step %d: cell (row %q, col %q) = %d, fold gives %d", step, r.Name(), c, r.Value(c), w)
			}
			any = true
			if w < minV {
				minV = w
			}
			if w > maxV {
				maxV = w
			}
		}
		grand.Add(grand, rs)
		if totals && r.Sum() != wrap64(rs) {
			return fmt.Errorf("step %d: row %q Sum=%d, cells add up to %d", step, r.Name(), r.Sum(), wrap64(rs))
		}
	}
	if totals {
		for c := range m.cols {
			w := int64(0)
			if colTot[c] != nil {
				w = wrap64(colTot[c])
			}
			if tb.ColTotal(c) != w {
				return fmt.Errorf("step %d: ColTotal(%q)=%d, cells add up to %d", step, c, tb.ColTotal(c), w)
			}
		}
		if tb.Sum() != wrap64(grand) {
			return fmt.Errorf("step %d: Sum=%d, cells add up to %d", step, tb.Sum(), wrap64(grand))
		}
	}
	if !any {
		minV, maxV = 0, 0
	}
	gmin, gmax := tb.ComputeMinMax()
	if gmin != minV || gmax != maxV {
		return fmt.Errorf("step %d: ComputeMinMax=(%d,%d), full grid with absent=0 gives (%d,%d)", step, gmin, gmax, minV, maxV)
	}
	return nil
}

func (ts *TrimSpec) pred() func(col, row string, val int64) bool {
	set := map[string]bool{}
	for _, n := range ts.Names {
		set[string(n)] = true
	}
	switch ts.Kind {
	case "cols":
		return func(col, row string, val int64) bool { return set[col] }
	case "rows":
		return func(col, row string, val int64) bool { return set[row] }
	case "value":
		return func(col, row string, val int64) bool { return val < ts.Thresh }
	default:
		mod := ts.Mod
		if mod < 1 {
			mod = 2
		}
		return func(col, row string, val int64) bool {
			h := 0
			for _, b := range []byte(col + "|" + row) {
				h = h*31 + int(b)
			}
			if h < 0 {
				h = -h
			}
			return h%mod == 0
		}
	}
}

func checkTable(c TableCase) error {
	delim := string(c.Delim)
	tb := aggregation.NewTable(delim)
	m := &tableModel{cells: map[string]map[string]*big.Int{}, cols: map[string]bool{}}
	for i, s := range c.Samples {
		tb.Sample(string(s))
		m.sample(string(s), delim)
		if err := compareTable(tb, m, i+1, true); err != nil {
			return err
		}
	}
	if len(c.Perm) == len(c.Samples) && len(c.Perm) > 0 {
		tb2 := aggregation.NewTable(delim)
		for _, j := range c.Perm {
			tb2.Sample(string(c.Samples[j]))
		}
		if err := compareTable(tb2, m, -1, true); err != nil {
			return fmt.Errorf("permuted history differs: %v", err)
		}
	}
	if c.Trim != nil {
		p := c.Trim.pred()
		tb.Trim(p)
		// reference: remove exactly the selected cells, then empty rows and columns
		for rn, row := range m.cells {
			for cn, v := range row {
				if p(cn, rn, wrap64(v)) {
					delete(row, cn)
				}
			}
			if len(row) == 0 {
				delete(m.cells, rn)
			}
		}
		for cn := range m.cols {
			used := false
			for _, row := range m.cells {
				if _, ok := row[cn]; ok {
					used = true
				}
			}
			if !used {
				delete(m.cols, cn)
			}
		}
		if err := compareTableAfterTrim(tb, m); err != nil {
			return fmt.Errorf("after Trim(%s %q <%d %%%d): %v", c.Trim.Kind, c.Trim.Names, c.Trim.Thresh, c.Trim.Mod, err)
		}
		// min/max are defined over the cells the table holds (absent = 0): after the trim that is the
		// remaining grid (spark trims and then scales by these two numbers). They were read before the
		// trim as well (compareTable after the last sample), so a remembered answer is seen here.
		var wmin, wmax int64
		first := true
		for rn := range m.cells {
			for cn := range m.cols {
				v := int64(0)
				if m.cells[rn][cn] != nil {
					v = wrap64(m.cells[rn][cn])
				}
				if first || v < wmin {
					wmin = v
				}
				if first || v > wmax {
					wmax = v
				}
				first = false
			}
		}
		if gmin, gmax := tb.ComputeMinMax(); gmin != wmin || gmax != wmax {
			return fmt.Errorf("after Trim(%s %q <%d %%%d): ComputeMinMax=(%d,%d), remaining grid with absent=0 gives (%d,%d)", c.Trim.Kind, c.Trim.Names, c.Trim.Thresh, c.Trim.Mod, gmin, gmax, wmin, wmax)
		}
	}
	return nil
}

// after a trim only cell membership is compared (the statement constrains
// which cells remain, not the redundant totals).
func compareTableAfterTrim(tb *aggregation.TableAggregator, m *tableModel) error {
	gotRows := map[string]*aggregation.TableRow{}
	for _, r := range tb.Rows() {
		gotRows[r.Name()] = r
	}
	for rn := range m.cells {
		if gotRows[rn] == nil {
			return fmt.Errorf("row %q lost although it keeps cells %v", rn, keysOf(m.cells[rn]))
		}
	}
	for rn := range gotRows {
		if m.cells[rn] == nil {
			return fmt.Errorf("row %q still present although all its cells were selected", rn)
		}
	}
	gotCols := map[string]bool{}
	for _, c := range tb.Columns() {
		gotCols[c] = true
	}
	for cn := range m.cols {
		if !gotCols[cn] {
			return fmt.Errorf("column %q lost although it keeps cells", cn)
		}
	}
	for cn := range gotCols {
		if !m.cols[cn] {
			return fmt.Errorf("column %q still present although no cell of it remains", cn)
		}
	}
	for rn, row := range m.cells {
		for cn := range m.cols {
			w := int64(0)
			if row[cn] != nil {
				w = wrap64(row[cn])
			}
			if g := gotRows[rn].Value(cn); g != w {
				return fmt.Errorf("cell (row %q, col %q) = %d, want %d", rn, cn, g, w)
			}
		}
	}
	return nil
}

func keysOf(m map[string]*big.Int) []string {
	var ks []string
	for k := range m {
		ks = append(ks, k)
	}
	sort.Strings(ks)
	return ks
}

var delims = []string{sep, sep, sep, ",", "::", ", ", "→", "ab", "aa"}

func genTable(t *rapid.T) TableCase {
	delim := rapid.SampledFrom(delims).Draw(t, "delim")
	n := rapid.IntRange(0, 50).Draw(t, "n")
	c := TableCase{Delim: pbt.S(delim)}
	for i := 0; i < n; i++ {
		var sb strings.Builder
		sb.WriteString(genKey(t, "col"))
		shape := rapid.IntRange(0, 9).Draw(t, "shape")
		if shape > 0 {
			sb.WriteString(delim)
			sb.WriteString(genKey(t, "row"))
			if shape > 4 {
				sb.WriteString(delim)
				sb.WriteString(genInc(t))
				if shape == 9 {
					sb.WriteString(delim)
					sb.WriteString("extra")
				}
			}
		}
		c.Samples = append(c.Samples, pbt.S(sb.String()))
	}
	c.Perm = genPerm(t, n)
	if rapid.Bool().Draw(t, "trim") {
		ts := &TrimSpec{Kind: rapid.SampledFrom([]string{"cols", "rows", "value", "cell"}).Draw(t, "trimkind")}
		for i := 0; i < rapid.IntRange(0, 3).Draw(t, "ntrim"); i++ {
			ts.Names = append(ts.Names, pbt.S(genKey(t, "trimname")))
		}
		ts.Thresh = int64(rapid.IntRange(-3, 4).Draw(t, "thresh"))
		ts.Mod = rapid.IntRange(1, 4).Draw(t, "mod")
		c.Trim = ts
	}
	return c
}

func TestTable(t *testing.T) {
	pbt.Run(t, pbt.Spec[TableCase]{
		Property: "C07", Name: "table",
		Rule:   "history of 0..50 samples col<delim>row[<delim>inc] with delimiters of 1..3 bytes (NUL, ',', '::', ', ', multi-byte rune, self-overlapping 'aa') vs. a big.Int fold after every prefix (cells, row/column/grand totals, min/max over the full grid, parse errors) + permutation + optional Trim with column-set/row-set/value/cell predicates; non-trivial: >=4 samples, >=2 rows and >=2 columns",
		Budget: pbt.Budget{Quick: 40000, Thorough: 1500000},
		Gen:    genTable, Check: checkTable,
		Classify: func(c TableCase) (bool, []string) {
			m := &tableModel{cells: map[string]map[string]*big.Int{}, cols: map[string]bool{}}
			for _, s := range c.Samples {
				m.sample(string(s), string(c.Delim))
			}
			var l pbt.Labels
			l.Add(len(c.Delim) > 1, "multi-byte-delimiter")
			l.Add(c.Trim != nil, "trim")
			if c.Trim != nil {
				l.Add(true, "trim-"+c.Trim.Kind)
			}
			return len(c.Samples) >= 4 && len(m.cells) >= 2 && len(m.cols) >= 2, l
		},
	})
}

// ---------- numerical ----------------------------------------------------------

type NumCase struct {
	Samples   []pbt.S
	Reverse   bool
	Quantiles []float64
	// AnalyzeAt: after this many samples the full comparison (incl. Analyze(),
	// which orders the kept values in place) runs on the prefix, as the render
	// callback of `rare analyze -x` does every 100 ms while samples keep coming.
	AnalyzeAt []int
}

var numPool = []string{"0", "1", "-1", "2", "2", "3", "0.5", "-0.5", "1e3", "1000000", "-1e9", "123456789.125", "1e-9", "7", "7", "7", "1e15", "42", "+4", "0010", "abc", "", " 1", "1,0", "--1"}

func checkNum(c NumCase) error {
	cfg := aggregation.NumericalConfig{Reverse: c.Reverse, KeepValuesForAnalysis: true}
	agg := aggregation.NewNumericalAggregator(&cfg)
	var vals []float64
	var errs uint64
	at := map[int]bool{}
	for _, k := range c.AnalyzeAt {
		at[k] = true
	}
	for i, s := range c.Samples {
		agg.Sample(string(s))
		v, err := strconv.ParseFloat(string(s), 64)
		if err != nil {
			errs++
		} else {
			vals = append(vals, v)
		}
		if at[i+1] && i+1 < len(c.Samples) {
			if err := verifyNum(c, agg, vals, errs); err != nil {
				return fmt.Errorf("after %d of %d samples (intermediate analysis): %v", i+1, len(c.Samples), err)
			}
		}
	}
	return verifyNum(c, agg, vals, errs)
}

func verifyNum(c NumCase, agg *aggregation.MatchNumerical, vals []float64, errs uint64) error {
	if agg.Count() != uint64(len(vals)) {
		return fmt.Errorf("Count=%d, fold gives %d", agg.Count(), len(vals))
	}
	if agg.ParseErrors() != errs {
		return fmt.Errorf("ParseErrors=%d, fold gives %d", agg.ParseErrors(), errs)
	}
	if len(vals) == 0 {
		return nil
	}
	// two-pass big.Float reference
	prec := uint(200)
	sum := new(big.Float).SetPrec(prec)
	mx, mn := math.Inf(-1), math.Inf(1)
	scaleV := 1.0
	for _, v := range vals {
		sum.Add(sum, new(big.Float).SetPrec(prec).SetFloat64(v))
		mx = math.Max(mx, v)
		mn = math.Min(mn, v)
		scaleV = math.Max(scaleV, math.Abs(v))
	}
	n := new(big.Float).SetPrec(prec).SetInt64(int64(len(vals)))
	mean := new(big.Float).SetPrec(prec).Quo(sum, n)
	ss := new(big.Float).SetPrec(prec)
	for _, v := range vals {
		d := new(big.Float).SetPrec(prec).Sub(new(big.Float).SetPrec(prec).SetFloat64(v), mean)
		ss.Add(ss, d.Mul(d, d))
	}
	meanF, _ := mean.Float64()
	std := 0.0
	if len(vals) > 1 {
		vr := new(big.Float).SetPrec(prec).Quo(ss, new(big.Float).SetPrec(prec).SetInt64(int64(len(vals)-1)))
		vf, _ := vr.Float64()
		std = math.Sqrt(vf)
	}
	if agg.Min() != mn || agg.Max() != mx {
		return fmt.Errorf("Min/Max=(%v,%v), want (%v,%v)", agg.Min(), agg.Max(), mn, mx)
	}
	// Tolerance: a backward-stable one-pass mean / variance (running mean,
	// Welford) is off by at most about n*eps*max|x| in absolute terms (its
	// relative error is n*eps*kappa with kappa = rms(x)/sigma; times sigma
	// that is n*eps*rms(x)). 64x that bound is allowed. A formula that
	// squares the offset (sum of squares minus n*mean^2) is off by
	// n*eps*max|x|^2/sigma - orders of magnitude more on clustered data.
	tol := 64 * float64(len(vals)) * 2.220446049250313e-16 * scaleV
	if math.Abs(agg.Mean()-meanF) > tol {
		return fmt.Errorf("Mean=%v, two-pass reference %v (n=%d, tolerance %g)", agg.Mean(), meanF, len(vals), tol)
	}
	if math.Abs(agg.StdDev()-std) > tol+1e-12*std {
		return fmt.Errorf("StdDev=%v, two-pass reference %v (n=%d, tolerance %g)", agg.StdDev(), std, len(vals), tol)
	}
	an := agg.Analyze()
	count := func(f func(x float64) bool) int {
		k := 0
		for _, v := range vals {
			if f(v) {
				k++
			}
		}
		return k
	}
	isMember := func(q float64) bool { return count(func(x float64) bool { return x == q }) > 0 }
	// order statistic test: with ascending order #{x<q} <= p*n <= #{x<=q};
	// the reversed series mirrors it.
	rank := func(name string, q, p float64) error {
		if !isMember(q) {
			return fmt.Errorf("%s=%v is not a member of the sample", name, q)
		}
		pn := p * float64(len(vals))
		var below, upto int
		if c.Reverse {
			below = count(func(x float64) bool { return x > q })
			upto = count(func(x float64) bool { return x >= q })
		} else {
			below = count(func(x float64) bool { return x < q })
			upto = count(func(x float64) bool { return x <= q })
		}
		if float64(below) > pn+1e-9 || pn > float64(upto)+1e-9 {
			return fmt.Errorf("%s=%v is not the nearest-rank order statistic for p=%v: %d values strictly before it, %d up to it, p*n=%v (n=%d, reverse=%v)", name, q, p, below, upto, pn, len(vals), c.Reverse)
		}
		return nil
	}
	if err := rank("Median", an.Median(), 0.5); err != nil {
		return err
	}
	for _, p := range c.Quantiles {
		var q float64
		if err := pbt.Guard(func() error { q = an.Quantile(p); return nil }); err != nil {
			return fmt.Errorf("Quantile(%v) on %d values: %v", p, len(vals), err)
		}
		if err := rank(fmt.Sprintf("Quantile(%v)", p), q, p); err != nil {
			return err
		}
	}
	mode := an.Mode()
	mm := count(func(x float64) bool { return x == mode })
	for _, v := range vals {
		if k := count(func(x float64) bool { return x == v }); k > mm {
			return fmt.Errorf("Mode=%v occurs %d times but %v occurs %d times", mode, mm, v, k)
		}
	}
	if mm == 0 {
		return fmt.Errorf("Mode=%v is not a member of the sample", mode)
	}
	return nil
}

func minMaxOf(d map[float64]bool) (mn, mx float64, ok bool) {
	mn, mx = math.Inf(1), math.Inf(-1)
	for v := range d {
		mn, mx, ok = math.Min(mn, v), math.Max(mx, v), true
	}
	return
}

func TestNumerical(t *testing.T) {
	pbt.Run(t, pbt.Spec[NumCase]{
		Property: "C07", Name: "numerical",
		Rule:   "0..80 samples from a pool with repeats, negatives, fractions, huge values and unparsable strings (NaN/Inf/hex spellings excluded by construction); count exact; mean/std-dev vs two-pass big.Float within 64*n*eps*max(1,|x|max) (the error bound of a stable one-pass formula, x64); 1 case in 4 is a cluster (offset 1e6..1e12, spread 1e-3..100) on which an unstable variance formula cancels; median, quantile(p in [0,1] incl. 0 and 1), mode are order statistics (#{x<q} <= p*n <= #{x<=q}); forward and reversed analysis; 0-3 intermediate analyses (Analyze() orders the kept values in place) followed by more samples, some with monotone tails; non-trivial: >=4 numeric samples with >=2 distinct values",
		Budget: pbt.Budget{Quick: 30000, Thorough: 1000000},
		Gen: func(t *rapid.T) NumCase {
			n := rapid.IntRange(0, 80).Draw(t, "n")
			c := NumCase{Reverse: rapid.Bool().Draw(t, "reverse")}
			// 1 case in 4: a cluster - a large common offset with a small
			// spread (unix timestamps, ids, byte counters): the shape on
			// which an unstable variance formula cancels catastrophically
			cluster := rapid.IntRange(0, 3).Draw(t, "cluster") == 0
			var off float64
			var spread float64
			if cluster {
				off = rapid.SampledFrom([]float64{1e6, 1e9, 1.7e9, -1e9, 1e12, 4294967296}).Draw(t, "offset")
				spread = rapid.SampledFrom([]float64{1e-3, 1, 1, 100}).Draw(t, "spread")
			}
			for i := 0; i < n; i++ {
				if cluster {
					d := float64(rapid.IntRange(-1000, 1000).Draw(t, "d")) / 1000 * spread
					c.Samples = append(c.Samples, pbt.S(strconv.FormatFloat(off+d, 'f', -1, 64)))
					continue
				}
				if rapid.IntRange(0, 3).Draw(t, "rnd") == 0 {
					c.Samples = append(c.Samples, pbt.S(strconv.FormatFloat(rapid.Float64Range(-1e6, 1e6).Draw(t, "f"), 'g', -1, 64)))
				} else {
					c.Samples = append(c.Samples, pbt.S(rapid.SampledFrom(numPool).Draw(t, "v")))
				}
			}
			for i := 0; i < rapid.IntRange(1, 4).Draw(t, "nq"); i++ {
				c.Quantiles = append(c.Quantiles, rapid.SampledFrom([]float64{0, 0.01, 0.25, 0.5, 0.75, 0.9, 0.99, 0.999, 1}).Draw(t, "q"))
			}
			if n > 1 {
				for i := 0; i < rapid.IntRange(0, 3).Draw(t, "nAnalyze"); i++ {
					c.AnalyzeAt = append(c.AnalyzeAt, rapid.IntRange(1, n-1).Draw(t, "analyzeAt"))
				}
			}
			// runs of non-decreasing / non-increasing samples after an analysis point
			if len(c.AnalyzeAt) > 0 && rapid.IntRange(0, 2).Draw(t, "monotoneTail") == 0 {
				from := c.AnalyzeAt[0]
				up := rapid.Bool().Draw(t, "up")
				base := rapid.IntRange(-5, 50).Draw(t, "base")
				for i := from; i < n; i++ {
					step := rapid.IntRange(0, 3).Draw(t, "step")
					if up {
						base += step
					} else {
						base -= step
					}
					c.Samples[i] = pbt.S(strconv.Itoa(base))
				}
			}
			return c
		},
		Check: checkNum,
		Classify: func(c NumCase) (bool, []string) {
			d := map[float64]bool{}
			k := 0
			for _, s := range c.Samples {
				if v, err := strconv.ParseFloat(string(s), 64); err == nil {
					d[v] = true
					k++
				}
			}
			var l pbt.Labels
			for _, q := range c.Quantiles {
				l.Add(q == 1, "quantile-1.0")
				l.Add(q == 0, "quantile-0")
			}
			l.Add(c.Reverse, "reverse")
			if mn, mx, ok := minMaxOf(d); ok {
				l.Add(mx-mn > 0 && math.Abs(mn) > 1e4*(mx-mn), "cluster(offset>1e4*spread)")
			}
			l.Add(len(c.AnalyzeAt) > 0, "interleaved-analysis")
			l.Add(len(c.AnalyzeAt) > 0 && c.Reverse, "interleaved-analysis+reverse")
			return k >= 4 && len(d) >= 2, l
		},
	})
}

// ---------- accumulating group -------------------------------------------------

type AccCase struct {
	Groups  []int // indexes into groupPool
	Cols    []int // indexes into colPool
	Samples []pbt.S
}

type colDef struct {
	name, expr, initial string
	// fold: current value of this column, the sample's parts, lookup of other columns -> new value
	fold func(cur string, parts []string, whole string, get func(string) string) string
}

func part(parts []string, i int) string {
	// {i} for i>=1 is the i-th NUL separated part (1-based); beyond the end: empty
	if i-1 < len(parts) {
		return parts[i-1]
	}
	return ""
}

func atoi(s string) (int64, bool) {
	v, err := strconv.ParseInt(s, 10, 64)
	return v, err == nil
}

func sumi(a, b string) string {
	x, ok1 := atoi(a)
	y, ok2 := atoi(b)
	if !ok1 || !ok2 {
		return "<BAD-TYPE>"
	}
	return strconv.FormatInt(x+y, 10)
}

func maxi(a, b string) string {
	x, ok1 := atoi(a)
	y, ok2 := atoi(b)
	if !ok1 || !ok2 {
		return "<BAD-TYPE>"
	}
	if y > x {
		x = y
	}
	return strconv.FormatInt(x, 10)
}

var groupPool = []struct {
	name, expr string
	f          func(parts []string, whole string) string
}{
	{"g1", "{1}", func(p []string, w string) string { return part(p, 1) }},
	{"g2", "{2}", func(p []string, w string) string { return part(p, 2) }},
	{"gw", "{0}", func(p []string, w string) string { return w }},
	{"gc", "const", func(p []string, w string) string { return "const" }},
	{"gu", "{upper {1}}", func(p []string, w string) string { return strings.ToUpper(part(p, 1)) }},
	// a group is chosen before any row exists for the sample: column names and the accumulator read as
	// empty in a group expression, whatever rows earlier samples went into
	{"gk", "{1}{count}", func(p []string, w string) string { return part(p, 1) }},
	{"gl", "{last}|{1}", func(p []string, w string) string { return "|" + part(p, 1) }},
	{"gd", "{.}{2}{sum3}", func(p []string, w string) string { return part(p, 2) }},
}

var colPool = []colDef{
	{"count", "{sumi {.} 1}", "0", func(cur string, p []string, w string, get func(string) string) string { return sumi(cur, "1") }},
	{"sum3", "{sumi {.} {3}}", "0", func(cur string, p []string, w string, get func(string) string) string { return sumi(cur, part(p, 3)) }},
	{"max3", "{maxi {.} {3}}", "-100", func(cur string, p []string, w string, get func(string) string) string { return maxi(cur, part(p, 3)) }},
	{"last", "{2}", "", func(cur string, p []string, w string, get func(string) string) string { return part(p, 2) }},
	{"cc", "{sumi {.} {count}}", "0", func(cur string, p []string, w string, get func(string) string) string { return sumi(cur, get("count")) }},
	{"cat", "{.}{1};", "", func(cur string, p []string, w string, get func(string) string) string { return cur + part(p, 1) + ";" }},
	{"ref", "{sum3}/{max3}", "", func(cur string, p []string, w string, get func(string) string) string {
		return get("sum3") + "/" + get("max3")
	}},
}

func checkAcc(c AccCase) error {
	agg := aggregation.NewAccumulatingGroup(funclib.NewKeyBuilder())
	for _, gi := range c.Groups {
		if err := agg.AddGroupExpr(groupPool[gi].name, groupPool[gi].expr); err != nil {
			return fmt.Errorf("AddGroupExpr(%s): %v", groupPool[gi].expr, err)
		}
	}
	for _, ci := range c.Cols {
		if err := agg.AddDataExpr(colPool[ci].name, colPool[ci].expr, colPool[ci].initial); err != nil {
			return fmt.Errorf("AddDataExpr(%s): %v", colPool[ci].expr, err)
		}
	}
	model := map[string][]string{}
	colIdx := map[string]int{}
	for i, ci := range c.Cols {
		colIdx[colPool[ci].name] = i
	}
	for step, s := range c.Samples {
		agg.Sample(string(s))
		whole := string(s)
		parts := refSplit(whole, sep)
		gk := ""
		for i, gi := range c.Groups {
			if i > 0 {
				gk += sep
			}
			gk += groupPool[gi].f(parts, whole)
		}
		row, ok := model[gk]
		if !ok {
			row = make([]string, len(c.Cols))
			for i, ci := range c.Cols {
				row[i] = colPool[ci].initial
			}
			model[gk] = row
		}
		get := func(name string) string {
			if i, ok := colIdx[name]; ok {
				return row[i]
			}
			return ""
		}
		for i, ci := range c.Cols {
			row[i] = colPool[ci].fold(row[i], parts, whole, get)
		}
		// compare
		if agg.DataCount() != len(model) {
			return fmt.Errorf("step %d: DataCount=%d, fold has %d groups", step+1, agg.DataCount(), len(model))
		}
		for k, want := range model {
			got := agg.Data(aggregation.GroupKey(k))
			if len(got) != len(want) {
				return fmt.Errorf("step %d: group %q has %d columns, want %d", step+1, k, len(got), len(want))
			}
			for i := range want {
				if got[i] != want[i] {
					return fmt.Errorf("step %d: group %q column %s = %q, fold gives %q", step+1, k, colPool[c.Cols[i]].name, got[i], want[i])
				}
			}
		}
	}
	groups := agg.Groups(sorting.ByName)
	if len(groups) != len(model) {
		return fmt.Errorf("Groups() lists %d groups, fold has %d", len(groups), len(model))
	}
	for _, g := range groups {
		if _, ok := model[string(g)]; !ok {
			return fmt.Errorf("Groups() lists unknown group %q", g)
		}
	}
	return nil
}

func TestAccumulator(t *testing.T) {
	pbt.Run(t, pbt.Spec[AccCase]{
		Property: "C07", Name: "accumulator",
		Rule:   "0..2 group expressions (parts, whole element, constant, helper call, and expressions naming a data column or the accumulator, which read empty there) and 1..5 data expressions from a pool ({sumi {.} {3}}, {maxi {.} {3}}, count, last, references to other columns by name, string concatenation, initial values) over 0..40 NUL-joined samples vs. a hand-written fold per expression, compared after every sample; non-trivial: >=4 samples, >=2 groups formed, >=2 data columns",
		Budget: pbt.Budget{Quick: 20000, Thorough: 600000},
		Gen: func(t *rapid.T) AccCase {
			c := AccCase{}
			ng := rapid.IntRange(0, 2).Draw(t, "ng")
			used := map[int]bool{}
			for len(c.Groups) < ng {
				g := rapid.IntRange(0, len(groupPool)-1).Draw(t, "g")
				if !used[g] {
					used[g] = true
					c.Groups = append(c.Groups, g)
				}
			}
			nc := rapid.IntRange(1, 5).Draw(t, "nc")
			usedc := map[int]bool{}
			for len(c.Cols) < nc {
				x := rapid.IntRange(0, len(colPool)-1).Draw(t, "c")
				if !usedc[x] {
					usedc[x] = true
					c.Cols = append(c.Cols, x)
				}
			}
			n := rapid.IntRange(0, 40).Draw(t, "n")
			for i := 0; i < n; i++ {
				np := rapid.IntRange(1, 4).Draw(t, "np")
				ps := make([]string, np)
				for j := range ps {
					if j == 2 {
						ps[j] = rapid.SampledFrom([]string{"1", "2", "-5", "0", "100", "x", "", "9223372036854775807"}).Draw(t, "num")
					} else {
						ps[j] = rapid.SampledFrom([]string{"a", "b", "c", "", "Ab"}).Draw(t, "k")
					}
				}
				c.Samples = append(c.Samples, pbt.S(strings.Join(ps, sep)))
			}
			return c
		},
		Check: checkAcc,
		Classify: func(c AccCase) (bool, []string) {
			return len(c.Samples) >= 4 && len(c.Groups) >= 1 && len(c.Cols) >= 2 && distinctKeys(c.Samples, 0) >= 2, nil
		},
	})
}

// ---------- bounded-exhaustive histories --------------------------------------

type ExCase struct {
	Kind    string
	Samples []pbt.S
}

func TestExhaustive(t *testing.T) {
	L := 4
	if pbt.Thorough() {
		L = 5
	}
	var alphabet []string
	for _, k := range []string{"a", "b"} {
		for _, sk := range []string{"x", "y", ""} {
			for _, inc := range []string{"\x01", "2", "-1", "bad"} { // \x01 = absent
				s := k + sep + sk
				if inc != "\x01" {
					s += sep + inc
				}
				alphabet = append(alphabet, s)
			}
		}
	}
	spec := pbt.Spec[ExCase]{
		Property: "C07", Name: "exhaustive",
		Rule: fmt.Sprintf("bounded-exhaustive: every history of length<=%d over {a,b}x{x,y,''}x{absent,2,-1,bad} (24 samples) for counter, sub-key counter and table, every prefix compared with the fold; non-trivial: length>=3", L),
		Check: func(c ExCase) error {
			switch c.Kind {
			case "counter":
				return checkCounter(CounterCase{Samples: c.Samples})
			case "subkey":
				return checkSub(CounterCase{Samples: c.Samples})
			default:
				return checkTable(TableCase{Delim: pbt.S(sep), Samples: c.Samples})
			}
		},
		Classify: func(c ExCase) (bool, []string) { return len(c.Samples) >= 3, []string{c.Kind} },
	}
	pbt.Enum(t, spec, func(yield func(ExCase) bool) {
		idx := make([]int, 0, L)
		var rec func(depth int) bool
		rec = func(depth int) bool {
			// only full-length histories are run (every prefix is compared inside the check)
			if depth == L {
				s := make([]pbt.S, L)
				for i, j := range idx {
					s[i] = pbt.S(alphabet[j])
				}
				for _, kind := range []string{"counter", "subkey", "table"} {
					if !yield(ExCase{Kind: kind, Samples: s}) {
						return false
					}
				}
				return true
			}
			for j := range alphabet {
				idx = append(idx, j)
				ok := rec(depth + 1)
				idx = idx[:len(idx)-1]
				if !ok {
					return false
				}
			}
			return true
		}
		rec(0)
	})
}
