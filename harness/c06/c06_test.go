// C06 — named inputs are each read once, decoded faithfully, and failures
// are reported. Always through the real binary.
package c06

import (
	"bytes"
	"compress/gzip"
	"fmt"
	"io"
	"os"
	"os/exec"
	"path/filepath"
	"sort"
	"strconv"
	"strings"
	"sync"
	"syscall"
	"testing"

	"pgregory.net/rapid"
	"verifharness/model"
	"verifharness/pbt"
)

var (
	dirOnce sync.Once
	workDir string
	caseNo  int
)

func baseDir() string {
	dirOnce.Do(func() {
		d := os.Getenv("VERIF_SCRATCH")
		if d == "" {
			d = os.TempDir()
		}
		workDir, _ = os.MkdirTemp(d, "c06-")
	})
	return workDir
}

// File kinds
const (
	kPlain       = "plain"
	kEmpty       = "empty"
	kGzip        = "gzip"
	kGzipMulti   = "gzip-multi"      // two gzip members concatenated
	kGzipTrunc   = "gzip-truncated"  // cut in the middle of the deflate stream
	kGzipCorrupt = "gzip-corrupt"    // one byte of the deflate stream flipped
	kMagicOnly   = "gzip-magic-only" // plain text that merely starts with 1f 8b
)

type File struct {
	Path    string // relative to the case root, '/' separated
	Kind    string
	Content pbt.S // the (uncompressed) text; for gzip kinds what was compressed
	Cut     int   // truncation point / corrupt offset selector (percent of the stream)
	Fifo    bool  `json:",omitempty"` // the path is a named pipe through which the bytes are written once (like <(cmd)); mentioned exactly once
}

type Arg struct {
	Text string // as passed (relative to the case root; the harness runs rare with cwd = root)
}

type Case struct {
	Dirs    []string // directories (relative), parents before children
	Files   []File
	Args    []Arg
	Stdin   *pbt.S // non-nil: data on stdin (used when Args is empty or ["-"])
	StdinFail string // "" | "dir" | "wronly": stdin is a descriptor whose reads fail (a directory: EISDIR; a write-only file: EBADF) - "fails while being read"
	Gunzip  bool
	Recurse bool
	Readers int
	Batch   int
	Histo   bool     // run `histo` with an increment column instead of `filter` (parse-error exit path)
	Obs     *pbt.Obs `json:"-"`
}

// ---- building the tree ---------------------------------------------------

func gz(data []byte) []byte {
	var b bytes.Buffer
	w := gzip.NewWriter(&b)
	w.Write(data)
	w.Close()
	return b.Bytes()
}

// onDisk returns the bytes written for a file.
func onDisk(f File) []byte {
	data := []byte(f.Content)
	switch f.Kind {
	case kEmpty:
		return nil
	case kPlain:
		return data
	case kGzip:
		return gz(data)
	case kGzipMulti:
		h := len(data) / 2
		// split at a line boundary when possible
		if i := bytes.IndexByte(data[h:], '\n'); i >= 0 {
			h += i + 1
		}
		return append(gz(data[:h]), gz(data[h:])...)
	case kGzipTrunc:
		z := gz(data)
		// keep the 10-byte header intact, cut inside the deflate stream / trailer
		n := 10 + (len(z)-10)*f.Cut/100
		if n >= len(z) {
			n = len(z) - 1
		}
		if n < 10 {
			n = 10
		}
		return z[:n]
	case kGzipCorrupt:
		z := gz(data)
		if len(z) > 20 {
			i := 10 + (len(z)-18)*f.Cut/100
			if i >= len(z)-8 {
				i = len(z) - 9
			}
			z[i] ^= 0x55
		}
		return z
	case kMagicOnly:
		return append([]byte{0x1f, 0x8b, 'x', 'y', '\n'}, data...)
	}
	return data
}

// delivered computes, independently of rare, what reading the file must
// deliver: the bytes and whether the read ends in an error. The gzip decoder
// is Go's own (trusted); for a stream that fails midway the bytes decoded
// before the failure are the reference prefix.
func delivered(f File, gunzip bool) (data []byte, fails bool) {
	raw := onDisk(f)
	if !gunzip {
		return raw, false
	}
	zr, err := gzip.NewReader(bytes.NewReader(raw))
	if err != nil {
		return raw, false // not gzip: read from the first byte as plain
	}
	out, err := io.ReadAll(zr)
	return out, err != nil
}

func genText(t *rapid.T) []byte {
	if rapid.IntRange(0, 24).Draw(t, "aligned") == 0 {
		// fixed-length records filling 1-2 read buffers (128 KiB) exactly (or off by a few records)
		l := rapid.SampledFrom([]int{32, 64, 128}).Draw(t, "reclen")
		total := rapid.SampledFrom([]int{131072, 131072 + 5*l, 262144}).Draw(t, "total")
		var sb bytes.Buffer
		for n := 0; sb.Len()+l <= total; n++ {
			head := fmt.Sprintf("k%d %d ", n%6, n%9)
			sb.WriteString(head)
			for j := len(head); j < l-1; j++ {
				sb.WriteByte("abcxyz012"[(n+j)%9])
			}
			sb.WriteByte('\n')
		}
		return sb.Bytes()
	}
	n := rapid.IntRange(0, 40).Draw(t, "nlines")
	if rapid.IntRange(0, 6).Draw(t, "big") == 0 {
		n = rapid.IntRange(40, 200).Draw(t, "nlines2")
	}
	var sb bytes.Buffer
	for i := 0; i < n; i++ {
		switch rapid.IntRange(0, 6).Draw(t, "lk") {
		case 0:
		case 1:
			fmt.Fprintf(&sb, "k%d %d", rapid.IntRange(0, 5).Draw(t, "k"), rapid.IntRange(-3, 50).Draw(t, "v"))
		case 2:
			fmt.Fprintf(&sb, "k%d %s", rapid.IntRange(0, 5).Draw(t, "k"), rapid.SampledFrom([]string{"x", "1.5", "", "abc"}).Draw(t, "bad"))
		case 3:
			sb.WriteString(rapid.SampledFrom([]string{"\x00", "\xff\xfe", "é", "a:b:c", " ", "\t", "\x1f\x8b"}).Draw(t, "h"))
		default:
			fmt.Fprintf(&sb, "line %d of some text %d", i, rapid.IntRange(0, 1000000).Draw(t, "r"))
		}
		if i == n-1 && rapid.IntRange(0, 3).Draw(t, "noNL") == 0 {
			break
		}
		if rapid.IntRange(0, 7).Draw(t, "crlf") == 0 {
			sb.WriteString("\r\n")
		} else {
			sb.WriteByte('\n')
		}
	}
	return sb.Bytes()
}

var baseNames = []string{"a.log", "b.log", "c.txt", "d", ".hidden.log", "e.log.gz", "f f.log", "z.log", "app[1].log", "app1.log", "q[ab].log"}
var dirNames = []string{"sub", "deep", "x.d", "logs", ".hidden", ".git", "a b", "~tmp"}

func gen(t *rapid.T) Case {
	c := Case{Obs: pbt.NewObs()}
	// directories, depth <= 4
	c.Dirs = []string{""}
	nd := rapid.IntRange(0, 5).Draw(t, "ndirs")
	for i := 0; i < nd; i++ {
		parent := rapid.SampledFrom(c.Dirs).Draw(t, "parent")
		if strings.Count(parent, "/") >= 3 {
			continue
		}
		name := rapid.SampledFrom(dirNames).Draw(t, "dname")
		p := name
		if parent != "" {
			p = parent + "/" + name
		}
		dup := false
		for _, d := range c.Dirs {
			if d == p {
				dup = true
			}
		}
		if !dup {
			c.Dirs = append(c.Dirs, p)
		}
	}
	nf := rapid.IntRange(1, 12).Draw(t, "nfiles")
	used := map[string]bool{}
	for _, d := range c.Dirs {
		used[d] = true
	}
	kinds := []string{kPlain, kPlain, kPlain, kEmpty, kGzip, kGzip, kGzipMulti, kGzipTrunc, kGzipCorrupt, kMagicOnly}
	for i := 0; i < nf; i++ {
		dir := rapid.SampledFrom(c.Dirs).Draw(t, "fdir")
		name := rapid.SampledFrom(baseNames).Draw(t, "fname")
		p := name
		if dir != "" {
			p = dir + "/" + name
		}
		if used[p] {
			continue
		}
		used[p] = true
		f := File{Path: p, Kind: rapid.SampledFrom(kinds).Draw(t, "kind"), Cut: rapid.IntRange(0, 99).Draw(t, "cut")}
		f.Content = pbt.S(genText(t))
		if (f.Kind == kGzipTrunc || f.Kind == kGzipCorrupt) && len(f.Content) < 30 {
			f.Content = pbt.S(append([]byte(f.Content), bytes.Repeat([]byte("padding line to make the stream long enough\n"), 6)...))
		}
		c.Files = append(c.Files, f)
	}
	c.Gunzip = rapid.Bool().Draw(t, "gunzip")
	c.Recurse = rapid.IntRange(0, 2).Draw(t, "recurse") == 0
	c.Readers = rapid.IntRange(1, 4).Draw(t, "readers")
	c.Batch = rapid.SampledFrom([]int{1, 2, 7, 50, 1000}).Draw(t, "batch")
	c.Histo = rapid.IntRange(0, 3).Draw(t, "histo") == 0

	// arguments
	mode := rapid.IntRange(0, 9).Draw(t, "argmode")
	if mode == 0 && !c.Gunzip {
		s := pbt.S(genText(t))
		c.Stdin = &s
		if rapid.Bool().Draw(t, "dash") {
			c.Args = []Arg{{Text: "-"}}
		}
		if rapid.IntRange(0, 3).Draw(t, "stdinFail") == 0 {
			c.StdinFail = rapid.SampledFrom([]string{"dir", "wronly"}).Draw(t, "stdinFailKind")
			empty := pbt.S("")
			c.Stdin = &empty
		}
		return c
	}
	na := rapid.IntRange(1, 6).Draw(t, "nargs")
	failing := map[string]bool{}
	for i := 0; i < na; i++ {
		var a string
		switch rapid.IntRange(0, 9).Draw(t, "argkind") {
		case 0: // missing path
			a = rapid.SampledFrom([]string{"missing.log", "sub/nope", "nodir/a.log"}).Draw(t, "missing")
		case 1: // a directory
			a = rapid.SampledFrom(c.Dirs).Draw(t, "adir")
			if a == "" {
				a = "."
			}
		case 2, 3: // glob
			d := rapid.SampledFrom(c.Dirs).Draw(t, "gdir")
			g := rapid.SampledFrom([]string{"*.log", "*", "?.log", "*.gz", "*.nomatch", "[ab].log", "*/a.log"}).Draw(t, "glob")
			a = g
			if d != "" {
				a = d + "/" + g
			}
		default: // an existing file
			if len(c.Files) == 0 {
				a = "missing.log"
			} else {
				a = c.Files[rapid.IntRange(0, len(c.Files)-1).Draw(t, "fi")].Path
			}
		}
		c.Args = append(c.Args, Arg{Text: a})
	}
	_ = failing
	// A glob whose expansion contains a directory: "each glob expansion .. is opened and read", so the
	// directory is an input that fails while being read (one read error, exit status 2), exactly like a
	// directory named explicitly. Kept in 2 of 3 cases (it makes the whole run exit 2, which would otherwise
	// crowd out the exit-status classes 0 and 1).
	keepDirGlobs := rapid.IntRange(0, 2).Draw(t, "dirglobs") != 0
	tr := &tree{dirs: map[string]bool{}, files: map[string]*File{}}
	for _, d := range c.Dirs {
		if d != "" {
			tr.dirs[d] = true
		}
	}
	for i := range c.Files {
		tr.files[c.Files[i].Path] = &c.Files[i]
	}
	kept := c.Args[:0]
	for _, a := range c.Args {
		drop := false
		if hasMeta(a.Text) {
			for _, m := range tr.globRef(a.Text) {
				if tr.dirs[m] {
					drop = true
				}
			}
		}
		if drop && !keepDirGlobs {
			continue
		}
		kept = append(kept, a)
	}
	c.Args = kept
	if len(c.Args) == 0 {
		c.Args = []Arg{{Text: "missing.log"}}
	}
	// named pipes: a path that delivers its bytes once, to one open (a fifo, a process substitution). Only
	// for files that the argument list opens exactly once (a second open would wait for a writer for ever).
	for i := range c.Files {
		if rapid.IntRange(0, 7).Draw(t, "fifo") == 0 {
			c.Files[i].Fifo = true
		}
	}
	opens := map[string]int{}
	for _, m := range expand(&c) {
		if m.file != nil {
			opens[m.file.Path]++
		}
	}
	for i := range c.Files {
		if c.Files[i].Fifo && opens[c.Files[i].Path] != 1 {
			c.Files[i].Fifo = false
		}
	}
	return c
}

// ---- the reference expansion ---------------------------------------------

func wildMatch(pat, name string) bool {
	// *, ?, [ab] only
	if pat == "" {
		return name == ""
	}
	switch pat[0] {
	case '*':
		for i := 0; i <= len(name); i++ {
			if wildMatch(pat[1:], name[i:]) {
				return true
			}
		}
		return false
	case '?':
		return name != "" && wildMatch(pat[1:], name[1:])
	case '[':
		end := strings.IndexByte(pat, ']')
		if end < 0 || name == "" {
			return false
		}
		if strings.IndexByte(pat[1:end], name[0]) < 0 {
			return false
		}
		return wildMatch(pat[end+1:], name[1:])
	}
	return name != "" && pat[0] == name[0] && wildMatch(pat[1:], name[1:])
}

type tree struct {
	dirs  map[string]bool
	files map[string]*File
}

func (tr *tree) children(dir string) []string {
	var out []string
	pre := ""
	if dir != "" && dir != "." {
		pre = dir + "/"
	}
	add := func(p string) {
		if p == "" || !strings.HasPrefix(p, pre) {
			return
		}
		rest := p[len(pre):]
		if rest == "" || strings.Contains(rest, "/") {
			return
		}
		out = append(out, rest)
	}
	for d := range tr.dirs {
		add(d)
	}
	for f := range tr.files {
		add(f)
	}
	sort.Strings(out)
	return out
}

func hasMeta(s string) bool { return strings.ContainsAny(s, "*?[") }

// globRef re-implements the expansion of the generated patterns.
func (tr *tree) globRef(pattern string) []string {
	if !hasMeta(pattern) {
		clean := pattern
		if clean == "." || tr.dirs[clean] || tr.files[clean] != nil {
			return []string{pattern}
		}
		return nil
	}
	segs := strings.Split(pattern, "/")
	cur := []string{""}
	for _, seg := range segs {
		var next []string
		for _, base := range cur {
			if !hasMeta(seg) {
				p := seg
				if base != "" {
					p = base + "/" + seg
				}
				if tr.dirs[p] || tr.files[p] != nil {
					next = append(next, p)
				}
				continue
			}
			if base != "" && !tr.dirs[base] {
				continue
			}
			for _, ch := range tr.children(base) {
				if wildMatch(seg, ch) {
					p := ch
					if base != "" {
						p = base + "/" + ch
					}
					next = append(next, p)
				}
			}
		}
		cur = next
	}
	sort.Strings(cur)
	return cur
}

func (tr *tree) walk(dir string, prefix string, out *[]string) {
	for _, ch := range tr.children(dir) {
		p := ch
		if dir != "" && dir != "." {
			p = dir + "/" + ch
		}
		shown := prefix + "/" + ch
		if tr.dirs[p] {
			tr.walk(p, shown, out)
		} else {
			*out = append(*out, shown)
		}
	}
}

// mention is one expected open.
type mention struct {
	name string // the source name rare reports
	file *File  // nil: does not exist, or is a directory
	dir  bool
}

func expand(c *Case) []mention {
	tr := &tree{dirs: map[string]bool{}, files: map[string]*File{}}
	for _, d := range c.Dirs {
		if d != "" {
			tr.dirs[d] = true
		}
	}
	for i := range c.Files {
		tr.files[c.Files[i].Path] = &c.Files[i]
	}
	resolve := func(name string) mention {
		clean := filepath.ToSlash(filepath.Clean(name))
		if clean == "." || tr.dirs[clean] {
			return mention{name: name, dir: true}
		}
		return mention{name: name, file: tr.files[clean]}
	}
	var out []mention
	for _, a := range c.Args {
		p := a.Text
		clean := filepath.ToSlash(filepath.Clean(p))
		if c.Recurse && (clean == "." || tr.dirs[clean]) {
			var names []string
			d := clean
			if d == "." {
				d = ""
			}
			tr.walk(d, p, &names)
			for _, n := range names {
				// filepath.Walk joins with Clean: "./x" is reported as "x"
				out = append(out, resolve(filepath.ToSlash(filepath.Clean(n))))
			}
			continue
		}
		matches := tr.globRef(p)
		if len(matches) == 0 {
			out = append(out, resolve(p)) // literal fallback
			continue
		}
		for _, m := range matches {
			out = append(out, resolve(m))
		}
	}
	return out
}

// ---- the check -------------------------------------------------------------

func check(c Case) error {
	bin := os.Getenv("VERIF_RARE_BIN")
	if bin == "" {
		return fmt.Errorf("harness: VERIF_RARE_BIN not set")
	}
	caseNo++
	root := filepath.Join(baseDir(), fmt.Sprintf("case%d", caseNo))
	if err := os.MkdirAll(root, 0o755); err != nil {
		return fmt.Errorf("harness: %v", err)
	}
	defer os.RemoveAll(root)
	for _, d := range c.Dirs {
		if d != "" {
			os.MkdirAll(filepath.Join(root, d), 0o755)
		}
	}
	var feeders sync.WaitGroup
	var fifos []string
	for _, f := range c.Files {
		fp := filepath.Join(root, f.Path)
		if f.Fifo {
			if err := syscall.Mkfifo(fp, 0o644); err != nil {
				return fmt.Errorf("harness: mkfifo: %v", err)
			}
			fifos = append(fifos, fp)
			feeders.Add(1)
			go func(fp string, data []byte) {
				defer feeders.Done()
				w, err := os.OpenFile(fp, os.O_WRONLY, 0) // returns when rare (or the clean-up below) opens the pipe
				if err != nil {
					return
				}
				w.Write(data)
				w.Close()
			}(fp, onDisk(f))
			continue
		}
		if err := os.WriteFile(fp, onDisk(f), 0o644); err != nil {
			return fmt.Errorf("harness: %v", err)
		}
	}
	defer func() {
		// release feeders whose pipe was never opened by rare, then wait for all of them
		for _, fp := range fifos {
			if r, err := os.OpenFile(fp, os.O_RDONLY|syscall.O_NONBLOCK, 0); err == nil {
				defer r.Close()
				go io.Copy(io.Discard, r)
			}
		}
		feeders.Wait()
	}()
	args := []string{"--nocolor", "--noformat"}
	if c.Histo {
		args = append(args, "histo", "-m", `^(\S+) (\S*)$`, "-e", "{1}", "-e", "{2}", "--csv", "-")
	} else {
		args = append(args, "filter", "-e", "{src}:{line}:{0}")
	}
	args = append(args, "--readers", strconv.Itoa(c.Readers), "--batch", strconv.Itoa(c.Batch))
	if c.Gunzip {
		args = append(args, "-z")
	}
	if c.Recurse {
		args = append(args, "-R")
	}
	for _, a := range c.Args {
		args = append(args, a.Text)
	}
	cmd := exec.Command(bin, args...)
	cmd.Dir = root
	if c.Stdin != nil && c.StdinFail != "" {
		var f *os.File
		var err error
		if c.StdinFail == "dir" {
			f, err = os.Open(root)
		} else {
			f, err = os.OpenFile(filepath.Join(root, ".verif-wronly-stdin"), os.O_WRONLY|os.O_CREATE|os.O_TRUNC, 0o600)
		}
		if err != nil {
			return fmt.Errorf("harness: %v", err)
		}
		defer f.Close()
		cmd.Stdin = f
	} else if c.Stdin != nil {
		cmd.Stdin = bytes.NewReader([]byte(*c.Stdin))
	} else {
		cmd.Stdin = bytes.NewReader(nil)
	}
	var so, se bytes.Buffer
	cmd.Stdout, cmd.Stderr = &so, &se
	runErr := cmd.Run()
	code := 0
	if ee, ok := runErr.(*exec.ExitError); ok {
		code = ee.ExitCode()
	} else if runErr != nil {
		return fmt.Errorf("harness: cannot run rare: %v", runErr)
	}
	stderr := se.String()
	if strings.Contains(stderr, "panic:") || strings.Contains(stderr, "goroutine ") {
		return fmt.Errorf("rare crashed: args=%q\n%s", args, pbt.Trunc(stderr, 3000))
	}

	// expected opens
	type src struct {
		lines [][]byte
		fails bool
		count int
	}
	expected := map[string]*src{}
	failing := 0
	var ms []mention
	if c.Stdin != nil && c.StdinFail != "" {
		// every read of standard input fails: one failing input, no line
		expected["<stdin>"] = &src{fails: true, count: 1}
		failing++
	} else if c.Stdin != nil {
		expected["<stdin>"] = &src{lines: model.Lines([]byte(*c.Stdin)), count: 1}
	} else {
		ms = expand(&c)
		for _, m := range ms {
			switch {
			case m.dir, m.file == nil:
				failing++
			default:
				data, fails := delivered(*m.file, c.Gunzip)
				if fails {
					failing++
				}
				e := expected[m.name]
				if e == nil {
					e = &src{lines: model.Lines(data), fails: fails}
					expected[m.name] = e
				}
				e.count++
			}
		}
	}
	errLines := strings.Count(stderr, "[Log] Error opening file") + strings.Count(stderr, "[Log] Error reading")
	if errLines != failing {
		return fmt.Errorf("%d failing inputs expected, stderr reports %d error lines\nargs=%q\nstderr=%s\nexpected opens=%s", failing, errLines, args, pbt.Trunc(stderr, 1500), describe(ms))
	}

	matchedTotal, parseErrors := 0, 0
	if c.Histo {
		// keys/increments: only the exit status and totals are C06's subject here
		for _, e := range expected {
			for _, l := range e.lines {
				k, v, ok := histoFields(l)
				if !ok {
					continue
				}
				_ = k
				matchedTotal += e.count
				if _, err := strconv.ParseInt(v, 10, 64); err != nil {
					parseErrors += e.count
				}
			}
		}
		// failing (truncated/corrupt) inputs deliver an unknown-length prefix: skip exact totals then
		exact := true
		for _, e := range expected {
			if e.fails {
				exact = false
			}
		}
		want := 0
		switch {
		case failing > 0:
			want = 2
		case parseErrors > 0:
			want = 2
		case matchedTotal == 0:
			want = 1
		}
		if exact || failing > 0 {
			if code != want {
				return fmt.Errorf("exit status %d, expected %d (failing inputs %d, parse errors %d, matched %d)\nargs=%q\nstderr=%s", code, want, failing, parseErrors, matchedTotal, args, pbt.Trunc(stderr, 800))
			}
		}
	} else {
		got := map[string]map[int][]string{}
		out := so.String()
		if out != "" && !strings.HasSuffix(out, "\n") {
			return fmt.Errorf("stdout does not end with a newline")
		}
		if out != "" {
			for _, l := range strings.Split(strings.TrimSuffix(out, "\n"), "\n") {
				var name string
				rest := l
				found := false
				// the source name may contain ':' only in "<stdin>"-free generated paths: none do
				if i := strings.Index(rest, ":"); i >= 0 {
					name = rest[:i]
					rest = rest[i+1:]
					if j := strings.Index(rest, ":"); j >= 0 {
						n, err := strconv.Atoi(rest[:j])
						if err == nil {
							if got[name] == nil {
								got[name] = map[int][]string{}
							}
							got[name][n] = append(got[name][n], rest[j+1:])
							found = true
						}
					}
				}
				if !found {
					return fmt.Errorf("unparsable output line %q", l)
				}
			}
		}
		for name := range got {
			if expected[name] == nil {
				return fmt.Errorf("lines were emitted for source %q, which is not an expected readable input\nargs=%q\nexpected opens=%s", name, args, describe(ms))
			}
		}
		for name, e := range expected {
			g := got[name]
			if !e.fails {
				if len(g) != len(e.lines) {
					return fmt.Errorf("source %q: %d distinct line numbers emitted, input has %d lines (mentions=%d)\nargs=%q\nstderr=%s", name, len(g), len(e.lines), e.count, args, pbt.Trunc(stderr, 600))
				}
				for i, want := range e.lines {
					texts := g[i+1]
					if len(texts) != e.count {
						return fmt.Errorf("source %q line %d emitted %d time(s), mentioned %d time(s)\nargs=%q", name, i+1, len(texts), e.count, args)
					}
					for _, tx := range texts {
						if tx != string(want) {
							return fmt.Errorf("source %q line %d: got %s want %s (gunzip=%v)\nargs=%q", name, i+1, pbt.Trunc(strconv.Quote(tx), 200), pbt.Q(want), c.Gunzip, args)
						}
					}
				}
				continue
			}
			// a source that fails while being read: a prefix of the true lines,
			// the last emitted one possibly cut short
			if e.count != 1 {
				continue // generator mentions failing files once; duplicates via globs are not judged line by line
			}
			n := len(g)
			if n > len(e.lines) {
				return fmt.Errorf("failing source %q: %d lines emitted, only %d decodable", name, n, len(e.lines))
			}
			// "all bytes read before the error are still delivered as lines":
			// what the decoder hands over before it reports the damage is the
			// same for every reader of the same bytes, so nothing of it may be
			// missing - the lines decodable from the damaged file are all there
			// (the last one possibly cut short by the damage itself).
			if n < len(e.lines) {
				return fmt.Errorf("failing source %q: %d lines emitted, but %d lines can be decoded before the damage (the tail that arrived together with the read error is missing)\nargs=%q\nstderr=%s", name, n, len(e.lines), args, pbt.Trunc(stderr, 400))
			}
			for i := 1; i <= n; i++ {
				texts := g[i]
				if len(texts) != 1 {
					return fmt.Errorf("failing source %q: line %d emitted %d times (line numbers must be contiguous from 1)", name, i, len(texts))
				}
				want := string(e.lines[i-1])
				if texts[0] == want {
					continue
				}
				if i == n && strings.HasPrefix(want, texts[0]) {
					continue
				}
				return fmt.Errorf("failing source %q line %d: got %s, the decodable text is %s", name, i, pbt.Trunc(strconv.Quote(texts[0]), 200), pbt.Trunc(strconv.Quote(want), 200))
			}
		}
		emitted := 0
		for _, g := range got {
			for _, t := range g {
				emitted += len(t)
			}
		}
		want := 0
		switch {
		case failing > 0:
			want = 2
		case emitted == 0:
			want = 1
		}
		if code != want {
			return fmt.Errorf("exit status %d, expected %d (failing inputs %d, emitted %d)\nargs=%q\nstderr=%s", code, want, failing, emitted, args, pbt.Trunc(stderr, 800))
		}
	}

	// observations
	o := c.Obs
	if o != nil {
		healthy, gzs, plains, depth2 := 0, 0, 0, false
		for _, m := range ms {
			if m.file != nil {
				if _, f := delivered(*m.file, c.Gunzip); !f {
					healthy++
				}
				if strings.HasPrefix(m.file.Kind, "gzip") && m.file.Kind != kMagicOnly {
					gzs++
				} else {
					plains++
				}
				if strings.Count(m.name, "/") >= 2 {
					depth2 = true
				}
			}
		}
		o.Add("mentions", len(ms))
		o.Add("failing", failing)
		o.Add("healthy", healthy)
		o.Label(failing >= 1 && healthy >= 2, "failing-among-healthy")
		o.Label(c.Gunzip && gzs >= 1 && plains >= 1, "-z:gzip+plain")
		o.Label(c.Recurse && depth2, "-R-depth>=2")
		o.Label(c.Stdin != nil, "stdin")
		o.Label(c.StdinFail != "", "stdin-read-fails")
		o.Label(c.Histo, "histo(parse-error-exit-path)")
		o.Label(parseErrors > 0, "parse-errors")
		for _, a := range c.Args {
			if hasMeta(a.Text) {
				for _, m := range ms {
					if m.dir && m.name != a.Text {
						o.Label(true, "glob-expansion-holds-a-directory")
					}
				}
			}
		}
		for _, m := range ms {
			o.Label(m.dir, "directory-as-file")
			o.Label(!m.dir && m.file == nil, "missing-path")
			if m.file != nil {
				o.Label(true, "kind:"+m.file.Kind)
				o.Label(m.file.Fifo, "named-pipe")
				o.Label(m.file.Fifo && c.Gunzip, "named-pipe-under-z")
			}
		}
		dup := map[string]int{}
		for _, m := range ms {
			dup[m.name]++
		}
		for _, n := range dup {
			o.Label(n >= 2, "mentioned-twice")
		}
	}
	return nil
}

func histoFields(l []byte) (k, v string, ok bool) {
	// mirror of ^(\S+) (\S*)$ on a line without \n
	s := string(l)
	i := strings.IndexByte(s, ' ')
	if i <= 0 {
		return "", "", false
	}
	k, v = s[:i], s[i+1:]
	for _, part := range []string{k, v} {
		for _, r := range []byte(part) {
			if r == ' ' || r == '\t' || r == '\n' || r == '\r' || r == '\f' {
				return "", "", false
			}
		}
	}
	return k, v, true
}

func describe(ms []mention) string {
	var sb strings.Builder
	for _, m := range ms {
		switch {
		case m.dir:
			fmt.Fprintf(&sb, "%s(dir) ", m.name)
		case m.file == nil:
			fmt.Fprintf(&sb, "%s(missing) ", m.name)
		default:
			fmt.Fprintf(&sb, "%s(%s) ", m.name, m.file.Kind)
		}
	}
	return sb.String()
}

func classify(c Case) (bool, []string) {
	o := c.Obs
	nt := o.Get("mentions") >= 3 && (o.Has("failing-among-healthy") || o.Has("-z:gzip+plain") || o.Has("-R-depth>=2"))
	return nt, o.All()
}

func TestInputs(t *testing.T) {
	pbt.Run(t, pbt.Spec[Case]{
		Property: "C06", Name: "inputs",
		Rule:   "the real binary run in a generated directory tree (depth <=4; plain, empty, gzip, multi-member gzip, truncated gzip, gzip with a flipped byte, plain text starting with the gzip magic) with a generated argument list (existing paths possibly repeated, globs incl. ones matching nothing or matching directories, directories with and without -R, missing paths, '-' or no argument with data on stdin, or with a stdin whose reads fail: a directory / a write-only descriptor) x -z on/off x --readers 1-4 x --batch 1-1000; command = filter -e '{src}:{line}:{0}' or histo with an increment column (parse-error exit path). Oracle: an independent expansion of the arguments over the known tree gives the expected opens; every readable source must be emitted completely, once per mention, with the text Go's gzip (or the raw bytes) yields; a source failing mid-read must yield a prefix of its decodable lines; one '[Log] Error ..' line per failing input; exit status 2 iff a failing input or parse errors, else 1 iff nothing matched, else 0. Non-trivial: >=3 mentions and (a failing input among >=2 healthy ones, or gzip and plain files together under -z, or a -R walk of depth >=2); distinct by case JSON",
		Budget: pbt.Budget{Quick: 2400, Thorough: 60000},
		Gen:    gen, Check: check, Classify: classify,
	})
}
