// C15 — follow mode delivers every appended byte exactly once, in order.
//
// Three layers, one engine:
//
//	reader   followreader.New(...) on a real file, the kernel's notifications
//	         (or the poller's clock) decide the schedule; a gated consumer
//	         goroutine plays the slow / fast caller of Read.
//	batcher  the same histories through batchers.TailFilesToChan: lines, line
//	         numbers, source, batch sizes, end of stream.
//	inject   (build tag verif, inject_verif_test.go) the notify reader with the
//	         kernel watch removed: the harness is the fsnotify goroutine's
//	         input and owns the notification schedule.
//	cli      (cli_test.go) the same histories, in whole lines, through the rare
//	         binary: `rare filter -f|-F [--poll] [--tail] --batch N -w 1 <path>`
//	         with stdout a pipe read by the harness.
//
// Two environment classes are part of the histories of the reader, batcher
// and cli layers (the statement quantifies over histories of the followed
// path; nothing else in its directory, and no way of naming it, may change
// the stream): the followed path is a symbolic link to the real file (files
// that stay in place: appends, pauses, syncs only), and
// neighbour files in the same directory whose names have the followed name
// as a suffix / as a prefix are created, appended to, removed and re-created
// between the operations on the followed file.
//
// Oracles, all tied to the statement:
//
//	safety    what was delivered is at every observation a prefix of the bytes
//	          appended after the starting position (after a re-create: the new
//	          file from its beginning)             -- no loss, duplication, reorder
//	progress  at every sync point and at the end everything appended is
//	          delivered                            -- "the reader blocks rather than
//	          ending", "continues with a file re-created at the same path"
//	end       no error / EOF while the file exists; after remove-after-drain
//	          plain follow returns io.EOF, re-open follow keeps blocking.
//
// The progress oracle is the one place where a deadline takes part in a
// verdict. A violation is only reported for a *stable* stuck state: the bound
// (>= 300x the honest latency) expired, the machine was demonstrably not
// starved, and a second, twice as long wait brought no progress while the
// file still holds undelivered bytes. Anything else (late delivery, starved
// process) is reported as inconclusive, never as a violation.
package c15

import (
	"bytes"
	"errors"
	"flag"
	"fmt"
	"io"
	"os"
	"path/filepath"
	"runtime"
	"strings"
	"sync"
	"sync/atomic"
	"testing"
	"time"

	"pgregory.net/rapid"
	"rare/pkg/extractor/batchers"
	"rare/pkg/followreader"
	"rare/pkg/logger"
	"verifharness/pbt"
)

// ---------- case ---------------------------------------------------------------

const (
	kAppend   = "append"   // N bytes
	kBurst    = "burst"    // N appends of M bytes, G microseconds apart (spinning)
	kPause    = "pause"    // N microseconds
	kSync     = "sync"     // wait until everything appended so far is delivered
	kHold     = "hold"     // the consumer stops calling Read (after the call in flight)
	kRelease  = "release"  // the consumer resumes
	kRemove   = "remove"   // remove-after-drain; N = microseconds the events may settle while the consumer is held
	kRecreate = "recreate" // create the file again at the same path and append N bytes
	kDeliver  = "deliver"  // inject layer: hand the next N queued events to the watcher goroutine
	kNbr      = "nbr"      // neighbour file N (0: name ends with the followed name, 1: starts with it): M=0 append G bytes (creating it), M=1 remove it
)

// names of the neighbour files, relative to the name of the followed file
var nbrName = [2]func(base string) string{
	func(base string) string { return "ssl_" + base },
	func(base string) string { return base + ".1" },
}

type Op struct {
	K string
	N int `json:",omitempty"`
	M int `json:",omitempty"`
	G int `json:",omitempty"`
}

type Hist struct {
	Layer    string // reader | batcher | inject
	Poll     bool
	Reopen   bool
	Tail     bool
	Initial  int  // bytes in the file before the reader is created
	Aligned  bool `json:",omitempty"` // records are exactly 64 bytes long, so that a read buffer of 128 KiB ends exactly on a line end
	Buf      int  `json:",omitempty"` // reader/inject: length of the slice handed to Read
	PollUs   int  `json:",omitempty"` // reader: PollDelay in microseconds
	Batch    int  `json:",omitempty"` // batcher: batch size
	BatchBuf int  `json:",omitempty"` // batcher: channel buffer
	Coalesce bool `json:",omitempty"` // inject: identical consecutive queued events collapse into one (inotify does that)
	Link     bool `json:",omitempty"` // the followed path is a symbolic link to the real file (which stays in place)
	LinkOut  bool `json:",omitempty"` // the real file lives in another directory than the link
	LinkSame bool `json:",omitempty"` // ... and has the same name there as the link
	RelPath  bool `json:",omitempty"` // cli: the path is given relative to the working directory of the process
	LinkAbs  bool `json:",omitempty"` // the link holds the absolute path of the real file (else a relative one)
	Nbr      bool `json:",omitempty"` // neighbour files take part (kNbr operations)
	NbrInit  int  `json:",omitempty"` // bit k: neighbour k exists, with content, before the follow starts
	Ops      []Op
}

type Case struct {
	H    []Hist
	Reps int      `json:",omitempty"` // saved cases: run every history this many times (the schedule is sampled)
	Obs  *pbt.Obs `json:"-"`
}

func (h Hist) mode() string {
	m := "notify"
	if h.Poll {
		m = "poll"
	}
	if h.Reopen {
		m += "+reopen"
	} else {
		m += "+plain"
	}
	if h.Tail {
		m += "+tail"
	} else {
		m += "+start"
	}
	return m
}

// ---------- content: position-identifying, newline-terminated records ------------

// Every incarnation of the file carries its own infinite text: records
// "<incarnation>.<k><padding>\n". Any window of a few bytes identifies its
// position, so a duplicated, dropped or shifted range can never look like a
// prefix of the expected stream.
type stream struct {
	inc     int
	buf     []byte
	k       int
	aligned bool // every record is exactly 64 bytes
}

func (s *stream) upto(n int) {
	for len(s.buf) < n {
		pad := (s.k * 7) % 23
		if s.k%11 == 5 {
			pad = 60 + s.k%37
		}
		if s.aligned {
			pad = 63 - len(fmt.Sprintf("%d.%d", s.inc, s.k))
		}
		s.buf = append(s.buf, fmt.Sprintf("%d.%d", s.inc, s.k)...)
		s.buf = append(s.buf, strings.Repeat("x", pad)...)
		s.buf = append(s.buf, '\n')
		s.k++
	}
}

func (s *stream) slice(off, n int) []byte {
	s.upto(off + n)
	return s.buf[off : off+n : off+n]
}

// linesLen returns how many bytes n complete records take from offset off
// (a record boundary).
func (s *stream) linesLen(off, n int) int {
	end := off
	for ; n > 0; n-- {
		s.upto(end + 200)
		end += bytes.IndexByte(s.buf[end:], '\n') + 1
	}
	return end - off
}

// toNewline returns how many bytes are missing at offset off to complete the
// record in progress (0 when off is a record boundary).
func (s *stream) toNewline(off int) int {
	if off == 0 {
		return 0
	}
	s.upto(off + 200)
	if s.buf[off-1] == '\n' {
		return 0
	}
	return bytes.IndexByte(s.buf[off:], '\n') + 1
}

// ---------- starvation evidence ------------------------------------------------------

// A heartbeat goroutine sleeps 1 ms at a time and records every oversleep
// above 100 ms. If the process (and with it the reader goroutine) was not
// scheduled during a progress wait, the heartbeat shows it.
type gapRec struct {
	at  time.Time
	gap time.Duration
}

var (
	heartOnce sync.Once
	heartMu   sync.Mutex
	heartGaps []gapRec
	heartBeat atomic.Int64
)

func startHeart() {
	heartOnce.Do(func() {
		go func() {
			prev := time.Now()
			for {
				time.Sleep(time.Millisecond)
				now := time.Now()
				heartBeat.Add(1)
				if g := now.Sub(prev); g > 100*time.Millisecond {
					heartMu.Lock()
					heartGaps = append(heartGaps, gapRec{now, g})
					if len(heartGaps) > 4096 {
						heartGaps = heartGaps[2048:]
					}
					heartMu.Unlock()
				}
				prev = now
			}
		}()
	})
}

// starved reports whether, since t0, the process lost more than a tenth of
// the time to scheduling gaps, or whether a scheduling probe run right now
// (goroutine hand-offs and 1 ms sleeps) shows latencies above 100 ms.
func starved(t0 time.Time) (bool, string) {
	var lost time.Duration
	heartMu.Lock()
	for _, g := range heartGaps {
		if g.at.After(t0) {
			lost += g.gap
		}
	}
	heartMu.Unlock()
	if win := time.Since(t0); lost > win/10 {
		return true, fmt.Sprintf("heartbeat lost %v of the last %v", lost.Round(time.Millisecond), win.Round(time.Millisecond))
	}
	ping, pong := make(chan struct{}), make(chan struct{})
	go func() {
		for range ping {
			pong <- struct{}{}
		}
	}()
	defer close(ping)
	var worst time.Duration
	for i := 0; i < 20; i++ {
		s := time.Now()
		ping <- struct{}{}
		<-pong
		time.Sleep(time.Millisecond)
		if d := time.Since(s); d > worst {
			worst = d
		}
	}
	if worst > 100*time.Millisecond {
		return true, fmt.Sprintf("scheduling probe: a goroutine hand-off plus a 1ms sleep took %v", worst.Round(time.Millisecond))
	}
	return false, ""
}

// errInconclusive: the harness could not decide (late delivery, starved
// machine, no inotify instance to be had). Never a violation.
type errInconclusive struct{ msg string }

func (e errInconclusive) Error() string { return e.msg }

var (
	inconMu   sync.Mutex
	inconMsgs []string
)

func noteInconclusive(msg string) {
	inconMu.Lock()
	inconMsgs = append(inconMsgs, msg)
	inconMu.Unlock()
	pbt.Exclude("inconclusive-timing")
}

// reportInconclusive is called at the end of every Test function, after
// pbt.Run has written its evidence: a run in which a progress bound expired
// without a stable stuck state must not end "OK".
func reportInconclusive(t *testing.T) {
	inconMu.Lock()
	defer inconMu.Unlock()
	if len(inconMsgs) == 0 || t.Failed() || os.Getenv("VERIF_REPLAY") != "" {
		return
	}
	fmt.Printf("VERIF-INCONCLUSIVE property=C15 %d progress wait(s) could not be decided; first: %s\n", len(inconMsgs), inconMsgs[0])
	os.Stdout.Sync()
	os.Exit(7)
}

// ---------- engine ----------------------------------------------------------------------

// at most this many fsnotify watchers (inotify instances) per process: the
// per-user limit is 128 and 16 shard processes run side by side.
var notifySlots = make(chan struct{}, 2)

// injected notify reader (hook of pkg/followreader/verif_hooks.go); the
// constructor is registered by inject_verif_test.go.
type injReader interface {
	followreader.FollowReader
	VerifInjectWrite() bool
	VerifInjectCreate() bool
	VerifInjectRemove() bool
	VerifPending() (write, del int)
}

var newInjected func(path string, reopen bool) (injReader, error)

const (
	evW = 'W'
	evC = 'C'
	evD = 'D'
)

type stats struct {
	mode                                      string
	appends, appendsIdle, appendsBusy         int
	appendsHeld, rotations, appendsAfterRot   int
	heldRemoves, heldRotations, syncs, reads  int
	renameRotations, plainRecreated           int
	bothPending, coalesced, droppedEv         int
	forcedSync, padded, clamped, eof, batches int
	bytes, maxBacklog                         int
	nbrOps, nbrCreates, nbrRecreates          int
	nbrRemoves                                [2]int
	linesOut                                  int
	link, linkOut, linkSame, cli, aligned     bool
	ran                                       bool
}

func (s *stats) nontrivial() bool {
	if s.cli {
		// the consumer is another process: >= 2 appends, all lines seen on stdout
		return s.ran && s.appends >= 2 && s.linesOut >= 2
	}
	if !s.ran || s.appends < 3 || s.appendsIdle < 1 || s.appendsBusy < 1 {
		return false
	}
	if strings.Contains(s.mode, "reopen") && !s.link { // a linked file stays in place
		return s.rotations >= 1 && s.appendsAfterRot >= 2
	}
	return true
}

type run struct {
	quietAppend bool // the write goes to a file that is not at the path yet: no Write notification
	h           Hist
	st          *stats
	dir         string
	path        string // the followed path
	real        string // the file behind it (== path unless the history follows a symbolic link)
	nbrW        [2]*os.File
	nbrGone     [2]bool
	nbrSeq      int
	cli         *cliProc

	w        *os.File // the appending writer of the current incarnation
	exists   bool
	inc      int
	str      *stream
	incSize  int // bytes in the current incarnation of the file
	incBase  int // len(expected) when the current incarnation was created
	prevDel  int // bytes delivered from the previous incarnation (poll proviso)
	designed time.Duration
	slot     bool

	rd   followreader.FollowReader
	inj  injReader
	bat  *batchers.Batcher
	evq  []byte // inject: file-system events not yet handed to the watcher goroutine
	gone bool   // inject: watcher closed

	mu        sync.Mutex
	gate      *sync.Cond
	wake      chan struct{}
	expected  []byte
	lineEnds  []int // batcher: offsets just after every '\n' in expected
	delivered int   // bytes (batcher: through the end of the last delivered line)
	dl        int   // batcher: lines delivered
	lastDel   time.Time
	bad       error
	ended     bool
	endErr    error
	holdReq   bool
	atGate    bool
	inRead    bool
	cleaning  bool
	rotated   bool
	skipped   bool
}

func scratch() string {
	d := os.Getenv("VERIF_SCRATCH")
	if d == "" {
		d = os.TempDir()
	}
	return d
}

func (r *run) signal() {
	select {
	case r.wake <- struct{}{}:
	default:
	}
}

func spin(us int) {
	if us <= 0 {
		return
	}
	if us > 150 {
		time.Sleep(time.Duration(us) * time.Microsecond)
		return
	}
	end := time.Now().Add(time.Duration(us) * time.Microsecond)
	for time.Now().Before(end) {
	}
}

// record verifies one delivered chunk against the expected stream (mu held).
func (r *run) record(p []byte) {
	if r.bad != nil {
		return
	}
	d := r.delivered
	if d+len(p) <= len(r.expected) && bytes.Equal(r.expected[d:d+len(p)], p) {
		r.delivered += len(p)
		if bl := len(r.expected) - r.delivered; bl > r.st.maxBacklog {
			r.st.maxBacklog = bl
		}
		r.lastDel = time.Now()
		return
	}
	// describe the damage
	what := "bytes that were never appended after the start position"
	if i := bytes.Index(r.expected[:d], firstN(p, 12)); i >= 0 && len(p) > 0 {
		what = fmt.Sprintf("DUPLICATION: these bytes were already delivered (they are at offset %d of the stream, %d were delivered so far)", i, d)
	} else if i := bytes.Index(r.expected[d:], firstN(p, 12)); i > 0 {
		what = fmt.Sprintf("LOSS: %d byte(s) of the stream were skipped", i)
	}
	end := d + len(p) + 8
	if end > len(r.expected) {
		end = len(r.expected)
	}
	r.bad = fmt.Errorf("delivered stream is not a prefix of the appended stream: after %d delivered byte(s) Read returned %s, the stream continues with %s -- %s",
		d, pbt.Q(firstN(p, 80)), pbt.Q(firstN(r.expected[d:end], 80)), what)
}

func firstN(p []byte, n int) []byte {
	if len(p) > n {
		return p[:n]
	}
	return p
}

// consume is the caller of Read: it copies whatever arrives, honours the
// gate, and stops at the first error.
func (r *run) consume(rd io.Reader) {
	defer func() {
		if p := recover(); p != nil {
			r.mu.Lock()
			if r.bad == nil {
				r.bad = fmt.Errorf("panic in Read: %v", p)
			}
			r.ended = true
			r.mu.Unlock()
			r.signal()
		}
	}()
	buf := make([]byte, r.h.Buf)
	for {
		r.mu.Lock()
		// a requested hold engages once everything appended so far has been
		// delivered, and then lasts until it is released
		for r.holdReq && !r.cleaning && (r.atGate || r.delivered == len(r.expected)) {
			r.atGate = true
			r.signal()
			r.gate.Wait()
		}
		r.atGate = false
		r.inRead = true
		r.mu.Unlock()

		n, err := rd.Read(buf)

		r.mu.Lock()
		r.inRead = false
		if !r.cleaning {
			r.st.reads++
			if n > 0 {
				r.record(buf[:n])
			}
			if n < 0 || n > len(buf) {
				r.bad = fmt.Errorf("Read returned n=%d for a buffer of %d", n, len(buf))
			}
		}
		if err != nil {
			r.ended = true
			r.endErr = err
		}
		r.mu.Unlock()
		r.signal()
		if err != nil {
			return
		}
	}
}

// lines: the layer delivers complete lines (batcher, cli), not bytes.
func (r *run) lines() bool { return r.h.Layer == "batcher" || r.h.Layer == "cli" }

// recordLine verifies one delivered line (without its '\n') against the
// expected stream (mu held).
func (r *run) recordLine(line []byte) {
	if r.bad != nil {
		return
	}
	if r.dl >= len(r.lineEnds) {
		what := ""
		if i := bytes.Index(r.expected[:r.delivered], append(append([]byte{}, line...), '\n')); i >= 0 && len(line) > 0 {
			what = fmt.Sprintf(" -- DUPLICATION: this line was already delivered (offset %d of the stream)", i)
		}
		r.bad = fmt.Errorf("line %d delivered as %s, but only %d complete line(s) were appended so far (stream tail %s)%s",
			r.dl+1, pbt.Q(firstN(line, 80)), len(r.lineEnds), pbt.Q(r.expected[r.delivered:]), what)
		return
	}
	want := r.expected[r.delivered : r.lineEnds[r.dl]-1]
	if !bytes.Equal(want, line) {
		r.bad = fmt.Errorf("line %d: got %s want %s", r.dl+1, pbt.Q(firstN(line, 80)), pbt.Q(firstN(want, 80)))
		return
	}
	r.delivered = r.lineEnds[r.dl]
	r.dl++
	r.st.linesOut++
	r.lastDel = time.Now()
}

// consumeBatches is the consumer of the batcher layer.
func (r *run) consumeBatches() {
	for b := range r.bat.BatchChan() {
		r.mu.Lock()
		if !r.cleaning && r.bad == nil {
			r.st.batches++
			switch {
			case b.Source != r.path:
				r.bad = fmt.Errorf("batch carries source %q, the followed file is %q", b.Source, r.path)
			case len(b.Batch) < 1 || len(b.Batch) > r.h.Batch:
				r.bad = fmt.Errorf("batch of %d lines, batch size is %d", len(b.Batch), r.h.Batch)
			case !r.rotated && b.BatchStart != uint64(r.dl+1):
				r.bad = fmt.Errorf("batch starts at line number %d, but %d line(s) were delivered before it", b.BatchStart, r.dl)
			}
			for _, line := range b.Batch {
				if r.bad != nil {
					break
				}
				r.recordLine(line)
			}
		}
		r.mu.Unlock()
		r.signal()
	}
	r.mu.Lock()
	r.ended = true
	r.endErr = io.EOF
	r.mu.Unlock()
	r.signal()
}

func (r *run) bound() time.Duration { return 5*time.Second + 4*r.designed }

// drained: everything appended is delivered (mu held). The batcher may keep
// up to Batch-1 complete lines, and always the unterminated tail, until more
// input or the end of the stream arrives (docs/usage/input.md, batch sizes).
func (r *run) drained() bool {
	if r.lines() {
		return r.dl >= len(r.lineEnds)-(r.h.Batch-1)
	}
	return r.delivered == len(r.expected)
}

func (r *run) fullyDrained() bool {
	if r.lines() {
		return r.dl == len(r.lineEnds) && (len(r.lineEnds) == 0 && len(r.expected) == 0 || len(r.lineEnds) > 0 && r.lineEnds[len(r.lineEnds)-1] == len(r.expected))
	}
	return r.delivered == len(r.expected)
}

// waitFor waits until pred (evaluated under mu) holds. It returns the safety
// violation if the consumer found one, a stuck-state violation under the
// rules stated at the top of the file, or errInconclusive.
func (r *run) waitFor(what string, pred func() bool, endOK bool) error {
	t0 := time.Now()
	bound := r.bound()
	check := func() (done bool, err error) {
		r.mu.Lock()
		defer r.mu.Unlock()
		if r.bad != nil {
			return true, r.bad
		}
		if pred() {
			return true, nil
		}
		if r.ended && !endOK {
			return true, fmt.Errorf("%s: the stream ended (%v) while the file exists and %d appended byte(s) were not delivered", what, r.endErr, len(r.expected)-r.delivered)
		}
		return false, nil
	}
	waitUntil := func(limit time.Duration, start time.Time, stop func() bool) (bool, error) {
		for {
			if done, err := check(); done {
				return true, err
			}
			if stop != nil && stop() {
				return false, nil
			}
			left := limit - time.Since(start)
			if left <= 0 {
				return false, nil
			}
			if left > 2*time.Millisecond {
				left = 2 * time.Millisecond
			}
			tm := time.NewTimer(left)
			select {
			case <-r.wake:
			case <-tm.C:
			}
			tm.Stop()
		}
	}
	if done, err := waitUntil(bound, t0, nil); done {
		return err
	}
	// the bound expired. Stable stuck state, or trouble of our own?
	r.mu.Lock()
	d0, e0 := r.delivered, len(r.expected)
	state := fmt.Sprintf("consumer inRead=%v atGate=%v ended=%v", r.inRead, r.atGate, r.ended)
	r.mu.Unlock()
	if r.inj != nil && !r.gone {
		pw, pd := r.inj.VerifPending()
		state += fmt.Sprintf(", pending signals write=%d delete=%d, undelivered events=%d", pw, pd, len(r.evq))
	}
	if r.cli != nil {
		state += r.cliState()
	}
	if s, why := starved(t0); s {
		return errInconclusive{fmt.Sprintf("%s: not done after %v, but the process was starved (%s)", what, bound, why)}
	}
	t1 := time.Now()
	done, err := waitUntil(2*bound, t1, func() bool {
		r.mu.Lock()
		defer r.mu.Unlock()
		return r.delivered != d0
	})
	if done && err != nil {
		return err // a safety violation surfaced meanwhile
	}
	r.mu.Lock()
	d1 := r.delivered
	r.mu.Unlock()
	if done || d1 != d0 {
		return errInconclusive{fmt.Sprintf("%s: delivery resumed only after %v (bound %v) -- late, not stuck", what, time.Since(t0).Round(time.Millisecond), bound)}
	}
	if s, why := starved(t1); s {
		return errInconclusive{fmt.Sprintf("%s: not done after %v, but the process was starved (%s)", what, time.Since(t0).Round(time.Millisecond), why)}
	}
	onDisk := "file is absent"
	if fi, err := os.Stat(r.path); err == nil {
		onDisk = fmt.Sprintf("file holds %d bytes (harness wrote %d to this incarnation)", fi.Size(), r.incSize)
		if r.exists && int(fi.Size()) != r.incSize {
			return errInconclusive{fmt.Sprintf("%s: the file on disk has %d bytes, the harness wrote %d", what, fi.Size(), r.incSize)}
		}
	}
	return fmt.Errorf("%s: STUCK -- %d of %d appended byte(s) delivered, no progress during %v (bound %v, then %v more without any change, machine not starved); %s; %s; next undelivered bytes %s\nreader goroutine(s):\n%s",
		what, d0, e0, time.Since(t0).Round(time.Millisecond), bound, (2 * bound), onDisk, state, pbt.Q(firstN(r.expected[min(d0, e0):], 40)), readerStacks(r.path))
}

// readerStacks returns the stacks of the goroutines that are inside the
// follow reader (diagnostics for a stuck report; never part of a verdict).
func readerStacks(path string) string {
	buf := make([]byte, 1<<20)
	buf = buf[:runtime.Stack(buf, true)]
	var out []string
	for _, g := range strings.Split(string(buf), "\n\n") {
		if strings.Contains(g, "followreader.(") && (strings.Contains(g, ").Read(") || strings.Contains(g, "startWatcher")) {
			if len(g) > 700 {
				g = g[:700] + "..."
			}
			out = append(out, g)
			if len(out) >= 4 {
				break
			}
		}
	}
	// which incarnations of the file does the process still hold open?
	if ents, err := os.ReadDir("/proc/self/fd"); err == nil {
		for _, e := range ents {
			if l, err := os.Readlink("/proc/self/fd/" + e.Name()); err == nil && strings.HasPrefix(l, path) {
				out = append(out, "open fd "+e.Name()+" -> "+l)
			}
		}
	}
	return strings.Join(out, "\n")
}

func (r *run) release() {
	r.mu.Lock()
	r.holdReq = false
	r.gate.Broadcast()
	r.mu.Unlock()
}

func (r *run) drain(what string) error {
	r.deliverAll()
	r.release()
	r.st.syncs++
	return r.waitFor(what, r.drained, false)
}

// ---- inject layer: the harness is the source of the watcher's events ----------

func (r *run) enqueue(ev byte) {
	if r.inj != nil {
		r.evq = append(r.evq, ev)
	}
}

func (r *run) deliver(n int) {
	for ; n > 0 && len(r.evq) > 0 && !r.gone; n-- {
		ev := r.evq[0]
		r.evq = r.evq[1:]
		if r.h.Coalesce {
			for len(r.evq) > 0 && r.evq[0] == ev {
				r.evq = r.evq[1:]
				r.st.coalesced++
			}
		}
		ok := true
		switch ev {
		case evD:
			ok = r.inj.VerifInjectRemove()
		default:
			// fsnotify drops create/write events whose path no longer exists
			// when it gets to them (Event.ignoreLinux)
			if _, err := os.Lstat(r.path); err != nil {
				r.st.droppedEv++
				continue
			}
			if ev == evC {
				ok = r.inj.VerifInjectCreate()
			} else {
				ok = r.inj.VerifInjectWrite()
			}
		}
		if !ok {
			r.gone = true
		}
	}
	if r.inj != nil && !r.gone {
		r.mu.Lock()
		held := r.atGate
		r.mu.Unlock()
		if pw, pd := r.inj.VerifPending(); held && pw == 1 && pd == 1 {
			r.st.bothPending++
		}
	}
}

func (r *run) deliverAll() {
	if r.inj != nil {
		r.deliver(len(r.evq))
	}
}

// ---- file operations ------------------------------------------------------------------

// amount: the cli layer appends whole lines (N counts records), the other
// layers bytes.
func (r *run) amount(n int) int {
	if r.h.Layer == "cli" && r.exists && n > 0 {
		return r.str.linesLen(r.incSize, n)
	}
	return n
}

// nbrOp works on a neighbour of the followed file: same directory, a name
// that ends with (which=0) or starts with (which=1) the followed name. The
// expected stream of the followed file does not change.
func (r *run) nbrOp(which, action, n int) error {
	if !r.h.Nbr || which < 0 || which > 1 {
		return nil
	}
	p := filepath.Join(r.dir, nbrName[which](filepath.Base(r.path)))
	switch action {
	case 0:
		if r.nbrW[which] == nil {
			w, err := os.OpenFile(p, os.O_CREATE|os.O_EXCL|os.O_APPEND|os.O_WRONLY, 0o644)
			if err != nil {
				return errInconclusive{"harness could not create a neighbour file: " + err.Error()}
			}
			r.nbrW[which] = w
			r.st.nbrCreates++
			if r.nbrGone[which] {
				r.st.nbrRecreates++
			}
		}
		if n < 1 {
			n = 1
		}
		var data []byte
		for len(data) < n {
			r.nbrSeq++
			data = append(data, fmt.Sprintf("neighbour %d line %d, not part of the followed file\n", which, r.nbrSeq)...)
		}
		data = data[:n]
		data[n-1] = '\n'
		if _, err := r.nbrW[which].Write(data); err != nil {
			return errInconclusive{"harness could not append to a neighbour file: " + err.Error()}
		}
	case 1:
		if r.nbrW[which] == nil {
			return nil
		}
		r.nbrW[which].Close()
		r.nbrW[which] = nil
		if err := os.Remove(p); err != nil {
			return errInconclusive{"harness could not remove a neighbour file: " + err.Error()}
		}
		r.nbrGone[which] = true
		r.st.nbrRemoves[which]++
	}
	r.st.nbrOps++
	return nil
}

func (r *run) appendBytes(n int) error {
	if !r.exists || n <= 0 {
		return nil
	}
	// statement: "when polling: provided the new file is still shorter than
	// what was already delivered when the poller notices it". Until the first
	// byte of the new incarnation has been delivered the poller may not have
	// noticed it: keep it shorter than what the previous one delivered.
	if r.h.Poll && r.h.Reopen && r.rotated {
		r.mu.Lock()
		noticed := r.delivered > r.incBase
		r.mu.Unlock()
		if !noticed && r.incSize+n >= r.prevDel {
			r.st.forcedSync++
			pbt.Exclude("poll-recreated-file-grows-past-delivered-before-noticed")
			r.deliverAll()
			r.release()
			if err := r.waitFor("a re-created file (polling, still shorter than what was delivered) must be read from its beginning",
				func() bool { return r.delivered > r.incBase }, false); err != nil {
				return err
			}
		}
	}
	data := r.str.slice(r.incSize, n)
	r.mu.Lock()
	idle := r.delivered == len(r.expected)
	switch {
	case r.atGate:
		r.st.appendsHeld++
	case idle && time.Since(r.lastDel) > 300*time.Microsecond:
		r.st.appendsIdle++ // the reader has nothing to read: it is blocked (or polling)
	case !idle:
		r.st.appendsBusy++ // the reader still has a backlog: it is reading
	}
	base := len(r.expected)
	r.expected = append(r.expected, data...)
	for i, c := range data {
		if c == '\n' {
			r.lineEnds = append(r.lineEnds, base+i+1)
		}
	}
	r.mu.Unlock()
	if _, err := r.w.Write(data); err != nil {
		return errInconclusive{"harness could not append: " + err.Error()}
	}
	r.incSize += n
	r.st.appends++
	r.st.bytes += n
	if r.rotated {
		r.st.appendsAfterRot++
	}
	if !r.quietAppend {
		r.enqueue(evW)
	}
	return nil
}

func (r *run) remove(settleUs int, recreateAtOnce bool) error {
	if !r.exists {
		return nil
	}
	if r.h.Link {
		// what removal means through a link is not fixed by the statement
		pbt.Exclude("remove-of-a-followed-symlink")
		return nil
	}
	if r.lines() {
		// lines must not straddle the removal: complete the record
		if k := r.str.toNewline(r.incSize); k > 0 {
			r.st.padded++
			if err := r.appendBytes(k); err != nil {
				return err
			}
		}
	}
	// remove-after-drain. A consumer that is being held stays held when
	// everything is delivered already (slow caller during a rotation).
	r.mu.Lock()
	wantHeld := r.holdReq && !r.lines()
	r.mu.Unlock()
	if wantHeld {
		// give the consumer a moment to deliver the rest and reach the gate
		// (no verdict here: if it does not, the removal happens unheld)
		r.deliverAll()
		t0 := time.Now()
		for time.Since(t0) < 50*time.Millisecond+10*r.designed {
			r.mu.Lock()
			g := r.atGate || r.bad != nil || r.ended
			r.mu.Unlock()
			if g {
				break
			}
			select {
			case <-r.wake:
			case <-time.After(200 * time.Microsecond):
			}
		}
	}
	r.mu.Lock()
	dr := r.fullyDrained() && r.bad == nil
	held := r.atGate && dr
	r.mu.Unlock()
	if !dr {
		if err := r.drain("drain before remove"); err != nil {
			return err
		}
		r.mu.Lock()
		dr = r.fullyDrained()
		r.mu.Unlock()
		if !dr { // batcher with batch>1: cannot know that the reader has read everything
			pbt.Exclude("remove-without-observable-drain")
			return nil
		}
	}
	r.mu.Lock()
	none := len(r.expected) == 0
	r.prevDel = r.delivered - r.incBase
	r.mu.Unlock()
	if none {
		// statement: "once delivered data is followed by removal"
		pbt.Exclude("remove-before-any-delivery")
		return nil
	}
	r.w.Close()
	if err := os.Remove(r.path); err != nil {
		return errInconclusive{"harness could not remove: " + err.Error()}
	}
	r.exists = false
	r.enqueue(evD)
	if held {
		r.st.heldRemoves++
	}
	if recreateAtOnce && !r.h.Reopen && !r.h.Poll {
		// log rotation: another file appears at the path at once. It is not
		// the followed file: plain follow ends all the same and delivers none
		// of it. (Polling cannot tell such a rotation from a truncation and is
		// not asked to.)
		if err := os.WriteFile(r.path, []byte("a different file at the same path\n"), 0o644); err != nil {
			return errInconclusive{"harness could not re-create: " + err.Error()}
		}
		r.st.plainRecreated++
		r.enqueue(evC)
		r.enqueue(evW)
	}
	if r.h.Reopen {
		return nil
	}
	// plain follow: the stream ends
	if held {
		r.deliverAll()
		spin(settleUs)
	}
	r.deliverAll()
	r.release()
	if err := r.waitFor("plain follow after remove-after-drain must end the stream", func() bool { return r.ended }, true); err != nil {
		return err
	}
	r.mu.Lock()
	defer r.mu.Unlock()
	if r.bad != nil {
		return r.bad
	}
	if !errors.Is(r.endErr, io.EOF) {
		return fmt.Errorf("plain follow ended with %v after the file was removed, want io.EOF", r.endErr)
	}
	r.st.eof++
	return nil
}

func (r *run) recreate(n int, byRename bool) error {
	if r.exists || !r.h.Reopen {
		return nil
	}
	if n < 1 {
		n = 1
	}
	str := &stream{inc: r.inc + 1, aligned: r.h.Aligned}
	if r.h.Layer == "cli" {
		n = str.linesLen(0, n) // whole lines
	}
	if r.lines() {
		// the batcher shows complete lines only: the first append completes
		// a record, so that "the poller has noticed the new file" is observable
		n += str.toNewline(n)
	}
	if r.h.Poll {
		if n >= r.prevDel {
			n = r.prevDel - 1
			if r.lines() {
				n = 1 + str.toNewline(1)
			}
			r.st.clamped++
		}
		if n < 1 || n >= r.prevDel {
			pbt.Exclude("poll-recreate-cannot-be-shorter-than-delivered")
			return nil
		}
	}
	r.mu.Lock()
	wasHeld := r.atGate
	r.inc++
	r.str = str
	r.incBase = len(r.expected)
	r.rotated = true
	r.mu.Unlock()
	r.incSize = 0
	if byRename {
		// the finished file appears in one step: written under another name
		// and renamed onto the path, the way log rotation and atomic writers
		// do it. The only notification is the appearance of the path (a
		// Create); no Write follows until the next append.
		tmp := r.path + ".incoming"
		w, err := os.OpenFile(tmp, os.O_CREATE|os.O_EXCL|os.O_APPEND|os.O_WRONLY, 0o644)
		if err != nil {
			return errInconclusive{"harness could not re-create: " + err.Error()}
		}
		r.w = w
		r.exists = true
		r.st.rotations++
		r.st.renameRotations++
		if wasHeld {
			r.st.heldRotations++
		}
		r.quietAppend = true
		err = r.appendBytes(n)
		r.quietAppend = false
		if err != nil {
			return err
		}
		if err := os.Rename(tmp, r.path); err != nil {
			return errInconclusive{"harness could not rename into place: " + err.Error()}
		}
		r.enqueue(evC)
		return nil
	}
	w, err := os.OpenFile(r.path, os.O_CREATE|os.O_EXCL|os.O_APPEND|os.O_WRONLY, 0o644)
	if err != nil {
		return errInconclusive{"harness could not re-create: " + err.Error()}
	}
	r.w = w
	r.exists = true
	r.st.rotations++
	if wasHeld {
		r.st.heldRotations++
	}
	r.enqueue(evC)
	return r.appendBytes(n)
}

// ---- start / stop ---------------------------------------------------------------------

func (r *run) start() error {
	dir, err := os.MkdirTemp(scratch(), "c15-")
	if err != nil {
		return errInconclusive{"scratch: " + err.Error()}
	}
	r.dir = dir
	r.path = filepath.Join(dir, "followed.log")
	r.real = r.path
	r.str = &stream{inc: 0, aligned: r.h.Aligned}
	r.st.aligned = r.h.Aligned
	if r.h.Link {
		// followed.log -> app-2026-09-30.log, in the same directory or in
		// another one (there possibly under the name of the link), named
		// relatively or absolutely
		target := "app-2026-09-30.log"
		if r.h.LinkOut && r.h.LinkSame {
			target = filepath.Base(r.path)
		}
		if r.h.LinkOut {
			if err := os.Mkdir(filepath.Join(dir, "store"), 0o755); err != nil {
				return errInconclusive{"scratch: " + err.Error()}
			}
			target = filepath.Join("store", target)
		}
		r.real = filepath.Join(dir, target)
		if r.h.LinkAbs {
			target = r.real
		}
		if err := os.Symlink(target, r.path); err != nil {
			return errInconclusive{"scratch: " + err.Error()}
		}
		r.st.link, r.st.linkOut, r.st.linkSame = true, r.h.LinkOut, r.h.LinkOut && r.h.LinkSame
	}
	w, err := os.OpenFile(r.real, os.O_CREATE|os.O_EXCL|os.O_APPEND|os.O_WRONLY, 0o644)
	if err != nil {
		return errInconclusive{"scratch: " + err.Error()}
	}
	r.w = w
	r.exists = true
	if r.h.Nbr {
		for k := 0; k < 2; k++ {
			if r.h.NbrInit&(1<<k) != 0 {
				if err := r.nbrOp(k, 0, 40+25*k); err != nil {
					return err
				}
				r.st.nbrOps-- // part of the initial state, not an operation
			}
		}
	}
	if r.h.Layer == "cli" {
		r.st.cli = true
		r.h.Initial = r.str.linesLen(0, r.h.Initial) // whole lines
	}
	if r.h.Initial > 0 {
		init := r.str.slice(0, r.h.Initial)
		if _, err := w.Write(init); err != nil {
			return errInconclusive{"scratch: " + err.Error()}
		}
		r.incSize = r.h.Initial
		if !r.h.Tail {
			r.expected = append(r.expected, init...)
			for i, c := range init {
				if c == '\n' {
					r.lineEnds = append(r.lineEnds, i+1)
				}
			}
		}
	}
	if r.h.Layer == "batcher" && !r.h.Poll && r.h.Reopen {
		if batcherNotifyReopenQuota.Add(-1) < 0 {
			pbt.Exclude("batcher-notify-reopen-beyond-inotify-quota")
			r.skipped = true
			return nil
		}
	}
	needSlot := !r.h.Poll
	if needSlot {
		notifySlots <- struct{}{}
		r.slot = true
	}
	open := func() error {
		switch r.h.Layer {
		case "inject":
			if newInjected == nil {
				return errInconclusive{"inject layer needs the verif build tag"}
			}
			rd, err := newInjected(r.path, r.h.Reopen)
			if err != nil {
				return err
			}
			r.inj, r.rd = rd, rd
		case "reader":
			rd, err := followreader.New(r.path, r.h.Reopen, r.h.Poll)
			if err != nil {
				return err
			}
			if p, ok := rd.(*followreader.PollingFollowReader); ok {
				p.PollDelay = time.Duration(r.h.PollUs) * time.Microsecond
				r.designed = time.Duration(p.ReadAttempts+1) * p.PollDelay
			}
			r.rd = rd
		case "batcher":
			if r.h.Poll {
				r.designed = 1500 * time.Millisecond // 250ms PollDelay x (5 read attempts + 1)
			}
			names := make(chan string, 1)
			names <- r.path
			close(names)
			bat := batchers.TailFilesToChan(names, r.h.Batch, r.h.BatchBuf, r.h.Reopen, r.h.Poll, r.h.Tail)
			// the reader is opened (and drained for --tail) by a goroutine of
			// the batcher; ActiveFileCount()==1 is its public "started" signal.
			// A reader that cannot be created is only logged and counted.
			t0 := time.Now()
			for bat.ActiveFileCount() == 0 {
				if bat.ReadErrors() > 0 {
					time.Sleep(5 * time.Millisecond)
					if bat.ActiveFileCount() == 0 {
						go func() {
							for range bat.BatchChan() {
							}
						}()
						return errors.New("too many open files (batcher could not create its reader)")
					}
				}
				if time.Since(t0) > 20*time.Second {
					return errInconclusive{"batcher did not start reading within 20s"}
				}
				time.Sleep(200 * time.Microsecond)
			}
			r.bat = bat
		case "cli":
			if r.h.Poll {
				r.designed = 1500 * time.Millisecond // 250ms PollDelay x (5 read attempts + 1)
			}
			return r.startCLI()
		}
		return nil
	}
	// inotify instances are a per-user resource shared with everything else
	// on the machine: retry, never turn exhaustion into a verdict
	for try := 0; ; try++ {
		err = open()
		if err == nil {
			break
		}
		var inc errInconclusive
		if errors.As(err, &inc) {
			return err
		}
		if !strings.Contains(err.Error(), "too many open files") && !strings.Contains(err.Error(), "no space left") {
			return fmt.Errorf("cannot follow an existing file: %v", err)
		}
		if try > 300 {
			return errInconclusive{"no inotify instance available after 30s: " + err.Error()}
		}
		time.Sleep(100 * time.Millisecond)
	}
	if r.h.Layer == "cli" {
		return nil // the reader of stdout was started with the process
	}
	if r.h.Layer == "batcher" {
		if r.h.Tail && r.bat.ReadErrors() > 0 {
			return fmt.Errorf("batcher reports %d error(s) while seeking to the end for --tail", r.bat.ReadErrors())
		}
		go r.consumeBatches()
		return nil
	}
	if r.h.Tail {
		if err := r.rd.Drain(); err != nil {
			return fmt.Errorf("Drain: %v", err)
		}
	}
	go r.consume(r.rd)
	return nil
}

// stop ends the reader without any verdict: plain follow ends when the file
// goes away; a re-open reader ends with an error once a directory takes the
// place of the file.
func (r *run) stop() {
	r.mu.Lock()
	r.cleaning = true
	r.holdReq = false
	r.gate.Broadcast()
	ended := r.ended
	r.mu.Unlock()
	finish := func() {
		if r.rd != nil {
			r.rd.Close()
		}
		if r.slot {
			<-notifySlots
			r.slot = false
		}
		os.RemoveAll(r.dir)
	}
	for k := range r.nbrW {
		if r.nbrW[k] != nil {
			r.nbrW[k].Close()
		}
	}
	if r.cli != nil {
		r.stopCLI()
		finish()
		return
	}
	if r.rd == nil && r.bat == nil {
		finish()
		return
	}
	if !ended {
		if r.exists {
			r.w.Close()
			os.Remove(r.path)
			r.exists = false
			if r.inj != nil && !r.gone {
				r.inj.VerifInjectRemove()
			}
		}
		if r.h.Reopen {
			os.Mkdir(r.path, 0o755)
			if r.inj != nil && !r.gone {
				r.inj.VerifInjectCreate()
			}
		}
	}
	waitEnd := func(limit time.Duration) bool {
		t0 := time.Now()
		for {
			r.mu.Lock()
			e := r.ended
			r.mu.Unlock()
			if e {
				return true
			}
			if time.Since(t0) > limit {
				return false
			}
			select {
			case <-r.wake:
			case <-time.After(2 * time.Millisecond):
			}
		}
	}
	if r.h.Poll {
		// pollers end on their own clock; do not hold the bundle up
		go func() {
			if !waitEnd(10*time.Second + 4*r.designed) {
				noteLeak(r)
			}
			finish()
		}()
		return
	}
	limit := 5 * time.Second
	if leaked.Load() > 8 {
		limit = 300 * time.Millisecond // clean-up keeps failing in this process: do not let it dominate the run
	}
	if !waitEnd(limit) {
		noteLeak(r)
	}
	finish()
}

var leaked atomic.Int64

// batchers.TailFilesToChan never closes its follow readers: a notify reader
// in re-open mode keeps its fsnotify watcher (one of the user's 128 inotify
// instances) until the process exits, however the stream ends. Only a few
// such histories can therefore run per process.
var batcherNotifyReopenQuota atomic.Int64

func init() { batcherNotifyReopenQuota.Store(3) }

func noteLeak(r *run) {
	leaked.Add(1)
	pbt.Note("C15", "reader_not_ended_at_cleanup:"+r.h.Layer+"/"+r.h.mode(), 1)
}

// runHist executes one history and returns nil, a violation, or
// errInconclusive.
func runHist(h Hist, st *stats) (err error) {
	startHeart()
	st.mode = h.mode()
	r := &run{h: h, st: st, wake: make(chan struct{}, 1), lastDel: time.Now()}
	r.gate = sync.NewCond(&r.mu)
	defer r.stop()
	defer func() {
		// a rare process that ended for lack of a machine resource (inotify
		// instance, descriptor, thread) decides nothing
		if err != nil && r.cli != nil {
			if why := r.cli.infra(); why != "" {
				err = errInconclusive{fmt.Sprintf("the rare process reported %q: %v", why, err)}
			}
		}
	}()
	if err := r.start(); err != nil {
		return err
	}
	if r.skipped {
		return nil
	}
	for i, op := range h.Ops {
		var e error
		switch op.K {
		case kAppend:
			e = r.appendBytes(r.amount(op.N))
		case kBurst:
			for j := 0; j < op.N && e == nil; j++ {
				e = r.appendBytes(r.amount(op.M))
				if r.inj != nil {
					r.deliver(1)
				}
				spin(op.G)
			}
		case kPause:
			spin(op.N)
		case kSync:
			e = r.drain(fmt.Sprintf("sync (op %d)", i))
		case kHold:
			if !r.lines() {
				r.mu.Lock()
				r.holdReq = true
				r.mu.Unlock()
			}
		case kRelease:
			r.release()
		case kRemove:
			e = r.remove(op.N, op.M == 1)
		case kRecreate:
			e = r.recreate(op.N, op.M == 1)
		case kDeliver:
			r.deliver(op.N)
		case kNbr:
			e = r.nbrOp(op.N, op.M, op.G)
		}
		if e != nil {
			return e
		}
		r.mu.Lock()
		bad, ended, endErr := r.bad, r.ended, r.endErr
		r.mu.Unlock()
		if bad != nil {
			return bad
		}
		if ended {
			if !h.Reopen && !r.exists {
				break // plain follow after removal: the history is over
			}
			return fmt.Errorf("after op %d (%s): the stream ended with %v although re-open follow must keep blocking / the file exists", i, op.K, endErr)
		}
	}
	r.mu.Lock()
	over := r.ended
	r.mu.Unlock()
	if !over {
		if err := r.drain("final sync"); err != nil {
			return err
		}
		if st.nbrOps > 0 {
			// observation window, not a verdict: a reaction of the reader to the
			// last neighbour operation (ending, re-delivering) takes a moment to
			// surface at the consumer
			for t0 := time.Now(); time.Since(t0) < 3*time.Millisecond; {
				r.mu.Lock()
				seen := r.bad != nil || r.ended
				r.mu.Unlock()
				if seen {
					break
				}
				time.Sleep(200 * time.Microsecond)
			}
		}
		r.mu.Lock()
		bad, ended, endErr := r.bad, r.ended, r.endErr
		r.mu.Unlock()
		if bad != nil {
			return bad
		}
		if ended {
			return fmt.Errorf("the stream ended with %v while the reader must block (file exists=%v, reopen=%v)", endErr, r.exists, h.Reopen)
		}
	}
	st.ran = true
	return nil
}

// ---------- oracle over a bundle of histories --------------------------------------------

func check(c Case) error {
	logger.DeferLogs() // the batcher logs the read error that ends a re-open reader at clean-up
	reps := c.Reps
	if reps < 1 {
		reps = 1
	}
	all := make([]*stats, 0, len(c.H)*reps)
	for rep := 0; rep < reps; rep++ {
		errs := make([]error, len(c.H))
		sts := make([]*stats, len(c.H))
		var wg sync.WaitGroup
		for i := range c.H {
			sts[i] = &stats{}
			wg.Add(1)
			go func(i int) {
				defer wg.Done()
				errs[i] = pbt.Guard(func() error { return runHist(c.H[i], sts[i]) })
			}(i)
		}
		wg.Wait()
		all = append(all, sts...)
		for i, e := range errs {
			if e == nil {
				continue
			}
			var inc errInconclusive
			if errors.As(e, &inc) {
				noteInconclusive(fmt.Sprintf("[%s/%s] %s", c.H[i].Layer, c.H[i].mode(), inc.msg))
				continue
			}
			return fmt.Errorf("history %d of %d [%s %s] (repetition %d): %v", i, len(c.H), c.H[i].Layer, c.H[i].mode(), rep, e)
		}
	}
	if o := c.Obs; o != nil {
		for _, s := range all {
			if !s.ran {
				continue
			}
			o.Add("histories", 1)
			if s.nontrivial() {
				o.Add("nontrivial", 1)
			}
			l := func(cond bool, name string) {
				if cond {
					o.Labels = append(o.Labels, name)
				}
			}
			l(true, s.mode)
			l(s.appendsIdle > 0, "append-while-reader-blocked")
			l(s.appendsBusy > 0, "append-while-reader-has-backlog")
			l(s.appendsHeld > 0, "append-while-consumer-held")
			l(s.rotations > 0, "rotation")
			l(s.rotations > 1, "rotation>=2")
			l(s.heldRemoves > 0, "remove-while-consumer-held")
			l(s.heldRotations > 0, "rotation-while-consumer-held")
			l(s.renameRotations > 0, "re-created-by-rename(create-only)")
			l(s.plainRecreated > 0, "plain-follow:path-re-created-right-after-removal")
			l(s.bothPending > 0, "write+delete-both-pending-at-select")
			l(s.eof > 0, "plain-eof-after-remove")
			l(s.forcedSync > 0, "forced-sync(poll proviso)")
			l(s.coalesced > 0, "events-coalesced")
			l(s.droppedEv > 0, "event-dropped(path-gone)")
			l(s.maxBacklog > 4096, "backlog>4KiB")
			l(s.bytes > 20000, "bytes>20k")
			l(s.aligned, "initial-content-fills-the-read-buffer-exactly")
			l(s.link, "followed-path-is-a-symlink")
			l(s.link && strings.HasPrefix(s.mode, "notify"), "followed-path-is-a-symlink(notify)")
			l(s.linkOut, "symlink-to-another-directory")
			l(s.linkSame, "symlink-to-another-directory(same-name)")
			l(s.nbrOps > 0, "neighbour-file-ops")
			l(s.nbrRemoves[0] > 0, "neighbour-removed(name-has-followed-name-as-suffix)")
			l(s.nbrRemoves[1] > 0, "neighbour-removed(name-has-followed-name-as-prefix)")
			l(s.nbrRecreates > 0, "neighbour-re-created")
			l(s.nontrivial(), "nontrivial-history")
		}
	}
	return nil
}

func classify(c Case) (bool, []string) {
	if c.Obs == nil {
		return false, nil
	}
	return c.Obs.Get("nontrivial") > 0, c.Obs.Labels
}

// ---------- generators -----------------------------------------------------------------------

func pick(t *rapid.T, label string, classes ...[2]int) int {
	c := classes[rapid.IntRange(0, len(classes)-1).Draw(t, label+"-class")]
	return rapid.IntRange(c[0], c[1]).Draw(t, label)
}

func genPause(t *rapid.T, slow bool) Op {
	if slow {
		return Op{K: kPause, N: pick(t, "pause", [2]int{0, 100}, [2]int{200, 3000}, [2]int{200, 3000}, [2]int{5000, 30000})}
	}
	return Op{K: kPause, N: pick(t, "pause", [2]int{0, 20}, [2]int{0, 100}, [2]int{150, 600})}
}

func genAppendLen(t *rapid.T) int {
	return pick(t, "len", [2]int{1, 1}, [2]int{2, 16}, [2]int{2, 16}, [2]int{17, 200}, [2]int{17, 200}, [2]int{1000, 20000})
}

// genHist draws one history. It tracks, statically, whether the file exists
// and how many deliverable bytes the current incarnation holds, so that the
// preconditions of the statement hold by construction: removal only after
// data (remove-after-drain is enforced at run time), re-creation only for
// re-open follow, and for polling a re-created file that starts shorter than
// what the previous incarnation delivered.
func genHist(t *rapid.T, layer string) Hist {
	h := Hist{Layer: layer}
	if layer != "inject" {
		h.Poll = rapid.Bool().Draw(t, "poll")
	}
	h.Reopen = rapid.Bool().Draw(t, "reopen")
	if layer == "batcher" && !h.Poll && h.Reopen && rapid.IntRange(0, 7).Draw(t, "keep-notify-reopen") > 0 {
		h.Poll = true // see batcherNotifyReopenQuota
	}
	h.Tail = rapid.Bool().Draw(t, "tail")
	if layer != "inject" { // the inject layer has no kernel watch: nothing but the followed path reports
		genEnv(t, &h)
	}
	h.Initial = pick(t, "initial", [2]int{0, 0}, [2]int{1, 40}, [2]int{100, 3000})
	if layer != "inject" && !h.Tail && rapid.IntRange(0, 11).Draw(t, "aligned") == 0 {
		// the existing content fills the 128 KiB read buffer of the line scanner exactly (or twice), ending on
		// a line end; what is appended afterwards is read while those lines may still be held
		h.Aligned = true
		h.Initial = rapid.SampledFrom([]int{131072, 131072, 262144, 131072 - 64, 131072 + 64}).Draw(t, "alignedInitial")
	}
	maxOps := 22
	switch layer {
	case "reader":
		h.Buf = pick(t, "buf", [2]int{1, 1}, [2]int{2, 16}, [2]int{64, 64}, [2]int{4096, 4096}, [2]int{4096, 4096}, [2]int{65536, 65536})
		h.PollUs = rapid.SampledFrom([]int{300, 1000, 2000}).Draw(t, "pollus")
	case "inject":
		h.Buf = pick(t, "buf", [2]int{1, 1}, [2]int{2, 16}, [2]int{4096, 4096}, [2]int{4096, 4096})
		h.Coalesce = rapid.Bool().Draw(t, "coalesce")
		maxOps = 40
	case "batcher":
		h.BatchBuf = rapid.SampledFrom([]int{0, 1, 4}).Draw(t, "batchbuf")
		if h.Poll {
			maxOps = 7
		} else {
			maxOps = 14
		}
	}
	slow := layer != "inject"
	withRemove := layer != "batcher" || rapid.IntRange(0, 3).Draw(t, "rot") > 0
	if h.Link {
		withRemove = false // the file stays in place
	}
	nbrOp := genNbr(t, &h)
	h.Batch = 0
	if layer == "batcher" {
		h.Batch = 1
		if !withRemove {
			h.Batch = rapid.SampledFrom([]int{1, 2, 3, 5, 1000}).Draw(t, "batch")
		}
	}
	nops := rapid.IntRange(3, maxOps).Draw(t, "nops")
	exists, held, over := true, false, false
	incBytes := 0 // deliverable bytes of the current incarnation
	if !h.Tail {
		incBytes = h.Initial
	}
	minForRemove := 1
	if h.Poll && h.Reopen {
		minForRemove = 24
	}
	add := func(op Op) { h.Ops = append(h.Ops, op) }
	appendOp := func() {
		n := genAppendLen(t)
		if h.Poll && h.Reopen && incBytes < minForRemove && n < 40 {
			n += 40
		}
		if layer == "batcher" && n > 4000 {
			n = 4000
		}
		add(Op{K: kAppend, N: n})
		incBytes += n
	}
	recreateOp := func() {
		n := pick(t, "first", [2]int{1, 1}, [2]int{2, 12}, [2]int{2, 200})
		byRename := 0
		if rapid.IntRange(0, 2).Draw(t, "byRename") == 0 {
			byRename = 1 // the finished file is renamed onto the path: a Create and nothing else
		}
		add(Op{K: kRecreate, N: n, M: byRename})
		exists, incBytes = true, n
		if h.Poll && incBytes < 1 {
			incBytes = 1
		}
	}
	for len(h.Ops) < nops && !over {
		if !exists {
			// between removal and re-creation only time passes
			if rapid.IntRange(0, 2).Draw(t, "gap") == 0 {
				add(genPause(t, slow))
			}
			if layer == "inject" && rapid.IntRange(0, 2).Draw(t, "dl") == 0 {
				add(Op{K: kDeliver, N: rapid.IntRange(1, 3).Draw(t, "n")})
			}
			if h.Nbr && rapid.IntRange(0, 2).Draw(t, "nbr-in-gap") == 0 {
				add(nbrOp())
			}
			recreateOp()
			continue
		}
		hi := 19
		if h.Nbr {
			hi = 25
		}
		switch k := rapid.IntRange(0, hi).Draw(t, "op"); {
		case k >= 20:
			add(nbrOp())
		case k <= 5:
			appendOp()
		case k <= 7:
			n, m := rapid.IntRange(2, 8).Draw(t, "bn"), pick(t, "bm", [2]int{1, 8}, [2]int{9, 64}, [2]int{200, 2000})
			add(Op{K: kBurst, N: n, M: m, G: rapid.IntRange(0, 60).Draw(t, "bg")})
			incBytes += n * m
		case k <= 10:
			add(genPause(t, slow))
		case k <= 12:
			add(Op{K: kSync})
			held = false
		case k == 13 && layer != "batcher":
			if held {
				add(Op{K: kRelease})
			} else {
				add(Op{K: kHold})
			}
			held = !held
		case k == 14 && layer == "inject":
			add(Op{K: kDeliver, N: rapid.IntRange(1, 4).Draw(t, "n")})
		case k <= 16 && withRemove && incBytes >= minForRemove:
			// plain removal, possibly with the consumer running
			if layer == "inject" && rapid.Bool().Draw(t, "dl") {
				add(Op{K: kDeliver, N: rapid.IntRange(1, 4).Draw(t, "n")})
			}
			rm := Op{K: kRemove, N: pick(t, "settle", [2]int{0, 50}, [2]int{200, 2000})}
			if !h.Reopen && !h.Poll && rapid.IntRange(0, 2).Draw(t, "recreateAtOnce") == 0 {
				rm.M = 1 // something re-creates the path right after the removal: plain follow still ends
			}
			add(rm)
			exists, held = false, false
			if !h.Reopen {
				over = true
			}
		case k <= 18 && withRemove && layer != "batcher":
			// rotation with a slow caller: the consumer is held outside Read
			// after it delivered everything, the file is removed (and, for
			// re-open, created again and written) before Read is called again
			if !held {
				add(Op{K: kHold})
			}
			n := pick(t, "last", [2]int{1, 8}, [2]int{9, 60})
			if h.Poll && h.Reopen && incBytes+n < minForRemove {
				n += 40
			}
			add(Op{K: kAppend, N: n})
			incBytes += n
			if layer == "inject" {
				add(Op{K: kDeliver, N: 8})
			}
			add(Op{K: kPause, N: pick(t, "reach-gate", [2]int{100, 400}, [2]int{1000, 4000})})
			rm := Op{K: kRemove, N: pick(t, "settle", [2]int{0, 50}, [2]int{200, 2000})}
			if !h.Reopen && !h.Poll && rapid.IntRange(0, 2).Draw(t, "recreateAtOnce") == 0 {
				rm.M = 1
			}
			add(rm)
			exists, held = false, false
			if !h.Reopen {
				over = true
				break
			}
			if rapid.Bool().Draw(t, "gap") {
				add(genPause(t, slow))
			}
			recreateOp()
			if layer == "inject" {
				add(Op{K: kDeliver, N: rapid.IntRange(1, 4).Draw(t, "n")})
			} else {
				add(Op{K: kPause, N: pick(t, "settle2", [2]int{0, 100}, [2]int{300, 3000})})
			}
			add(Op{K: kRelease})
		default:
			appendOp()
		}
	}
	return h
}

// genEnv draws the environment class of a history: the file alone (as the
// statement describes it), the followed path a symbolic link to the file, or
// neighbour files in its directory.
func genEnv(t *rapid.T, h *Hist) {
	switch e := rapid.IntRange(0, 7).Draw(t, "env"); {
	case e <= 1:
		h.Link = true
		h.LinkAbs = rapid.Bool().Draw(t, "link-abs")
		h.LinkOut = rapid.Bool().Draw(t, "link-out")
		if h.LinkOut {
			h.LinkSame = rapid.IntRange(0, 2).Draw(t, "link-same-name") == 0
		}
	case e <= 4:
		h.Nbr = true
		h.NbrInit = rapid.IntRange(0, 3).Draw(t, "nbr-init")
	}
}

// genNbr returns the generator of neighbour operations of a history: append
// (creating the neighbour when it is absent) or remove (when it exists). Two
// of three operations go to the neighbour whose name ends with the followed
// name.
func genNbr(t *rapid.T, h *Hist) func() Op {
	exists := [2]bool{h.NbrInit&1 != 0, h.NbrInit&2 != 0}
	return func() Op {
		which := rapid.IntRange(0, 2).Draw(t, "nbr") / 2 // 0,0,1
		if exists[which] && rapid.IntRange(0, 2).Draw(t, "nbr-remove") > 0 {
			exists[which] = false
			return Op{K: kNbr, N: which, M: 1}
		}
		exists[which] = true
		return Op{K: kNbr, N: which, M: 0, G: pick(t, "nbr-len", [2]int{1, 40}, [2]int{41, 3000})}
	}
}

func genBundle(layer string, lo, hi int) func(t *rapid.T) Case {
	return func(t *rapid.T) Case {
		c := Case{Obs: pbt.NewObs()}
		n := rapid.IntRange(lo, hi).Draw(t, "histories")
		for i := 0; i < n; i++ {
			c.H = append(c.H, genHist(t, layer))
		}
		return c
	}
}

// ---------- specs ----------------------------------------------------------------------------------

const envText = " x environment {the file alone 3/8 | the followed path is a symbolic link to the file (same or other directory, there possibly under the same name, relative or absolute target; appends/pauses/syncs only) 2/8 | neighbour files in the same directory, one whose name ends with the followed name and one whose name starts with it, are created, appended to, removed and re-created between the operations (and may exist beforehand) 3/8}: the expected stream does not change; "

const oracleText = "oracle: delivered is always a prefix of the appended stream (position-identifying content; after a re-create the new file from its beginning); at every sync and at the end everything is delivered (bound 5s + 4x designed poll sleep, violation only for a stable stuck state re-checked for 2x the bound with the machine not starved, else inconclusive); no EOF/error while the file exists; plain follow returns io.EOF after remove-after-drain, re-open follow keeps blocking. Non-trivial history: >=3 appends, >=1 while the reader was blocked and >=1 while it had a backlog, re-open: >=1 rotation followed by >=2 appends; a case (bundle of concurrent histories) is non-trivial if one of its histories is; labels are counted per history"

var readerSpec = pbt.Spec[Case]{
	Property: "C15", Name: "reader",
	Rule:   "bundles of 6-10 concurrent stateful histories {append, burst, pause 0-30ms, sync, hold/release of the consumer, remove-after-drain, re-create(+first append)} on a real file x {notify, poll with PollDelay 0.3-2ms} x {reopen, plain} x {tail, from start} x Read buffer 1B..64KiB, through followreader.New;" + envText + oracleText,
	Budget: pbt.Budget{Quick: 1600, Thorough: 24000},
	Gen:    genBundle("reader", 6, 10), Check: check, Classify: classify,
	Watchdog: 10 * time.Minute, NoWatchdogViolation: true,
}

// limitShrink: a failing history costs 15 s or more to decide (stable stuck
// state), and schedule-dependent failures do not shrink reliably: keep
// rapid's shrinking short so that a violation is reported promptly.
func limitShrink() {
	if f := flag.Lookup("rapid.shrinktime"); f != nil {
		f.Value.Set("5s")
	}
}

func TestReader(t *testing.T) {
	limitShrink()
	pbt.Run(t, readerSpec)
	noteRun()
	reportInconclusive(t)
}

var batcherSpec = pbt.Spec[Case]{
	Property: "C15", Name: "batcher",
	Rule:   "bundles of 6-10 concurrent histories {append, burst, pause, sync, remove-after-drain (file padded to a line end), re-create} through batchers.TailFilesToChan x {notify, poll (250ms)} x {reopen, plain} x {tail, from start} x batch size {1 | 1,2,3,5,1000 without removal} x channel buffer {0,1,4}; lines must be the '\\n'-split of the expected byte stream in order, batch source = path, 1<=len<=batch size, BatchStart = lines delivered before + 1 (until the first rotation), at sync at most batch-1 complete lines may be pending, channel closes after plain removal;" + envText + oracleText,
	Budget: pbt.Budget{Quick: 128, Thorough: 1600},
	Gen:    genBundle("batcher", 6, 10), Check: check, Classify: classify,
	Watchdog: 10 * time.Minute, NoWatchdogViolation: true,
}

func noteRun() {}
