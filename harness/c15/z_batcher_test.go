package c15

import (
	"testing"

	"verifharness/pbt"
)

// The batcher layer runs last: its notify re-open readers keep an inotify
// instance until the process exits (see batcherNotifyReopenQuota).
func TestBatcher(t *testing.T) {
	limitShrink()
	pbt.Run(t, batcherSpec)
	noteRun()
	reportInconclusive(t)
}
