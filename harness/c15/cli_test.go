// cli layer: the histories of the batcher layer, in whole lines, through the
// rare binary.
//
//	rare filter -f|-F [--poll] [--tail] --batch N --workers 1 <path>     (stdout: a pipe)
//
// The default matcher matches every line and filter prints the line, so the
// lines on stdout are the lines delivered by the follow reader. One worker
// keeps the batches in order (with several workers rare makes no promise
// about the order of batches). Oracle as in the batcher layer: the lines on
// stdout are exactly the lines appended after the starting position, in
// order, once; at a sync at most batch-1 complete lines may be pending (a
// batch is flushed by size, or by the 250 ms timer when the next line
// arrives); plain follow: the process ends with status 0 after
// remove-after-drain; -F: it keeps running and delivers a re-created file
// from its beginning. The harness ends the process (kill) and reaps it.
//
// --tail fixes the starting position at the moment the process seeks to the
// end of the file; the harness waits for that moment by watching the file
// offset of the process (/proc/<pid>/fdinfo) before it appends.
package c15

import (
	"bufio"
	"bytes"
	"fmt"
	"io"
	"os"
	"os/exec"
	"strconv"
	"strings"
	"sync"
	"testing"
	"time"

	"pgregory.net/rapid"
	"verifharness/pbt"
)

type capBuf struct {
	mu sync.Mutex
	b  []byte
}

func batchOf(h Hist) int {
	if h.Batch < 1 {
		return 1
	}
	return h.Batch
}

func (c *capBuf) Write(p []byte) (int, error) {
	c.mu.Lock()
	if len(c.b) < 8192 {
		c.b = append(c.b, p...)
	}
	c.mu.Unlock()
	return len(p), nil
}

func (c *capBuf) String() string {
	c.mu.Lock()
	defer c.mu.Unlock()
	return string(c.b)
}

type cliProc struct {
	cmd    *exec.Cmd
	args   []string
	stderr capBuf
	done   chan struct{} // closed when stdout reached its end and the process was reaped
}

// infra reports a resource problem of the machine that ended the process
// (no inotify instance, no descriptor, no thread): never a verdict.
func (p *cliProc) infra() string {
	e := p.stderr.String()
	for _, m := range []string{"too many open files", "no space left on device", "cannot allocate memory", "failed to create new OS thread", "resource temporarily unavailable"} {
		if strings.Contains(e, m) {
			return m
		}
	}
	return ""
}

func (r *run) startCLI() error {
	if r.h.Tail && r.h.Initial == 0 {
		// the moment the process seeks to the end of an empty file cannot be
		// observed: appends could not be placed after the starting position
		pbt.Exclude("cli-tail-on-an-empty-file(starting-moment-not-observable)")
		r.skipped = true
		return nil
	}
	bin := os.Getenv("VERIF_RARE_BIN")
	if bin == "" {
		return errInconclusive{"VERIF_RARE_BIN is not set (checks.json: bin)"}
	}
	args := []string{"filter"}
	// the documented spellings of the same request, chosen by a value of the case (no randomness here)
	spell := (len(r.h.Ops)*7 + r.h.Initial + batchOf(r.h)) % 4
	if r.h.Reopen {
		// -F "Same as -f, but will reopen recreated files": giving -f next to it changes nothing
		args = append(args, [][]string{{"-F"}, {"-f", "-F"}, {"-F", "-f"}, {"--follow", "--reopen"}}[spell]...)
	} else {
		args = append(args, [][]string{{"-f"}, {"--follow"}, {"-f"}, {"-f"}}[spell]...)
	}
	if r.h.Poll {
		args = append(args, "--poll")
	}
	if r.h.Tail {
		args = append(args, [][]string{{"--tail"}, {"-t"}}[spell%2]...)
	}
	batch := r.h.Batch
	if batch < 1 {
		batch = 1
	}
	name := r.path
	if r.h.RelPath {
		name = "followed.log" // relative to the working directory of the process
	}
	args = append(args, "--batch", strconv.Itoa(batch), "--workers", "1", name)
	for try := 0; ; try++ {
		p := &cliProc{args: args, done: make(chan struct{})}
		p.cmd = exec.Command(bin, args...)
		p.cmd.Dir = r.dir
		p.cmd.Stderr = &p.stderr
		out, err := p.cmd.StdoutPipe()
		if err != nil {
			return errInconclusive{"harness could not create a pipe: " + err.Error()}
		}
		if err := p.cmd.Start(); err != nil {
			return errInconclusive{"harness could not start rare: " + err.Error()}
		}
		r.cli = p
		go r.consumeCLI(p, out)
		if !r.h.Tail {
			return nil // start of file: the starting position does not depend on when the process opens the file
		}
		err = r.waitTailStart(p)
		if err == nil {
			return nil
		}
		if _, retry := err.(errRetry); !retry {
			return err
		}
		// the process ended at once for lack of a machine resource: again
		if try > 100 {
			return errInconclusive{"rare could not start following: " + err.Error()}
		}
		r.mu.Lock()
		r.ended, r.endErr = false, nil
		r.mu.Unlock()
		time.Sleep(100 * time.Millisecond)
	}
}

type errRetry struct{ msg string }

func (e errRetry) Error() string { return e.msg }

// waitTailStart returns when the process holds the followed file open at
// offset == size (it has seeked to the end, or read up to it), or when the
// process ended / delivered something (the history then shows what is wrong).
func (r *run) waitTailStart(p *cliProc) error {
	want, err := os.Stat(r.real)
	if err != nil {
		return errInconclusive{"scratch: " + err.Error()}
	}
	pid := p.cmd.Process.Pid
	fdDir := fmt.Sprintf("/proc/%d/fd", pid)
	for t0 := time.Now(); ; {
		r.mu.Lock()
		ended, bad, dl := r.ended, r.bad, r.dl
		r.mu.Unlock()
		if ended {
			if why := p.infra(); why != "" && dl == 0 {
				return errRetry{why}
			}
			return nil
		}
		if bad != nil || dl > 0 {
			return nil
		}
		if ents, err := os.ReadDir(fdDir); err == nil {
			for _, e := range ents {
				fi, err := os.Stat(fdDir + "/" + e.Name())
				if err != nil || !os.SameFile(fi, want) {
					continue
				}
				info, err := os.ReadFile(fmt.Sprintf("/proc/%d/fdinfo/%s", pid, e.Name()))
				if err != nil {
					continue
				}
				for _, l := range strings.Split(string(info), "\n") {
					if v, ok := strings.CutPrefix(l, "pos:"); ok {
						if pos, err := strconv.ParseInt(strings.TrimSpace(v), 10, 64); err == nil && pos == want.Size() {
							return nil
						}
					}
				}
			}
		}
		if time.Since(t0) > 20*time.Second {
			return errInconclusive{"rare --tail did not reach the end of the file within 20s"}
		}
		time.Sleep(300 * time.Microsecond)
	}
}

// consumeCLI reads the lines of stdout; at its end it reaps the process.
func (r *run) consumeCLI(p *cliProc, out io.Reader) {
	br := bufio.NewReaderSize(out, 1<<16)
	for {
		line, err := br.ReadBytes('\n')
		if len(line) > 0 {
			r.mu.Lock()
			if !r.cleaning && r.bad == nil && r.cli == p {
				if line[len(line)-1] != '\n' {
					r.bad = fmt.Errorf("stdout ends in the middle of a line: %s", pbt.Q(firstN(line, 80)))
				} else {
					r.recordLine(line[:len(line)-1])
				}
			}
			r.mu.Unlock()
			r.signal()
		}
		if err != nil {
			break
		}
	}
	werr := p.cmd.Wait()
	r.mu.Lock()
	if r.cli == p {
		r.ended = true
		r.endErr = io.EOF
		if werr != nil {
			r.endErr = fmt.Errorf("the process ended with %v, want exit status 0 (stderr: %s)", werr, pbt.Q(firstN([]byte(p.stderr.String()), 300)))
		}
	}
	r.mu.Unlock()
	close(p.done)
	r.signal()
}

func (r *run) stopCLI() {
	p := r.cli
	p.cmd.Process.Kill()
	select {
	case <-p.done:
	case <-time.After(20 * time.Second):
		noteLeak(r)
	}
}

func (r *run) cliState() string {
	p := r.cli
	s := fmt.Sprintf("; command: rare %s; stderr so far: %s", strings.Join(p.args, " "), pbt.Q(firstN([]byte(p.stderr.String()), 300)))
	if ents, err := os.ReadDir(fmt.Sprintf("/proc/%d/fd", p.cmd.Process.Pid)); err == nil {
		for _, e := range ents {
			if l, err := os.Readlink(fmt.Sprintf("/proc/%d/fd/%s", p.cmd.Process.Pid, e.Name())); err == nil && strings.HasPrefix(l, r.dir) {
				info, _ := os.ReadFile(fmt.Sprintf("/proc/%d/fdinfo/%s", p.cmd.Process.Pid, e.Name()))
				s += fmt.Sprintf("; process holds %s (%s)", l, firstN(bytes.ReplaceAll(info, []byte("\n"), []byte(" ")), 40))
			}
		}
	}
	return s
}

// ---------- generator -------------------------------------------------------------------

func genHistCLI(t *rapid.T) Hist {
	h := Hist{Layer: "cli"}
	h.Poll = rapid.Bool().Draw(t, "poll")
	h.Reopen = rapid.Bool().Draw(t, "reopen")
	h.Tail = rapid.Bool().Draw(t, "tail")
	genEnv(t, &h)
	h.RelPath = rapid.IntRange(0, 3).Draw(t, "relpath") == 0
	h.Initial = pick(t, "initial-lines", [2]int{0, 0}, [2]int{1, 3}, [2]int{4, 60})
	if h.Tail && h.Initial == 0 {
		h.Initial = 1 // --tail: the starting moment must be observable (offset == size > 0)
	}
	withRemove := !h.Link && rapid.IntRange(0, 3).Draw(t, "rot") > 0
	h.Batch = 1
	if !withRemove {
		h.Batch = rapid.SampledFrom([]int{1, 2, 3, 5, 1000}).Draw(t, "batch")
	}
	nbrOp := genNbr(t, &h)
	nops := rapid.IntRange(3, 8).Draw(t, "nops")
	exists, over := true, false
	incLines := 0
	if !h.Tail {
		incLines = h.Initial
	}
	minForRemove := 1
	if h.Poll && h.Reopen {
		minForRemove = 3 // a re-created file (>= one line) must start shorter than what was delivered
	}
	add := func(op Op) { h.Ops = append(h.Ops, op) }
	pause := func() {
		switch c := rapid.IntRange(0, 11).Draw(t, "pause-class"); {
		case c == 0:
			// longer than the flush timeout of the batcher / a poll sleep
			add(Op{K: kPause, N: rapid.IntRange(260000, 320000).Draw(t, "pause")})
		case c == 1 && h.Poll:
			// a whole idle cycle of the poller (5 x 250 ms): it looks at the path again
			add(Op{K: kPause, N: rapid.IntRange(1300000, 1600000).Draw(t, "pause")})
		default:
			add(Op{K: kPause, N: pick(t, "pause", [2]int{0, 100}, [2]int{200, 3000}, [2]int{5000, 30000})})
		}
	}
	appendOp := func() {
		n := pick(t, "lines", [2]int{1, 1}, [2]int{1, 1}, [2]int{2, 5}, [2]int{6, 60})
		add(Op{K: kAppend, N: n})
		incLines += n
	}
	for len(h.Ops) < nops && !over {
		if !exists {
			if rapid.IntRange(0, 2).Draw(t, "gap") == 0 {
				pause()
			}
			if h.Nbr && rapid.IntRange(0, 2).Draw(t, "nbr-in-gap") == 0 {
				add(nbrOp())
			}
			byRename := 0
			if rapid.IntRange(0, 2).Draw(t, "byRename") == 0 {
				byRename = 1
			}
			n := pick(t, "first", [2]int{1, 1}, [2]int{2, 5})
			add(Op{K: kRecreate, N: n, M: byRename})
			exists, incLines = true, n
			continue
		}
		hi := 11
		if h.Nbr {
			hi = 15
		}
		switch k := rapid.IntRange(0, hi).Draw(t, "op"); {
		case k >= 12:
			add(nbrOp())
		case k <= 2:
			appendOp()
		case k == 3:
			n, m := rapid.IntRange(2, 5).Draw(t, "bn"), rapid.IntRange(1, 3).Draw(t, "bm")
			add(Op{K: kBurst, N: n, M: m, G: rapid.IntRange(0, 60).Draw(t, "bg")})
			incLines += n * m
		case k <= 5:
			pause()
		case k <= 7:
			add(Op{K: kSync})
		case k <= 10 && withRemove:
			if incLines < minForRemove {
				add(Op{K: kAppend, N: minForRemove - incLines})
				incLines = minForRemove
			}
			rm := Op{K: kRemove}
			if !h.Reopen && !h.Poll && rapid.IntRange(0, 2).Draw(t, "recreateAtOnce") == 0 {
				rm.M = 1 // something re-creates the path right after the removal: plain follow still ends
			}
			add(rm)
			exists = false
			if !h.Reopen {
				over = true
			}
		default:
			appendOp()
		}
	}
	return h
}

func genBundleCLI(t *rapid.T) Case {
	c := Case{Obs: pbt.NewObs()}
	n := rapid.IntRange(7, 9).Draw(t, "histories")
	for i := 0; i < n; i++ {
		c.H = append(c.H, genHistCLI(t))
	}
	return c
}

var cliSpec = pbt.Spec[Case]{
	Property: "C15", Name: "cli",
	Rule:   "bundles of 7-9 concurrent histories of <= 8 operations {append of 1-60 whole lines, burst, pause (0-30ms; 1/12 260-320ms; polling 1/12 1.3-1.6s = a whole idle cycle), sync, remove-after-drain, re-create (plain or by rename)} on the file followed by the rare binary: rare filter -f|-F [--poll] [--tail] --batch {1 | 1,2,3,5,1000 without removal} --workers 1 <path> (absolute, 1/4: relative to the working directory), stdout a pipe; --tail only on a file with content; lines on stdout must be the lines appended after the starting position (for --tail: the end of the file at the moment the process has seeked there, observed through /proc/<pid>/fdinfo), in order, once; at sync at most batch-1 complete lines may be pending; plain follow: stdout ends and the exit status is 0 after remove-after-drain; -F keeps running and delivers the re-created file from its beginning; the process is killed and reaped at the end;" + envText + oracleText + "; cli: a history is non-trivial with >=2 appends and >=2 lines seen on stdout",
	Budget: pbt.Budget{Quick: 16, Thorough: 192},
	Gen:    genBundleCLI, Check: check, Classify: classify,
	Watchdog: 10 * time.Minute, NoWatchdogViolation: true,
}

func TestCLI(t *testing.T) {
	if os.Getenv("VERIF_RARE_BIN") == "" && os.Getenv("VERIF_REPLAY") == "" {
		t.Skip("VERIF_RARE_BIN not set (checks.json: \"bin\": true) - cli layer skipped")
	}
	limitShrink()
	pbt.Run(t, cliSpec)
	noteRun()
	reportInconclusive(t)
}
