//go:build verif

// Event-injection machine for the notify reader. The reader is built by the
// real constructor, then its kernel watch is removed
// (followreader.VerifNewNotifyInjected); every file operation of the history
// queues the event fsnotify would report, and "deliver" operations hand the
// queued events, in order, to the watcher goroutine of the reader -- late,
// coalesced, while the consumer is held outside Read or while Read is anywhere
// in its loop. The harness therefore owns the notification schedule and
// reaches by construction the states real timing rarely visits, e.g. a delete
// and a create/write signal both pending when Read arrives at its select.
// Same engine and same oracles as the reader layer; a stuck reader is stuck
// for good here, because nothing but the harness can wake it.
package c15

import (
	"testing"
	"time"

	"rare/pkg/followreader"
	"verifharness/pbt"
)

func init() {
	newInjected = func(path string, reopen bool) (injReader, error) {
		return followreader.VerifNewNotifyInjected(path, reopen)
	}
}

var injectSpec = pbt.Spec[Case]{
	Property: "C15", Name: "inject",
	Rule:   "bundles of 2-3 histories on the notify reader with injected events (hook VerifNewNotifyInjected): {append, burst with immediate delivery, pause 0-600us, sync, hold/release, deliver k queued events, remove-after-drain, re-create} x {reopen, plain} x {tail, from start} x event coalescing on/off; events for a path that is gone are dropped like fsnotify does; " + oracleText,
	Budget: pbt.Budget{Quick: 4000, Thorough: 80000},
	Gen:    genBundle("inject", 2, 3), Check: check, Classify: classify,
	Watchdog: 10 * time.Minute, NoWatchdogViolation: true,
}

func TestInject(t *testing.T) {
	limitShrink()
	pbt.Run(t, injectSpec)
	noteRun()
	reportInconclusive(t)
}
