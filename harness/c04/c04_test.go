// C04 — line splitting is exact; returned buffers are never overwritten.
package c04

import (
	"bytes"
	"errors"
	"fmt"
	"io"
	"testing"

	"pgregory.net/rapid"
	"rare/pkg/readahead"
	"verifharness/model"
	"verifharness/pbt"
)

type Case struct {
	Content     pbt.S    // the byte stream
	Chunks      []int    // max bytes returned by successive Read calls; 0 = stall (0,nil); cycled
	BufSize     int      // scanner buffer size
	Variant     string   // immediate | buffered
	FaultAt     int      // -1: none; else a non-EOF error is raised once FaultAt bytes were handed over
	ErrWithData bool     // the read that reaches the end/fault returns (n>0, err) instead of a separate (0, err)
	ErrKind     string   `json:",omitempty"` // which non-EOF error the fault is: "" plain | temporary | unexpected-eof | wrapped
	LongStall   int      `json:",omitempty"` // a run of this many (0, nil) reads before the StallAt-th read that hands over data ("stalls" of any length are legal)
	StallAt     int      `json:",omitempty"`
	Obs         *pbt.Obs `json:"-"`
}

var churnTick int

var errInjected = errors.New("injected read fault")

// temporaryErr: an error that calls itself temporary (EAGAIN, EINTR and many network errors do); still a
// non-EOF read error: reported once, ends the stream
type temporaryErr struct{}

func (temporaryErr) Error() string   { return "injected read fault (temporary)" }
func (temporaryErr) Temporary() bool { return true }
func (temporaryErr) Timeout() bool   { return false }

var errKinds = []string{"", "", "temporary", "unexpected-eof", "wrapped", "wrapped-eof"}

// faultErr returns the error a faulting reader raises and a predicate recognising it in OnError.
func faultErr(kind string) (error, func(error) bool) {
	switch kind {
	case "temporary":
		return temporaryErr{}, func(e error) bool { _, ok := e.(temporaryErr); return ok || errors.As(e, new(temporaryErr)) }
	case "unexpected-eof":
		// what a real reader returns for a stream cut short (a truncated gzip member)
		return io.ErrUnexpectedEOF, func(e error) bool { return errors.Is(e, io.ErrUnexpectedEOF) }
	case "wrapped-eof":
		// an error that merely wraps io.EOF (a PathError / OpError around it) is not the end-of-stream value
		// io.Reader defines: it is a read error like any other
		e := fmt.Errorf("read /dev/fake: connection lost: %w", io.EOF)
		return e, func(got error) bool { return got == e }
	case "wrapped":
		return fmt.Errorf("read /dev/fake: %w", errInjected), func(e error) bool { return errors.Is(e, errInjected) }
	}
	return errInjected, func(e error) bool { return errors.Is(e, errInjected) }
}

// chunkReader hands out Content according to the chunk plan.
type chunkReader struct {
	data                        []byte
	limit                       int
	finalErr                    error
	chunks                      []int
	ci                          int
	pos                         int
	withData                    bool
	errSeen                     bool
	after                       int // reads after an error was returned
	reads                       int
	stalls                      int
	bounds                      []int // positions where a read ended
	longStall, stallAt, stalled int
}

func (r *chunkReader) Read(p []byte) (int, error) {
	if r.errSeen {
		r.after++
		return 0, r.finalErr
	}
	r.reads++
	if len(p) == 0 {
		// a scanner must never ask for zero bytes; answer honestly
		if r.pos == r.limit {
			r.errSeen = true
			return 0, r.finalErr
		}
		return 0, nil
	}
	if r.pos == r.limit {
		r.errSeen = true
		return 0, r.finalErr
	}
	if r.longStall > 0 && len(r.bounds) == r.stallAt && r.stalled < r.longStall {
		r.stalled++
		r.stalls++
		return 0, nil
	}
	c := len(p)
	if len(r.chunks) > 0 {
		c = r.chunks[r.ci%len(r.chunks)]
		r.ci++
		// never stall forever: at most len(chunks) stalls in a row is what
		// the plan can express; an all-zero plan degrades to full reads.
		if c == 0 {
			allZero := true
			for _, x := range r.chunks {
				if x != 0 {
					allZero = false
				}
			}
			if allZero {
				c = len(p)
			}
		}
	}
	if c == 0 {
		r.stalls++
		return 0, nil
	}
	n := c
	if n > len(p) {
		n = len(p)
	}
	if n > r.limit-r.pos {
		n = r.limit - r.pos
	}
	copy(p, r.data[r.pos:r.pos+n])
	r.pos += n
	r.bounds = append(r.bounds, r.pos)
	if r.pos == r.limit && r.withData {
		r.errSeen = true
		return n, r.finalErr
	}
	return n, nil
}

func check(c Case) error {
	data := []byte(c.Content)
	limit := len(data)
	var ferr error = io.EOF
	isFault := func(error) bool { return false }
	if c.FaultAt >= 0 && c.FaultAt <= len(data) {
		limit = c.FaultAt
		ferr, isFault = faultErr(c.ErrKind)
	}
	rd := &chunkReader{data: data, limit: limit, finalErr: ferr, chunks: c.Chunks, withData: c.ErrWithData, longStall: c.LongStall, stallAt: c.StallAt}

	var sc readahead.Scanner
	switch c.Variant {
	case "buffered":
		sc = readahead.NewBuffered(rd, c.BufSize)
	default:
		sc = readahead.NewImmediate(rd, c.BufSize)
	}
	var errs []error
	sc.OnError(func(e error) { errs = append(errs, e) })

	want := model.Lines(data[:limit])
	var got, copies [][]byte
	for sc.Scan() {
		b := sc.Bytes()
		got = append(got, b)
		copies = append(copies, append([]byte(nil), b...))
		if len(got) > len(want)+4 {
			return fmt.Errorf("scanner yields more lines than exist: %d so far, stream has %d", len(got), len(want))
		}
	}
	// Scan stays false and does not touch the reader again
	readsBefore := rd.after
	for i := 0; i < 3; i++ {
		if sc.Scan() {
			return fmt.Errorf("Scan returned true after it had returned false (extra line %s)", pbt.Q(sc.Bytes()))
		}
	}
	_ = readsBefore
	if rd.after > 0 {
		return fmt.Errorf("underlying reader was read %d more time(s) after it had reported %v", rd.after, ferr)
	}
	if len(got) != len(want) {
		return fmt.Errorf("line count: got %d want %d (content %s, limit %d)\n got=%s\nwant=%s", len(got), len(want), pbt.Q(data), limit, qq(copies), qq(want))
	}
	for i := range want {
		if !bytes.Equal(copies[i], want[i]) {
			return fmt.Errorf("line %d: got %s want %s", i+1, pbt.Q(copies[i]), pbt.Q(want[i]))
		}
	}
	// retention: slices handed out earlier still hold their contents - also
	// after the scanner is exhausted and another input is scanned with a new
	// scanner (rare reads file after file while matches of earlier files are
	// still held): a buffer handed back for reuse at end of stream must not
	// be one the caller still holds lines of.
	{
		filler := bytes.Repeat([]byte("################\n"), (len(data)+2*c.BufSize)/17+2)
		var sc2 readahead.Scanner
		if c.Variant == "buffered" {
			sc2 = readahead.NewBuffered(bytes.NewReader(filler), c.BufSize)
		} else {
			sc2 = readahead.NewImmediate(bytes.NewReader(filler), c.BufSize)
		}
		for sc2.Scan() {
		}
	}
	if churnTick++; churnTick%512 == 0 {
		pbt.Churn(1)
	}
	for i := range got {
		if !bytes.Equal(got[i], copies[i]) {
			return fmt.Errorf("line %d was overwritten after being handed out: now %s, was %s", i+1, pbt.Q(got[i]), pbt.Q(copies[i]))
		}
	}
	if ferr == io.EOF {
		if len(errs) != 0 {
			return fmt.Errorf("OnError called %d time(s) for a clean EOF: %v", len(errs), errs)
		}
	} else {
		if len(errs) != 1 {
			return fmt.Errorf("OnError called %d time(s) for one injected fault, want exactly 1", len(errs))
		}
		if !isFault(errs[0]) {
			return fmt.Errorf("OnError got %v, want the injected error", errs[0])
		}
	}

	// observations for the classifier
	o := c.Obs
	o.Add("lines", len(want))
	o.Add("reads", len(rd.bounds))
	for _, b := range rd.bounds {
		if b > 0 && b < limit {
			o.Label(data[b-1] == '\r' && data[b] == '\n', "crlf-split-across-reads")
			o.Label(data[b] == '\n', "newline-first-byte-of-read")
			o.Label(data[b-1] == '\n', "newline-last-byte-of-read")
			o.Label(data[b-1] != '\n' && data[b] != '\n', "line-split-across-reads")
		}
	}
	o.Label(rd.stalls > 0, "stalled-read")
	o.Label(rd.stalled >= 100, "stall-run>=100")
	o.Label(limit > c.BufSize && len(want) >= 2, "stream>buffer")
	for _, w := range want {
		o.Label(len(w) >= c.BufSize, "line>=buffer")
	}
	o.Label(ferr != io.EOF, "fault")
	o.Label(ferr != io.EOF && c.ErrWithData && limit > 0, "fault-with-n>0")
	o.Label(ferr != io.EOF && c.ErrKind != "", "fault-kind:"+c.ErrKind)
	o.Label(ferr == io.EOF && c.ErrWithData && limit > 0, "eof-with-n>0")
	o.Label(limit > 0 && data[limit-1] != '\n', "unterminated-tail")
	o.Label(bytes.Contains(data[:limit], []byte("\r\n")), "has-crlf")
	o.Label(bytes.Contains(data[:limit], []byte("\n\n")), "has-empty-line")
	return nil
}

func qq(l [][]byte) string {
	s := "["
	for i, b := range l {
		if i > 0 {
			s += " "
		}
		s += pbt.Q(b)
	}
	return s + "]"
}

func classify(c Case) (bool, []string) {
	o := c.Obs
	nt := o.Get("lines") >= 3 && o.Get("reads") >= 2 &&
		(o.Has("crlf-split-across-reads") || o.Has("line-split-across-reads") || o.Has("newline-first-byte-of-read") || o.Has("newline-last-byte-of-read") || o.Has("stream>buffer"))
	labels := append([]string{c.Variant}, o.All()...)
	return nt, labels
}

var alphabet = []byte{'\n', '\n', '\r', 'a', 'b', 0x00, 0xFF}

func genContent(t *rapid.T) []byte {
	n := rapid.IntRange(0, 80).Draw(t, "len")
	if rapid.IntRange(0, 9).Draw(t, "long") == 0 {
		n = rapid.IntRange(80, 600).Draw(t, "len2")
	}
	b := make([]byte, n)
	for i := range b {
		b[i] = alphabet[rapid.IntRange(0, len(alphabet)-1).Draw(t, "c")]
	}
	// optional long run (a line much longer than small buffers)
	if rapid.IntRange(0, 7).Draw(t, "run") == 0 {
		run := bytes.Repeat([]byte{'x'}, rapid.IntRange(1, 200).Draw(t, "runlen"))
		at := rapid.IntRange(0, len(b)).Draw(t, "runat")
		b = append(b[:at:at], append(run, b[at:]...)...)
	}
	return b
}

func gen(t *rapid.T) Case {
	c := Case{Obs: pbt.NewObs(), FaultAt: -1}
	c.Content = pbt.S(genContent(t))
	c.Variant = rapid.SampledFrom([]string{"immediate", "buffered"}).Draw(t, "variant")
	lo := 1
	if c.Variant == "buffered" {
		lo = 2 // NewBuffered documents (panics) that the length must be > 1
	}
	switch rapid.IntRange(0, 9).Draw(t, "bufclass") {
	case 0:
		c.BufSize = 128 * 1024 // production size
	case 1, 2:
		c.BufSize = rapid.IntRange(lo, 64).Draw(t, "buf")
	default:
		c.BufSize = rapid.IntRange(lo, 9).Draw(t, "buf")
	}
	nch := rapid.IntRange(0, 6).Draw(t, "nchunks")
	for i := 0; i < nch; i++ {
		c.Chunks = append(c.Chunks, rapid.SampledFrom([]int{0, 1, 1, 2, 3, 5, 8, 64}).Draw(t, "chunk"))
	}
	if rapid.IntRange(0, 3).Draw(t, "fault") == 0 {
		c.FaultAt = rapid.IntRange(0, len(c.Content)).Draw(t, "faultAt")
		c.ErrKind = rapid.SampledFrom(errKinds).Draw(t, "errKind")
	}
	c.ErrWithData = rapid.Bool().Draw(t, "errWithData")
	if rapid.IntRange(0, 11).Draw(t, "longStall") == 0 {
		// a reader that has nothing for a long while: (0, nil) a hundred times and more in a row
		c.LongStall = rapid.SampledFrom([]int{99, 100, 101, 150, 1000}).Draw(t, "stallRun")
		c.StallAt = rapid.IntRange(0, 3).Draw(t, "stallAt")
	}
	return c
}

var spec = pbt.Spec[Case]{
	Property: "C04", Name: "scan",
	Rule:   "content over {\\n,\\r,a,b,NUL,0xFF} (+ optional long run) x chunk plan (incl. 0-byte stalls, (n>0,err) endings) x buffer size 1..64 and 128KiB x {immediate,buffered} x optional injected fault; oracle = reference splitter on the bytes handed over, retention of returned slices, OnError exactly once, no read after error. Non-trivial: >=3 lines, >=2 reads, and a delimiter/CRLF/line split across a read boundary or stream longer than the buffer; distinct by case JSON",
	Budget: pbt.Budget{Quick: 160000, Thorough: 4000000},
	Gen:    gen, Check: check, Classify: classify,
}

func TestScan(t *testing.T) { pbt.Run(t, spec) }

// TestExhaustive enumerates every content of length <= L over {\n,\r,a} x
// every chunking into reads of size 1..3 / stall (as a cyclic plan of length
// <= 2) x buffer sizes 1..5 x both variants x both end-of-stream conventions.
func TestExhaustive(t *testing.T) {
	L := 5
	if pbt.Thorough() {
		L = 7
	}
	sp := spec
	sp.Name = "exhaustive"
	sp.Rule = fmt.Sprintf("bounded-exhaustive: all contents of length<=%d over {\\n,\\r,a} x all cyclic chunk plans of length<=2 over {0,1,2,3} x buffer 1..5 x {immediate,buffered} x {(0,EOF),(n,EOF)} x fault at every offset or none (fault only for length<=4); same oracle; non-trivial: >=2 lines", L)
	plans := [][]int{nil}
	for _, a := range []int{0, 1, 2, 3} {
		plans = append(plans, []int{a})
		for _, b := range []int{0, 1, 2, 3} {
			plans = append(plans, []int{a, b})
		}
	}
	sp.Classify = func(c Case) (bool, []string) {
		return c.Obs.Get("lines") >= 2, nil
	}
	sym := []byte{'\n', '\r', 'a'}
	pbt.Enum(t, sp, func(yield func(Case) bool) {
		for n := 0; n <= L; n++ {
			total := 1
			for i := 0; i < n; i++ {
				total *= 3
			}
			for v := 0; v < total; v++ {
				b := make([]byte, n)
				x := v
				for i := range b {
					b[i] = sym[x%3]
					x /= 3
				}
				for _, pl := range plans {
					for buf := 1; buf <= 5; buf++ {
						for _, variant := range []string{"immediate", "buffered"} {
							if variant == "buffered" && buf < 2 {
								continue
							}
							for _, wd := range []bool{false, true} {
								faults := []int{-1}
								if n <= 4 {
									for f := 0; f <= n; f++ {
										faults = append(faults, f)
									}
								}
								for _, f := range faults {
									c := Case{Content: pbt.S(b), Chunks: pl, BufSize: buf, Variant: variant, FaultAt: f, ErrWithData: wd, Obs: pbt.NewObs()}
									if !yield(c) {
										return
									}
								}
							}
						}
					}
				}
			}
		}
	})
}
