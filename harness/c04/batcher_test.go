// C04, batcher layer: pkg/extractor/batchers/batcher.go is the caller of the
// line scanner. It hands the scanned lines on in batches; the statement's
// "a slice handed out for one line keeps its contents for as long as the
// caller holds it while later lines are scanned" has to survive that hop:
// a consumer that holds every batch until the input is exhausted must find
// in them exactly the lines of the stream, in order, numbered from 1.
package c04

import (
	"bytes"
	"fmt"
	"io"
	"os"
	"path/filepath"
	"sort"
	"testing"
	"time"

	"pgregory.net/rapid"
	"rare/pkg/extractor"
	"rare/pkg/extractor/batchers"
	"verifharness/model"
	"verifharness/pbt"
)

type BatchCase struct {
	Content     pbt.S
	Via         string // file | reader
	Chunks      []int  // reader path: bytes per Read (cycled)
	Batch       int
	BatchBuffer int
	SlowEvery   int      // consumer pauses 200us before every SlowEvery-th receive, 40 times at most (0 = never)
	Obs         *pbt.Obs `json:"-"`
}

type sliceReader struct {
	data   []byte
	chunks []int
	ci     int
}

func (r *sliceReader) Read(p []byte) (int, error) {
	if len(r.data) == 0 {
		return 0, io.EOF
	}
	n := len(p)
	if len(r.chunks) > 0 {
		if c := r.chunks[r.ci%len(r.chunks)]; c > 0 && c < n {
			n = c
		}
		r.ci++
	}
	if n > len(r.data) {
		n = len(r.data)
	}
	copy(p, r.data[:n])
	r.data = r.data[n:]
	return n, nil
}

func (r *sliceReader) Close() error { return nil }

var batchSeq int

func checkBatch(c BatchCase) error {
	content := []byte(c.Content)
	want := model.Lines(content)
	var b *batchers.Batcher
	switch c.Via {
	case "file":
		dir := os.Getenv("VERIF_SCRATCH")
		if dir == "" {
			dir = os.TempDir()
		}
		batchSeq++
		fn := filepath.Join(dir, fmt.Sprintf("c04-batch-%d-%d.log", os.Getpid(), batchSeq))
		if err := os.WriteFile(fn, content, 0o644); err != nil {
			return fmt.Errorf("harness: %v", err)
		}
		defer os.Remove(fn)
		names := make(chan string, 1)
		names <- fn
		close(names)
		b = batchers.OpenFilesToChan(names, false, 1, c.Batch, c.BatchBuffer)
	default:
		b = batchers.OpenReaderToChan("<r>", &sliceReader{data: append([]byte(nil), content...), chunks: c.Chunks}, c.Batch, c.BatchBuffer)
	}
	// hold every batch as received (no copy) until the channel is closed
	var held []extractor.InputBatch
	k := 0
	for ib := range b.BatchChan() {
		k++
		if c.SlowEvery > 0 && k%c.SlowEvery == 0 && k <= 40*c.SlowEvery {
			time.Sleep(200 * time.Microsecond)
		}
		held = append(held, ib)
	}
	// unrelated allocation, so that released memory is reused
	churn := make([][]byte, 0, 64)
	for i := 0; i < 64; i++ {
		x := make([]byte, 16<<10)
		for j := range x {
			x[j] = 0xEE
		}
		churn = append(churn, x)
	}
	_ = churn
	if n := b.ReadErrors(); n != 0 {
		return fmt.Errorf("%d read errors reported for a healthy input", n)
	}
	sort.SliceStable(held, func(i, j int) bool { return held[i].BatchStart < held[j].BatchStart })
	next := uint64(1)
	idx := 0
	for bi, ib := range held {
		if len(ib.Batch) == 0 {
			return fmt.Errorf("batch %d is empty", bi)
		}
		if len(ib.Batch) > c.Batch {
			return fmt.Errorf("batch %d holds %d lines, batch size is %d", bi, len(ib.Batch), c.Batch)
		}
		if ib.BatchStart != next {
			return fmt.Errorf("batch %d starts at line %d, the lines before it number %d", bi, ib.BatchStart, next-1)
		}
		for li, l := range ib.Batch {
			if idx >= len(want) {
				return fmt.Errorf("batch %d line %d (%q): the stream has only %d lines", bi, li, pbt.Trunc(string(l), 80), len(want))
			}
			if !bytes.Equal(l, want[idx]) {
				return fmt.Errorf("held batch %d (start %d) line %d reads %q after the input was exhausted; the stream's line %d is %q (batch=%d buffer=%d via=%s)",
					bi, ib.BatchStart, li, pbt.Trunc(string(l), 80), idx+1, pbt.Trunc(string(want[idx]), 80), c.Batch, c.BatchBuffer, c.Via)
			}
			idx++
		}
		next += uint64(len(ib.Batch))
	}
	if idx != len(want) {
		return fmt.Errorf("batches hold %d lines, the stream has %d", idx, len(want))
	}
	c.Obs.Add("batches", len(held))
	c.Obs.Add("lines", len(want))
	return nil
}

func genBatch(t *rapid.T) BatchCase {
	c := BatchCase{Obs: pbt.NewObs()}
	n := rapid.IntRange(0, 400).Draw(t, "lines")
	var sb bytes.Buffer
	crlf := rapid.IntRange(0, 3).Draw(t, "crlf") == 0
	for i := 0; i < n; i++ {
		switch rapid.IntRange(0, 9).Draw(t, "shape") {
		case 0:
			// empty line
		case 1:
			sb.WriteString(fmt.Sprintf("%d\r", i)) // a CR that belongs to the line when LF-terminated with CRLF
		default:
			sb.WriteString(fmt.Sprintf("line-%04d-%s", i, rapid.StringMatching(`[a-z]{0,12}`).Draw(t, "txt")))
		}
		if crlf && rapid.Bool().Draw(t, "cr") {
			sb.WriteByte('\r')
		}
		if i+1 < n || rapid.IntRange(0, 3).Draw(t, "finalNL") != 0 {
			sb.WriteByte('\n')
		}
	}
	c.Content = pbt.S(sb.String())
	c.Via = rapid.SampledFrom([]string{"file", "reader", "reader"}).Draw(t, "via")
	if c.Via == "reader" {
		for i := 0; i < rapid.IntRange(0, 4).Draw(t, "nchunks"); i++ {
			c.Chunks = append(c.Chunks, rapid.SampledFrom([]int{1, 2, 3, 7, 64, 1000}).Draw(t, "chunk"))
		}
	}
	c.Batch = rapid.SampledFrom([]int{1, 1, 2, 3, 7, 64}).Draw(t, "batch")
	c.BatchBuffer = rapid.IntRange(1, 8).Draw(t, "buffer")
	c.SlowEvery = rapid.SampledFrom([]int{0, 0, 1, 3, 10}).Draw(t, "slow")
	return c
}

var batchSpec = pbt.Spec[BatchCase]{
	Property: "C04", Name: "batcher",
	Rule:   "0-400 generated lines (empty, CR-bearing, CRLF mixes, with/without final newline) read through batchers.OpenFilesToChan (1 reader) or OpenReaderToChan (chunked reads of 1..1000 bytes) with batch size 1-64 and batch buffer 1-8; the consumer keeps every received batch, uncopied, until the channel is closed (optionally pausing so that the reader runs ahead), churns memory, then compares: batches numbered consecutively from line 1, none larger than the batch size, their lines byte-identical to the reference split of the stream. Non-trivial: more batches than buffer+3 and >=10 lines",
	Budget: pbt.Budget{Quick: 16000, Thorough: 600000},
	Gen:    genBatch, Check: checkBatch,
	Classify: func(c BatchCase) (bool, []string) {
		var l pbt.Labels
		l.Add(true, "via:"+c.Via)
		nb := c.Obs.Get("batches")
		l.Add(nb > c.BatchBuffer+3, "batches>buffer+3")
		l.Add(c.SlowEvery > 0, "slow-consumer")
		l.Add(c.Batch == 1, "batch=1")
		return nb > c.BatchBuffer+3 && c.Obs.Get("lines") >= 10, l
	},
}

func TestBatcher(t *testing.T) { pbt.Run(t, batchSpec) }
