// C04, batcher layer: pkg/extractor/batchers/batcher.go is the caller of the
// line scanner. It hands the scanned lines on in batches; the statement's
// "a slice handed out for one line keeps its contents for as long as the
// caller holds it while later lines are scanned" has to survive that hop:
// a consumer that holds every batch until the input is exhausted must find
// in them exactly the lines of the stream, in order, numbered from 1.
//
// The same hop has to carry the statement's last sentence: "a non-EOF read
// error is reported once, ends the stream, and all bytes read before it are
// still delivered as lines". The batcher-fault sub-property drives the real
// batchers from sources that fail: OpenReaderToChan (the time-flush loop) from
// the fault-planned chunk reader of the scan sub-property (error at byte k as
// (0, err) or (n>0, err), after stalls), OpenFilesToChan (the plain loop)
// through its only reader seam, gunzip=true on a damaged .gz file (the gzip
// reader hands the decoded bytes over and then - or together with them -
// a non-EOF error).
package c04

import (
	"bytes"
	"compress/gzip"
	"errors"
	"fmt"
	"io"
	"os"
	"path/filepath"
	"sort"
	"testing"
	"time"

	"pgregory.net/rapid"
	"rare/pkg/extractor"
	"rare/pkg/extractor/batchers"
	"rare/pkg/logger"
	"verifharness/model"
	"verifharness/pbt"
)

type BatchCase struct {
	Content     pbt.S
	HugeKiB     []int `json:",omitempty"` // lines of this many KiB each (one repeated letter, own letter per line) in front of Content: several MiB inside one batch
	Via         string // file | reader | faulty-reader | gzip
	Chunks      []int  // reader paths: bytes per Read (cycled); faulty-reader: 0 = stall (0, nil)
	Batch       int
	BatchBuffer int
	SlowEvery   int // consumer pauses 200us before every SlowEvery-th receive, 40 times at most (0 = never)

	// faulty-reader (the chunk reader of the scan sub-property behind OpenReaderToChan)
	Fault       bool   `json:",omitempty"` // a non-EOF error is raised once FaultAt bytes were handed over
	FaultAt     int    `json:",omitempty"`
	ErrKind     string `json:",omitempty"` // see Case.ErrKind
	ErrWithData bool   `json:",omitempty"` // the read that reaches the end/fault returns (n>0, err)
	LongStall   int    `json:",omitempty"` // run of (0, nil) reads before the StallAt-th read that hands over data
	StallAt     int    `json:",omitempty"`

	// gzip (Content gzipped into a file, damaged, read by OpenFilesToChan with gunzip=true)
	GzLevel    int   `json:",omitempty"` // compress/gzip level (0 = stored blocks, 1, -1)
	GzCutBack  int   `json:",omitempty"` // bytes removed from the end of the .gz file (never into the 10-byte header)
	GzFlipBack int   `json:",omitempty"` // xor GzXor into the byte this far from the end (before cutting; never in the header)
	GzXor      int   `json:",omitempty"`
	GzTail     pbt.S `json:",omitempty"` // garbage appended after the gzip member

	Obs *pbt.Obs `json:"-"`
}

// closerOf gives the scan sub-property's chunk reader the Close that OpenReaderToChan wants.
type closerOf struct{ *chunkReader }

func (closerOf) Close() error { return nil }

const gzHeaderLen = 10 // gzip.Writer without name/comment/extra

var gzWriters = map[int]*gzip.Writer{}

// gzBytes is Content as one gzip member (deterministic: no name, no mtime).
func gzBytes(content []byte, level int) []byte {
	var out bytes.Buffer
	w := gzWriters[level]
	if w == nil {
		w, _ = gzip.NewWriterLevel(&out, level)
		gzWriters[level] = w
	} else {
		w.Reset(&out)
	}
	w.Write(content)
	w.Close()
	return out.Bytes()
}

// gzFile is the .gz file of the case: member, one byte flipped, end cut off, garbage appended.
func gzFile(c BatchCase) []byte {
	z := gzBytes([]byte(c.Content), c.GzLevel)
	if p := len(z) - c.GzFlipBack; c.GzFlipBack > 0 && p >= gzHeaderLen {
		z[p] ^= byte(c.GzXor)
	}
	if cut := c.GzCutBack; cut > 0 {
		if cut > len(z)-gzHeaderLen {
			cut = len(z) - gzHeaderLen
		}
		z = z[:len(z)-cut]
	}
	return append(z, []byte(c.GzTail)...)
}

var errGzRef = errors.New("reference gunzip: no gzip header")

// gunzipRef is what a gzip reader hands over for the file: the decoded bytes
// up to its first error, and that error (io.EOF for an intact file). These
// are "the bytes read before the error" of the statement on the gunzip path.
func gunzipRef(raw []byte) ([]byte, error) {
	zr, err := gzip.NewReader(bytes.NewReader(raw))
	if err != nil {
		return nil, errGzRef
	}
	var data []byte
	buf := make([]byte, 32<<10)
	for {
		n, e := zr.Read(buf)
		data = append(data, buf[:n]...)
		if e != nil {
			return data, e
		}
		if len(data) > 32<<20 {
			return nil, errGzRef
		}
	}
}

type sliceReader struct {
	data   []byte
	chunks []int
	ci     int
}

func (r *sliceReader) Read(p []byte) (int, error) {
	if len(r.data) == 0 {
		return 0, io.EOF
	}
	n := len(p)
	if len(r.chunks) > 0 {
		if c := r.chunks[r.ci%len(r.chunks)]; c > 0 && c < n {
			n = c
		}
		r.ci++
	}
	if n > len(r.data) {
		n = len(r.data)
	}
	copy(p, r.data[:n])
	r.data = r.data[n:]
	return n, nil
}

func (r *sliceReader) Close() error { return nil }

var batchSeq int

func checkBatch(c BatchCase) error {
	content := []byte(c.Content)
	if len(c.HugeKiB) > 0 {
		var hb bytes.Buffer
		for i, k := range c.HugeKiB {
			hb.Write(bytes.Repeat([]byte{byte('A' + i%26)}, k<<10))
			hb.WriteString(fmt.Sprintf("#%d\n", i))
		}
		hb.Write(content)
		content = hb.Bytes()
	}
	handed := content // the bytes the source hands over before it ends or fails
	wantErrs := 0
	var srcErr error
	var rd *chunkReader
	var b *batchers.Batcher
	switch c.Via {
	case "file", "gzip":
		onDisk, ext := content, "log"
		if c.Via == "gzip" {
			onDisk, ext = gzFile(c), "gz"
			handed, srcErr = gunzipRef(onDisk)
			if srcErr == errGzRef {
				pbt.Exclude("gzip: damaged file has no header / decodes to >32MiB")
				return nil
			}
			if srcErr != io.EOF {
				wantErrs = 1
			}
		}
		dir := os.Getenv("VERIF_SCRATCH")
		if dir == "" {
			dir = os.TempDir()
		}
		batchSeq++
		fn := filepath.Join(dir, fmt.Sprintf("c04-batch-%d-%d.%s", os.Getpid(), batchSeq, ext))
		if err := os.WriteFile(fn, onDisk, 0o644); err != nil {
			return fmt.Errorf("harness: %v", err)
		}
		defer os.Remove(fn)
		names := make(chan string, 1)
		names <- fn
		close(names)
		b = batchers.OpenFilesToChan(names, c.Via == "gzip", 1, c.Batch, c.BatchBuffer)
	case "faulty-reader":
		limit := len(content)
		srcErr = io.EOF
		if c.Fault && c.FaultAt >= 0 && c.FaultAt <= len(content) {
			limit = c.FaultAt
			srcErr, _ = faultErr(c.ErrKind)
			wantErrs = 1
		}
		handed = content[:limit]
		rd = &chunkReader{data: content, limit: limit, finalErr: srcErr, chunks: c.Chunks, withData: c.ErrWithData, longStall: c.LongStall, stallAt: c.StallAt}
		b = batchers.OpenReaderToChan("<r>", closerOf{rd}, c.Batch, c.BatchBuffer)
	default:
		b = batchers.OpenReaderToChan("<r>", &sliceReader{data: append([]byte(nil), content...), chunks: c.Chunks}, c.Batch, c.BatchBuffer)
	}
	want := model.Lines(handed)
	// hold every batch as received (no copy) until the channel is closed
	var held []extractor.InputBatch
	k := 0
	for ib := range b.BatchChan() {
		k++
		if c.SlowEvery > 0 && k%c.SlowEvery == 0 && k <= 40*c.SlowEvery {
			time.Sleep(200 * time.Microsecond)
		}
		held = append(held, ib)
	}
	// unrelated allocation, so that released memory is reused
	churn := make([][]byte, 0, 64)
	for i := 0; i < 64; i++ {
		x := make([]byte, 16<<10)
		for j := range x {
			x[j] = 0xEE
		}
		churn = append(churn, x)
	}
	_ = churn
	if n := b.ReadErrors(); n != wantErrs {
		if wantErrs == 0 {
			return fmt.Errorf("%d read errors reported for a healthy input (via=%s)", n, c.Via)
		}
		return fmt.Errorf("%d read errors counted, the source failed exactly once (%v after handing over %d bytes, via=%s)", n, srcErr, len(handed), c.Via)
	}
	if rd != nil && rd.after > 0 {
		return fmt.Errorf("the reader was read %d more time(s) after it had reported %v", rd.after, srcErr)
	}
	sort.SliceStable(held, func(i, j int) bool { return held[i].BatchStart < held[j].BatchStart })
	next := uint64(1)
	idx := 0
	for bi, ib := range held {
		if len(ib.Batch) == 0 {
			return fmt.Errorf("batch %d is empty", bi)
		}
		if len(ib.Batch) > c.Batch {
			return fmt.Errorf("batch %d holds %d lines, batch size is %d", bi, len(ib.Batch), c.Batch)
		}
		if ib.BatchStart != next {
			return fmt.Errorf("batch %d starts at line %d, the lines before it number %d", bi, ib.BatchStart, next-1)
		}
		for li, l := range ib.Batch {
			if idx >= len(want) {
				return fmt.Errorf("batch %d line %d (%q): the stream has only %d lines", bi, li, pbt.Trunc(string(l), 80), len(want))
			}
			if !bytes.Equal(l, want[idx]) {
				return fmt.Errorf("held batch %d (start %d) line %d reads %q after the input was exhausted; the stream's line %d is %q (batch=%d buffer=%d via=%s)",
					bi, ib.BatchStart, li, pbt.Trunc(string(l), 80), idx+1, pbt.Trunc(string(want[idx]), 80), c.Batch, c.BatchBuffer, c.Via)
			}
			idx++
		}
		next += uint64(len(ib.Batch))
	}
	if idx != len(want) {
		if wantErrs > 0 {
			return fmt.Errorf("batches hold %d lines; the %d bytes the source handed over before it failed (%v) are %d lines, line %d is %q (batch=%d buffer=%d via=%s)",
				idx, len(handed), srcErr, len(want), idx+1, pbt.Trunc(string(want[idx]), 80), c.Batch, c.BatchBuffer, c.Via)
		}
		return fmt.Errorf("batches hold %d lines, the stream has %d", idx, len(want))
	}
	o := c.Obs
	o.Add("batches", len(held))
	o.Add("lines", len(want))
	o.Label(wantErrs > 0, "fault")
	o.Label(len(handed) > 0 && handed[len(handed)-1] != '\n', "unterminated-tail")
	if rd != nil {
		o.Label(rd.stalls > 0, "stalled-read")
		o.Label(rd.stalled >= 100, "stall-run>=100")
		o.Label(wantErrs > 0 && len(handed) == 0, "fault-at-byte-0")
		o.Label(wantErrs == 0 && c.ErrWithData && len(handed) > 0, "eof-with-n>0")
		if wantErrs > 0 && c.ErrWithData && len(rd.bounds) > 0 {
			// lines the scanner had not handed out yet when the failing read came back with data
			from := 0
			if k := len(rd.bounds); k >= 2 {
				from = rd.bounds[k-2]
			}
			pending := bytes.Count(handed[from:], []byte{'\n'})
			if handed[len(handed)-1] != '\n' {
				pending++
			}
			o.Label(true, "fault-with-n>0")
			o.Label(pending >= 2, "fault-with-n>0:>=2-lines-pending")
			o.Label(pending >= c.Batch+2, "fault-with-n>0:pending>batch+1")
		}
		o.Label(wantErrs > 0 && !(c.ErrWithData && len(rd.bounds) > 0), "fault-as-(0,err)")
	}
	if c.Via == "gzip" {
		switch {
		case srcErr == io.EOF:
			o.Label(true, "gzerr:none")
		case errors.Is(srcErr, gzip.ErrChecksum):
			o.Label(true, "gzerr:checksum")
		case errors.Is(srcErr, io.ErrUnexpectedEOF):
			o.Label(true, "gzerr:unexpected-eof")
		case errors.Is(srcErr, gzip.ErrHeader):
			o.Label(true, "gzerr:header-of-next-member")
		default:
			o.Label(true, "gzerr:corrupt-input")
		}
		o.Label(wantErrs > 0 && len(want) >= 2, "gzip-fault:>=2-lines-decoded")
	}
	return nil
}

// genBatchLines draws 0..max text lines (empty, CR-bearing, CRLF mixes, with/without final newline).
func genBatchLines(t *rapid.T, max int) pbt.S {
	n := rapid.IntRange(0, max).Draw(t, "lines")
	var sb bytes.Buffer
	crlf := rapid.IntRange(0, 3).Draw(t, "crlf") == 0
	// byte sequences that text tools like to "clean up" at the start of a stream or of a line: they are
	// bytes of the line like any others (UTF-8 byte-order mark, UTF-16 marks, NUL, form feed)
	marks := []string{"\xef\xbb\xbf", "\xff\xfe", "\xfe\xff", "\x00", "\f", "\xef\xbb"}
	if rapid.IntRange(0, 5).Draw(t, "leadmark") == 0 {
		sb.WriteString(rapid.SampledFrom(marks).Draw(t, "mark"))
	}
	for i := 0; i < n; i++ {
		if rapid.IntRange(0, 40).Draw(t, "linemark") == 0 {
			sb.WriteString(rapid.SampledFrom(marks).Draw(t, "mark2"))
		}
		switch rapid.IntRange(0, 9).Draw(t, "shape") {
		case 0:
			// empty line
		case 1:
			sb.WriteString(fmt.Sprintf("%d\r", i)) // a CR that belongs to the line when LF-terminated with CRLF
		default:
			sb.WriteString(fmt.Sprintf("line-%04d-%s", i, rapid.StringMatching(`[a-z]{0,12}`).Draw(t, "txt")))
		}
		if crlf && rapid.Bool().Draw(t, "cr") {
			sb.WriteByte('\r')
		}
		if i+1 < n || rapid.IntRange(0, 3).Draw(t, "finalNL") != 0 {
			sb.WriteByte('\n')
		}
	}
	return pbt.S(sb.String())
}

func genBatch(t *rapid.T) BatchCase {
	c := BatchCase{Obs: pbt.NewObs()}
	c.Content = genBatchLines(t, 400)
	c.Via = rapid.SampledFrom([]string{"file", "reader", "reader"}).Draw(t, "via")
	if c.Via == "reader" {
		for i := 0; i < rapid.IntRange(0, 4).Draw(t, "nchunks"); i++ {
			c.Chunks = append(c.Chunks, rapid.SampledFrom([]int{1, 2, 3, 7, 64, 1000}).Draw(t, "chunk"))
		}
	}
	c.Batch = rapid.SampledFrom([]int{1, 1, 2, 3, 7, 64}).Draw(t, "batch")
	c.BatchBuffer = rapid.IntRange(1, 8).Draw(t, "buffer")
	c.SlowEvery = rapid.SampledFrom([]int{0, 0, 1, 3, 10}).Draw(t, "slow")
	if rapid.IntRange(0, 199).Draw(t, "huge") == 137 {
		// a few very long lines in a row (a batch then holds many MiB): every one of them is a line
		n := rapid.IntRange(3, 8).Draw(t, "nhuge")
		for i := 0; i < n; i++ {
			c.HugeKiB = append(c.HugeKiB, rapid.SampledFrom([]int{129, 700, 1100, 1500, 2100}).Draw(t, "hugeKiB"))
		}
		c.Content = genBatchLines(t, 20)
		c.Batch = rapid.SampledFrom([]int{7, 64, 1000}).Draw(t, "hugeBatch")
		if c.Via == "reader" {
			c.Chunks = []int{65536, 1 << 20}
		}
	}
	return c
}

var batchSpec = pbt.Spec[BatchCase]{
	Property: "C04", Name: "batcher",
	Rule:   "0-400 generated lines (empty, CR-bearing, CRLF mixes, with/without final newline) read through batchers.OpenFilesToChan (1 reader) or OpenReaderToChan (chunked reads of 1..1000 bytes) with batch size 1-64 and batch buffer 1-8; the consumer keeps every received batch, uncopied, until the channel is closed (optionally pausing so that the reader runs ahead), churns memory, then compares: batches numbered consecutively from line 1, none larger than the batch size, their lines byte-identical to the reference split of the stream. Non-trivial: more batches than buffer+3 and >=10 lines",
	Budget: pbt.Budget{Quick: 16000, Thorough: 600000},
	Gen:    genBatch, Check: checkBatch,
	Classify: func(c BatchCase) (bool, []string) {
		var l pbt.Labels
		l.Add(true, "via:"+c.Via)
		nb := c.Obs.Get("batches")
		l.Add(nb > c.BatchBuffer+3, "batches>buffer+3")
		l.Add(c.SlowEvery > 0, "slow-consumer")
		l.Add(c.Batch == 1, "batch=1")
		l.Add(len(c.HugeKiB) > 0, "several-MiB-in-one-batch")
		return nb > c.BatchBuffer+3 && c.Obs.Get("lines") >= 10, l
	},
}

func TestBatcher(t *testing.T) { pbt.Run(t, batchSpec) }

// genBatchFault: a source that fails (or stalls) under the real batchers.
func genBatchFault(t *rapid.T) BatchCase {
	c := BatchCase{Obs: pbt.NewObs()}
	switch rapid.IntRange(0, 3).Draw(t, "contentClass") {
	case 0:
		c.Content = pbt.S(genContent(t)) // the scan sub-property's alphabet {\n,\r,a,b,NUL,0xFF}
	case 1:
		c.Content = genBatchLines(t, 12)
	default:
		c.Content = genBatchLines(t, 400)
	}
	c.Batch = rapid.SampledFrom([]int{1, 1, 2, 3, 7, 64}).Draw(t, "batch")
	c.BatchBuffer = rapid.IntRange(1, 8).Draw(t, "buffer")
	c.SlowEvery = rapid.SampledFrom([]int{0, 0, 0, 1, 3}).Draw(t, "slow")
	c.Via = rapid.SampledFrom([]string{"faulty-reader", "faulty-reader", "gzip"}).Draw(t, "via")
	if c.Via == "faulty-reader" {
		for i := 0; i < rapid.IntRange(0, 4).Draw(t, "nchunks"); i++ {
			c.Chunks = append(c.Chunks, rapid.SampledFrom([]int{0, 1, 2, 3, 7, 20, 64, 1000}).Draw(t, "chunk"))
		}
		if rapid.IntRange(0, 5).Draw(t, "fault") != 0 {
			c.Fault = true
			c.FaultAt = rapid.IntRange(0, len(c.Content)).Draw(t, "faultAt")
			c.ErrKind = rapid.SampledFrom(errKinds).Draw(t, "errKind")
		}
		c.ErrWithData = rapid.Bool().Draw(t, "errWithData")
		if rapid.IntRange(0, 11).Draw(t, "longStall") == 0 {
			c.LongStall = rapid.SampledFrom([]int{99, 100, 101, 150, 1000}).Draw(t, "stallRun")
			c.StallAt = rapid.IntRange(0, 3).Draw(t, "stallAt")
		}
		return c
	}
	c.GzLevel = rapid.SampledFrom([]int{gzip.NoCompression, gzip.BestSpeed, gzip.DefaultCompression}).Draw(t, "gzLevel")
	body := len(gzBytes([]byte(c.Content), c.GzLevel)) - gzHeaderLen // deflate stream + 8 trailer bytes
	switch rapid.IntRange(0, 9).Draw(t, "damage") {
	case 0: // intact
	case 1, 2: // truncated inside the trailer (CRC32, ISIZE)
		c.GzCutBack = rapid.IntRange(1, 8).Draw(t, "cutBack")
	case 3, 4: // truncated anywhere after the header
		c.GzCutBack = rapid.IntRange(1, body).Draw(t, "cutBack")
	case 5, 6: // wrong CRC32 / ISIZE
		c.GzFlipBack = rapid.IntRange(1, 8).Draw(t, "flipBack")
		c.GzXor = rapid.IntRange(1, 255).Draw(t, "xor")
	case 7, 8: // a damaged byte in the deflate stream
		c.GzFlipBack = rapid.IntRange(9, body).Draw(t, "flipBack")
		c.GzXor = rapid.IntRange(1, 255).Draw(t, "xor")
	default: // garbage after the member
		c.GzTail = pbt.S(rapid.SliceOfN(rapid.Byte(), 1, 12).Draw(t, "gzTail"))
	}
	return c
}

var batchFaultSpec = pbt.Spec[BatchCase]{
	Property: "C04", Name: "batcher-fault",
	Rule:   "the batcher sub-property's oracle under failing sources. faulty-reader: content (scan alphabet, or 0-12 / 0-400 generated lines) handed to batchers.OpenReaderToChan by the scan sub-property's chunk reader: chunk plans over {0=stall,1,2,3,7,20,64,1000} or whole-buffer reads, a non-EOF error once k bytes were handed over (k in 0..len; 1 case in 6 ends in a clean EOF) delivered as (0, err) or together with the last bytes as (n>0, err), optional runs of 99-1000 stalls. gzip: the content gzipped (stored/fast/default) into a file that is intact, truncated (in the trailer or anywhere behind the header), has one byte flipped (trailer or deflate stream) or garbage appended, read by OpenFilesToChan(gunzip=true); reference = the bytes compress/gzip hands over for that file before its first error. Oracle: the held batches are exactly the reference lines of the bytes handed over before the error, each once, in order, numbered consecutively from 1, no batch above the batch size; ReadErrors() is 1 for a failed source and 0 for a clean end; the channel is closed; a failed chunk reader is not read again. Non-trivial: the source failed after handing over >=2 lines",
	Budget: pbt.Budget{Quick: 12000, Thorough: 500000},
	Gen:    genBatchFault, Check: checkBatch,
	Classify: func(c BatchCase) (bool, []string) {
		var l pbt.Labels
		l.Add(true, "via:"+c.Via)
		l.Add(c.Batch == 1, "batch=1")
		l.Add(c.Obs.Get("batches") > c.BatchBuffer+3, "batches>buffer+3")
		if c.Via == "gzip" {
			switch {
			case len(c.GzTail) > 0:
				l.Add(true, "gz:garbage-tail")
			case c.GzCutBack > 0 && c.GzCutBack <= 8:
				l.Add(true, "gz:cut-in-trailer")
			case c.GzCutBack > 8:
				l.Add(true, "gz:cut-in-deflate-stream")
			case c.GzFlipBack > 8:
				l.Add(true, "gz:flip-in-deflate-stream")
			case c.GzFlipBack > 0:
				l.Add(true, "gz:flip-in-trailer")
			default:
				l.Add(true, "gz:intact")
			}
		}
		l = append(l, c.Obs.All()...)
		return c.Obs.Has("fault") && c.Obs.Get("lines") >= 2, l
	},
}

func TestBatcherFault(t *testing.T) {
	// every failing source makes rare log "Error reading ..." on stderr; keep that in rare's log buffer
	logger.DeferLogs()
	pbt.Run(t, batchFaultSpec)
}
