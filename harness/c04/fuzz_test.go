// C04, native fuzzing (thorough tier): the scan sub-property's oracle on
// coverage-guided inputs. The fuzzer mutates four values that are decoded,
// field by field, into the Case of the scan sub-property, so that every
// mutation is a legal (content, read plan, buffer size, variant) quadruple
// and the coverage feedback comes from the scanners, not from a parser.
package c04

import (
	"encoding/json"
	"testing"
	"time"

	"verifharness/pbt"
)

var fuzzStallRuns = []int{99, 100, 101, 150, 1000}

// fuzzCase decodes the fuzzer's values.
//
//	variant  bit 0: 0 = immediate, 1 = buffered
//	bufSize  0 = the production size (128 KiB), else 1..64 (buffered: 2..64, its constructor rejects < 2)
//	plan[0]  bit 0: inject a non-EOF error; bit 1: the read that reaches the end/fault returns (n>0, err);
//	         bit 2: a long run of (0, nil) reads
//	plan[1], plan[2]  position of the fault: (lo | hi<<8) mod (len(content)+1) bytes are handed over before it
//	plan[3]  low nibble: length of the stall run (99, 100, 101, 150, 1000); bits 4-5: before which data read
//	plan[4:] cyclic chunk plan, at most 8 entries: b mod 66 bytes per Read, 0 = a stall (0, nil)
func fuzzCase(content, plan []byte, bufSize, variant byte) Case {
	at := func(i int) int {
		if i < len(plan) {
			return int(plan[i])
		}
		return 0
	}
	c := Case{Content: pbt.S(content), FaultAt: -1, Variant: "immediate"}
	if variant&1 == 1 {
		c.Variant = "buffered"
	}
	switch {
	case bufSize == 0:
		c.BufSize = 128 * 1024
	default:
		c.BufSize = 1 + int(bufSize-1)%64
	}
	if c.Variant == "buffered" && c.BufSize < 2 {
		c.BufSize = 2
	}
	flags := at(0)
	if flags&1 != 0 {
		c.FaultAt = (at(1) | at(2)<<8) % (len(content) + 1)
	}
	c.ErrWithData = flags&2 != 0
	if flags&4 != 0 {
		c.LongStall = fuzzStallRuns[(at(3)&15)%len(fuzzStallRuns)]
		c.StallAt = (at(3) >> 4) & 3
	}
	for i := 4; i < len(plan) && i < 12; i++ {
		c.Chunks = append(c.Chunks, int(plan[i])%66)
	}
	return c
}

func FuzzScan(f *testing.F) {
	type seed struct {
		content string
		plan    []byte
		buf     byte
	}
	seeds := []seed{
		{"", nil, 4},                // empty input
		{"", []byte{1, 0, 0, 0}, 4}, // error before the first byte
		{"ab\r\ncd\r\nef", []byte{0, 0, 0, 0, 3, 1}, 5}, // CR and LF of one line end in different reads
		{"ab\r\ncd\r\n", []byte{0, 0, 0, 0, 1}, 2},      // one byte per read, buffer smaller than a line
		{"line one\nlast\r", []byte{2, 0, 0, 0, 5}, 8},  // lone CR at EOF, EOF together with the last bytes
		{"\r", nil, 1}, // a CR is the whole stream
		{"\n\n\r\n\n", []byte{0, 0, 0, 0, 2, 0, 1}, 3},                                         // empty lines, stalls between reads
		{"short\nxxxxxxxxxxxxxxxxxxxxxxxxxxxxxxxxxxxxxxxx\nz", []byte{0, 0, 0, 0, 7}, 4},       // line much longer than the buffer
		{"xxxxxxxxxxxxxxxxxxxxxxxxxxxxxxxxxxxxxxxxxxxxxxxxxxxxxxxxxxxxxxxxxxxxxxxxxx", nil, 9}, // one unterminated long line
		{"h1\nh2\nh3\nh4\ntail", []byte{3, 14, 0, 0, 3, 65}, 0},                                // fault with n>0: several complete lines arrive together with the error
		{"h1\nh2\nh3\nh4\ntail", []byte{1, 7, 0, 0, 4}, 6},                                     // fault as (0, err) in the middle of a line
		{"a\nb\nc\n", []byte{3, 6, 0, 0}, 16},                                                  // fault with n>0 at the very end, whole-buffer read
		{"a\r\nb\r\nc", []byte{4, 0, 0, 0x11, 2}, 3},                                           // a hundred stalls before the second data read
		{"a\x00b\xff\n\xff\xfe\n", []byte{6, 0, 0, 0x23, 1, 0, 0, 2}, 2},
		{"one\ntwo\nthree\n", []byte{0, 0, 0, 0, 65, 0, 64}, 0}, // production buffer size
	}
	for _, s := range seeds {
		f.Add([]byte(s.content), s.plan, s.buf, byte(0))
		f.Add([]byte(s.content), s.plan, s.buf, byte(1))
	}
	f.Fuzz(func(t *testing.T, content, plan []byte, bufSize, variant byte) {
		if len(content) > 2048 {
			return
		}
		c := fuzzCase(content, plan, bufSize, variant)
		// same oracle as the scan sub-property: exact line sequence against the
		// reference splitter of the bytes handed over, retention of the slices
		// handed out, OnError exactly once for a non-EOF error and never for
		// EOF, no read after the reader reported its error; a panic or a scan
		// that does not return is a violation as well.
		if err := pbt.WithWatchdog(20*time.Second, func() error { return check(c) }); err != nil {
			js, _ := json.Marshal(c)
			t.Fatalf("%v\ncase: %s", err, js)
		}
	})
}
