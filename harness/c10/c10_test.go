// C10 — optimisation and user-defined functions never change an expression's value.
//
// Sub-properties (all differential / metamorphic, no model of any helper):
//
//	optimise    optimised builder == non-optimised builder on every context of a
//	            sequence, and == the same template with its constants supplied
//	            through named keys of the match (so a folded / pre-parsed
//	            constant has its run-time value)
//	matrix      the same oracle, bounded-exhaustively: every helper x arity x
//	            {constant, other constant, dynamic} per argument position
//	live        {time live} / {time delta} keep changing with the clock in the
//	            optimised builder, wherever they are nested
//	funcs       1..3 funcs files (names may be defined again, in the same or a later
//	            file) in random layout load like their one-line-per-
//	            definition form, and {name a b ..} == the body with {i} := a_i
//	            substituted ON THE TREE; a sample also through the rare binary
//	concurrent  both relations from 1..8 goroutines sharing compiled expressions
package c10

import (
	"bytes"
	"errors"
	"fmt"
	"os"
	"os/exec"
	"path/filepath"
	"sort"
	"strconv"
	"strings"
	"sync"
	"testing"
	"time"

	"pgregory.net/rapid"
	"rare/pkg/color"
	"rare/pkg/expressions"
	"rare/pkg/expressions/funcfile"
	"rare/pkg/expressions/funclib"
	"rare/pkg/expressions/stdlib"
	"rare/pkg/humanize"
	"rare/pkg/multiterm/termunicode"
	"verifharness/pbt"
)

// ---------------------------------------------------------------- environment

// Switches are the global switches of rare an expression can observe.
type Switches struct {
	Color, Humanize, Unicode bool
}

// reset puts every global of rare this package touches into a known state.
func reset(s Switches) {
	color.Enabled = s.Color
	humanize.Enabled = s.Humanize
	termunicode.UnicodeEnabled = s.Unicode
	stdlib.DisableLoad = false
	for k := range funclib.Additional {
		delete(funclib.Additional, k)
	}
}

func (g *gctx) switches() Switches {
	return Switches{Color: g.chance(30, "color"), Humanize: g.chance(70, "humanize"), Unicode: g.chance(70, "unicode")}
}

const tableContent = "abc X\nk1 v1\n// commented out\n; also\n-- and this\nHello World\nb\n42 answer\na 1\nk\n"

var (
	tableOnce sync.Once
	tableFile string
)

func scratchDir() string {
	d := os.Getenv("VERIF_SCRATCH")
	if d == "" {
		d = os.TempDir()
	}
	return d
}

// tablePath is the file {load @TABLE@} reads: written once per process under
// VERIF_SCRATCH; the placeholder keeps a saved case replayable anywhere.
func tablePath() string {
	tableOnce.Do(func() {
		tableFile = filepath.Join(scratchDir(), fmt.Sprintf("c10-table-%d.txt", os.Getpid()))
		if err := os.WriteFile(tableFile, []byte(tableContent), 0o644); err != nil {
			panic("c10: cannot write the lookup table: " + err.Error())
		}
	})
	return tableFile
}

func withTable(tpl pbt.S) string {
	s := string(tpl)
	if strings.Contains(s, "@TABLE@") {
		s = strings.ReplaceAll(s, "@TABLE@", tablePath())
	}
	return s
}

func (c Ctx) kb(hoisted []pbt.S) *expressions.KeyBuilderContextArray {
	m := make(map[string]string, len(c.K)+len(hoisted))
	for _, kv := range c.K {
		m[string(kv[0])] = string(kv[1])
	}
	for i, v := range hoisted {
		m["h"+strconv.Itoa(i)] = string(v)
	}
	return &expressions.KeyBuilderContextArray{Elements: pbt.Strs(c.G), Keys: m}
}

func (c Ctx) empty() bool { return len(c.G) == 0 && len(c.K) == 0 }

func q(s string) string { return pbt.Trunc(strconv.Quote(s), 700) }

func describeCtx(c Ctx) string {
	var sb strings.Builder
	sb.WriteString("groups=[")
	for i, g := range c.G {
		if i > 0 {
			sb.WriteByte(' ')
		}
		sb.WriteString(strconv.Quote(string(g)))
	}
	sb.WriteString("] keys={")
	for i, kv := range c.K {
		if i > 0 {
			sb.WriteByte(' ')
		}
		sb.WriteString(string(kv[0]) + "=" + strconv.Quote(string(kv[1])))
	}
	sb.WriteString("}")
	return pbt.Trunc(sb.String(), 900)
}

// random argument separators / padding of the printer
func (g *gctx) sepFn() sepFn {
	return func() string {
		switch g.n(0, 19, "sep") {
		case 0:
			return "  "
		case 1:
			return "\t"
		case 2:
			return "\n"
		case 3:
			return " \n  "
		}
		return " "
	}
}

func (g *gctx) padFn() sepFn {
	return func() string {
		if g.n(0, 9, "pad") == 0 {
			return " "
		}
		return ""
	}
}

// shape reports whether the pieces hold a sub-tree the optimiser can fold (a
// helper call without any reference to the match) and whether anything
// dynamic remains.
func shape(pieces []*Node, user map[string]*Def) (fold, dyn bool) {
	var formDyn func(f *Form) bool
	formDyn = func(f *Form) bool {
		if f == nil {
			return false
		}
		return f.Op == "ref" || formDyn(f.L) || formDyn(f.R)
	}
	var isDyn func(n *Node) bool
	isDyn = func(n *Node) bool {
		switch n.K {
		case kGrp, kKey, kArg:
			return true
		case kForm:
			return formDyn(n.F)
		case kCall:
			if n.S == "json" && len(n.A) == 1 {
				return true
			}
		}
		for _, a := range n.A {
			if isDyn(a) {
				return true
			}
		}
		return false
	}
	var visit func(n *Node)
	visit = func(n *Node) {
		d := isDyn(n)
		if d {
			dyn = true
		}
		if n.K == kCall && !d {
			if _, isUser := user[n.S]; !isUser {
				fold = true
			}
		}
		if n.K != kLam {
			for _, a := range n.A {
				visit(a)
			}
		}
	}
	for _, n := range pieces {
		visit(n)
	}
	return
}

// ---------------------------------------------------------------- (a) optimise

type OptCase struct {
	Template  pbt.S   // rare template; @TABLE@ stands for the scratch lookup file
	Hoisted   pbt.S   // the same tree with its constants replaced by keys {h0} {h1} ..; "" = none
	HoistVals []pbt.S // values of h0, h1, ..
	Ctxs      []Ctx   // match contexts, evaluated in this order by every builder
	Sw        Switches
	Fold, Dyn bool     // from the tree: holds a foldable sub-tree / something dynamic
	Labels    []string // from the generator
	Obs       *pbt.Obs `json:"-"`
}

func buildOpt(g *gctx, maxCtx int) OptCase {
	c := OptCase{Obs: pbt.NewObs()}
	g.budget = g.n(1, 8, "budget")
	pieces := g.template(4, g.n(1, 3, "depth"))
	c.Template = pbt.S(printTemplate(pieces, g.sepFn(), g.padFn()))
	hp, vals := hoist(pieces)
	switch {
	case len(vals) == 0:
	case g.labels["time-cache-dynamic"]:
		// the format-remembering time parser learns from the first date it
		// sees; whether a date assembled from constants counts as "seen" at
		// compile time is the parser's business, not a value of the template:
		// the constants-from-the-match relation is not claimed there
		pbt.Exclude("hoisting-with-format-remembering-time-parser")
	default:
		c.Hoisted = pbt.S(printTemplate(hp, oneSpace, nil))
		c.HoistVals = pbt.SS(vals)
	}
	c.Ctxs = g.contexts(maxCtx)
	c.Sw = g.switches()
	c.Fold, c.Dyn = shape(pieces, nil)
	c.Labels = sortedLabels(g.labels)
	return c
}

func genOpt(t *rapid.T) OptCase {
	g := &gctx{t: t, labels: map[string]bool{}, misuse: true}
	g.good = g.chance(60, "wellFormedConstants")
	return buildOpt(g, 8)
}

type compiled struct {
	name string
	kb   *expressions.CompiledKeyBuilder
}

// compileOpt compiles the template of an optimise case with both builders
// and, when present, its hoisted form. ok=false: the template has a
// compile-time error in both builders (nothing to evaluate).
func compileOpt(c OptCase) (opt, plain, hoisted *expressions.CompiledKeyBuilder, ok bool, err error) {
	tpl := withTable(c.Template)
	opt, oerr := stdlib.NewStdKeyBuilderEx(true).Compile(tpl)
	plain, perr := stdlib.NewStdKeyBuilderEx(false).Compile(tpl)
	if (oerr != nil) != (perr != nil) {
		return nil, nil, nil, false, fmt.Errorf("the builders disagree about whether the template compiles\n template:  %s\n optimised: %v\n plain:     %v", q(tpl), errText(oerr), errText(perr))
	}
	if oerr != nil {
		c.Obs.Label(true, "compile-error(both)")
		return nil, nil, nil, false, nil
	}
	if opt == nil || plain == nil {
		return nil, nil, nil, false, fmt.Errorf("Compile returned neither a builder nor an error for %s", q(tpl))
	}
	if c.Hoisted != "" {
		h, herr := stdlib.NewStdKeyBuilderEx(true).Compile(withTable(c.Hoisted))
		if herr != nil {
			return nil, nil, nil, false, fmt.Errorf("the template compiles with constants but not with the same values read from the match\n template: %s\n hoisted:  %s\n error:    %v", q(tpl), q(string(c.Hoisted)), herr)
		}
		hoisted = h
	}
	return opt, plain, hoisted, true, nil
}

func errText(e *expressions.CompilerErrors) string {
	if e == nil {
		return "<no error>"
	}
	return pbt.Trunc(strings.TrimSpace(e.Error()), 400)
}

func checkOpt(c OptCase) error {
	reset(c.Sw)
	opt, plain, hoisted, ok, err := compileOpt(c)
	if err != nil || !ok {
		return err
	}
	c.Obs.Label(true, "compiled")
	c.Obs.Label(opt.StageCount() < plain.StageCount(), "top-level-stages-merged")
	c.Obs.Label(opt.StageCount() == 1 && !c.Dyn, "folded-to-one-literal")
	distinct := map[string]bool{}
	for i, x := range c.Ctxs {
		ctx := x.kb(nil)
		o := opt.BuildKey(ctx)
		p := plain.BuildKey(ctx)
		if o != p {
			return fmt.Errorf("optimised and non-optimised evaluation differ\n template:  %s\n context %d of %d: %s\n optimised: %s\n plain:     %s", q(withTable(c.Template)), i+1, len(c.Ctxs), describeCtx(x), q(o), q(p))
		}
		if hoisted != nil {
			h := hoisted.BuildKey(x.kb(c.HoistVals))
			if h != o {
				return fmt.Errorf("a constant does not have its run-time value: the template differs from the same template reading the same values from the match\n template: %s\n hoisted:  %s with h0.. = %s\n context %d of %d: %s\n constants: %s\n from match: %s", q(withTable(c.Template)), q(string(c.Hoisted)), q(strings.Join(pbt.Strs(c.HoistVals), " | ")), i+1, len(c.Ctxs), describeCtx(x), q(o), q(h))
			}
		}
		distinct[o] = true
		c.Obs.Label(x.empty(), "all-empty-context")
	}
	c.Obs.Label(len(distinct) >= 2, "value-varies-over-contexts")
	c.Obs.Label(hoisted != nil, "hoisted-compared")
	return nil
}

func classifyOpt(c OptCase) (bool, []string) {
	l := append([]string(nil), c.Labels...)
	l = append(l, c.Obs.All()...)
	if c.Fold {
		l = append(l, "foldable-subtree")
	}
	if c.Dyn {
		l = append(l, "dynamic-part")
	}
	if c.Fold && c.Dyn {
		l = append(l, "mixed-constant-and-dynamic")
	}
	l = append(l, fmt.Sprintf("contexts:%d", len(c.Ctxs)))
	nt := c.Fold && c.Dyn && c.Obs.Has("compiled") && len(c.Ctxs) >= 2
	return nt, l
}

var optSpec = pbt.Spec[OptCase]{
	Property: "C10", Name: "optimise",
	Rule:   "typed expression trees over all helpers of the standard table (constant / dynamic / mixed arguments, concatenated arguments, quoted and bare sub-expressions, formulas, escaped literal text, random blanks) x 1..8 contexts incl. the all-empty one x colour/humanize/unicode switches; oracle: NewStdKeyBuilderEx(true) and (false) agree on compiling and on BuildKey for every context in order, and the optimised value equals the optimised value of the tree with its constants replaced by named keys carrying the same values. Non-trivial: the tree holds a helper call without any reference to the match (foldable) AND something dynamic, compiles, >=2 contexts; distinct by case JSON",
	Budget: pbt.Budget{Quick: 130000, Thorough: 400000},
	Gen:    genOpt, Check: checkOpt, Classify: classifyOpt,
}

func TestOptimise(t *testing.T) { pbt.Run(t, optSpec) }

// ---------------------------------------------------------------- matrix (bounded-exhaustive)

// matrixArg: the choice-th admissible form of an argument of kind k:
// 0 and 1 are constants, 2 is a value read from the match.
func matrixArg(k kind, choice int, f *fnSpec) *Node {
	switch k {
	case cFormula:
		return &Node{K: kForm, F: &Form{Op: "bin", S: []string{"*", "+", "/"}[choice],
			L: &Form{Op: "num", S: "3"}, R: []*Form{{Op: "num", S: "4"}, {Op: "ref", S: "1"}, {Op: "ref", S: "f"}}[choice]}}
	case cLam1:
		switch choice {
		case 0:
			return lam(call("upper", elem(0)))
		case 1:
			l := lam(call("sumi", elem(0), clit("1")))
			l.Bare = true
			return l
		}
		return lam(call("eq", elem(0), key("w")))
	case cLam2:
		switch choice {
		case 0:
			return lam(call("sumi", elem(0), elem(1)))
		case 1:
			l := lam(call("tab", elem(0), elem(1)))
			l.Bare = true
			return l
		}
		return lam(call("sumi", elem(0), elem(1), key("n")))
	case cLamForCond:
		l := lam(call("lt", elem(1), clit([]string{"3", "5", "2"}[choice])))
		l.Bare = choice == 1
		return l
	case cLamForIncr:
		switch choice {
		case 0:
			return lam(call("sumi", elem(0), clit("2")))
		case 1:
			l := lam(call("multi", elem(0), clit("2")))
			l.Bare = true
			return l
		}
		return lam(call("sumi", elem(0), call("len", key("w"))))
	case cPathLoad:
		return clit("@TABLE@")
	case cInArr:
		if choice == 0 {
			c := call("@", clit("abc"), clit("X"))
			c.NoHoist = true
			return c
		}
		return clit("abc")
	case cTable:
		if choice == 0 {
			c := call("load", clit("@TABLE@"))
			c.NoHoist = true
			return c
		}
		if choice == 1 {
			return clit("abc X")
		}
		return key("w")
	case kJSON:
		if choice == 2 {
			return key("j")
		}
		return grp(0)
	case kArr:
		switch choice {
		case 0:
			return call("@", lit("10"), lit("abc"), lit("7"))
		case 1:
			return call("@split", lit("1,2,3"), clit(","))
		}
		return grp(slotGroup[kArr])
	}
	if choice < 2 {
		n := lit(pools[k][choice])
		if k.isConst() {
			n.NoHoist = true
		}
		return n
	}
	if k == kSmall || (k.isConst() && k != cJSONPath) {
		// the documented compile-time literal positions, read from the match: a
		// compile error or a silently taken default, alike in both builders
		return key("s")
	}
	if k == kNonZero {
		return grp(slotGroup[kInt])
	}
	if s, ok := slotGroup[k]; ok {
		return grp(s)
	}
	return grp(slotGroup[kWord])
}

var matrixCtxs = func() []Ctx {
	mk := func(vals map[kind]string, keys bool) Ctx {
		var c Ctx
		for i := 0; i < nGroups; i++ {
			c.G = append(c.G, pbt.S(vals[groupKinds[i]]))
		}
		if keys {
			for i, name := range keyNames {
				c.K = append(c.K, [2]pbt.S{pbt.S(name), pbt.S(vals[groupKinds[i]])})
			}
		}
		return c
	}
	good := map[kind]string{kJSON: `{"a":1,"b":"x","c":[1,2,3],"d":{"e":"deep"}}`, kInt: "42", kSmall: "3", kWord: "abc", kDate: "2020-01-05 10:11:12", kFloat: "2.5",
		kArr: "a\x00b\x00c", kUnix: "1460653945", kPath: "a/b/c.txt", kBool: "1", kDur: "90s"}
	other := map[kind]string{kJSON: `{"a":"two"}`, kInt: "-3", kSmall: "0", kWord: "Hello World", kDate: "2021-12-31 23:59:59", kFloat: "-1.25",
		kArr: "10\x00abc\x007", kUnix: "0", kPath: "/x/y/", kBool: "", kDur: "1h30m"}
	bad := map[kind]string{kJSON: "not json", kInt: "abc", kSmall: "x", kWord: "", kDate: "notadate", kFloat: "1e400",
		kArr: "", kUnix: "abc", kPath: "", kBool: " ", kDur: "bad"}
	return []Ctx{mk(good, true), {}, mk(other, true), mk(bad, true), mk(good, false), mk(good, true)}
}()

func TestMatrix(t *testing.T) {
	sp := optSpec
	sp.Name = "matrix"
	sp.Rule = "bounded-exhaustive: every helper of the table x every arity (<=4) x every assignment of {constant, second constant, value of the match} to its argument positions (documented literal positions included: there the dynamic form must fail or default alike in both builders), once bare and once inside a literal frame; 6 fixed contexts (well-formed, all-empty, second well-formed, ill-typed, groups only, well-formed again); oracle of `optimise`. Non-trivial: compiles, and mixes a constant with a dynamic argument or is all-constant next to a dynamic piece"
	sp.Classify = func(c OptCase) (bool, []string) {
		l := append([]string(nil), c.Labels...)
		l = append(l, c.Obs.All()...)
		return c.Obs.Has("compiled") && c.Dyn, l
	}
	pbt.Enum(t, sp, func(yield func(OptCase) bool) {
		for fi := range table {
			f := &table[fi]
			for n := f.min; n <= f.max && n <= 4; n++ {
				total := 1
				for i := 0; i < n; i++ {
					total *= 3
				}
				for v := 0; v < total; v++ {
					c := call(f.name)
					x := v
					nConst := 0
					for i := 0; i < n; i++ {
						ch := x % 3
						x /= 3
						if ch < 2 {
							nConst++
						}
						c.A = append(c.A, matrixArg(f.arg(i, n), ch, f))
					}
					for frame := 0; frame < 2; frame++ {
						pieces := []*Node{c}
						if frame == 1 {
							pieces = []*Node{lit("a "), c, lit(" | "), grp(3), lit(":"), call("upper", lit("k"))}
						}
						oc := OptCase{Obs: pbt.NewObs(), Ctxs: matrixCtxs, Sw: Switches{Color: v%2 == 1, Humanize: true, Unicode: frame == 0}}
						oc.Template = pbt.S(printTemplate(pieces, oneSpace, nil))
						hp, vals := hoist(pieces)
						if len(vals) > 0 {
							oc.Hoisted = pbt.S(printTemplate(hp, oneSpace, nil))
							oc.HoistVals = pbt.SS(vals)
						}
						oc.Fold, oc.Dyn = shape(pieces, nil)
						oc.Labels = []string{"fn:" + f.name}
						switch {
						case nConst == n:
							oc.Labels = append(oc.Labels, "all-constant")
						case nConst == 0:
							oc.Labels = append(oc.Labels, "all-dynamic")
						default:
							oc.Labels = append(oc.Labels, "mixed")
						}
						if !yield(oc) {
							return
						}
					}
				}
			}
		}
	})
}

// TestTableComplete: the table of this package names exactly the helpers rare
// registers (reported in the evidence, not a verdict: a helper added to rare
// later is simply not generated).
func TestTableComplete(t *testing.T) {
	if os.Getenv("VERIF_REPLAY") != "" {
		t.Skip()
	}
	var missing, extra []string
	for name := range stdlib.StandardFunctions {
		if tableByName[name] == nil {
			missing = append(missing, name)
		}
	}
	for _, f := range table {
		if _, ok := stdlib.StandardFunctions[f.name]; !ok {
			extra = append(extra, f.name)
		}
	}
	sort.Strings(missing)
	sort.Strings(extra)
	if k, _ := pbt.Shard(); k == 0 {
		pbt.Note("C10", "helpers-in-table", len(table))
		pbt.Note("C10", "helpers-of-rare-not-in-table", missing)
		pbt.Note("C10", "helpers-in-table-not-in-rare", extra)
	}
	t.Logf("table: %d helpers; not generated: %v; unknown to rare: %v", len(table), missing, extra)
}

// ---------------------------------------------------------------- live / delta

type LiveCase struct {
	Funcs     pbt.S   // funcs file defining the user functions the templates call
	Templates []pbt.S // every one must keep changing with the clock
	Ctx       Ctx
	Obs       *pbt.Obs `json:"-"`
}

func genLive(t *rapid.T) LiveCase {
	g := &gctx{t: t}
	c := LiveCase{Obs: pbt.NewObs()}
	c.Funcs = "mylive {time live}\nmydelta x={time delta}\nplus {sumi {time live} {0}} # argument added to the clock\nvia {mylive {0}}:{mydelta {0}}\n"
	n := g.n(6, 14, "nTemplates")
	for i := 0; i < n; i++ {
		kw := g.pick([]string{"live", "delta", "live", "delta", "LIVE", "Delta", `"live"`, `"delta"`, "{lower LIVE}", "{@select {@ now live} 1}"}, "keyword")
		tm := "{time " + kw + "}"
		if g.chance(20, "timeArgs") {
			tm = "{time " + kw + " " + g.pick([]string{"auto", "cache", `""`, "RFC3339"}, "liveFmt") + g.pick([]string{"", " utc", " local"}, "liveTz") + "}"
		}
		var tpl string
		switch g.n(0, 15, "wrap") {
		case 0:
			tpl = tm
		case 1:
			tpl = "at " + tm + " s"
		case 2:
			tpl = "{sumi " + tm + " 0}"
		case 3:
			tpl = "{sumi 100 " + tm + " {1}}"
		case 4:
			tpl = "{timeformat " + tm + " RFC3339}"
		case 5:
			tpl = "{tab {1} " + tm + "}"
		case 6:
			tpl = "{coalesce {nokey} " + tm + "}"
		case 7:
			tpl = "{if 1 " + tm + " never}"
		case 8:
			tpl = `{@map {@ a b} "{0}` + strings.ReplaceAll(tm, `"`, "") + `"}`
		case 9:
			tpl = "{mylive x}"
		case 10:
			tpl = "{mydelta {1}}"
		case 11:
			tpl = "{plus 5} and {plus {2}}"
		case 12:
			tpl = "{via q}"
		case 13:
			tpl = "{upper {format %s-%s k " + tm + "}}"
		case 14:
			tpl = "{multi {sumi 1 1} 3}:" + tm + ":{multi 2 2}"
		default:
			tpl = "{@join {@ {multi 2 3} " + tm + "} -}"
		}
		c.Templates = append(c.Templates, pbt.S(tpl))
	}
	g.cliSafe = true
	c.Ctx = g.context()
	for len(c.Ctx.G) < 3 {
		c.Ctx.G = append(c.Ctx.G, "4")
	}
	c.Ctx.G[1], c.Ctx.G[2] = "5", "7" // {sumi 100 {time live} {1}} and {plus {2}} add numbers
	return c
}

type countingCtx struct {
	inner    expressions.KeyBuilderContext
	accesses int
}

func (s *countingCtx) GetMatch(i int) string  { s.accesses++; return s.inner.GetMatch(i) }
func (s *countingCtx) GetKey(k string) string { s.accesses++; return s.inner.GetKey(k) }

func checkLive(c LiveCase) error {
	reset(Switches{Humanize: true, Unicode: true})
	defer reset(Switches{})
	cmplr := funclib.NewKeyBuilder()
	funcs, lerr := funcfile.LoadDefinitions(cmplr, strings.NewReader(string(c.Funcs)), "live.funcs")
	if lerr != nil {
		return fmt.Errorf("funcs file did not load: %v\n%s", lerr, q(string(c.Funcs)))
	}
	funclib.AddFunctions(funcs)
	type pair struct {
		opt, plain *expressions.CompiledKeyBuilder
	}
	var ks []pair
	for _, tpl := range c.Templates {
		o, oerr := funclib.NewKeyBuilderEx(true).Compile(string(tpl))
		p, perr := funclib.NewKeyBuilderEx(false).Compile(string(tpl))
		if oerr != nil || perr != nil {
			return fmt.Errorf("template %s does not compile: optimised %v, plain %v", q(string(tpl)), errText(oerr), errText(perr))
		}
		ks = append(ks, pair{o, p})
	}
	// {time delta} counts the seconds since the expression was compiled. The
	// two builders below are compiled within the same millisecond, so -
	// whenever they are first evaluated - their values may differ by the one
	// second boundary that can fall between the two compilations, not more.
	// (The optimiser evaluates the stage once while compiling; the plain
	// builder does not: a clock that starts "on first use" starts at
	// different moments in the two.)
	dOpt, e1 := funclib.NewKeyBuilderEx(true).Compile("{time delta}")
	dPlain, e2 := funclib.NewKeyBuilderEx(false).Compile("{time delta}")
	if e1 != nil || e2 != nil {
		return fmt.Errorf("{time delta} does not compile: optimised %v, plain %v", errText(e1), errText(e2))
	}
	time.Sleep(2100 * time.Millisecond)
	dov, dpv := dOpt.BuildKey(c.Ctx.kb(nil)), dPlain.BuildKey(c.Ctx.kb(nil))
	on, oerr := strconv.Atoi(dov)
	pn, perr := strconv.Atoi(dpv)
	if oerr != nil || perr != nil {
		return fmt.Errorf("{time delta} evaluated 2.1 s after compilation is not a number: optimised %s, plain %s", q(dov), q(dpv))
	}
	if on-pn > 1 || pn-on > 1 || on < 1 || pn < 1 {
		return fmt.Errorf("{time delta}, both builders compiled at the same moment and first evaluated 2.1 s later: optimised %d, non-optimised %d (seconds since compilation: 2 or 3)", on, pn)
	}
	c.Obs.Label(true, "delta-origin-compared")
	eval := func() (ov, pv []string, touched []int) {
		for _, k := range ks {
			cc := &countingCtx{inner: c.Ctx.kb(nil)}
			ov = append(ov, k.opt.BuildKey(cc))
			touched = append(touched, cc.accesses)
			pv = append(pv, k.plain.BuildKey(c.Ctx.kb(nil)))
		}
		return
	}
	o1, p1, touched := eval()
	mark := time.Now().Unix()
	// let the wall clock pass into a later second (at most ~1 s)
	for time.Now().Unix() <= mark {
		time.Sleep(15 * time.Millisecond)
	}
	o2, p2, _ := eval()
	for i, tpl := range c.Templates {
		if p1[i] == p2[i] {
			// the non-optimised builder is the reference here: if it does not
			// move either, this template says nothing (never seen)
			c.Obs.Label(true, "reference-did-not-move")
			continue
		}
		if o1[i] == o2[i] {
			return fmt.Errorf("a clock value was frozen by the optimiser: evaluated in two different seconds the optimised template gave the same text, the non-optimised one did not\n template:  %s\n optimised: %s then %s\n plain:     %s then %s", q(string(tpl)), q(o1[i]), q(o2[i]), q(p1[i]), q(p2[i]))
		}
		c.Obs.Label(touched[i] > 0, "optimised-evaluation-touches-context")
		c.Obs.Label(touched[i] == 0, "optimised-evaluation-without-context-access")
		c.Obs.Add("moving", 1)
	}
	return nil
}

var liveSpec = pbt.Spec[LiveCase]{
	Property: "C10", Name: "live",
	Rule:   "6..14 templates per case around {time live} / {time delta} (keyword spelled in any case, quoted, or computed from constants; extra format/tz arguments; bare, inside literal text, as argument of sumi/timeformat/tab/coalesce/if/format/@join, inside an @map sub-expression, inside user functions of a funcs file incl. one calling another); oracle: evaluated in two different wall-clock seconds the optimised builder's text changes whenever the non-optimised builder's does (purely behavioural; whether the context is touched is only labelled); {time delta} compiled by both builders at one moment and first evaluated 2.1 s later agrees within one second. Non-trivial: every case (>=6 moving templates)",
	Budget: pbt.Budget{Quick: 32, Thorough: 480},
	Gen:    genLive, Check: checkLive,
	Classify: func(c LiveCase) (bool, []string) {
		return c.Obs.Get("moving") >= 6, c.Obs.All()
	},
}

func TestLive(t *testing.T) { pbt.Run(t, liveSpec) }

// ---------------------------------------------------------------- (b) funcs files

type FuncsCase struct {
	Files  []pbt.S  // the funcs files in generated layout, in loading order (--funcs f1 --funcs f2 ..)
	Flats  []pbt.S  // the same definitions file by file, one per line, no comments, no continuations
	Names  []string // the distinct names they define, by first appearance
	Call   pbt.S    // template calling the user functions
	Inline pbt.S    // the same tree with every call replaced by the substituted body (see Opaque)
	// Opaque: number of calls left in place in Inline: calls of a name that is
	// defined more than once, which the reference never expands (see visible)
	Opaque int
	Ctxs   []Ctx
	Sw     Switches
	Cli    bool // also through the rare binary (first context)
	Env    bool // .. naming the files in RARE_FUNC_FILES instead of --funcs
	// from the generator, for labels and the non-trivial rule
	Continuations, CommentsInside, BlanksInside int
	TopBreaks, BreakAfterBackslash              int
	MaxArgUses                                  int
	MaxLine, MaxFlatLine                        int // longest physical line (bytes): layout files, flat files
	CallsEarlier                                bool
	Labels                                      []string
	Obs                                         *pbt.Obs `json:"-"`
}

func flatFile(defs []*Def) string {
	var sb strings.Builder
	for _, d := range defs {
		sb.WriteString(d.Pub + " " + printTemplate(d.Body, oneSpace, nil) + "\n")
	}
	return sb.String()
}

func hasUserCall(pieces []*Node, dm map[string]*Def) (any, nested, inLam bool) {
	var visit func(n *Node, inUser, lamb bool)
	visit = func(n *Node, inUser, lamb bool) {
		isUser := false
		if n.K == kCall {
			if _, ok := dm[n.S]; ok {
				isUser = true
				any = true
				if inUser {
					nested = true
				}
				if lamb {
					inLam = true
				}
			}
		}
		for _, a := range n.A {
			visit(a, inUser || isUser, lamb || n.K == kLam)
		}
	}
	for _, n := range pieces {
		visit(n, false, false)
	}
	return
}

// Known finding (proposed): a funcs-file function is compiled once, so the
// format-remembering time parser inside its body ({time x} without a format)
// keeps ONE remembered format for all call sites, where the body written
// inline has one per occurrence: {ts {0}} {ts {1}} with two date formats gives
// <PARSE-ERROR> for the second, {time {0}} {time {1}} parses both. While the
// entry is listed the class is left out by construction (and counted); when
// it is not listed the class is generated like any other.
const knownSharedTimeCache = "user-function-shares-time-format-cache"

func sharedTimeCacheWitness() error {
	reset(Switches{Humanize: true, Unicode: true})
	defer reset(Switches{})
	funcs, err := funcfile.LoadDefinitions(funclib.NewKeyBuilder(), strings.NewReader("ts {time {0}}\n"), "witness.funcs")
	if err != nil {
		return nil
	}
	funclib.AddFunctions(funcs)
	call, cerr := funclib.NewKeyBuilder().Compile("{ts {0}} {ts {1}}")
	inl, ierr := funclib.NewKeyBuilder().Compile("{time {0}} {time {1}}")
	if cerr != nil || ierr != nil {
		return nil
	}
	ctx := &expressions.KeyBuilderContextArray{Elements: []string{"2020-01-05 10:11:12", "14/Apr/2016:19:12:25 +0200"}}
	if a, b := call.BuildKey(ctx), inl.BuildKey(ctx); a != b {
		return fmt.Errorf("{ts {0}} {ts {1}} = %q, inline {time {0}} {time {1}} = %q", a, b)
	}
	return nil
}

// buildFuncs: statelessOnly keeps the format-remembering time parser away
// from dynamic input in bodies and call sites (always for the concurrent
// sub-property: which date is seen first is then a matter of scheduling).
func buildFuncs(g *gctx, maxCtx int, cliPct int, statelessOnly bool) FuncsCase {
	c := FuncsCase{Obs: pbt.NewObs()}
	g.noCacheDyn = statelessOnly
	// bodies: well-formed constants and kind-correct nesting, so that the file loads
	g.good, g.typedOnly = true, true
	defs := g.definitions(5)
	callable := g.defs // what the calling template may name, see visible
	lay := &layout{g: g}
	nFiles := defs[len(defs)-1].File + 1
	for f := 0; f < nFiles; f++ {
		var sub []*Def
		for _, d := range defs {
			if d.File == f {
				sub = append(sub, d)
			}
		}
		c.Files = append(c.Files, pbt.S(lay.file(sub)))
		c.Flats = append(c.Flats, pbt.S(flatFile(sub)))
	}
	// physical lines: the longest line of the layout files and of the flat files
	maxLine := func(files []pbt.S) int {
		m := 0
		for _, f := range files {
			for _, ln := range strings.Split(string(f), "\n") {
				if len(ln) > m {
					m = len(ln)
				}
			}
		}
		return m
	}
	c.MaxLine, c.MaxFlatLine = maxLine(c.Files), maxLine(c.Flats)
	c.Continuations, c.CommentsInside, c.BlanksInside = lay.continuations, lay.commentsIn, lay.blankIn
	c.TopBreaks, c.BreakAfterBackslash = lay.topBreaks, lay.breakAfterBackslash
	// dm: every definition under its identity; a body may be bound to a
	// definition the calling template can no longer name
	dm := map[string]*Def{}
	filesOf := map[string]map[int]bool{}
	for _, d := range defs {
		if filesOf[d.Pub] == nil {
			filesOf[d.Pub] = map[int]bool{}
			c.Names = append(c.Names, d.Pub)
		} else if filesOf[d.Pub][d.File] {
			g.label("name-defined-again-in-the-same-file")
		} else {
			g.label("name-defined-again-in-a-later-file")
		}
		filesOf[d.Pub][d.File] = true
		dm[d.Name] = d
		mx, _, _, _ := argUses(d)
		if mx > c.MaxArgUses {
			c.MaxArgUses = mx
		}
	}
	g.label(fmt.Sprintf("funcs-files:%d", nFiles))
	c.CallsEarlier = g.labels["body-calls-earlier-definition"]
	// the calling template: anything goes at the call sites
	if nFiles >= 2 {
		cliPct *= 3
	}
	c.Cli = g.chance(cliPct, "cli")
	c.Env = g.chance(35, "filesFromEnvironment")
	g.cliSafe = c.Cli
	g.body = nil
	g.good = g.chance(75, "goodCallSite")
	g.typedOnly = false
	g.budget = g.n(1, 5, "budget")
	pieces := g.template(3, 2)
	if any, _, _ := hasUserCall(pieces, dm); !any {
		g.budget--
		pieces = append(pieces, g.callDef(g.callee(callable, false, "forcedCall"), 2, true))
	}
	inl := inlineAll(pieces, dm)
	if !printable(inl) {
		// the substituted body cannot be written at that nesting depth with the
		// printer's means (a blank inside a concatenated argument, a quoted
		// text inside a quoted text): fall back to one plain call
		pbt.Exclude("inlined-body-not-printable-at-call-depth")
		// the first definition has no user call in its body: its plain call is
		// always printable; when its name is defined again the name is opaque
		// at the call site and the call stays as it is
		var order []*Def
		for _, e := range callable {
			if !e.Opaque {
				order = append(order, e)
			}
		}
		for _, e := range callable {
			if e.Opaque {
				order = append(order, e)
			}
		}
		found := false
		for _, d := range order {
			cl := call(d.Name)
			for i := 0; i < len(d.Params) || i < 1; i++ {
				cl.A = append(cl.A, lit("7"))
			}
			pieces = []*Node{cl}
			inl = inlineAll(pieces, dm)
			if printable(inl) {
				found = true
				break
			}
		}
		if !found {
			panic("c10: no fallback call is printable: " + printTemplate(inl, oneSpace, nil))
		}
		g.label("fallback-call")
	}
	_, nested, inLam := hasUserCall(pieces, dm)
	if nested {
		g.label("user-call-inside-user-call-argument")
	}
	if inLam {
		g.label("user-call-inside-sub-expression")
	}
	// calls the reference leaves in place
	walk(inl, func(n *Node) {
		if n.K != kCall || !strings.HasSuffix(n.S, "#?") {
			return
		}
		c.Opaque++
		pbt.Exclude("call-of-a-name-defined-more-than-once:never-expanded(first-or-last-definition-wins-is-undocumented)")
		if n.InBody {
			// the class the registration order shows in: the body was bound in
			// the loader, the same call written inline is bound at the call site
			g.label("multiply-defined-name-called-from-an-expanded-body")
			if len(filesOf[writtenName(n.S)]) >= 2 {
				g.label("multiply-defined-name-called-from-an-expanded-body:definitions-in-different-files")
			}
		} else {
			g.label("multiply-defined-name-called-by-the-template-itself")
		}
	})
	if any, _, _ := hasUserCall(pieces, dm); !any {
		g.label("no-expandable-call")
	}
	c.Call = pbt.S(printTemplate(pieces, g.sepFn(), g.padFn()))
	c.Inline = pbt.S(printTemplate(inl, oneSpace, nil))
	c.Ctxs = g.contexts(maxCtx)
	c.Sw = g.switches()
	c.Labels = sortedLabels(g.labels)
	return c
}

func genFuncs(t *rapid.T) FuncsCase {
	g := &gctx{t: t, labels: map[string]bool{}}
	pct := 2
	if os.Getenv("VERIF_RARE_BIN") == "" {
		pct = 0
	}
	return buildFuncs(g, 6, pct, pbt.IsKnown("C10", knownSharedTimeCache))
}

// showFiles prints the funcs files of a case for a message.
func showFiles(files []pbt.S) string {
	var sb strings.Builder
	for i, f := range files {
		if i > 0 {
			sb.WriteByte('\n')
		}
		fmt.Fprintf(&sb, " funcs file %d of %d:\n%s", i+1, len(files), indent(string(f)))
	}
	return sb.String()
}

// registration is what loading a sequence of funcs files leaves behind, and
// the calling template / the inlined template compiled against it.
type registration struct {
	perFile string // names every file defined: "a b | c"
	err     error  // first load error
	table   string // names in the shared table afterwards

	callO, callP, inlO, inlP     *expressions.CompiledKeyBuilder
	callOE, callPE, inlOE, inlPE *expressions.CompilerErrors
}

// register loads the files in order the way main.go's Before hook does: ONE
// compiler (created from the shared table before the first file) compiles all
// of them, each file's result goes into the shared table through
// funclib.TryAddFunctions before the next file is read; the templates are then
// compiled by fresh builders of funclib, as every command does.
func register(files []pbt.S, tag, call, inline string) *registration {
	for k := range funclib.Additional {
		delete(funclib.Additional, k)
	}
	r := &registration{}
	cmplr := funclib.NewKeyBuilder()
	var per []string
	for i, f := range files {
		funcs, err := funcfile.LoadDefinitions(cmplr, strings.NewReader(withTable(f)), fmt.Sprintf("%s-%d.funcs", tag, i+1))
		if err != nil && r.err == nil {
			r.err = err
		}
		per = append(per, strings.Join(pbt.SortedKeys(funcs), " "))
		funclib.TryAddFunctions(funcs, nil)
	}
	r.perFile = strings.Join(per, " | ")
	r.table = strings.Join(pbt.SortedKeys(funclib.Additional), " ")
	r.callO, r.callOE = funclib.NewKeyBuilderEx(true).Compile(call)
	r.callP, r.callPE = funclib.NewKeyBuilderEx(false).Compile(call)
	r.inlO, r.inlOE = funclib.NewKeyBuilderEx(true).Compile(inline)
	r.inlP, r.inlPE = funclib.NewKeyBuilderEx(false).Compile(inline)
	return r
}

func indent(s string) string {
	return "   | " + strings.ReplaceAll(pbt.Trunc(s, 1500), "\n", "\n   | ")
}

type funcsCompiled struct {
	exprs  []compiled // every way of evaluating the call
	inline *expressions.CompiledKeyBuilder
}

// compileFuncs loads the one-definition-per-line files and the generated
// layout (the latter stays registered) and compiles the call and the inlined
// template against each. nil, nil: nothing to compare (counted).
func compileFuncs(c FuncsCase) (fc *funcsCompiled, err error) {
	call, inlineT := withTable(c.Call), withTable(c.Inline)
	flat := register(c.Flats, "flat", call, inlineT)
	fancy := register(c.Files, "layout", call, inlineT)
	if fancy.perFile != flat.perFile || (fancy.err != nil) != (flat.err != nil) {
		return nil, fmt.Errorf("comments / blank lines / continuations changed what the funcs files define\n%s\n define [%s] (error: %v)\n one definition per line:\n%s\n define [%s] (error: %v)", showFiles(c.Files), fancy.perFile, fancy.err, showFiles(c.Flats), flat.perFile, flat.err)
	}
	want := append([]string(nil), c.Names...)
	sort.Strings(want)
	if flat.err != nil {
		c.Obs.Label(true, "a-body-does-not-compile")
		pbt.Exclude("funcs-file-with-a-body-that-does-not-compile")
		return nil, nil
	}
	for _, r := range []*registration{flat, fancy} {
		if r.table != strings.Join(want, " ") {
			return nil, fmt.Errorf("after loading without an error the shared function table holds [%s], the files define [%s]\n%s", r.table, strings.Join(want, " "), showFiles(c.Files))
		}
	}
	describe := func() string {
		return fmt.Sprintf("%s\n call:   %s\n inline: %s", showFiles(c.Files), q(call), q(inlineT))
	}
	callErrs := []*expressions.CompilerErrors{flat.callOE, flat.callPE, fancy.callOE, fancy.callPE}
	for _, e := range callErrs {
		if (e != nil) != (callErrs[0] != nil) {
			return nil, fmt.Errorf("the call compiles in one configuration and not in another (flat/opt %v, flat/plain %v, layout/opt %v, layout/plain %v)\n%s", errText(callErrs[0]), errText(callErrs[1]), errText(callErrs[2]), errText(callErrs[3]), describe())
		}
	}
	inlErrs := []*expressions.CompilerErrors{flat.inlOE, flat.inlPE, fancy.inlOE, fancy.inlPE}
	var std *expressions.CompiledKeyBuilder
	if c.Opaque == 0 {
		// nothing left in place: the inlined template needs no user function at all
		var serr *expressions.CompilerErrors
		std, serr = stdlib.NewStdKeyBuilderEx(true).Compile(inlineT)
		inlErrs = append(inlErrs, serr)
	}
	for _, e := range inlErrs {
		if (e != nil) != (inlErrs[0] != nil) {
			return nil, fmt.Errorf("the builders disagree about whether the inlined template compiles: flat/opt %v, flat/plain %v, layout/opt %v, layout/plain %v, without user functions %v\n%s", errText(inlErrs[0]), errText(inlErrs[1]), errText(inlErrs[2]), errText(inlErrs[3]), errText(inlErrs[len(inlErrs)-1]), describe())
		}
	}
	if inlErrs[0] != nil {
		// a constant argument that is rejected at compile time once it stands
		// in the body's typed position: the call defers that to run time
		// (<BAD-TYPE>); which of the two is "the same" is not documented
		c.Obs.Label(true, "inline-has-compile-error")
		pbt.Exclude("inlined-template-has-a-compile-time-error")
		return nil, nil
	}
	if foErr := callErrs[0]; foErr != nil {
		// the reverse: an argument the body never reads (or an extra one) is
		// itself an invalid expression, e.g. {sumi {f x} 1} with {f x} constant
		// text: compiled at the call site, absent from the inlined body. Not a
		// verdict - unless the error is one a well-formed call cannot have.
		for _, bad := range []error{expressions.ErrorMissingFunction, expressions.ErrorUnterminated, expressions.ErrorEmptyStatement} {
			if errors.Is(foErr, bad) {
				return nil, fmt.Errorf("the call does not compile although the body written inline does: %v\n%s", errText(foErr), describe())
			}
		}
		c.Obs.Label(true, "call-argument-has-compile-error")
		pbt.Exclude("call-argument-with-a-compile-time-error")
		return nil, nil
	}
	fc = &funcsCompiled{
		exprs: []compiled{{"layout files, optimised", fancy.callO}, {"layout files, non-optimised", fancy.callP}, {"flat files, optimised", flat.callO}, {"flat files, non-optimised", flat.callP},
			{"inline, non-optimised", fancy.inlP}, {"inline, flat files registered", flat.inlO}},
		inline: fancy.inlO,
	}
	if std != nil {
		fc.exprs = append(fc.exprs, compiled{"inline, no user function registered", std})
	}
	return fc, nil
}

func checkFuncs(c FuncsCase) error {
	reset(c.Sw)
	defer reset(Switches{})
	fc, err := compileFuncs(c)
	if err != nil || fc == nil {
		return err
	}
	c.Obs.Label(true, "compiled")
	var first string
	for i, x := range c.Ctxs {
		want := fc.inline.BuildKey(x.kb(nil))
		if i == 0 {
			first = want
		}
		for _, e := range fc.exprs {
			got := e.kb.BuildKey(x.kb(nil))
			if got != want {
				return fmt.Errorf("a call of a user function differs from its body written inline (%s)\n%s\n call:   %s\n inline: %s\n context %d of %d: %s\n call gives:   %s\n inline gives: %s", e.name, showFiles(c.Files), q(withTable(c.Call)), q(withTable(c.Inline)), i+1, len(c.Ctxs), describeCtx(x), q(got), q(want))
			}
		}
		c.Obs.Label(x.empty(), "all-empty-context")
	}
	if c.Cli {
		if err := checkCli(c, first); err != nil {
			return err
		}
	}
	return nil
}

// checkCli: `rare --funcs f1 --funcs f2 .. expression ..` (or the same files
// in RARE_FUNC_FILES) with and without --no-optimize prints what the inlined
// template evaluates to in-process; when the inlined template still holds
// calls (of names defined more than once), it is given to the binary as well.
func checkCli(c FuncsCase, want string) error {
	bin := os.Getenv("VERIF_RARE_BIN")
	if bin == "" || len(c.Ctxs) == 0 {
		return nil
	}
	x := c.Ctxs[0]
	for _, v := range x.G {
		if !cliSafeValue(string(v)) {
			return nil
		}
	}
	for _, kv := range x.K {
		if !cliSafeValue(string(kv[1])) {
			return nil
		}
	}
	tpls := []string{withTable(c.Call)}
	if c.Opaque > 0 {
		tpls = append(tpls, withTable(c.Inline))
	}
	for _, tpl := range tpls {
		if tpl == "-" || tpl == "" || strings.ContainsRune(tpl, 0) {
			return nil
		}
	}
	var paths []string
	defer func() {
		for _, p := range paths {
			os.Remove(p)
		}
	}()
	for _, content := range c.Files {
		f, err := os.CreateTemp(scratchDir(), "c10-*.funcs")
		if err != nil {
			return nil
		}
		paths = append(paths, f.Name())
		f.WriteString(withTable(content))
		f.Close()
	}
	env := c.Env
	for _, p := range paths {
		if strings.ContainsAny(p, ", ") {
			env = false // a comma separates the list
		}
	}
	for ti, tpl := range tpls {
		for _, noOpt := range []bool{false, true} {
			var args []string
			if c.Sw.Color {
				args = append(args, "--color")
			} else {
				args = append(args, "--nocolor")
			}
			if !c.Sw.Humanize {
				args = append(args, "--noformat")
			}
			if !c.Sw.Unicode {
				args = append(args, "--nounicode")
			}
			funcEnv := "RARE_FUNC_FILES="
			if env {
				funcEnv += strings.Join(paths, ",")
			} else {
				for _, p := range paths {
					args = append(args, "--funcs", p)
				}
			}
			args = append(args, "expression", "--raw", "--skip-newline")
			if noOpt {
				args = append(args, "--no-optimize")
			}
			for _, v := range x.G {
				args = append(args, "--data="+string(v))
			}
			for _, kv := range x.K {
				args = append(args, "--key="+string(kv[0])+"="+string(kv[1]))
			}
			args = append(args, "--", tpl)
			cmd := exec.Command(bin, args...)
			var out, errb bytes.Buffer
			cmd.Stdout, cmd.Stderr = &out, &errb
			cmd.Env = append(os.Environ(), funcEnv)
			rerr := cmd.Run()
			what := "the call"
			if ti == 1 {
				what = "the body written inline (given to the binary with the same files)"
			}
			if rerr != nil {
				if _, isExit := rerr.(*exec.ExitError); !isExit {
					return nil // could not start the binary: not a verdict
				}
				return fmt.Errorf("rare --funcs .. expression failed (%v) on a template that compiles in-process: %s\n args: %q\n env: %s\n%s\n stderr: %s", rerr, what, args, funcEnv, showFiles(c.Files), pbt.Trunc(errb.String(), 600))
			}
			if out.String() != want {
				return fmt.Errorf("the rare binary prints another value for %s than the body written inline gives in-process (--no-optimize=%v)\n args: %q\n env: %s\n%s\n inline: %s\n binary prints: %s\n inline gives:  %s\n stderr: %s", what, noOpt, args, funcEnv, showFiles(c.Files), q(withTable(c.Inline)), q(out.String()), q(want), pbt.Trunc(errb.String(), 300))
			}
		}
	}
	c.Obs.Label(true, "through-the-rare-binary")
	c.Obs.Label(len(paths) >= 2 && !env, "binary:--funcs-given-more-than-once")
	c.Obs.Label(len(paths) >= 2 && env, "binary:comma-separated-RARE_FUNC_FILES")
	c.Obs.Label(c.Opaque > 0, "binary:inline-with-calls-left-in-place")
	return nil
}

func classifyFuncs(c FuncsCase) (bool, []string) {
	l := append([]string(nil), c.Labels...)
	l = append(l, c.Obs.All()...)
	add := func(cond bool, s string) {
		if cond {
			l = append(l, s)
		}
	}
	add(c.Continuations > 0, "continuation")
	add(c.Continuations >= 3, "continuations>=3")
	add(c.CommentsInside > 0, "comment-line-inside-continuation")
	add(c.BlanksInside > 0, "blank-line-inside-continuation")
	add(c.TopBreaks > 0, "line-broken-between-top-level-pieces")
	add(c.BreakAfterBackslash > 0, "continuation-right-after-escaped-backslash")
	add(c.MaxLine > 4096, "physical-line>4096")
	add(c.MaxFlatLine > 4096, "physical-line>4096:one-definition-per-line-files")
	add(c.MaxLine > 4096 && c.Continuations > 0, "physical-line>4096:file-also-has-continuations")
	add(c.MaxLine > 16384, "physical-line>16384")
	add(c.MaxLine > 32768, "physical-line>32768")
	add(c.MaxLine > 60000 || c.MaxFlatLine > 60000, "physical-line>60000(generator-bound-exceeded)")
	add(c.MaxArgUses >= 2, "argument-used-twice")
	add(c.CallsEarlier, "calls-earlier-definition")
	add(len(c.Names) >= 3, "definitions>=3")
	add(c.Opaque > 0, "inline-keeps-calls-of-multiply-defined-names")
	l = append(l, fmt.Sprintf("contexts:%d", len(c.Ctxs)))
	nt := (c.MaxArgUses >= 2 || c.CallsEarlier) && c.Continuations > 0 && c.Obs.Has("compiled")
	return nt, l
}

var funcsSpec = pbt.Spec[FuncsCase]{
	Property: "C10", Name: "funcs",
	Rule:   "1..5 generated definitions (typed bodies over all helpers; parameters {0}..{2}, named keys, literal text, calls of earlier definitions) spread over 1..3 funcs files loaded in order, a definition may reuse the name of an earlier one (same file or a later file), written in a random layout (# comment lines and trailing comments, blank lines, bodies broken with trailing backslashes at argument boundaries and after the name, blank/comment lines between continuation lines, with/without final newline) x a template calling them with k-1..k+1 arguments (constants, groups, keys, nested helper and user calls, inside sub-expressions) x 1..6 contexts; loaded the way main.go does (one compiler for all files, each file registered through funclib.TryAddFunctions before the next is read); oracle: the layout defines file by file what the one-line-per-definition files define; the call (layout and flat files, optimised and not) equals the body substituted on the tree and printed inline, for every context. Binding of the reference: a call is bound to THE definition of its name that stands before it when there is exactly one (later definitions do not reach back; a redefinition calling its own name means the one it replaces); a call of a name with >=2 earlier definitions is never expanded (first-or-last-wins is undocumented) but left in place in the inlined template, which is compiled against the same registered files - so a later body calling such a name must still equal that body written inline; 2% (6% with >=2 files) of the cases also through `rare --funcs f1 --funcs f2 expression [--no-optimize] --data .. --key ..` or RARE_FUNC_FILES=f1,f2 (call, and the inlined template when calls are left in place). Non-trivial: some body uses an argument >=2 times or calls an earlier definition, the files have >=1 continuation, everything compiles; distinct by case JSON",
	Budget: pbt.Budget{Quick: 60000, Thorough: 240000},
	Gen:    genFuncs, Check: checkFuncs, Classify: classifyFuncs,
}

func TestFuncs(t *testing.T) {
	if os.Getenv("VERIF_REPLAY") == "" {
		pbt.ReportKnown("C10", knownSharedTimeCache, sharedTimeCacheWitness)
	}
	pbt.Run(t, funcsSpec)
}

// ---------------------------------------------------------------- (c) concurrent evaluation

type ConcOptCase struct {
	OptCase
	W, Reps int
}

type ConcFuncsCase struct {
	FuncsCase
	W, Reps int
}

// hammer evaluates every expression on every context from w goroutines that
// start together, each walking the (expression, context) pairs from another
// offset so that different contexts are in flight at the same time.
func hammer(exprs []compiled, ctxs []Ctx, hoist [][]pbt.S, want []string, w, reps int) error {
	start := make(chan struct{})
	errs := make([]error, w)
	var wg sync.WaitGroup
	for gi := 0; gi < w; gi++ {
		wg.Add(1)
		go func(gi int) {
			defer wg.Done()
			defer func() {
				if r := recover(); r != nil {
					errs[gi] = fmt.Errorf("panic in concurrent evaluation: %v", r)
				}
			}()
			// own context objects, as every match has in rare
			own := make([][]*expressions.KeyBuilderContextArray, len(exprs))
			for e := range exprs {
				for _, x := range ctxs {
					own[e] = append(own[e], x.kb(hoist[e]))
				}
			}
			<-start
			for r := 0; r < reps; r++ {
				for j := range ctxs {
					i := (j + gi + r) % len(ctxs)
					for e := range exprs {
						ei := (e + gi) % len(exprs)
						got := exprs[ei].kb.BuildKey(own[ei][i])
						if got != want[i] {
							errs[gi] = fmt.Errorf("%d goroutines sharing compiled expressions: %s evaluated to another value than sequentially\n context %d: %s\n concurrent: %s\n sequential: %s", w, exprs[ei].name, i+1, describeCtx(ctxs[i]), q(got), q(want[i]))
							return
						}
					}
				}
			}
		}(gi)
	}
	close(start)
	wg.Wait()
	for _, e := range errs {
		if e != nil {
			return e
		}
	}
	return nil
}

func genWorkers(g *gctx) (w, reps int) {
	w = g.n(1, 8, "workers")
	if g.chance(40, "manyWorkers") {
		w = g.n(4, 8, "workersMany")
	}
	reps = g.n(4, 24, "reps")
	return
}

func genConcOpt(t *rapid.T) ConcOptCase {
	// the format-remembering time parser is left out: which date it sees
	// first is a matter of scheduling (documented: "first seen date")
	g := &gctx{t: t, labels: map[string]bool{}, noCacheDyn: true}
	c := ConcOptCase{OptCase: buildOpt(g, 5)}
	c.W, c.Reps = genWorkers(g)
	return c
}

func checkConcOpt(c ConcOptCase) error {
	reset(c.Sw)
	opt, plain, hoisted, ok, err := compileOpt(c.OptCase)
	if err != nil || !ok {
		return err
	}
	c.Obs.Label(true, "compiled")
	exprs := []compiled{{"the optimised template", opt}, {"the non-optimised template", plain}}
	hv := [][]pbt.S{nil, nil}
	if hoisted != nil {
		exprs = append(exprs, compiled{"the template reading its constants from the match", hoisted})
		hv = append(hv, c.HoistVals)
	}
	want := make([]string, len(c.Ctxs))
	for i, x := range c.Ctxs {
		want[i] = plain.BuildKey(x.kb(nil))
		for e := range exprs {
			if got := exprs[e].kb.BuildKey(x.kb(hv[e])); got != want[i] {
				return fmt.Errorf("sequential evaluation already differs (%s)\n template: %s\n context %d: %s\n got:  %s\n want: %s", exprs[e].name, q(withTable(c.Template)), i+1, describeCtx(x), q(got), q(want[i]))
			}
		}
	}
	if err := hammer(exprs, c.Ctxs, hv, want, c.W, c.Reps); err != nil {
		return fmt.Errorf("%v\n template: %s", err, q(withTable(c.Template)))
	}
	return nil
}

func classifyConc(w int, ctxs []Ctx, inner bool, labels []string) (bool, []string) {
	l := append([]string(nil), labels...)
	l = append(l, fmt.Sprintf("goroutines:%d", w))
	return inner && w >= 2 && len(ctxs) >= 2, l
}

var concOptSpec = pbt.Spec[ConcOptCase]{
	Property: "C10", Name: "concurrent-optimise",
	Rule:   "cases of `optimise` (without the format-remembering time parser on dynamic input) whose optimised, non-optimised and hoisted compiled expressions are shared by W=1..8 goroutines that start together and evaluate every context 4..24 times from different offsets (own context objects per goroutine); oracle: every result equals the sequential non-optimised one. Non-trivial: non-trivial as in `optimise`, W>=2, >=2 contexts. Built with -race in the thorough tier",
	Budget: pbt.Budget{Quick: 24000, Thorough: 160000},
	Gen:    genConcOpt, Check: checkConcOpt,
	Classify: func(c ConcOptCase) (bool, []string) {
		nt, l := classifyOpt(c.OptCase)
		return classifyConc(c.W, c.Ctxs, nt, l)
	},
}

func TestConcurrentOptimise(t *testing.T) { pbt.Run(t, concOptSpec) }

func genConcFuncs(t *rapid.T) ConcFuncsCase {
	g := &gctx{t: t, labels: map[string]bool{}}
	c := ConcFuncsCase{FuncsCase: buildFuncs(g, 5, 0, true)}
	c.W, c.Reps = genWorkers(g)
	for _, l := range c.Labels {
		if strings.HasPrefix(l, "physical-line>4096") {
			// bodies of tens of kilobytes: a few evaluations are enough (the cost of one is that of formatting
			// the whole body), and keep a case far from the driver's watchdog on a loaded machine
			if c.W > 2 {
				c.W = 2
			}
			c.Reps = 2
			break
		}
	}
	return c
}

func checkConcFuncs(c ConcFuncsCase) error {
	if os.Getenv("C10_SHOW_SLOW") != "" {
		t0 := time.Now()
		defer func() {
			if d := time.Since(t0); d > time.Second {
				n := 0
				for _, f := range c.Files {
					n += len(f)
				}
				fmt.Printf("C10-SLOW %v W=%d reps=%d ctxs=%d files=%dB call=%dB inline=%dB labels=%v\n", d, c.W, c.Reps, len(c.Ctxs), n, len(c.Call), len(c.Inline), c.Labels)
			}
		}()
	}
	reset(c.Sw)
	defer reset(Switches{})
	fc, err := compileFuncs(c.FuncsCase)
	if err != nil || fc == nil {
		return err
	}
	c.Obs.Label(true, "compiled")
	want := make([]string, len(c.Ctxs))
	for i, x := range c.Ctxs {
		want[i] = fc.inline.BuildKey(x.kb(nil))
	}
	exprs := append([]compiled{{"the inlined template", fc.inline}}, fc.exprs...)
	seqStart := time.Now()
	for i, x := range c.Ctxs {
		for _, e := range exprs {
			if got := e.kb.BuildKey(x.kb(nil)); got != want[i] {
				return fmt.Errorf("sequential evaluation already differs (%s)\n%s\n call:   %s\n inline: %s\n context %d: %s\n got:  %s\n want: %s", e.name, showFiles(c.Files), q(withTable(c.Call)), q(withTable(c.Inline)), i+1, describeCtx(x), q(got), q(want[i]))
			}
		}
	}
	if time.Since(seqStart) > 150*time.Millisecond {
		// an honest but expensive template (nested helpers that multiply their output): W x reps repetitions of
		// it would take minutes; the sequential comparison above has been made, the concurrent one is left out
		// (this prunes the domain, it never decides anything)
		pbt.Exclude("concurrent-funcs:one-sequential-pass-takes>150ms")
		return nil
	}
	if err := hammer(exprs, c.Ctxs, make([][]pbt.S, len(exprs)), want, c.W, c.Reps); err != nil {
		return fmt.Errorf("%v\n%s\n call:   %s\n inline: %s", err, showFiles(c.Files), q(withTable(c.Call)), q(withTable(c.Inline)))
	}
	return nil
}

var concFuncsSpec = pbt.Spec[ConcFuncsCase]{
	Property: "C10", Name: "concurrent-funcs",
	Rule:   "cases of `funcs` whose compiled calls (layout/flat file x optimised/not) and inlined templates are shared by W=1..8 goroutines that start together and evaluate every context 4..24 times from different offsets, so that calls of one user function with different matches are in flight at the same time; oracle: every result equals the sequential value of the inlined template. Non-trivial: as in `funcs`, W>=2, >=2 contexts. Built with -race in the thorough tier",
	Budget: pbt.Budget{Quick: 14000, Thorough: 100000},
	Gen:    genConcFuncs, Check: checkConcFuncs,
	Classify: func(c ConcFuncsCase) (bool, []string) {
		nt, l := classifyFuncs(c.FuncsCase)
		return classifyConc(c.W, c.Ctxs, nt, l)
	},
}

func TestConcurrentFuncs(t *testing.T) { pbt.Run(t, concFuncsSpec) }
