// rapid generators for C10: typed expression trees over the whole helper
// table, user-function definitions, funcs-file layout, match contexts.
package c10

import (
	"fmt"
	"math/bits"
	"sort"
	"strconv"
	"strings"
	"unicode/utf8"

	"pgregory.net/rapid"
	"verifharness/pbt"
)

type gctx struct {
	t      *rapid.T
	defs   []*Def // user functions that may be called
	body   *Def   // non-nil while a function body is generated
	lam    int    // 0: not in a sub-expression; 1/2: number of element refs; -1: @for (no keys)
	quoted bool   // inside a quoted sub-expression: nothing that needs quotes
	// noCacheDyn: keep the format-caching time parser away from dynamic input
	// (funcs and concurrent cases, see the exclusions in c10_test.go)
	noCacheDyn bool
	misuse     bool // allow a dynamic value at a compile-time literal position now and then
	good       bool // constants only from the well-formed pools (bodies of user functions must load)
	typedOnly  bool // nested calls always return the kind the position expects
	cliSafe    bool // context values that survive argv and urfave's comma splitting
	budget     int  // remaining calls
	labels     map[string]bool
}

// n draws uniformly from lo..hi. rapid.IntRange favours small magnitudes (a
// geometric bit-length: 0 and 1 together get ~20% of 0..99), which would make
// every "chance" fire far too often and starve the helpers at the end of the
// table; fair bits (rapid.Bool) with rejection give a uniform draw and still
// shrink towards lo.
func (g *gctx) n(lo, hi int, label string) int {
	span := hi - lo + 1
	if span <= 1 {
		return lo
	}
	nb := bits.Len(uint(span - 1))
	v := 0
	for try := 0; try < 6; try++ {
		v = 0
		for b := nb - 1; b >= 0; b-- {
			if fairBit.Draw(g.t, label) {
				v |= 1 << b
			}
		}
		if v < span {
			return lo + v
		}
	}
	return lo + v%span
}

var fairBit = rapid.Bool()

func (g *gctx) chance(pct int, label string) bool {
	return g.n(0, 99, label) < pct
}
func (g *gctx) pick(l []string, label string) string {
	return l[g.n(0, len(l)-1, label)]
}
func (g *gctx) label(s string) {
	if g.labels != nil {
		g.labels[s] = true
	}
}

// constant of a kind. Inside a quoted sub-expression nothing that needs quotes.
func (g *gctx) constant(k kind) *Node {
	pool := pools[k]
	if g.good && goodPools[k] != nil {
		pool = goodPools[k]
	}
	if len(pool) == 0 {
		pool = pools[kAny]
	}
	s := g.pick(pool, "const")
	if g.quoted && (s == "" || hasBlank(s)) {
		s = "q"
	}
	n := lit(s)
	if k.isConst() {
		n.NoHoist = true
	}
	return n
}

// dynamic reference of a kind.
func (g *gctx) dynamic(k kind, noArg bool) *Node {
	// inside a sub-expression numeric groups are the elements
	if g.lam != 0 && k == kSmall {
		// an element may be any number: keep it away from size-controlling positions
		if g.lam < 0 {
			return g.constant(kSmall)
		}
		return key("s")
	}
	if g.lam != 0 {
		nEl := g.lam
		if nEl < 0 {
			nEl = 2
		}
		if g.lam == 1 && g.chance(8, "unboundElem") {
			// {1} in an @map / @filter sub-expression: not bound to anything
			// there; whatever it reads, it reads the same with and without
			// the optimiser (not what an earlier @reduce / @for left behind
			// in a recycled sub-context)
			g.label("unbound-{1}-in-sub-expression")
			return elem(1)
		}
		if g.lam < 0 || g.chance(75, "elem") {
			return elem(g.n(0, nEl-1, "elemIdx"))
		}
		// named keys pass through to the match (not inside @for: DESIGN §5.1 #4)
		return key(g.keyFor(k))
	}
	if g.body != nil && !noArg {
		// parameters of the matching kind
		var cand []int
		for i, pk := range g.body.Params {
			if pk == k || (k == kAny && pk != kSmall) || (k == kInt && pk == kSmall) {
				cand = append(cand, i)
			}
		}
		if len(cand) > 0 && g.chance(70, "useArg") {
			a := argn(cand[g.n(0, len(cand)-1, "argIdx")])
			if g.chance(20, "argSpelling") {
				a.Sp = g.n(1, 4, "argSp")
				g.label("argument-reference-in-another-spelling")
			}
			return a
		}
		if k == kSmall {
			return key("s")
		}
		return key(g.keyFor(k)) // named keys resolve in the caller's match
	}
	if g.body != nil {
		if k == kSmall {
			return key("s")
		}
		return key(g.keyFor(k))
	}
	if k == kSmall {
		if g.chance(50, "smallKey") {
			return key("s")
		}
		return grp(slotGroup[kSmall])
	}
	if g.chance(50, "grpOrKey") {
		return grp(g.groupFor(k))
	}
	return key(g.keyFor(k))
}

func (g *gctx) groupFor(k kind) int {
	if g.chance(15, "anySlot") {
		i := g.n(0, nGroups+1, "slot") // includes two indexes no match has
		if i == slotGroup[kArr] || i == slotGroup[kJSON] {
			return i
		}
		return i
	}
	if s, ok := slotGroup[k]; ok {
		return s
	}
	return slotGroup[kWord]
}

func (g *gctx) keyFor(k kind) string {
	if g.chance(12, "anyKey") {
		if g.chance(30, "missingKey") {
			return missingKey
		}
		return keyNames[g.n(0, len(keyNames)-1, "keyIdx")]
	}
	if s, ok := slotKey[k]; ok {
		return s
	}
	return "w"
}

// value generates one argument of the kind.
func (g *gctx) value(k kind, depth int) *Node {
	switch k {
	case cFormula:
		return g.formula()
	case cLam1:
		return g.lambda(1)
	case cLam2:
		return g.lambda(2)
	case cLamForCond, cLamForIncr:
		panic("handled by forCall")
	case cPathLoad:
		return clit("@TABLE@")
	case cInArr:
		if g.quoted || g.chance(30, "inWord") {
			return clit(g.pick(pools[kWord], "inw"))
		}
		n := g.n(1, 3, "inN")
		c := call("@")
		for i := 0; i < n; i++ {
			c.A = append(c.A, clit(g.pick(pools[kWord], "inw")))
		}
		c.NoHoist = true
		return c
	case cTable:
		if !g.quoted && g.chance(40, "loadTable") {
			g.label("fn:load")
			c := call("load", clit("@TABLE@"))
			c.NoHoist = true
			return c
		}
		if g.quoted {
			return clit("k")
		}
		return g.constant(k)
	case kNonZero:
		// divisor / increment: mostly a non-zero constant; a zero or a value of
		// the match gives the documented <VALUE> / <BAD-TYPE> markers
		if g.good || g.chance(75, "nzConst") {
			return lit(g.pick(pools[kNonZero], "nz")) // constant, hoistable
		}
		if g.chance(30, "nzZero") {
			g.label("zero-divisor")
			return lit("0")
		}
		return g.dynamic(kInt, false)
	case kJSON:
		if g.lam != 0 {
			return elem(0)
		}
		if g.body != nil {
			return key("j")
		}
		if g.chance(50, "jsonGrp") {
			return grp(0)
		}
		return key("j")
	}
	if k.isConst() {
		if g.misuse && g.lam == 0 && g.body == nil && g.chance(4, "misuse") {
			g.label("dynamic-at-literal-position")
			return g.dynamic(kAny, true)
		}
		return g.constant(k)
	}
	// size-controlling: constants, the small slot, len/@len
	r := g.n(0, 99, "src")
	canCall := depth > 0 && g.budget > 0
	switch {
	case r < 40:
		return g.constant(k)
	case r < 72 || !canCall:
		return g.dynamic(k, false)
	case r < 92:
		return g.callOf(k, depth-1)
	default:
		if k == kSmall || g.quoted || (g.typedOnly && (k == kInt || k == kFloat || k == kUnix || k == kDur)) {
			return g.dynamic(k, false)
		}
		return g.concat(k, depth-1)
	}
}

// concat: one argument made of several pieces (blank-free literals, refs, calls).
func (g *gctx) concat(k kind, depth int) *Node {
	if k == kDate && g.chance(70, "dateCat") {
		// a date assembled from a literal part and a captured part
		g.label("concat-arg")
		switch g.n(0, 2, "dateCatShape") {
		case 0:
			return cat(lit("2020-01-"), g.dynamic(kSmall, true))
		case 1:
			return cat(lit("2021-"), g.dynamic(kSmall, true), lit("-15"))
		default:
			return cat(g.dynamic(kDate, true), lit("Z"))
		}
	}
	n := g.n(2, 3, "catN")
	c := cat()
	for i := 0; i < n; i++ {
		switch g.n(0, 2, "catPiece") {
		case 0:
			c.A = append(c.A, lit(g.pick([]string{"a", "-", "x1", ":", "20", "é", "2020-01-", "0"}, "catLit")))
		case 1:
			d := g.dynamic(k, true)
			c.A = append(c.A, d)
		default:
			if depth > 0 && g.budget > 0 {
				c.A = append(c.A, g.callOf(kAny, depth-1))
			} else {
				c.A = append(c.A, g.dynamic(k, true))
			}
		}
	}
	g.label("concat-arg")
	return c
}

// which helpers may not appear inside a sub-expression / quoted text
func needsQuotes(f *fnSpec) bool {
	switch f.name {
	case "@map", "@reduce", "@filter", "@for", "lookup", "haskey", "load":
		return true
	}
	return false
}

func (g *gctx) callOf(k kind, depth int) *Node {
	g.budget--
	// user functions
	// (never where the value controls output size: a body may multiply)
	// (in a body: only where any text will do, a user function has no kind)
	if len(g.defs) > 0 && k != kSmall && (!g.typedOnly || k == kAny || k == kWord || k == kBool) && g.chance(35, "userCall") {
		if c := g.userCall(depth, false); c != nil {
			return c
		}
	}
	var f *fnSpec
	cands := byRet[k]
	if len(cands) > 0 && (g.typedOnly || g.chance(65, "typedFn")) {
		f = cands[g.n(0, len(cands)-1, "fnIdx")]
	} else if g.typedOnly && k != kAny {
		f = tableByName["len"]
		if k != kSmall && k != kInt {
			f = tableByName["coalesce"]
		}
	} else {
		f = &table[g.n(0, len(table)-1, "fnAny")]
	}
	if k == kSmall && f.ret != kSmall {
		f = tableByName["len"]
	}
	if g.quoted && needsQuotes(f) {
		f = tableByName["upper"]
	}
	if g.lam != 0 && (f.name == "json") {
		f = tableByName["lower"]
	}
	return g.builtinCall(f, depth)
}

func (g *gctx) builtinCall(f *fnSpec, depth int) *Node {
	g.label("fn:" + f.name)
	if f.name == "@for" {
		return g.forCall()
	}
	n := g.n(f.min, f.max, "arity")
	if f.name == "json" && g.body != nil {
		// {json expr} reads {0} implicitly: inside a body that is the first
		// parameter, which no textual substitution of {0} expresses
		pbt.Exclude("json-implicit-group-0-in-body")
		n = 2
	}
	c := call(f.name)
	for i := 0; i < n; i++ {
		c.A = append(c.A, g.value(f.arg(i, n), depth))
	}
	switch f.name {
	case "time", "buckettime":
		g.fixTime(c)
	case "!":
		c.A[0].NoHoist = false
	}
	return c
}

// fixTime applies the exclusions around the time parser.
func (g *gctx) fixTime(c *Node) {
	fmtIdx := 1
	if c.S == "buckettime" {
		fmtIdx = 2
	}
	// {time now|live|delta} are never generated here: clock values (`live`
	// sub-property; `now` is captured per compilation)
	caching := len(c.A) <= fmtIdx || c.A[fmtIdx].K != kLit || c.A[fmtIdx].S == "" || strings.EqualFold(c.A[fmtIdx].S, "cache")
	if !caching {
		return
	}
	dyn := false
	walk([]*Node{c.A[0]}, func(n *Node) {
		if n.K != kLit {
			dyn = true
		}
	})
	if !dyn {
		return
	}
	if g.noCacheDyn || g.lam != 0 {
		// the remembered format makes the value depend on which date the
		// stage saw first: excluded where histories legitimately differ
		pbt.Exclude("format-caching-time-parser-on-dynamic-input")
		for len(c.A) <= fmtIdx {
			if c.S == "buckettime" && len(c.A) == 1 {
				c.A = append(c.A, clit("day"))
				continue
			}
			c.A = append(c.A, clit("auto"))
		}
		c.A[fmtIdx] = clit("auto")
		return
	}
	g.label("time-cache-dynamic")
}

// forCall: {@for start cond incr}, only in shapes whose documented iteration
// ends after a few rounds in EVERY context, the optimiser's all-empty probe
// included: a comparison with a value read from the match is <BAD-TYPE>
// (truthy) when that value is empty, which would run to @for's 1 000 000
// round cap inside Compile. So: a value-bounded loop starts from a numeric
// constant, an index-bounded loop may start anywhere, and a bound read from
// the match is guarded by {isint ..}.
func (g *gctx) forCall() *Node {
	limit := g.pick([]string{"3", "5", "8", "20"}, "forLimit")
	step := g.pick([]string{"1", "2", "3"}, "forStep")
	var start, cond, incr *Node
	switch g.n(0, 4, "forShape") {
	case 0: // value below a limit, value grows: numeric constant start
		// (not hoistable: read from the match it would be empty under the probe)
		start = clit(g.pick([]string{"0", "1", "2", "-3", "7"}, "forStart"))
		cond = lam(call("lt", elem(0), clit(limit)))
		incr = lam(call("sumi", elem(0), clit(step)))
	case 1: // index below a limit, value doubles
		start = g.value(kSmall, 0)
		cond = lam(call("lt", elem(1), clit(limit)))
		incr = lam(call("sumi", elem(0), elem(0)))
	case 2: // index bounded, value decorated
		start = g.value(kSmall, 0)
		cond = lam(call("lt", elem(1), clit("4")))
		incr = lam(lit("v"), elem(1))
	case 3: // index bounded by a key of the match (keys pass through the sub-expression)
		start = lit(g.pick([]string{"0", "1", "5"}, "forStart"))
		cond = lam(call("if", call("isint", key("s")), call("lt", elem(1), key("s"))))
		incr = lam(call("sumi", elem(0), clit(step)))
		g.label("for-bound-from-key")
	default: // increment reads a key of the match
		start = lit(g.pick([]string{"0", "1", "5"}, "forStart"))
		cond = lam(call("lt", elem(1), clit("4")))
		incr = lam(call("sumi", elem(0), call("len", key("w"))))
		g.label("for-key-in-increment")
	}
	if g.lam != 0 {
		// nested inside another sub-expression: groups are the outer elements
		// there, and a quoted text cannot hold another quoted text
		if start.K != kLit {
			start = lit("1")
		}
	}
	cond.Bare = g.chance(50, "forBare")
	incr.Bare = cond.Bare
	if g.quoted {
		cond.Bare, incr.Bare = true, true
		if incr.A[0].K != kCall {
			incr = lam(call("sumi", elem(0), clit(step)))
			incr.Bare = true
		}
	}
	return call("@for", start, cond, incr)
}

// lambda: sub-expression of @map/@filter (1 element) or @reduce (2).
func (g *gctx) lambda(nEl int) *Node {
	saveLam, saveQ, saveBody := g.lam, g.quoted, g.body
	g.lam, g.quoted = nEl, true
	g.body = nil // {0} inside is the element, never a parameter
	defer func() { g.lam, g.quoted, g.body = saveLam, saveQ, saveBody }()
	g.label("sub-expression")
	l := lam()
	var pool []string
	if nEl == 2 {
		pool = []string{"sumi", "sumf", "maxi", "tab", "coalesce", "eq", "mini", "csv"}
	} else {
		pool = []string{"multi", "upper", "len", "isnum", "sumi", "eq", "like", "substr", "gt", "not", "format", "hi", "coalesce", "if", "lower", "bytesize"}
	}
	if len(g.defs) > 0 && g.chance(30, "lamUser") {
		if c := g.userCall(0, true); c != nil {
			if nEl == 2 {
				// a body may read an argument several times: fed with the memo
				// of @reduce the text would grow geometrically with the array
				// (3 reads x 20 elements = gigabytes, honestly allocated)
				limitMemo(c, 0)
			}
			l.A = []*Node{c}
			l.Bare = g.chance(20, "lamBare")
			return l
		}
	}
	f := tableByName[g.pick(pool, "lamFn")]
	c := g.builtinCall(f, 1)
	// make sure the element is referenced
	used := false
	walk([]*Node{c}, func(n *Node) {
		if n.K == kElem {
			used = true
		}
	})
	if !used && len(c.A) > 0 && !f.arg(0, len(c.A)).isConst() {
		c.A[0] = elem(0)
	}
	if nEl == 2 {
		limitMemo(c, 1)
		// {csv ..} doubles every quote of a field it has to quote: one csv around
		// the memo doubles the text per element, a csv inside a csv quadruples
		// it (4^20 for a 20-element array never returns): at most one csv
		walk(c.A, func(n *Node) {
			if n.K == kCall && n.S == "csv" {
				n.S = "tab"
			}
		})
	}
	l.A = []*Node{c}
	if g.chance(25, "lamText") {
		l.A = append([]*Node{lit("<")}, l.A...)
		l.A = append(l.A, lit(">"))
	} else {
		l.Bare = g.chance(20, "lamBare")
	}
	return l
}

// limitMemo keeps at most max references to the memo {0} of a @reduce
// sub-expression; the others read the current element {1} instead.
func limitMemo(c *Node, max int) {
	seen := 0
	walk([]*Node{c}, func(n *Node) {
		if n.K == kElem && n.I == 0 {
			seen++
			if seen > max {
				n.I = 1
			}
		}
	})
}

// userCall: a call of one of the available user functions.
func (g *gctx) userCall(depth int, inLam bool) *Node {
	var cands []*Def
	for _, d := range g.defs {
		if d.TopOnly {
			continue
		}
		cands = append(cands, d)
	}
	if len(cands) == 0 {
		return nil
	}
	d := cands[g.n(0, len(cands)-1, "userIdx")]
	return g.callDef(d, depth, false)
}

func (g *gctx) callDef(d *Def, depth int, top bool) *Node {
	g.label("user-call")
	k := len(d.Params)
	// 1..k+1 arguments ({name} alone is a key lookup, not a call)
	n := k
	switch g.n(0, 9, "argCount") {
	case 0:
		n = k - 1
		g.label("missing-argument")
	case 1:
		n = k + 1
		g.label("extra-argument")
	case 2:
		n = g.n(1, k+1, "argCountAny")
	}
	if n < 1 {
		n = 1
		pbt.Exclude("zero-argument-call-is-a-key-lookup")
	}
	if n < k {
		g.label("missing-argument")
	}
	c := call(d.Name)
	for i := 0; i < n; i++ {
		pk := kAny
		if i < k {
			pk = d.Params[i]
		}
		var a *Node
		ad := depth
		if d.Long {
			// a table may read its argument a thousand times: the inlined
			// template holds as many copies, so constants and references only
			ad = 0
		}
		if i < k && d.TopArgs[i] {
			// spliced into running text when inlined: blank-free, and never a
			// parameter of an enclosing body (it could later become blank text)
			a = g.topSafe(pk, ad)
		} else {
			a = g.value(pk, ad)
		}
		c.A = append(c.A, a)
	}
	return c
}

func (g *gctx) topSafe(k kind, depth int) *Node {
	switch g.n(0, 2, "topSafe") {
	case 0:
		for i := 0; i < 4; i++ {
			c := g.constant(k)
			if !hasBlank(c.S) {
				return c
			}
		}
		return lit("w")
	case 1:
		if g.body != nil {
			if k == kSmall {
				return key("s")
			}
			return key(g.keyFor(k))
		}
		return g.dynamic(k, true)
	}
	if depth > 0 && g.budget > 0 {
		return g.callOf(k, depth-1)
	}
	return lit("t")
}

// ---------------------------------------------------------------- formulas

func (g *gctx) formula() *Node {
	g.label("formula")
	f := g.form(g.n(1, 3, "formDepth"))
	return &Node{K: kForm, F: f}
}

func (g *gctx) formNum() *Form {
	return &Form{Op: "num", S: g.pick([]string{"2", "3", "10", "1.5", "7", "100", "0.25", "4", "1"}, "num")}
}

func (g *gctx) formRef() *Form {
	if g.lam != 0 {
		// [0] inside a sub-expression is the element
		return &Form{Op: "ref", S: "0"}
	}
	if g.body != nil {
		// references to parameters cannot be inlined textually: keys only
		pbt.Exclude("formula-parameter-reference-in-body")
		return &Form{Op: "ref", S: g.pick([]string{"n", "f", "s"}, "formKey")}
	}
	if g.chance(50, "formGrp") {
		return &Form{Op: "ref", S: strconv.Itoa(g.pick2([]int{1, 2, 5}, "formGrpIdx"))}
	}
	return &Form{Op: "ref", S: g.pick([]string{"n", "f", "s", missingKey}, "formKey")}
}

func (g *gctx) pick2(l []int, label string) int { return l[g.n(0, len(l)-1, label)] }

func (g *gctx) form(depth int) *Form {
	if depth <= 0 {
		if g.chance(55, "formLeafNum") {
			return g.formNum()
		}
		return g.formRef()
	}
	switch g.n(0, 9, "formShape") {
	case 0:
		return &Form{Op: "par", L: g.form(depth - 1)}
	case 1:
		return &Form{Op: "fn", S: g.pick([]string{"abs", "sqrt", "floor", "ceil", "round", "log10", "exp2", "sin"}, "formFn"), L: g.form(depth - 1)}
	case 2:
		// integer operators: small right operands, now and then a reference
		// (x % 0 and negative shifts are NaN)
		op := g.pick([]string{"%", "<<", ">>"}, "formIntOp")
		var r *Form = &Form{Op: "num", S: g.pick([]string{"1", "2", "3", "7", "0"}, "formSmall")}
		if g.chance(25, "formIntRef") {
			r = g.formRef()
		}
		return &Form{Op: "bin", S: op, L: &Form{Op: "par", L: g.form(depth - 1)}, R: r}
	default:
		op := g.pick([]string{"+", "-", "*", "/", "+", "*", "^", "<", ">", "<=", ">=", "==", "&&", "||", " + ", " * "}, "formOp")
		l, r := g.form(depth-1), g.form(depth-1)
		if op == "^" {
			r = &Form{Op: "num", S: g.pick([]string{"2", "3", "0.5"}, "formExp")}
		}
		if g.quoted {
			op = strings.TrimSpace(op)
		}
		return &Form{Op: "bin", S: op, L: l, R: r}
	}
}

// ---------------------------------------------------------------- templates

func (g *gctx) rawLit() *Node {
	n := g.n(1, 6, "rawLen")
	var sb strings.Builder
	for i := 0; i < n; i++ {
		sb.WriteString(g.pick([]string{"a", "B", " ", "{", "}", "\\", "\"", "#", "\n", "\t", "é", "=", "0", "}}", "\\n"}, "rawCh"))
	}
	g.label("escaped-literal")
	return &Node{K: kRaw, S: sb.String()}
}

func (g *gctx) topLit(allowBlank bool) *Node {
	words := []string{"a", "x=", "-", "pre", ":", "0", "é", "v1.", "|"}
	s := g.pick(words, "topLit")
	if allowBlank && g.chance(40, "topBlank") {
		s = g.pick([]string{"total: ", " - ", "a b", " ", "is ", "two  blanks", "tab\there"}, "topLitBlank")
	}
	return lit(s)
}

// template pieces at depth 0.
func (g *gctx) template(maxPieces, depth int) []*Node {
	n := g.n(1, maxPieces, "pieces")
	var out []*Node
	for i := 0; i < n; i++ {
		r := g.n(0, 99, "piece")
		switch {
		case r < 18:
			if g.chance(25, "raw") {
				out = append(out, g.rawLit())
			} else {
				out = append(out, g.topLit(true))
			}
		case r < 30:
			out = append(out, g.dynamic(kAny, false))
		case r < 42 && len(g.defs) > 0:
			d := g.defs[g.n(0, len(g.defs)-1, "topUser")]
			g.budget--
			out = append(out, g.callDef(d, depth, true))
		case r < 55:
			// a sub-tree without any dynamic leaf: something to fold
			out = append(out, g.constCall(depth))
		default:
			out = append(out, g.callOf(kAny, depth))
		}
	}
	return out
}

// constCall: a call whose leaves are all constants.
func (g *gctx) constCall(depth int) *Node {
	g.label("constant-subtree")
	c := g.callOf(kAny, depth)
	// replace every dynamic leaf outside sub-expressions by a constant
	var fix func(n *Node)
	fix = func(n *Node) {
		for i, a := range n.A {
			switch a.K {
			case kGrp, kKey, kArg:
				if n.K == kCall {
					if f := tableByName[n.S]; f != nil && i < f.max {
						k := f.arg(i, len(n.A))
						if k == kJSON {
							continue
						}
						n.A[i] = g.constant(k)
						continue
					}
				}
				n.A[i] = lit("c")
			case kCall, kCat:
				fix(a)
			}
		}
	}
	fix(c)
	return c
}

// ---------------------------------------------------------------- definitions

var builtinNames = func() map[string]bool {
	m := map[string]bool{}
	for _, f := range table {
		m[f.name] = true
	}
	return m
}()

func (g *gctx) defName(taken map[string]bool) string {
	for {
		n := g.n(2, 7, "nameLen")
		var sb strings.Builder
		sb.WriteString(g.pick([]string{"f", "g", "my", "u", "dbl", "cls"}, "nameHead"))
		for i := 0; i < n-1; i++ {
			sb.WriteString(g.pick([]string{"a", "b", "x", "1", "2", "_", "-", "q", "A", "Z", ".", "é"}, "nameCh"))
		}
		s := strings.TrimRight(sb.String(), "-")
		if !taken[s] && !builtinNames[s] {
			taken[s] = true
			return s
		}
	}
}

var paramKinds = []kind{kAny, kAny, kInt, kInt, kFloat, kSmall, kWord, kDate, kArr, kBool, kUnix}

// visible lists what a call written at position q may name: q is the index of
// the definition whose body holds the call, q == len(defs) the calling
// template (after every file has been loaded). The documentation says nothing
// about a name that is defined more than once; the property sentence ("a call
// equals its body written inline", the body's own calls meaning what they meant
// when the body was loaded) fixes this much and no more:
//
//   - exactly ONE definition of the name stands before q: the call is bound to
//     it (whatever is defined later, or by the definition q itself, does not
//     reach back), and the reference expands it on the tree;
//   - two or more stand before q and none at or after q: WHICH of them a call
//     means (first or last) is open, but it must mean the same at q and at the
//     call site, because the same definitions are known at both points: the
//     call is written but never expanded (an opaque callee), and the reference
//     is the body around it written inline with that call left in place;
//   - two or more before q and another at or after q: nothing to assert, the
//     name is not called there.
func visible(defs []*Def, q int) (out []*Def, dropped int) {
	seen := map[string]bool{}
	for j := 0; j < q; j++ {
		name := defs[j].Pub
		if seen[name] {
			continue
		}
		seen[name] = true
		var before []*Def
		after := false
		for k, d := range defs {
			if d.Pub != name {
				continue
			}
			if k < q {
				before = append(before, d)
			} else {
				after = true
			}
		}
		switch {
		case len(before) == 1:
			out = append(out, before[0])
		case !after:
			last := before[len(before)-1]
			o := &Def{Name: name + "#?", Pub: name, Opaque: true, Params: last.Params, TopArgs: map[int]bool{}, File: -1}
			for _, b := range before {
				if b.Long {
					o.Long = true
				}
				if b.File != before[0].File {
					o.File = -2 // its definitions stand in different files
				}
			}
			out = append(out, o)
		default:
			dropped++
		}
	}
	return out, dropped
}

// callee picks one of the callable definitions. Names defined more than once
// would rarely be reached otherwise: a body prefers, now and then, an opaque
// callee or a definition that reaches one; the calling template prefers a
// definition it can expand that reaches one.
func (g *gctx) callee(cands []*Def, inBody bool, label string) *Def {
	var pref []*Def
	for _, d := range cands {
		if d.ReachesOpaque || inBody && d.Opaque {
			pref = append(pref, d)
		}
	}
	if len(pref) > 0 && g.chance(50, label+"Multi") {
		return pref[g.n(0, len(pref)-1, label+"MultiIdx")]
	}
	if !inBody {
		// something the reference can expand, mostly
		var exp []*Def
		for _, d := range cands {
			if !d.Opaque {
				exp = append(exp, d)
			}
		}
		if len(exp) > 0 && g.chance(85, label+"Expandable") {
			cands = exp
		}
	}
	return cands[g.n(0, len(cands)-1, label)]
}

// definitions generates 1..max definitions spread over 1..3 funcs files (in
// loading order); a definition may be written with the name of an earlier one
// (in the same file or in a later file), bodies may call what `visible` allows.
func (g *gctx) definitions(max int) []*Def {
	n := g.n(1, max, "defs")
	maxFiles := 1
	switch r := g.n(0, 99, "files"); {
	case r < 40:
	case r < 75:
		maxFiles = 2
	default:
		maxFiles = 3
	}
	taken := map[string]bool{}
	all := make([]*Def, n)
	for i := range all {
		d := &Def{TopArgs: map[int]bool{}}
		if i > 0 {
			d.File = all[i-1].File
			if d.File+1 < maxFiles && g.chance(50, "newFile") {
				d.File++
			}
		}
		if i > 0 && g.chance(20, "redefine") {
			d.Pub = all[g.n(0, i-1, "redefined")].Pub
		} else {
			d.Pub = g.defName(taken)
		}
		d.Name = d.Pub + "#" + strconv.Itoa(i)
		all[i] = d
	}
	var defs []*Def
	for i := 0; i < n; i++ {
		d := all[i]
		cands, dropped := visible(all, i)
		for ; dropped > 0; dropped-- {
			pbt.Exclude("name-with->=2-earlier-definitions-and-one-more-to-come:not-callable-from-this-body")
		}
		// a name has been redefined by now: now and then this body repeats,
		// node for node, an argument of an earlier body that calls that name
		// (see reuseArgument); the parameters are then the donor's
		reused, donor := g.reuseArgument(defs, cands)
		if reused != nil {
			d.Params = append([]kind(nil), donor.Params...)
		} else {
			np := g.n(0, 3, "params")
			for p := 0; p < np; p++ {
				d.Params = append(d.Params, paramKinds[g.n(0, len(paramKinds)-1, "paramKind")])
			}
		}
		g.defs = cands
		g.body = d
		g.budget = 5
		nPieces := g.n(1, 3, "bodyPieces")
		if g.chance(60, "singleCall") {
			nPieces = 1
		}
		for len(d.Body) < nPieces {
			first, last := len(d.Body) == 0, len(d.Body) == nPieces-1
			r := g.n(0, 99, "bodyPiece")
			switch {
			case nPieces == 1 || r < 60:
				if len(cands) > 0 && g.chance(35, "bodyCallsEarlier") {
					e := g.callee(cands, true, "earlier")
					c := g.callDef(e, 2, true)
					// arguments landing at the top level of e's body become
					// running text of this body as well
					for ai, a := range c.A {
						if ai < len(e.Params) && e.TopArgs[ai] && a.K == kArg {
							d.TopArgs[a.I] = true
						}
					}
					if e.TopOnly {
						d.TopOnly = true
					}
					d.Body = append(d.Body, c)
					g.label("body-calls-earlier-definition")
				} else {
					d.Body = append(d.Body, g.callOf(kAny, 2))
				}
			case r < 75:
				if len(d.Params) > 0 {
					i := g.n(0, len(d.Params)-1, "topArg")
					d.Body = append(d.Body, argn(i))
					d.TopArgs[i] = true
				} else {
					d.Body = append(d.Body, key(g.keyFor(kAny)))
				}
			case r < 85:
				d.Body = append(d.Body, key(g.keyFor(kAny)))
				g.label("key-in-body")
			default:
				if g.chance(25, "bodyBackslash") && !(len(d.Body) > 0 && d.Body[len(d.Body)-1].K != kCall && d.Body[len(d.Body)-1].K != kArg && d.Body[len(d.Body)-1].K != kKey) {
					// literal text with a backslash (written \\\\ in the file). Never at
					// the end of the body: whether a line ending in an escaped
					// backslash continues is not documented
					words := []string{"C:\\dir\\", "a\\", "\\", "x\\y", "\\\\srv"}
					if last {
						words = []string{"x\\y", "\\\\srv", "\\z"}
					}
					d.Body = append(d.Body, &Node{K: kRaw, S: g.pick(words, "bodyRaw")})
					d.TopOnly = true
					g.label("backslash-in-body")
					continue
				}
				l := g.topLit(true)
				// the loader trims the phrase: no blank at either end of the body
				if first {
					l.S = strings.TrimLeft(l.S, " ")
				}
				if last {
					l.S = strings.TrimRight(l.S, " ")
				}
				if l.S == "" {
					l.S = "t"
				}
				if hasBlank(l.S) {
					d.TopOnly = true
				}
				if len(d.Body) > 0 && d.Body[len(d.Body)-1].K == kLit {
					continue
				}
				d.Body = append(d.Body, l)
			}
		}
		// a user function whose name is defined again further down, called
		// inside an argument of another call: what a later body may repeat
		if e := plantCandidate(all, cands, i); e != nil && g.chance(50, "nestedCallOfNameRedefinedLater") {
			g.budget--
			d.Body = append(d.Body, g.wrapArg(g.callDef(e, 1, false)))
			g.label("user-call-inside-an-argument:name-defined-again-later")
		}
		if reused != nil {
			if reused.K == kCall {
				for _, e := range cands {
					if e.Name != reused.S {
						continue
					}
					for ai, a := range reused.A {
						if ai < len(e.Params) && e.TopArgs[ai] && a.K == kArg {
							d.TopArgs[a.I] = true
						}
					}
					if e.TopOnly {
						d.TopOnly = true
					}
				}
			}
			d.Body = append(d.Body, reused)
		}
		// a long body: one piece of more than 4096 bytes on one physical line
		if g.n(0, 999, "longBody") < 15 {
			g.longPiece(d)
		}
		// now and then one more piece reading a parameter the body already
		// reads: every read re-evaluates the (lazy) argument
		if len(d.Params) > 0 && g.chance(35, "readAgain") {
			i := g.n(0, len(d.Params)-1, "againArg")
			var c *Node
			switch g.n(0, 4, "againShape") {
			case 0:
				c = call("upper", argn(i))
			case 1:
				c = call("eq", argn(i), argn(i))
			case 2:
				c = call("len", argn(i))
			case 3:
				c = call("coalesce", argn(i), key(g.keyFor(kAny)), argn(i))
			default:
				c = call("if", argn(i), argn(i), lit("none"))
			}
			d.Body = append(d.Body, c)
			g.label("parameter-read-again")
		}
		g.body = nil
		byName := map[string]*Def{}
		for _, e := range defs {
			byName[e.Name] = e
		}
		walk(d.Body, func(n *Node) {
			if n.K != kCall {
				return
			}
			n.InBody = true
			if strings.HasSuffix(n.S, "#?") {
				d.ReachesOpaque = true
				for _, e := range cands {
					if e.Name == n.S && e.Long {
						d.Long = true
					}
				}
				g.label("body-calls-a-name-defined-more-than-once(left-in-place)")
			} else if e := byName[n.S]; e != nil {
				if e.ReachesOpaque {
					d.ReachesOpaque = true
				}
				if e.Long {
					d.Long = true // its callers keep their arguments simple as well
				}
				if e.Pub == d.Pub {
					g.label("redefinition-calls-the-definition-it-replaces")
				} else {
					for _, later := range all[i+1:] {
						if later.Pub == e.Pub {
							g.label("body-bound-to-a-definition-replaced-later")
						}
					}
				}
			}
		})
		defs = append(defs, d)
	}
	g.defs, _ = visible(all, n)
	return defs
}

// plantCandidate: a callable definition (expandable, nestable) whose name is
// defined again at or after position i and not by the last definition of all,
// so that a later body sees the name with two definitions behind it.
func plantCandidate(all []*Def, cands []*Def, i int) *Def {
	for _, c := range cands {
		if c.Opaque || c.TopOnly {
			continue
		}
		last := -1
		for k, d := range all {
			if d.Pub == c.Pub {
				last = k
			}
		}
		if last >= i && last < len(all)-1 {
			return c
		}
	}
	return nil
}

// wrapArg: a helper call taking the node as an argument (any text will do).
func (g *gctx) wrapArg(a *Node) *Node {
	var f string
	var c *Node
	switch g.n(0, 5, "wrap") {
	case 0:
		f, c = "upper", call("upper", a)
	case 1:
		f, c = "lower", call("lower", a)
	case 2:
		f, c = "len", call("len", a)
	case 3:
		f, c = "eq", call("eq", a, lit(g.pick(pools[kWord], "wrapWord")))
	case 4:
		f, c = "coalesce", call("coalesce", a, lit("none"))
	default:
		f, c = "if", call("if", a, lit("yes"), lit("no"))
	}
	g.label("fn:" + f)
	return c
}

// reuseArgument: when some name has two or more definitions behind this body
// (an opaque callee, see visible), the body may repeat - node for node, so
// that the one-definition-per-line text is identical - an argument of an
// earlier body in which that name is called, or the whole call holding that
// argument. A compiler that remembers anything about an argument text it has
// seen (the funcs files are all compiled by ONE compiler) must not hand the
// earlier meaning of the name to the later body: the reference is, as for
// every call of a multiply-defined name, this body written inline with the
// call left in place, compiled by a fresh builder. Calls in the copy are
// re-bound the way `visible` prescribes at this position; nil when some call
// in it cannot be named here, or when the copied arguments could control the
// output size of the latest definition of the name.
func (g *gctx) reuseArgument(defs []*Def, cands []*Def) (*Node, *Def) {
	byPub := map[string]*Def{}
	anyOpaque := false
	for _, c := range cands {
		byPub[c.Pub] = c
		if c.Opaque {
			anyOpaque = true
		}
	}
	if !anyOpaque {
		return nil, nil
	}
	callsOpaque := func(a *Node) bool {
		found := false
		walk([]*Node{a}, func(n *Node) {
			if n.K == kCall && strings.IndexByte(n.S, '#') >= 0 {
				if c := byPub[writtenName(n.S)]; c != nil && c.Opaque {
					found = true
				}
			}
		})
		return found
	}
	type site struct {
		parent, arg *Node
		donor       *Def
	}
	var sites []site
	byName := map[string]*Def{}
	for _, e := range defs {
		byName[e.Name] = e
		if e.Long {
			continue
		}
		// (not inside a sub-expression: {0} is the element there, here it
		// would be the parameter; a sub-expression is copied as a whole only)
		var visit func(l []*Node)
		visit = func(l []*Node) {
			for _, n := range l {
				if n.K == kLam {
					continue
				}
				if n.K == kCall && !n.OneLine {
					for _, a := range n.A {
						if callsOpaque(a) {
							sites = append(sites, site{n, a, e})
						}
					}
				}
				visit(n.A)
			}
		}
		visit(e.Body)
	}
	if len(sites) == 0 || !g.chance(65, "reuseArgument") {
		return nil, nil
	}
	st := sites[g.n(0, len(sites)-1, "reuseSite")]
	var piece *Node
	if st.arg.K == kLam || g.chance(50, "reuseWholeCall") {
		piece = clone(st.parent)
	} else {
		piece = g.wrapArg(clone(st.arg))
	}
	ok, stale := true, false
	walk([]*Node{piece}, func(n *Node) {
		if n.K != kCall || strings.IndexByte(n.S, '#') < 0 {
			return
		}
		c := byPub[writtenName(n.S)]
		switch {
		case c == nil:
			ok = false
		case c.Opaque:
			if orig := byName[n.S]; orig != nil {
				for ai := range n.A {
					if ai < len(c.Params) && c.Params[ai] == kSmall && !(ai < len(orig.Params) && orig.Params[ai] == kSmall) {
						ok = false
					}
				}
				stale = true
			}
			n.S = c.Name
		case c.Name != n.S:
			ok = false
		}
	})
	if !ok {
		return nil, nil
	}
	g.label("redefined-name:later-body-repeats-an-earlier-argument-text")
	if stale {
		g.label("redefined-name:later-body-repeats-an-earlier-argument-text:earlier-call-was-bound-before-the-redefinition")
	}
	return piece, st.donor
}

// longPiece appends a piece of more than 4096 bytes that is written on ONE
// physical line (a generated table): running text, a {switch ..} table or a
// call with very many arguments. The line stays well below the 64 KiB at which
// the loader's line scanner gives up.
func (g *gctx) longPiece(d *Def) {
	var size int
	switch r := g.n(0, 99, "longSize"); {
	case r < 30:
		size = g.n(4097, 4400, "longBytes") // right above the boundary
	case r < 80:
		size = g.n(4400, 12000, "longBytes")
	case r < 95:
		size = g.n(12000, 30000, "longBytes")
	default:
		size = g.n(30000, 56000, "longBytes")
	}
	d.Long = true
	dyn := func() *Node {
		if len(d.Params) > 0 {
			return argn(g.n(0, len(d.Params)-1, "longArg"))
		}
		return key(g.keyFor(kWord))
	}
	switch g.n(0, 2, "longShape") {
	case 0:
		word := g.pick([]string{"lorem ", "x", "ab-", "\u00e9", "0123456789", "a b  ", "v1.|"}, "longWord")
		s := strings.TrimRight(strings.Repeat(word, size/len(word)+1), " ")
		if hasBlank(s) {
			d.TopOnly = true
		}
		if n := len(d.Body); n > 0 && d.Body[n-1].K == kLit {
			d.Body[n-1] = lit(d.Body[n-1].S + s)
		} else {
			d.Body = append(d.Body, lit(s))
		}
		g.label("long-body:text")
	case 1:
		if size > 20000 {
			size = 4097 + size%16000 // every entry reads the argument: keep the inlined template moderate
		}
		x := dyn()
		xl := len(printTemplate([]*Node{x}, oneSpace, nil))
		c := call("switch")
		c.OneLine = true
		hit := g.n(0, size/(xl+16), "longHit")
		hitKey := g.pick([]string{"abc", "X", "foo.bar", "42", "-7", "Hello"}, "longHitKey")
		for est, i := 8, 0; est < size; i++ {
			k, v := "k"+strconv.Itoa(i), "value"+strconv.Itoa(i)
			if i == hit {
				k = hitKey
			}
			c.A = append(c.A, call("eq", clone(x), lit(k)), lit(v))
			est += 8 + xl + len(k) + len(v)
		}
		if g.chance(70, "longDefault") {
			c.A = append(c.A, lit("other"))
		}
		d.Body = append(d.Body, c)
		g.label("long-body:switch-table")
	default:
		f := g.pick([]string{"coalesce", "sumi", "maxi", "and", "or", "tab"}, "longFn")
		c := call(f)
		c.OneLine = true
		for est, i := len(f)+2, 0; est < size; i++ {
			var a string
			switch f {
			case "coalesce", "or":
				a = ""
			case "sumi", "maxi":
				a = strconv.Itoa(i % 7)
			case "and":
				a = "1"
			default:
				a = "w" + strconv.Itoa(i)
			}
			c.A = append(c.A, lit(a))
			if a == "" {
				est += 3
			} else {
				est += 1 + len(a)
			}
		}
		c.A = append(c.A, dyn())
		if g.chance(50, "longTail") {
			c.A = append(c.A, lit("9"))
		}
		d.Body = append(d.Body, c)
		g.label("fn:" + f)
		g.label("long-body:many-argument-call")
	}
}

// argument use counts of a body (for labels / the non-trivial rule)
func argUses(d *Def) (max int, keys bool, callsUser bool, names map[string]bool) {
	cnt := map[int]int{}
	walk(d.Body, func(n *Node) {
		switch n.K {
		case kArg:
			cnt[n.I]++
		case kKey:
			keys = true
		}
	})
	for _, c := range cnt {
		if c > max {
			max = c
		}
	}
	return
}

// ---------------------------------------------------------------- funcs file layout

type layout struct {
	g             *gctx
	continuations int
	commentsIn    int
	blankIn       int
	topBreaks     int // continuations between two top-level pieces of a body
	// .. of which directly after a literal (escaped) backslash
	breakAfterBackslash int
}

func (l *layout) blanks(min, max int) string {
	n := l.g.n(min, max, "blanks")
	var sb strings.Builder
	for i := 0; i < n; i++ {
		if l.g.chance(25, "tab") {
			sb.WriteByte('\t')
		} else {
			sb.WriteByte(' ')
		}
	}
	return sb.String()
}

func (l *layout) comment() string {
	n := l.g.n(0, 4, "commentWords")
	var sb strings.Builder
	sb.WriteByte('#')
	for i := 0; i < n; i++ {
		sb.WriteString(l.g.pick([]string{" note", " {sumi {0} 1}", " \\", "#", " fn x", " }", " \"q", "\t", " else"}, "commentWord"))
	}
	return sb.String()
}

// interstitial lines that hold no definition text: blank or comment-only
func (l *layout) filler(max int, inContinuation bool) string {
	n := l.g.n(0, max, "filler")
	if l.g.chance(60, "noFiller") {
		n = 0
	}
	var sb strings.Builder
	for i := 0; i < n; i++ {
		if l.g.chance(50, "fillerComment") {
			sb.WriteString(l.blanks(0, 3) + l.comment() + "\n")
			if inContinuation {
				l.commentsIn++
			}
		} else {
			sb.WriteString(l.blanks(0, 2) + "\n")
			if inContinuation {
				l.blankIn++
			}
		}
	}
	return sb.String()
}

// sep is the separator between two arguments of a body: a blank run, or a
// line continuation: blanks, backslash, optional trailing blanks/comment,
// newline, optional blank/comment lines, indentation.
func (l *layout) sep() string {
	if !l.g.chance(22, "break") {
		return l.blanks(1, 2)
	}
	l.continuations++
	var sb strings.Builder
	sb.WriteString(l.blanks(1, 2))
	sb.WriteByte('\\')
	if l.g.chance(25, "trailComment") {
		sb.WriteString(l.blanks(0, 2) + l.comment())
	} else {
		sb.WriteString(l.blanks(0, 1))
	}
	sb.WriteByte('\n')
	sb.WriteString(l.filler(2, true))
	sb.WriteString(l.blanks(0, 4))
	return sb.String()
}

// file renders the definitions.
func (l *layout) file(defs []*Def) string {
	var sb strings.Builder
	sb.WriteString(l.filler(2, false))
	for _, d := range defs {
		sb.WriteString(l.blanks(0, 2))
		sb.WriteString(d.Pub)
		if l.g.chance(12, "nameBreak") {
			// exactly one blank between name and body, then the continuation
			l.continuations++
			sb.WriteString(" \\")
			sb.WriteString(l.blanks(0, 1))
			sb.WriteByte('\n')
			sb.WriteString(l.filler(1, true))
			sb.WriteString(l.blanks(0, 4))
		} else {
			sb.WriteByte(' ')
		}
		// the body, piece by piece: a line may also be broken between two
		// top-level pieces (no blank before the backslash: it would be text;
		// the next line loses its leading blanks, so it must not start with one)
		for i, n := range d.Body {
			if i > 0 && l.g.chance(20, "topBreak") && !(n.K == kLit && strings.HasPrefix(n.S, " ")) {
				l.continuations++
				l.topBreaks++
				if i > 0 && d.Body[i-1].K == kRaw && strings.HasSuffix(d.Body[i-1].S, "\\") {
					l.breakAfterBackslash++
				}
				sb.WriteByte('\\')
				if l.g.chance(25, "trailComment") {
					sb.WriteString(l.blanks(0, 2) + l.comment())
				} else {
					sb.WriteString(l.blanks(0, 1))
				}
				sb.WriteByte('\n')
				sb.WriteString(l.filler(2, true))
				sb.WriteString(l.blanks(0, 4))
			}
			sep := sepFn(l.sep)
			if n.OneLine {
				// a table on one line: no continuation inside, one separator style
				// (of one byte: the line is as long as the generator planned)
				s := l.g.pick([]string{" ", "\t"}, "longSep")
				sep = func() string { return s }
			}
			sb.WriteString(printTemplate([]*Node{n}, sep, nil))
		}
		if l.g.chance(25, "endComment") {
			sb.WriteString(l.blanks(0, 2) + l.comment())
		} else {
			sb.WriteString(l.blanks(0, 1))
		}
		sb.WriteByte('\n')
		sb.WriteString(l.filler(2, false))
	}
	s := sb.String()
	if l.g.chance(15, "noFinalNewline") {
		s = strings.TrimRight(s, "\n")
	}
	return s
}

// ---------------------------------------------------------------- contexts

type Ctx struct {
	G []pbt.S
	K [][2]pbt.S
}

// cliSafeValue: a value `rare expression --data=..` delivers unchanged (argv
// cannot hold NUL, urfave/cli splits slice flags at commas and trims blanks
// around every value).
func cliSafeValue(v string) bool {
	return !strings.ContainsAny(v, "\x00,") && utf8.ValidString(v) && strings.TrimSpace(v) == v
}

func (g *gctx) slotValue(k kind, label string) string {
	vals := slotValues[k]
	v := g.pick(vals, label)
	if g.cliSafe && !cliSafeValue(v) {
		v = "7"
	}
	return v
}

func (g *gctx) context() Ctx {
	var c Ctx
	ng := g.n(0, nGroups, "nGroups")
	if g.chance(50, "allGroups") {
		ng = nGroups
	}
	for i := 0; i < ng; i++ {
		v := g.slotValue(groupKinds[i], "gval")
		if g.chance(8, "crossKind") {
			v = g.slotValue(kWord, "gvalCross")
			if groupKinds[i] == kSmall {
				v = "1"
			}
		}
		c.G = append(c.G, pbt.S(v))
	}
	for i, name := range keyNames {
		if g.chance(30, "dropKey") {
			continue
		}
		c.K = append(c.K, [2]pbt.S{pbt.S(name), pbt.S(g.slotValue(groupKinds[i], "kval"))})
	}
	return c
}

func (g *gctx) contexts(max int) []Ctx {
	n := g.n(1, max, "nCtx")
	var out []Ctx
	for i := 0; i < n; i++ {
		if g.chance(20, "emptyCtx") {
			// the all-empty context the optimiser probes with
			out = append(out, Ctx{})
			continue
		}
		out = append(out, g.context())
	}
	return out
}

func sortedLabels(m map[string]bool) []string {
	out := make([]string, 0, len(m))
	for k := range m {
		out = append(out, k)
	}
	sort.Strings(out)
	return out
}

var _ = fmt.Sprintf
