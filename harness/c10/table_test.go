// Table of rare's helper functions as the C10 generator sees them: admissible
// arities, the value kind of every argument position, which positions are
// documented compile-time literals ("denoted in quotes" in
// docs/usage/expressions.md) and which control output size.
package c10

type kind int

const (
	kAny kind = iota
	kInt
	kSmall // small non-negative integer: the only kind allowed where it controls output size
	kFloat
	kBool
	kWord
	kArr
	kDate
	kUnix
	kDur
	kJSON
	kPath
	kFmt
	kNonZero // integer divisor: constant, never zero
	// compile-time literal kinds (never dynamic in bodies / inlined trees)
	cPrec
	cBucket
	cClamp
	cColor
	cTimeFmt
	cOutFmt
	cTz
	cTimeBucket
	cAttr
	cScaler
	cDelim
	cIndex
	cTable
	cPrefix
	cChar
	cInit
	cBarMax
	cBarLen
	cInArr
	cFormula
	cPathLoad
	cLam1
	cLam2
	cLamForCond
	cLamForIncr
	cJSONPath
)

func (k kind) isConst() bool { return k >= cPrec && k != cJSONPath }

// constant pools per kind; the first entries are the "good" ones (the matrix
// enumeration uses index 0 and 1).
var pools = map[kind][]string{
	kAny:        {"abc", "42", "", "x y", "Hello", "3.5", "a,b", "été", "-7", "0", "x  y"},
	kInt:        {"42", "-3", "0", "1", "7", "100", "1000", "65536", "2147483648", "9223372036854775807", "-9223372036854775808", "abc", "", "1.5", "+5", "12"},
	kSmall:      {"3", "0", "1", "2", "5", "8", "12"},
	kFloat:      {"2.5", "-1.25", "0", "1", "100", "0.001", "1e3", "3.0", "abc", "", "1e400", "NaN"},
	kBool:       {"1", "", "x", " ", "0", "false"},
	kWord:       {"abc", "X", "Hello", "foo.bar", "a-b", "été", "k1", "b"},
	kDate:       {"2020-01-05 10:11:12", "2021-12-31 23:59:59", "2016-04-14T17:12:25Z", "14/Apr/2016:19:12:25 +0200", "2006-01-02", "notadate", ""},
	kUnix:       {"1460653945", "0", "1578182400", "86400", "-1", "1700000000", "abc", ""},
	kDur:        {"24h", "90s", "1h30m", "5m", "bad", ""},
	kPath:       {"a/b/c.txt", "/x/y/", "file.tar.gz", "noext", "", "/", "dir/.hidden"},
	kFmt:        {"%s", "%5s|", "%-4s|", "%s-%s", "plain", "%v%%", "%d", "%q"},
	kNonZero:    {"2", "-3", "1", "7", "10", "-1"},
	cPrec:       {"2", "0", "1", "3", "4", "-1", "x"},
	cBucket:     {"10", "50", "1", "5", "100", "1000", "0", "-5", "x"},
	cClamp:      {"10", "0", "-5", "100", "x"},
	cColor:      {"red", "green", "blue", "yellow", "cyan", "magenta", "white", "black", "RED", "nocolor"},
	cTimeFmt:    {"", "cache", "auto", "RFC3339", "NGINX", "2006-01-02", "2006-01-02 15:04:05", "UNIX"},
	cOutFmt:     {"RFC3339", "", "NGINX", "UNIX", "YEAR", "MONTHNAME", "2006-01-02", "15:04", "RFC822Z", "WDAY"},
	cTz:         {"", "utc", "UTC", "local", "America/New_York", "Asia/Tokyo", "Europe/Paris", "bad/zone"},
	cTimeBucket: {"day", "h", "minute", "s", "nanos", "mo", "month", "y", "years", "d", "bogus"},
	cAttr:       {"weekday", "week", "yearweek", "quarter", "WEEK", "bogus"},
	cScaler:     {"linear", "log10", "log2", "lin", "", "bogus"},
	cDelim:      {",", ";", "-", " ", "::", "ab", ""},
	cIndex:      {"1", "0", "2", "-1", "-2", "5", "x"},
	cTable:      {"a 1", "abc X", "k", "42 answer"},
	cPrefix:     {"//", ";", "--"},
	cChar:       {"x", "ab", "=", "-", "é", ""},
	cInit:       {"0", "", "z", "10"},
	cBarMax:     {"100", "10", "1", "1000", "0", "x"},
	cBarLen:     {"10", "1", "5", "20", "0", "x"},
	cJSONPath:   {"a", "b", "c.1", "c.0", "d.e", "zz", ""},
}

// goodPools: the well-formed constants of a kind (what the documentation
// accepts at that position). Bodies of user functions draw only from these so
// that the funcs file loads; a wrong entry here only makes more cases skip.
var goodPools = map[kind][]string{
	kInt:        {"42", "-3", "0", "1", "7", "100", "1000", "65536", "12"},
	kFloat:      {"2.5", "-1.25", "0", "1", "100", "0.001", "1e3", "3.0"},
	kDate:       {"2020-01-05 10:11:12", "2021-12-31 23:59:59", "2016-04-14T17:12:25Z", "14/Apr/2016:19:12:25 +0200", "2006-01-02"},
	kUnix:       {"1460653945", "0", "1578182400", "86400", "-1", "1700000000"},
	kDur:        {"24h", "90s", "1h30m", "5m"},
	cPrec:       {"2", "0", "1", "3", "4"},
	cBucket:     {"10", "50", "1", "5", "100", "1000"},
	cClamp:      {"10", "0", "-5", "100"},
	cColor:      {"red", "green", "blue", "yellow", "cyan", "magenta", "white", "black"},
	cTz:         {"", "utc", "UTC", "local", "America/New_York", "Asia/Tokyo", "Europe/Paris"},
	cTimeBucket: {"day", "h", "minute", "s", "nanos", "mo", "month", "y", "years", "d"},
	cAttr:       {"weekday", "week", "yearweek", "quarter", "WEEK"},
	cScaler:     {"linear", "log10", "log2"},
	cDelim:      {",", ";", "-", " ", "::", "ab"},
	cIndex:      {"1", "0", "2", "-1", "-2", "5"},
	cBarMax:     {"100", "10", "1", "1000"},
	cBarLen:     {"10", "1", "5", "20"},
}

type fnSpec struct {
	name     string
	min, max int
	arg      func(i, n int) kind
	ret      kind
}

func rep(k kind) func(i, n int) kind { return func(int, int) kind { return k } }

func fixed(ks ...kind) func(i, n int) kind {
	return func(i, n int) kind {
		if i < len(ks) {
			return ks[i]
		}
		return ks[len(ks)-1]
	}
}

// table: every function registered in stdlib.StandardFunctions (the test
// TestTableComplete checks the two sets are equal).
var table = []fnSpec{
	{"coalesce", 1, 4, rep(kAny), kAny},
	{"bucket", 2, 2, fixed(kInt, cBucket), kInt},
	{"bucketrange", 2, 2, fixed(kInt, cBucket), kAny},
	{"clamp", 3, 3, fixed(kInt, cClamp, cClamp), kAny},
	{"expbucket", 1, 1, rep(kInt), kInt},
	{"isint", 1, 1, rep(kInt), kBool},
	{"isnum", 1, 1, rep(kFloat), kBool},
	{"sumi", 2, 4, rep(kInt), kInt},
	{"subi", 2, 4, rep(kInt), kInt},
	{"multi", 2, 4, rep(kInt), kInt},
	{"divi", 2, 3, fixed(kInt, kNonZero), kInt},
	{"modi", 2, 3, fixed(kInt, kNonZero), kInt},
	{"maxi", 2, 4, rep(kInt), kInt},
	{"mini", 2, 4, rep(kInt), kInt},
	{"sumf", 2, 4, rep(kFloat), kFloat},
	{"subf", 2, 4, rep(kFloat), kFloat},
	{"multf", 2, 4, rep(kFloat), kFloat},
	{"divf", 2, 3, rep(kFloat), kFloat},
	{"ceil", 1, 1, rep(kFloat), kInt},
	{"floor", 1, 1, rep(kFloat), kInt},
	{"log10", 1, 1, rep(kFloat), kFloat},
	{"log2", 1, 1, rep(kFloat), kFloat},
	{"ln", 1, 1, rep(kFloat), kFloat},
	{"pow", 2, 3, rep(kFloat), kFloat},
	{"sqrt", 1, 1, rep(kFloat), kFloat},
	{"round", 1, 2, fixed(kFloat, cPrec), kFloat},
	{"!", 1, 1, rep(cFormula), kFloat},
	{"if", 2, 3, fixed(kBool, kAny, kAny), kAny},
	{"switch", 2, 5, func(i, n int) kind {
		if i%2 == 0 && i+1 < n {
			return kBool
		}
		return kAny
	}, kAny},
	{"unless", 2, 2, fixed(kBool, kAny), kAny},
	{"eq", 2, 3, rep(kAny), kBool},
	{"neq", 2, 3, rep(kAny), kBool},
	{"not", 1, 1, rep(kBool), kBool},
	{"lt", 2, 2, rep(kFloat), kBool},
	{"gt", 2, 2, rep(kFloat), kBool},
	{"lte", 2, 2, rep(kFloat), kBool},
	{"gte", 2, 2, rep(kFloat), kBool},
	{"and", 1, 3, rep(kBool), kBool},
	{"or", 1, 3, rep(kBool), kBool},
	{"len", 1, 1, rep(kAny), kSmall},
	{"like", 2, 2, fixed(kAny, kWord), kBool},
	{"prefix", 2, 2, fixed(kAny, kWord), kBool},
	{"suffix", 2, 2, fixed(kAny, kWord), kBool},
	{"format", 1, 3, fixed(kFmt, kAny), kAny},
	{"substr", 3, 3, fixed(kAny, kSmall, kSmall), kWord},
	{"select", 2, 2, fixed(kAny, kSmall), kWord},
	{"upper", 1, 1, rep(kAny), kWord},
	{"lower", 1, 1, rep(kAny), kWord},
	{"tab", 1, 4, rep(kAny), kAny},
	{"$", 1, 4, rep(kAny), kArr},
	{"@", 1, 4, rep(kAny), kArr},
	{"@len", 1, 1, rep(kArr), kSmall},
	{"@map", 2, 2, fixed(kArr, cLam1), kArr},
	{"@split", 1, 2, fixed(kAny, cDelim), kArr},
	{"@select", 2, 2, fixed(kArr, cIndex), kAny},
	{"@join", 1, 2, fixed(kArr, cDelim), kAny},
	{"@reduce", 2, 3, fixed(kArr, cLam2, cInit), kAny},
	{"@filter", 2, 2, fixed(kArr, cLam1), kArr},
	{"@slice", 2, 3, fixed(kArr, cIndex, cIndex), kArr},
	{"@in", 2, 2, fixed(kAny, cInArr), kBool},
	{"@range", 1, 3, func(i, n int) kind {
		if n == 3 && i == 2 {
			return kNonZero // increment; a zero increment is an error marker, negative is fine
		}
		return kSmall
	}, kArr},
	{"@for", 3, 3, fixed(kSmall, cLamForCond, cLamForIncr), kArr},
	{"basename", 1, 1, rep(kPath), kWord},
	{"dirname", 1, 1, rep(kPath), kWord},
	{"extname", 1, 1, rep(kPath), kWord},
	{"load", 1, 1, rep(cPathLoad), kAny},
	{"lookup", 2, 3, fixed(kWord, cTable, cPrefix), kAny},
	{"haskey", 2, 3, fixed(kWord, cTable, cPrefix), kBool},
	{"hi", 1, 1, rep(kInt), kAny},
	{"hf", 1, 1, rep(kFloat), kAny},
	{"bytesize", 1, 2, fixed(kInt, cPrec), kAny},
	{"bytesizesi", 1, 2, fixed(kInt, cPrec), kAny},
	{"downscale", 1, 2, fixed(kInt, cPrec), kAny},
	{"percent", 1, 4, fixed(kFloat, cPrec, kFloat, kFloat), kAny},
	{"json", 1, 2, func(i, n int) kind {
		if n == 2 && i == 0 {
			return kJSON
		}
		return cJSONPath
	}, kAny},
	{"csv", 1, 3, rep(kAny), kAny},
	{"time", 1, 3, fixed(kDate, cTimeFmt, cTz), kUnix},
	{"timeformat", 1, 3, fixed(kUnix, cOutFmt, cTz), kDate},
	{"timeattr", 2, 3, fixed(kUnix, cAttr, cTz), kAny},
	{"buckettime", 2, 4, fixed(kDate, cTimeBucket, cTimeFmt, cTz), kAny},
	{"duration", 1, 1, rep(kDur), kInt},
	{"durationformat", 1, 1, rep(kInt), kAny},
	{"color", 2, 2, fixed(cColor, kAny), kAny},
	{"repeat", 2, 2, fixed(cChar, kSmall), kAny},
	{"bar", 3, 4, fixed(kInt, cBarMax, cBarLen, cScaler), kAny},
}

var tableByName = func() map[string]*fnSpec {
	m := map[string]*fnSpec{}
	for i := range table {
		m[table[i].name] = &table[i]
	}
	return m
}()

// byRet lists the functions returning a kind.
var byRet = func() map[kind][]*fnSpec {
	m := map[kind][]*fnSpec{}
	for i := range table {
		m[table[i].ret] = append(m[table[i].ret], &table[i])
	}
	return m
}()

// context slots: which group index / key name carries which kind.
var slotGroup = map[kind]int{kJSON: 0, kInt: 1, kSmall: 2, kWord: 3, kDate: 4, kFloat: 5, kArr: 6, kUnix: 7, kPath: 8, kAny: 3, kBool: 9, kDur: 10, kFmt: 3}
var slotKey = map[kind]string{kJSON: "j", kInt: "n", kSmall: "s", kWord: "w", kDate: "d", kFloat: "f", kArr: "a", kUnix: "u", kPath: "p", kAny: "w", kBool: "b", kDur: "dur", kFmt: "w"}

const nGroups = 11

var groupKinds = [nGroups]kind{kJSON, kInt, kSmall, kWord, kDate, kFloat, kArr, kUnix, kPath, kBool, kDur}
var keyNames = []string{"j", "n", "s", "w", "d", "f", "a", "u", "p", "b", "dur"}

const missingKey = "nokey"

// dynamic values per slot kind (what a match may hold there)
var slotValues = map[kind][]string{
	kJSON:  {`{"a":1,"b":"x","c":[1,2,3],"d":{"e":"deep"}}`, `{"a":"two"}`, `[1,2]`, `not json`, ``},
	kInt:   pools[kInt],
	kSmall: {"0", "1", "2", "3", "4", "7", "12", "", "x"},
	kWord:  {"abc", "X", "Hello World", "foo.bar", "", "été", "a b c", "42", "-7", "1 2", "a\tb"},
	kDate:  pools[kDate],
	kFloat: pools[kFloat],
	kArr:   {"a\x00b\x00c", "1\x002\x003", "", "solo", "x\x00\x00y", "10\x00abc\x007"},
	kUnix:  pools[kUnix],
	kPath:  pools[kPath],
	kBool:  pools[kBool],
	kDur:   pools[kDur],
}
