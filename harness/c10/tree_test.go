// Expression trees for C10, their printer (rare template syntax), inlining of
// user-function calls ON THE TREE and hoisting of constants into named keys.
//
// The printer never needs the layered escaping of DESIGN §5.3 because the
// generator keeps every character that would need it ({ } " \ #) out of the
// literals that are printed inside braces; blanks inside an argument are
// expressed with quotes, the empty argument with "".
package c10

import (
	"strconv"
	"strings"
)

// Node kinds.
const (
	kLit  = "lit"  // literal text S
	kRaw  = "raw"  // literal text S, only at depth 0 of a template: may hold { } \ " # newline tab
	kGrp  = "grp"  // {I} resolved in the match
	kKey  = "key"  // {S} named key
	kArg  = "arg"  // {I} inside a user-function body: the I-th call argument
	kElem = "elem" // {I} inside an @map/@reduce/@filter/@for sub-expression
	kCall = "call" // {S a1 a2 ..}
	kCat  = "cat"  // juxtaposition of pieces forming ONE argument, e.g. pre{1}post
	kLam  = "lam"  // sub-expression argument of @map & co: pieces A, printed quoted
	kForm = "form" // math formula for {! ..}: F holds the formula tree
)

type Node struct {
	K string
	S string
	I int
	A []*Node
	F *Form
	// NoHoist: constant that must stay a constant (documented "quoted"
	// compile-time literal position, function keyword, sub-expression).
	NoHoist bool
	// Bare: print a kLam without quotes (only when it is a single call).
	Bare bool
	// Sp: how a kArg reference is spelled in the funcs file (0 "{2}", 1 "{ 2 }", 2 "{02}", 3 "{\"2\"}", 4 "{+2}"):
	// all of them are the call's argument 2 (they are group 2 everywhere else in the template language)
	Sp int `json:",omitempty"`
	// InBody: a call written in the body of a definition (survives the
	// substitution into a calling template; for labels only).
	InBody bool
	// OneLine: a long piece of a body (table on one line): the layout printer
	// writes it without a continuation inside.
	OneLine bool
}

func lit(s string) *Node              { return &Node{K: kLit, S: s} }
func clit(s string) *Node             { return &Node{K: kLit, S: s, NoHoist: true} }
func grp(i int) *Node                 { return &Node{K: kGrp, I: i} }
func key(s string) *Node              { return &Node{K: kKey, S: s} }
func argn(i int) *Node                { return &Node{K: kArg, I: i} }
func elem(i int) *Node                { return &Node{K: kElem, I: i} }
func call(f string, a ...*Node) *Node { return &Node{K: kCall, S: f, A: a} }
func cat(a ...*Node) *Node            { return &Node{K: kCat, A: a} }
func lam(a ...*Node) *Node            { return &Node{K: kLam, A: a, NoHoist: true} }

// Form is a math formula tree for {! ..}.
type Form struct {
	Op   string // "num" | "ref" | "bin" | "fn" | "par" | "neg"
	S    string // number text, reference name (inside [..]), operator or function name
	L, R *Form
}

func hasBlank(s string) bool { return strings.ContainsAny(s, " \t\n") }

// ---------------------------------------------------------------- printer

// sepFn yields the blank run written between two arguments inside braces.
type sepFn func() string

type printer struct {
	sb  strings.Builder
	sep sepFn
	pad sepFn // optional blanks right after '{' / before '}' ; may be nil
}

func escape0(s string) string {
	var sb strings.Builder
	for _, r := range s {
		switch r {
		case '\\':
			sb.WriteString(`\\`)
		case '{':
			sb.WriteString(`\{`)
		case '\n':
			sb.WriteString(`\n`)
		case '\t':
			sb.WriteString(`\t`)
		case '\r':
			sb.WriteString(`\r`)
		default:
			sb.WriteRune(r)
		}
	}
	return sb.String()
}

// top prints template pieces at depth 0.
func (p *printer) top(pieces []*Node) {
	for _, n := range pieces {
		switch n.K {
		case kLit:
			p.sb.WriteString(n.S) // generator alphabet needs no escaping
		case kRaw:
			p.sb.WriteString(escape0(n.S))
		default:
			p.arg(n)
		}
	}
}

func (p *printer) ref(s string) {
	p.sb.WriteByte('{')
	p.sb.WriteString(s)
	p.sb.WriteByte('}')
}

// arg prints a node as one argument inside braces (depth >= 1), or a
// non-literal node at depth 0 (same syntax).
func (p *printer) arg(n *Node) {
	switch n.K {
	case kLit:
		switch {
		case n.S == "":
			p.sb.WriteString(`""`)
		case hasBlank(n.S):
			p.sb.WriteString(`"` + n.S + `"`)
		default:
			p.sb.WriteString(n.S)
		}
	case kGrp, kArg, kElem:
		num := strconv.Itoa(n.I)
		if n.K == kArg && n.I >= 0 {
			switch n.Sp {
			case 1:
				num = " " + num + " "
			case 2:
				num = "0" + num
			case 3:
				num = `"` + num + `"`
			case 4:
				num = "+" + num
			}
		}
		p.ref(num)
	case kKey:
		p.ref(n.S)
	case kCall:
		p.sb.WriteByte('{')
		if p.pad != nil {
			p.sb.WriteString(p.pad())
		}
		p.sb.WriteString(writtenName(n.S))
		for _, a := range n.A {
			p.sb.WriteString(p.sep())
			p.arg(a)
		}
		if p.pad != nil {
			p.sb.WriteString(p.pad())
		}
		p.sb.WriteByte('}')
	case kCat:
		for _, a := range n.A {
			if a.K == kLit {
				p.sb.WriteString(a.S) // blank-free by construction, "" contributes nothing
			} else {
				p.arg(a)
			}
		}
	case kLam:
		if n.Bare && len(n.A) == 1 && n.A[0].K == kCall {
			p.arg(n.A[0])
			return
		}
		p.sb.WriteByte('"')
		p.top(n.A)
		p.sb.WriteByte('"')
	case kForm:
		s := n.F.String()
		if hasBlank(s) {
			s = `"` + s + `"`
		}
		p.sb.WriteString(s)
	default:
		panic("printer: unknown node kind " + n.K)
	}
}

// writtenName: a call of a user function carries the identity of the
// definition it is bound to ("name#index", or "name#?" for a call that is
// never expanded); the text of the template has the name alone. '#' is in no
// helper name and no generated name (it starts a comment in a funcs file).
func writtenName(s string) string {
	if i := strings.IndexByte(s, '#'); i >= 0 {
		return s[:i]
	}
	return s
}

func printTemplate(pieces []*Node, sep, pad sepFn) string {
	p := &printer{sep: sep, pad: pad}
	p.top(pieces)
	return p.sb.String()
}

func oneSpace() string { return " " }

func (f *Form) String() string {
	switch f.Op {
	case "num":
		return f.S
	case "ref":
		return "[" + f.S + "]"
	case "bin":
		return f.L.String() + f.S + f.R.String()
	case "fn":
		return f.S + "(" + f.L.String() + ")"
	case "par":
		return "(" + f.L.String() + ")"
	case "neg":
		return "-" + f.L.String()
	}
	panic("form: " + f.Op)
}

// ---------------------------------------------------------------- tree utilities

func cloneForm(f *Form) *Form {
	if f == nil {
		return nil
	}
	c := *f
	c.L, c.R = cloneForm(f.L), cloneForm(f.R)
	return &c
}

func clone(n *Node) *Node {
	c := *n
	c.F = cloneForm(n.F)
	if n.A != nil {
		c.A = make([]*Node, len(n.A))
		for i, a := range n.A {
			c.A[i] = clone(a)
		}
	}
	return &c
}

func cloneAll(l []*Node) []*Node {
	out := make([]*Node, len(l))
	for i, n := range l {
		out[i] = clone(n)
	}
	return out
}

func walk(l []*Node, f func(n *Node)) {
	for _, n := range l {
		f(n)
		walk(n.A, f)
	}
}

// ---------------------------------------------------------------- user functions

// Def is one definition of a funcs file.
type Def struct {
	// Name identifies the definition: "written#index" (several definitions may
	// be written with the same name); calls bound to it carry Name, the printer
	// writes Pub.
	Name string
	Pub  string // the name as written in the file
	File int    // index of the funcs file the definition stands in
	// ReachesOpaque: the body calls (directly or through other bodies) a name
	// that is defined more than once and therefore left in place.
	ReachesOpaque bool
	Opaque        bool    // stands for "whatever a call of Pub means": never expanded (see visible)
	Params        []kind  // value kind every parameter is used as
	Body          []*Node // top-level pieces of the body template
	// TopOnly: the body has literal text with blanks at its top level, so the
	// inlined body can only be spliced where blanks are literal: the call must
	// be a top-level piece of a template.
	TopOnly bool
	// TopArgs: parameters referenced as a top-level piece of the body; their
	// arguments are spliced into running text, so they must be blank-free.
	TopArgs map[int]bool
	// Long: the body holds a piece of more than 4096 bytes written on one
	// physical line.
	Long bool
	// UsesCacheTime etc. are not needed: stateful helpers are kept out of
	// funcs cases by the generator.
}

// substArgs returns the body pieces with every kArg replaced by the call's
// argument (a deep copy), missing arguments by the empty literal.
func substArgs(body []*Node, args []*Node) []*Node {
	var sub func(n *Node) *Node
	sub = func(n *Node) *Node {
		if n.K == kArg {
			if n.I < len(args) {
				return clone(args[n.I])
			}
			return &Node{K: kLit, S: "", NoHoist: true}
		}
		c := *n
		c.F = cloneForm(n.F)
		if n.A != nil {
			c.A = make([]*Node, len(n.A))
			for i, a := range n.A {
				c.A[i] = sub(a)
			}
		}
		return &c
	}
	out := make([]*Node, len(body))
	for i, n := range body {
		out[i] = sub(n)
	}
	return out
}

// flatten merges what an expanded user call leaves behind: nested kCat
// pieces, adjacent literals, empty literals inside a concatenation.
func flattenPieces(in []*Node) []*Node {
	var out []*Node
	var add func(n *Node)
	add = func(n *Node) {
		if n.K == kCat {
			for _, a := range n.A {
				add(a)
			}
			return
		}
		if n.K == kLit && n.S == "" {
			return
		}
		if n.K == kLit && len(out) > 0 && out[len(out)-1].K == kLit {
			m := *out[len(out)-1]
			m.S += n.S
			out[len(out)-1] = &m
			return
		}
		out = append(out, n)
	}
	for _, n := range in {
		add(n)
	}
	return out
}

// inlineAll expands every call of a user function, innermost definitions
// included (a body may call earlier definitions), on the tree.
func inlineAll(pieces []*Node, defs map[string]*Def) []*Node {
	var expandArg func(n *Node) *Node
	var expandList func(l []*Node) []*Node
	expandList = func(l []*Node) []*Node {
		var out []*Node
		for _, n := range l {
			if n.K == kCall {
				if d, ok := defs[n.S]; ok {
					args := make([]*Node, len(n.A))
					for i, a := range n.A {
						args[i] = expandArg(a)
					}
					body := expandList(substArgs(d.Body, args))
					out = append(out, body...)
					continue
				}
			}
			out = append(out, expandArg(n))
		}
		return flattenPieces(out)
	}
	expandArg = func(n *Node) *Node {
		switch n.K {
		case kCall:
			if _, ok := defs[n.S]; ok {
				pcs := expandList([]*Node{n})
				switch len(pcs) {
				case 0:
					return &Node{K: kLit, S: "", NoHoist: true}
				case 1:
					return pcs[0]
				}
				return &Node{K: kCat, A: pcs}
			}
			c := *n
			c.A = make([]*Node, len(n.A))
			for i, a := range n.A {
				c.A[i] = expandArg(a)
			}
			return &c
		case kCat:
			c := *n
			c.A = expandList(n.A)
			if len(c.A) == 0 {
				return &Node{K: kLit, S: "", NoHoist: true}
			}
			if len(c.A) == 1 {
				return c.A[0]
			}
			return &c
		case kLam:
			c := *n
			c.A = expandList(n.A)
			return &c
		}
		return n
	}
	return expandList(pieces)
}

// printable reports whether the printer can express the pieces: inside
// braces a concatenation must not hold a literal with blanks, a quoted
// sub-expression must not hold anything that itself needs quotes.
func printable(pieces []*Node) bool {
	ok := true
	var chk func(n *Node, inCat, inQuote bool)
	chk = func(n *Node, inCat, inQuote bool) {
		switch n.K {
		case kLit:
			if inCat && hasBlank(n.S) {
				ok = false
			}
			if inQuote && !inCat && (n.S == "" || hasBlank(n.S)) {
				ok = false
			}
		case kForm:
			if inQuote && hasBlank(n.F.String()) {
				ok = false
			}
		case kCall:
			for _, a := range n.A {
				chk(a, false, inQuote)
			}
		case kCat:
			for _, a := range n.A {
				chk(a, true, inQuote)
			}
		case kLam:
			if inQuote && !(n.Bare && len(n.A) == 1 && n.A[0].K == kCall) {
				ok = false
			}
			q := !(n.Bare && len(n.A) == 1 && n.A[0].K == kCall)
			for _, a := range n.A {
				// pieces of a quoted sub-expression are at "depth 0" of that
				// sub-template: literal text may not hold blanks-free rule, but
				// must not hold a quote; the alphabet has none.
				if a.K == kLit {
					continue
				}
				chk(a, false, inQuote || q)
			}
		}
	}
	for _, n := range pieces {
		if n.K == kLit || n.K == kRaw {
			continue
		}
		chk(n, false, false)
	}
	return ok
}

// ---------------------------------------------------------------- hoisting

// hoist replaces every hoistable constant by a named key h<i> and returns
// the values. Constants inside sub-expressions (kLam) and NoHoist nodes stay.
func hoist(pieces []*Node) ([]*Node, []string) {
	var vals []string
	next := func(v string) string {
		vals = append(vals, v)
		return "h" + strconv.Itoa(len(vals)-1)
	}
	var hf func(f *Form) *Form
	hf = func(f *Form) *Form {
		if f == nil {
			return nil
		}
		c := *f
		if f.Op == "num" {
			return &Form{Op: "ref", S: next(f.S)}
		}
		c.L, c.R = hf(f.L), hf(f.R)
		return &c
	}
	var h func(n *Node, top bool) *Node
	h = func(n *Node, top bool) *Node {
		switch n.K {
		case kLit, kRaw:
			if n.NoHoist || n.S == "" && top {
				return n
			}
			return key(next(n.S))
		case kCall:
			c := *n
			c.A = make([]*Node, len(n.A))
			for i, a := range n.A {
				c.A[i] = h(a, false)
			}
			return &c
		case kCat:
			c := *n
			c.A = make([]*Node, len(n.A))
			for i, a := range n.A {
				c.A[i] = h(a, false)
			}
			return &c
		case kForm:
			if n.NoHoist {
				return n
			}
			c := *n
			c.F = hf(n.F)
			return &c
		}
		return n
	}
	out := make([]*Node, len(pieces))
	for i, n := range pieces {
		out[i] = h(n, true)
	}
	return out, vals
}
