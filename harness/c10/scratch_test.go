package c10

import (
	"fmt"
	"testing"

	"rare/pkg/expressions"
	"rare/pkg/expressions/stdlib"
)

func both(tpl string, ctxs ...[]string) {
	for _, opt := range []bool{true, false} {
		kb, err := stdlib.NewStdKeyBuilderEx(opt).Compile(tpl)
		fmt.Printf("%-40q opt=%v err=%v stages=%d:", tpl, opt, err != nil, kb.StageCount())
		for _, c := range ctxs {
			fmt.Printf(" %q", kb.BuildKey(&expressions.KeyBuilderContextArray{Elements: c, Keys: map[string]string{"k": "kv"}}))
		}
		fmt.Println()
	}
}

func TestScratch(t *testing.T) {
	both(`{time "2024 {0}"}`, []string{"Jan 2 15:04:05"}, []string{"Feb 12 15:04:05"})
	both(`{time "{0} 2024"}`, []string{"Jan 2 15:04:05"}, []string{"Feb 12 15:04:05"})
	both(`{time "2024-{0}"}`, []string{"01-02 15:04:05"}, []string{"02-12T15:04:05"})
	both(`{time "{0} {1}"}`, []string{"2024-01-02", "15:04:05"})
	both(`{time "{0}T{1}"}`, []string{"2024-01-02", "15:04:05"})
	both(`{time "{0}/{1}/{2}"}`, []string{"01", "02","2024"})
	both(`{time "{0}-{1}-{2}"}`, []string{"2024", "02","01"})
	both(`{time "{0}:{1}:{2}"}`, []string{"2024", "02","01"})
	both(`{time "{0} UTC"}`, []string{"2024-01-02 15:04:05"})
	both(`{time "{0}Z"}`, []string{"2024-01-02T15:04:05"})
	both(`{time "{0} +0000"}`, []string{"2024-01-02 15:04:05"})
	both(`{time "{0}.000"}`, []string{"2024-01-02 15:04:05"})
}
