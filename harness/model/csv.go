package model

import "fmt"

// ParseRFC4180 is a strict reference CSV reader written from RFC 4180:
// records end with LF or CRLF; a field is either quoted ("...", with ""
// standing for one quote, and free to contain commas, CR and LF) or unquoted
// (no quotes inside, ends at a comma or at the record end). Unlike
// encoding/csv's reader it keeps CR and LF inside quoted fields byte for
// byte and never trims anything.
func ParseRFC4180(b []byte) ([][]string, error) {
	var recs [][]string
	var rec []string
	i := 0
	n := len(b)
	for i < n {
		// one field
		var field []byte
		if b[i] == '"' {
			i++
			closed := false
			for i < n {
				if b[i] == '"' {
					if i+1 < n && b[i+1] == '"' {
						field = append(field, '"')
						i += 2
						continue
					}
					i++
					closed = true
					break
				}
				field = append(field, b[i])
				i++
			}
			if !closed {
				return nil, fmt.Errorf("csv: unterminated quoted field at end of input")
			}
			if i < n && b[i] != ',' && b[i] != '\n' && !(b[i] == '\r' && i+1 < n && b[i+1] == '\n') {
				return nil, fmt.Errorf("csv: byte %q after closing quote at offset %d", b[i], i)
			}
		} else {
			for i < n && b[i] != ',' && b[i] != '\n' {
				if b[i] == '"' {
					return nil, fmt.Errorf("csv: bare quote in unquoted field at offset %d", i)
				}
				if b[i] == '\r' {
					if i+1 < n && b[i+1] == '\n' {
						break
					}
					return nil, fmt.Errorf("csv: bare CR in unquoted field at offset %d", i)
				}
				field = append(field, b[i])
				i++
			}
		}
		rec = append(rec, string(field))
		switch {
		case i >= n:
			recs = append(recs, rec)
			rec = nil
		case b[i] == ',':
			i++
			if i >= n { // trailing comma then EOF: one more empty field
				rec = append(rec, "")
				recs = append(recs, rec)
				rec = nil
			}
		case b[i] == '\n':
			i++
			recs = append(recs, rec)
			rec = nil
		case b[i] == '\r':
			i += 2
			recs = append(recs, rec)
			rec = nil
		}
	}
	if rec != nil {
		recs = append(recs, rec)
	}
	return recs, nil
}
