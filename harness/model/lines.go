// Package model holds the reference models the oracles compare against.
// Each is written from the property statement, not from the implementation.
package model

// Lines is the reference line splitter of C04: segments between '\n' bytes;
// one trailing '\r' removed from newline-terminated segments only; a final
// unterminated non-empty segment is a line; nothing follows a trailing
// newline.
func Lines(b []byte) [][]byte {
	var out [][]byte
	start := 0
	for i := 0; i < len(b); i++ {
		if b[i] == '\n' {
			seg := b[start:i]
			if len(seg) > 0 && seg[len(seg)-1] == '\r' {
				seg = seg[:len(seg)-1]
			}
			out = append(out, seg)
			start = i + 1
		}
	}
	if start < len(b) {
		out = append(out, b[start:])
	}
	return out
}
