// C20, sub-property "large": the same oracle as "history" on final frames of tens of kilobytes - many lines, or a
// few very long ones - which is what `--snapshot`, piped output and `histo --all` print for a large result.
package c20

import (
	"fmt"
	"strings"
	"testing"

	"pgregory.net/rapid"
	"verifharness/pbt"
)

func genLarge(t *rapid.T) HistCase {
	c := HistCase{Obs: pbt.NewObs()}
	long := rapid.IntRange(0, 3).Draw(t, "few-long-lines") == 0
	var nlines, vis int
	if long {
		// a few very long lines: trimming off (they are meant to be printed whole by the buffered writers)
		c.Width = rapid.IntRange(40, 200).Draw(t, "width")
		c.Trim = false
		nlines = rapid.IntRange(8, 40).Draw(t, "nlines")
		vis = rapid.IntRange(900, 6000).Draw(t, "vis")
	} else {
		c.Width = rapid.IntRange(60, 200).Draw(t, "width")
		c.Trim = rapid.IntRange(0, 3).Draw(t, "trim") != 0
		nlines = rapid.IntRange(300, 1600).Draw(t, "nlines")
		vis = rapid.IntRange(30, c.Width).Draw(t, "vis")
	}
	// texts: a generated motif repeated to the wanted length, the line's own number in front (so that a
	// repeated, dropped or reordered line can never look right)
	motif := genText(t, 12, 12)
	if strings.TrimSpace(motif) == "" {
		motif = "ab"
	}
	text := func(line, gen int) string {
		head := fmt.Sprintf("%d.%d:", line, gen)
		n := visLen(motif)
		if n == 0 {
			n = 1
		}
		reps := (vis - len(head)) / n
		if reps < 1 {
			reps = 1
		}
		return head + strings.Repeat(motif, reps)
	}
	for l := 0; l < nlines; l++ {
		c.Upds = append(c.Upds, Upd{Line: l, Text: pbt.S(text(l, 0))})
	}
	// some rewrites of earlier lines (shorter and longer), as a live display does
	for i, n := 0, rapid.IntRange(0, 20).Draw(t, "rewrites"); i < n; i++ {
		l := rapid.IntRange(0, nlines-1).Draw(t, "rl")
		c.Upds = append(c.Upds, Upd{Line: l, Text: pbt.S(text(l, i+1)), F: rapid.IntRange(0, 7).Draw(t, "f") == 0})
	}
	return c
}

func classifyLarge(c HistCase) (bool, []string) {
	total := 0
	last := map[int]int{}
	for _, u := range c.Upds {
		last[u.Line] = len(u.Text) + 1
	}
	for _, n := range last {
		total += n
	}
	var L pbt.Labels
	L.Add(c.Trim, "trim-on")
	L.Add(!c.Trim, "trim-off")
	L.Add(total >= 32<<10, "final-frame>=32KiB")
	L.Add(total >= 64<<10, "final-frame>=64KiB")
	L.Add(total >= 128<<10, "final-frame>=128KiB")
	L.Add(len(last) >= 1000, "lines>=1000")
	L.Add(len(last) < 100, "few-long-lines")
	for _, l := range c.Obs.All() {
		L.Add(true, l)
	}
	return total >= 32<<10, L
}

var largeSpec = pbt.Spec[HistCase]{
	Property: "C20", Name: "large",
	Rule:   "final frames of 10-200 KiB: 300-1600 lines of up to the width (trim on 3 in 4), or 8-40 lines of 900-6000 visible characters with trim off; every line carries its own number, a few earlier lines are rewritten; applied to the live writer (where it is defined: trim on, or fitting texts), BufferedTerm, helpers.BuildVTerm with stdout not a terminal and VirtualTerm.WriteToOutput; oracle of 'history'. Non-trivial: the final frame holds >= 32 KiB",
	Budget: pbt.Budget{Quick: 96, Thorough: 3000},
	Gen:    genLarge, Check: checkHistory, Classify: classifyLarge,
}

func TestLarge(t *testing.T) { pbt.Run(t, largeSpec) }
