// C20 — the live terminal shows the latest text of every line, within its
// width.
//
// Sub-properties:
//
//	trim             WriteLineNoWrap(text) at width w obeys the cut laws
//	trim-exhaustive  the same over every short token string
//	history          a history of (line, text) updates + Close applied to
//	                 multiterm.New() (stdout captured, judged by the reference
//	                 terminal VT), to BufferedTerm and to
//	                 VirtualTerm.WriteToOutput
//	history-exhaustive  the same over every short history from a small pool
//
// The terminal width is set through the verif hook
// multiterm.VerifSetTermSize (pkg/multiterm/verif_hooks.go, build tag verif).
package c20

import (
	"bytes"
	"fmt"
	"io"
	"os"
	"runtime/debug"
	"sort"
	"strings"
	"testing"
	"time"
	"unicode/utf8"

	"pgregory.net/rapid"
	"rare/cmd/helpers"
	"rare/pkg/multiterm"
	"verifharness/pbt"
)

// ---------------------------------------------------------------------------
// cases

type Upd struct {
	Line int
	Text pbt.S
	F    bool `json:",omitempty"` // use WriteForLinef(line, "%s", text)
}

type HistCase struct {
	Width int
	Trim  bool
	Upds  []Upd
	Obs   *pbt.Obs `json:"-"`
}

type TrimCase struct {
	Width int
	Trim  bool
	Text  pbt.S
}

// ---------------------------------------------------------------------------
// rare's global switches: set per case, restored afterwards

func setTerm(width int, trim bool) (restore func()) {
	oldTrim := multiterm.AutoTrim
	r0, c0 := multiterm.VerifTermSize()
	multiterm.AutoTrim = trim
	multiterm.VerifSetTermSize(24, width)
	return func() {
		multiterm.AutoTrim = oldTrim
		multiterm.VerifSetTermSize(r0, c0)
	}
}

// ---------------------------------------------------------------------------
// stdout capture: multiterm writes to os.Stdout. For the duration of one run
// os.Stdout is an unlinked scratch file (cannot block, unlike a pipe); cases
// of one process run one after the other.

var capFile *os.File

func capture(run func()) ([]byte, error) {
	if capFile == nil {
		dir := os.Getenv("VERIF_SCRATCH")
		if dir == "" {
			dir = os.TempDir()
		}
		f, err := os.CreateTemp(dir, "c20-stdout-*")
		if err != nil {
			return nil, fmt.Errorf("harness: cannot create capture file: %v", err)
		}
		os.Remove(f.Name())
		capFile = f
	}
	if err := capFile.Truncate(0); err != nil {
		return nil, fmt.Errorf("harness: truncate: %v", err)
	}
	if _, err := capFile.Seek(0, io.SeekStart); err != nil {
		return nil, fmt.Errorf("harness: seek: %v", err)
	}
	saved := os.Stdout
	done := make(chan error, 1)
	os.Stdout = capFile
	go func() {
		defer func() {
			if r := recover(); r != nil {
				st := string(debug.Stack())
				if len(st) > 2500 {
					st = st[:2500]
				}
				done <- fmt.Errorf("panic: %v\n%s", r, st)
			}
		}()
		run()
		done <- nil
	}()
	tm := time.NewTimer(12 * time.Second)
	defer tm.Stop()
	select {
	case err := <-done:
		os.Stdout = saved
		if err != nil {
			return nil, err
		}
	case <-tm.C:
		// the writer did not return: hand stdout back first, so that the
		// driver's verdict line is not swallowed by the capture file.
		os.Stdout = saved
		return nil, pbt.ErrHang{After: 12 * time.Second}
	}
	n, err := capFile.Seek(0, io.SeekCurrent)
	if err != nil {
		return nil, fmt.Errorf("harness: seek: %v", err)
	}
	buf := make([]byte, n)
	if _, err := capFile.ReadAt(buf, 0); err != nil && err != io.EOF {
		return nil, fmt.Errorf("harness: read: %v", err)
	}
	return buf, nil
}

// ---------------------------------------------------------------------------
// oracle: trim

func inDomainWidth(w int) bool { return w >= 1 && w <= 100000 }

func checkTrim(c TrimCase) error {
	if !inDomainWidth(c.Width) {
		pbt.Exclude("width<1")
		return nil
	}
	text := string(c.Text)
	if _, ok := Tokenize(text); !ok {
		pbt.Exclude("text-outside-domain")
		return nil
	}
	defer setTerm(c.Width, c.Trim)()
	var buf bytes.Buffer
	multiterm.WriteLineNoWrap(&buf, text)
	if !c.Trim {
		if buf.String() != text {
			return fmt.Errorf("trim off: WriteLineNoWrap wrote %s for text %s (must be written unchanged)", q(buf.String()), q(text))
		}
		return nil
	}
	return CheckTrim(text, c.Width, buf.String())
}

// ---------------------------------------------------------------------------
// oracle: history

type histModel struct {
	final   map[int]string
	maxLine int
	fits    bool // every text has <= width visible runes
}

func buildModel(c HistCase) (m histModel, ok bool) {
	m = histModel{final: map[int]string{}, maxLine: -1, fits: true}
	for _, u := range c.Upds {
		if u.Line < 0 || u.Line > 5000 {
			pbt.Exclude("line-index-out-of-domain")
			return m, false
		}
		toks, tok := Tokenize(string(u.Text))
		if !tok {
			pbt.Exclude("text-outside-domain")
			return m, false
		}
		if len(Visible(toks)) > c.Width {
			m.fits = false
		}
		m.final[u.Line] = string(u.Text)
		if u.Line > m.maxLine {
			m.maxLine = u.Line
		}
	}
	return m, true
}

func apply(term multiterm.MultilineTerm, c HistCase) {
	for _, u := range c.Upds {
		if u.F {
			term.WriteForLinef(u.Line, "%s", string(u.Text))
		} else {
			term.WriteForLine(u.Line, string(u.Text))
		}
	}
	term.Close()
}

func checkHistory(c HistCase) error {
	if !inDomainWidth(c.Width) {
		pbt.Exclude("width<1")
		return nil
	}
	m, ok := buildModel(c)
	if !ok {
		return nil
	}
	defer setTerm(c.Width, c.Trim)()

	// 1. the in-place writer. With trim off a text wider than the terminal
	// wraps by the user's own choice (--notrim): not covered by the
	// statement, the live writer is then left out.
	if c.Trim || m.fits {
		out, err := capture(func() { apply(multiterm.New(), c) })
		if err != nil {
			if _, hang := err.(pbt.ErrHang); hang {
				return err
			}
			return fmt.Errorf("live writer: %v", err)
		}
		c.Obs.Add("live-bytes", len(out))
		if err := judgeLive(c, m, out); err != nil {
			return fmt.Errorf("live writer (width %d, trim %v): %v\nemitted: %s", c.Width, c.Trim, err, q(string(out)))
		}
	} else {
		c.Obs.Label(true, "live-skipped(notrim+overwide)")
		pbt.Exclude("live:notrim-with-text-wider-than-terminal")
	}

	// 2. the buffered writer (--snapshot / piped output): prints on Close.
	out, err := capture(func() { apply(multiterm.NewBufferedTerm(), c) })
	if err != nil {
		if _, hang := err.(pbt.ErrHang); hang {
			return err
		}
		return fmt.Errorf("BufferedTerm: %v", err)
	}
	if err := judgeLines(c, m, out); err != nil {
		return fmt.Errorf("BufferedTerm (width %d, trim %v): %v\nprinted: %s", c.Width, c.Trim, err, q(string(out)))
	}

	// 2b. the writer the commands obtain (cmd/helpers BuildVTerm) for
	// --snapshot and for piped output: while captured, stdout is a regular
	// file, i.e. "piped", so both calls must hand out the buffered writer.
	for _, snap := range []bool{true, false} {
		out, err := capture(func() { apply(helpers.BuildVTerm(snap), c) })
		if err != nil {
			if _, hang := err.(pbt.ErrHang); hang {
				return err
			}
			return fmt.Errorf("helpers.BuildVTerm(snapshot=%v), stdout not a terminal: %v", snap, err)
		}
		if err := judgeLines(c, m, out); err != nil {
			return fmt.Errorf("helpers.BuildVTerm(snapshot=%v) with stdout not a terminal (width %d, trim %v) does not print the final lines top to bottom: %v\nprinted: %s", snap, c.Width, c.Trim, err, q(string(out)))
		}
	}

	// 3. the line store it is built on, flushed to an explicit writer.
	vt := multiterm.NewVirtualTerm()
	apply(vt, c)
	var buf bytes.Buffer
	vt.WriteToOutput(&buf)
	if err := judgeLines(c, m, buf.Bytes()); err != nil {
		return fmt.Errorf("VirtualTerm.WriteToOutput (width %d, trim %v): %v\nprinted: %s", c.Width, c.Trim, err, q(buf.String()))
	}
	return nil
}

// judgeLive interprets the bytes the in-place writer sent to the terminal.
func judgeLive(c HistCase, m histModel, out []byte) error {
	vt := NewVT(c.Width)
	if err := vt.Feed(out); err != nil {
		return fmt.Errorf("emitted stream cannot be a well-formed update: %v", err)
	}
	if vt.Wraps > 0 {
		return fmt.Errorf("an update wrapped: %d character(s) written to row %d ran past column %d into the row below", vt.Wraps, vt.WrapRow, c.Width)
	}
	cut := 0
	if c.Trim {
		cut = c.Width
	}
	rows := map[int]bool{}
	for r := range vt.Touched {
		rows[r] = true
	}
	for r := range vt.Rows {
		rows[r] = true
	}
	for r := 0; r <= m.maxLine+1; r++ {
		rows[r] = true
	}
	order := make([]int, 0, len(rows))
	for r := range rows {
		order = append(order, r)
	}
	sort.Ints(order)
	for _, r := range order {
		got := vt.RowText(r)
		text, written := m.final[r]
		if !written {
			if got != "" {
				return fmt.Errorf("row %d was never written (lines written: 0..%d with gaps allowed) but shows %s", r, m.maxLine, q(got))
			}
			continue
		}
		want := ExpectedRow(text, cut)
		if got != want {
			return fmt.Errorf("row %d shows %s; the text last written to line %d is %s, which must show as %s", r, q(got), r, q(text), q(want))
		}
	}
	if len(c.Upds) > 0 {
		if vt.Row != m.maxLine+1 {
			return fmt.Errorf("after Close the cursor is on row %d; the last line is %d, so it must be parked on row %d", vt.Row, m.maxLine, m.maxLine+1)
		}
		if vt.Col != 0 || vt.Pending {
			return fmt.Errorf("after Close the cursor is at column %d (pending wrap %v) of row %d, not at the start of the row below the last line", vt.Col, vt.Pending, vt.Row)
		}
	}
	if !vt.Visible {
		return fmt.Errorf("after Close the cursor is still hidden (no ESC[?25h after the last ESC[?25l)")
	}
	c.Obs.Label(vt.SGRs > 0, "live:sgr-passed-through")
	return nil
}

// judgeLines: "the buffered writer prints the same final lines top to
// bottom": one line per index 0..maxLine, each newline-terminated, each the
// final text of that index (never-written indexes blank), cut by the same
// laws when trimming is on and unchanged when it is off.
func judgeLines(c HistCase, m histModel, out []byte) error {
	if m.maxLine < 0 {
		if len(out) != 0 {
			return fmt.Errorf("nothing was written but %d bytes are printed", len(out))
		}
		return nil
	}
	s := string(out)
	if !strings.HasSuffix(s, "\n") {
		return fmt.Errorf("output does not end with a newline")
	}
	lines := strings.Split(s[:len(s)-1], "\n")
	if len(lines) != m.maxLine+1 {
		return fmt.Errorf("%d lines printed, but lines 0..%d were written (%d lines)", len(lines), m.maxLine, m.maxLine+1)
	}
	for i, l := range lines {
		text := m.final[i]
		if !c.Trim {
			if l != text {
				return fmt.Errorf("printed line %d is %s, the text last written to it is %s", i, q(l), q(text))
			}
			continue
		}
		if err := CheckTrim(text, c.Width, l); err != nil {
			return fmt.Errorf("printed line %d: %v", i, err)
		}
	}
	return nil
}

// ---------------------------------------------------------------------------
// generators

var asciiPool = []rune("abcdefghijklmnopqrstuvwxyzABCXYZ0123456789   .,:;-_=+*/#%|[](){}<>!?'\"\\mmm[[;;")
var multiPool = []rune("éßñüÿĀžΩλπжЯ█▏▎▌░─│┼\U0001d400\U0001d41a")
var sgrPool = []string{
	"\x1b[0m", "\x1b[0m", "\x1b[31m", "\x1b[32m", "\x1b[36m", "\x1b[30;1m", "\x1b[37;1m",
	"\x1b[1m", "\x1b[4m", "\x1b[m", "\x1b[38;5;208m", "\x1b[1;4;31m",
}

func genWidth(t *rapid.T) int {
	switch k := rapid.IntRange(0, 19).Draw(t, "wclass"); {
	case k < 12:
		return rapid.IntRange(1, 12).Draw(t, "width")
	case k < 17:
		return rapid.IntRange(13, 40).Draw(t, "width")
	default:
		return rapid.IntRange(41, 200).Draw(t, "width")
	}
}

// genText builds a text with a visible length chosen relative to the width
// (empty, short, exactly w, w+1, longer), runes from a per-text motif, and
// SGR sequences placed at the start, the end, around the cut position or
// anywhere. capVis > 0 bounds the visible length (trim off on the live
// writer: only texts that fit are generated).
func genText(t *rapid.T, w, capVis int) string {
	var n int
	switch rapid.IntRange(0, 11).Draw(t, "lenclass") {
	case 0:
		n = 0
	case 1, 2:
		n = rapid.IntRange(1, 3).Draw(t, "n")
	case 3, 4:
		n = rapid.IntRange(0, w).Draw(t, "n")
	case 5, 6:
		n = w
	case 7:
		n = w + 1
	case 8:
		n = w - 1
	default:
		n = w + rapid.IntRange(1, 12).Draw(t, "over")
	}
	if n < 0 {
		n = 0
	}
	if capVis > 0 && n > capVis {
		n = capVis
	}
	mode := rapid.IntRange(0, 3).Draw(t, "alpha") // 0,1 ascii; 2 mixed; 3 multi-byte
	ml := rapid.IntRange(1, 5).Draw(t, "motif")
	motif := make([]rune, ml)
	for i := range motif {
		pool := asciiPool
		if mode == 3 || (mode == 2 && rapid.Bool().Draw(t, "mb")) {
			pool = multiPool
		}
		motif[i] = rapid.SampledFrom(pool).Draw(t, "r")
	}
	type ins struct {
		at int
		s  string
	}
	var inss []ins
	switch rapid.IntRange(0, 5).Draw(t, "sgrmode") {
	case 0, 1: // none
	case 2: // wrapped as color.Wrap does
		inss = append(inss, ins{0, rapid.SampledFrom(sgrPool).Draw(t, "sgr")}, ins{n, "\x1b[0m"})
	default:
		k := rapid.IntRange(1, 4).Draw(t, "nsgr")
		for i := 0; i < k; i++ {
			var at int
			switch rapid.IntRange(0, 5).Draw(t, "at") {
			case 0:
				at = 0
			case 1:
				at = n
			case 2:
				at = w - 1
			case 3:
				at = w
			case 4:
				at = w + 1
			default:
				at = rapid.IntRange(0, n).Draw(t, "pos")
			}
			if at < 0 {
				at = 0
			}
			if at > n {
				at = n
			}
			inss = append(inss, ins{at, rapid.SampledFrom(sgrPool).Draw(t, "sgr")})
		}
	}
	var sb strings.Builder
	for i := 0; i <= n; i++ {
		for _, x := range inss {
			if x.at == i {
				sb.WriteString(x.s)
			}
		}
		if i < n {
			sb.WriteRune(motif[i%ml])
		}
	}
	return sb.String()
}

func genLine(t *rapid.T) int {
	switch k := rapid.IntRange(0, 19).Draw(t, "lclass"); {
	case k < 14:
		return rapid.IntRange(0, 6).Draw(t, "line")
	case k < 19:
		return rapid.IntRange(7, 15).Draw(t, "line")
	default:
		return rapid.IntRange(16, 40).Draw(t, "line")
	}
}

func genTrim(t *rapid.T) TrimCase {
	c := TrimCase{Width: genWidth(t)}
	c.Trim = rapid.IntRange(0, 9).Draw(t, "trim") != 0
	c.Text = pbt.S(genText(t, c.Width, 0))
	return c
}

func genHistory(t *rapid.T) HistCase {
	c := HistCase{Obs: pbt.NewObs(), Width: genWidth(t)}
	c.Trim = rapid.IntRange(0, 4).Draw(t, "trim") != 0
	capVis := 0
	if !c.Trim && rapid.IntRange(0, 3).Draw(t, "fit") != 0 {
		capVis = c.Width // trim off: mostly histories the live writer is defined on
	}
	np := rapid.IntRange(1, 8).Draw(t, "npool")
	pool := make([]int, np)
	for i := range pool {
		pool[i] = genLine(t)
	}
	n := rapid.IntRange(1, 40).Draw(t, "nupd")
	if rapid.IntRange(0, 2).Draw(t, "longhist") != 0 && n < 6 {
		n += 6
	}
	for i := 0; i < n; i++ {
		u := Upd{Line: rapid.SampledFrom(pool).Draw(t, "l")}
		u.Text = pbt.S(genText(t, c.Width, capVis))
		u.F = rapid.IntRange(0, 7).Draw(t, "f") == 0
		c.Upds = append(c.Upds, u)
	}
	return c
}

// ---------------------------------------------------------------------------
// classification

func textLabels(L *pbt.Labels, text string, w int, seen map[string]bool) {
	add := func(cond bool, name string) {
		if cond && !seen[name] {
			seen[name] = true
			L.Add(true, name)
		}
	}
	toks, ok := Tokenize(text)
	if !ok {
		add(true, "outside-domain")
		return
	}
	vis := 0
	hasSGR, mb, sgrAtCut, sgrAtEnd := false, false, false, false
	for i, tk := range toks {
		if tk.Esc {
			hasSGR = true
			if vis == w || vis == w-1 {
				sgrAtCut = true
			}
			if i == len(toks)-1 {
				sgrAtEnd = true
			}
		} else {
			vis++
			if len(tk.S) > 1 {
				mb = true
			}
		}
	}
	add(vis == 0, "text:empty-visible")
	add(vis > w, "text:longer-than-width")
	add(vis == w, "text:exactly-width")
	add(vis == w+1, "text:width+1")
	add(vis > 0 && vis < w, "text:shorter-than-width")
	add(hasSGR, "text:sgr")
	add(mb, "text:multi-byte")
	add(sgrAtCut && vis > w, "text:sgr-adjacent-to-cut")
	add(sgrAtEnd, "text:sgr-at-end")
	add(hasSGR && mb && vis > w, "text:sgr+multi-byte+cut")
}

func visLen(text string) int {
	toks, _ := Tokenize(text)
	n := 0
	for _, tk := range toks {
		if !tk.Esc {
			n++
		}
	}
	return n
}

func classifyTrim(c TrimCase) (bool, []string) {
	var L pbt.Labels
	seen := map[string]bool{}
	textLabels(&L, string(c.Text), c.Width, seen)
	L.Add(c.Trim, "trim-on")
	L.Add(!c.Trim, "trim-off")
	L.Add(c.Width == 1, "width=1")
	L.Add(c.Width >= 80, "width>=80")
	// non-trivial: trimming is on and actually has to cut
	return c.Trim && seen["text:longer-than-width"], L
}

func classifyHistory(c HistCase) (bool, []string) {
	var L pbt.Labels
	seen := map[string]bool{}
	L.Add(c.Trim, "trim-on")
	L.Add(!c.Trim, "trim-off")
	L.Add(c.Width == 1, "width=1")
	L.Add(c.Width <= 4, "width<=4")
	L.Add(c.Width >= 80, "width>=80")
	last := map[int]int{} // line -> visible length of its current text
	lines := map[int]bool{}
	prev, maxLine := -1, -1
	up, shorter, longerRewrite, overlong, pastMax, same, fmtw := false, false, false, false, false, false, false
	for i, u := range c.Upds {
		textLabels(&L, string(u.Text), c.Width, seen)
		n := visLen(string(u.Text))
		if n > c.Width {
			overlong = true
		}
		if i > 0 && u.Line < prev {
			up = true
		}
		if i > 0 && u.Line == prev {
			same = true
		}
		if u.Line > maxLine+1 && maxLine >= 0 {
			pastMax = true
		}
		if old, ok := last[u.Line]; ok {
			if n < old {
				shorter = true
			}
			if n > old {
				longerRewrite = true
			}
		}
		if u.F {
			fmtw = true
		}
		last[u.Line] = n
		lines[u.Line] = true
		prev = u.Line
		if u.Line > maxLine {
			maxLine = u.Line
		}
	}
	gap := len(lines) < maxLine+1
	L.Add(up, "hist:upward-jump")
	L.Add(shorter, "hist:rewrite-shorter")
	L.Add(longerRewrite, "hist:rewrite-longer")
	L.Add(pastMax, "hist:jump-past-max-leaving-gap")
	L.Add(gap, "hist:final-gap")
	L.Add(same, "hist:same-line-twice-in-a-row")
	L.Add(fmtw, "hist:WriteForLinef")
	L.Add(len(c.Upds) > 0 && c.Upds[0].Line > 0, "hist:first-update-not-line-0")
	L.Add(len(c.Upds) > 0 && c.Upds[len(c.Upds)-1].Line < maxLine, "hist:last-update-above-max")
	for _, l := range c.Obs.All() {
		L.Add(true, l)
	}
	nt := len(c.Upds) >= 6 && len(lines) >= 3 && up && shorter && (overlong || !c.Trim)
	return nt, L
}

// ---------------------------------------------------------------------------
// specs

var trimSpec = pbt.Spec[TrimCase]{
	Property: "C20", Name: "trim",
	Rule:   "text = motif of narrow runes (ASCII incl. 'm','[',';' / Latin-1, Greek, Cyrillic, box+block elements, 4-byte math letters) with visible length drawn relative to the width (0, 1..3, <=w, w-1, w, w+1, w+1..w+12) and 0..4 well-formed SGR sequences at start / end / around the cut / anywhere; width 1..200 (biased small); trim on (90%) / off. Oracle: emitted bytes are a prefix of the text, end on a token boundary (not inside ESC[..m, not inside a rune), hold <= w visible runes, hold min(w, visible) visible runes, and equal the text when it fits; trim off: unchanged. Non-trivial: trim on and visible length > width",
	Budget: pbt.Budget{Quick: 96000, Thorough: 1200000},
	Gen:    genTrim, Check: checkTrim, Classify: classifyTrim,
}

var histSpec = pbt.Spec[HistCase]{
	Property: "C20", Name: "history",
	Rule:   "1..40 updates (line from a per-case pool of 1..8 indexes in 0..40, biased low; text as in 'trim'; WriteForLine or WriteForLinef) + Close, width 1..200, trim on (80%) / off (then mostly only fitting texts); applied to multiterm.New() with stdout captured, to BufferedTerm, to helpers.BuildVTerm(true|false) with stdout not a terminal, and to VirtualTerm.WriteToOutput. Oracle: reference terminal (deferred wrap, unbounded rows) interprets the emitted bytes: stream well-formed, no wrap, every written row shows the first min(w,n) visible runes of its last text, every other row blank, cursor on row max+1 column 0 and visible after Close; buffered/virtual: exactly lines 0..max, newline-terminated, each obeying the trim laws (or unchanged with trim off). Non-trivial: >=6 updates touching >=3 lines with an upward jump, a rewrite with a shorter text and (trim on) a text longer than the width",
	Budget: pbt.Budget{Quick: 48000, Thorough: 800000},
	Gen:    genHistory, Check: checkHistory, Classify: classifyHistory,
}

// The trim tests come first: a non-terminating cut loop is then reported
// through the driver's own watchdog before stdout is ever redirected.
func TestTrim(t *testing.T) { pbt.Run(t, trimSpec) }

// TestTrimExhaustive: every token string of length <= L over
// {a, m, é, █, ESC[31m, ESC[0m} x every width 1..L+1, trim on; plus trim off
// at width 3.
func TestTrimExhaustive(t *testing.T) {
	L := 6
	if pbt.Thorough() {
		L = 7
	}
	alpha := []string{"a", "m", "é", "█", "\x1b[31m", "\x1b[0m"}
	sp := trimSpec
	sp.Name = "trim-exhaustive"
	sp.Rule = fmt.Sprintf("bounded-exhaustive: all token strings of length<=%d over {a,m,é,█,ESC[31m,ESC[0m} x widths 1..%d (trim on) + width 3 (trim off); same oracle; non-trivial: trim on and visible length > width", L, L+1)
	pbt.Enum(t, sp, func(yield func(TrimCase) bool) {
		idx := make([]int, 0, L)
		var rec func() bool
		rec = func() bool {
			var sb strings.Builder
			for _, i := range idx {
				sb.WriteString(alpha[i])
			}
			text := pbt.S(sb.String())
			for w := 1; w <= L+1; w++ {
				if !yield(TrimCase{Width: w, Trim: true, Text: text}) {
					return false
				}
			}
			if !yield(TrimCase{Width: 3, Trim: false, Text: text}) {
				return false
			}
			if len(idx) == L {
				return true
			}
			for i := range alpha {
				idx = append(idx, i)
				if !rec() {
					return false
				}
				idx = idx[:len(idx)-1]
			}
			return true
		}
		rec()
	})
}

func TestHistory(t *testing.T) { pbt.Run(t, histSpec) }

// TestHistoryExhaustive: every history of length <= L over lines {0,1,3} x
// six texts (empty, short, exactly the width, longer, coloured longer,
// multi-byte) at width 4 with trim on, and the fitting texts with trim off.
func TestHistoryExhaustive(t *testing.T) {
	L := 4
	if pbt.Thorough() {
		L = 5
	}
	lines := []int{0, 1, 3}
	texts := []string{"", "ab", "abcd", "abcdefg", "\x1b[31mABCDE\x1b[0m", "é█"}
	type sym struct {
		line int
		text string
	}
	var syms []sym
	for _, l := range lines {
		for _, x := range texts {
			syms = append(syms, sym{l, x})
		}
	}
	sp := histSpec
	sp.Name = "history-exhaustive"
	sp.Rule = fmt.Sprintf("bounded-exhaustive: all histories of length<=%d over lines {0,1,3} x texts {\"\",ab,abcd,abcdefg,red ABCDE reset,é█} at width 4, trim on; and over the texts that fit, trim off; same oracle; non-trivial: >=3 updates with an upward jump and a rewrite with a shorter text", L)
	sp.Classify = func(c HistCase) (bool, []string) {
		last := map[int]int{}
		up, shorter := false, false
		for i, u := range c.Upds {
			n := visLen(string(u.Text))
			if i > 0 && u.Line < c.Upds[i-1].Line {
				up = true
			}
			if old, ok := last[u.Line]; ok && n < old {
				shorter = true
			}
			last[u.Line] = n
		}
		return len(c.Upds) >= 3 && up && shorter, nil
	}
	pbt.Enum(t, sp, func(yield func(HistCase) bool) {
		for _, trim := range []bool{true, false} {
			var pool []sym
			for _, s := range syms {
				if trim || utf8.RuneCountInString(s.text) <= 4 && !strings.Contains(s.text, "\x1b") {
					pool = append(pool, s)
				}
			}
			idx := make([]int, 0, L)
			var rec func() bool
			rec = func() bool {
				c := HistCase{Width: 4, Trim: trim, Obs: pbt.NewObs()}
				for _, i := range idx {
					c.Upds = append(c.Upds, Upd{Line: pool[i].line, Text: pbt.S(pool[i].text)})
				}
				if !yield(c) {
					return false
				}
				if len(idx) == L {
					return true
				}
				for i := range pool {
					idx = append(idx, i)
					if !rec() {
						return false
					}
					idx = idx[:len(idx)-1]
				}
				return true
			}
			if !rec() {
				return
			}
		}
	})
}
