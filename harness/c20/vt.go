// Package c20 holds the check of property C20 (the live terminal shows the
// latest text of every line, within its width).
//
// This file is the reference side: a terminal-emulator model of the control
// subset a line-oriented in-place writer needs (VT), and the reference reading
// of "a line longer than the width is cut to a prefix that neither exceeds the
// width in visible characters nor ends inside a colour escape sequence"
// (tokenize / CheckTrim). Both are written from the property statement and
// from the ECMA-48 / VT100 meaning of the sequences, not from rare's code.
package c20

import (
	"fmt"
	"strconv"
	"strings"
	"unicode/utf8"
)

// ---------------------------------------------------------------------------
// Text domain
//
// A line text is a sequence of tokens: a visible rune that occupies exactly
// one terminal cell, or an SGR colour sequence ESC [ params m with params over
// [0-9;] (the form pkg/color emits), which occupies none. Everything else
// (control characters, tabs, wide / combining / format runes, invalid UTF-8,
// other escape sequences) is outside the domain the statement talks about.

// NarrowRune reports whether r is in the whitelisted set of runes that every
// terminal draws in exactly one cell.
func NarrowRune(r rune) bool {
	switch {
	case r >= 0x20 && r <= 0x7e: // ASCII printable
		return true
	case r >= 0xa1 && r <= 0xff && r != 0xad: // Latin-1 supplement without soft hyphen
		return true
	case r >= 0x100 && r <= 0x17f: // Latin Extended-A
		return true
	case r >= 0x391 && r <= 0x3c9 && r != 0x3a2: // Greek
		return true
	case r >= 0x410 && r <= 0x44f: // Cyrillic
		return true
	case r >= 0x2500 && r <= 0x259f: // box drawing + block elements (rare's bars)
		return true
	case r >= 0x1d400 && r <= 0x1d433: // mathematical bold letters: 4-byte, one cell
		return true
	}
	return false
}

// Tok is one token of a line text.
type Tok struct {
	S   string
	Esc bool
}

// Tokenize splits a text into tokens; ok=false when the text is outside the
// domain.
func Tokenize(text string) (toks []Tok, ok bool) {
	for i := 0; i < len(text); {
		if text[i] == 0x1b {
			j := i + 1
			if j >= len(text) || text[j] != '[' {
				return nil, false
			}
			j++
			for j < len(text) && (text[j] == ';' || (text[j] >= '0' && text[j] <= '9')) {
				j++
			}
			if j >= len(text) || text[j] != 'm' {
				return nil, false
			}
			j++
			toks = append(toks, Tok{S: text[i:j], Esc: true})
			i = j
			continue
		}
		r, n := utf8.DecodeRuneInString(text[i:])
		if r == utf8.RuneError && n <= 1 {
			return nil, false
		}
		if !NarrowRune(r) {
			return nil, false
		}
		toks = append(toks, Tok{S: text[i : i+n]})
		i += n
	}
	return toks, true
}

// Visible returns the visible runes of a text (tokens that take a cell).
func Visible(toks []Tok) []rune {
	var out []rune
	for _, t := range toks {
		if !t.Esc {
			r, _ := utf8.DecodeRuneInString(t.S)
			out = append(out, r)
		}
	}
	return out
}

// CheckTrim judges out as the width-w cut of text (text must be in domain).
// Laws, each from the statement:
//
//	prefix        out is a prefix of text ("cut to a prefix")
//	whole tokens  out does not end inside an escape sequence (nor inside a rune)
//	width         out holds at most w visible runes
//	maximal       out holds min(w, visible(text)) visible runes: no character
//	              that fits is cut, and a text with fewer than w visible
//	              runes is left entire ("a line LONGER than the width is cut")
//
// Zero-width escape sequences that follow the w-th visible rune (of a text
// with >= w visible runes) may be kept or dropped: the statement does not
// decide whether the cut falls before or after them.
func CheckTrim(text string, w int, out string) error {
	toks, ok := Tokenize(text)
	if !ok {
		return fmt.Errorf("internal: text outside domain")
	}
	if !strings.HasPrefix(text, out) {
		return fmt.Errorf("trim law 'prefix': emitted %s is not a prefix of the text %s", q(out), q(text))
	}
	nvis := 0
	for _, t := range toks {
		if !t.Esc {
			nvis++
		}
	}
	off, vis := 0, 0
	boundary := len(out) == 0
	for _, t := range toks {
		if off >= len(out) {
			break
		}
		end := off + len(t.S)
		if len(out) < end {
			if t.Esc {
				return fmt.Errorf("trim law 'not inside an escape sequence': emitted %s ends %d byte(s) into the sequence %s of text %s (width %d)", q(out), len(out)-off, q(t.S), q(text), w)
			}
			return fmt.Errorf("trim law 'prefix of whole characters': emitted %s ends inside the rune %s of text %s (width %d)", q(out), q(t.S), q(text), w)
		}
		if !t.Esc {
			vis++
		}
		off = end
		if off == len(out) {
			boundary = true
		}
	}
	if !boundary {
		return fmt.Errorf("internal: no token boundary at %d in %s", len(out), q(text))
	}
	if vis > w {
		return fmt.Errorf("trim law 'width': emitted %s has %d visible characters, width is %d (text %s)", q(out), vis, w, q(text))
	}
	want := nvis
	if w < want {
		want = w
	}
	if vis < want {
		return fmt.Errorf("trim law 'maximal': emitted %s has %d visible characters although %d of the text's %d fit in width %d (text %s)", q(out), vis, want, nvis, w, q(text))
	}
	if nvis < w && out != text {
		return fmt.Errorf("trim law 'only longer lines are cut': text %s has %d visible characters (width %d) but was cut to %s", q(text), nvis, w, q(out))
	}
	return nil
}

// ExpectedRow is what a screen row of width w (0 = no cut) must show for a
// text: its first min(w, n) visible runes, as drawn (trailing blanks are not
// distinguishable from erased cells and are dropped).
func ExpectedRow(text string, w int) string {
	toks, _ := Tokenize(text)
	vis := Visible(toks)
	if w > 0 && len(vis) > w {
		vis = vis[:w]
	}
	return strings.TrimRight(string(vis), " ")
}

func q(s string) string {
	x := strconv.QuoteToASCII(s)
	if len(x) > 240 {
		x = x[:240] + "…(" + strconv.Itoa(len(s)) + " bytes)"
	}
	return x
}

// ---------------------------------------------------------------------------
// Terminal model

// VT is a reference terminal: a grid with unbounded rows (row 0 is where the
// cursor was when the program started; no scrolling is modelled) and, when
// W > 0, W columns with the VT100 deferred wrap ("last column flag"): a glyph
// drawn in the last column leaves the cursor there with Pending set, the next
// glyph first moves to column 0 of the next row. Interpreted:
//
//	glyphs            one cell each
//	LF                next row, column 0 (tty ONLCR, the mode rare runs in)
//	CR                column 0
//	CSI n A/B/C/D     cursor up / down / right / left
//	CSI n E/F         next / previous line, column 0
//	CSI n G           column n
//	CSI 0|1|2 K       erase in line (lenient reading: EL 0 issued while the
//	                  wrap is pending erases nothing, which is the weakest
//	                  behaviour among real terminals)
//	CSI ? 25 h/l      cursor visible / hidden
//	CSI ... m         SGR: zero width, counted
//
// Anything else makes Feed return an error: the model cannot judge it.
type VT struct {
	W       int
	Rows    map[int][]rune // 0 = blank cell
	Row     int
	Col     int
	Pending bool
	Visible bool

	Wraps    int // glyphs that were pushed to the next row by the right margin
	WrapRow  int // row of the first such glyph's origin
	SGRs     int
	Touched  map[int]bool // rows in which a glyph was drawn or cells erased
	MinRow   int          // extent of cursor travel
	MaxRow   int
	Overshot int // glyphs drawn beyond column W-1 are impossible; counts CUF clamps (informational)
}

func NewVT(w int) *VT {
	return &VT{W: w, Rows: map[int][]rune{}, Visible: true, Touched: map[int]bool{}}
}

func (v *VT) track() {
	if v.Row < v.MinRow {
		v.MinRow = v.Row
	}
	if v.Row > v.MaxRow {
		v.MaxRow = v.Row
	}
}

func (v *VT) put(r rune) {
	if v.W > 0 && v.Pending {
		if v.Wraps == 0 {
			v.WrapRow = v.Row
		}
		v.Wraps++
		v.Row++
		v.Col = 0
		v.Pending = false
		v.track()
	}
	row := v.Rows[v.Row]
	for len(row) <= v.Col {
		row = append(row, 0)
	}
	row[v.Col] = r
	v.Rows[v.Row] = row
	v.Touched[v.Row] = true
	if v.W > 0 && v.Col == v.W-1 {
		v.Pending = true
	} else {
		v.Col++
	}
}

func (v *VT) erase(from, to int) { // [from, to)
	row := v.Rows[v.Row]
	if to > len(row) {
		to = len(row)
	}
	for i := from; i < to; i++ {
		row[i] = 0
	}
	v.Touched[v.Row] = true
}

func (v *VT) clampCol() {
	if v.Col < 0 {
		v.Col = 0
	}
	if v.W > 0 && v.Col > v.W-1 {
		v.Col = v.W - 1
		v.Overshot++
	}
}

// Feed interprets b. It may be called repeatedly; a sequence must not be
// split across calls.
func (v *VT) Feed(b []byte) error {
	for i := 0; i < len(b); {
		c := b[i]
		switch {
		case c == '\n':
			v.Row++
			v.Col = 0
			v.Pending = false
			v.track()
			i++
		case c == '\r':
			v.Col = 0
			v.Pending = false
			i++
		case c == 0x1b:
			n, err := v.csi(b[i:])
			if err != nil {
				return fmt.Errorf("at output byte %d: %v", i, err)
			}
			i += n
		case c < 0x20 || c == 0x7f:
			return fmt.Errorf("at output byte %d: control character %#02x is outside the modelled subset", i, c)
		default:
			r, n := utf8.DecodeRune(b[i:])
			if r == utf8.RuneError && n <= 1 {
				return fmt.Errorf("at output byte %d: invalid UTF-8 (%#02x): a multi-byte character was cut or mangled", i, c)
			}
			if r >= 0x80 && r < 0xa0 {
				return fmt.Errorf("at output byte %d: C1 control %U is outside the modelled subset", i, r)
			}
			v.put(r)
			i += n
		}
	}
	return nil
}

func (v *VT) csi(b []byte) (int, error) {
	if len(b) < 2 {
		return 0, fmt.Errorf("output ends inside an escape sequence %s", q(string(b)))
	}
	if b[1] != '[' {
		return 0, fmt.Errorf("escape sequence %s is not a CSI sequence (an earlier sequence was cut short, or unmodelled control)", q(string(b[:2])))
	}
	j := 2
	for j < len(b) && b[j] >= 0x30 && b[j] <= 0x3f {
		j++
	}
	params := string(b[2:j])
	for j < len(b) && b[j] >= 0x20 && b[j] <= 0x2f {
		j++
	}
	if j >= len(b) {
		return 0, fmt.Errorf("output ends inside the escape sequence %s", q(string(b)))
	}
	final := b[j]
	if final < 0x40 || final > 0x7e {
		end := j + 1
		return 0, fmt.Errorf("escape sequence %s is cut short: byte %#02x follows before its final byte", q(string(b[:end])), final)
	}
	seq := string(b[:j+1])
	num := func(def int) (int, error) {
		if params == "" {
			return def, nil
		}
		n, err := strconv.Atoi(params)
		if err != nil || n < 0 {
			return 0, fmt.Errorf("unmodelled parameters in %s", q(seq))
		}
		return n, nil
	}
	cnt := func() (int, error) { // cursor movement count: 0 means 1
		n, err := num(1)
		if n == 0 {
			n = 1
		}
		return n, err
	}
	var n int
	var err error
	switch final {
	case 'm':
		for _, ch := range params {
			if !(ch == ';' || ch == ':' || (ch >= '0' && ch <= '9')) {
				return 0, fmt.Errorf("unmodelled SGR %s", q(seq))
			}
		}
		v.SGRs++
	case 'A':
		if n, err = cnt(); err == nil {
			v.Row -= n
			v.Pending = false
			v.track()
		}
	case 'B':
		if n, err = cnt(); err == nil {
			v.Row += n
			v.Pending = false
			v.track()
		}
	case 'C':
		if n, err = cnt(); err == nil {
			v.Col += n
			v.Pending = false
			v.clampCol()
		}
	case 'D':
		if n, err = cnt(); err == nil {
			v.Col -= n
			v.Pending = false
			v.clampCol()
		}
	case 'E':
		if n, err = cnt(); err == nil {
			v.Row += n
			v.Col = 0
			v.Pending = false
			v.track()
		}
	case 'F':
		if n, err = cnt(); err == nil {
			v.Row -= n
			v.Col = 0
			v.Pending = false
			v.track()
		}
	case 'G':
		if n, err = cnt(); err == nil {
			v.Col = n - 1
			v.Pending = false
			v.clampCol()
		}
	case 'K':
		if n, err = num(0); err == nil {
			switch n {
			case 0:
				if !v.Pending {
					v.erase(v.Col, 1<<30)
				}
			case 1:
				v.erase(0, v.Col+1)
			case 2:
				v.erase(0, 1<<30)
			default:
				err = fmt.Errorf("unmodelled erase %s", q(seq))
			}
		}
	case 'h', 'l':
		if params == "?25" {
			v.Visible = final == 'h'
		} else {
			err = fmt.Errorf("mode sequence %s is outside the modelled subset", q(seq))
		}
	default:
		err = fmt.Errorf("sequence %s is outside the modelled subset", q(seq))
	}
	if err != nil {
		return 0, err
	}
	return j + 1, nil
}

// RowText is what row r shows: blank cells read as spaces, trailing blanks
// dropped.
func (v *VT) RowText(r int) string {
	row := v.Rows[r]
	out := make([]rune, len(row))
	for i, c := range row {
		if c == 0 {
			c = ' '
		}
		out[i] = c
	}
	return strings.TrimRight(string(out), " ")
}
