package c08

import (
	"math/big"
	"math/bits"
	"strconv"
	"strings"
	"unicode"

	"pgregory.net/rapid"
)

// ---------------------------------------------------------------------------
// expression trees and their printer

type nodeKind int

const (
	nLit nodeKind = iota
	nGroup
	nKey
	nCall
	nRaw
)

type node struct {
	kind nodeKind
	val  string // literal value | group index spelling | key name | function name | raw template text
	args []*node
	dyn  bool // nRaw: reads the context
}

func lit(v string) *node   { return &node{kind: nLit, val: v} }
func group(i string) *node { return &node{kind: nGroup, val: i} }
func key(n string) *node   { return &node{kind: nKey, val: n} }
func raw(t string, dyn bool) *node {
	return &node{kind: nRaw, val: t, dyn: dyn}
}
func call(name string, args ...*node) *node { return &node{kind: nCall, val: name, args: args} }

func isSpecialByte(b byte) bool {
	switch b {
	case '\\', '{', '}', '"', ' ', '\t', '\n', '\r', '\v', '\f':
		return true
	}
	return false
}

// escapeOnce adds one layer of backslashes (all special characters are ASCII;
// other bytes, valid UTF-8 or not, are copied as they are).
func escapeOnce(s string) string {
	var sb strings.Builder
	for i := 0; i < len(s); i++ {
		if isSpecialByte(s[i]) {
			sb.WriteByte('\\')
		}
		sb.WriteByte(s[i])
	}
	return sb.String()
}

func hasSpecial(s string) (ws, hard bool) {
	for _, r := range s {
		switch {
		case r == '\\' || r == '{' || r == '}' || r == '"':
			hard = true
		case unicode.IsSpace(r):
			ws = true
		}
	}
	return
}

// printLit prints a constant so that (up to nesting depth 2) the helper
// receives the value: the text of an argument passes 1+2*depth unescaping
// layers (outer compiler, then argument splitter + nested compiler per level).
func printLit(v string, depth int, quoteWS bool) string {
	if v == "" {
		if depth == 0 {
			return ""
		}
		return `""`
	}
	ws, hard := hasSpecial(v)
	if !ws && !hard {
		return v
	}
	if depth == 0 {
		return escapeOnce(v)
	}
	if !hard && quoteWS {
		return `"` + v + `"`
	}
	passes := 1 + 2*depth
	if passes > 5 {
		passes = 1
	}
	out := v
	for i := 0; i < passes; i++ {
		out = escapeOnce(out)
	}
	return out
}

type printer struct {
	seps  []string // separators between arguments, cycled
	sepAt int
	quote bool
}

func (p *printer) sep() string {
	if len(p.seps) == 0 {
		return " "
	}
	s := p.seps[p.sepAt%len(p.seps)]
	p.sepAt++
	return s
}

func (p *printer) print(n *node, depth int) string {
	switch n.kind {
	case nLit:
		return printLit(n.val, depth, p.quote)
	case nGroup:
		return "{" + n.val + "}"
	case nKey:
		return "{" + printLit(n.val, depth+1, false) + "}"
	case nRaw:
		return n.val
	case nCall:
		var sb strings.Builder
		sb.WriteByte('{')
		sb.WriteString(n.val)
		for _, a := range n.args {
			sb.WriteString(p.sep())
			sb.WriteString(p.print(a, depth+1))
		}
		sb.WriteByte('}')
		return sb.String()
	}
	return ""
}

func (n *node) walk(f func(*node)) {
	f(n)
	for _, a := range n.args {
		a.walk(f)
	}
}

func (n *node) dynamic() bool {
	d := false
	n.walk(func(m *node) {
		if m.kind == nGroup || m.kind == nKey || (m.kind == nRaw && m.dyn) {
			d = true
		}
	})
	return d
}

// ---------------------------------------------------------------------------
// generator state

type taint struct {
	k    kind
	pins []string
}

type gen struct {
	t        *rapid.T
	taints   map[string]taint // "g0".."g5", "k:<name>"
	bigUsed  bool             // one medium (1000..10000) size per template
	inBody   int
	calls    int
	maxDepth int
	fnSeen   []string
	// wild: arities 0-5 at random, unknown helpers, values of any kind in any
	// position; otherwise the documented shapes (most of which compile cleanly)
	wild bool
}

// intn draws uniformly from [0,n). rapid's integer generators deliberately
// favour 0, 1 and the maximum (a 2% branch written with IntRange(0,99) fires
// 17% of the time), so the number is assembled from unbiased single bits,
// with rejection; it still shrinks towards 0.
func (g *gen) intn(n int, label string) int {
	if n <= 1 {
		return 0
	}
	k := bits.Len(uint(n - 1))
	for {
		v := 0
		for i := 0; i < k; i++ {
			v <<= 1
			if bitGen.Draw(g.t, label) {
				v |= 1
			}
		}
		if v < n {
			return v
		}
	}
}

var bitGen = rapid.Bool()

func (g *gen) pct(p int, label string) bool { return g.intn(100, label) < p }
func (g *gen) pick(l []string, label string) string {
	return l[g.intn(len(l), label)]
}

var longUnits = []string{"x", "ab ", "\x00", "1", "é", "\xff", "9", "1\x00", "a,", "{", "\\", "\"", " ", "%d"}

func (g *gen) longString() string {
	u := g.pick(longUnits, "longunit")
	// bounded: a helper that is linear in its input, evaluated once per element
	// of an array made from another long value, costs the product of the two
	n := 300
	switch g.intn(20, "longclass") {
	case 0:
		n = 20000
	case 1, 2, 3, 4:
		n = 5000
	}
	return strings.Repeat(u, n/len(u)+1)
}

func (g *gen) sizeValue() string {
	c := g.intn(100, "sizeclass")
	switch {
	case c < 52:
		return g.pick(sizeSmall, "sizesmall")
	case c < 60:
		if !g.bigUsed {
			g.bigUsed = true
			return g.pick(sizeMedium, "sizemed")
		}
		return g.pick(sizeSmall, "sizesmall")
	case c < 78:
		return g.pick(astroInts, "sizeastro")
	case c < 89:
		return g.pick(sizeNeg, "sizeneg")
	}
	return g.pick(sizeJunk, "sizejunk")
}

func (g *gen) value(k kind) string {
	if k.size() {
		return g.sizeValue()
	}
	if g.pct(2, "long") {
		return g.longString()
	}
	if k != kAny && g.pct(22, "wild") {
		return g.pick(poolAny, "anyval")
	}
	return g.pick(pool(k), "val")
}

// constValue is a value written into the template: never a very long one.
func (g *gen) constValue(k kind) string {
	if k.size() {
		return g.sizeValue()
	}
	if k != kAny && g.wild && g.pct(20, "wildc") {
		return g.pick(poolAny, "anyval")
	}
	return g.pick(pool(k), "val")
}

var groupIdx = []string{"0", "1", "2", "3", "4", "0", "1", "2"}
var oddIdx = []string{"-1", "5", "9", "99", "01", "+1", " 1 ", maxI64, pastI64, "-0", "-2"}

// ref returns a group or key reference whose context values will suit k.
func (g *gen) ref(k kind, pins []string) *node {
	if g.inBody > 0 {
		// inside a sub-expression {0},{1} are the element/memo; keys pass through
		c := g.intn(100, "bodyref")
		switch {
		case c < 55:
			return group("0")
		case c < 75:
			return group("1")
		case c < 83:
			return group(g.pick(oddIdx, "oddidx"))
		case c < 88:
			return group("2")
		}
		if k.size() {
			return lit(g.sizeValue())
		}
		return key(g.pick(keyNames, "keyname"))
	}
	if !k.size() && pins == nil && g.pct(6, "oddref") {
		return group(g.pick(oddIdx, "oddidx"))
	}
	useKey := g.pct(14, "usekey")
	for try := 0; try < 4; try++ {
		var id string
		var n *node
		if useKey {
			name := g.pick(keyNames, "keyname")
			id, n = "k:"+name, key(name)
		} else {
			i := g.pick(groupIdx, "gidx")
			id, n = "g"+i, group(i)
		}
		old, seen := g.taints[id]
		switch {
		case !seen:
			g.taints[id] = taint{k, pins}
			return n
		case pins != nil || old.pins != nil:
			continue // pinned groups are not shared
		case k.size() && !old.k.size():
			continue // would let arbitrary values into a size position
		default:
			return n
		}
	}
	if k.size() {
		return lit(g.sizeValue())
	}
	return lit(g.constValue(k))
}

func (g *gen) unknownName() string {
	return g.pick([]string{"nope", "SUMI", "sumi2", "su mi", "@nope", "é", "0", "-1", "\"sumi\"", "{sumi}", "sumi\x00"}, "unknownfn")
}

func (g *gen) fnName() string {
	if g.wild && g.pct(5, "unknown") {
		return g.unknownName()
	}
	return g.pick(functionNames, "fn")
}

func (g *gen) arity(spec fnSpec) int {
	if g.wild && g.pct(45, "anyarity") {
		return g.intn(6, "arity")
	}
	n := len(spec.args)
	if spec.hasVar {
		n += spec.minVar + g.intn(3, "varargs")
	} else if spec.opt > 0 {
		n -= g.intn(spec.opt+1, "optargs")
	}
	return n
}

// intProducers etc.: nested calls that tend to produce a value of the kind.
var (
	intFns   = []string{"sumi", "subi", "multi", "divi", "modi", "maxi", "mini", "len", "@len", "ceil", "floor", "bucket", "expbucket", "time", "duration", "!"}
	floatFns = []string{"sumf", "subf", "multf", "divf", "pow", "sqrt", "ln", "log2", "log10", "round", "!"}
	condFns  = []string{"eq", "neq", "not", "lt", "gt", "lte", "gte", "and", "or", "isint", "isnum", "like", "prefix", "suffix", "haskey", "@in"}
	arrFns   = []string{"@", "$", "@split", "@range", "@map", "@filter", "@slice", "@for", "@"}
)

func (g *gen) callFor(k kind, depth int) *node {
	var l []string
	switch k {
	case kInt, kUint, kCInt:
		l = intFns
	case kFloat, kCFloat:
		l = floatFns
	case kCond:
		l = condFns
	case kArr, kCArr:
		l = arrFns
	}
	if l != nil && g.pct(65, "typedcall") {
		return g.namedCall(g.pick(l, "typedfn"), depth)
	}
	return g.anyCall(depth)
}

func (g *gen) anyCall(depth int) *node {
	return g.namedCall(g.fnName(), depth)
}

func (g *gen) namedCall(name string, depth int) *node {
	g.calls++
	g.fnSeen = append(g.fnSeen, name)
	spec := specOf(name)
	switch {
	case name == "@range" && g.pct(80, "rangeshape"):
		return g.rangeCall()
	case name == "@for" && g.pct(92, "forshape"):
		return g.forCall(depth)
	case name == "!" && g.pct(85, "formulashape"):
		return g.formulaCall()
	}
	n := g.arity(spec)
	args := make([]*node, n)
	for i := range args {
		k := spec.at(i)
		if name == "json" && n == 1 {
			k = kJPath // {json path} reads the document from {0}
		}
		args[i] = g.arg(k, depth+1)
	}
	return call(name, args...)
}

func (g *gen) arg(k kind, depth int) *node {
	switch k {
	case kBody, kBody2:
		g.inBody++
		defer func() { g.inBody-- }()
		c := g.intn(100, "bodyform")
		switch {
		case c < 12:
			return g.ref(kAny, nil)
		case c < 20:
			return lit(g.constValue(kAny))
		case c < 30:
			return raw(g.pick([]string{"{0}{1}", "\"{0} {1}\"", "{0}x", "\"{-1}\"", "{k}", "{0}{k}", "\"{time live}\"", "{sumi {0} {len {k}}}", "{@map {0} {1}}", "{{0}}", "{1}{0}"}, "rawbody"), true)
		}
		if depth >= g.maxDepth {
			return call(g.pick([]string{"sumi", "multi", "upper", "len", "eq", "isnum", "divi", "subi", "tab", "repeat", "substr"}, "bodyfn"), g.ref(kAny, nil), g.ref(kAny, nil))
		}
		return g.anyCall(depth)
	}
	if k.size() {
		c := g.intn(100, "sizeform")
		switch {
		case k == kCSize && (c < 85 || !g.wild), k == kSize && c < 45:
			return lit(g.sizeValue())
		case c < 92:
			return g.ref(k, nil)
		}
		// small computed sizes
		return raw(g.pick([]string{"{len abc}", "{@len {@ a b c}}", "{sumi 1 2}", "{divi 7 2}", "{modi 7 0}", "{! 2^3}", "{mini 3 {len abcdef}}"}, "sizecall"), false)
	}
	if k.constant() {
		if !g.wild || g.pct(75, "constform") {
			return lit(g.constValue(k))
		}
		if g.pct(50, "constcall") && depth < g.maxDepth {
			return g.callFor(k, depth)
		}
		return g.ref(k, nil)
	}
	c := g.intn(100, "form")
	switch {
	case c < 28:
		return lit(g.constValue(k))
	case c < 64:
		return g.ref(k, nil)
	case depth < g.maxDepth && g.calls < 28:
		return g.callFor(k, depth)
	}
	return g.ref(k, nil)
}

// rangeCall builds {@range ..} whose exact element count is small although
// the bounds may lie anywhere in int64 (so the loop variable may have to stop
// at the very end of the integer range), or whose count is astronomic.
func (g *gen) rangeCall() *node {
	starts := []string{"0", "0", "1", "-3", "5", "100", maxI64, "9223372036854775800", "9223372036854775806", minI64, "-9223372036854775800", two62, "-" + two62, "2147483647"}
	incrs := []string{"1", "1", "2", "3", "7", "-1", "-2", "-5", two62, maxI64, minI64, "-" + two62, "9223372036854775806", "0"}
	start, _ := new(big.Int).SetString(g.pick(starts, "rstart"), 10)
	incr, _ := new(big.Int).SetString(g.pick(incrs, "rincr"), 10)
	count := int64(g.intn(13, "rcount"))
	if !g.bigUsed && g.pct(6, "rbig") {
		g.bigUsed = true
		count = int64(1000 + g.intn(9000, "rcountbig"))
	}
	lo, _ := new(big.Int).SetString(minI64, 10)
	hi, _ := new(big.Int).SetString(maxI64, 10)
	stop := new(big.Int).Mul(incr, big.NewInt(count))
	stop.Add(stop, start)
	if g.pct(40, "roff") && count > 0 { // stop not on the grid
		if incr.Sign() > 0 {
			stop.Sub(stop, big.NewInt(1))
		} else if incr.Sign() < 0 {
			stop.Add(stop, big.NewInt(1))
		}
	}
	if stop.Cmp(hi) > 0 {
		stop.Set(hi)
	}
	if stop.Cmp(lo) < 0 {
		stop.Set(lo)
	}
	vals := []string{start.String(), stop.String(), incr.String()}
	switch g.intn(100, "rspecial") {
	case 0, 1, 2: // astronomic span: can never be honoured
		vals = []string{g.pick([]string{minI64, "0", "-" + two62, "-1"}, "rastroA"), g.pick([]string{maxI64, two62, "6917529027641081856"}, "rastroB"), g.pick([]string{"1", "2", "1"}, "rastroC")}
	case 3, 4:
		vals = []string{g.pick([]string{maxI64, two62, "0"}, "rastroA"), g.pick([]string{minI64, "-" + two62}, "rastroB"), g.pick([]string{"-1", "-3"}, "rastroC")}
	case 5, 6, 7: // contradictory / junk
		vals[g.intn(3, "rjunkpos")] = g.pick(sizeJunk, "rjunk")
	}
	arity := 3
	if vals[2] == "1" && g.pct(50, "r2") {
		arity = 2
		if vals[0] == "0" && g.pct(50, "r1") {
			arity = 1
		}
	}
	use := vals[:arity]
	if arity == 1 {
		use = vals[1:2]
	}
	dynAt := -1
	if g.inBody == 0 && g.pct(45, "rdyn") {
		dynAt = g.intn(len(use), "rdynpos")
	}
	args := make([]*node, len(use))
	for i, v := range use {
		if i == dynAt {
			args[i] = g.ref(kSize, []string{v})
		} else {
			args[i] = lit(v)
		}
	}
	return call("@range", args...)
}

// forCall builds {@for start cond incr} in shapes that terminate quickly for
// every context *including the all-empty one the optimiser probes with*.
func (g *gen) forCall(depth int) *node {
	bound := strconv.Itoa(g.intn(24, "forbound"))
	var start, cond, incr *node
	g.inBody++
	bodies := []string{"{sumi {0} 1}", "{sumi {0} 3}", "{0}x", "{upper {0}}", "{k}", "{-1}", "{sumi {0} {len {k}}}", "{multi {0} 2}", "{1}", "\"{0} \"", "{divi 100 {1}}", "{substr {0} 1 5}", "{subi {0} " + two62 + "}", "{time live}", "{0}{1}"}
	incr = raw(g.pick(bodies, "forbody"), true)
	if depth < g.maxDepth && g.pct(25, "forbodycall") {
		incr = g.anyCall(depth + 1)
	}
	switch g.intn(4, "forshape") {
	case 0: // index bound
		cond = raw("{lt {1} "+bound+"}", true)
	case 1: // index bound and a free extra condition
		extra := g.arg(kCond, g.maxDepth)
		cond = call("and", raw("{lt {1} "+bound+"}", true), extra)
	case 2: // value bound with constant limits
		s := g.intn(40, "forstart") - 20
		cond = raw("{and {lt {1} 64} {lt {0} "+strconv.Itoa(s+g.intn(40, "forspan"))+"}}", true)
		start = lit(strconv.Itoa(s))
	default: // bound read from the match, guarded so that the probe and junk stop at once
		g.inBody--
		r := g.ref(kSize, append([]string{"0", "1", "2", "5", "17", "40", "", "x", maxI64}, sizeSmall[:8]...))
		g.inBody++
		p := &printer{}
		rs := p.print(r, 2)
		if r.kind == nLit {
			rs = "7"
		}
		cond = raw("{and {isint "+rs+"} {lt "+rs+" 41} {lt {1} "+rs+"}}", true)
	}
	g.inBody--
	if start == nil {
		start = g.arg(kAny, g.maxDepth)
	}
	return call("@for", start, cond, incr)
}

func (g *gen) formulaCall() *node {
	n := 1 + g.intn(3, "fparts")
	args := make([]*node, n)
	for i := range args {
		if g.pct(8, "fdyn") {
			args[i] = g.ref(kFloat, nil) // not constant: <CONST>
		} else {
			args[i] = lit(g.pick(formulas, "formula"))
		}
	}
	return call("!", args...)
}

var sepChoices = [][]string{{" "}, {" "}, {" "}, {"  "}, {"\t"}, {"\n"}, {" ", "\t", "  ", "\n "}, {" \r\n"}}

// template builds a whole template; it returns the text and the tree parts.
func (g *gen) template() (string, []*node) {
	nparts := 1
	if g.pct(30, "multipart") {
		nparts = 2 + g.intn(2, "nparts")
	}
	var parts []*node
	for i := 0; i < nparts; i++ {
		c := g.intn(100, "part")
		switch {
		case c < 76 || (nparts == 1 && c < 94):
			parts = append(parts, g.anyCall(0))
		case c < 84:
			parts = append(parts, lit(g.constValue(kAny)))
		case c < 94:
			parts = append(parts, g.ref(kAny, nil))
		default:
			parts = append(parts, raw(g.pick([]string{"{}", "{ }", "}", "{{0}}", "{\"\"}", "{0 }", "{ 0}", "{\"0\"}", "{1.0}", "{a b}", "{@}", "{!}"}, "oddpart"), true))
		}
	}
	p := &printer{seps: sepChoices[g.intn(len(sepChoices), "seps")], quote: g.pct(60, "quotews")}
	var sb strings.Builder
	for _, n := range parts {
		sb.WriteString(p.print(n, 0))
	}
	return sb.String(), parts
}

// ---------------------------------------------------------------------------
// contexts

type KV struct {
	K, V string
}

type Ctx struct {
	Groups []string
	Keys   []KV
	// NameErr: a missing key reads "<NAME>" (as the extractor's context does)
	// instead of "" (as `rare expression` does).
	NameErr bool
}

func (g *gen) ctxValue(tn taint, tainted bool) string {
	if tainted && tn.pins != nil {
		if g.pct(88, "pin") {
			return g.pick(tn.pins, "pinval")
		}
		return g.pick(sizeJunk, "pinjunk")
	}
	if tainted {
		return g.value(tn.k)
	}
	return g.value(kAny)
}

func (g *gen) context() Ctx {
	var c Ctx
	n := g.intn(7, "ngroups")
	if g.pct(50, "fullgroups") {
		n = 5
	}
	for i := 0; i < n; i++ {
		tn, ok := g.taints["g"+strconv.Itoa(i)]
		c.Groups = append(c.Groups, g.ctxValue(tn, ok))
	}
	seen := map[string]bool{}
	for _, name := range keyNames { // fixed order, not map order
		tn, ok := g.taints["k:"+name]
		if !ok {
			continue
		}
		if g.pct(15, "keymissing") {
			continue
		}
		seen[name] = true
		c.Keys = append(c.Keys, KV{name, g.ctxValue(tn, true)})
	}
	for i, extra := 0, g.intn(3, "extrakeys"); i < extra; i++ {
		name := g.pick(keyNames, "keyname")
		if !seen[name] {
			seen[name] = true
			c.Keys = append(c.Keys, KV{name, g.value(kAny)})
		}
	}
	c.NameErr = g.pct(25, "nameerr")
	return c
}

// ---------------------------------------------------------------------------
// byte-level mutation of a template

var insertBytes = []string{"{", "}", "\"", "\\", " ", "\x00", "\xff", "\n", "\t", "-", "0", "9", "{}", "\\\\", "\"\"", "{0}", "[", "(", ")", "%", "@", "é"}

func (g *gen) mutate(s string) (string, []string) {
	var ops []string
	b := []byte(s)
	n := 1 + g.intn(3, "nedits")
	for e := 0; e < n; e++ {
		if len(b) == 0 {
			b = append(b, g.pick(insertBytes, "ins")...)
			ops = append(ops, "insert")
			continue
		}
		at := g.intn(len(b), "at")
		switch g.intn(12, "edit") {
		case 0:
			b = append(b[:at], b[at+1:]...)
			ops = append(ops, "delete")
		case 1:
			b = append(b[:at+1], b[at:]...)
			ops = append(ops, "duplicate")
		case 2, 3:
			ins := g.pick(insertBytes, "ins")
			b = append(b[:at], append([]byte(ins), b[at:]...)...)
			ops = append(ops, "insert")
		case 4:
			b = b[:at]
			ops = append(ops, "truncate")
		case 5:
			b = append(b[:at:at], '\\')
			ops = append(ops, "truncate+backslash")
		case 6:
			if at+1 < len(b) {
				b[at], b[at+1] = b[at+1], b[at]
			}
			ops = append(ops, "swap")
		case 7: // drop one brace / quote / backslash
			idx := indexAnyFrom(b, at, "{}\"\\")
			if idx >= 0 {
				b = append(b[:idx], b[idx+1:]...)
			}
			ops = append(ops, "drop-special")
		case 8: // duplicate one brace / quote / backslash
			idx := indexAnyFrom(b, at, "{}\"\\")
			if idx >= 0 {
				b = append(b[:idx+1], b[idx:]...)
			}
			ops = append(ops, "dup-special")
		case 9: // flip a brace
			idx := indexAnyFrom(b, at, "{}")
			if idx >= 0 {
				if b[idx] == '{' {
					b[idx] = '}'
				} else {
					b[idx] = '{'
				}
			}
			ops = append(ops, "flip-brace")
		case 10:
			b = append([]byte("{"), append(b, '}')...)
			ops = append(ops, "wrap")
		default:
			b = append(b, g.pick([]string{"{", "\\", "\"", "}", "{a ", "{a {b", "\\{"}, "tail")...)
			ops = append(ops, "append-open")
		}
	}
	return string(b), ops
}

func indexAnyFrom(b []byte, at int, set string) int {
	for i := 0; i < len(b); i++ {
		j := (at + i) % len(b)
		if strings.IndexByte(set, b[j]) >= 0 {
			return j
		}
	}
	return -1
}
