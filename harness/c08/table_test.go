package c08

import (
	"sort"
	"strings"

	"rare/pkg/expressions/funclib"
)

// ---------------------------------------------------------------------------
// argument kinds: what a position of a helper expects. They only steer the
// generator towards values that get past the first type check; every position
// also receives values of every other kind ("wild" draws).

type kind int

const (
	kAny kind = iota
	kInt
	kUint
	kFloat
	kSize    // count / width: small or astronomic, never in between
	kCInt    // constant integer (bucket size, clamp bounds, indexes)
	kCSize   // constant precision / width
	kCFloat  // constant float
	kCStr    // constant short string
	kCDelim  // constant delimiter
	kCArr    // constant array
	kCColor  // colour name
	kCScaler // bar scaler name
	kCTFmt   // time format
	kCTz     // time zone
	kCAttr   // timeattr attribute
	kCBucket // buckettime bucket
	kCond    // truthy / falsy
	kArr     // array value
	kBody    // sub-expression of @map/@filter ({0} = element)
	kBody2   // sub-expression of @reduce ({0} = memo, {1} = element)
	kFmt     // fmt format string
	kJSON
	kJPath
	kTime
	kDur
	kPath
	kFile
	kTable
	kFormula
	kWords
)

func (k kind) constant() bool {
	switch k {
	case kCInt, kCSize, kCFloat, kCStr, kCDelim, kCArr, kCColor, kCScaler, kCTFmt, kCTz, kCAttr, kCBucket, kFile, kTable, kFormula:
		return true
	}
	return false
}

func (k kind) size() bool { return k == kSize || k == kCSize }

type fnSpec struct {
	args     []kind // documented positions
	opt      int    // how many of the trailing documented positions are optional
	variadic kind   // kind of further positions
	hasVar   bool
	minVar   int // least number of variadic arguments
}

func fixed(k ...kind) fnSpec { return fnSpec{args: k} }
func optional(opt int, k ...kind) fnSpec {
	return fnSpec{args: k, opt: opt}
}
func varargs(min int, k kind) fnSpec { return fnSpec{variadic: k, hasVar: true, minVar: min} }
func (f fnSpec) at(i int) kind {
	if i < len(f.args) {
		return f.args[i]
	}
	if f.hasVar {
		return f.variadic
	}
	return kAny
}

// fnTable gives the kinds for the helpers known when this was written. The
// list of functions the generators use is NOT this table but the registered
// table itself (allFunctions): a helper added later is generated with kAny.
var fnTable = map[string]fnSpec{
	"coalesce": varargs(1, kAny), "bucket": fixed(kInt, kCInt), "bucketrange": fixed(kInt, kCInt),
	"clamp": fixed(kInt, kCInt, kCInt), "expbucket": fixed(kInt),
	"isint": fixed(kAny), "isnum": fixed(kAny),
	"sumi": varargs(2, kInt), "subi": varargs(2, kInt), "multi": varargs(2, kInt), "divi": varargs(2, kInt), "modi": varargs(2, kInt),
	"maxi": varargs(2, kInt), "mini": varargs(2, kInt),
	"sumf": varargs(2, kFloat), "subf": varargs(2, kFloat), "multf": varargs(2, kFloat), "divf": varargs(2, kFloat), "pow": varargs(2, kFloat),
	"ceil": fixed(kFloat), "floor": fixed(kFloat), "log10": fixed(kFloat), "log2": fixed(kFloat), "ln": fixed(kFloat), "sqrt": fixed(kFloat),
	"round": optional(1, kFloat, kCSize),
	"!":     varargs(1, kFormula),
	"if":    optional(1, kCond, kAny, kAny), "switch": varargs(2, kAny), "unless": fixed(kCond, kAny),
	"eq": varargs(2, kAny), "neq": varargs(2, kAny), "not": fixed(kCond),
	"lt": fixed(kFloat, kFloat), "gt": fixed(kFloat, kFloat), "lte": fixed(kFloat, kFloat), "gte": fixed(kFloat, kFloat),
	"and": varargs(1, kCond), "or": varargs(1, kCond),
	"len": fixed(kAny), "like": fixed(kAny, kAny), "prefix": fixed(kAny, kAny), "suffix": fixed(kAny, kAny),
	"format": {args: []kind{kFmt}, variadic: kAny, hasVar: true},
	"substr": fixed(kAny, kInt, kInt), "select": fixed(kWords, kInt), "upper": fixed(kAny), "lower": fixed(kAny),
	"tab": varargs(1, kAny), "$": varargs(1, kAny), "@": varargs(1, kAny),
	"@len": fixed(kArr), "@map": fixed(kArr, kBody), "@split": optional(1, kWords, kCDelim), "@select": fixed(kArr, kCInt),
	"@join": optional(1, kArr, kCDelim), "@reduce": optional(1, kArr, kBody2, kCStr), "@filter": fixed(kArr, kBody),
	"@slice": optional(1, kArr, kCInt, kCInt), "@in": fixed(kAny, kCArr),
	"@range": fixed(kSize, kSize, kSize), "@for": fixed(kAny, kCond, kAny),
	"basename": fixed(kPath), "dirname": fixed(kPath), "extname": fixed(kPath),
	"load": fixed(kFile), "lookup": optional(1, kAny, kTable, kCStr), "haskey": optional(1, kAny, kTable, kCStr),
	"hi": fixed(kInt), "hf": fixed(kFloat), "bytesize": optional(1, kUint, kCSize), "bytesizesi": optional(1, kUint, kCSize),
	"downscale": optional(1, kInt, kCSize), "percent": optional(3, kFloat, kCSize, kCFloat, kCFloat),
	"json": optional(1, kJSON, kJPath), "csv": varargs(1, kAny),
	"time": optional(2, kTime, kCTFmt, kCTz), "timeformat": optional(2, kInt, kCTFmt, kCTz), "timeattr": optional(1, kInt, kCAttr, kCTz),
	"buckettime": optional(2, kTime, kCBucket, kCTFmt, kCTz), "duration": fixed(kDur), "durationformat": fixed(kInt),
	"color": fixed(kCColor, kAny), "repeat": fixed(kCStr, kSize), "bar": optional(1, kInt, kCInt, kCSize, kCScaler),
	// user functions (guard_test.go userFuncsFile)
	"u_double": fixed(kInt), "u_pick": optional(2, kCond, kAny, kAny), "u_div": fixed(kInt, kInt), "u_edge": optional(1, kAny),
	"u_rep": fixed(kSize), "u_nest": fixed(kInt, kInt), "u_arr": fixed(kArr),
}

// allFunctions is the registered table (funclib.Builtins = stdlib.StandardFunctions
// merged, plus funclib.Additional), sorted: the generators draw from it.
func allFunctions() []string {
	names := make([]string, 0, len(funclib.Builtins)+len(funclib.Additional))
	for n := range funclib.Builtins {
		names = append(names, n)
	}
	for n := range funclib.Additional {
		if _, dup := funclib.Builtins[n]; !dup {
			names = append(names, n)
		}
	}
	sort.Strings(names)
	return append(names, userFuncNames...)
}

var functionNames = allFunctions()

func specOf(name string) fnSpec {
	if s, ok := fnTable[name]; ok {
		return s
	}
	return varargs(0, kAny)
}

// ---------------------------------------------------------------------------
// boundary values

const (
	maxI64  = "9223372036854775807"
	minI64  = "-9223372036854775808"
	two62   = "4611686018427387904"
	maxU64  = "18446744073709551615"
	over64  = "18446744073709551616"
	pastI64 = "9223372036854775808"
)

var (
	smallInts = []string{"0", "1", "-1", "2", "3", "5", "7", "9", "10", "16", "63", "64", "65", "99", "100"}
	bigInts   = []string{"2147483647", "2147483648", "-2147483648", "4294967296", "9007199254740992", "9007199254740993",
		two62, "-" + two62, "4611686018427387903", maxI64, minI64, "-9223372036854775807", "9223372036854775806", pastI64, maxU64, over64,
		"99999999999999999999999", "-99999999999999999999999"}
	astroInts  = []string{two62, maxI64, "9223372036854775806", "4611686018427387905", "6917529027641081856"}
	oddInts    = []string{"+1", "01", "007", "-0", "+0", "1_000", "0x10", "0b11", "1e3", " 1", "1 ", "１", "٣", "--1", "-", "+"}
	floats     = []string{"0.5", "-0.5", "1.5", "2.5", "999.99995", "999.99999", "1e-9", "1e15", "1e300", "-1e300", "1e308", "1.7976931348623157e308", "1e309", "-1e309", "5e-324", "1e-320", "0.1", "100.0", "1.0", "-0.0", "0.0", ".5", "5.", "1e0", "1E5", "0x1p-2", "3.141592653589793"}
	specialF   = []string{"NaN", "nan", "Inf", "-Inf", "+Inf", "inf", "infinity", "-infinity"}
	blanks     = []string{"", " ", "  ", "\t", " \t ", "\n", "\r\n"}
	words      = []string{"abc", "a b c", "ab cd ef", "x", "hello world", "a\tb", "\"q u o\" ted", "a  b", " lead", "trail ", "a,b,c", "k=v", "true", "false", "null", "é", "日本語", "ÀÉÎ", "ß", "İ", "🙂"}
	hostile    = []string{"\x00", "a\x00b", "\x00\x00", "1\x002\x003", "a\x00\x00b\x00", "\xff", "\xff\xfe\xfd", "a\xc3", "\xc3\x28", "\xed\xa0\x80", "\xef\xbf\xbd", "\x1b[31mred\x1b[0m", "\x1b[0m", "\x7f", "\x01\x02", "\r", "a\nb", "line1\nline2\n"}
	syntaxy    = []string{"{", "}", "{}", "{0}", "{{0}}", "\\", "\\\\", "\"", "\"\"", "a\"b", "{a", "b}", "}{", "{sumi 1 2}", "\\n", "%", "[0]", "[x]", "(", ")", "()", "#", "@", "$", "!", "-", "--", "<", "<<", "&&"}
	formats    = []string{"%s", "%d", "%v", "%5s", "%-5s|", "%05d", "%.3f", "%x", "%q", "%c", "%U", "%e", "%t", "%T", "%%", "%", "%!", "%s %s %s", "%[1]s", "%[2]s", "%[9]s", "%[0]s", "%[-1]s", "%[1]*d", "%*d", "%.*f", "%[", "%[1", "%z", "%10000s", "%-10000s", "%.10000s", "%1000000s", "%1000001s", "%9999999999s", "%.9999999999f", "%" + maxI64 + "d", "%#v", "%+q", "% x", "%08.3f", "%s%", "%!s(MISSING)", "%6.2f%%"}
	jsons      = []string{`{"a":1}`, `{"a":{"b":[1,2,{"c":"x"}]},"d":null,"e":true,"f":1.5e3}`, `[1,2,3]`, `[]`, `{}`, `"str"`, `123`, `null`, `{"a":`, `{"a":1,}`, `[1,2`, `{"a":"\u00e9\ud83d"}`, `{"a":"\`, `{"a.b":1,"a":{"b":2}}`, `{"":1}`, `[[[[[[[[[[1]]]]]]]]]]`, `{"a":[{"b":1},{"b":2},{"b":3}]}`, `{"a" : 1e999}`, "{\"a\":\"x\x00y\"}", "\xff{\"a\":1}", `{"a":"` + strings.Repeat("x", 300) + `"}`}
	jpaths     = []string{"a", "a.b", "a.b.2.c", "a.#", "a.#.b", "a.0", "a.-1", "a.999999999999999999999", "#", "#.a", "a.#(b>1)", "a.#(b>1)#", "a.#(b==2).b", "a.#(", "a.#(b%\"*\")", "a\\.b", "@this", "@reverse", "@ugly", "@pretty", "@valid", "@flatten", "@join", "@keys", "@values", "@tostr", "@fromstr", "@group", "@pretty:{\"sortKeys\":true}", "@pretty:{\"indent\":\"\\t\",\"width\":0}", "@nope", "a|@reverse", "a|b", "..a", "..#", "..", ".", "", "*", "?", "a*", "[a,d]", "{a,d}", "[a,", "{\"x\":a,\"y\":d}", "a.b|@flatten|#", "!true", "!", "a.b.#(c=\"x\")", "a.@", "@", "@:", "a.\\", "\\", "#(", "#()", "#(#(#(", "a.#(b>1)#.b", "e.f.g.h.i.j", "d.x", "f|@tostr|@fromstr"}
	times      = []string{"2022-09-03T10:00:00Z", "2022-09-03T10:00:00+02:00", "14/Apr/2016:19:12:25 +0200", "Mon Jan 2 15:04:05 MST 2006", "Mon, 02 Jan 2006 15:04:05 -0700", "1700000000", "1700000000000", "12/31/1999", "31/12/1999", "May 8, 2009 5:57:51 PM", "oct 7, 1970", "7 oct 70", "2006-01-02", "2006-01-02 15:04:05.999999999", "0000-00-00", "9999-99-99 99:99:99", "1/1/1", "1.1.1", "2014年04月08日", "12 Feb 2006, 19:17", "2013-Feb-03", "03 February 2013", "4/8/2014 22:05", "04/08/2014 22:05:00.000000000", "2014:3:31", "08.21.71", "2014.03", "20140601", "1332151919", "171113 14:14:20", "Tue, 11 Jul 2017 16:28:13 +0200 (CEST)", "Thu, 13 Jul 2017 08:58:40 +0100", "Mon Aug 10 15:44:11 UTC+0100 2015", "Fri Jul 03 2015 18:04:07 GMT+0100 (GMT Daylight Time)", "2015-02-18 00:12:00 +0000 GMT", "2015-09-30 18:48:56.35272715 +0000 UTC", "2017-07-19 03:21:51+00:00", "2014-04-26 05:24:37 PM", "2014-12-16 06:20:00 UTC", "2012-08-03 18:31:59.257000000 +0000 UTC", "now", "live", "delta", "NOW", "2022-", "20", "2", "-", ":", "::", "//", "1:2:3", "12:", "1/", "1/2", "1/2/", " 2022-09-03", "Jan", "January 2", "Mon", "T", "Z", "+02:00", "2022-09-03T10:00:00.Z", "2022-09-03T25:61:61Z", "१२", "2022-09-03 10:00 PM PST", "2006-01-02T15:04:05.999999999999999999999Z"}
	durations  = []string{"24h", "1h30m", "-5s", "0", "1ns", "1.5h", "2562047h47m16.854775807s", "2562047h47m16.854775808s", "9999999999h", "1e9h", "1d", "h", "", "5", ".s", "-", "+1m", "1µs", "1us", "1m1m1m"}
	paths      = []string{"a/b/c", "a/b/c.jpg", "/", "", ".", "..", "a/", "/a", "//", "a//b", ".hidden", "a.b.c", "a/.", "a/..", "c:\\x\\y.txt", "\x00/\x00"}
	colors     = []string{"red", "Red", "RED", "green", "yellow", "blue", "magenta", "cyan", "white", "black", "brightred", "nope", "", "0", "\x1b[31m"}
	scalers    = []string{"linear", "lin", "", "log10", "log", "log2", "LOG2", "badlog", "ln"}
	tfmts      = []string{"", "auto", "cache", "Auto", "CACHE", "RFC3339", "rfc3339", "RFC3339N", "NGINX", "ANSIC", "UNIX", "RUBY", "RFC822", "RFC822Z", "RFC1123", "RFC1123Z", "MONTH", "MONTHNAME", "MNTH", "DAY", "YEAR", "HOUR", "MINUTE", "SECOND", "TIMEZONE", "NTIMEZONE", "NTZ", "WEEKDAY", "WDAY", "2006-01-02", "_2/Jan/2006:15:04:05 -0700", "15:04:05.000000000", "Monday, 02-Jan-06 15:04:05 MST", "2006", "x", "%Y", "0", ".999999999", ",000", "Z07:00:00", "__2", "002", "-07", "PM"}
	tzs        = []string{"", "utc", "UTC", "local", "Local", "LOCAL", "America/New_York", "Europe/Berlin", "Asia/Kolkata", "Australia/Lord_Howe", "Etc/GMT+12", "EST", "Nope/Zone", "../etc/passwd", "/etc/localtime", "America/", "x"}
	attrs      = []string{"weekday", "week", "yearweek", "quarter", "WEEKDAY", "Yearweek", "month", "", "bad-value"}
	tbuckets   = []string{"n", "nanos", "s", "sec", "seconds", "m", "min", "minutes", "h", "hour", "d", "day", "days", "mo", "mon", "months", "y", "year", "years", "", "x", "secondsx", "M", "H"}
	delims     = []string{" ", ",", ", ", "", "\t", "ab", "\x00", "\\", "日", "\xff", "aa", "||", "\n"}
	tables     = []string{"a b\nc d\n", "a b", "a\nb\n", "#c\na b", "", "\n\n", "a b c", "a\tb\r\nc\td", "k v\nk w", "\x00 x", "a " + strings.Repeat("y", 200)}
	formulas   = []string{"1+2", "2*[0]", "[0]+[1]", "[x]*2", "x+y", "(1+2)*3", "-[0]", "[0] % [1]", "5 % 0", "1 << [0]", "1 >> [0]", "[0] << 64", "[0] >> -1", "1/0", "0/0", "2^1024", "(-8)^0.5", "abs(-4)", "sqrt(-1)", "log(0)", "round(2.5)", "!(1>2)", "![0]", "1 && 0 || 1", "[0] & [1]", "[0] | 0xff", "0b101", "0x1BC", "1e308*10", "[-1]", "[99]", "[" + maxI64 + "]", "[" + pastI64 + "]", "[]", "[", "]", "[[0]]", "(", ")", "()", "(()", "1+", "+", "-", "2 * -", "- -", "-(-(-1))", "1 2", "1 (2)", "(1)(2)", "2(3)", "abs", "abs(", "abs()", "abs 3", "nope(3)", "1 $ 2", "1 = 2", "1 == 2", "1 <= 2", "1 < = 2", "1<<2", "1< <2", "<<", "&&", "& &", "^", "2^", "^2", "1..2", "1e", "0x", "0b2", "010", "9" + maxI64, "1 % -1", minI64 + " % -1", minI64 + " / -1", "[0] % 0.5", "tan(1.5707963267948966)", "exp(1000)", "exp2(-2000)", "asin(2)", "a.b", "a-b", "x y", "é", "\x00", "\xff",
		// function names in other spellings: upper case, and letters that only case FOLDING maps onto ASCII
		// (long s U+017F, Kelvin sign U+212A, dotted capital I U+0130)
		"SQRT(16)", "Abs(0-2)", "ſin(1)", "coſ(0)", "abſ(-4)", "ſqrt(4)+1", "aſin(1)", "\u212aos(1)", "s\u0130n(1)", "ſ", "ſ(1)", "abs(ſ)", "EXP(1)", "lOg(2)"}
	constStrs  = []string{"x", "ab", "-", "", " ", "#", "abc", "0", "é", "\x00", "xyzxyzxyz", "="}
	constArrs  = []string{"a", "a\x00b\x00c", "", "\x00", "1\x002\x003", "\x00\x00"}
	keyNames   = []string{"k", "key", "a", "x", "n", "src", "line", ".", "#", "@", ".#", "val", "a b", "é", "", "1.0", "-", "k2"}
	sizeSmall  = []string{"0", "1", "2", "3", "4", "5", "7", "8", "9", "10", "15", "16", "17", "31", "32", "33", "63", "64", "65", "100", "127", "128", "255", "256", "257"}
	sizeMedium = []string{"1000", "1023", "1024", "4096", "9999", "10000"}
	sizeNeg    = []string{"-1", "-2", "-10", "-" + two62, minI64, "-9223372036854775807", "-2147483649", "-6141686018427387904", "-1152921504606846977", "-3458764513820540929", "-6917529027641081857"}
	sizeJunk   = []string{"", " ", "abc", "1.5", "1e3", "+3", "03", "0x10", pastI64, maxU64, over64, "NaN", "\x00", "3 ", "٣"}
)

func cat(lists ...[]string) []string {
	var out []string
	for _, l := range lists {
		out = append(out, l...)
	}
	return out
}

var (
	poolInt   = cat(smallInts, smallInts, bigInts, oddInts, sizeNeg, []string{"", "abc", "1.5"})
	poolUint  = cat(smallInts, bigInts, []string{"1023", "1024", "1025", "1048576", "1099511627776", "999", "1000", "999999", "1000000", "-1", "", "1.5"})
	poolFloat = cat(smallInts, floats, floats, specialF, bigInts, []string{"", "abc", "1,5", "1.5.5", "--1", "1e", "e1", "+.e1"})
	poolAny   = cat(smallInts, bigInts, oddInts, floats, specialF, blanks, words, words, hostile, hostile, syntaxy, formats[:12], jsons[:6], times[:8], durations[:4], paths[:6], astroInts, sizeMedium)
	poolCond  = cat(blanks, []string{"1", "0", "x", "true", "false", " x ", "\x00", "<BAD-TYPE>"})
	poolWords = cat(words, words, blanks, hostile, []string{"\"a b\" c", "\"", "a \"b", "\"\"\"", "a\x00b c\td\ne"})
)

// pool returns the typical values of a kind.
func pool(k kind) []string {
	switch k {
	case kInt, kCInt:
		return poolInt
	case kUint:
		return poolUint
	case kFloat, kCFloat:
		return poolFloat
	case kCond:
		return poolCond
	case kCStr:
		return constStrs
	case kCDelim:
		return delims
	case kCArr, kArr:
		return cat(constArrs, constArrs, hostile[:6], words[:4], []string{"9\x0010\x00" + maxI64 + "\x00-1\x00x", "0.5\x001e300\x00NaN"})
	case kCColor:
		return colors
	case kCScaler:
		return scalers
	case kCTFmt:
		return tfmts
	case kCTz:
		return tzs
	case kCAttr:
		return attrs
	case kCBucket:
		return tbuckets
	case kFmt:
		return formats
	case kJSON:
		return jsons
	case kJPath:
		return jpaths
	case kTime:
		return times
	case kDur:
		return durations
	case kPath:
		return paths
	case kTable:
		return tables
	case kFormula:
		return formulas
	case kWords:
		return poolWords
	case kFile:
		return []string{phFile, phFile, phFile, phDir, phMissing, "", "/dev/null", "/", "\x00"}
	}
	return poolAny
}

// placeholders for {load ...}: replaced by paths under VERIF_SCRATCH when the
// case runs, so a saved case replays on another machine.
const (
	phFile    = "__C08_LOADFILE__"
	phDir     = "__C08_LOADDIR__"
	phMissing = "__C08_NOFILE__"
)

const loadFileContent = "alpha one\nbeta two\n# comment\ngamma\n\n1 2 3\nkey\x00nul value\n"
