package c08

// The guarded function table.
//
// rare has helpers whose honest cost is proportional to a *number* they are
// given ({repeat x N}, {@range a b c}, precisions, bar widths, format widths)
// or that loop over a sub-expression (@map/@filter/@reduce/@for). A request
// for 10^9 characters is not a crash, it is slow; it must never reach the
// oracle as a "hang". The guarded table is rare's own function table in which
// the argument *stages* at those positions are wrapped by small admission
// controllers working on one per-case work budget:
//
//   - a size request below 2^62 is charged to the budget; when the budget
//     cannot pay for it the request is replaced by a tiny one and the case is
//     marked "clamped";
//   - a request >= 2^62 ("astronomic") is passed through untouched and is not
//     charged: rare must turn it down (or fail) at once, it can never be
//     honoured;
//   - the bodies of @map/@filter/@reduce/@for and the arrays they walk are
//     charged by output length / element count; once the budget is gone they
//     return "" (which also ends an @for).
//
// The functions themselves are rare's, unmodified. A case whose guarded run
// was never clamped is then run again through funclib.NewKeyBuilderEx, i.e.
// the exact production table: it performs the same computation, so it is
// known to stay within the budget as well.

import (
	"fmt"
	"math/big"
	"strconv"
	"strings"

	"rare/pkg/expressions"
	"rare/pkg/expressions/funcfile"
	"rare/pkg/expressions/funclib"
)

type stage = expressions.KeyBuilderStage
type kbFunc = expressions.KeyBuilderFunction

const (
	caseBudget = 3_000_000 // work units (about bytes) one case may spend at guarded positions
	astroFloor = int64(1) << 62
)

var budget struct {
	left    int64
	clamped int // requests turned down (case leaves the domain of the production-table run)
	astro   int // astronomic requests passed through
	charged int // requests admitted
}

func resetBudget() {
	budget.left = caseBudget
	budget.clamped = 0
	budget.astro = 0
	budget.charged = 0
}

// admit decides on a request for n items of unit bytes each.
func admit(n, unit int64) bool {
	if n <= 0 {
		return true
	}
	if n >= astroFloor {
		budget.astro++
		return true
	}
	if unit < 1 {
		unit = 1
	}
	if budget.left <= 0 || n > budget.left/unit {
		budget.clamped++
		return false
	}
	budget.left -= n * unit
	budget.charged++
	return true
}

// sizeStage guards an argument that rare parses with strconv.Atoi and then
// uses as a count / width / precision.
func sizeStage(st stage, unit int64) stage {
	return func(ctx expressions.KeyBuilderContext) string {
		s := st(ctx)
		n, err := strconv.Atoi(s)
		if err != nil {
			return s // rare's own parser rejects it the same way
		}
		if admit(int64(n), unit) {
			return s
		}
		return "1"
	}
}

// outStage guards a sub-expression evaluated inside a loop.
func outStage(st stage, perCall int64) stage {
	return func(ctx expressions.KeyBuilderContext) string {
		if budget.left <= 0 {
			budget.clamped++
			return ""
		}
		out := st(ctx)
		budget.left -= int64(len(out)) + perCall
		return out
	}
}

// forCondStage guards the condition of @for: every iteration also pays for
// the current value, which @for copies into its output.
func forCondStage(st stage) stage {
	return func(ctx expressions.KeyBuilderContext) string {
		if budget.left <= 0 {
			budget.clamped++
			return ""
		}
		budget.left -= int64(len(ctx.GetMatch(0))) + 24
		return st(ctx)
	}
}

// arrStage guards an array that is walked with a sub-expression per element.
func arrStage(st stage) stage {
	return func(ctx expressions.KeyBuilderContext) string {
		out := st(ctx)
		n := int64(strings.Count(out, expressions.ArraySeparatorString)) + 1
		if budget.left <= 0 || n*8 > budget.left {
			budget.clamped++
			return ""
		}
		budget.left -= n * 8
		return out
	}
}

// widthCost sums the widths/precisions a fmt format string asks for. fmt
// itself refuses numbers above 10^6 (BADWIDTH/BADPREC, nothing is padded).
func widthCost(f string) int64 {
	var total int64
	for i := 0; i < len(f); {
		if f[i] < '0' || f[i] > '9' {
			i++
			continue
		}
		j := i
		var v int64
		for j < len(f) && f[j] >= '0' && f[j] <= '9' {
			if v <= 10_000_000 {
				v = v*10 + int64(f[j]-'0')
			}
			j++
		}
		if v <= 1_000_000 {
			total += v
		}
		i = j
	}
	return total
}

func cloneArgs(args []stage) []stage {
	return append([]stage(nil), args...)
}

func guardArg(real kbFunc, arity func(n int) bool, wrap func(args []stage)) kbFunc {
	return func(args []stage) (stage, error) {
		if arity(len(args)) {
			args = cloneArgs(args)
			wrap(args)
		}
		return real(args)
	}
}

func bigOf(v int) *big.Int { return big.NewInt(int64(v)) }

// rangeCount is the exact number of elements {@range start stop incr}
// describes (nil when the arguments are contradictory / incr is 0).
func rangeCount(start, stop, incr int) *big.Int {
	if incr == 0 || (incr > 0 && start > stop) || (incr < 0 && start < stop) {
		return nil
	}
	span := new(big.Int).Sub(bigOf(stop), bigOf(start))
	span.Abs(span)
	step := new(big.Int).Abs(bigOf(incr))
	q, r := new(big.Int).QuoRem(span, step, new(big.Int))
	if r.Sign() != 0 {
		q.Add(q, big.NewInt(1))
	}
	return q
}

func guardRange(real kbFunc) kbFunc {
	return func(args []stage) (stage, error) {
		if len(args) < 1 || len(args) > 3 {
			return real(args)
		}
		var sStart, sStop, sIncr stage
		stopAt := 0
		switch len(args) {
		case 1:
			sStop = args[0]
		case 2:
			sStart, sStop, stopAt = args[0], args[1], 1
		case 3:
			sStart, sStop, sIncr, stopAt = args[0], args[1], args[2], 1
		}
		guarded := func(ctx expressions.KeyBuilderContext) string {
			stopS := sStop(ctx)
			stop, err := strconv.Atoi(stopS)
			if err != nil {
				return stopS
			}
			start, incr := 0, 1
			if sStart != nil {
				if start, err = strconv.Atoi(sStart(ctx)); err != nil {
					return stopS
				}
			}
			if sIncr != nil {
				if incr, err = strconv.Atoi(sIncr(ctx)); err != nil {
					return stopS
				}
			}
			cnt := rangeCount(start, stop, incr)
			if cnt == nil {
				return stopS
			}
			if !cnt.IsInt64() {
				budget.astro++
				return stopS
			}
			if admit(cnt.Int64(), 21) {
				return stopS
			}
			return strconv.Itoa(start) // the empty range
		}
		args = cloneArgs(args)
		args[stopAt] = guarded
		return real(args)
	}
}

// guardedFunctions builds the guarded table from rare's table.
func guardedFunctions() map[string]kbFunc {
	m := make(map[string]kbFunc, len(funclib.Builtins))
	for name, f := range funclib.Builtins {
		m[name] = f
	}
	wrap := func(name string, mk func(real kbFunc) kbFunc) {
		if real, ok := m[name]; ok {
			m[name] = mk(real)
		}
	}
	sizeAt := func(pos int, minArgs int) func(real kbFunc) kbFunc {
		return func(real kbFunc) kbFunc {
			return guardArg(real, func(n int) bool { return n >= minArgs }, func(args []stage) {
				args[pos] = sizeStage(args[pos], 1)
			})
		}
	}
	wrap("repeat", func(real kbFunc) kbFunc {
		return guardArg(real, func(n int) bool { return n == 2 }, func(args []stage) {
			unit := int64(1)
			if ch, ok := expressions.EvalStaticStage(args[0]); ok && len(ch) > 1 {
				unit = int64(len(ch))
			}
			args[1] = sizeStage(args[1], unit)
		})
	})
	for _, n := range []string{"round", "percent", "bytesize", "bytesizesi", "downscale"} {
		wrap(n, sizeAt(1, 2))
	}
	wrap("bar", func(real kbFunc) kbFunc {
		return guardArg(real, func(n int) bool { return n >= 3 }, func(args []stage) {
			args[2] = sizeStage(args[2], 3)
		})
	})
	wrap("format", func(real kbFunc) kbFunc {
		return guardArg(real, func(n int) bool { return n >= 1 }, func(args []stage) {
			f := args[0]
			args[0] = func(ctx expressions.KeyBuilderContext) string {
				s := f(ctx)
				if c := widthCost(s); c > 0 && !admit(c, 1) {
					return ""
				}
				return s
			}
		})
	})
	wrap("@range", guardRange)
	// {load file} may only read the scratch files of this run (a generated or
	// mutated path such as /dev/zero would otherwise be read for real)
	wrap("load", func(real kbFunc) kbFunc {
		return func(args []stage) (stage, error) {
			if len(args) == 1 {
				if p, ok := expressions.EvalStaticStage(args[0]); ok && !allowedLoadPath(p) {
					budget.clamped++
					missing := scratch().missing
					return real([]stage{func(expressions.KeyBuilderContext) string { return missing }})
				}
			}
			return real(args)
		}
	})
	for _, n := range []string{"@map", "@filter", "@reduce"} {
		wrap(n, func(real kbFunc) kbFunc {
			return guardArg(real, func(n int) bool { return n >= 2 }, func(args []stage) {
				args[0] = arrStage(args[0])
				args[1] = outStage(args[1], 8)
			})
		})
	}
	wrap("@for", func(real kbFunc) kbFunc {
		return guardArg(real, func(n int) bool { return n == 3 }, func(args []stage) {
			args[1] = forCondStage(args[1])
			args[2] = outStage(args[2], 8)
		})
	})
	// every helper notes that it was instantiated (labels / non-triviality)
	for name, f := range m {
		name, f := name, f
		m[name] = func(args []stage) (stage, error) {
			noteCall(name, len(args))
			return f(args)
		}
	}
	return m
}

var guardedTable = guardedFunctions()

// calls instantiated while compiling the current case (guarded table only)
var seenCalls []callNote

type callNote struct {
	name  string
	arity int
}

func noteCall(name string, arity int) {
	if len(seenCalls) < 64 {
		seenCalls = append(seenCalls, callNote{name, arity})
	}
}

func newGuardedBuilder(opt bool) *expressions.KeyBuilder {
	kb := expressions.NewKeyBuilderEx(opt)
	kb.Funcs(guardedTable)
	kb.Funcs(funclib.Additional)
	addUserFunctions(kb, true)
	return kb
}

// userFuncsFile is a functions file (docs/usage/funcsfile.md) loaded into
// every builder with rare's own loader, the way `rare --funcs` does: the
// bodies read their arguments through the lazy argument context, also at
// indexes that were not passed and at -1. No body uses an argument twice (a
// nest of such calls would honestly cost 2^depth evaluations).
const userFuncsFile = `# C08 user functions
u_double {multi {0} 2}
u_pick {if {0} {1} {2}}   # missing arguments read empty
u_div {divi {0} {1}}
u_edge {-1}{5}{k}{99}
u_rep {repeat x {0}}
u_nest {u_div {1} \
   {u_double {0}}}
u_arr {@map {0} "{sumi {0} {k}}"}
`

var userFuncNames = []string{"u_double", "u_pick", "u_div", "u_edge", "u_rep", "u_nest", "u_arr"}

func addUserFunctions(kb *expressions.KeyBuilder, note bool) {
	fns, err := funcfile.LoadDefinitions(kb, strings.NewReader(userFuncsFile), "c08.funcs")
	if err != nil || len(fns) != len(userFuncNames) {
		panic(fmt.Sprintf("c08: user functions did not load: %v (%d of %d)", err, len(fns), len(userFuncNames)))
	}
	if note {
		for name, f := range fns {
			name, f := name, f
			kb.Func(name, func(args []stage) (stage, error) {
				noteCall(name, len(args))
				return f(args)
			})
		}
	}
}
