package c08

import "strings"

// seedTemplates: the expressions of rare's own tests and documentation (file
// names replaced by the scratch-file placeholder) plus the inputs of the
// crashes known when the check was written. They are evaluated as they are
// (fixed sub-property), mutated (mutation sub-property) and seed the native
// fuzz target.
var seedTemplates = []string{
	// keyBuilder_test.go
	"{0} is awesome", "{0} is {1}", "{0} is {123", "{0} is {abc 1} and {unclosed", "{a} is awesome", "{test} {some} key",
	"{} test", "{{1} b} is bucketed", "ab is {1} cool\\n\\ta\\r", "{0} is \\{1\\} cool\\n\\t\\a\\r", "<Err:{1}> is bucketed",
	"value: {addi 1} {addi 1 2}", "value: {addi {addi 1 2} 2}", "value: {addi -{addi 1 2} 2} {addi 3 5}",
	// stdlib tests
	"{! 1+{0}}", "{! 1+}", "{! 2 * [0]}", "{! [0] / 5}", "{! val*[x]}", "{$ {0} {1} 22}", "{$ {0}}", `{$ "{0} hi" 22}`,
	"{@for 2 {lt {1} 5} {sumi {0} 2}}", "{@for 5}", "{@in {0} {$ cd ab qef {1}}}", "{@in {0} {$ cd ab qef}}", "{@in {0}}",
	"{@len a b}", "{@len {0}}", "{@range -1 2 1}", "{@range -1 2}", "{@range 0 5 -1}", "{@range 0 5 0}", "{@range 0 5 c}",
	"{@range 0 {0} 1}", "{@range 0 {0}}", "{@range 1 2 3 4}", "{@range 5 0 2}", "{@range 5 1 -1}", "{@range 5 3}", "{@range a}", "{@range b 5}", "{@range {0}}",
	"{@reduce {0} {sumi {0} {1}}}", `{@reduce {0} "{subi {0} {1}}" 0}`, `{@reduce {@split {0} " "} "{sumi {0} {1}}" bla 2}`,
	"{and {lt {2} 10000000} {gt {1} 50}} {or 1 {eq abc 123}} {or {eq abc 123} {eq qef agg}}", "{not {and {lt {2} 10000000} {gt {1} 50}}}",
	"{bar 10 100 10 badlog}", "{bar 10 100 10 log10}", "{bar 10 100 10 {0}}", "{bar 10 100 10}", "{bar 1}", "{bar 2 {0} 5}", "{bar 3 {1} {2}}", "{bar a 2 3}", "{bar {0} 5 5}",
	"{basename a b}", "{basename {0}}", "{dirname {0}}", "{extname a/b/c} {extname a/b/c.jpg}",
	"{bucket -25 50}", "{bucket 5 a}", "{bucket 5}", "{bucket 70 -50}", "{bucket {0} 1000} {bucket {1} 1000} {bucket {2} 100}", "{bucketrange -25 50}", "{bucketrange 70 -50}", "{bucketrange {0} 50}",
	"{buckettime a} {buckettime a b c d e} {buckettime 0 bla}", "{buckettime {0} d nginx}", "{buckettime {0} d}", "{buckettime {0} hour nginx}", "{buckettime {0} nanos nginx}", "{buckettime {0} year nginx}",
	"{bytesize {0} 2 3}", "{bytesize {0} 2}", "{bytesize {0}}", "{bytesizesi {0} 2}", "{downscale {0} 2}", "{downscale {0}}",
	"{ceil {0}}", "{floor {0}}", "{floor {0} b}", "{round {0} 1}", "{round {0} b}", "{round {0} {0}}", "{round {ln {0}} 4}", "{log10 {0}}", "{log2 {0}}", "{pow {0} 3}", "{sqrt {0}}",
	"{clamp {0} 1 2 3}", "{clamp {0} 1 {0}}", "{clamp {0} 50 200}-{clamp {1} 50 200}", "{coalesce {0}} {coalesce a b c} {coalesce {0} {2}}",
	"{color a}", "{color bla {0}}", "{color red {0}}", "{color {0} {0}}", "{csv {0} {1} {2}}", "{csv {0}}",
	"{duration 24h stuff}", "{duration 24h}", "{duration {0}}", "{durationformat {0} b}", "{durationformat {0}}",
	"{eq a}", "{eq {0} 123} {eq {0} 1234} {not {eq {0} abc}} {neq 1 2} {neq 1 1}", "{expbucket {0}} {expbucket {1}} {expbucket {2}}",
	"{gt 1 a}", "{gt 1 {0}}", "{gt a}", "{gte 1 1} {gte 1 2} {lte 1 1} {lte 2 1}",
	"{haskey a b c d}", "{haskey a}", "{haskey fn {0}}", "{haskey {0} {load " + phFile + "} #}", "{lookup {0} {load " + phFile + "}}", `{lookup {0} {load ` + phFile + `} "#"}`, "{lookup a}", "{lookup fn {0}}",
	"{hi 12345} {hf 12345.123512} {hi abc} {hf abc}", "{hi {2}} {hf {3}}", "{isint 123} {isint 123.0} {isint abc}", "{isnum 123} {isnum 123.0} {isnum abc}",
	"{json abc}", `{json {0} abc.efg}`, `{json {0} abc woops}`, `{json a.0.efg}`, `{json 1}`,
	`{len ""}`, "{len hi}", "{len {0} there}", `{like {0} "a"}{like {0} c}`, "{prefix abc a} {suffix abc c} {prefix abc b} {suffix abc b}",
	"{load " + phFile + "}", "{load a b}", "{load " + phMissing + "}", "{load " + phDir + "}", "{load {0}}",
	"{lower {0}} {lower a b}", "{upper {0}} {upper a b}",
	"{percent 0 1 2 3 4 5}", "{percent 0 1 a}", "{percent 50 1 0 100}", "{percent {0} 0 25 75}", "{percent {0} 2 0.5}", "{percent {0} {0}}", "{percent {0}}",
	"{repeat a 2} {repeat b {0}}", "{repeat a} {repeat a a} {repeat {0} {0}}",
	"{select {0} 0} {select {0} 1} {select {0} 3} {select {1} 1}", `{select "ab cd ef" 1}`, "{select 0}",
	"{substr 0}", "{substr {0} -1 2} {substr {0} -2 2} {substr {0} -10 2} {substr {0} 3 4} {substr {0} 10 1}", "{substr {0} 0 2} {substr {0} 0 10} {substr {0} 3 2}",
	"{sumf 1} {sumf 1 a} {sumf a 1} {sumf 1 2 a}", "{sumf {1} {4}} {multf {1} 2} {divf {1} 2} {subf {1} 10}", "{sumi 1 1 1 1}", "{sumi 1} {sumi 1 a} {sumi a 1} {sumi 1 1 b}",
	"{sumi {1} {4}} {multi {1} 2} {divi {1} 2} {subi {1} 10} {modi {1} 7}", `{maxi 1 1} {maxi 1 2} {maxi 5 1} {mini 1 1} {mini 1 2} {mini 5 1}`,
	"{switch {eq {0} a} isa {eq {0} b} isb 1 null}", "{switch {eq {0} a} isa {eq {0} b} isb null}", "{switch {eq {0} a}}",
	`{if {0} {1} efg} {if {0} abc} {if {not {0}} a b} {if "" a} {if "" a b}`, `{if {eq "" "abc"} true false}`, `{unless {1} {0}} {unless abc efg}`, "{unless joe}",
	"{tab a b} {tab a b c}",
	"{time a b c d e}", "{time a}", "{time delta}", "{time live}", "{time now}", "{time {0} NGINX}", "{time {0} auto}", "{time {0}}", "{time {0} cache local}",
	"{timeattr {time now} bad-value}", "{timeattr {time now} {0}}", "{timeattr {time {0}} Yearweek}", "{timeattr {time {0}} a b c}", "{timeattr {time {0}} quarter}", "{timeattr {time {0}} weekday asdf}", "{timeattr {time {0}} weekday local}", "{timeattr {time {0}} week}", "{timeattr {0} yearweek America/New_York}",
	"{timeformat a b c d}", "{timeformat {sumi {time {0} NGINX} {duration 24h}} RFC822 utc}", "{timeformat {time {0} NGINX} RFC3339 utc}", `{timeformat {time {0} "_2/Jan/2006:15:04:05 -0700"} RFC3339 utc}`, `{timeformat {time {0}} "" utc}`, "{timeformat {0} MONTHNAME Europe/Berlin}",
	`{@join {0} ""}`, `{@join {0} ", " "c"}`, `{@join {0} ", "}`, `{@join {0}}`, `{@join {@filter {0} ""}}`, `{@join {@filter {0} "{isnum {0}}"}}`, `{@join {@filter {0}}}`,
	`{@join {@map {0} "{0}bob"} ", "}`, `{@join {@map {0} "{multi {0} 2}" ""} ", "}`, `{@join {@slice {@split {0} " "} -3 2}}`, `{@join {@slice {@split {0} " "} 1 2 bla}}`, `{@join {@slice {@split {0} " "} 10 2}}`, `{@join {@slice {@split {0} " "} 1}}`,
	`{@select {0} -1}`, `{@select {0} 3}`, `{@split {0} "" "c"}`, `{@split {0} ""}`, `{@split {0} "\t"}`, `{@split {0}}`, `{@split "a, b, c" ", "}`,
	`{format "%10s" abc}`, `{format %s%d {0} {1}}`, `{format {0} {1} {2}}`,
	// documentation
	"{1} {2} {bucket {3} 1000}", "{src}:{line} {.} {#} {.#} {@}", "{multi {1} 2}", `{@join {@map {@split {0} " "} {multi {0} 2}} ","}`, "{@for 0 {lt {0} 5} {sumi {0} 1}}",
	"{bytesize {sumi {1} {2}} 1}", "{color red {0}} {bar {1} 100 20 log10}", "{@reduce {@range 1 6} {multi {0} {1}} 1}",
	// crashes known before the check was written (DESIGN 5.1 #1-#8)
	"abc\\", "{tab a\\\\\\\\ b}", "{divi 1 0}", "{divi {0} {1}}", "{modi {0} {1}}", "{modi 5 0}", "{repeat x {0}}", "{repeat x -1}",
	"{@for 0 {lt {0} 3} {sumi {0} {len {k}}}}", `{@map {@ a b} "{-1}"}`, `{@map {@ a b} "{time live}"}`, `{@filter {0} "{k}{-5}"}`, `{@reduce {0} "{-1}{k}"}`,
	"{! [0] % [1]}", "{! 5 % 0}", "{! 1 << [0]}", "{! 1 >> [0]}", "{! -}", "{! 2 * -}", "{! x& &x}", "{! 1< <2}",
	// syntax oddities
	"{", "}", "{{", "}}", "{}", "{ }", "\"", "\\", "{\\", "{\"", "{\"}", "{a \"b}", "{{{{{{{{", "{tab \"a } b\" x}", "{tab \"a { b\" x}", "{tab a\"b c\"d}", "{{1}}", "{01}", "{+1}", "{ 1 }", "{1.0}", "{-1}", "{99999999999999999999}",
}

// deep / long shapes (bounded: the compiler re-scans the rest of the text at
// every nesting level, so its honest cost is quadratic in the depth)
func init() {
	rep := strings.Repeat
	seedTemplates = append(seedTemplates,
		rep("{tab ", 400)+"{0}"+rep("}", 400),
		rep("{", 2000),
		rep("}", 2000),
		rep("{{0} ", 300)+rep("}", 300),
		rep("\\", 2001),
		rep("\"", 1001),
		"{! "+rep("(", 300)+"[0]"+rep(")", 300)+"}",
		"{! "+rep("-", 1500)+"[0]}",
		"{! "+rep("1+", 800)+"[0]}",
		"{! "+rep("abs(", 200)+"[0]"+rep(")", 200)+"}",
		"{sumi"+rep(" {0}", 600)+"}",
		"{@map "+rep("{@map ", 40)+"{0}"+rep(" {0}}", 40)+" {0}}",
		"{switch"+rep(" {0} {1}", 400)+"}",
		"{format "+rep("%s", 500)+rep(" {0}", 500)+"}",
	)
	// escape look-ahead: a backslash followed by every kind of character and
	// 0-2 more characters, at the very end of a template, in front of a
	// closing brace, and at the end of an argument that is compiled again
	// (where another unescaping pass sees the tail). A scanner that peeks
	// ahead after the backslash (\xNN, \uNNNN ..) must not read past the end.
	for _, c := range []string{"x", "X", "u", "U", "0", "1", "7", "n", "t", "r", "e", "a", "f", "4", "{", "}", "\"", "\\", " "} {
		for _, tail := range []string{"", "4", "f", "41", "g", "{", "}", "00", "123"} {
			e := "\\" + c + tail
			seedTemplates = append(seedTemplates, "ab"+e, "{0}"+e, "{tab a"+e+"}", "{tab a\\\\"+e+" b}", "{tab \"q"+e+"\" b}")
		}
	}
}

// fixedContexts are evaluated against every seed template.
var fixedContexts = []Ctx{
	{},
	{Groups: []string{"", "", "", ""}},
	{Groups: []string{"abc", "123", "1000000", "5000000.123456", "22", "1.5"}, Keys: []KV{{"k", "v"}, {"key", "value"}}},
	{Groups: []string{"0", "0", "0"}, Keys: []KV{{"k", ""}}},
	{Groups: []string{"-1", "-1", "-1"}, Keys: []KV{{"k", "-1"}}, NameErr: true},
	{Groups: []string{"5", "3", "2"}, Keys: []KV{{"k", "7"}, {"x", "2"}}},
	{Groups: []string{maxI64, maxI64, minI64}, Keys: []KV{{"k", maxI64}}},
	{Groups: []string{minI64, "-1", maxI64}},
	{Groups: []string{two62, "2", two62}},
	{Groups: []string{maxU64, over64, "1e300"}},
	{Groups: []string{"1e300", "NaN", "-Inf", "1e-320"}},
	{Groups: []string{"a\x00b\x00c", "1\x002\x003", "\x00"}, Keys: []KV{{"k", "\x00\x00"}}},
	{Groups: []string{"\xff\xfe", "a\xc3", "\xed\xa0\x80"}, NameErr: true},
	{Groups: []string{"14/Apr/2016:19:12:25 +0200", "2022-09-03T10:00:00Z", "1700000000"}},
	{Groups: []string{`{"abc":{"efg":23},"a":[{"efg":123},2,3,4]}`, "abc.efg", "a.#"}},
	{Groups: []string{"ab cd ef", " ", "\t\n"}},
	{Groups: []string{"%d %s %v %[3]d %*d", "%", "%!"}},
	{Groups: []string{"alpha", "beta", "gamma"}, Keys: []KV{{"k", "alpha"}}},
	{Groups: []string{"24h", "1h30m", "-5s", "9999999999h"}},
	{Groups: []string{"9", "10", "99", "100", "999", "1000"}},
}
