// C08 — no template and no input line can crash expression compilation or
// evaluation.
//
// Oracle (the same for every sub-property): for the optimising and the plain
// builder, Compile returns (never panics, never fails to return) a builder
// and/or errors; a returned builder's BuildKey returns a string for every
// context; a returned error object describes at least one error and can be
// printed. No value is asserted (C09-C11, C17-C19 do that).
package c08

import (
	"bytes"
	"context"
	"fmt"
	"os"
	"os/exec"
	"path/filepath"
	"regexp"
	"runtime"
	"strconv"
	"strings"
	"sync"
	"sync/atomic"
	"testing"
	"time"

	"pgregory.net/rapid"
	"rare/pkg/color"
	"rare/pkg/expressions"
	"rare/pkg/expressions/funclib"
	"rare/pkg/expressions/stdlib"
	"rare/pkg/humanize"
	"rare/pkg/multiterm/termunicode"
	"verifharness/pbt"
)

// ---------------------------------------------------------------------------
// case

type KVJ struct {
	K, V pbt.S
}

type CtxJ struct {
	Groups  []pbt.S
	Keys    []KVJ `json:",omitempty"`
	NameErr bool  `json:",omitempty"`
}

type Case struct {
	Template pbt.S
	Contexts []CtxJ
	// global switches of rare, set at the top of the case
	NoLoad     bool     `json:",omitempty"`
	Color      bool     `json:",omitempty"`
	NoUnicode  bool     `json:",omitempty"`
	NoHumanize bool     `json:",omitempty"`
	Origin     string   `json:",omitempty"` // how the template was made (labels only)
	Fns        []string `json:",omitempty"` // helpers in the generated tree (labels only)
	Obs        *pbt.Obs `json:"-"`
}

func toJ(c Ctx) CtxJ {
	j := CtxJ{Groups: pbt.SS(c.Groups), NameErr: c.NameErr}
	for _, kv := range c.Keys {
		j.Keys = append(j.Keys, KVJ{pbt.S(kv.K), pbt.S(kv.V)})
	}
	return j
}

// evalCtx is the match data handed to BuildKey.
type evalCtx struct {
	groups  []string
	keys    map[string]string
	nameErr bool
	hits    int // lookups that returned a non-empty value
	lookups int
}

func (c *evalCtx) GetMatch(i int) string {
	c.lookups++
	if i >= 0 && i < len(c.groups) {
		if c.groups[i] != "" {
			c.hits++
		}
		return c.groups[i]
	}
	return ""
}

func (c *evalCtx) GetKey(k string) string {
	c.lookups++
	if v, ok := c.keys[k]; ok {
		if v != "" {
			c.hits++
		}
		return v
	}
	if c.nameErr {
		return stdlib.ErrorArgName
	}
	return ""
}

func newEvalCtx(j CtxJ) *evalCtx {
	c := &evalCtx{groups: pbt.Strs(j.Groups), keys: map[string]string{}, nameErr: j.NameErr}
	for _, kv := range j.Keys {
		c.keys[string(kv.K)] = string(kv.V)
	}
	return c
}

// ---------------------------------------------------------------------------
// scratch files for {load}

type scratchPaths struct {
	dir, file, missing, funcs string
}

var (
	scratchOnce sync.Once
	scratchVal  scratchPaths
)

func scratch() scratchPaths {
	scratchOnce.Do(func() {
		base := os.Getenv("VERIF_SCRATCH")
		if base == "" {
			base, _ = os.MkdirTemp("", "verif-c08-")
		}
		dir := filepath.Join(base, "c08load")
		os.MkdirAll(dir, 0o755)
		f := filepath.Join(dir, "table.txt")
		os.WriteFile(f, []byte(loadFileContent), 0o644)
		ff := filepath.Join(base, "c08.funcs")
		os.WriteFile(ff, []byte(userFuncsFile), 0o644)
		scratchVal = scratchPaths{dir: dir, file: f, missing: filepath.Join(dir, "no-such-file.txt"), funcs: ff}
	})
	return scratchVal
}

func allowedLoadPath(p string) bool {
	s := scratch()
	return p == "" || p == s.file || p == s.dir || p == s.missing
}

func substitute(t string) string {
	if !strings.Contains(t, "__C08_") {
		return t
	}
	s := scratch()
	return strings.NewReplacer(phFile, s.file, phDir, s.dir, phMissing, s.missing).Replace(t)
}

// ---------------------------------------------------------------------------
// oracle

var markerRe = regexp.MustCompile(`<(BAD-TYPE|PARSE-ERROR|ARGN|CONST|ENUM|NAME|EMPTY|FILE|VALUE|INF|Err:[^>]*)>`)

func q(s string) string { return pbt.Trunc(strconv.QuoteToASCII(s), 400) }

func setGlobals(c Case) {
	stdlib.DisableLoad = c.NoLoad
	color.Enabled = c.Color
	termunicode.UnicodeEnabled = !c.NoUnicode
	humanize.Enabled = !c.NoHumanize
	humanize.Decimals = 4
}

// builders are made once: a KeyBuilder is only a function table (filling it
// 4 times per case cost a quarter of the run), Compile does not change it.
var builders [2][2]*expressions.KeyBuilder

func builderFor(guarded, opt bool) *expressions.KeyBuilder {
	gi, oi := 0, 0
	if guarded {
		gi = 1
	}
	if opt {
		oi = 1
	}
	if builders[gi][oi] == nil {
		if guarded {
			builders[gi][oi] = newGuardedBuilder(opt)
		} else {
			builders[gi][oi] = funclib.NewKeyBuilderEx(opt)
			addUserFunctions(builders[gi][oi], false)
		}
	}
	return builders[gi][oi]
}

type compiler interface {
	Compile(string) (*expressions.CompiledKeyBuilder, *expressions.CompilerErrors)
}

// runTable compiles tmpl with one builder and evaluates every context.
func runTable(table string, opt bool, b compiler, tmpl string, c Case, production bool) error {
	var kb *expressions.CompiledKeyBuilder
	var errs *expressions.CompilerErrors
	where := fmt.Sprintf("[%s table, optimise=%v] template %s", table, opt, q(tmpl))
	if err := pbt.Guard(func() error { kb, errs = b.Compile(tmpl); return nil }); err != nil {
		return fmt.Errorf("Compile panicked %s: %v", where, err)
	}
	if kb == nil && errs == nil {
		return fmt.Errorf("Compile returned neither an expression nor errors %s", where)
	}
	if errs != nil {
		var msg string
		if err := pbt.Guard(func() error { msg = errs.Error(); return nil }); err != nil {
			return fmt.Errorf("printing the compile errors panicked %s: %v", where, err)
		}
		if len(errs.Errors) == 0 {
			return fmt.Errorf("Compile returned an error object that reports no error (%q) %s", msg, where)
		}
		c.Obs.Label(true, "compile-errors")
	} else {
		c.Obs.Label(true, "compile-clean")
	}
	if kb == nil {
		c.Obs.Label(true, "no-builder")
		return nil
	}
	if !opt {
		c.Obs.N["stages-plain"] = kb.StageCount()
	} else if kb.StageCount() != c.Obs.N["stages-plain"] {
		c.Obs.Label(true, "optimiser-folded")
	}
	for i, cj := range c.Contexts {
		ec := newEvalCtx(cj)
		var kctx expressions.KeyBuilderContext = ec
		if production && !cj.NameErr && i%2 == 1 {
			// the context `rare expression` uses
			kctx = &expressions.KeyBuilderContextArray{Elements: ec.groups, Keys: ec.keys}
		}
		var out string
		if err := pbt.Guard(func() error { out = kb.BuildKey(kctx); return nil }); err != nil {
			return fmt.Errorf("BuildKey panicked %s context #%d groups=%s keys=%s: %v", where, i, qs(cj.Groups), qkv(cj.Keys), err)
		}
		outs := &lastOutputs[b2i(production)][b2i(opt)]
		*outs = append(*outs, out)
		if c.Obs != nil {
			c.Obs.Add("hits", ec.hits)
			c.Obs.Add("lookups", ec.lookups)
			if len(out) < 4096 {
				for _, m := range markerRe.FindAllStringSubmatch(out, 4) {
					name := m[1]
					if strings.HasPrefix(name, "Err:") {
						name = "Err"
					}
					c.Obs.Label(true, "marker:"+name)
				}
			}
			c.Obs.Label(len(out) > 100000, "output>100k")
		}
	}
	return nil
}

func qs(l []pbt.S) string {
	var sb strings.Builder
	sb.WriteByte('[')
	for i, s := range l {
		if i > 0 {
			sb.WriteByte(' ')
		}
		sb.WriteString(pbt.Trunc(strconv.QuoteToASCII(string(s)), 120))
	}
	sb.WriteByte(']')
	return sb.String()
}

func qkv(l []KVJ) string {
	var sb strings.Builder
	sb.WriteByte('{')
	for i, kv := range l {
		if i > 0 {
			sb.WriteByte(' ')
		}
		sb.WriteString(strconv.QuoteToASCII(string(kv.K)) + ":" + pbt.Trunc(strconv.QuoteToASCII(string(kv.V)), 120))
	}
	sb.WriteByte('}')
	return sb.String()
}

// Limits of one case. Every case is bounded by the work budget of the guarded
// table (3*10^6 units: a few MB, a few ms), so neither limit can be reached by
// an evaluation that is merely slow: they only fire for a loop that does not
// end (with or without allocating).
const (
	caseHeapLimit = 768 << 20         // bytes of heap growth (an honest case stays below ~20 MiB)
	caseTimeLimit = 200 * time.Second // below the driver's own 20 s + 240 s grace, so that the enumerations leave in order too
)

// check runs the oracle under a heap/time monitor. A runaway case is reported
// as pbt.ErrHang, which makes the driver journal the case and leave at once
// (the stuck goroutine cannot be stopped and may be allocating).
func check(c Case) error {
	if c.Obs == nil {
		c.Obs = pbt.NewObs() // replayed case
	}
	t0 := time.Now()
	err := monitored(string(c.Template), caseHeapLimit, caseTimeLimit, func() error { return checkCase(c) })
	if d := time.Since(t0); err == nil && d > 500*time.Millisecond {
		// evidence only (how far honest cases are from the limits); never a verdict
		c.Obs.Label(true, "took>0.5s")
		c.Obs.Label(d > 5*time.Second, "took>5s")
		if os.Getenv("C08_SHOW_SLOW") != "" {
			fmt.Printf("C08-SLOW %v %s\n", d, q(string(c.Template)))
		}
	}
	return err
}

func monitored(what string, heapLimit uint64, timeLimit time.Duration, f func() error) error {
	done := make(chan error, 1)
	go func() { done <- pbt.Guard(f) }()
	// fast path: nearly every case is done within a millisecond
	first := time.NewTimer(40 * time.Millisecond)
	select {
	case err := <-done:
		first.Stop()
		return err
	case <-first.C:
	}
	var ms runtime.MemStats
	runtime.ReadMemStats(&ms)
	base := ms.HeapAlloc
	start := time.Now()
	tick := time.NewTicker(25 * time.Millisecond)
	defer tick.Stop()
	for {
		select {
		case err := <-done:
			return err
		case <-tick.C:
			runtime.ReadMemStats(&ms)
			if ms.HeapAlloc > base && ms.HeapAlloc-base > heapLimit {
				fmt.Printf("C08: case allocated %d MiB in %v and is still running: %s\n", (ms.HeapAlloc-base)>>20, time.Since(start), q(what))
				abandon()
				return pbt.ErrHang{After: time.Since(start)}
			}
			if time.Since(start) > timeLimit {
				abandon()
				return pbt.ErrHang{After: time.Since(start)}
			}
		}
	}
}

// checkCase is the oracle: guarded table first; the production table when no
// size request had to be turned down.
func checkCase(c Case) error {
	tmpl := substitute(string(c.Template))
	setGlobals(c)
	defer setGlobals(Case{})
	resetBudget()
	seenCalls = seenCalls[:0]
	for i := range lastOutputs {
		for j := range lastOutputs[i] {
			lastOutputs[i][j] = lastOutputs[i][j][:0]
		}
	}
	for _, opt := range []bool{false, true} {
		if err := runTable("guarded", opt, builderFor(true, opt), tmpl, c, false); err != nil {
			return err
		}
	}
	for _, cn := range seenCalls {
		c.Obs.Label(true, "fn:"+cn.name)
		c.Obs.Label(true, "arity:"+strconv.Itoa(min(cn.arity, 6)))
	}
	c.Obs.Add("calls", len(seenCalls))
	c.Obs.Label(budget.astro > 0, "astronomic-size-request")
	c.Obs.Label(budget.charged > 0, "size-request-admitted")
	if budget.clamped > 0 {
		c.Obs.Label(true, "clamped(production-run-skipped)")
		pbt.Exclude("production-table-run:size-request-beyond-budget")
		return nil
	}
	for _, opt := range []bool{false, true} {
		if err := runTable("production", opt, builderFor(false, opt), tmpl, c, true); err != nil {
			return err
		}
	}
	c.Obs.Label(true, "production-run")
	// diagnostic only (no verdict): the guarded table is meant to be
	// transparent while nothing is clamped; the clock-reading helpers aside,
	// both tables must have produced the same texts
	same := true
	for oi := range lastOutputs[0] {
		g, p := lastOutputs[0][oi], lastOutputs[1][oi]
		if len(g) != len(p) {
			same = false
			continue
		}
		for i := range g {
			if g[i] != p[i] {
				same = false
			}
		}
	}
	if !same && !strings.Contains(tmpl, "time") {
		c.Obs.Label(true, "DIAG:guarded-and-production-output-differ")
	}
	return nil
}

var lastOutputs [2][2][]string

func b2i(b bool) int {
	if b {
		return 1
	}
	return 0
}

// hung is set when a case was abandoned while still running: its Obs is then
// still being written to and must not be read.
var hung atomic.Bool

// abandon marks the running case as non-terminating. The goroutine stuck in
// rare cannot be stopped and may be allocating without bound, so the process
// must not go on to the next test function: pbt.Run leaves at once on ErrHang;
// for the enumerations (pbt.Enum records the failure and returns) the process
// is ended here shortly after the failure has been written out.
func abandon() {
	if hung.Swap(true) {
		return
	}
	go func() {
		time.Sleep(4 * time.Second)
		fmt.Println("C08: leaving, a case did not terminate (see the failure recorded above)")
		os.Exit(7)
	}()
}

func classify(c Case) (bool, []string) {
	if hung.Load() {
		return false, []string{"abandoned(non-termination)"}
	}
	o := c.Obs
	labels := pbt.Labels(append([]string(nil), o.All()...))
	for _, cj := range c.Contexts {
		labels.Add(len(cj.Groups) == 0, "ctx:no-groups")
		for _, gval := range cj.Groups {
			classifyValue(&labels, string(gval))
		}
		for _, kv := range cj.Keys {
			classifyValue(&labels, string(kv.V))
		}
	}
	labels.Add(strings.HasSuffix(string(c.Template), "\\"), "tmpl:trailing-backslash")
	labels.Add(strings.ContainsAny(string(c.Template), "\x00\xff"), "tmpl:nul-or-nonutf8")
	labels.Add(c.NoLoad, "noload")
	if c.Origin != "" {
		o := c.Origin
		if strings.HasPrefix(o, "mutation:") {
			o = "mutation"
		}
		labels = append(labels, "origin:"+o)
	}
	labels = dedup(labels)
	nt := o.Get("calls") >= 1 && o.Get("hits") >= 1
	return nt, labels
}

func dedup(l []string) []string {
	seen := map[string]bool{}
	out := l[:0]
	for _, s := range l {
		if !seen[s] {
			seen[s] = true
			out = append(out, s)
		}
	}
	return out
}

func classifyValue(l *pbt.Labels, v string) {
	l.Add(v == "", "ctx:empty")
	l.Add(v != "" && strings.TrimSpace(v) == "", "ctx:blank")
	l.Add(strings.Contains(v, "\x00"), "ctx:nul")
	l.Add(!validUTF8(v), "ctx:non-utf8")
	l.Add(len(v) >= 300, "ctx:long")
	l.Add(len(v) >= 20000, "ctx:>=20000B")
	if n, err := strconv.ParseInt(v, 10, 64); err == nil {
		l.Add(n == 0, "ctx:zero")
		l.Add(n < 0, "ctx:negative-int")
		l.Add(n >= astroFloor || n <= -astroFloor, "ctx:|int|>=2^62")
	} else if _, err := strconv.ParseFloat(v, 64); err == nil {
		l.Add(true, "ctx:float-or-out-of-range-int")
	}
}

func validUTF8(s string) bool {
	for _, r := range s {
		if r == 0xFFFD {
			return strings.ToValidUTF8(s, "") == s
		}
	}
	return true
}

// ---------------------------------------------------------------------------
// grammar

func newGen(t *rapid.T) *gen {
	g := &gen{t: t, taints: map[string]taint{}}
	g.maxDepth = 1 + g.intn(4, "maxdepth")
	g.wild = g.pct(35, "wild")
	return g
}

func (g *gen) switches(c *Case) {
	c.NoLoad = g.pct(12, "noload")
	c.Color = g.pct(50, "color")
	c.NoUnicode = g.pct(40, "nounicode")
	c.NoHumanize = g.pct(20, "nohumanize")
}

func (g *gen) contexts(c *Case) {
	n := 1 + g.intn(3, "nctx")
	for i := 0; i < n; i++ {
		c.Contexts = append(c.Contexts, toJ(g.context()))
	}
}

func genGrammar(t *rapid.T) Case {
	g := newGen(t)
	c := Case{Obs: pbt.NewObs(), Origin: "grammar"}
	if g.wild {
		c.Origin = "grammar:wild"
	}
	tmpl, _ := g.template()
	c.Template = pbt.S(tmpl)
	c.Fns = g.fnSeen
	g.switches(&c)
	g.contexts(&c)
	return c
}

const ruleOracle = "oracle: under recover and a watchdog, for NewKeyBuilderEx(false) and (true): Compile returns a builder and/or >=1 error (printable), BuildKey returns for every context; first with the guarded table (rare's functions; the argument stages at size positions admit a request only while a 3*10^6-unit per-case budget lasts, requests >=2^62 pass untouched), then, when nothing was turned down, with the production table funclib.NewKeyBuilderEx. "

var specGrammar = pbt.Spec[Case]{
	Property: "C08", Name: "grammar",
	Rule:   "random expression trees (depth<=4) over ALL registered helpers (drawn from the registered table itself) at arity 0-5 or the documented arity, each argument a boundary constant / group / key / nested call chosen by the position's kind (20% of any other kind), sub-expression bodies with {0},{1},{-1} and key lookups, @range with bounds anywhere in int64 but a small exact count or an astronomic one, @for in shapes that end under every context incl. the all-empty probe, size positions from small|astronomic|negative|junk; 1-3 contexts of 0-6 groups + keys from the boundary pools (ints/floats of every magnitude, empty, blank, long, NUL, non-UTF-8), global switches drawn per case. " + ruleOracle + "Non-trivial: >=1 registered helper was instantiated and evaluation read >=1 non-empty context value; distinct by case JSON",
	Budget: pbt.Budget{Quick: 280000, Thorough: 6000000},
	Gen:    genGrammar, Check: check, Classify: classify,
}

func TestGrammar(t *testing.T) { pbt.Run(t, specGrammar) }

// ---------------------------------------------------------------------------
// mutation

func genMutation(t *rapid.T) Case {
	g := newGen(t)
	c := Case{Obs: pbt.NewObs()}
	var base string
	if g.pct(45, "fromseed") {
		base = g.pick(seedTemplates, "seed")
	} else {
		if g.maxDepth > 3 {
			g.maxDepth = 3
		}
		base, _ = g.template()
	}
	mut, ops := g.mutate(base)
	c.Template = pbt.S(mut)
	c.Origin = "mutation:" + strings.Join(ops, ",")
	g.switches(&c)
	g.contexts(&c)
	return c
}

var specMutation = pbt.Spec[Case]{
	Property: "C08", Name: "mutation",
	Rule:   "a well-formed template (generated tree of depth<=3, or an expression of rare's tests/docs) with 1-3 byte-level edits: delete/duplicate/insert/swap a byte, drop/duplicate/flip a brace, quote or backslash, truncate (also to a trailing backslash), wrap in braces, append an unterminated opening, insert NUL / 0xFF; contexts as in grammar. " + ruleOracle + "Non-trivial: as grammar",
	Budget: pbt.Budget{Quick: 160000, Thorough: 4000000},
	Gen:    genMutation, Check: check, Classify: classify,
}

func TestMutation(t *testing.T) { pbt.Run(t, specMutation) }

// ---------------------------------------------------------------------------
// bounded-exhaustive sweep: helper x arity x boundary vector

var (
	sweep12 = []string{"", "0", "1", "-1", "2", "10", "1.5", "abc", "a b", maxI64, minI64, two62, "-" + two62, maxU64, "1e300", "NaN", "\x00", "a\x001\x00b", "\xff", "%5d"}
	sweep3  = []string{"", "0", "1", "-1", "5", "abc", maxI64, minI64, two62, "1.5", "a\x00b"}
	sweep45 = []string{"", "1", "-1", maxI64}
	// thorough
	sweep3T = sweep12
	sweep4T = []string{"", "0", "1", "-1", "abc", maxI64, minI64, two62}
	sweep5T = []string{"", "0", "1", "-1", maxI64}
)

func sweepPool(arity int) []string {
	th := pbt.Thorough()
	switch {
	case arity <= 2:
		return sweep12
	case arity == 3 && th:
		return sweep3T
	case arity == 3:
		return sweep3
	case arity == 4 && th:
		return sweep4T
	case arity == 5 && th:
		return sweep5T
	}
	return sweep45
}

func sweepCases(yield func(Case) bool) {
	for _, fn := range functionNames {
		spec := specOf(fn)
		for arity := 0; arity <= 5; arity++ {
			pool := sweepPool(arity)
			idx := make([]int, arity)
			for {
				vals := make([]string, arity)
				for i, x := range idx {
					vals[i] = pool[x]
				}
				// form 1: every argument read from the match
				dyn := make([]string, arity)
				con := make([]string, arity)
				mix := make([]string, arity)
				mixed := false
				for i, v := range vals {
					dyn[i] = "{" + strconv.Itoa(i) + "}"
					con[i] = printLit(v, 1, true)
					if spec.at(i).constant() {
						mix[i], mixed = con[i], true
					} else {
						mix[i] = dyn[i]
					}
				}
				forms := [][]string{dyn, con}
				if mixed && arity > 0 {
					forms = append(forms, mix)
				}
				if arity == 0 {
					forms = forms[:1]
				}
				for fi, f := range forms {
					tmpl := "{" + fn
					for _, a := range f {
						tmpl += " " + a
					}
					tmpl += "}"
					c := Case{Template: pbt.S(tmpl), Obs: pbt.NewObs(), Origin: "sweep:" + []string{"dynamic", "constant", "mixed"}[fi],
						Contexts: []CtxJ{{Groups: pbt.SS(vals), Keys: []KVJ{{"k", "v"}}}}}
					if !yield(c) {
						return
					}
				}
				// next vector
				i := arity - 1
				for ; i >= 0; i-- {
					idx[i]++
					if idx[i] < len(pool) {
						break
					}
					idx[i] = 0
				}
				if i < 0 {
					break
				}
			}
		}
	}
}

func TestSweep(t *testing.T) {
	sp := specGrammar
	sp.Name = "sweep"
	sp.Rule = "bounded-exhaustive: every registered helper x every arity 0-5 x every argument vector over a boundary pool (20 values for arity<=2; 11 for arity 3 [20 thorough]; 4 for arity 4-5 [8 and 5 thorough]: empty, 0, +-1, small, float, text, MaxInt64, MinInt64, +-2^62, MaxUint64, 1e300, NaN, NUL, NUL-separated list, 0xFF, a format verb), each in three forms: all arguments read from the match, all constant, documented-constant positions constant and the rest from the match. " + ruleOracle + "Non-trivial: arity>=1 and the evaluation read >=1 non-empty context value"
	sp.Classify = func(c Case) (bool, []string) {
		if hung.Load() {
			return false, nil
		}
		_, labels := classify(c)
		keep := labels[:0]
		for _, l := range labels {
			if !strings.HasPrefix(l, "ctx:") {
				keep = append(keep, l)
			}
		}
		return c.Obs.Get("calls") >= 1 && c.Obs.Get("hits") >= 1, keep
	}
	pbt.Enum(t, sp, sweepCases)
}

// ---------------------------------------------------------------------------
// fixed: the expressions of rare's tests/docs and known crash inputs, as they are

func TestFixed(t *testing.T) {
	sp := specGrammar
	sp.Name = "fixed"
	sp.Rule = "bounded-exhaustive: every expression of rare's own tests and docs and every crash input known when the check was written (seeds_test.go) x 20 fixed contexts (empty, zeros, -1, MaxInt64/MinInt64, 2^62, >int64, floats/NaN/Inf, NUL lists, non-UTF-8, dates, JSON, format verbs, durations) x {load enabled, disabled}. " + ruleOracle + "Non-trivial: as grammar"
	pbt.Enum(t, sp, func(yield func(Case) bool) {
		for _, s := range seedTemplates {
			for i, fc := range fixedContexts {
				c := Case{Template: pbt.S(s), Obs: pbt.NewObs(), Origin: "seed", Contexts: []CtxJ{toJ(fc)},
					NoLoad: i%7 == 3, Color: i%2 == 0, NoUnicode: i%3 == 0, NoHumanize: i%5 == 0}
				if !yield(c) {
					return
				}
			}
		}
	})
}

// TestForCap: the @for iteration cap itself (10^6 iterations by design). The
// guarded table would stop the loop early, so these run on the production
// table only: 10^6 iterations of a short element are a few MB and well under a
// second of work, so the limits again only fire for a loop without end.
func TestForCap(t *testing.T) {
	sp := specGrammar
	sp.Name = "forcap"
	sp.Rule = "bounded-exhaustive: @for with a condition that never turns false ({@for 0 1 0}, {@for {0} {1} {0}} on x,1, {@for {0} {k} {0}} ...), production table, optimised and plain: must return (the documented 1 000 000-iteration cap, marker <INF>) under the heap/time monitor. Non-trivial: all"
	sp.Check = func(c Case) error {
		if c.Obs == nil {
			c.Obs = pbt.NewObs()
		}
		tmpl := string(c.Template)
		return monitored(tmpl, caseHeapLimit, caseTimeLimit, func() error {
			setGlobals(Case{})
			for _, opt := range []bool{false, true} {
				if err := runTable("production", opt, builderFor(false, opt), tmpl, c, true); err != nil {
					return err
				}
			}
			if !c.Obs.Has("marker:INF") {
				return fmt.Errorf("%s: expected the documented <INF> cap marker", tmpl)
			}
			return nil
		})
	}
	sp.Classify = func(c Case) (bool, []string) {
		if hung.Load() {
			return false, nil
		}
		return true, c.Obs.All()
	}
	pbt.Enum(t, sp, func(yield func(Case) bool) {
		for _, tmpl := range []string{"{@for 0 1 0}", "{@for {0} {1} {0}}", "{@for {0} {k} {1}}", "{@for 0 {not {2}} {sumi {0} 1}}"} {
			c := Case{Template: pbt.S(tmpl), Obs: pbt.NewObs(), Contexts: []CtxJ{{Groups: pbt.SS([]string{"x", "1"}), Keys: []KVJ{{"k", "yes"}}}}}
			if !yield(c) {
				return
			}
		}
	})
}

// ---------------------------------------------------------------------------
// thin CLI layer: what the library survives, the tool survives

var crashRe = regexp.MustCompile(`(?m)^(panic: |fatal error: |goroutine \d+ \[)`)

// cliTimeout bounds one run of the tool (an honest one takes milliseconds:
// the library run on the same data stayed within the work budget).
const cliTimeout = 120 * time.Second

func cliSafe(s string) bool { return !strings.ContainsRune(s, 0) }

func runCLI(bin string, args []string, stdin string) (stderr string, code int, err error) {
	ctx, cancel := context.WithTimeout(context.Background(), cliTimeout)
	defer cancel()
	cmd := exec.CommandContext(ctx, bin, args...)
	cmd.Stdin = strings.NewReader(stdin)
	var eb bytes.Buffer
	cmd.Stderr = &eb
	cmd.Stdout = nil
	runErr := cmd.Run()
	if ctx.Err() != nil {
		// reported as non-termination: the driver journals the case and leaves
		// (shrinking would re-run the stuck tool again and again)
		fmt.Printf("C08: rare %s did not exit within %v\n", q(strings.Join(args, " ")), cliTimeout)
		return eb.String(), -1, pbt.ErrHang{After: cliTimeout}
	}
	code = 0
	if ee, ok := runErr.(*exec.ExitError); ok {
		code = ee.ExitCode()
	} else if runErr != nil {
		return "", -1, nil // could not be started (e.g. argument list too long): not rare's doing
	}
	return eb.String(), code, nil
}

// libraryFirst runs the library oracle on the very match data the tool is
// going to build (the tool numbers groups differently and adds its special
// keys, so a value may reach another argument than in the generated case). It
// reports whether the tool run may follow: no violation and nothing clamped.
func libraryFirst(c Case, ctxs []CtxJ) (bool, error) {
	c2 := c
	c2.Contexts = ctxs
	c2.Obs = pbt.NewObs()
	if err := check(c2); err != nil {
		return false, err
	}
	return !c2.Obs.Has("clamped(production-run-skipped)"), nil
}

func hasComma(s string) bool { return strings.Contains(s, ",") }

func checkCLI(c Case) error {
	if err := check(c); err != nil {
		return err
	}
	bin := os.Getenv("VERIF_RARE_BIN")
	if bin == "" {
		return nil
	}
	tmpl := substitute(string(c.Template))
	if !cliSafe(tmpl) || tmpl == "" || strings.HasPrefix(tmpl, "-") || len(tmpl) > 20000 {
		pbt.Exclude("cli:template-not-an-argv-string")
		return nil
	}
	global := []string{"--funcs", scratch().funcs}
	if c.NoLoad {
		global = append(global, "--noload")
	}
	if c.Color {
		global = append(global, "--color")
	} else {
		global = append(global, "--nocolor")
	}
	if c.NoUnicode {
		global = append(global, "--nounicode")
	}
	if c.NoHumanize {
		global = append(global, "--noformat")
	}
	// 1. rare expression, first context. -d/-k values are split at commas by
	// the flag parser and cannot hold NUL: such data is left out.
	if len(c.Contexts) > 0 {
		c0 := c.Contexts[0]
		args := append(append([]string{}, global...), "expression")
		if len(tmpl)%2 == 1 {
			args = append(args, "--no-optimize")
		}
		ok := true
		for _, gv := range c0.Groups {
			if !cliSafe(string(gv)) || hasComma(string(gv)) || len(gv) > 20000 {
				ok = false
			}
			args = append(args, "-d", string(gv))
		}
		tool := CtxJ{Groups: c0.Groups}
		for _, kv := range c0.Keys {
			if !cliSafe(string(kv.K)) || !cliSafe(string(kv.V)) || hasComma(string(kv.K)) || hasComma(string(kv.V)) || strings.Contains(string(kv.K), "=") || len(kv.V) > 20000 {
				ok = false
			}
			switch string(kv.K) {
			case "src", "line", ".", "#", ".#", "#.", "@": // overwritten by the tool
			default:
				tool.Keys = append(tool.Keys, kv)
			}
			args = append(args, "-k", string(kv.K)+"="+string(kv.V))
		}
		args = append(args, tmpl)
		if ok {
			// the special keys `rare expression` emulates
			tool.Keys = append(tool.Keys, KVJ{"src", "<args>"}, KVJ{"line", "0"}, KVJ{".", "{}"}, KVJ{"#", "{}"}, KVJ{".#", "{}"}, KVJ{"#.", "{}"},
				KVJ{"@", pbt.S(strings.Join(pbt.Strs(c0.Groups), "\x00"))})
			run, err := libraryFirst(c, []CtxJ{tool})
			if err != nil {
				return err
			}
			if run {
				stderr, code, err := runCLI(bin, args, "")
				if err != nil {
					return err
				}
				if crashRe.MatchString(stderr) {
					return fmt.Errorf("rare expression crashed (exit %d) on template %s data %s:\n%s", code, q(tmpl), qs(c0.Groups), pbt.Trunc(stderr, 1500))
				}
				c.Obs.Label(true, "cli:expression")
				c.Obs.Label(code != 0, "cli:expression-nonzero-exit")
			} else {
				pbt.Exclude("cli:size-request-beyond-budget")
			}
		} else {
			pbt.Exclude("cli:data-not-an-argv-string")
		}
	}
	// 2. rare filter -e over one line per context: the fields are TAB-separated,
	// the regex captures the first four ({1}..{4}, the third also as {k}) and
	// {0} is what it matched
	var lines strings.Builder
	var toolCtx []CtxJ
	clean := strings.NewReplacer("\n", " ", "\t", " ", "\r", " ")
	for i, cj := range c.Contexts {
		var fields []string
		for _, gv := range cj.Groups {
			fields = append(fields, clean.Replace(string(gv)))
		}
		lines.WriteString(strings.Join(fields, "\t"))
		lines.WriteByte('\n')
		m := min(len(fields), 4)
		g := []string{strings.Join(fields[:m], "\t"), "", "", "", ""}
		copy(g[1:], fields[:m])
		toolCtx = append(toolCtx, CtxJ{Groups: pbt.SS(g), NameErr: true, Keys: []KVJ{{"k", pbt.S(g[3])}, {"src", "<stdin>"}, {"line", pbt.S(strconv.Itoa(i + 1))},
			{".", "{}"}, {"#", "{}"}, {".#", "{}"}, {"#.", "{}"}, {"@", pbt.S(strings.Join(g[1:], "\x00"))}}})
	}
	run, err := libraryFirst(c, toolCtx)
	if err != nil {
		return err
	}
	if !run {
		pbt.Exclude("cli:size-request-beyond-budget")
		return nil
	}
	re := `^([^\t]*)\t?([^\t]*)\t?(?P<k>[^\t]*)\t?([^\t]*)`
	if len(lines.String())%2 == 1 {
		// the same captures with groups that take no part in the match when a line has fewer fields
		// (they read as empty, like the matched-but-empty groups of the other form)
		re = `^([^\t]*)(?:\t([^\t]*))?(?:\t(?P<k>[^\t]*))?(?:\t([^\t]*))?`
		c.Obs.Label(true, "cli:filter-optional-groups")
	}
	args := append(append([]string{}, global...), "filter", "-m", re, "-e", tmpl)
	stderr, code, err := runCLI(bin, args, lines.String())
	if err != nil {
		return err
	}
	if crashRe.MatchString(stderr) {
		return fmt.Errorf("rare filter -e crashed (exit %d) on template %s lines %s:\n%s", code, q(tmpl), q(lines.String()), pbt.Trunc(stderr, 1500))
	}
	c.Obs.Label(true, "cli:filter")
	c.Obs.Label(code != 0, "cli:filter-nonzero-exit")
	return nil
}

func TestCLI(t *testing.T) {
	if os.Getenv("VERIF_RARE_BIN") == "" && os.Getenv("VERIF_REPLAY") == "" {
		t.Skip("VERIF_RARE_BIN not set")
	}
	sp := specGrammar
	sp.Name = "cli"
	sp.Rule = "grammar and mutation cases (1:1) that pass the library oracle are replayed through the built rare binary: `rare [--noload --color|--nocolor --nounicode --noformat] expression [--no-optimize] -d .. -k .. TEMPLATE` with the first context and `rare filter -m <4 TAB-separated fields, one named k; in half of the runs as optional groups that take no part in the match of a shorter line> -e TEMPLATE` over one line per context; oracle: the process exits by itself and prints no Go panic / fatal-error trace (exit status is not asserted). before each tool run the library oracle is run on the very match data the tool will build (its group numbering and special keys); tool runs whose library run was clamped, and templates/data that cannot be passed as argv (NUL, leading '-', commas in -d/-k), are left out and counted"
	sp.Budget = pbt.Budget{Quick: 2400, Thorough: 40000}
	sp.Watchdog = 300 * time.Second
	sp.Gen = func(t *rapid.T) Case {
		if rapid.Bool().Draw(t, "mutated") {
			return genMutation(t)
		}
		return genGrammar(t)
	}
	sp.Check = checkCLI
	pbt.Run(t, sp)
}

// ---------------------------------------------------------------------------
// native fuzzing (thorough tier): template bytes x 3 group strings

func FuzzTemplate(f *testing.F) {
	for i, s := range seedTemplates {
		fc := fixedContexts[i%len(fixedContexts)]
		g := append(append([]string{}, fc.Groups...), "", "", "")
		f.Add(s, g[0], g[1], g[2])
	}
	for _, fm := range formulas {
		f.Add("{! "+fm+"}", "3", "-2.5", "0")
	}
	for _, jp := range jpaths {
		f.Add("{json {0} "+printLit(jp, 1, true)+"}", jsons[1], jp, "")
	}
	for _, tm := range times {
		f.Add("{time {0}} {time {0} auto} {buckettime {0} d}", tm, "", "")
	}
	for _, fm := range formats {
		f.Add("{format {0} {1} {2}}", fm, "5", "x")
	}
	f.Fuzz(func(t *testing.T, tmpl, g0, g1, g2 string) {
		if len(tmpl) > 400 || len(g0) > 300 || len(g1) > 300 || len(g2) > 300 {
			return
		}
		c := Case{Template: pbt.S(tmpl), Obs: pbt.NewObs(), Origin: "fuzz",
			Contexts: []CtxJ{{Groups: pbt.SS([]string{g0, g1, g2}), Keys: []KVJ{{"k", pbt.S(g1)}, {"x", pbt.S(g2)}}, NameErr: len(g2)%2 == 1}},
			Color:    len(g0)%2 == 1, NoUnicode: len(g1)%2 == 1, NoHumanize: len(tmpl)%5 == 0}
		if err := pbt.WithWatchdog(30*time.Second, func() error { return check(c) }); err != nil {
			t.Fatalf("%v", err)
		}
	})
}

// valueTemplates: the helpers that hand match data to a parser (dates, JSON
// paths, fmt verbs, durations, numbers, formula variables, lists). FuzzValues
// keeps the template fixed and lets the coverage-guided engine work on the
// match data alone.
var valueTemplates = []string{
	"{time {0}}", "{time {0} auto}", "{time {0} cache local}", "{time {0} {1}}", "{time {0} NGINX America/New_York}", "{time {0} RFC3339}", "{time {0} \"2006-01-02 15:04:05.000\"}",
	"{buckettime {0} d}", "{buckettime {0} n auto}", "{buckettime {0} mo {1}}", "{timeformat {0}}", "{timeformat {0} {1} Europe/Berlin}", "{timeattr {0} yearweek}", "{timeattr {0} week Asia/Kolkata}", "{timeformat {time {0}} RFC1123Z local}",
	"{duration {0}}", "{durationformat {0}}", "{durationformat {duration {0}}}",
	"{json {0} {1}}", "{json {1}}", "{json {0} a.b}", "{json {0} {1}|{2}}", "{json {0} \"#({1}).{2}\"}", "{json {0} @pretty:{1}}",
	"{format {0} {1} {2}}", "{format %{0}s {1}}", "{format \"%[2]*.[1]*f\" {0} {1} {2}}",
	"{select {0} {1}}", "{substr {0} {1} {2}}", "{@select {0} 1}{@slice {0} 1 2}{@len {0}}", "{@join {@split {0} {1}}}", "{@split {0} ,}", "{@in {0} {@ a b}}",
	"{@map {0} {sumi {0} {k}}}", "{@reduce {0} {multf {0} {1}}}", "{@filter {0} {gt {0} {k}}}", "{@range {0} {1} {2}}", "{@range {0}}", "{repeat ab {0}}", "{@for {0} {and {lt {1} 9} {isint {0}}} {divi {0} 2}}",
	"{! [0] + [1] * [2]}", "{! [0] % [1]}", "{! [0] << [1]}", "{! [0] ^ [1]}", "{! round([0]) & [1] | [2]}", "{! k * [0]}", "{! (([0] >= [1]) && ![2]) || [0] == [2]}",
	"{sumi {0} {1} {2}}", "{multi {0} {1} {2}}", "{divi {0} {1} {2}}", "{modi {0} {1}}", "{divf {0} {1}}", "{pow {0} {1}}", "{ceil {0}}{floor {0}}{round {0} 3}", "{log2 {0}}{ln {0}}{sqrt {0}}",
	"{hi {0}}{hf {0}}", "{bytesize {0} 2}{bytesizesi {0}}{downscale {0} 1}", "{percent {0} 1 {1} {2}}", "{bucket {0} 10}{bucketrange {0} 7}{expbucket {0}}{clamp {0} -5 5}", "{bar {0} 100 20}{bar {0} 1000000 20 log10}",
	"{basename {0}}{dirname {0}}{extname {0}}", "{csv {0} {1} {2}}", "{lookup {0} \"a b\nc d\"}", "{upper {0}}{lower {0}}{len {0}}", "{like {0} {1}}{prefix {0} {1}}{suffix {0} {1}}",
	"{lt {0} {1}}{gte {0} {1}}{eq {0} {1} {2}}", "{if {0} {1} {2}}{unless {0} {1}}{switch {0} {1} {2}}", "{color red {0}}", "{{0}}", "{u_nest {0} {1}}{u_arr {0}}{u_edge {0} {1}}",
}

func FuzzValues(f *testing.F) {
	for i := range valueTemplates {
		fc := fixedContexts[i%len(fixedContexts)]
		g := append(append([]string{}, fc.Groups...), "", "", "")
		f.Add(uint8(i), g[0], g[1], g[2])
	}
	for i, tm := range times {
		f.Add(uint8(i%15), tm, tfmts[i%len(tfmts)], "")
	}
	for i, jp := range jpaths {
		f.Add(uint8(18+i%6), jsons[i%len(jsons)], jp, "b")
	}
	for _, fm := range formats {
		f.Add(uint8(24), fm, "5", "x")
	}
	f.Fuzz(func(t *testing.T, ti uint8, g0, g1, g2 string) {
		if len(g0) > 400 || len(g1) > 400 || len(g2) > 400 {
			return
		}
		tmpl := valueTemplates[int(ti)%len(valueTemplates)]
		c := Case{Template: pbt.S(tmpl), Obs: pbt.NewObs(), Origin: "fuzzvalues",
			Contexts: []CtxJ{{Groups: pbt.SS([]string{g0, g1, g2}), Keys: []KVJ{{"k", pbt.S(g1)}}}}, Color: len(g0)%2 == 1, NoUnicode: len(g1)%2 == 1}
		if err := pbt.WithWatchdog(30*time.Second, func() error { return check(c) }); err != nil {
			t.Fatalf("%v", err)
		}
	})
}
