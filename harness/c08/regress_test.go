package c08

import (
	"encoding/json"
	"fmt"
	"os"
	"path/filepath"
	"testing"

	"verifharness/pbt"
)

// regressCases: one fixed witness per crash repaired in rare (DESIGN 5.1 #1-#8
// and the ones this check found). They live as JSON files under
// /verif/regress/C08 and are replayed first on every run; this table is the
// source they were written from (C08_WRITE_REGRESS=<dir> go test -run TestWriteRegress).
var regressCases = []struct {
	file, what, template string
	groups               []string
	keys                 []KV
}{
	{"01-trailing-backslash", "template ending in a backslash: index out of range in Compile", "abc\\", []string{"x"}, nil},
	{"01b-trailing-backslash-nested", "argument ending in a backslash", "{tab a\\\\\\\\ b}", []string{"x"}, nil},
	{"02-divi-zero-const", "{divi 1 0}: integer divide by zero inside Compile", "{divi 1 0}", nil, nil},
	{"02b-divi-zero-dynamic", "{divi {0} {1}} on 1,0", "{divi {0} {1}}", []string{"1", "0"}, nil},
	{"02c-modi-zero-dynamic", "{modi {0} {1}} on 7,0", "{modi {0} {1}}", []string{"7", "0"}, nil},
	{"03-repeat-negative", "{repeat x {0}} on -1: negative Repeat count", "{repeat x {0}}", []string{"-1"}, nil},
	{"03b-repeat-overflow", "{repeat xy {0}} on 2^62: Repeat output length overflow", "{repeat xy {0}}", []string{two62}, nil},
	{"04-for-key-lookup", "@for never bound its sub-context: nil dereference on a key lookup", "{@for 0 {lt {0} 3} {sumi {0} {len {k}}}}", []string{"a"}, []KV{{"k", "abc"}}},
	{"05-subcontext-negative-index", "{-1} inside @map: index out of range [-1]", "{@map {@ a b} \"{-1}\"}", []string{"a"}, nil},
	{"05b-time-live-in-map", "{time live} inside @map touches group -1", "{@map {@ a b} \"{time live}\"}", []string{"a"}, nil},
	{"06-formula-mod-zero-compile", "{! [0] % [1]}: integer divide by zero inside Compile (simplifier probes with zeros)", "{! [0] % [1]}", []string{"5", "0"}, nil},
	{"06b-formula-mod-zero-const", "{! 5 % 0}", "{! 5 % 0}", nil, nil},
	{"07-formula-negative-shift", "{! 1 << [0]} on -1: negative shift amount", "{! 1 << [0]}", []string{"-1"}, nil},
	{"07b-formula-negative-rshift", "{! 1 >> [0]} on -1", "{! 1 >> [0]}", []string{"-1"}, nil},
	{"08-formula-trailing-unary", "{! -}: pop on an empty token list", "{! -}", nil, nil},
	{"08b-formula-trailing-unary-2", "{! 2 * -}", "{! 2 * -}", nil, nil},
	// found by this check
	{"09-substr-length-overflow", "{substr {0} {1} {2}}: position+length overflows, slice bounds out of range", "{substr {0} {1} {2}}", []string{"abcdef", "2", maxI64}, nil},
	{"10-repeat-unallocatable", "{repeat x {0}} on MaxInt64: makeslice: len out of range", "{repeat x {0}}", []string{maxI64}, nil},
	{"10b-repeat-unallocatable-2p62", "{repeat x {0}} on 2^62", "{repeat x {0}}", []string{two62}, nil},
	{"11-range-wraparound", "{@range MaxInt64-1 MaxInt64 2}: counter wraps, never returns", "{@range 9223372036854775806 9223372036854775807 2}", nil, nil},
	{"11b-range-wraparound-dynamic", "{@range {0} {1} {2}} at the negative end", "{@range {0} {1} {2}}", []string{"-9223372036854775800", minI64, "-3"}, nil},
	{"12-range-astronomic", "{@range 0 {0}} on 2^62: appends until the process dies", "{@range 0 {0}}", []string{two62}, nil},
	{"13-round-precision", "{round 1.5 2^62}: makeslice: cap out of range inside Compile", "{round 1.5 " + two62 + "}", nil, nil},
	{"13b-percent-precision", "{percent {0} 2^62}: never returns", "{percent {0} " + two62 + "}", []string{"0.5"}, nil},
	{"13c-bytesize-precision", "{bytesize {0} MaxInt64}: never returns", "{bytesize {0} " + maxI64 + "}", []string{"1234567"}, nil},
	{"13d-downscale-precision", "{downscale {0} 2^62}: never returns", "{downscale {0} " + two62 + "}", []string{"1234567"}, nil},
	{"14-bar-width", "{bar {0} 10 2^62}: never returns", "{bar {0} 10 " + two62 + "}", []string{"5"}, nil},
	{"14b-bar-negative-width-wraps", "{bar {0} 1 -6141686018427387904}: width*8 wraps to a huge positive number, never returns", "{bar {0} 1 -6141686018427387904}", []string{"1"}, nil},
}

func TestWriteRegress(t *testing.T) {
	dir := os.Getenv("C08_WRITE_REGRESS")
	if dir == "" {
		t.Skip("set C08_WRITE_REGRESS=<dir> to (re)write the regression files")
	}
	for _, rc := range regressCases {
		c := Case{Template: pbt.S(rc.template), Origin: "regress", Contexts: []CtxJ{toJ(Ctx{Groups: rc.groups, Keys: rc.keys})}}
		cj, _ := json.Marshal(c)
		out, _ := json.MarshalIndent(map[string]any{"property": "C08", "sub": "grammar", "seed": 0, "error": rc.what, "case": json.RawMessage(cj)}, "", " ")
		if err := os.WriteFile(filepath.Join(dir, rc.file+".json"), append(out, '\n'), 0o644); err != nil {
			t.Fatal(err)
		}
	}
	fmt.Println("wrote", len(regressCases), "files")
}
