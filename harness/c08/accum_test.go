// C08, sub-property "reduce-context": the match data behind `rare reduce`.
//
// The other sub-properties evaluate against the harness' own context and the
// array context of `rare expression`. reduce evaluates the same compiled
// expressions against two further implementations of the context interface:
// the accumulator context (group {N} = N-th part of the extracted element,
// {.} = the accumulator, {name} = another column of the row) and the sort
// context ({N} = N-th part of the group key). Same oracle as everywhere in
// C08: adding an expression returns (error or not), sampling any element and
// ordering the groups returns, nothing panics.
package c08

import (
	"fmt"
	"regexp"
	"strings"
	"testing"

	"pgregory.net/rapid"
	"rare/pkg/aggregation"
	"rare/pkg/aggregation/sorting"
	"rare/pkg/expressions/funclib"
	"verifharness/pbt"
)

type AccCase struct {
	Groups  []pbt.S  // group expressions (0-2)
	Datas   []pbt.S  // accumulator expressions (0-3)
	Sort    pbt.S    `json:",omitempty"`
	Base    Case     // the templates' contexts; its Template is the first generated one
	Wrapped []int    `json:",omitempty"` // how each data expression uses {.} (labels only)
	Obs     *pbt.Obs `json:"-"`
}

// sort expressions: a fixed pool (the sort context hands computed group
// values to the expression, so size positions must not appear in it)
var accSortPool = []string{"", "{0}", "{1}", "{2}", "{-1}", "{" + maxI64 + "}", "{4611686018427387904}", "{.}", "{c0}", "{c1}", "{nosuch}",
	"{sumi {0} {c0}}", "{$ {1} {0}}", "{coalesce {c1} {0} x}", "{@len {.}}", "{@join {.} ,}", "{@select {.} 1}", "{9}{8}{7}"}

// In reduce {.} is the accumulator, not a key of the match: a generated template that reads the key "."
// (possibly in a size position, with a value pinned for it in the harness' context) reads a key of another
// name here, which is empty in both contexts. The accumulator itself enters through the wrappers below.
var dotKey = regexp.MustCompile(`(\{)\.(\\*\})`)

func accTemplate(g *gen) string {
	tm, _ := g.template()
	return dotKey.ReplaceAllString(tm, "${1}dotk${2}")
}

func genAcc(t *rapid.T) AccCase {
	g := newGen(t)
	c := AccCase{Obs: pbt.NewObs()}
	c.Base = Case{Obs: pbt.NewObs(), Origin: "reduce-context"}
	ng := g.intn(3, "ngroups")
	nd := g.intn(4, "ndatas")
	first := ""
	for i := 0; i < ng; i++ {
		tm := accTemplate(g)
		if first == "" {
			first = tm
		}
		c.Groups = append(c.Groups, pbt.S(tm))
	}
	for i := 0; i < nd; i++ {
		tm := accTemplate(g)
		if first == "" {
			first = tm
		}
		w := g.intn(4, "wrap")
		switch w {
		case 1:
			tm = "{.}" + tm // grows by one rendering per sample
		case 2:
			tm = "{coalesce {.} " + strings.ReplaceAll(tm, "\"", "") + "}"
		case 3:
			tm = tm + "{@len {.}}"
		}
		c.Wrapped = append(c.Wrapped, w)
		c.Datas = append(c.Datas, pbt.S(tm))
	}
	c.Base.Template = pbt.S(first)
	c.Base.Fns = g.fnSeen
	c.Sort = pbt.S(g.pick(accSortPool, "sort"))
	g.switches(&c.Base)
	g.contexts(&c.Base)
	// the element reduce would extract: groups 1.. joined by the array separator; {0} is the whole element
	for i := range c.Base.Contexts {
		gs := c.Base.Contexts[i].Groups
		for j := 1; j < len(gs); j++ {
			// a part of the element cannot hold the separator itself (it would shift every later group, and a
			// value pinned for one size position would land in another)
			gs[j] = pbt.S(strings.ReplaceAll(string(gs[j]), "\x00", "\x01"))
		}
		if len(gs) > 0 {
			gs[0] = pbt.S(strings.Join(pbt.Strs(gs[1:]), "\x00"))
		}
	}
	return c
}

func (c AccCase) templates() []string {
	var l []string
	for _, s := range c.Groups {
		l = append(l, string(s))
	}
	for _, s := range c.Datas {
		l = append(l, string(s))
	}
	return l
}

func checkAcc(c AccCase) error {
	if c.Obs == nil {
		c.Obs = pbt.NewObs()
	}
	if c.Base.Obs == nil {
		c.Base.Obs = pbt.NewObs()
	}
	for _, cj := range c.Base.Contexts {
		for j := 1; j < len(cj.Groups); j++ {
			if strings.Contains(string(cj.Groups[j]), "\x00") {
				// outside the domain (see genAcc): the groups of the harness' context and the parts of the
				// element would no longer be the same values
				pbt.Exclude("reduce-context:group-value-holds-the-separator")
				return nil
			}
		}
	}
	what := strings.Join(c.templates(), " | ")
	return monitored(what, caseHeapLimit, caseTimeLimit, func() error {
		// every template first passes the guarded table under the harness' context: a case that asks for
		// more output than the per-case budget admits is left out here as everywhere else
		for _, tm := range c.templates() {
			b := c.Base
			b.Template = pbt.S(tm)
			b.Obs = pbt.NewObs()
			if err := checkCase(b); err != nil {
				return err
			}
			if !b.Obs.Has("production-run") {
				c.Obs.Label(true, "clamped(reduce-run-skipped)")
				pbt.Exclude("reduce-context-run:size-request-beyond-budget")
				return nil
			}
		}
		setGlobals(c.Base)
		defer setGlobals(Case{})
		ag := aggregation.NewAccumulatingGroup(funclib.NewKeyBuilder())
		where := fmt.Sprintf("groups=%s datas=%s sort=%s", qs(c.Groups), qs(c.Datas), q(string(c.Sort)))
		added := 0
		for i, e := range c.Groups {
			if err := pbt.Guard(func() error {
				if err := ag.AddGroupExpr(fmt.Sprintf("g%d", i), substitute(string(e))); err != nil {
					c.Obs.Label(true, "compile-errors")
				} else {
					added++
				}
				return nil
			}); err != nil {
				return fmt.Errorf("AddGroupExpr panicked %s: %v", where, err)
			}
		}
		for i, e := range c.Datas {
			if err := pbt.Guard(func() error {
				if err := ag.AddDataExpr(fmt.Sprintf("c%d", i), substitute(string(e)), "0"); err != nil {
					c.Obs.Label(true, "compile-errors")
				} else {
					added++
				}
				return nil
			}); err != nil {
				return fmt.Errorf("AddDataExpr panicked %s: %v", where, err)
			}
		}
		if s := string(c.Sort); s != "" {
			if err := pbt.Guard(func() error {
				if err := ag.SetSort(s); err != nil {
					c.Obs.Label(true, "compile-errors")
				}
				return nil
			}); err != nil {
				return fmt.Errorf("SetSort panicked %s: %v", where, err)
			}
		}
		c.Obs.Add("exprs", added)
		for i, cj := range c.Base.Contexts {
			el := ""
			if len(cj.Groups) > 0 {
				el = string(cj.Groups[0])
			}
			for rep := 0; rep < 2; rep++ { // twice: the second sample finds the row and its accumulated values
				if err := pbt.Guard(func() error { ag.Sample(el); return nil }); err != nil {
					return fmt.Errorf("Sample panicked %s element #%d %s: %v", where, i, q(el), err)
				}
			}
			if err := pbt.Guard(func() error {
				for _, gk := range ag.Groups(sorting.ByContextual()) {
					_ = gk.Parts()
					_ = ag.Data(gk)
				}
				return nil
			}); err != nil {
				return fmt.Errorf("Groups panicked %s after element #%d %s: %v", where, i, q(el), err)
			}
		}
		c.Obs.Label(true, "reduce-run")
		c.Obs.Label(len(c.Groups) == 0, "no-group")
		c.Obs.Label(len(c.Datas) == 0, "no-accumulator")
		c.Obs.Label(c.Sort != "", "sorted")
		c.Obs.Label(ag.DataCount() >= 2, "groups>=2")
		for _, tm := range c.templates() {
			for _, odd := range []string{maxI64, pastI64, "{-1}", "{99}"} {
				if strings.Contains(tm, odd) {
					c.Obs.Label(true, "odd-group-index")
				}
			}
		}
		return nil
	})
}

func classifyAcc(c AccCase) (bool, []string) {
	return c.Obs.Has("reduce-run") && c.Obs.Get("exprs") >= 1, c.Obs.All()
}

var specAcc = pbt.Spec[AccCase]{
	Property: "C08", Name: "reduce-context",
	Rule:   "0-2 group expressions and 0-3 accumulator expressions from the grammar generator (a third of the accumulators also read {.}), a sort expression from a fixed pool (group indexes -1..2^63-1, {.}, column names, unknown names), handed to aggregation.NewAccumulatingGroup(funclib.NewKeyBuilder()) as `rare reduce` does; every context's groups 1.. joined by NUL are sampled twice and Groups(ByContextual) + Data are read after each element. " + ruleOracle + "Then: AddGroupExpr/AddDataExpr/SetSort return, Sample returns, Groups returns; no panic. Non-trivial: the reduce run took place (no size request beyond the budget) with >=1 compiled expression",
	Budget: pbt.Budget{Quick: 60000, Thorough: 1500000},
	Gen:    genAcc, Check: checkAcc, Classify: classifyAcc,
}

func TestReduceContext(t *testing.T) { pbt.Run(t, specAcc) }
