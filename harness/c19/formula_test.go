// C19 — reference pieces: formula tree, printer, lexer, reference parser and
// reference evaluator. Everything here is written from the property statement
// and /repo/docs/usage/math.md; nothing is transcribed from pkg/expressions/stdmath.
package c19

import (
	"fmt"
	"math"
	"strconv"
	"strings"
)

// ---------------------------------------------------------------------------
// tree
// ---------------------------------------------------------------------------

// Node is one node of a formula tree.
//
//	lit   Txt = literal text as printed (decimal, 0x.., 0b..)
//	var   Txt = key (name, or digits for an index), Sp = bare | box
//	neg   -A          not   !A
//	fn    Op(A)       one of the documented named unary operators
//	bin   A Op B
//	imul  A(B)        implied multiplication A*(B) on the * / % level: A is a lit, or X^lit
//	                  (its text ends in a number literal), B the group content
type Node struct {
	K   string `json:"k"`
	Op  string `json:"op,omitempty"`
	Txt string `json:"txt,omitempty"`
	Sp  string `json:"sp,omitempty"`
	A   *Node  `json:"a,omitempty"`
	B   *Node  `json:"b,omitempty"`
	Par bool   `json:"par,omitempty"` // printed inside its own (possibly redundant) parentheses
	Gl  bool   `json:"gl,omitempty"`  // bin: operator printed without surrounding blanks
}

// Precedence levels. 1..5 are the ones the statement orders
// ("^ before * / % before + - before comparisons before && ||"). Shift and bit
// operators are not placed by the statement nor by the documentation: they get
// classes of their own which are comparable only with themselves.
const (
	lvBool  = 1
	lvCmp   = 2
	lvAdd   = 3
	lvMul   = 4
	lvPow   = 5
	lvShift = 10
	lvAnd   = 11
	lvOr    = 12
)

func level(op string) int {
	switch op {
	case "^":
		return lvPow
	case "*", "/", "%":
		return lvMul
	case "+", "-":
		return lvAdd
	case "==", "<=", ">=", "<", ">":
		return lvCmp
	case "&&", "||":
		return lvBool
	case "<<", ">>":
		return lvShift
	case "&":
		return lvAnd
	case "|":
		return lvOr
	}
	return 0
}

func documented(l int) bool { return l >= lvBool && l <= lvPow }

var levelName = map[int]string{lvBool: "bool", lvCmp: "cmp", lvAdd: "add", lvMul: "mul", lvPow: "pow", lvShift: "shift", lvAnd: "bitand", lvOr: "bitor"}

// the documented named unary operators (math.md, table "Unary")
var funcs = map[string]func(float64) float64{
	"abs": math.Abs, "sqrt": math.Sqrt,
	"sin": math.Sin, "asin": math.Asin, "cos": math.Cos, "acos": math.Acos, "tan": math.Tan, "atan": math.Atan,
	"floor": math.Floor, "ceil": math.Ceil, "round": math.Round,
	"exp": math.Exp, "exp2": math.Exp2, "log": math.Log, "log10": math.Log10, "log2": math.Log2,
}

var funcNames = []string{"abs", "sqrt", "sin", "asin", "cos", "acos", "tan", "atan", "floor", "ceil", "round", "exp", "exp2", "log", "log10", "log2"}

// ---------------------------------------------------------------------------
// printer: omits parentheses exactly where the documented order makes them
// redundant, keeps them wherever statement and documentation are silent.
// ---------------------------------------------------------------------------

type printer struct {
	omitted int // parenthesis pairs left out around a binary child (precedence / associativity decides)
}

func printTree(n *Node) string {
	var p printer
	return p.pr(n)
}

func (p *printer) pr(n *Node) string {
	s := p.bare(n)
	if n.Par {
		return "(" + s + ")"
	}
	return s
}

func isAtomic(n *Node) bool { return n.Par || n.K == "lit" || n.K == "var" || n.K == "fn" }

func (p *printer) bare(n *Node) string {
	switch n.K {
	case "lit":
		return n.Txt
	case "var":
		if n.Sp == "box" {
			return "[" + n.Txt + "]"
		}
		return n.Txt
	case "neg", "not":
		sym := "-"
		if n.K == "not" {
			sym = "!"
		}
		if isAtomic(n.A) {
			return sym + p.pr(n.A)
		}
		return sym + "(" + p.pr(n.A) + ")"
	case "fn":
		if n.Sp == "blank" {
			return n.Op + " (" + p.pr(n.A) + ")"
		}
		return n.Op + "(" + p.pr(n.A) + ")"
	case "imul":
		// A is a literal, or X^literal: as the left operand of a * it needs no
		// parentheses, and its text ends in the number the group is glued to
		l := n.A.Txt
		if n.A.K != "lit" {
			l = p.child(&Node{K: "bin", Op: "*"}, n.A, false)
		}
		return l + "(" + p.pr(n.B) + ")"
	case "bin":
		l := p.child(n, n.A, false)
		r := p.child(n, n.B, true)
		if n.Gl && r[0] != '-' && r[0] != '!' {
			return l + n.Op + r
		}
		return l + " " + n.Op + " " + r
	}
	panic("c19 harness: unknown node kind " + n.K)
}

func (p *printer) child(par, c *Node, right bool) string {
	s := p.pr(c)
	if c.Par {
		return s
	}
	if needParens(par, c, right) {
		return "(" + s + ")"
	}
	if c.K == "bin" {
		p.omitted++
	}
	return s
}

// needParens: must child c of binary node par be parenthesised so that the
// text has exactly one reading under the documented rules?
func needParens(par, c *Node, right bool) bool {
	lp := level(par.Op)
	switch c.K {
	case "lit", "var", "fn":
		return false
	case "neg":
		// -x next to ^ is read differently by different conventions (-2^2), and
		// next to shift / bit operators nothing is documented.
		return !(lp == lvMul || lp == lvAdd || lp == lvCmp || lp == lvBool)
	case "not":
		return lp != lvBool
	case "imul":
		// 6/2(1+2): whether juxtaposition binds like * or tighter is a
		// well-known disagreement; print it only where both readings agree.
		if right {
			return !(lp == lvAdd || lp == lvCmp || lp == lvBool)
		}
		return !(lp == lvMul || lp == lvAdd || lp == lvCmp || lp == lvBool)
	case "bin":
		lc := level(c.Op)
		if documented(lp) && documented(lc) {
			return lc < lp || (lc == lp && right)
		}
		return !(lc == lp && !right)
	}
	return true
}

// sameShape compares two trees ignoring printing attributes (Par, Gl).
func sameShape(a, b *Node) bool {
	if a == nil || b == nil {
		return a == b
	}
	if a.K != b.K || a.Op != b.Op || a.Txt != b.Txt {
		return false
	}
	if a.K == "var" && a.Sp != b.Sp {
		return false
	}
	return sameShape(a.A, b.A) && sameShape(a.B, b.B)
}

// ---------------------------------------------------------------------------
// lexer
// ---------------------------------------------------------------------------

const (
	tNum = iota
	tVar
	tBox
	tFunc
	tOp
	tLP
	tRP
)

type tok struct {
	k  int
	s  string
	sp bool // preceded by a blank
}

func isWordChar(c byte) bool {
	return c >= '0' && c <= '9' || c >= 'a' && c <= 'z' || c >= 'A' && c <= 'Z' || c == '.' || c == '_'
}

func isDigits(s string) bool {
	if s == "" {
		return false
	}
	for i := 0; i < len(s); i++ {
		if s[i] < '0' || s[i] > '9' {
			return false
		}
	}
	return true
}

func isName(s string) bool {
	if s == "" || !(s[0] >= 'a' && s[0] <= 'z' || s[0] >= 'A' && s[0] <= 'Z') {
		return false
	}
	for i := 1; i < len(s); i++ {
		c := s[i]
		if !(c >= '0' && c <= '9' || c >= 'a' && c <= 'z' || c >= 'A' && c <= 'Z') {
			return false
		}
	}
	switch strings.ToLower(s) {
	case "inf", "infinity", "nan": // spellings of numbers, not "non-numeric values"
		return false
	}
	return true
}

func isIndex(s string) bool {
	return isDigits(s) && len(s) <= 3 && (s == "0" || s[0] != '0')
}

// isNumber: the documented literal formats only — base 10 (digits, optional
// fraction, no leading zeros, no exponent), 0x + upper-case hex digits, 0b +
// binary digits; hex/binary below 2^53 so the value is exact.
func isNumber(w string) bool {
	if strings.HasPrefix(w, "0x") {
		h := w[2:]
		if h == "" || len(h) > 13 {
			return false
		}
		for i := 0; i < len(h); i++ {
			if !(h[i] >= '0' && h[i] <= '9' || h[i] >= 'A' && h[i] <= 'F') {
				return false
			}
		}
		return true
	}
	if strings.HasPrefix(w, "0b") {
		b := w[2:]
		if b == "" || len(b) > 52 {
			return false
		}
		for i := 0; i < len(b); i++ {
			if b[i] != '0' && b[i] != '1' {
				return false
			}
		}
		return true
	}
	ip, fp, hasDot := strings.Cut(w, ".")
	if !isDigits(ip) || (len(ip) > 1 && ip[0] == '0') {
		return false
	}
	if hasDot && !isDigits(fp) {
		return false
	}
	return len(w) <= 400
}

func litValue(w string) float64 {
	if strings.HasPrefix(w, "0x") {
		v, _ := strconv.ParseUint(w[2:], 16, 64)
		return float64(v)
	}
	if strings.HasPrefix(w, "0b") {
		v, _ := strconv.ParseUint(w[2:], 2, 64)
		return float64(v)
	}
	v, _ := strconv.ParseFloat(w, 64) // correctly rounded value of the decimal
	return v
}

var ops2 = []string{"<<", ">>", "==", "<=", ">=", "&&", "||"}

const ops1 = "+-*/^%&|<>!"

// lex splits text into tokens of the documented alphabet; ok=false when the
// text holds anything else.
func lex(text string) (out []tok, ok bool) {
	sp := false
	for i := 0; i < len(text); {
		c := text[i]
		switch {
		case c == ' ':
			sp = true
			i++
			continue
		case c == '(':
			out = append(out, tok{tLP, "(", sp})
			i++
		case c == ')':
			out = append(out, tok{tRP, ")", sp})
			i++
		case c == '[':
			j := strings.IndexByte(text[i:], ']')
			if j < 0 {
				return nil, false
			}
			inner := text[i+1 : i+j]
			if !isName(inner) && !isIndex(inner) {
				return nil, false
			}
			out = append(out, tok{tBox, inner, sp})
			i += j + 1
		case isWordChar(c):
			j := i
			for j < len(text) && isWordChar(text[j]) {
				j++
			}
			w := text[i:j]
			switch {
			case isNumber(w):
				out = append(out, tok{tNum, w, sp})
			case isName(w):
				if _, f := funcs[w]; f {
					out = append(out, tok{tFunc, w, sp})
				} else {
					out = append(out, tok{tVar, w, sp})
				}
			default:
				return nil, false
			}
			i = j
		default:
			found := ""
			if i+2 <= len(text) {
				for _, o := range ops2 {
					if text[i:i+2] == o {
						found = o
					}
				}
			}
			if found == "" && strings.IndexByte(ops1, c) >= 0 {
				found = string(c)
			}
			if found == "" {
				return nil, false
			}
			out = append(out, tok{tOp, found, sp})
			i += len(found)
		}
		sp = false
	}
	return out, true
}

func renderToks(ts []tok) string {
	var sb strings.Builder
	for _, t := range ts {
		if t.sp {
			sb.WriteByte(' ')
		}
		if t.k == tBox {
			sb.WriteString("[" + t.s + "]")
		} else {
			sb.WriteString(t.s)
		}
	}
	return sb.String()
}

// ---------------------------------------------------------------------------
// reference parser / classifier
// ---------------------------------------------------------------------------

type class int

const (
	clWF        class = iota // well formed with exactly one documented reading: value is asserted
	clMalformed              // structurally broken under any reading: must be rejected
	clUnspec                 // statement and documentation are silent: only "does not crash"
)

func (c class) String() string { return [...]string{"well-formed", "malformed", "unspecified"}[c] }

// prescan finds the lexical situations about which the documentation says
// nothing; it returns a reason, or "" when there is none.
func prescan(ts []tok) string {
	operandStart := func(k int) bool { return k == tNum || k == tVar || k == tBox || k == tFunc || k == tLP }
	for i, t := range ts {
		operandPos := i == 0 || ts[i-1].k == tOp || ts[i-1].k == tLP
		if operandStart(t.k) && !operandPos {
			prev := ts[i-1]
			switch {
			case t.k == tLP && prev.k == tNum && !t.sp:
				if i >= 2 && ts[i-2].k == tOp && (ts[i-2].s == "-" || ts[i-2].s == "!") && (i == 2 || ts[i-3].k == tOp || ts[i-3].k == tLP) {
					return "unary operator applied to an implied multiplication"
				}
			case t.k == tLP && prev.k == tFunc:
			default:
				return "two operands without an operator between them"
			}
		}
		// "they need to be followed by a group, eg. cos(x)": blanks are not
		// significant anywhere else in a formula, so "cos (x)" is the same call
		if t.k == tFunc && (i+1 >= len(ts) || ts[i+1].k != tLP) {
			return "name of a unary operator not followed by a group"
		}
		if t.k == tOp {
			if i > 0 && ts[i-1].k == tOp && !t.sp {
				return "two operators written without a blank between them"
			}
			if operandPos {
				switch t.s {
				case "-", "!":
					if i+1 < len(ts) {
						n := ts[i+1]
						if operandStart(n.k) && n.sp {
							return "blank between a unary operator and its operand"
						}
						if n.k == tOp && (n.s == "-" || n.s == "!" || n.s == "+") {
							return "unary operator applied to a unary operator"
						}
					}
				case "+":
					return "unary plus"
				}
			} else if t.s == "!" {
				return "! after an operand"
			}
		}
	}
	return ""
}

type malformed struct{ why string }

func (m malformed) Error() string { return m.why }

// silentAbort: the parser met something prescan should have filtered; the
// text is then treated as unspecified, never as malformed.
type silentAbort struct{ why string }

func (m silentAbort) Error() string { return m.why }

type parser struct {
	t      []tok
	i      int
	unspec string
}

func (p *parser) peek() *tok {
	if p.i < len(p.t) {
		return &p.t[p.i]
	}
	return nil
}

func (p *parser) nextOp() string {
	if t := p.peek(); t != nil && t.k == tOp {
		return t.s
	}
	return ""
}

func (p *parser) flag(why string) {
	if p.unspec == "" {
		p.unspec = why
	}
}

// seq parses operand (operator operand)* up to ')' or the end, with an
// explicit operator stack over a PARTIAL precedence relation.
func (p *parser) seq() (*Node, error) {
	var vals []*Node
	var ops []string
	const implied = "*(" // the omitted sign of n(..): a multiplication on the * / % level
	reduce := func() {
		b, a := vals[len(vals)-1], vals[len(vals)-2]
		op := ops[len(ops)-1]
		if op == implied {
			vals = append(vals[:len(vals)-2], &Node{K: "imul", A: a, B: b})
		} else {
			vals = append(vals[:len(vals)-2], &Node{K: "bin", Op: op, A: a, B: b})
		}
		ops = ops[:len(ops)-1]
	}
	lvl := func(op string) int {
		if op == implied {
			return lvMul
		}
		return level(op)
	}
	prev := ""
	for {
		v, err := p.operand(prev)
		if err != nil {
			return nil, err
		}
		vals = append(vals, v)
		t := p.peek()
		if t == nil || t.k == tRP {
			break
		}
		op := ""
		if t.k == tLP && !t.sp && p.i > 0 && p.t[p.i-1].k == tNum {
			// "2(1+1)": a number directly followed by a group. Documented by
			// example only; the statement names it with the operators it
			// orders, so it is read as the multiplication it abbreviates. Two
			// neighbourhoods stay open: a sign or ! in front of the number, and
			// a * / % to the left (6/2(1+2) - the well-known disagreement on
			// whether juxtaposition binds like * or tighter). The group is the
			// next operand; the token is not consumed here.
			op = implied
			if v.K == "neg" || v.K == "not" {
				p.flag("unary operator applied to an implied multiplication")
			}
		} else if t.k != tOp || t.s == "!" {
			return nil, silentAbort{"operand follows operand"}
		} else {
			op = t.s
			p.i++
		}
		if len(ops) > 0 && ops[len(ops)-1] == implied && lvl(op) == lvPow {
			p.flag("implied multiplication followed by ^ (does the power belong to the group or to the product?)")
		}
		for len(ops) > 0 {
			top := ops[len(ops)-1]
			lt, lo := lvl(top), lvl(op)
			if documented(lt) && documented(lo) {
				if lt >= lo { // tighter, or equal level: left to right
					if op == implied && lt == lvMul {
						p.flag("implied multiplication right after a * / % operand (juxtaposition: like * or tighter?)")
					}
					reduce()
					continue
				}
				break
			}
			if lt == lo { // same undocumented class: left to right
				reduce()
				continue
			}
			p.flag("order of " + top + " and " + op + " is not documented")
			reduce()
		}
		ops = append(ops, op)
		prev = op
		if op == implied {
			prev = "*"
		}
	}
	for len(ops) > 0 {
		reduce()
	}
	return vals[0], nil
}

func (p *parser) operand(prev string) (*Node, error) {
	t := p.peek()
	if t == nil {
		return nil, malformed{"operand expected at the end"}
	}
	if t.k == tOp {
		if t.s != "-" && t.s != "!" {
			return nil, malformed{"operand expected, found operator " + t.s}
		}
		p.i++
		a, err := p.atom(prev, true)
		if err != nil {
			return nil, err
		}
		lp, ln := level(prev), level(p.nextOp())
		silent := func(l int) bool { return l == lvPow || l >= lvShift }
		if t.s == "-" {
			if silent(lp) || silent(ln) {
				p.flag("unary minus next to ^ / shift / bit operator")
			}
			return &Node{K: "neg", A: a}, nil
		}
		if silent(lp) || !(ln == 0 || ln == lvBool) {
			p.flag("! next to an operator other than && ||")
		}
		return &Node{K: "not", A: a}, nil
	}
	return p.atom(prev, false)
}

func (p *parser) group() (*Node, error) {
	// at '('
	p.i++
	if t := p.peek(); t != nil && t.k == tRP {
		return nil, malformed{"empty group"}
	}
	n, err := p.seq()
	if err != nil {
		return nil, err
	}
	if t := p.peek(); t == nil || t.k != tRP {
		return nil, malformed{"unclosed group"}
	}
	p.i++
	return n, nil
}

func (p *parser) atom(prev string, underUnary bool) (*Node, error) {
	t := p.peek()
	if t == nil {
		return nil, malformed{"operand expected at the end"}
	}
	switch t.k {
	case tNum:
		p.i++
		return &Node{K: "lit", Txt: t.s}, nil
	case tVar:
		p.i++
		return &Node{K: "var", Txt: t.s, Sp: "bare"}, nil
	case tBox:
		p.i++
		return &Node{K: "var", Txt: t.s, Sp: "box"}, nil
	case tFunc:
		p.i++
		if n := p.peek(); n == nil || n.k != tLP {
			return nil, malformed{"unary operator name without group"}
		}
		g, err := p.group()
		if err != nil {
			return nil, err
		}
		return &Node{K: "fn", Op: t.s, A: g}, nil
	case tLP:
		return p.group()
	case tRP:
		return nil, malformed{"operand expected, found )"}
	default:
		return nil, malformed{"operand expected, found operator " + t.s}
	}
}

// classify decides what the statement + documentation say about a text.
func classify(text string) (class, *Node, string) {
	ts, ok := lex(text)
	if !ok {
		return clUnspec, nil, "outside the documented alphabet"
	}
	if why := prescan(ts); why != "" {
		return clUnspec, nil, why
	}
	depth := 0
	for _, t := range ts {
		if t.k == tLP {
			depth++
		} else if t.k == tRP {
			depth--
			if depth < 0 {
				return clMalformed, nil, "over-closed parenthesis"
			}
		}
	}
	if depth != 0 {
		return clMalformed, nil, "unclosed parenthesis"
	}
	p := &parser{t: ts}
	n, err := p.seq()
	if err != nil {
		if _, silent := err.(silentAbort); silent {
			return clUnspec, nil, err.Error()
		}
		return clMalformed, nil, err.Error()
	}
	if p.i != len(ts) {
		return clMalformed, nil, "trailing tokens"
	}
	if p.unspec != "" {
		return clUnspec, n, p.unspec
	}
	return clWF, n, ""
}

// ---------------------------------------------------------------------------
// reference evaluator
// ---------------------------------------------------------------------------

const two53 = 9007199254740992.0

func isInt53(v float64) bool { return v == math.Trunc(v) && math.Abs(v) <= two53 }

// eval computes the value of the tree under IEEE-754 double arithmetic and
// Go's math package. undef != "" means: the documentation does not determine
// the value on this input (the case then only checks "no crash" and the
// differential relations).
func eval(n *Node, bind func(string) (float64, bool)) (v float64, undef string) {
	switch n.K {
	case "lit":
		return litValue(n.Txt), ""
	case "var":
		x, ok := bind(n.Txt)
		if !ok {
			return 0, "unbound variable " + n.Txt
		}
		return x, ""
	case "neg":
		a, u := eval(n.A, bind)
		return -a, u
	case "not":
		a, u := eval(n.A, bind)
		if u != "" {
			return 0, u
		}
		if math.IsNaN(a) {
			return 0, "truth value of NaN"
		}
		return b2f(a == 0), ""
	case "fn":
		a, u := eval(n.A, bind)
		if u != "" {
			return 0, u
		}
		if n.Op == "round" && math.Abs(a-math.Trunc(a)) == 0.5 {
			return 0, "round of an exact half (tie rule not documented)"
		}
		return funcs[n.Op](a), ""
	case "imul":
		a, u := eval(n.A, bind)
		if u != "" {
			return 0, u
		}
		b, u := eval(n.B, bind)
		return a * b, u
	case "bin":
		a, u := eval(n.A, bind)
		if u != "" {
			return 0, u
		}
		b, u := eval(n.B, bind)
		if u != "" {
			return 0, u
		}
		return binop(n.Op, a, b)
	}
	panic("c19 harness: unknown node kind " + n.K)
}

func b2f(b bool) float64 {
	if b {
		return 1
	}
	return 0
}

func binop(op string, a, b float64) (float64, string) {
	switch op {
	case "+":
		return a + b, ""
	case "-":
		return a - b, ""
	case "*":
		return a * b, ""
	case "/":
		return a / b, ""
	case "^":
		return math.Pow(a, b), ""
	case "==", "<", "<=", ">", ">=":
		// NaN is not ordered and not equal to anything (IEEE 754, the arithmetic of float64 that the
		// formulas are documented to use): every one of the five comparisons with a NaN operand is false
		switch op {
		case "==":
			return b2f(a == b), ""
		case "<":
			return b2f(a < b), ""
		case "<=":
			return b2f(a <= b), ""
		case ">":
			return b2f(a > b), ""
		}
		return b2f(a >= b), ""
	case "&&", "||":
		if math.IsNaN(a) || math.IsNaN(b) {
			return 0, "truth value of NaN"
		}
		if op == "&&" {
			return b2f(a != 0 && b != 0), ""
		}
		return b2f(a != 0 || b != 0), ""
	}
	// integer operators
	if !isInt53(a) || !isInt53(b) {
		return 0, "integer operator " + op + " on a non-integer or |v|>2^53 operand"
	}
	x, y := int64(a), int64(b)
	switch op {
	case "%":
		if y == 0 {
			return 0, "% by zero"
		}
		if x < 0 || y < 0 {
			return 0, "% with a negative operand (sign rule not documented)"
		}
		return float64(x % y), ""
	case "&":
		return float64(x & y), ""
	case "|":
		return float64(x | y), ""
	case "<<":
		if y < 0 {
			return 0, "negative shift amount"
		}
		if x == 0 {
			return 0, ""
		}
		ax := x
		if ax < 0 {
			ax = -ax
		}
		if y >= 62 || ax >= int64(1)<<(62-uint(y)) {
			return 0, "left shift beyond 63 bits"
		}
		return float64(x << uint(y)), ""
	case ">>":
		if y < 0 {
			return 0, "negative shift amount"
		}
		if y > 63 {
			y = 63
		}
		return float64(x >> uint(y)), ""
	}
	panic("c19 harness: unknown operator " + op)
}

// same: both NaN, or numerically equal (+0 and -0 are not told apart).
func same(a, b float64) bool {
	return (math.IsNaN(a) && math.IsNaN(b)) || a == b
}

// identical: bit for bit, all NaNs alike.
func identical(a, b float64) bool {
	return (math.IsNaN(a) && math.IsNaN(b)) || math.Float64bits(a) == math.Float64bits(b)
}

func fstr(v float64) string { return strconv.FormatFloat(v, 'g', -1, 64) }

// ---------------------------------------------------------------------------
// tree statistics for the non-triviality rules
// ---------------------------------------------------------------------------

type stats struct {
	binops, vars, lits, unary, fns, imuls int
	levels                                map[int]bool
	ops                                   map[string]bool
	constFold                             int // operator nodes with no variable below them (foldable at compile time)
	hexbin                                bool
}

func (s *stats) walk(n *Node) (hasVar bool) {
	if n == nil {
		return false
	}
	switch n.K {
	case "lit":
		s.lits++
		if strings.HasPrefix(n.Txt, "0x") || strings.HasPrefix(n.Txt, "0b") {
			s.hexbin = true
		}
		return false
	case "var":
		s.vars++
		return true
	case "neg", "not":
		s.unary++
		s.ops[n.K] = true
	case "fn":
		s.fns++
		s.ops[n.Op] = true
	case "imul":
		s.imuls++
	case "bin":
		s.binops++
		s.levels[level(n.Op)] = true
		s.ops[n.Op] = true
	}
	a := s.walk(n.A)
	b := s.walk(n.B)
	if !a && !b {
		s.constFold++
	}
	return a || b
}

func treeStats(n *Node) *stats {
	s := &stats{levels: map[int]bool{}, ops: map[string]bool{}}
	s.walk(n)
	return s
}

func (s *stats) documentedLevels() int {
	c := 0
	for l := range s.levels {
		if documented(l) {
			c++
		}
	}
	return c
}

var _ = fmt.Sprintf
