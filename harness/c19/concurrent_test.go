// C19, "concurrent": one compiled {! ..} stage is shared by all extractor
// workers. "Evaluates, for all variable bindings, to the value of its parse"
// is what each worker relies on for ITS line while the others evaluate
// theirs: the value for a binding must not depend on what another goroutine
// is evaluating at the same moment.
package c19

import (
	"fmt"
	"strconv"
	"sync"
	"testing"

	"pgregory.net/rapid"
	"verifharness/pbt"
)

type ConcCase struct {
	Formula string
	Tree    *Node
	Binds   [][]Bind // one binding set per goroutine (same names, different values)
	Rounds  int
	NoOpt   bool
	Obs     *pbt.Obs `json:"-"`
}

func checkConc(c ConcCase) error {
	if c.Tree == nil || len(c.Binds) < 2 {
		return nil
	}
	text := printTree(c.Tree)
	kb, cerr := builder(c.NoOpt).Compile("{! " + text + "}")
	if cerr != nil {
		pbt.Exclude("formula rejected (judged by the other sub-properties)")
		return nil
	}
	want := make([]string, len(c.Binds))
	for i, b := range c.Binds {
		want[i] = kb.BuildKey(&tmplCtx{lookupOf(b)})
	}
	rounds := c.Rounds
	if rounds < 1 {
		rounds = 1
	}
	var wg sync.WaitGroup
	errs := make([]error, len(c.Binds))
	start := make(chan struct{})
	for i := range c.Binds {
		wg.Add(1)
		go func(i int) {
			defer wg.Done()
			ctx := &tmplCtx{lookupOf(c.Binds[i])}
			<-start
			for r := 0; r < rounds; r++ {
				if got := kb.BuildKey(ctx); got != want[i] {
					errs[i] = fmt.Errorf("{! %s}: goroutine %d of %d (round %d) got %q for its binding %v, evaluated alone the same binding gives %q", text, i, len(c.Binds), r, got, c.Binds[i], want[i])
					return
				}
			}
		}(i)
	}
	close(start)
	wg.Wait()
	for _, e := range errs {
		if e != nil {
			return e
		}
	}
	distinct := map[string]bool{}
	for _, w := range want {
		distinct[w] = true
	}
	c.Obs.Label(len(distinct) >= 2, "goroutines-expect-different-values")
	c.Obs.Add("goroutines", len(c.Binds))
	return nil
}

func genConc(t *rapid.T) ConcCase {
	base := genCase(false, 70)(t)
	c := ConcCase{Formula: base.Formula, Tree: base.Tree, NoOpt: base.NoOpt, Obs: pbt.NewObs()}
	w := rapid.IntRange(2, 8).Draw(t, "goroutines")
	for i := 0; i < w; i++ {
		bs := make([]Bind, len(base.Bind))
		for j, b := range base.Bind {
			bs[j] = b
			if i > 0 {
				// another line: the same variables with other values (1 in 6: not a number)
				switch rapid.IntRange(0, 5).Draw(t, "other") {
				case 0:
					bs[j].Val = "n/a"
				default:
					bs[j].Val = strconv.Itoa(rapid.IntRange(-50, 5000).Draw(t, "val"))
				}
			}
		}
		c.Binds = append(c.Binds, bs)
	}
	c.Rounds = rapid.SampledFrom([]int{50, 200, 1000}).Draw(t, "rounds")
	return c
}

func TestConcurrent(t *testing.T) {
	pbt.Run(t, pbt.Spec[ConcCase]{
		Property: prop, Name: "concurrent",
		Rule:   "a generated formula (as in `precedence`, variables likely) compiled once as {! ..}; 2-8 goroutines evaluate it 50-1000 times each on their own binding (same variables, other values, 1 in 6 not a number) starting together; every result must equal what the same binding gives evaluated alone. Non-trivial: >=1 variable and goroutines expecting different values",
		Budget: pbt.Budget{Quick: 4000, Thorough: 100000},
		Gen:    genConc, Check: checkConc,
		Classify: func(c ConcCase) (bool, []string) {
			return c.Obs.Has("goroutines-expect-different-values"), c.Obs.All()
		},
	})
}
