// C19, sub-property "order-consistency" (bounded-exhaustive).
//
// The statement fixes the relative order of some operator levels (^, * / %,
// + -, comparisons, && ||); where it is silent (shifts, bit operators) the
// other sub-properties keep parentheses. One thing follows from "evaluates to
// the value of its parse under order of operations" for EVERY pair of binary
// operators, whatever their levels are: the grouping of `a op1 b op2 c` is a
// function of the two operators alone and the relation it reveals is an
// ordering - the same for all operands, antisymmetric in (op1, op2), with
// "equal level" an equivalence (left to right), and not depending on which
// formulas were compiled before. No operator semantics of our own is needed:
// both candidate groupings are written with parentheses ("parentheses first")
// and evaluated by rare itself.
package c19

import (
	"fmt"
	"os"
	"sort"
	"testing"

	"rare/pkg/expressions/stdmath"
	"verifharness/pbt"
)

type OrderCase struct {
	Op1, Op2 string
}

var orderOps = []string{"^", "*", "/", "%", "+", "-", "<<", ">>", "&", "|", "==", "<=", ">=", "<", ">", "&&", "||"}

// operand triples: every triple over a few small values (signs, zero, a fraction) - for every operator pair
// some triple tells the two groupings apart
var orderTriples = func() [][3]float64 {
	vals := []float64{-2, -1, 0, 0.5, 1, 2, 3, 5}
	var out [][3]float64
	for _, a := range vals {
		for _, b := range vals {
			for _, c := range vals {
				out = append(out, [3]float64{a, b, c})
			}
		}
	}
	return out
}()

type orderCtx struct{ a, b, c float64 }

func (o *orderCtx) GetMatch(i int) float64 { return 0 }
func (o *orderCtx) GetKey(k string) float64 {
	switch k {
	case "a":
		return o.a
	case "b":
		return o.b
	case "c":
		return o.c
	}
	return 0
}

// grouping classifies `a op1 b op2 c`: 'L' = (a op1 b) op2 c, 'R' = a op1 (b op2 c), '?' = no triple tells them apart.
func grouping(op1, op2 string) (byte, error) {
	flat, err := stdmath.Compile("a " + op1 + " b " + op2 + " c")
	if err != nil {
		return 0, fmt.Errorf("a %s b %s c does not compile: %v", op1, op2, err)
	}
	left, err := stdmath.Compile("(a " + op1 + " b) " + op2 + " c")
	if err != nil {
		return 0, fmt.Errorf("(a %s b) %s c does not compile: %v", op1, op2, err)
	}
	right, err := stdmath.Compile("a " + op1 + " (b " + op2 + " c)")
	if err != nil {
		return 0, fmt.Errorf("a %s (b %s c) does not compile: %v", op1, op2, err)
	}
	var verdict byte = '?'
	for _, tr := range orderTriples {
		ctx := &orderCtx{tr[0], tr[1], tr[2]}
		f, l, r := flat.Eval(ctx), left.Eval(ctx), right.Eval(ctx)
		if identical(l, r) {
			continue // this triple does not discriminate
		}
		var v byte
		switch {
		case identical(f, l):
			v = 'L'
		case identical(f, r):
			v = 'R'
		default:
			return 0, fmt.Errorf("a %s b %s c with a=%v b=%v c=%v is %s: neither (a %s b) %s c = %s nor a %s (b %s c) = %s", op1, op2, tr[0], tr[1], tr[2], fstr(f), op1, op2, fstr(l), op1, op2, fstr(r))
		}
		if verdict != '?' && verdict != v {
			return 0, fmt.Errorf("a %s b %s c groups to the %c for some operands and to the %c for a=%v b=%v c=%v: the grouping depends on the operands", op1, op2, verdict, v, tr[0], tr[1], tr[2])
		}
		verdict = v
	}
	return verdict, nil
}

// documented levels (statement of C19): smaller binds tighter; operators the statement does not place are absent.
var documentedLevel = map[string]int{"^": 0, "*": 1, "/": 1, "%": 1, "+": 2, "-": 2, "==": 3, "<=": 3, ">=": 3, "<": 3, ">": 3, "&&": 4, "||": 4}

func checkOrder(c OrderCase) error {
	// the pair in both orders, twice (a remembered answer of the first order must not leak into the second)
	g12, err := grouping(c.Op1, c.Op2)
	if err != nil {
		return err
	}
	g21, err := grouping(c.Op2, c.Op1)
	if err != nil {
		return err
	}
	again, err := grouping(c.Op1, c.Op2)
	if err != nil {
		return err
	}
	if again != g12 {
		return fmt.Errorf("a %s b %s c grouped to the %c, and to the %c after a %s b %s c was compiled", c.Op1, c.Op2, g12, again, c.Op2, c.Op1)
	}
	if g12 == '?' || g21 == '?' {
		// both groupings have one value for every triple (a + b - c): nothing to decide in this order
		return nil
	}
	if c.Op1 == c.Op2 {
		if g12 != 'L' && c.Op1 != "^" { // equal levels go left to right (a ^ b ^ c: see assumptions)
			return fmt.Errorf("a %s b %s c groups to the right: equal levels go left to right", c.Op1, c.Op1)
		}
		return nil
	}
	if g12 == 'R' && g21 == 'R' {
		return fmt.Errorf("a %s b %s c and a %s b %s c both group to the right: each operator would bind looser than the other", c.Op1, c.Op2, c.Op2, c.Op1)
	}
	// where the statement places both operators, the grouping is the documented one
	l1, ok1 := documentedLevel[c.Op1]
	l2, ok2 := documentedLevel[c.Op2]
	if ok1 && ok2 {
		want := byte('L')
		if l2 < l1 {
			want = 'R'
		}
		if g12 != want {
			return fmt.Errorf("a %s b %s c groups to the %c; the documented order of operations puts it to the %c", c.Op1, c.Op2, g12, want)
		}
	}
	return nil
}

// relation derived from the two groupings: -1 op1 binds tighter, 0 same level, +1 op1 binds looser
func relation(op1, op2 string) (int, error) {
	g12, err := grouping(op1, op2)
	if err != nil {
		return 0, err
	}
	g21, err := grouping(op2, op1)
	if err != nil {
		return 0, err
	}
	if g12 == '?' { // undecidable order (a + b - c): left to right is as good as any
		g12 = 'L'
	}
	if g21 == '?' {
		g21 = 'L'
	}
	switch {
	case g12 == 'L' && g21 == 'L':
		return 0, nil
	case g12 == 'L':
		return -1, nil
	case g21 == 'L':
		return 1, nil
	}
	return 0, fmt.Errorf("%s and %s: both orders group to the right", op1, op2)
}

// TestOrderConsistency: every ordered pair of binary operators (exhaustive), then the derived relation as a whole:
// "same level" must be an equivalence that the relation respects, and "binds tighter" must be transitive.
func TestOrderConsistency(t *testing.T) {
	sp := pbt.Spec[OrderCase]{
		Property: prop, Name: "order-consistency",
		Rule:   "every ordered pair (op1, op2) of the 17 binary operators: `a op1 b op2 c` is evaluated on all 512 operand triples over {-2,-1,0,0.5,1,2,3,5} next to `(a op1 b) op2 c` and `a op1 (b op2 c)` (parentheses first; all three by rare). Oracle: the flat formula equals one of the two groupings, the same one for every triple that tells them apart, also when asked again after the mirrored pair was compiled; the two orders never both group to the right; pairs the statement places (^, * / %, + -, comparisons, && ||) group as documented; finally the derived relation over all operators is checked as an ordering (same-level is an equivalence respected by the relation, tighter-than is transitive). Exhaustive over pairs; every case non-trivial",
		Budget: pbt.Budget{Quick: 1, Thorough: 1},
		Check:  checkOrder,
		Classify: func(c OrderCase) (bool, []string) {
			_, d1 := documentedLevel[c.Op1]
			_, d2 := documentedLevel[c.Op2]
			var l pbt.Labels
			l.Add(d1 && d2, "both-operators-placed-by-the-statement")
			l.Add(!(d1 && d2), "an-operator-the-statement-does-not-place")
			l.Add(c.Op1 == c.Op2, "same-operator")
			return true, l
		},
	}
	pbt.Enum(t, sp, func(yield func(OrderCase) bool) {
		for _, a := range orderOps {
			for _, b := range orderOps {
				if !yield(OrderCase{a, b}) {
					return
				}
			}
		}
	})
	if os.Getenv("VERIF_SHARD") != "" && os.Getenv("VERIF_SHARD") != "0" {
		return
	}
	// the relation as a whole (cheap: 17^3 table look-ups after 17^2 classifications)
	rel := map[[2]string]int{}
	for _, a := range orderOps {
		for _, b := range orderOps {
			if a == b {
				rel[[2]string{a, b}] = 0
				continue
			}
			r, err := relation(a, b)
			if err != nil {
				t.Fatalf("order-consistency: %v", err)
			}
			rel[[2]string{a, b}] = r
		}
	}
	ops := append([]string(nil), orderOps...)
	sort.Strings(ops)
	for _, a := range ops {
		for _, b := range ops {
			if rel[[2]string{a, b}] != -rel[[2]string{b, a}] {
				t.Fatalf("order-consistency: %s vs %s is %d one way and %d the other", a, b, rel[[2]string{a, b}], rel[[2]string{b, a}])
			}
			for _, c := range ops {
				ab, bc, ac := rel[[2]string{a, b}], rel[[2]string{b, c}], rel[[2]string{a, c}]
				if ab == 0 && bc != ac {
					t.Fatalf("order-consistency: %s and %s are on one level, but against %s one is %d and the other %d", a, b, c, ac, bc)
				}
				if ab < 0 && bc < 0 && ac >= 0 {
					t.Fatalf("order-consistency: %s binds tighter than %s, %s tighter than %s, but %s is not tighter than %s", a, b, b, c, a, c)
				}
			}
		}
	}
}
