// C19 — math formulas `{! ..}` follow the documented precedence; constants are
// interchangeable with variables bound to the same value; malformed formulas
// are rejected at compile time; nothing crashes.
//
// Sub-properties
//
//	precedence  random trees printed with the documented minimum of parentheses,
//	            value of stdmath.Compile(text).Eval and of {! text} vs. the
//	            reference evaluator on the TREE
//	nocrash     the same oracle on trees whose integer operators get arbitrary
//	            operands and extreme bindings (value mostly unspecified: the
//	            assertion that remains is "compiles, does not crash, both paths agree")
//	constvar    F vs. F' where constants were replaced by fresh variables bound
//	            to the same value and variables by their value: identical result
//	malformed   structural mutations of well-formed texts that the reference
//	            classifier calls malformed: rejected by Compile and by {! ..}
//	sweep-arith / sweep-ops  bounded-exhaustive: every token sequence up to
//	            length L over two small alphabets, classified by the reference
//	            parser into well-formed (value asserted) / malformed (must be
//	            rejected) / unspecified (must not crash)
//	FuzzFormula native fuzzing with the same three-way oracle on raw text
package c19

import (
	"fmt"
	"math"
	"os"
	"sort"
	"strconv"
	"strings"
	"testing"

	"pgregory.net/rapid"
	"rare/pkg/expressions"
	"rare/pkg/expressions/stdlib"
	"rare/pkg/expressions/stdmath"
	"verifharness/pbt"
)

const prop = "C19"

// strict (development aid): a disagreement between the printer and the
// reference parser of the harness is reported instead of skipped.
var strict = os.Getenv("C19_STRICT") != ""

// ---------------------------------------------------------------------------
// running the code under test
// ---------------------------------------------------------------------------

type lookup func(name string) (string, bool)

type directCtx struct {
	look lookup
	miss string
}

func (c *directCtx) get(name string) float64 {
	s, ok := c.look(name)
	if !ok {
		c.miss = name
		return 0
	}
	v, err := strconv.ParseFloat(s, 64)
	if err != nil {
		panic("c19 harness: binding is not a float: " + s)
	}
	return v
}
func (c *directCtx) GetMatch(i int) float64  { return c.get(strconv.Itoa(i)) }
func (c *directCtx) GetKey(k string) float64 { return c.get(k) }

type tmplCtx struct{ look lookup }

func (c *tmplCtx) GetMatch(i int) string { s, _ := c.look(strconv.Itoa(i)); return s }
func (c *tmplCtx) GetKey(k string) string { s, _ := c.look(k); return s }

var (
	kbOpt   = stdlib.NewStdKeyBuilderEx(true)
	kbNoOpt = stdlib.NewStdKeyBuilderEx(false)
)

func builder(noopt bool) *expressions.KeyBuilder {
	if noopt {
		return kbNoOpt
	}
	return kbOpt
}

type implResult struct {
	val    float64 // stdmath.Compile(text).Eval(ctx)
	out    string  // {! text} through BuildKey
	outVal float64
}

// rejected reports a compile-time rejection of a formula.
type rejected struct {
	where string
	err   string
}

func (r rejected) Error() string { return r.where + " rejected the formula: " + r.err }

// runImpl compiles and evaluates text both ways. A panic propagates to the
// driver's recover (and is a violation there).
func runImpl(text string, look lookup, noopt bool) (implResult, error) {
	var r implResult
	expr, err := stdmath.Compile(text)
	if err != nil {
		return r, rejected{"stdmath.Compile", err.Error()}
	}
	if expr == nil {
		return r, fmt.Errorf("stdmath.Compile(%q) returned neither an expression nor an error", text)
	}
	dc := &directCtx{look: look}
	r.val = expr.Eval(dc)
	if again := expr.Eval(dc); !identical(again, r.val) {
		return r, fmt.Errorf("%q: two evaluations of one compiled formula on one binding differ: %s then %s", text, fstr(r.val), fstr(again))
	}
	if dc.miss != "" {
		return r, fmt.Errorf("c19 harness: formula %q reads %q which the case does not bind", text, dc.miss)
	}
	kb, cerr := builder(noopt).Compile("{! " + text + "}")
	if cerr != nil {
		return r, rejected{"template {! ..}", cerr.Error()}
	}
	r.out = kb.BuildKey(&tmplCtx{look})
	v, perr := strconv.ParseFloat(r.out, 64)
	if perr != nil {
		return r, fmt.Errorf("{! %s} gives %q, which is not a number (Eval gives %s)", text, r.out, fstr(r.val))
	}
	r.outVal = v
	// "The result will use the minimum number of decimals to represent the
	// value": the text must denote the value Eval computed.
	if !same(v, r.val) {
		return r, fmt.Errorf("{! %s} prints %q but the compiled formula evaluates to %s", text, r.out, fstr(r.val))
	}
	return r, nil
}

// mustReject: a malformed text has to be refused by both entry points.
func mustReject(text, why string) error {
	expr, err := stdmath.Compile(text)
	if err == nil {
		got := "nil expression"
		if expr != nil {
			got = "it evaluates to " + fstr(expr.Eval(&directCtx{look: func(string) (string, bool) { return "1", true }}))
		}
		return fmt.Errorf("malformed formula %q (%s) was accepted by stdmath.Compile: %s", text, why, got)
	}
	if strings.TrimSpace(text) != "" {
		if _, cerr := kbOpt.Compile("{! " + text + "}"); cerr == nil {
			return fmt.Errorf("malformed formula %q (%s): template {! %s} compiled without error", text, why, text)
		}
	}
	return nil
}

func lookupOf(b []Bind) lookup {
	m := make(map[string]string, len(b))
	for _, x := range b {
		m[x.Name] = x.Val
	}
	return func(n string) (string, bool) { s, ok := m[n]; return s, ok }
}

func floatBind(look lookup) func(string) (float64, bool) {
	return func(n string) (float64, bool) {
		s, ok := look(n)
		if !ok {
			return 0, false
		}
		v, err := strconv.ParseFloat(s, 64)
		if err != nil {
			panic("c19 harness: binding is not a float: " + s)
		}
		return v, true
	}
}

func undefLabel(u string) string {
	if i := strings.Index(u, " ("); i > 0 {
		u = u[:i]
	}
	if strings.HasPrefix(u, "integer operator") {
		u = "integer operator on non-integer / |v|>2^53"
	}
	if strings.HasPrefix(u, "unbound") {
		u = "unbound variable"
	}
	return "unspecified-value: " + u
}

// checkTree is the value oracle for a generated tree.
func checkTree(tree *Node, binds []Bind, noopt bool, o *pbt.Obs) error {
	var p printer
	text := p.pr(tree)
	cls, back, why := classify(text)
	if cls != clWF || !sameShape(tree, back) {
		// the two independent halves of the harness disagree about this text:
		// assert nothing about it.
		if strict {
			return fmt.Errorf("c19 harness (strict): printed %q classified %v (%s); tree %s", text, cls, why, printTree(back))
		}
		pbt.Exclude("harness: printer and reference parser disagree")
		o.Label(true, "harness-skip")
		return nil
	}
	look := lookupOf(binds)
	r, err := runImpl(text, look, noopt)
	if err != nil {
		if _, rej := err.(rejected); rej {
			return fmt.Errorf("well-formed formula %q: %v", text, err)
		}
		return err
	}
	want, undef := eval(tree, floatBind(look))
	if undef == "" && !same(r.val, want) {
		return fmt.Errorf("formula %q with %v: Eval gives %s, the documented order of operations gives %s", text, binds, fstr(r.val), fstr(want))
	}
	st := treeStats(tree)
	o.Add("binops", st.binops)
	o.Add("levels", st.documentedLevels())
	o.Add("omitted", p.omitted)
	o.Add("vars", st.vars)
	o.Label(undef == "", "value-compared")
	o.Label(undef != "", undefLabel(undef))
	for _, l := range []int{lvBool, lvCmp, lvAdd, lvMul, lvPow, lvShift, lvAnd, lvOr} {
		o.Label(st.levels[l], "level-"+levelName[l])
	}
	o.Label(p.omitted > 0, "parenthesis-omitted")
	o.Label(p.omitted >= 3, "parenthesis-omitted>=3")
	o.Label(st.imuls > 0, "implied-multiplication")
	o.Label(st.fns > 0, "named-unary")
	o.Label(st.ops["neg"], "unary-minus")
	o.Label(st.ops["not"], "unary-not")
	o.Label(st.ops["%"], "op-%")
	o.Label(st.hexbin, "hex/bin-literal")
	o.Label(st.constFold > 0, "constant-subtree")
	o.Label(math.IsNaN(r.val), "result-NaN")
	o.Label(math.IsInf(r.val, 0), "result-Inf")
	o.Label(noopt, "builder-without-optimiser")
	return nil
}

// ---------------------------------------------------------------------------
// generator
// ---------------------------------------------------------------------------

type Bind struct{ Name, Val string }

type Case struct {
	Formula string // as printed, for the reader; the oracle prints Tree again
	Tree    *Node
	Bind    []Bind
	NoOpt   bool
	Obs     *pbt.Obs `json:"-"`
}

type kind int

const (
	kAny kind = iota
	kInt
	kNN
	kPos
	kSmall
)

var (
	anyVals     = []string{"0", "1", "-1", "2", "3", "-2", "0.5", "-0.5", "1.5", "2.5", "-2.5", "10", "100", "7", "64", "0.1", "1e15", "2147483648", "9007199254740992", "1e-9", "12.75", "-7.25"}
	extremeVals = []string{"NaN", "+Inf", "-Inf", "-0", "1e300", "-1e300", "9223372036854775808", "-9223372036854775808", "1.7976931348623157e308", "5e-324", "9007199254740993", "0", "-1", "0.5", "-0.5", "63", "64", "65", "-63", "-64", "1e19"}
	intVals     = []string{"0", "1", "-1", "2", "3", "-2", "-3", "5", "7", "8", "10", "12", "63", "64", "100", "255", "1024", "-7", "4294967296"}
	nnVals      = []string{"0", "1", "2", "3", "5", "7", "8", "10", "12", "63", "64", "100", "255", "1024", "4294967296"}
	posVals     = []string{"1", "2", "3", "5", "7", "8", "10", "12", "63", "64", "100", "255", "1024", "4294967296"}
	smallVals   = []string{"0", "1", "2", "3", "4", "5", "8"}

	anyLits   = []string{"0", "1", "2", "3", "4", "5", "7", "10", "12", "100", "1000", "0.5", "2.5", "3.25", "123.456", "0.1", "0.001", "1.5", "4294967296", "9007199254740993", "9223372036854775807", "9223372036854775808", "18446744073709551616", "1000000000000000000000", "0x1BC", "0xFF", "0x10", "0x0", "0xDEADBEEF", "0x1E", "0xFE", "0xE", "0x2E", "0b1101", "0b0", "0b1", "0b100"}
	intLits   = []string{"0", "1", "2", "3", "4", "5", "7", "8", "10", "12", "16", "100", "255", "1000", "0x1BC", "0xFF", "0x10", "0x1E", "0xFE", "0b1101", "0b100", "0b1", "4294967296"}
	posLits   = []string{"1", "2", "3", "4", "5", "7", "8", "10", "12", "16", "100", "255", "1000", "0x1BC", "0xFF", "0x10", "0b1101", "0b100", "0b1", "4294967296"}
	smallLits = []string{"0", "1", "2", "3", "4", "5", "8", "0b11", "0x2"}

	varNames = []string{"x", "y", "z", "a", "b", "n", "val", "x1", "k2", "Count", "idx", "0", "1", "2", "3"}
)

func kindOK(k kind, v float64) bool {
	switch k {
	case kInt:
		return isInt53(v)
	case kNN:
		return isInt53(v) && v >= 0
	case kPos:
		return isInt53(v) && v > 0
	case kSmall:
		return isInt53(v) && v >= 0 && v <= 8
	}
	return true
}

type gen struct {
	t      *rapid.T
	wild   bool
	pVar   int // percentage of leaves that are variables
	bind   []Bind
	vals   map[string]float64
	maxVar int
}

func (g *gen) n(lo, hi int, label string) int { return rapid.IntRange(lo, hi).Draw(g.t, label) }
func (g *gen) pick(l []string, label string) string {
	return l[rapid.IntRange(0, len(l)-1).Draw(g.t, label)]
}

func (g *gen) value(k kind) string {
	if g.wild && g.n(0, 99, "extreme?") < 50 {
		return g.pick(extremeVals, "extreme")
	}
	switch k {
	case kInt:
		if g.n(0, 9, "rndint?") == 0 {
			return strconv.Itoa(g.n(-50, 50, "rndint"))
		}
		return g.pick(intVals, "intval")
	case kNN:
		return g.pick(nnVals, "nnval")
	case kPos:
		return g.pick(posVals, "posval")
	case kSmall:
		return g.pick(smallVals, "smallval")
	}
	switch r := g.n(0, 99, "anyclass"); {
	case r < 8:
		return g.pick(extremeVals, "extreme")
	case r < 20:
		return strconv.Itoa(g.n(-50, 50, "rndint"))
	case r < 30:
		return fstr(float64(g.n(-400, 400, "eighths")) / 8)
	}
	return g.pick(anyVals, "anyval")
}

func (g *gen) literal(k kind) *Node {
	var txt string
	switch k {
	case kInt, kNN:
		if g.n(0, 5, "rndlit?") == 0 {
			txt = strconv.Itoa(g.n(0, 9999, "rndlit"))
		} else {
			txt = g.pick(intLits, "intlit")
		}
	case kPos:
		txt = g.pick(posLits, "poslit")
	case kSmall:
		txt = g.pick(smallLits, "smalllit")
	default:
		switch r := g.n(0, 9, "litclass"); {
		case r == 0:
			txt = strconv.Itoa(g.n(0, 9999, "rndlit"))
		case r == 1:
			txt = strconv.FormatFloat(float64(g.n(0, 800, "eighths"))/8, 'f', -1, 64)
		default:
			txt = g.pick(anyLits, "anylit")
		}
	}
	return &Node{K: "lit", Txt: txt}
}

func (g *gen) varNode(name string) *Node {
	sp := "box"
	if !isDigits(name) && g.n(0, 1, "spelling") == 0 {
		sp = "bare"
	}
	return &Node{K: "var", Txt: name, Sp: sp}
}

func (g *gen) leaf(k kind) *Node {
	if g.wild {
		k = kAny
	}
	if g.n(0, 99, "var?") >= g.pVar {
		return g.literal(k)
	}
	var cand []string
	for _, b := range g.bind {
		if kindOK(k, g.vals[b.Name]) {
			cand = append(cand, b.Name)
		}
	}
	if len(cand) > 0 && (len(g.bind) >= g.maxVar || g.n(0, 1, "reuse?") == 0) {
		return g.varNode(g.pick(cand, "reuse"))
	}
	if len(g.bind) >= g.maxVar {
		return g.literal(k)
	}
	var free []string
	for _, nm := range varNames {
		if _, used := g.vals[nm]; !used {
			free = append(free, nm)
		}
	}
	name := g.pick(free, "newvar")
	val := g.value(k)
	f, err := strconv.ParseFloat(val, 64)
	if err != nil {
		panic("c19 harness: pool value " + val)
	}
	g.vals[name] = f
	g.bind = append(g.bind, Bind{name, val})
	return g.varNode(name)
}

func (g *gen) bin(op string, a, b *Node) *Node {
	return &Node{K: "bin", Op: op, A: a, B: b, Gl: g.n(0, 99, "glued?") < 35}
}

var (
	arithOps = []string{"+", "-", "*", "/"}
	cmpOps   = []string{"==", "<=", ">=", "<", ">"}
	boolOps  = []string{"&&", "||"}
	shiftOps = []string{"<<", ">>"}
	bitOps   = []string{"&", "|"}
	intArith = []string{"+", "-", "*"}
)

func (g *gen) node(depth int, k kind, force bool) *Node {
	if g.wild {
		k = kAny
	}
	if !force && (depth <= 0 || g.n(0, 99, "leaf?") < 22) {
		return g.leaf(k)
	}
	d := depth - 1
	var n *Node
	r := g.n(0, 99, "opclass")
	switch k {
	case kAny:
		if g.wild {
			// shift the weight to the integer operators
			switch {
			case r < 25:
				r = 48 // %
			case r < 45:
				r = 75 // shift
			case r < 55:
				r = 80 // bit
			default:
				r = g.n(0, 99, "opclass2")
			}
		}
		switch {
		case r < 40:
			n = g.bin(g.pick(arithOps, "arith"), g.node(d, kAny, false), g.node(d, kAny, false))
		case r < 48:
			ek := kSmall
			if g.n(0, 9, "anyexp?") < 3 {
				ek = kAny
			}
			n = g.bin("^", g.node(d, kAny, false), g.node(d, ek, false))
		case r < 55:
			if g.wild || g.n(0, 9, "freemod?") == 0 {
				n = g.bin("%", g.node(d, kAny, false), g.node(d, kAny, false))
			} else {
				n = g.bin("%", g.node(d, kNN, false), g.node(d, kPos, false))
			}
		case r < 67:
			n = g.bin(g.pick(cmpOps, "cmp"), g.node(d, kAny, false), g.node(d, kAny, false))
		case r < 75:
			n = g.bin(g.pick(boolOps, "bool"), g.node(d, kAny, false), g.node(d, kAny, false))
		case r < 80:
			if g.wild || g.n(0, 9, "freeshift?") == 0 {
				n = g.bin(g.pick(shiftOps, "shift"), g.node(d, kAny, false), g.node(d, kInt, false))
			} else {
				n = g.bin(g.pick(shiftOps, "shift"), g.node(d, kInt, false), g.node(d, kSmall, false))
			}
		case r < 86:
			n = g.bin(g.pick(bitOps, "bit"), g.node(d, kInt, false), g.node(d, kInt, false))
		case r < 91:
			n = &Node{K: "neg", A: g.node(d, kAny, false)}
		case r < 94:
			n = &Node{K: "not", A: g.node(d, kAny, false)}
		case r < 98:
			n = &Node{K: "fn", Op: g.pick(funcNames, "fn"), A: g.node(d, kAny, false)}
			if g.n(0, 5, "fnblank") == 0 {
				n.Sp = "blank" // "abs (x)": a blank between the name and its group
			}
		default:
			n = &Node{K: "imul", A: g.literal(kAny), B: g.node(d, kAny, false)}
			if g.n(0, 2, "imulpow") == 0 {
				// X^n(..): the implied product follows a tighter operator -
				// (X^n)*(..) under either reading of juxtaposition
				n.A = g.bin("^", g.node(d, kAny, false), g.literal(kSmall))
				n.A.Gl = true
			}
		}
	case kInt:
		switch {
		case r < 35:
			n = g.bin(g.pick(intArith, "intarith"), g.node(d, kInt, false), g.node(d, kInt, false))
		case r < 43:
			n = g.bin("%", g.node(d, kNN, false), g.node(d, kPos, false))
		case r < 53:
			n = g.bin(g.pick(cmpOps, "cmp"), g.node(d, kAny, false), g.node(d, kAny, false))
		case r < 59:
			n = g.bin(g.pick(boolOps, "bool"), g.node(d, kAny, false), g.node(d, kAny, false))
		case r < 67:
			n = g.bin(g.pick(shiftOps, "shift"), g.node(d, kInt, false), g.node(d, kSmall, false))
		case r < 77:
			n = g.bin(g.pick(bitOps, "bit"), g.node(d, kInt, false), g.node(d, kInt, false))
		case r < 83:
			n = &Node{K: "neg", A: g.node(d, kInt, false)}
		case r < 86:
			n = &Node{K: "not", A: g.node(d, kAny, false)}
		case r < 91:
			n = &Node{K: "fn", Op: g.pick([]string{"floor", "ceil"}, "intfn"), A: g.node(d, kAny, false)}
		case r < 94:
			n = &Node{K: "fn", Op: g.pick([]string{"abs", "round"}, "intfn2"), A: g.node(d, kInt, false)}
		case r < 97:
			n = &Node{K: "imul", A: g.literal(kInt), B: g.node(d, kInt, false)}
		default:
			n = g.bin("^", g.node(d, kInt, false), g.node(d, kSmall, false))
		}
	case kNN:
		switch {
		case r < 40:
			n = g.bin(g.pick([]string{"+", "*"}, "nnarith"), g.node(d, kNN, false), g.node(d, kNN, false))
		case r < 50:
			n = g.bin("%", g.node(d, kNN, false), g.node(d, kPos, false))
		case r < 62:
			n = g.bin(g.pick(cmpOps, "cmp"), g.node(d, kAny, false), g.node(d, kAny, false))
		case r < 68:
			n = g.bin(g.pick(boolOps, "bool"), g.node(d, kAny, false), g.node(d, kAny, false))
		case r < 76:
			n = g.bin(g.pick(shiftOps, "shift"), g.node(d, kNN, false), g.node(d, kSmall, false))
		case r < 88:
			n = g.bin(g.pick(bitOps, "bit"), g.node(d, kNN, false), g.node(d, kNN, false))
		case r < 94:
			n = &Node{K: "fn", Op: "abs", A: g.node(d, kInt, false)}
		case r < 97:
			n = &Node{K: "not", A: g.node(d, kAny, false)}
		default:
			n = &Node{K: "imul", A: g.literal(kNN), B: g.node(d, kNN, false)}
		}
	case kPos:
		switch {
		case r < 40:
			n = g.bin("+", g.node(d, kPos, false), g.node(d, kNN, false))
		case r < 70:
			n = g.bin("*", g.node(d, kPos, false), g.node(d, kPos, false))
		case r < 85:
			n = g.bin("|", g.node(d, kPos, false), g.node(d, kNN, false))
		case r < 90:
			n = &Node{K: "imul", A: g.literal(kPos), B: g.node(d, kPos, false)}
		default:
			return g.leaf(kPos)
		}
	case kSmall:
		switch {
		case r < 60:
			return g.leaf(kSmall)
		case r < 80:
			n = g.bin(g.pick(cmpOps, "cmp"), g.node(d, kAny, false), g.node(d, kAny, false))
		case r < 90:
			n = g.bin("+", g.leaf(kSmall), g.bin(g.pick(cmpOps, "cmp"), g.node(d, kAny, false), g.node(d, kAny, false)))
		default:
			n = g.bin(g.pick(boolOps, "bool"), g.node(d, kAny, false), g.node(d, kAny, false))
		}
	}
	if g.n(0, 99, "par?") < 8 {
		n.Par = true
	}
	return n
}

func newGen(t *rapid.T, wild bool, pVar int) *gen {
	return &gen{t: t, wild: wild, pVar: pVar, vals: map[string]float64{}, maxVar: 6}
}

func maxDepth() int {
	if pbt.Thorough() {
		return 5
	}
	return 4
}

func genCase(wild bool, pVar int) func(t *rapid.T) Case {
	return func(t *rapid.T) Case {
		g := newGen(t, wild, pVar)
		depth := g.n(2, maxDepth(), "depth")
		tree := g.node(depth, kAny, true)
		tree.Par = tree.Par && g.n(0, 3, "rootpar") == 0
		return Case{Formula: printTree(tree), Tree: tree, Bind: g.bind, NoOpt: g.n(0, 4, "noopt") == 0, Obs: pbt.NewObs()}
	}
}

// ---------------------------------------------------------------------------
// precedence / nocrash
// ---------------------------------------------------------------------------

func checkCase(c Case) error { return checkTree(c.Tree, c.Bind, c.NoOpt, c.Obs) }

var precSpec = pbt.Spec[Case]{
	Property: prop, Name: "precedence",
	Rule: "random formula trees (depth<=4, thorough 5) over + - * / ^ % << >> & | == <= >= < > && ||, unary - and !, the 16 named unary operators, implied multiplication n(..), literals in the three documented formats, variables as bare name / [name] / [n] bound to floats from a boundary pool; printed with parentheses omitted exactly where the documented order (^ > * / % > + - > comparisons > && ||, left to right) makes them redundant and kept where the documentation is silent; the text must be read back as the same tree by the independent reference parser; oracle = reference evaluator on the tree (IEEE double + Go math) vs stdmath.Compile(text).Eval and vs {! text} BuildKey (output must parse to the same value). Non-trivial: >=3 binary operators from >=2 documented levels, >=1 parenthesis pair omitted around a binary operand, >=1 variable, value defined by the documentation; distinct by case JSON",
	Budget: pbt.Budget{Quick: 320000, Thorough: 6000000},
	Gen:    genCase(false, 55), Check: checkCase,
	Classify: func(c Case) (bool, []string) {
		o := c.Obs
		return o.Get("binops") >= 3 && o.Get("levels") >= 2 && o.Get("omitted") >= 1 && o.Get("vars") >= 1 && o.Has("value-compared"), o.All()
	},
}

func TestPrecedence(t *testing.T) { pbt.Run(t, precSpec) }

var crashSpec = pbt.Spec[Case]{
	Property: prop, Name: "nocrash",
	Rule: "the same trees with every operand position unconstrained (integer operators on fractions, zero / negative / huge / NaN right operands of % << >>) and bindings drawn half from {NaN, +-Inf, -0, +-1e300, +-2^63, MaxFloat64, 5e-324, 2^53+1, +-63, +-64, 65, 1e19}; oracle: the well-formed text compiles through both entry points, evaluation returns (no panic, no hang), {! ..} prints the value Eval computed, and where the documentation determines the value it is the reference value. Non-trivial: an integer operator met an operand outside its documented domain, or NaN/Inf reached the result",
	Budget: pbt.Budget{Quick: 120000, Thorough: 2500000},
	Gen:    genCase(true, 60), Check: checkCase,
	Classify: func(c Case) (bool, []string) {
		o := c.Obs
		nt := o.Has("result-NaN") || o.Has("result-Inf")
		for _, l := range o.All() {
			if strings.HasPrefix(l, "unspecified-value: ") && !strings.Contains(l, "round") {
				nt = true
			}
		}
		return nt, o.All()
	},
}

func TestNoCrash(t *testing.T) { pbt.Run(t, crashSpec) }

// ---------------------------------------------------------------------------
// constants == bound variables
// ---------------------------------------------------------------------------

type SwapCase struct {
	Formula string
	Tree    *Node
	Bind    []Bind
	Swap    []bool // per leaf in pre-order (literal -> fresh variable, variable -> its value)
	NoOpt   bool
	Obs     *pbt.Obs `json:"-"`
}

func litForValue(v float64) (*Node, bool) {
	if math.IsNaN(v) || math.IsInf(v, 0) {
		return nil, false
	}
	txt := strconv.FormatFloat(math.Abs(v), 'f', -1, 64)
	if !isNumber(txt) {
		return nil, false
	}
	n := &Node{K: "lit", Txt: txt}
	if math.Signbit(v) {
		return &Node{K: "neg", A: n, Par: true}, true
	}
	return n, true
}

// swapLeaves builds F' and its bindings.
func swapLeaves(tree *Node, binds []Bind, swap []bool) (*Node, []Bind, int, int) {
	vals := map[string]float64{}
	for _, b := range binds {
		f, _ := strconv.ParseFloat(b.Val, 64)
		vals[b.Name] = f
	}
	out := append([]Bind(nil), binds...)
	idx, toVar, toLit := 0, 0, 0
	var rec func(n *Node) *Node
	rec = func(n *Node) *Node {
		if n == nil {
			return nil
		}
		c := *n
		switch n.K {
		case "lit":
			i := idx
			idx++
			if i < len(swap) && swap[i] {
				name := "c" + strconv.Itoa(i)
				val := n.Txt
				if strings.HasPrefix(val, "0x") || strings.HasPrefix(val, "0b") {
					val = strconv.FormatFloat(litValue(val), 'f', -1, 64)
				}
				out = append(out, Bind{name, val})
				toVar++
				sp := "bare"
				if i%2 == 1 {
					sp = "box"
				}
				return &Node{K: "var", Txt: name, Sp: sp, Par: n.Par}
			}
			return &c
		case "var":
			i := idx
			idx++
			if i < len(swap) && swap[i] {
				if l, ok := litForValue(vals[n.Txt]); ok {
					toLit++
					l.Par = l.Par || n.Par
					return l
				}
			}
			return &c
		case "imul":
			// the literal of n(..) stays: x(..) is not documented
			if n.A.K == "bin" {
				a := *n.A
				a.A = rec(n.A.A)
				c.A = &a
			}
			c.B = rec(n.B)
			return &c
		}
		c.A = rec(n.A)
		c.B = rec(n.B)
		return &c
	}
	t2 := rec(tree)
	return t2, out, toVar, toLit
}

func checkSwap(c SwapCase) error {
	o := c.Obs
	t2, b2, toVar, toLit := swapLeaves(c.Tree, c.Bind, c.Swap)
	text1, text2 := printTree(c.Tree), printTree(t2)
	for _, x := range []struct {
		text string
		tree *Node
	}{{text1, c.Tree}, {text2, t2}} {
		cls, back, why := classify(x.text)
		if cls != clWF || !sameShape(x.tree, back) {
			if strict {
				return fmt.Errorf("c19 harness (strict): printed %q classified %v (%s)", x.text, cls, why)
			}
			pbt.Exclude("harness: printer and reference parser disagree")
			o.Label(true, "harness-skip")
			return nil
		}
	}
	r1, err := runImpl(text1, lookupOf(c.Bind), c.NoOpt)
	if err != nil {
		return fmt.Errorf("well-formed formula %q: %v", text1, err)
	}
	r2, err := runImpl(text2, lookupOf(b2), c.NoOpt)
	if err != nil {
		return fmt.Errorf("well-formed formula %q: %v", text2, err)
	}
	if !identical(r1.val, r2.val) {
		return fmt.Errorf("constants vs variables: %q with %v evaluates to %s, but %q with %v evaluates to %s", text1, c.Bind, fstr(r1.val), text2, b2, fstr(r2.val))
	}
	if r1.out != r2.out {
		return fmt.Errorf("constants vs variables: {! %s} with %v prints %q, but {! %s} with %v prints %q", text1, c.Bind, r1.out, text2, b2, r2.out)
	}
	s1, s2 := treeStats(c.Tree), treeStats(t2)
	o.Add("swapped", toVar+toLit)
	o.Add("fold", s1.constFold+s2.constFold)
	o.Add("vars", s1.vars+s2.vars)
	o.Label(toVar > 0, "constant->variable")
	o.Label(toLit > 0, "variable->constant")
	o.Label(s1.constFold > 0 && s2.constFold < s1.constFold, "folding-removed")
	o.Label(s2.constFold > s1.constFold, "folding-added")
	o.Label(s1.vars == 0 || s2.vars == 0, "one-side-fully-constant")
	o.Label(math.IsNaN(r1.val), "result-NaN")
	return nil
}

var swapSpec = pbt.Spec[SwapCase]{
	Property: prop, Name: "constvar",
	Rule: "trees as for precedence (fewer variables, so constant sub-trees exist) + a subset of leaves to swap: a literal becomes a fresh variable bound to the literal's value, a variable becomes its value as a literal ((-v) for negatives; NaN/Inf have no literal and stay); oracle: stdmath Eval results bit-identical (all NaNs alike) and {! ..} outputs equal as strings. Non-trivial: >=1 leaf swapped, some operator node without variable below it (so compile-time folding applies) on either side, >=1 variable on either side; distinct by case JSON",
	Budget: pbt.Budget{Quick: 160000, Thorough: 3000000},
	Gen: func(t *rapid.T) SwapCase {
		wild := rapid.IntRange(0, 9).Draw(t, "wild?") == 0
		c := genCase(wild, 35)(t)
		st := treeStats(c.Tree)
		sw := make([]bool, st.lits+st.vars)
		for i := range sw {
			sw[i] = rapid.IntRange(0, 9).Draw(t, "swap") < 4
		}
		return SwapCase{Formula: c.Formula, Tree: c.Tree, Bind: c.Bind, Swap: sw, NoOpt: c.NoOpt, Obs: c.Obs}
	},
	Check: checkSwap,
	Classify: func(c SwapCase) (bool, []string) {
		o := c.Obs
		return o.Get("swapped") >= 1 && o.Get("fold") >= 1 && o.Get("vars") >= 1, o.All()
	},
}

func TestConstVar(t *testing.T) { pbt.Run(t, swapSpec) }

// ---------------------------------------------------------------------------
// malformed formulas
// ---------------------------------------------------------------------------

type BadCase struct {
	Base     string
	Mutation string
	Text     string
	Obs      *pbt.Obs `json:"-"`
}

func checkBad(c BadCase) error {
	cls, _, why := classify(c.Text)
	if cls != clMalformed {
		pbt.Exclude("mutant is " + cls.String())
		c.Obs.Label(true, "mutant-"+cls.String())
		return nil
	}
	if pbt.IsKnown(prop, kfBlankGlue) && blankGlued(c.Text) {
		pbt.Exclude("known finding " + kfBlankGlue + ": malformed only because of a blank inside parentheses")
		c.Obs.Label(true, "known-blank-glue")
		return nil
	}
	c.Obs.Label(true, "malformed: "+strings.SplitN(why, ",", 2)[0])
	c.Obs.Label(true, "mutation: "+c.Mutation)
	c.Obs.Add("malformed", 1)
	return mustReject(c.Text, why)
}

// Known finding: the tokenizer drops blanks inside parentheses before the
// group is tokenized again, so two tokens separated only by a blank fuse:
// "(x& &x)" is read as "(x&&x)". The class: a malformed text that stops being
// malformed when the blanks inside its parentheses are removed.
const kfBlankGlue = "blank-glued-tokens-in-group"

func blankGlued(text string) bool {
	var sb strings.Builder
	depth := 0
	for i := 0; i < len(text); i++ {
		switch text[i] {
		case '(':
			depth++
		case ')':
			depth--
		case ' ':
			if depth > 0 {
				continue
			}
		}
		sb.WriteByte(text[i])
	}
	cls, _, _ := classify(sb.String())
	return cls != clMalformed
}

func witnessBlankGlue() error { return mustReject("(x& &x)", "operand expected, found operator &") }

func TestKnownFindings(t *testing.T) { pbt.ReportKnown(prop, kfBlankGlue, witnessBlankGlue) }

func genBad(t *rapid.T) BadCase {
	base := genCase(false, 55)(t)
	c := BadCase{Base: base.Formula, Obs: pbt.NewObs()}
	ts, ok := lex(base.Formula)
	if !ok || len(ts) == 0 {
		panic("c19 harness: printed formula does not lex: " + base.Formula)
	}
	idxOf := func(pred func(i int) bool) []int {
		var l []int
		for i := range ts {
			if pred(i) {
				l = append(l, i)
			}
		}
		return l
	}
	isOperand := func(i int) bool {
		return (ts[i].k == tNum && !(i+1 < len(ts) && ts[i+1].k == tLP && !ts[i+1].sp)) || ts[i].k == tVar || ts[i].k == tBox
	}
	del := func(i int) { ts = append(ts[:i:i], ts[i+1:]...) }
	ins := func(i int, x ...tok) { ts = append(ts[:i:i], append(x, ts[i:]...)...) }
	pickIdx := func(l []int, label string) int { return l[rapid.IntRange(0, len(l)-1).Draw(t, label)] }
	muts := []string{"drop-rparen", "drop-lparen", "add-rparen", "add-lparen", "drop-operand", "dup-operator", "truncate", "drop-prefix", "empty-group", "operand->unary", "witness"}
	c.Mutation = rapid.SampledFrom(muts).Draw(t, "mutation")
	switch c.Mutation {
	case "drop-rparen":
		if l := idxOf(func(i int) bool { return ts[i].k == tRP }); len(l) > 0 {
			del(pickIdx(l, "at"))
		} else {
			ts = append(ts, tok{tOp, "*", true})
		}
	case "drop-lparen":
		if l := idxOf(func(i int) bool { return ts[i].k == tLP && (i == 0 || (ts[i-1].k != tFunc && ts[i-1].k != tNum)) }); len(l) > 0 {
			del(pickIdx(l, "at"))
		} else {
			ins(0, tok{tOp, "/", false})
		}
	case "add-rparen":
		ins(rapid.IntRange(0, len(ts)).Draw(t, "at"), tok{tRP, ")", false})
	case "add-lparen":
		l := idxOf(func(i int) bool { return (i == 0 || ts[i-1].k == tOp || ts[i-1].k == tLP) && ts[i].k != tOp })
		if len(l) > 0 {
			i := pickIdx(l, "at")
			ins(i, tok{tLP, "(", ts[i].sp})
			ts[i+1].sp = false
		} else {
			ins(0, tok{tLP, "(", false})
		}
	case "drop-operand":
		if l := idxOf(isOperand); len(l) > 0 {
			del(pickIdx(l, "at"))
		}
	case "dup-operator":
		if l := idxOf(func(i int) bool {
			return ts[i].k == tOp && i > 0 && (ts[i-1].k != tOp && ts[i-1].k != tLP) && ts[i].s != "-" && ts[i].s != "+"
		}); len(l) > 0 {
			i := pickIdx(l, "at")
			op := rapid.SampledFrom([]string{"*", "/", "^", "%", "<", "&&", "||", "==", ">=", "&", "|", "<<"}).Draw(t, "second")
			ins(i+1, tok{tOp, op, true})
		} else {
			ts = append(ts, tok{tOp, "^", true})
		}
	case "truncate":
		if len(ts) > 1 {
			ts = ts[:rapid.IntRange(1, len(ts)-1).Draw(t, "keep")]
		} else {
			ts = nil
		}
	case "drop-prefix":
		if len(ts) > 1 {
			ts = ts[rapid.IntRange(1, len(ts)-1).Draw(t, "from"):]
		} else {
			ts = nil
		}
	case "empty-group":
		if l := idxOf(isOperand); len(l) > 0 {
			i := pickIdx(l, "at")
			sp := ts[i].sp
			del(i)
			ins(i, tok{tLP, "(", sp}, tok{tRP, ")", false})
		}
	case "operand->unary":
		if l := idxOf(isOperand); len(l) > 0 {
			i := pickIdx(l, "at")
			ts[i] = tok{tOp, rapid.SampledFrom([]string{"-", "!"}).Draw(t, "unary"), true}
		}
	case "witness":
		c.Text = rapid.SampledFrom([]string{"", " ", "-", "!", "2 * -", "2 * !", "x -", "(-)", "abs(-)", "abs()", "()", "(", ")", "2 + (3", "2 + 3)", "* 2", "2 *", "2 * / 3", "2(", "2()", "(2+3)*", "1 + (2 *) + 3", "x && ", "|| x", "2 ^ ^ 3", "-()", "x % ", "[0] <<"}).Draw(t, "witness")
		return c
	}
	c.Text = renderToks(ts)
	return c
}

var badSpec = pbt.Spec[BadCase]{
	Property: prop, Name: "malformed",
	Rule: "a generated well-formed formula, lexed, then one structural mutation (parenthesis dropped/added, operand dropped, second binary operator inserted, truncated at either end, operand replaced by an empty group or by a lone unary operator) or a fixed witness; the reference classifier must call the result malformed (unbalanced parenthesis, operator without operand, empty group/formula) — mutants that stay well-formed or fall into an undocumented class are counted and skipped; oracle: stdmath.Compile returns an error (no panic, no expression) and the template {! text} reports a compile error. Non-trivial: classified malformed; distinct by text",
	Budget: pbt.Budget{Quick: 100000, Thorough: 1500000},
	Gen:    genBad, Check: checkBad,
	Classify: func(c BadCase) (bool, []string) { return c.Obs.Get("malformed") > 0, c.Obs.All() },
}

func TestMalformed(t *testing.T) { pbt.Run(t, badSpec) }

// ---------------------------------------------------------------------------
// three-way oracle on a raw text (sweeps and native fuzzing)
// ---------------------------------------------------------------------------

func treeVars(n *Node, into map[string]bool) {
	if n == nil {
		return
	}
	if n.K == "var" {
		into[n.Txt] = true
	}
	treeVars(n.A, into)
	treeVars(n.B, into)
}

// checkText applies what statement + documentation say about text, for each
// binding function. Returns the class it was judged under.
func checkText(text string, looks []lookup, o *pbt.Obs) (class, error) {
	cls, tree, why := classify(text)
	switch cls {
	case clMalformed:
		if pbt.IsKnown(prop, kfBlankGlue) && blankGlued(text) {
			pbt.Exclude("known finding " + kfBlankGlue + ": malformed only because of a blank inside parentheses")
			for _, look := range looks {
				if err := noCrash(text, look, true); err != nil {
					return clUnspec, err
				}
			}
			return clUnspec, nil
		}
		return cls, mustReject(text, why)
	case clWF:
		vars := map[string]bool{}
		treeVars(tree, vars)
		compared := false
		for _, look := range looks {
			bound := true
			for v := range vars {
				if _, ok := look(v); !ok {
					bound = false
				}
			}
			if !bound {
				// variables the sweep does not bind: documented as <BAD-TYPE>
				// elsewhere, not part of this property: only "no crash"
				if err := noCrash(text, look, true); err != nil {
					return cls, err
				}
				continue
			}
			r, err := runImpl(text, look, false)
			if err != nil {
				if _, rej := err.(rejected); rej {
					return cls, fmt.Errorf("well-formed formula %q: %v", text, err)
				}
				return cls, err
			}
			want, undef := eval(tree, floatBind(look))
			if undef == "" {
				compared = true
				if !same(r.val, want) {
					return cls, fmt.Errorf("formula %q (binding %s): Eval gives %s, the documented order of operations gives %s", text, showLook(look, vars), fstr(r.val), fstr(want))
				}
			}
		}
		o.Label(compared, "value-compared")
		return cls, nil
	}
	_, lexable := lex(text)
	for _, look := range looks {
		if err := noCrash(text, look, lexable); err != nil {
			return cls, err
		}
	}
	return cls, nil
}

func showLook(look lookup, vars map[string]bool) string {
	var l []string
	for v := range vars {
		s, _ := look(v)
		l = append(l, v+"="+s)
	}
	sort.Strings(l)
	return strings.Join(l, ",")
}

// noCrash: whatever the text is, compiling and (if accepted) evaluating it
// returns. Panics propagate to the driver.
func noCrash(text string, look lookup, template bool) error {
	expr, err := stdmath.Compile(text)
	if err == nil && expr != nil {
		safe := func(n string) (string, bool) {
			if s, ok := look(n); ok {
				return s, true
			}
			return "0", true
		}
		expr.Eval(&directCtx{look: safe})
	}
	if err == nil && expr == nil {
		return fmt.Errorf("stdmath.Compile(%q) returned neither an expression nor an error", text)
	}
	if template && strings.TrimSpace(text) != "" {
		kb, _ := kbOpt.Compile("{! " + text + "}")
		if kb != nil {
			kb.BuildKey(&tmplCtx{look})
		}
	}
	return nil
}

// ---------------------------------------------------------------------------
// bounded-exhaustive sweeps over token sequences
// ---------------------------------------------------------------------------

type SweepCase struct {
	Text string
	Obs  *pbt.Obs `json:"-"`
}

var sweepLooks = func() []lookup {
	var l []lookup
	for _, b := range [][2]string{{"3", "5"}, {"0", "1"}, {"-2", "0.5"}, {"0.5", "-3"}} {
		l = append(l, lookupOf([]Bind{{"x", b[0]}, {"y", b[1]}}))
	}
	return l
}()

func checkSweep(c SweepCase) error {
	cls, err := checkText(c.Text, sweepLooks, c.Obs)
	c.Obs.Label(true, cls.String())
	return err
}

func isOpTok(s string) bool {
	switch s {
	case "+", "-", "*", "/", "^", "%", "<", "==", "&&", "||", "!", "<<", "&", "|", "<=":
		return true
	}
	return false
}

// joinTokens glues the tokens; the only blank is the one the documentation's
// own examples use: before a unary - or ! that follows a binary operator.
func joinTokens(seq []string) string {
	var sb strings.Builder
	for i, s := range seq {
		if i > 0 && (s == "-" || s == "!") && isOpTok(seq[i-1]) {
			sb.WriteByte(' ')
		}
		sb.WriteString(s)
	}
	return sb.String()
}

func sweep(t *testing.T, name string, alphabet []string, L int) {
	sp := pbt.Spec[SweepCase]{
		Property: prop, Name: name,
		Rule: fmt.Sprintf("bounded-exhaustive: every sequence of 0..%d tokens over %v, glued (a blank only before a unary -/! that follows an operator); x,y bound to (3,5),(0,1),(-2,0.5),(0.5,-3); the reference parser classifies each text as well-formed (value asserted against the reference evaluator for the four bindings, both entry points), malformed (must be rejected by Compile and by {! ..}) or unspecified (must compile-or-reject and evaluate without crashing). Non-trivial: malformed, or well-formed with a value the documentation determines", L, alphabet),
		Check: checkSweep,
		Classify: func(c SweepCase) (bool, []string) {
			return c.Obs.Has("malformed") || c.Obs.Has("value-compared"), c.Obs.All()
		},
	}
	pbt.Enum(t, sp, func(yield func(SweepCase) bool) {
		seq := make([]string, 0, L)
		var rec func(n int) bool
		rec = func(n int) bool {
			if !yield(SweepCase{Text: joinTokens(seq), Obs: pbt.NewObs()}) {
				return false
			}
			if n == L {
				return true
			}
			for _, a := range alphabet {
				seq = append(seq, a)
				ok := rec(n + 1)
				seq = seq[:len(seq)-1]
				if !ok {
					return false
				}
			}
			return true
		}
		rec(0)
	})
}

func TestSweepArith(t *testing.T) {
	L := 6
	if pbt.Thorough() {
		L = 7
	}
	sweep(t, "sweep-arith", []string{"2", "3", "x", "+", "-", "*", "/", "^", "%", "(", ")"}, L)
}

func TestSweepOps(t *testing.T) {
	L := 5
	if pbt.Thorough() {
		L = 6
	}
	sweep(t, "sweep-ops", []string{"1", "x", "y", "-", "*", "^", "<", "==", "&&", "||", "!", "(", ")", "<<", "&", "abs("}, L)
}

// ---------------------------------------------------------------------------
// harness self-test: fixed texts, what the reference halves say about them
// (does not touch rare; it cannot fail on any tree of /repo)
// ---------------------------------------------------------------------------

func TestReferenceSelf(t *testing.T) {
	look := floatBind(lookupOf([]Bind{{"x", "4"}, {"y", "-3"}, {"0", "7"}}))
	for _, c := range []struct {
		text string
		cls  class
		want float64
	}{
		{"2+2", clWF, 4}, {"2 * x", clWF, 8}, {"[x] * 4", clWF, 16}, {"abs(-4)", clWF, 4}, {"(2+2)*3", clWF, 12}, {"2(1+1) ", clWF, 4},
		{"2+3*4", clWF, 14}, {"2*3+4", clWF, 10}, {"2^3^2", clWF, 64}, {"1 - 2 - 3", clWF, -4}, {"8/4/2", clWF, 1}, {"2*3^2", clWF, 18},
		{"1 < 2 == 1", clWF, 1}, {"1 + 2 < 2 * 2 && 1", clWF, 1}, {"0 || 1 && 0", clWF, 0}, {"7 % 4 * 2", clWF, 6}, {"2 - -x", clWF, 6},
		{"-x + 1", clWF, -3}, {"!0 && 1", clWF, 1}, {"1 << 2 << 1", clWF, 8}, {"(1 << 2) + 1", clWF, 5}, {"0x1BC + 0b1101", clWF, 457}, {"[0] - y", clWF, 10},
		{"1 + 2(3)", clWF, 7}, {"2(3) * 4", clWF, 24}, {"x^2(3)", clWF, 48}, {"1 + 2^3(y) - 1", clWF, -24}, {"2^3(4) / 2", clWF, 16}, {"sqrt(16)^2", clWF, 16}, {"-abs(y)", clWF, -3},
		{"-2^2", clUnspec, 0}, {"2^-1^2", clUnspec, 0}, {"6/2(1+2)", clUnspec, 0}, {"6*2(1+2)", clUnspec, 0}, {"-2(3)", clUnspec, 0}, {"2^-3(4)", clUnspec, 0}, {"1 << 2(3)", clUnspec, 0}, {"2(3)^2", clUnspec, 0}, {"1 + 2 << 3", clUnspec, 0}, {"1 & 2 | 3", clUnspec, 0},
		{"--2", clUnspec, 0}, {"+2", clUnspec, 0}, {"2 3", clUnspec, 0}, {"(1)2", clUnspec, 0}, {"x(2)", clUnspec, 0}, {"010", clUnspec, 0}, {"1e5", clUnspec, 0},
		{"2 $ 3", clUnspec, 0}, {"a = b", clUnspec, 0}, {"!x + 1", clUnspec, 0}, {"- x", clUnspec, 0}, {"abs (2)", clWF, 2}, {"10 - abs (2 - 5)", clWF, 7}, {"(sqrt (16))", clWF, 4}, {"2*-3", clUnspec, 0}, {"inf", clUnspec, 0}, {"0x1bc", clUnspec, 0},
		{"", clMalformed, 0}, {"-", clMalformed, 0}, {"2 * -", clMalformed, 0}, {"()", clMalformed, 0}, {"(2", clMalformed, 0}, {"2)", clMalformed, 0}, {"2 *", clMalformed, 0}, {"* 2", clMalformed, 0}, {"2 * / 3", clMalformed, 0}, {"abs()", clMalformed, 0}, {"1 + (2 *) + 3", clMalformed, 0},
	} {
		cls, tree, why := classify(c.text)
		if cls != c.cls {
			t.Errorf("classify(%q) = %v (%s), want %v", c.text, cls, why, c.cls)
			continue
		}
		if cls == clWF {
			got, undef := eval(tree, look)
			if undef != "" || got != c.want {
				t.Errorf("eval(%q) = %v (%s), want %v", c.text, got, undef, c.want)
			}
			if cls2, back, _ := classify(printTree(tree)); cls2 != clWF || !sameShape(tree, back) {
				t.Errorf("print/parse of %q is not stable: %q", c.text, printTree(tree))
			}
		}
	}
}

// ---------------------------------------------------------------------------
// native fuzzing (thorough tier): the three-way oracle on arbitrary text
// ---------------------------------------------------------------------------

func FuzzFormula(f *testing.F) {
	for _, s := range []string{
		"2+2", "2 * x", "[x] * 4", "abs(-4)", "(2+2)*3", "2(1+1) ", "x*((y+2)/(2+2/2-1))", "2 - -(3-2)", "-x+x*2", "cos(3.1415926535)",
		"1+3(2)", "1 < 2 && 5 > 4 && 5+2>=6", "5 < 2 || 4 > 2 || 0 > 1", "3^2 + 2 * 4^2 - 1", "5 & 0b100", "0b10 | 0b01", "1<<2", "4>>1", "5 % 2",
		"!(1 > 2)", "round(3.5)", "x+", "(1+1)x", "1+(1+", "1+(1+1))", "1+(1+)", "1 $ 2", "-", "2 * -", "[0] % [1]", "1 << [0]", "5 % 0", "0x1BC", "a == b", "a <= -b",
		"0&0%(-0& &(0))", "(x& &x)", "(1 2)", "2^3(4)", "6/2(1+2)", "x^2(3)(4)",
	} {
		f.Add(s, 3.0, -2.5)
	}
	f.Fuzz(func(t *testing.T, text string, a, b float64) {
		if len(text) > 200 {
			return
		}
		sa, sb := fstr(a), fstr(b)
		look := func(n string) (string, bool) {
			if len(n)%2 == 0 {
				return sa, true
			}
			return sb, true
		}
		if _, err := checkText(text, []lookup{look}, nil); err != nil {
			t.Fatal(err)
		}
	})
}
