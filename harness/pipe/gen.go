package pipe

import (
	"bytes"
	"fmt"
	"regexp"
	"strings"

	"pgregory.net/rapid"
	"verifharness/pbt"
)

// Regex pool: optional, nested, alternated, named and non-participating
// groups, anchors, empty matches, POSIX-sensitive alternations.
var RegexPool = []string{
	`(\d+)`,
	`(\w+) (\w+)`,
	`(?P<verb>GET|POST|PUT) (?P<path>/\S*)`,
	`(?P<verb>GET|POST|PUT) (?P<path>/\S*) (?P<status>\d{3})(?: (?P<size>\d+))?`,
	`(a)?(b)?c`,
	`((a)|(b))+`,
	`^$`,
	`x*`,
	`(\d+)|([a-z]+)`,
	`(?P<k>\w+)=(?P<v>\w*)`,
	`err(or)?`,
	`[[:alpha:]]+`,
	`(a|ab)(c|bcd)`,
	`^(\S+)\s+(\S+)?`,
	`(\d+)\.(\d+)\.(\d+)\.(\d+)`,
	`([A-Z]+)([a-z]+)?([0-9]+)?`,
	`(?P<first>\w)(?P<rest>\w*)$`,
	`.`,
	`\s`,
	`(GET)|(POST)|(PUT)|(err)|(warn)`,
	`(?P<a>a+)(?P<b>b*)(?P<c>c?)`,
	`status=(?P<code>\d+)`,
	`^(?:(\w+)[ =:])*(\w+)$`,
	"\\xff|\\x00",
}

// Literals are the texts the literal / anchored patterns below are built
// from; the corpus embeds them (alone, and as a proper prefix / suffix / infix
// of longer lines), and several occur in the ordinary line shapes as well
// ("error", "abc", "GET /a/b 200", "a.b", "k=v", "/x?y=1"). Four of them
// contain regexp metacharacters, which the patterns escape.
var Literals = []string{"err", "ab", "GET /a", "a.b", "k=v", "/x?y=1", "[ok]", "$1.5"}

// LitPattern describes one pattern of the literal pool.
type LitPattern struct {
	Pattern     string
	Literal     string // the text the pattern spells out
	Left, Right bool   // anchored at the start / at the end of the line
	Grouped     bool   // the literal sits in a (named) capture group
}

// LiteralPatterns: every literal x {bare, anchored left, right, both} x
// {^ $, \A \z, (?m)^ $, mixed} x {group-free, one capture group, one named
// group}. All of them are decided by the independently compiled reference
// regexp like any other pattern; the table only feeds the labels.
var LiteralPatterns = func() []LitPattern {
	var out []LitPattern
	for _, lit := range Literals {
		q := regexp.QuoteMeta(lit)
		add := func(p string, l, r, g bool) { out = append(out, LitPattern{p, lit, l, r, g}) }
		add(q, false, false, false)
		add("^"+q, true, false, false)
		add(`\A`+q, true, false, false)
		add(q+"$", false, true, false)
		add(q+`\z`, false, true, false)
		add(`(?m)`+q+"$", false, true, false)
		add("^"+q+"$", true, true, false)
		add(`\A`+q+`\z`, true, true, false)
		add("^"+q+`\z`, true, true, false)
		add(`(?m)^`+q+"$", true, true, false)
		add("("+q+")", false, false, true)
		add("^("+q+")", true, false, true)
		add("("+q+")$", false, true, true)
		add("^("+q+")$", true, true, true)
		add("^(?P<all>"+q+")$", true, true, true)
	}
	return out
}()

// LiteralInfo returns the table entry of a pattern of the literal pool.
func LiteralInfo(pattern string) *LitPattern {
	for i := range LiteralPatterns {
		if LiteralPatterns[i].Pattern == pattern {
			return &LiteralPatterns[i]
		}
	}
	return nil
}

// ClassicRegexPool is the part of RegexPool above; RegexPool also holds the
// literal pool.
var ClassicRegexPool = RegexPool[:len(RegexPool):len(RegexPool)]

func init() {
	for _, lp := range LiteralPatterns {
		RegexPool = append(RegexPool, lp.Pattern)
	}
}

// GzipLookalikes are beginnings of files that carry the gzip magic 1f 8b
// without being gzip: with -z such a file is read as plain text from its
// first byte. (Whether what follows one of these heads happens to complete a
// header that a gzip reader accepts is decided per case by UseGunzip.)
var GzipLookalikes = []string{
	"\x1f\x8b",                           // the magic and nothing else
	"\x1f\x8b\n",                         // the magic is line 1
	"\x1f\x8b\x00 spool v2 GET /a ",      // compression method is not deflate
	"\x1f\x8bGET /a 200",                 // text after the magic
	"\x1f\x8b\x08",                       // header cut after the method byte
	"\x1f\x8b\x08\x00\x00\x00\x00",       // header cut inside the mtime field
	"\x1f\x8b\x08\x00\x00\n\x00\x00\x00", // one byte short of a header, with a newline in it
	"\x1f\x8b\x08\x08\x00\x00\x00\x00\x00\x03name-never-terminated ",                   // FNAME without its NUL
	"\x1f\x8b\x08\x04\x00\x00\x00\x00\x00\x03\xff\xffab",                               // FEXTRA longer than the file
	"\x1f\x8b\x08\x02\x00\x00\x00\x00\x00\x03\x00\x00 err k=v",                         // FHCRC that does not fit the header
	"\x1f\x8b\x09\x00\x00\x00\x00\x00\x00\x03\x03\x00\x00\x00\x00\x00\x00\x00\x00\x00", // an empty member but for the method byte
}

// Dissect pool.
var DissectPool = []string{
	`%{a} %{b}`,
	`%{verb} /%{path} %{status}`,
	`%{k}=%{v}`,
	`[%{ts}] %{msg}`,
	`%{} %{second}`,
	`%{?skip}:%{x}`,
	`GET %{p}`,
	`%{a}.%{b}.%{c}.%{d}`,
	`status=%{code} `,
	`%{all}`,
	`err%{rest}`,
	`%{w1} %{w2} %{w3}`,
	`=%{v}`,
}

// Extract pool. Several produce an empty key for some lines (=> ignored).
var ExtractPool = []string{
	`{0}`, `{1}`, `{2}`, `{1} {2}`, `{src}:{line}`, `{src}:{line}:{0}`, `{line}`,
	`{if {1} x}`, `{if {2} {1}}`, `{@}`, `{3}|{2}|{1}`, `{sumi {1} 1}`, `{upper {0}}`,
	`{coalesce {2} {1}}`, `k{1}`, `{substr {0} 0 3}`, `{len {0}}`, `{9}`, `{1}{2}{3}{4}`,
	`{isint {1}}`, `{select {0} 1}`,
}

// Named-group extracts, valid for the patterns that define these names.
var namedExtracts = map[string][]string{
	"verb":   {`{verb}`, `{verb} {path}`, `{path}|{src}`},
	"k":      {`{k}`, `{v}`, `{k}={v}`, `{if {v} {k}}`},
	"a":      {`{a}`, `{a}-{b}`},
	"code":   {`{code}`},
	"first":  {`{first}{rest}`, `{rest}`},
	"ts":     {`{ts}`, `{msg}`},
	"p":      {`{p}`},
	"all":    {`{all}`},
	"w1":     {`{w3} {w2} {w1}`},
	"x":      {`{x}`},
	"second": {`{second}`},
	"status": {`{status}`, `{status} {size}`},
	"rest":   {`{rest}`},
	"v":      {`{v}`},
	"c":      {`{c}{b}{a}`},
	"d":      {`{a}.{d}`},
}

// Ignore pool: truthy on a subset of lines; some yield whitespace-only text
// (falsy after trimming).
var IgnorePool = []string{
	`{eq {1} GET}`, `{like {0} err}`, `{isint {1}}`, `{not {2}}`, `{prefix {0} " "}`,
	`{gt {len {0}} 12}`, `{substr {0} 0 1}`, `{if {1} " "}`, `{eq {line} 3}`, `{2}`,
	`{like {0} 7}`, `{suffix {0} "\r"}`, `{lt {len {0}} 2}`,
}

var words = []string{"GET", "POST", "PUT", "get", "err", "error", "warn", "ERR", "a", "b", "c", "ab", "abc", "abcd", "aab", "x", "xx", "k", "v", "status", "ok", "Zed9", "AB12", "q"}
var paths = []string{"/", "/a", "/a/b", "/index.html", "/x?y=1", "/é", ""}
var hostile = []string{"\x00", "\xff", "\r", "\x1b[31m", "é", "日本", "\t", " ", "  ", "%", "{", "}", "\"", "\\", "\xc3", "="}

func genLine(t *rapid.T) []byte {
	var sb bytes.Buffer
	switch rapid.IntRange(0, 13).Draw(t, "lk") {
	case 0:
		// empty
	case 1: // access-log like
		fmt.Fprintf(&sb, "%s %s %d", rapid.SampledFrom(words[:4]).Draw(t, "verb"), rapid.SampledFrom(paths).Draw(t, "path"), rapid.SampledFrom([]int{200, 404, 500, 7, 1234}).Draw(t, "st"))
		if rapid.Bool().Draw(t, "size") {
			fmt.Fprintf(&sb, " %d", rapid.IntRange(0, 99999).Draw(t, "sz"))
		}
	case 2: // key=value pairs
		n := rapid.IntRange(1, 3).Draw(t, "nkv")
		for i := 0; i < n; i++ {
			if i > 0 {
				sb.WriteByte(' ')
			}
			fmt.Fprintf(&sb, "%s=%s", rapid.SampledFrom(words).Draw(t, "k"), rapid.SampledFrom(append(words, "", "7", "42")).Draw(t, "v"))
		}
	case 3, 4: // words
		n := rapid.IntRange(1, 5).Draw(t, "nw")
		for i := 0; i < n; i++ {
			if i > 0 {
				sb.WriteString(rapid.SampledFrom([]string{" ", " ", "  ", "\t", ":", "."}).Draw(t, "sep"))
			}
			sb.WriteString(rapid.SampledFrom(words).Draw(t, "w"))
		}
	case 5: // numbers
		fmt.Fprintf(&sb, "%d", rapid.IntRange(-5, 100000).Draw(t, "n"))
	case 6: // ip
		fmt.Fprintf(&sb, "%d.%d.%d.%d %s", rapid.IntRange(0, 255).Draw(t, "i1"), rapid.IntRange(0, 255).Draw(t, "i2"), rapid.IntRange(0, 9).Draw(t, "i3"), rapid.IntRange(0, 9).Draw(t, "i4"), rapid.SampledFrom(words).Draw(t, "w"))
	case 7: // bracketed
		fmt.Fprintf(&sb, "[%d] %s status=%d ", rapid.IntRange(0, 99).Draw(t, "ts"), rapid.SampledFrom(words).Draw(t, "w"), rapid.IntRange(0, 999).Draw(t, "c"))
	case 8: // hostile bytes
		n := rapid.IntRange(1, 6).Draw(t, "nh")
		for i := 0; i < n; i++ {
			if rapid.Bool().Draw(t, "hw") {
				sb.WriteString(rapid.SampledFrom(hostile).Draw(t, "h"))
			} else {
				sb.WriteString(rapid.SampledFrom(words).Draw(t, "w"))
			}
		}
	case 9: // blanks
		sb.WriteString(rapid.SampledFrom([]string{" ", "  ", "\t", " \t "}).Draw(t, "bl"))
	case 10: // abc soup for the optional / alternated groups
		n := rapid.IntRange(1, 8).Draw(t, "ns")
		for i := 0; i < n; i++ {
			sb.WriteByte("abcabcd x"[rapid.IntRange(0, 8).Draw(t, "ch")])
		}
	case 11: // line ending with CR (CRLF strips only one)
		sb.WriteString(rapid.SampledFrom(words).Draw(t, "w"))
		sb.WriteByte('\r')
	case 12, 13: // a pool literal: the whole line, or a proper prefix / suffix / infix of it, repeated, case-flipped, cut short
		lit := rapid.SampledFrom(Literals).Draw(t, "lit")
		switch rapid.IntRange(0, 9).Draw(t, "litMod") {
		case 0:
			lit = strings.ToUpper(lit)
		case 1:
			lit = lit[:len(lit)-1]
		}
		pre := rapid.SampledFrom([]string{"x", " ", "10.0.0.1 ", "é", "\t", "a"}).Draw(t, "litPre")
		suf := rapid.SampledFrom([]string{"z", " ", " 200", "\r", "or", "é"}).Draw(t, "litSuf")
		switch rapid.IntRange(0, 6).Draw(t, "litForm") {
		case 0, 1:
			sb.WriteString(lit)
		case 2:
			sb.WriteString(lit + suf)
		case 3:
			sb.WriteString(pre + lit)
		case 4:
			sb.WriteString(pre + lit + suf)
		case 5:
			sb.WriteString(lit + lit)
		case 6:
			sb.WriteString(lit + " " + pre + lit)
		}
	}
	return sb.Bytes()
}

// GenContent builds one input: lines + terminators, optionally one very long
// line (longer than the 128 KiB read buffer).
func GenContent(t *rapid.T, maxLines int, allowLong bool) []byte {
	if allowLong && rapid.IntRange(0, 13).Draw(t, "aligned") == 0 {
		return genAligned(t)
	}
	n := rapid.IntRange(0, maxLines).Draw(t, "nlines")
	var sb bytes.Buffer
	longAt := -1
	if allowLong && n > 0 && rapid.IntRange(0, 24).Draw(t, "long") == 0 {
		longAt = rapid.IntRange(0, n-1).Draw(t, "longAt")
	}
	crlf := rapid.IntRange(0, 3).Draw(t, "crlfMode") // 0: never, 1: always, 2,3: mixed
	for i := 0; i < n; i++ {
		if i == longAt {
			sb.Write(bytes.Repeat([]byte{'y'}, rapid.IntRange(131072-3, 131072*2+5).Draw(t, "longLen")))
			sb.WriteString(" GET /long 200")
		} else {
			sb.Write(genLine(t))
		}
		last := i == n-1
		if last && rapid.IntRange(0, 3).Draw(t, "noTrailingNL") == 0 {
			break
		}
		switch {
		case crlf == 1, crlf >= 2 && rapid.IntRange(0, 3).Draw(t, "crlf") == 0:
			sb.WriteString("\r\n")
		default:
			sb.WriteByte('\n')
		}
	}
	return sb.Bytes()
}

// GenMatcher draws a matcher and an extract expression that is meaningful
// for it.
func GenMatcher(t *rapid.T) (Matcher, string) {
	var m Matcher
	switch rapid.IntRange(0, 9).Draw(t, "mk") {
	case 0:
		m.Kind = "default"
	case 1, 2, 3:
		m.Kind = "dissect"
		m.Pattern = rapid.SampledFrom(DissectPool).Draw(t, "dpat")
		m.IgnoreCase = rapid.IntRange(0, 3).Draw(t, "ic") == 0
	default:
		m.Kind = "regex"
		if rapid.IntRange(0, 2).Draw(t, "rpool") == 0 {
			m.Pattern = rapid.SampledFrom(LiteralPatterns).Draw(t, "lpat").Pattern
		} else {
			m.Pattern = rapid.SampledFrom(ClassicRegexPool).Draw(t, "rpat")
		}
		m.IgnoreCase = rapid.IntRange(0, 3).Draw(t, "ic") == 0
		m.Posix = rapid.IntRange(0, 4).Draw(t, "posix") == 0
		if m.Posix && (strings.Contains(m.Pattern, "(?m)") || strings.Contains(m.Pattern, `\A`) || strings.Contains(m.Pattern, `\z`) || strings.Contains(m.Pattern, "(?P<") || strings.Contains(m.Pattern, "(?:") || strings.Contains(m.Pattern, `\d`) || strings.Contains(m.Pattern, `\w`) || strings.Contains(m.Pattern, `\s`) || strings.Contains(m.Pattern, `\S`) || strings.Contains(m.Pattern, `\x`)) {
			m.Posix = false // CompilePOSIX rejects Perl extensions
		}
		if m.Posix {
			m.IgnoreCase = false // -I prepends (?i), which POSIX syntax rejects (rare reports a compile error)
		}
	}
	pool := append([]string(nil), ExtractPool...)
	// named extracts valid for this pattern (iterate the table in a fixed order)
	for _, name := range pbt.SortedKeys(namedExtracts) {
		if strings.Contains(m.Pattern, "<"+name+">") || strings.Contains(m.Pattern, "%{"+name+"}") {
			pool = append(pool, namedExtracts[name]...)
			pool = append(pool, namedExtracts[name]...) // weight
		}
	}
	ex := rapid.SampledFrom(pool).Draw(t, "extract")
	return m, ex
}

var batchSizes = []int{1, 1, 2, 3, 7, 64, 1000}
var delayClasses = []int{0, 0, 0, 1, 1, 20, 200}

func genDelays(t *rapid.T, label string) []int {
	if rapid.IntRange(0, 2).Draw(t, label+"On") == 0 {
		return nil
	}
	n := rapid.IntRange(1, 5).Draw(t, label+"N")
	out := make([]int, n)
	for i := range out {
		out[i] = rapid.SampledFrom(delayClasses).Draw(t, label)
	}
	return out
}

// GenCase draws a file-path case.
func GenCase(t *rapid.T, maxInputs, maxLines int) Case {
	c := Case{Obs: pbt.NewObs()}
	n := rapid.IntRange(1, maxInputs).Draw(t, "ninputs")
	lines := maxLines
	if rapid.IntRange(0, 4).Draw(t, "small") != 0 {
		lines = maxLines / 6
		if lines < 4 {
			lines = 4
		}
	}
	for i := 0; i < n; i++ {
		if rapid.IntRange(0, 7).Draw(t, "tiny") == 0 {
			// an input shorter than a gzip header (10 bytes)
			tiny := rapid.SampledFrom([]string{"a", "a\n", "GET /a 1", "ab\ncd", "x\r\ny\r\n", "\n", "200 k=v\n", "abc 12\n"}).Draw(t, "tinyContent")
			c.Inputs = append(c.Inputs, Input{Name: fmt.Sprintf("in%d.log", i), Content: pbt.S(tiny)})
			continue
		}
		if rapid.IntRange(0, 8).Draw(t, "lookalike") == 0 {
			// an input that starts with the gzip magic without being gzip
			content := []byte(rapid.SampledFrom(GzipLookalikes).Draw(t, "lookalikeHead"))
			if rapid.IntRange(0, 2).Draw(t, "lookalikeTail") != 0 {
				content = append(content, GenContent(t, 8, false)...)
			}
			c.Inputs = append(c.Inputs, Input{Name: fmt.Sprintf("in%d.log", i), Content: pbt.S(content)})
			continue
		}
		c.Inputs = append(c.Inputs, Input{Name: fmt.Sprintf("in%d.log", i), Content: pbt.S(GenContent(t, lines, true))})
	}
	c.Gunzip = rapid.IntRange(0, 2).Draw(t, "gunzip") == 0
	if rapid.IntRange(0, 7).Draw(t, "missing") == 0 {
		// unopenable inputs, sometimes as many as (or more than) the reader slots
		nm := rapid.IntRange(1, 5).Draw(t, "nmissing")
		for i := 0; i < nm; i++ {
			c.Missing = append(c.Missing, rapid.IntRange(0, n).Draw(t, "missingAt"))
		}
	}
	c.Matcher, c.Extract = GenMatcher(t)
	ni := rapid.SampledFrom([]int{0, 0, 1, 1, 2}).Draw(t, "nignore")
	for i := 0; i < ni; i++ {
		c.Ignores = append(c.Ignores, rapid.SampledFrom(IgnorePool).Draw(t, "ignore"))
	}
	c.Batch = rapid.SampledFrom(batchSizes).Draw(t, "batch")
	c.Workers = rapid.IntRange(1, 8).Draw(t, "workers")
	c.Readers = rapid.IntRange(1, 4).Draw(t, "readers")
	c.BatchBuffer = rapid.IntRange(1, 8).Draw(t, "bb")
	c.Procs = rapid.SampledFrom([]int{1, 2, 4, 16}).Draw(t, "procs")
	c.MatchDelay = genDelays(t, "md")
	c.ConsumeDelay = genDelays(t, "cd")
	return c
}

// GenReaderCase draws a reader-path (time-flush) case. stallUs > 0 inserts
// read stalls longer than the 250 ms auto-flush timeout.
func GenReaderCase(t *rapid.T, maxLines int, stalls bool) Case {
	c := Case{Obs: pbt.NewObs(), ViaReader: true}
	in := Input{Name: rapid.SampledFrom([]string{"<stdin>", "reader", "a b"}).Draw(t, "rname"), Content: pbt.S(GenContent(t, maxLines, !stalls))}
	nch := rapid.IntRange(0, 5).Draw(t, "nchunks")
	for i := 0; i < nch; i++ {
		in.Chunks = append(in.Chunks, rapid.SampledFrom([]int{0, 1, 2, 3, 5, 17, 64, 4096}).Draw(t, "chunk"))
	}
	if stalls {
		// sleeps are indexed by read number (not cycled): at most 3 stalls
		// longer than the 250 ms flush timer per case.
		in.Chunks = []int{rapid.SampledFrom([]int{5, 17, 64, 200}).Draw(t, "chunk1")}
		ns := rapid.IntRange(4, 14).Draw(t, "nsleeps")
		long := 0
		for i := 0; i < ns; i++ {
			d := rapid.SampledFrom([]int{0, 0, 0, 50, 270000}).Draw(t, "sleep")
			if d > 1000 {
				if long >= 3 {
					d = 0
				}
				long++
			}
			in.SleepsUs = append(in.SleepsUs, d)
		}
	} else {
		nsl := rapid.IntRange(0, 3).Draw(t, "nsleeps")
		for i := 0; i < nsl; i++ {
			in.SleepsUs = append(in.SleepsUs, rapid.SampledFrom([]int{0, 0, 10, 100}).Draw(t, "sleep"))
		}
	}
	if len(in.Content) > 0 && rapid.IntRange(0, 5).Draw(t, "failWithData") == 0 {
		in.FailWithData = true
	}
	c.Inputs = []Input{in}
	c.Matcher, c.Extract = GenMatcher(t)
	if rapid.Bool().Draw(t, "hasIgnore") {
		c.Ignores = append(c.Ignores, rapid.SampledFrom(IgnorePool).Draw(t, "ignore"))
	}
	c.Batch = rapid.SampledFrom(batchSizes).Draw(t, "batch")
	c.Workers = rapid.IntRange(1, 8).Draw(t, "workers")
	c.Readers = 1
	c.BatchBuffer = rapid.IntRange(1, 8).Draw(t, "bb")
	c.Procs = rapid.SampledFrom([]int{1, 2, 4, 16}).Draw(t, "procs")
	c.MatchDelay = genDelays(t, "md")
	c.ConsumeDelay = genDelays(t, "cd")
	return c
}

// ReadBuf is batchers.ReadAheadBufferSize (the production read buffer).
const ReadBuf = 128 * 1024

// genAligned builds inputs whose line ends fall on (or right next to) the
// boundaries of the 128 KiB read buffer: either fixed-length records whose
// length divides the buffer size, or a few ordinary lines followed by one long
// line padded so that its newline is the last byte of the buffer (+-1),
// followed by more lines.
func genAligned(t *rapid.T) []byte {
	var sb bytes.Buffer
	if rapid.Bool().Draw(t, "records") {
		l := rapid.SampledFrom([]int{32, 64, 128, 256, 1024}).Draw(t, "reclen")
		total := rapid.SampledFrom([]int{ReadBuf, ReadBuf + ReadBuf/2, 2 * ReadBuf, 2*ReadBuf + 3*l}).Draw(t, "total")
		shift := rapid.SampledFrom([]int{0, 0, 0, 1}).Draw(t, "shift") // 1: misaligned control
		for i := 0; i < shift; i++ {
			sb.WriteByte('s')
		}
		for n := 0; sb.Len()+l <= total; n++ {
			head := fmt.Sprintf("%s /r%d %d k=v%d ", []string{"GET", "POST", "err", "w1 w2"}[n%4], n, 200+n%7, n%5)
			sb.WriteString(head)
			for j := len(head); j < l-1; j++ {
				sb.WriteByte("abcxyz 12"[(n+j)%9])
			}
			sb.WriteByte('\n')
		}
		return sb.Bytes()
	}
	pre := rapid.IntRange(0, 5).Draw(t, "prelines")
	for i := 0; i < pre; i++ {
		sb.Write(genLine(t))
		sb.WriteByte('\n')
	}
	k := rapid.IntRange(1, 2).Draw(t, "k")
	delta := rapid.SampledFrom([]int{-1, 0, 0, 0, 1}).Draw(t, "delta")
	target := k*ReadBuf - 1 + delta // offset of the newline that ends the long line
	tail := " GET /long 200"
	for sb.Len() < target-len(tail) {
		sb.WriteByte('y')
	}
	sb.WriteString(tail)
	sb.WriteByte('\n')
	post := rapid.IntRange(1, 12).Draw(t, "postlines")
	for i := 0; i < post; i++ {
		sb.Write(genLine(t))
		sb.WriteByte('\n')
	}
	return sb.Bytes()
}
