module verifharness

go 1.23

require (
	pgregory.net/rapid v1.3.0
	rare v0.0.0
)

replace rare => /repo
