// Reference interpreter for the array helpers of rare expressions.
//
// Written from docs/usage/expressions.md ("Ranges (Arrays)", "Arrays / Null
// Separator", "Logic", "Arithmetic", "Errors") and the C17 property
// statement, over Go string slices. A list is a []string; its encoding is the
// elements joined by NUL. The empty list and the list holding one empty
// string share the encoding "" — wherever the documentation does not say
// which of the two an operator sees, the interpreter has a *reading* switch
// and the oracle accepts every reading (see reading below).
package c17

import (
	"fmt"
	"regexp"
	"strconv"
	"strings"
	"unicode"

	"verifharness/pbt"
)

const nul = "\x00"

// ---------- expression tree ---------------------------------------------

// Node is one node of a rare expression.
//
//	lit  : literal text S (safe alphabet, see safeLit)
//	grp  : {I}
//	key  : {S}
//	cat  : concatenation of lit/grp/key parts within one argument
//	call : {S a0 a1 ...}; Q = print the whole call inside double quotes
type Node struct {
	T string  `json:"t"`
	S pbt.S   `json:"s,omitempty"`
	I int     `json:"i,omitempty"`
	Q bool    `json:"q,omitempty"`
	A []*Node `json:"a,omitempty"`
}

func lit(s string) *Node             { return &Node{T: "lit", S: pbt.S(s)} }
func grp(i int) *Node                { return &Node{T: "grp", I: i} }
func key(k string) *Node             { return &Node{T: "key", S: pbt.S(k)} }
func cat(parts ...*Node) *Node       { return &Node{T: "cat", A: parts} }
func call(f string, a ...*Node) *Node { return &Node{T: "call", S: pbt.S(f), A: a} }
func itoa(i int) string              { return strconv.Itoa(i) }

// safeLit: literal text that needs no escaping anywhere in a template: no
// backslash, brace, quote, NUL; valid UTF-8.
func safeLit(s string) bool {
	if strings.ContainsAny(s, "\\{}\"\x00") {
		return false
	}
	return strings.ToValidUTF8(s, "") == s
}

func hasSpace(s string) bool {
	for _, r := range s {
		if unicode.IsSpace(r) {
			return true
		}
	}
	return false
}

// arg prints the node as one argument of a helper call.
func (n *Node) arg() string {
	switch n.T {
	case "lit":
		s := string(n.S)
		if !safeLit(s) {
			panic("harness: unsafe literal " + strconv.Quote(s))
		}
		if s == "" || hasSpace(s) {
			return `"` + s + `"`
		}
		return s
	case "grp":
		return "{" + itoa(n.I) + "}"
	case "key":
		return "{" + string(n.S) + "}"
	case "cat":
		var sb strings.Builder
		quote := false
		for _, p := range n.A {
			switch p.T {
			case "lit":
				if !safeLit(string(p.S)) {
					panic("harness: unsafe literal " + strconv.Quote(string(p.S)))
				}
				if hasSpace(string(p.S)) {
					quote = true
				}
				sb.WriteString(string(p.S))
			case "grp", "key":
				sb.WriteString(p.arg())
			default:
				panic("harness: cat holds " + p.T)
			}
		}
		if sb.Len() == 0 || quote {
			return `"` + sb.String() + `"`
		}
		return sb.String()
	case "call":
		var sb strings.Builder
		sb.WriteString("{")
		sb.WriteString(string(n.S))
		for _, a := range n.A {
			sb.WriteString(" ")
			sb.WriteString(a.arg())
		}
		sb.WriteString("}")
		s := sb.String()
		if n.Q && !strings.Contains(s, `"`) {
			return `"` + s + `"`
		}
		return s
	}
	panic("harness: node type " + n.T)
}

// top prints the node as a whole template (no quoting outside braces).
func (n *Node) top() string {
	if n.T != "call" {
		panic("harness: template root must be a call")
	}
	q := n.Q
	n.Q = false
	s := n.arg()
	n.Q = q
	return s
}

func (n *Node) walk(f func(n *Node, depth int, inSub bool), depth int, inSub bool) {
	f(n, depth, inSub)
	for i, a := range n.A {
		sub := inSub
		if n.T == "call" {
			switch string(n.S) {
			case "@map", "@filter", "@reduce":
				if i == 1 {
					sub = true
				}
			case "@for":
				if i >= 1 {
					sub = true
				}
			}
		}
		a.walk(f, depth+1, sub)
	}
}

// ---------- readings -------------------------------------------------------

// reading selects, for each point the documentation leaves open, one of the
// defensible interpretations. Index 0 is what rare does today (after the
// repairs); the oracle accepts an output produced under ANY combination.
type reading struct {
	mapEmpty    int // @map of "": 0 = one empty element (f("")), 1 = no element ("")
	reduceEmpty int // @reduce of "" with an initial value: 0 = f(init,""), 1 = init
	inEmpty     int // {@in "" ""}: 0 = member, 1 = not
	sliceLow    int // @slice start below -len: 0 = clamp to the first element, 1 = virtual indexes, 2 = empty
	selNeg      int // @select with -len <= i < 0: 0 = from the end, 1 = empty
	rangeContra int // @range whose step points away from stop: 0 = <VALUE>, 1 = empty list
	badNum      int // non-numeric text given to a numeric helper: 0 = <BAD-TYPE>, 1 = <PARSE-ERROR>
}

var readingDims = []int{2, 2, 2, 3, 2, 2, 2}

func readingAt(ix []int) reading {
	return reading{ix[0], ix[1], ix[2], ix[3], ix[4], ix[5], ix[6]}
}

// allReadings enumerates every combination (192).
func allReadings(yield func(reading) bool) {
	ix := make([]int, len(readingDims))
	for {
		if !yield(readingAt(ix)) {
			return
		}
		p := 0
		for p < len(ix) {
			ix[p]++
			if ix[p] < readingDims[p] {
				break
			}
			ix[p] = 0
			p++
		}
		if p == len(ix) {
			return
		}
	}
}

// ---------- interpreter ----------------------------------------------------

// skip is raised (as a panic) when the case leaves the domain the
// documentation fixes; the case is then counted as excluded, not judged.
type skip struct{ class string }

type env struct {
	grp  []string
	keys map[string]string
	sub  bool
}

type model struct {
	rd      reading
	obs     *pbt.Obs
	touched map[string]bool
	work    int
}

func decode(s string) []string {
	if s == "" {
		return nil
	}
	return strings.Split(s, nul)
}

func encode(l []string) string { return strings.Join(l, nul) }

var canonInt = regexp.MustCompile(`^-?(0|[1-9][0-9]{0,11})$`)

// num classifies text for the numeric helpers: canonical decimal integers are
// numbers; text without any digit (and not an inf/nan spelling) is clearly
// not a number; everything in between is C11's business and skipped.
func (m *model) num(s string) (int, bool) {
	if canonInt.MatchString(s) && s != "-0" {
		v, _ := strconv.Atoi(s)
		return v, true
	}
	low := strings.ToLower(s)
	if strings.ContainsAny(s, "0123456789") || strings.Contains(low, "inf") || strings.Contains(low, "nan") {
		panic(skip{"gray-number"})
	}
	return 0, false
}

func (m *model) touch(dim string) { m.touched[dim] = true }

func (m *model) marker() string {
	m.touch("badNum")
	if m.rd.badNum == 1 {
		return "<PARSE-ERROR>"
	}
	return "<BAD-TYPE>"
}

func bound(v int) int {
	if v > 1e15 || v < -1e15 {
		panic(skip{"int-overflow"})
	}
	return v
}

// truthy: "Truthiness is the presence of a value. False is an empty value (or
// only whitespace)".
func truthy(s string) bool {
	for _, r := range s {
		if r > 0x7f && unicode.IsSpace(r) {
			panic(skip{"unicode-space"})
		}
	}
	return strings.Trim(s, " \t\n\r\v\f") != ""
}

func ascii(s string) bool {
	for i := 0; i < len(s); i++ {
		if s[i] >= 0x80 {
			return false
		}
	}
	return true
}

func staticLit(n *Node) string {
	if n.T != "lit" {
		panic("harness: argument must be a literal, got " + n.T)
	}
	return string(n.S)
}

func staticInt(n *Node) int {
	v, err := strconv.Atoi(staticLit(n))
	if err != nil {
		panic("harness: argument must be an integer literal")
	}
	return v
}

func (m *model) tick(n int) {
	m.work += n
	if m.work > 400000 {
		panic(skip{"too-much-work"})
	}
}

func (m *model) subenv(e *env, v0, v1 string) *env {
	return &env{grp: []string{v0, v1}, keys: e.keys, sub: true}
}

// subenv1: the match a sub-expression of @map / @filter sees - "{0} is the
// current element", nothing else is bound.
func (m *model) subenv1(e *env, v0 string) *env {
	return &env{grp: []string{v0}, keys: e.keys, sub: true}
}

func (m *model) see(op string, l []string) {
	if m.obs == nil {
		return
	}
	m.obs.Label(true, "op:"+op)
	if len(l) > m.obs.Get("maxlen") {
		m.obs.N["maxlen"] = len(l)
	}
	m.obs.Label(len(l) == 0, "empty-list-in")
	for _, x := range l {
		if x == "" {
			m.obs.Label(len(l) >= 2, "empty-element")
		} else if strings.Trim(x, " \t") == "" {
			m.obs.Label(true, "blank-element")
		}
		if !ascii(x) {
			m.obs.Label(true, "non-ascii-element")
		}
	}
}

func (m *model) eval(n *Node, e *env) string {
	m.tick(1)
	switch n.T {
	case "lit":
		return string(n.S)
	case "grp":
		if n.I >= 0 && n.I < len(e.grp) {
			return e.grp[n.I]
		}
		if e.sub && n.I >= 1 && n.I <= 3 {
			// a group the helper does not bind in its sub-expression ({1}
			// in @map/@filter, {2} everywhere): the sub-expression sees a
			// match of its own that holds the documented values only, and a
			// group a match does not have is empty ({coalesce {4} {3}
			// notfound}) - never a value of some earlier evaluation
			if m.obs != nil {
				m.obs.Label(true, "unbound-group-in-sub-expression")
				m.obs.Label(len(e.grp) == 1 && n.I == 1, "unbound-{1}-in-map/filter")
			}
			return ""
		}
		panic(fmt.Sprintf("harness: group {%d} outside the generated domain", n.I))
	case "key":
		v, ok := e.keys[string(n.S)]
		if !ok {
			panic("harness: undefined key " + string(n.S))
		}
		if e.sub && m.obs != nil {
			m.obs.Label(true, "named-key-in-sub-expression")
		}
		return v
	case "cat":
		var sb strings.Builder
		for _, p := range n.A {
			sb.WriteString(m.eval(p, e))
		}
		return sb.String()
	case "call":
		return m.call(n, e)
	}
	panic("harness: node type " + n.T)
}

func (m *model) call(n *Node, e *env) string {
	f := string(n.S)
	a := n.A
	switch f {
	// ---- {$ ..} / {@ ..}: "Concatenates a set of arguments with a null separator"
	case "@", "$":
		vals := make([]string, len(a))
		for i := range a {
			vals[i] = m.eval(a[i], e)
		}
		m.see(f, vals)
		return encode(vals)

	// ---- "Returns the length of an array. Empty "" returns 0, a literal will be 1."
	case "@len":
		l := decode(m.eval(a[0], e))
		m.see(f, l)
		return itoa(len(l))

	// ---- "Splits a string into an array with the separating delim" (default " ")
	case "@split":
		s := m.eval(a[0], e)
		d := " "
		if len(a) > 1 {
			d = staticLit(a[1])
		}
		if d == "" {
			panic("harness: empty delimiter")
		}
		l := strings.Split(s, d)
		m.tick(len(l))
		m.see(f, l)
		if m.obs != nil {
			m.obs.Label(len(d) > 1, "multi-byte-delim")
			m.obs.Label(!ascii(d), "non-ascii-delim")
		}
		return encode(l)

	// ---- "Re-joins an array back into a string" (default " ")
	case "@join":
		l := decode(m.eval(a[0], e))
		d := " "
		if len(a) > 1 {
			d = staticLit(a[1])
		}
		m.see(f, l)
		if m.obs != nil {
			m.obs.Label(len(d) > 1, "multi-byte-delim")
		}
		return strings.Join(l, d)

	// ---- "Selects a single item at an index out of array."
	case "@select":
		l := decode(m.eval(a[0], e))
		i := staticInt(a[1])
		m.see(f, l)
		nn := len(l)
		if m.obs != nil {
			m.obs.Label(i < 0, "negative-index")
			m.obs.Label(i >= nn || i < -nn, "index-out-of-range")
		}
		switch {
		case i >= nn || i < -nn:
			return ""
		case i >= 0:
			return l[i]
		default:
			m.touch("selNeg")
			if m.rd.selNeg == 1 {
				return ""
			}
			return l[nn+i]
		}

	// ---- "Gets a slice of an array. If begin is a negative number, will start from the end."
	case "@slice":
		l := decode(m.eval(a[0], e))
		b := staticInt(a[1])
		cnt := -1
		if len(a) > 2 {
			cnt = staticInt(a[2])
			if cnt < 0 {
				panic("harness: negative slice length is outside the generated domain")
			}
		}
		m.see(f, l)
		nn := len(l)
		if m.obs != nil {
			m.obs.Label(b < 0, "negative-index")
			m.obs.Label(b >= nn || b < -nn, "index-out-of-range")
			m.obs.Label(cnt >= 0 && b >= 0 && b < nn && cnt > nn-b, "slice-length-past-end")
			m.obs.Label(cnt > 1<<30, "astronomic-slice-length")
		}
		if nn == 0 || b >= nn {
			return ""
		}
		lo := b
		if b < 0 {
			lo = b + nn
		}
		hi := nn
		if cnt >= 0 && (lo < 0 || cnt < nn-lo) { // no addition that can wrap: cnt may be MaxInt64
			hi = lo + cnt
		}
		if lo < 0 {
			m.touch("sliceLow")
			switch m.rd.sliceLow {
			case 0: // clamp the start, then take cnt
				lo = 0
				if cnt >= 0 {
					hi = cnt
				}
			case 1: // positions before the list hold nothing
				lo = 0
			default:
				return ""
			}
		}
		if hi > nn {
			hi = nn
		}
		if hi < lo {
			hi = lo
		}
		return encode(l[lo:hi])

	// ---- "Evaluates mapfunc against each element in the array. {0} is the current element."
	case "@map":
		enc := m.eval(a[0], e)
		l := decode(enc)
		m.see(f, l)
		if enc == "" {
			r0 := m.eval(a[1], m.subenv1(e, ""))
			if r0 != "" {
				m.touch("mapEmpty")
				if m.rd.mapEmpty == 1 {
					return ""
				}
			}
			return r0
		}
		out := make([]string, len(l))
		for i, x := range l {
			out[i] = m.eval(a[1], m.subenv1(e, x))
		}
		return encode(out)

	// ---- "If truthy, item will be in resulting array. If false, it will be omitted."
	case "@filter":
		l := decode(m.eval(a[0], e))
		m.see(f, l)
		var out []string
		for _, x := range l {
			if truthy(m.eval(a[1], m.subenv1(e, x))) {
				out = append(out, x)
			}
		}
		if m.obs != nil {
			m.obs.Label(len(out) == 0 && len(l) > 0, "filter-drops-all")
			m.obs.Label(len(out) > 0 && len(out) < len(l), "filter-drops-some")
		}
		return encode(out)

	// ---- "{0} is the memo, and {1} is the current value ... If initial is
	//      unset, it will use arr[0] as the initial value."
	case "@reduce":
		enc := m.eval(a[0], e)
		l := decode(enc)
		init := ""
		if len(a) > 2 {
			init = staticLit(a[2])
		}
		m.see(f, l)
		if m.obs != nil {
			m.obs.Label(init != "", "reduce-initial")
		}
		if enc == "" {
			if init == "" {
				return ""
			}
			r := m.eval(a[1], m.subenv(e, init, ""))
			if r != init {
				m.touch("reduceEmpty")
				if m.rd.reduceEmpty == 1 {
					return init
				}
			}
			return r
		}
		memo := init
		rest := l
		if init == "" {
			memo, rest = l[0], l[1:]
		}
		for _, x := range rest {
			if m.obs != nil {
				m.obs.Label(x != "", "reduce-binds-{1}")
			}
			memo = m.eval(a[1], m.subenv(e, memo, x))
			m.tick(len(memo) / 16)
		}
		return memo

	// ---- "Returns truthy if a given val is contained within the array."
	case "@in":
		v := m.eval(a[0], e)
		enc := m.eval(a[1], e)
		l := decode(enc)
		m.see(f, l)
		if enc == "" {
			if v == "" {
				m.touch("inEmpty")
				if m.rd.inEmpty == 0 {
					return "1"
				}
			}
			return ""
		}
		for _, x := range l {
			if x == v {
				if m.obs != nil {
					m.obs.Label(true, "in-member")
				}
				return "1"
			}
		}
		return ""

	// ---- "{@range [start=0] <stop> [incr=1]}: Creates an array from
	//      start..stop, incrementing by incr"; <VALUE> "eg. range incrementer is 0"
	case "@range":
		start, stop, incr := 0, 0, 1
		ok := true
		get := func(nd *Node) int {
			v, isnum := m.num(m.eval(nd, e))
			if !isnum {
				ok = false
			}
			return v
		}
		switch len(a) {
		case 1:
			stop = get(a[0])
		case 2:
			start, stop = get(a[0]), get(a[1])
		case 3:
			start, stop, incr = get(a[0]), get(a[1]), get(a[2])
		default:
			panic("harness: @range arity")
		}
		if m.obs != nil {
			m.obs.Label(true, "op:@range")
		}
		if !ok {
			return m.marker()
		}
		if incr == 0 {
			if m.obs != nil {
				m.obs.Label(true, "range-zero-step")
			}
			return "<VALUE>"
		}
		if (incr > 0 && start > stop) || (incr < 0 && start < stop) {
			if m.obs != nil {
				m.obs.Label(true, "range-contradictory")
			}
			m.touch("rangeContra")
			if m.rd.rangeContra == 1 {
				return ""
			}
			return "<VALUE>"
		}
		var out []string
		for i := start; (incr > 0 && i < stop) || (incr < 0 && i > stop); i += incr {
			out = append(out, itoa(i))
			if len(out) > 5000 {
				panic(skip{"range-too-long"})
			}
		}
		m.tick(len(out))
		if m.obs != nil {
			m.obs.Label(incr < 0, "range-negative-step")
			m.obs.Label(len(out) == 0, "range-empty")
			if len(out) > m.obs.Get("maxlen") {
				m.obs.N["maxlen"] = len(out)
			}
		}
		return encode(out)

	// ---- "@for uses expressions to increment and check when done as a truthy
	//      statement. In the sub-expressions {0} is the current value and {1}
	//      is the index of the increment."
	case "@for":
		val := m.eval(a[0], e)
		var out []string
		for idx := 0; ; idx++ {
			if idx > 300 {
				panic(skip{"for-too-long"})
			}
			if !truthy(m.eval(a[1], m.subenv(e, val, itoa(idx)))) {
				break
			}
			out = append(out, val)
			m.tick(len(val)/16 + 1)
			val = m.eval(a[2], m.subenv(e, val, itoa(idx)))
		}
		if m.obs != nil {
			m.obs.Label(true, "op:@for")
			m.obs.Label(true, "for-binds-{1}")
			m.obs.Label(len(out) == 0, "for-empty")
			m.obs.Label(len(out) > 0 && out[0] == "", "for-first-element-empty")
			if len(out) > m.obs.Get("maxlen") {
				m.obs.N["maxlen"] = len(out)
			}
		}
		return encode(out)

	// ---- scalar helpers (meaning fixed by C11; only the unambiguous core) ----
	case "upper", "lower":
		s := m.eval(a[0], e)
		if !ascii(s) {
			panic(skip{"case-of-non-ascii"})
		}
		if f == "upper" {
			return strings.ToUpper(s)
		}
		return strings.ToLower(s)
	case "len":
		s := m.eval(a[0], e)
		if !ascii(s) {
			panic(skip{"len-of-non-ascii"})
		}
		return itoa(len(s))
	case "sumi", "subi", "multi", "maxi", "mini":
		if len(a) < 2 {
			panic("harness: arity")
		}
		vals := make([]int, len(a))
		ok := true
		for i := range a {
			v, isnum := m.num(m.eval(a[i], e))
			if !isnum {
				ok = false
			}
			vals[i] = v
		}
		if !ok {
			return m.marker()
		}
		acc := vals[0]
		for _, v := range vals[1:] {
			switch f {
			case "sumi":
				acc += v
			case "subi":
				acc -= v
			case "multi":
				bound(v)
				acc *= v
			case "maxi":
				if v > acc {
					acc = v
				}
			case "mini":
				if v < acc {
					acc = v
				}
			}
			bound(acc)
		}
		return itoa(acc)
	case "isint", "isnum":
		_, isnum := m.num(m.eval(a[0], e))
		if isnum {
			return "1"
		}
		return ""
	case "eq", "neq":
		x, y := m.eval(a[0], e), m.eval(a[1], e)
		if (x == y) == (f == "eq") {
			return "1"
		}
		return ""
	case "not":
		s := m.eval(a[0], e)
		if s != "" && !truthy(s) {
			panic(skip{"blank-to-not"})
		}
		if s == "" {
			return "1"
		}
		return ""
	case "lt", "gt", "lte", "gte":
		x, xok := m.num(m.eval(a[0], e))
		y, yok := m.num(m.eval(a[1], e))
		if !xok || !yok {
			return m.marker()
		}
		var r bool
		switch f {
		case "lt":
			r = x < y
		case "gt":
			r = x > y
		case "lte":
			r = x <= y
		case "gte":
			r = x >= y
		}
		if r {
			return "1"
		}
		return ""
	// "Evaluates arguments in-order, choosing the first non-empty result."
	case "coalesce":
		for i := range a {
			if v := m.eval(a[i], e); v != "" {
				return v
			}
		}
		return ""
	case "if":
		if truthy(m.eval(a[0], e)) {
			return m.eval(a[1], e)
		}
		if len(a) > 2 {
			return m.eval(a[2], e)
		}
		return ""
	}
	panic("harness: unknown helper " + f)
}

// run evaluates the tree under one reading. It returns the value, or the
// exclusion class when the case leaves the documented domain.
func runModel(tree *Node, e *env, rd reading, obs *pbt.Obs) (val string, skipped string, touched map[string]bool) {
	m := &model{rd: rd, obs: obs, touched: map[string]bool{}}
	defer func() {
		if r := recover(); r != nil {
			if s, ok := r.(skip); ok {
				skipped = s.class
				touched = m.touched
				return
			}
			panic(r)
		}
	}()
	val = m.eval(tree, e)
	return val, "", m.touched
}

// acceptable reports whether got is the value of the tree under some reading.
func acceptable(tree *Node, e *env, got string) (bool, string) {
	ok := false
	which := ""
	allReadings(func(rd reading) bool {
		v, sk, _ := runModel(tree, e, rd, nil)
		if sk == "" && v == got {
			ok = true
			which = fmt.Sprintf("%+v", rd)
			return false
		}
		return true
	})
	return ok, which
}

func showList(enc string) string {
	l := decode(enc)
	parts := make([]string, len(l))
	for i, x := range l {
		parts[i] = pbt.Trunc(strconv.Quote(x), 60)
	}
	if len(parts) > 24 {
		parts = append(parts[:24], fmt.Sprintf("…(%d elements)", len(l)))
	}
	return "[" + strings.Join(parts, " ") + "]"
}
