// C17, "history": the value of an expression is a function of the expression
// and the match - never of what was compiled or evaluated before it.
//
// The array helpers evaluate their sub-expressions through pooled
// sub-contexts. The documentation binds {0} (element) in @map / @filter,
// {0}/{1} (memo, value) in @reduce and {0}/{1} (value, index) in @for; a
// group a helper does not bind is empty there, like any group a match does not
// have. A pooled object that keeps a value of its previous borrower makes
// such a group read as the last element of some earlier @reduce or the last
// index of some earlier @for - and the earlier evaluation may even be the one
// the optimiser performs while compiling a constant stage.
//
// A case is therefore a sequence of steps run in one process: each step
// compiles a template (one or two helper calls with literal text between
// them; the optimised builder folds the constant stages right there) and
// evaluates it; early steps are biased to @reduce / @for (constant ones too),
// later ones to @map / @filter whose sub-expressions read {1} / {2} directly
// and through scalar helpers ({coalesce {1} x}, {not {1}}, {if {1} ..}).
// The reference interpreter evaluates every step on its own.
package c17

import (
	"fmt"
	"strconv"
	"strings"
	"sync"
	"testing"

	"pgregory.net/rapid"
	"rare/pkg/expressions"
	"rare/pkg/expressions/stdlib"
	"verifharness/pbt"
)

// ---------- a fixed prelude: leave values in the pooled sub-contexts ---------

// preludeTpl nests five @reduce and one @for, each evaluated once or twice, so
// that six pooled sub-contexts have been borrowed at the same time and every
// one of them has bound a non-empty {0} and {1}. It is evaluated (not folded:
// plain builder) before every generated `ops` case and before the first step
// of a `history` case, which makes the verdict of a case independent of the
// cases that ran before it in the same process - and any value that survives
// in a pooled object visible to the very next helper, also in a replay.
const preludeTpl = `{@reduce {@ p1 q1} {@reduce {@ p2 q2} {@reduce {@ p3 q3} {@reduce {@ p4 q4} {@reduce {@ p5 q5} {@for {1} {lt {1} 2} {0}{1}}}}}}}`

const preludeWant = "q5\x00q50"

var (
	preludeOnce sync.Once
	preludeKB   *expressions.CompiledKeyBuilder
	preludeErr  error
)

func runPrelude() error {
	preludeOnce.Do(func() {
		kb, err := stdlib.NewStdKeyBuilderEx(false).Compile(preludeTpl)
		if err != nil {
			preludeErr = fmt.Errorf("valid template rejected by Compile: %s\n  error: %v", preludeTpl, err)
			return
		}
		preludeKB = kb
	})
	if preludeErr != nil {
		return preludeErr
	}
	got, perr := safeBuild(preludeKB, &expressions.KeyBuilderContextArray{})
	if perr != nil {
		return fmt.Errorf("%v\n  template: %s", perr, preludeTpl)
	}
	if got != preludeWant {
		// @for {1}=q5: [q5, q50]; every @reduce of two elements is its
		// sub-expression evaluated once
		return fmt.Errorf("result differs from the list semantics\n  template: %s\n   got: %q %s\n  want: %q %s", preludeTpl, got, showList(got), preludeWant, showList(preludeWant))
	}
	return nil
}

// ---------- history -----------------------------------------------------------

type HistStep struct {
	Tpl        string  // printed template, for the reader
	Trees      []*Node // the helper calls of the template, in order
	Sep        string  // literal text between them
	Ctx        int     // index of the match in HistCase.Ctxs
	PlainFirst bool    // evaluate the unoptimised builder before the optimised one
	Rounds     int
}

func (s HistStep) tpl() string {
	parts := make([]string, len(s.Trees))
	for i, t := range s.Trees {
		parts[i] = t.top()
	}
	return strings.Join(parts, s.Sep)
}

type HistCase struct {
	Steps []HistStep
	Ctxs  []Ctx
	Obs   *pbt.Obs `json:"-"`
}

// modelSeq: the documented value of a multi-call template under one reading.
func modelSeq(st HistStep, e *env, rd reading, obs *pbt.Obs) (string, string) {
	vals := make([]string, len(st.Trees))
	for i, tr := range st.Trees {
		v, sk, _ := runModel(tr, e, rd, obs)
		if sk != "" {
			return "", sk
		}
		vals[i] = v
	}
	return strings.Join(vals, st.Sep), ""
}

func acceptableSeq(st HistStep, e *env, got string) bool {
	ok := false
	allReadings(func(rd reading) bool {
		v, sk := modelSeq(st, e, rd, nil)
		if sk == "" && v == got {
			ok = true
			return false
		}
		return true
	})
	return ok
}

// constTree: no lookup in the match - the optimiser evaluates the stage when
// compiling. ({0}/{1} inside a sub-expression are the helper's own bindings.)
func constTree(t *Node) bool {
	c := true
	t.walk(func(n *Node, _ int, inSub bool) {
		if n.T == "key" || (n.T == "grp" && !inSub) {
			c = false
		}
	}, 0, false)
	return c
}

func checkHist(c HistCase) error {
	if len(c.Steps) == 0 || len(c.Ctxs) == 0 {
		return fmt.Errorf("harness: malformed case")
	}
	if err := runPrelude(); err != nil {
		return err
	}
	o := c.Obs
	ran := 0
	leftBehind := false // an earlier step bound a non-empty {1} in a pooled sub-context
	var trail []string
	for si, st := range c.Steps {
		if st.Ctx < 0 || st.Ctx >= len(c.Ctxs) || len(st.Trees) == 0 {
			return fmt.Errorf("harness: malformed step %d", si)
		}
		cx := c.Ctxs[st.Ctx]
		e := cx.env()
		so := pbt.NewObs()
		want, sk := modelSeq(st, e, reading{}, so)
		if sk != "" {
			// outside the documented domain: the step is left out altogether
			o.Label(true, "step-skipped")
			continue
		}
		tpl := st.tpl()
		// compiled here, in sequence: the optimised builder evaluates every
		// stage once, with an empty match, and keeps the constant ones
		opt, plain, err := compile(tpl)
		if err != nil {
			bad := false
			for _, tr := range st.Trees {
				bad = bad || hasBadConstNum(tr)
			}
			if strings.Contains(err.Error(), "invalid arg type") && bad {
				o.Label(true, "step-skipped")
				continue
			}
			return err
		}
		rc := cx.rare()
		kbs := []*expressions.CompiledKeyBuilder{opt, plain}
		names := []string{"optimised", "plain"}
		if st.PlainFirst {
			kbs[0], kbs[1] = kbs[1], kbs[0]
			names[0], names[1] = names[1], names[0]
		}
		rounds := st.Rounds
		if rounds < 1 {
			rounds = 1
		}
		trail = append(trail, fmt.Sprintf("step %d: %s", si, tpl))
		for r := 0; r < rounds; r++ {
			for k, kb := range kbs {
				got, perr := safeBuild(kb, rc)
				if perr != nil {
					return fmt.Errorf("%v\n  template: %s\n  match:%s\n  evaluated before, in this order:\n    %s", perr, tpl, cx, strings.Join(trail, "\n    "))
				}
				if got == want {
					continue
				}
				if acceptableSeq(st, e, got) {
					o.Label(true, "accepted-under-another-reading")
					continue
				}
				return fmt.Errorf("result differs from the list semantics, which do not depend on what was evaluated before (%s builder, step %d of %d, round %d)\n  template: %s\n  match:%s\n   got: %s %s\n  want: %s %s\n  compiled and evaluated in this order (after the fixed prelude %s):\n    %s",
					names[k], si, len(c.Steps), r, tpl, cx, strconv.Quote(got), showList(got), strconv.Quote(want), showList(want), preludeTpl, strings.Join(trail, "\n    "))
			}
		}
		ran++
		reads := so.Has("unbound-group-in-sub-expression")
		o.Label(reads, "step-reads-unbound-group")
		o.Label(so.Has("unbound-{1}-in-map/filter"), "unbound-{1}-in-map/filter")
		o.Label(reads && leftBehind, "unbound-read-after-reduce/for-step")
		leaves := so.Has("reduce-binds-{1}") || so.Has("for-binds-{1}")
		if leaves {
			leftBehind = true
			o.Label(true, "step-leaves-{1}")
			for _, tr := range st.Trees {
				o.Label(constTree(tr) && leavesStatic(tr), "constant-reduce/for-folded-when-compiling")
			}
		}
		o.Label(reads && leaves, "same-template-reduce/for-and-unbound-read")
		o.Label(len(st.Trees) > 1, "multi-stage-template")
	}
	o.Add("ran", ran)
	if ran == 0 {
		pbt.Exclude("every step outside the documented domain")
		o.Label(true, "skipped")
	}
	return nil
}

func leavesStatic(t *Node) bool {
	f := false
	t.walk(func(n *Node, _ int, _ bool) {
		if n.T == "call" && (n.S == "@reduce" || n.S == "@for") {
			f = true
		}
	}, 0, false)
	return f
}

func classifyHist(c HistCase) (bool, []string) {
	o := c.Obs
	if o.Has("skipped") {
		return false, []string{"skipped-outside-documented-domain"}
	}
	var l pbt.Labels
	l = append(l, o.All()...)
	l.Add(o.Get("ran") >= 3, "steps>=3")
	nt := o.Has("unbound-read-after-reduce/for-step") || o.Has("same-template-reduce/for-and-unbound-read")
	return nt, l
}

// leaver: a helper call that binds {1} in a pooled sub-context: @reduce or
// @for, over constants (folded when compiling) or over the match.
func (g *gen) leaver(sc scope, depth int) *Node {
	switch g.n(0, 6, "leaver") {
	case 0, 1: // constant @reduce
		var l *Node
		ty := tAscii
		switch g.n(0, 2, "leavelist") {
		case 0:
			l, ty = call("@range", lit(itoa(g.n(1, 4, "lr0"))), lit(itoa(g.n(5, 9, "lr1")))), tNum
		case 1:
			n := g.n(2, 5, "lln")
			args := make([]*Node, n)
			for i := range args {
				args[i] = lit(g.pick(words, "llw"))
			}
			l = call(g.pick([]string{"@", "$"}, "arr"), args...)
		default:
			l = call("@split", lit(g.pick([]string{"a,b,c", "joe,is,cool", "1,2,3", "x,,y"}, "lls")), lit(","))
		}
		return g.reduce(scope{}, 1, l, ty)
	case 2: // @reduce over a list of the match
		l, ty := g.list(sc, depth-1)
		return g.reduce(sc, depth-1, l, ty)
	case 3, 4:
		n, _ := g.forOf(sc, depth-1)
		return n
	case 5: // inside another helper's sub-expression
		l, ty := g.list(sc, depth-1)
		inner := scope{v0: ty, free: freeMap, hot: sc.hot}
		return call("@map", l, g.reduce(inner, 1, g.constList(), tAscii))
	default:
		return call("@len", g.leaverList(sc, depth))
	}
}

func (g *gen) leaverList(sc scope, depth int) *Node {
	n, _ := g.forOf(sc, depth-1)
	return n
}

// reader: @map / @filter whose sub-expression looks at a group it does not
// bind, directly, through a scalar helper, or from a helper nested in it.
func (g *gen) reader(sc scope, depth int) *Node {
	l, ty := g.list(sc, depth-1)
	inner := scope{v0: ty, free: freeMap, hot: true}
	if g.p(55, "readmap") {
		var f *Node
		switch g.n(0, 5, "readf") {
		case 0:
			f = cat(grp(0), lit(g.pick([]string{":", "", "-"}, "rsep")), g.freeGrp(inner))
		case 1, 2:
			f = g.unboundRead(inner, tAny)
		case 3: // a helper nested in the sub-expression reads its own {1}
			in := call("@map", g.constList(), cat(grp(0), g.freeGrp(inner)))
			f = g.withDelim("@join", in, g.pick([]string{"+", ",", " "}, "rjoin"))
		case 4:
			f = call("if", g.freeGrp(inner), g.freeGrp(inner), grp(0))
		default:
			f = g.scalar(inner, depth-1, tAny)
		}
		return call("@map", l, g.quoteMaybe(f))
	}
	var f *Node
	switch g.n(0, 5, "readp") {
	case 0:
		f = call("not", g.freeGrp(inner))
	case 1:
		f = call("coalesce", g.freeGrp(inner), grp(0))
	case 2:
		f = call("if", g.freeGrp(inner), lit(""), grp(0))
	case 3:
		f = g.freeGrp(inner) // drops every element
	case 4:
		f = call("eq", g.freeGrp(inner), lit(""))
	default:
		f = g.pred(inner, depth-1)
	}
	return call("@filter", l, g.quoteMaybe(f))
}

func genHist(t *rapid.T) HistCase {
	g := &gen{t: t}
	g.fl0 = g.pick([]string{tNum, tAscii, tAscii, tAny}, "fl0")
	g.flL = g.pick([]string{tNum, tAscii, tAny, tAny}, "flL")
	g.delim = g.pick(delims, "casedelim")
	c := HistCase{Obs: pbt.NewObs()}
	c.Ctxs = append(c.Ctxs, g.context())
	if g.p(40, "twoctx") {
		c.Ctxs = append(c.Ctxs, g.context())
	}
	sc := scope{top: true}
	call1 := func(i int) *Node {
		k := g.n(0, 9, "stepkind")
		switch {
		case i == 0 && k < 7, i > 0 && k < 3:
			return g.leaver(sc, 2)
		case i > 0 && k < 8:
			return g.reader(sc, 2)
		default:
			return g.root(2)
		}
	}
	n := g.n(2, 5, "steps")
	for i := 0; i < n; i++ {
		st := HistStep{Ctx: g.n(0, len(c.Ctxs)-1, "ctx"), PlainFirst: g.p(30, "plainfirst"), Rounds: 1}
		st.Trees = append(st.Trees, call1(i))
		if g.p(30, "twostage") {
			// {@reduce ..} {@map ..}: two stages of one template; a constant
			// first stage is evaluated when compiling, the second with the match
			st.Sep = g.pick([]string{" ", "", "|", " - ", "\t"}, "stagesep")
			st.Trees = append(st.Trees, call1(i+1))
		}
		if g.p(15, "rounds") {
			st.Rounds = 2
		}
		st.Tpl = st.tpl()
		c.Steps = append(c.Steps, st)
	}
	return c
}

var histSpec = pbt.Spec[HistCase]{
	Property: "C17", Name: "history",
	Rule: "sequences of 2..5 steps in one process, after a fixed prelude that leaves non-empty {0}/{1} in six pooled sub-contexts: each step compiles a template of 1..2 helper calls separated by literal text (optimised builder: constant stages are evaluated right then) and evaluates it on one of 1..2 matches, optimised and plain in either order; first steps biased to @reduce/@for (constant lists, lists of the match, nested in @map), later steps to @map/@filter whose sub-expression reads the groups it does not bind ({1}, {2}) directly, through {coalesce not if eq len sumi} or from a nested helper; oracle = the []string interpreter of `ops`, each step evaluated on its own (a group a helper does not bind is empty). Non-trivial: a step reads an unbound group after (or in the same template as) a @reduce/@for that bound a non-empty {1}; distinct by case JSON",
	Budget: pbt.Budget{Quick: 30000, Thorough: 1000000},
	Gen:    genHist, Check: checkHist, Classify: classifyHist,
}

func TestHistory(t *testing.T) { pbt.Run(t, histSpec) }
