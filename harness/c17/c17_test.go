// C17 — array helpers obey list semantics.
//
// Sub-properties:
//
//	ops        generated expression trees over all array helpers (nested, with
//	           sub-expressions using {0}/{1} and named keys), evaluated from
//	           1..8 goroutines on one shared compiled expression, against the
//	           []string reference interpreter of model_test.go
//	roundtrip  @join∘@split = identity, @split = reference split, @len counts,
//	           @split∘@join = identity where the text allows it (rapid)
//	splitenum  the same, bounded-exhaustive over short texts and delimiters
//	index      @select / @slice for every list over a tiny alphabet and every
//	           index / length in and out of range (bounded-exhaustive)
//	gen        @range / @for against the documented sequences (bounded-exhaustive)
//	history    sequences of templates compiled and evaluated one after the
//	           other: the value of each is independent of what ran before
//	           (history_test.go); after-inf: the same around an endless @for
package c17

import (
	"fmt"
	"math"
	"sort"
	"strconv"
	"strings"
	"sync"
	"testing"

	"pgregory.net/rapid"
	"rare/pkg/expressions"
	"rare/pkg/expressions/stdlib"
	"verifharness/pbt"
)

// ---------- evaluation against rare ------------------------------------

type KV struct {
	K string
	V pbt.S
}

// Ctx is one match: numbered groups and named keys.
type Ctx struct {
	G []pbt.S
	K []KV
}

func (c Ctx) env() *env {
	e := &env{keys: map[string]string{}}
	for _, g := range c.G {
		e.grp = append(e.grp, string(g))
	}
	for _, kv := range c.K {
		e.keys[kv.K] = string(kv.V)
	}
	return e
}

func (c Ctx) rare() expressions.KeyBuilderContext {
	r := &expressions.KeyBuilderContextArray{Keys: map[string]string{}}
	for _, g := range c.G {
		r.Elements = append(r.Elements, string(g))
	}
	for _, kv := range c.K {
		r.Keys[kv.K] = string(kv.V)
	}
	return r
}

func (c Ctx) String() string {
	var sb strings.Builder
	for i, g := range c.G {
		fmt.Fprintf(&sb, " {%d}=%s", i, showVal(string(g)))
	}
	for _, kv := range c.K {
		fmt.Fprintf(&sb, " {%s}=%s", kv.K, showVal(string(kv.V)))
	}
	return sb.String()
}

func showVal(s string) string {
	if strings.Contains(s, nul) {
		return showList(s)
	}
	return pbt.Trunc(strconv.Quote(s), 120)
}

// compile builds the template with rare's standard helpers, optimised and
// not. A template generated here is valid by the documentation, so a compile
// error is a violation.
func compile(tpl string) (opt, plain *expressions.CompiledKeyBuilder, err error) {
	opt, e1 := stdlib.NewStdKeyBuilder().Compile(tpl)
	if e1 != nil {
		return nil, nil, fmt.Errorf("valid template rejected by Compile: %s\n  error: %v", tpl, e1)
	}
	plain, e2 := stdlib.NewStdKeyBuilderEx(false).Compile(tpl)
	if e2 != nil {
		return nil, nil, fmt.Errorf("valid template rejected by Compile (no optimisation): %s\n  error: %v", tpl, e2)
	}
	return opt, plain, nil
}

// hasBadConstNum: some typed numeric helper of the tree has an argument that
// rare can take for a constant (evaluating it alone performs no lookup in
// the match - e.g. {@range abc {2}} gives up before it reads {2}) and whose
// value is not a number. rare pre-parses constant arguments of those helpers
// and reports a non-number when compiling.
func hasBadConstNum(t *Node) bool {
	found := false
	t.walk(func(n *Node, _ int, _ bool) {
		if found || n.T != "call" {
			return
		}
		switch string(n.S) {
		case "sumi", "subi", "multi", "maxi", "mini", "lt", "gt", "lte", "gte":
		default:
			return
		}
		for _, a := range n.A {
			switch a.T {
			case "lit":
				if !canonInt.MatchString(string(a.S)) {
					found = true
				}
			case "call":
				q := a.Q
				a.Q = false
				kb, err := stdlib.NewStdKeyBuilderEx(false).Compile(a.arg())
				a.Q = q
				if err != nil || kb == nil {
					continue // reported (and judged) at the inner helper
				}
				cc := &countingCtx{}
				v, perr := safeBuild(kb, cc)
				if perr == nil && cc.n == 0 && !canonInt.MatchString(v) {
					found = true
				}
			}
		}
	}, 0, false)
	return found
}

type countingCtx struct{ n int }

func (c *countingCtx) GetMatch(int) string  { c.n++; return "" }
func (c *countingCtx) GetKey(string) string { c.n++; return "" }

func safeBuild(kb *expressions.CompiledKeyBuilder, ctx expressions.KeyBuilderContext) (out string, err error) {
	defer func() {
		if r := recover(); r != nil {
			err = fmt.Errorf("panic during evaluation: %v", r)
		}
	}()
	return kb.BuildKey(ctx), nil
}

// ---------- ops ------------------------------------------------------------

type OpsCase struct {
	Tpl    string // the printed template, for the reader (the oracle prints Tree itself)
	Tree   *Node
	Ctxs   []Ctx // one per goroutine
	Rounds int
	Obs    *pbt.Obs `json:"-"`
}

func checkOps(c OpsCase) error {
	if c.Tree == nil || len(c.Ctxs) == 0 {
		return fmt.Errorf("harness: malformed case")
	}
	tpl := c.Tree.top()
	// every case starts from the same state of the sub-context pool: six
	// pooled objects that have just bound non-empty {0}/{1} (history_test.go)
	if err := runPrelude(); err != nil {
		return err
	}
	// reference values first: a case outside the documented domain is not run
	want := make([]string, len(c.Ctxs))
	envs := make([]*env, len(c.Ctxs))
	for i, cx := range c.Ctxs {
		envs[i] = cx.env()
		var obs *pbt.Obs
		if i == 0 {
			obs = c.Obs
		}
		v, sk, _ := runModel(c.Tree, envs[i], reading{}, obs)
		if sk != "" {
			pbt.Exclude(sk)
			c.Obs.Label(true, "skipped")
			return nil
		}
		want[i] = v
	}
	opt, plain, err := compile(tpl)
	if err != nil {
		if strings.Contains(err.Error(), "invalid arg type") && hasBadConstNum(c.Tree) {
			// a constant sub-tree with a non-numeric value (a deliberately bad
			// @range constant, a @reduce that concatenates text) is a whole
			// argument of a typed helper: rare reports that when compiling
			// ("invalid arg type, expected int") - an error report, not a
			// wrong list
			pbt.Exclude("constant non-numeric argument of a typed numeric helper: compile-time type error")
			c.Obs.Label(true, "skipped")
			return nil
		}
		return err
	}
	rounds := c.Rounds
	if rounds < 1 {
		rounds = 1
	}
	judge := func(i, round int, which string, got string, perr error) error {
		if perr != nil {
			return fmt.Errorf("%v\n  template: %s\n  match %d:%s", perr, tpl, i, c.Ctxs[i])
		}
		if got == want[i] {
			return nil
		}
		if ok, rd := acceptable(c.Tree, envs[i], got); ok {
			c.Obs.Label(true, "accepted-under-another-reading")
			_ = rd
			return nil
		}
		return fmt.Errorf("result differs from the list semantics (%s builder, goroutine %d of %d, round %d)\n  template: %s\n  match:%s\n   got: %s %s\n  want: %s %s",
			which, i, len(c.Ctxs), round, tpl, c.Ctxs[i], strconv.Quote(got), showList(got), strconv.Quote(want[i]), showList(want[i]))
	}
	if len(c.Ctxs) == 1 {
		rc := c.Ctxs[0].rare()
		for r := 0; r < rounds; r++ {
			got, perr := safeBuild(opt, rc)
			if err := judge(0, r, "optimised", got, perr); err != nil {
				return err
			}
			got, perr = safeBuild(plain, rc)
			if err := judge(0, r, "plain", got, perr); err != nil {
				return err
			}
		}
		return nil
	}
	// several goroutines share the compiled expressions (and with them the
	// sub-context pool); each has its own match
	var wg sync.WaitGroup
	errs := make([]error, len(c.Ctxs))
	start := make(chan struct{})
	for i := range c.Ctxs {
		wg.Add(1)
		go func(i int) {
			defer wg.Done()
			rc := c.Ctxs[i].rare()
			<-start
			for r := 0; r < rounds; r++ {
				kb, which := opt, "optimised"
				if (r+i)%2 == 1 {
					kb, which = plain, "plain"
				}
				got, perr := safeBuild(kb, rc)
				if got != want[i] || perr != nil {
					if err := judge(i, r, which, got, perr); err != nil {
						errs[i] = err
						return
					}
				}
			}
		}(i)
	}
	close(start)
	wg.Wait()
	for _, e := range errs {
		if e != nil {
			return e
		}
	}
	return nil
}

var arrayHelpers = []string{"@", "$", "@len", "@split", "@join", "@select", "@slice", "@map", "@filter", "@reduce", "@in", "@range", "@for"}

func isArrayHelper(f string) bool {
	for _, h := range arrayHelpers {
		if h == f {
			return true
		}
	}
	return false
}

func classifyOps(c OpsCase) (bool, []string) {
	var l pbt.Labels
	o := c.Obs
	if o.Has("skipped") {
		return false, []string{"skipped-outside-documented-domain"}
	}
	l = append(l, o.All()...)
	nested, quoted, depth := false, false, 0
	c.Tree.walk(func(n *Node, d int, inSub bool) {
		if n.T == "call" && isArrayHelper(string(n.S)) {
			if inSub {
				nested = true
			}
			if d > depth {
				depth = d
			}
		}
		if n.T == "call" && n.Q {
			quoted = true
		}
	}, 0, false)
	l.Add(nested, "array-helper-inside-sub-expression")
	l.Add(quoted, "quoted-sub-expression")
	l.Add(len(c.Ctxs) > 1, "goroutines>1")
	l.Add(len(c.Ctxs) >= 4, "goroutines>=4")
	l.Add(depth >= 2, "helper-depth>=2")
	special := o.Has("empty-element") || o.Has("blank-element") || o.Has("non-ascii-element") || o.Has("for-first-element-empty")
	l.Add(o.Has("unbound-group-in-sub-expression") && (o.Has("op:@reduce") || o.Has("op:@for")), "unbound-read-with-reduce/for-in-same-tree")
	twist := o.Has("multi-byte-delim") || o.Has("negative-index") || o.Has("index-out-of-range") || o.Has("named-key-in-sub-expression") || nested || len(c.Ctxs) > 1
	nt := o.Get("maxlen") >= 3 && special && twist
	l.Add(o.Get("maxlen") >= 3, "list>=3")
	return nt, l
}

func genOps(t *rapid.T) OpsCase {
	g := &gen{t: t}
	g.fl0 = g.pick([]string{tNum, tAscii, tAscii, tAny}, "fl0")
	g.flL = g.pick([]string{tNum, tAscii, tAny, tAny}, "flL")
	g.delim = g.pick(delims, "casedelim")
	depth := 2
	if g.p(35, "deep") {
		depth = 3
	}
	c := OpsCase{Obs: pbt.NewObs()}
	c.Tree = g.root(depth)
	c.Tpl = c.Tree.top()
	w := 1
	if g.p(40, "parallel") {
		w = g.n(2, 8, "workers")
	}
	for i := 0; i < w; i++ {
		c.Ctxs = append(c.Ctxs, g.context())
	}
	c.Rounds = 1
	if w > 1 {
		c.Rounds = g.n(1, 40, "rounds")
	} else if g.p(20, "repeat") {
		c.Rounds = g.n(2, 4, "rounds")
	}
	return c
}

var opsSpec = pbt.Spec[OpsCase]{
	Property: "C17", Name: "ops",
	Rule: "typed expression trees (depth<=3 helper nesting, sub-expressions nested to depth 2) over {@ $ @len @split @join @select @slice @map @filter @reduce @in @range @for} + scalar helpers {upper lower len sumi subi multi maxi mini isint isnum eq neq not lt gt lte gte if}, constants from a safe alphabet, data through groups {0}..{3} and keys {L k n ns o s}: lists of 0..14 elements incl. empty/blank/multi-byte/invalid-UTF-8/delimiter-piece elements, 18 delimiters of 1..7 bytes; sub-expressions also read the groups their helper does not bind ({1},{2} in @map/@filter, {2} in @reduce/@for: empty) directly and through {coalesce not if eq len}; @slice/@select indexes and lengths also at the ends of the integer range; every case runs after a fixed prelude that leaves non-empty {0}/{1} in six pooled sub-contexts; 1..8 goroutines x 1..40 rounds on one compiled expression (optimised and plain), each goroutine with its own match; oracle = []string interpreter written from the docs, every open reading accepted. Non-trivial: some helper saw a list of >=3 elements AND an empty/blank/non-ASCII element AND (multi-byte delimiter OR negative/out-of-range index OR named key in a sub-expression OR array helper inside a sub-expression OR >1 goroutine); distinct by case JSON",
	Budget: pbt.Budget{Quick: 200000, Thorough: 5000000},
	Gen:    genOps, Check: checkOps, Classify: classifyOps,
}

func TestOps(t *testing.T) { pbt.Run(t, opsSpec) }

// ---------- roundtrip --------------------------------------------------------

type RTCase struct {
	S     pbt.S   // text to split
	D     string  // delimiter (template-safe, non-empty)
	Elems []pbt.S // a list to join and split again
	Obs   *pbt.Obs `json:"-"`
}

func delimArg(d string, omitDefault bool) string {
	if d == " " && omitDefault {
		return ""
	}
	return ` "` + d + `"`
}

func checkRT(c RTCase) error {
	d := c.D
	if d == "" || !safeLit(d) {
		return fmt.Errorf("harness: delimiter %q outside the generated domain", d)
	}
	s := string(c.S)
	if strings.Contains(s, nul) {
		return fmt.Errorf("harness: text holds NUL")
	}
	ref := strings.Split(s, d)
	for _, omit := range []bool{false, true} {
		da := delimArg(d, omit)
		if omit && d != " " {
			continue
		}
		ctx := &expressions.KeyBuilderContextArray{Elements: []string{s, encode(pbt.Strs(c.Elems))}}
		type probe struct {
			tpl, want, what string
		}
		wantLen := itoa(len(ref))
		if s == "" {
			wantLen = "0" // "Empty "" returns 0"
		}
		probes := []probe{
			{"{@join {@split {0}" + da + "}" + da + "}", s, "@join(@split(s,d),d) must be s"},
			{"{@split {0}" + da + "}", encode(ref), "@split(s,d) must be the elements between the delimiters"},
			{"{@len {@split {0}" + da + "}}", wantLen, "@len must count the elements"},
		}
		// the other direction, where the joined text splits back uniquely
		elems := pbt.Strs(c.Elems)
		joined := strings.Join(elems, d)
		back := strings.Split(joined, d)
		if len(elems) == 0 {
			back = nil
		}
		clean := len(back) == len(elems)
		for i := range elems {
			if strings.Contains(elems[i], nul) {
				return fmt.Errorf("harness: element holds NUL")
			}
			clean = clean && back[i] == elems[i]
		}
		probes = append(probes, probe{"{@join {1}" + da + "}", joined, "@join(L,d) must be the elements separated by d"})
		if clean {
			c.Obs.Label(true, "split-join-exact")
			probes = append(probes, probe{"{@split {@join {1}" + da + "}" + da + "}", encode(elems), "@split(@join(L,d),d) must be L (no element holds d)"})
		} else {
			probes = append(probes, probe{"{@split {@join {1}" + da + "}" + da + "}", encode(back), "@split(@join(L,d),d) must be the reference split of the joined text"})
		}
		for _, p := range probes {
			opt, plain, err := compile(p.tpl)
			if err != nil {
				return err
			}
			for _, kb := range []*expressions.CompiledKeyBuilder{opt, plain} {
				got, perr := safeBuild(kb, ctx)
				if perr != nil {
					return fmt.Errorf("%v\n  template: %s\n  s=%q d=%q L=%s", perr, p.tpl, s, d, showList(encode(elems)))
				}
				if got != p.want {
					return fmt.Errorf("%s\n  template: %s\n  s=%q d=%q L=%s\n   got: %q %s\n  want: %q %s", p.what, p.tpl, s, d, showList(encode(elems)), got, showList(got), p.want, showList(p.want))
				}
			}
		}
	}
	o := c.Obs
	o.Add("parts", len(ref))
	o.Label(len(d) > 1, "multi-byte-delim")
	o.Label(!ascii(d), "non-ascii-delim")
	o.Label(strings.Contains(s, d+d), "adjacent-delims")
	o.Label(strings.HasPrefix(s, d), "leading-delim")
	o.Label(strings.HasSuffix(s, d) && s != d, "trailing-delim")
	o.Label(len(d) > 1 && strings.Count(s, d[:1]) > strings.Count(s, d), "delimiter-prefix-in-text")
	o.Label(selfOverlap(d) && strings.Contains(s, d), "self-overlapping-delim")
	o.Label(strings.ToValidUTF8(s, "") != s, "invalid-utf8-text")
	for _, p := range ref {
		o.Label(p == "" && len(ref) > 1, "empty-element")
	}
	return nil
}

func selfOverlap(d string) bool {
	for k := 1; k < len(d); k++ {
		if strings.HasSuffix(d, d[:k]) {
			return true
		}
	}
	return false
}

func classifyRT(c RTCase) (bool, []string) {
	o := c.Obs
	nt := o.Get("parts") >= 3 && (o.Has("empty-element") || o.Has("delimiter-prefix-in-text")) && o.Has("multi-byte-delim")
	return nt, o.All()
}

var delimRunes = []string{"a", "b", ",", ":", " ", "→", "é", "-", "\t", "|", "日", ";", "="}

func genRT(t *rapid.T) RTCase {
	c := RTCase{Obs: pbt.NewObs()}
	if rapid.IntRange(0, 9).Draw(t, "pooldelim") < 5 {
		c.D = rapid.SampledFrom(delims).Draw(t, "delim")
	} else {
		n := rapid.IntRange(1, 4).Draw(t, "dn")
		for i := 0; i < n; i++ {
			c.D += rapid.SampledFrom(delimRunes).Draw(t, "dr")
		}
	}
	d := c.D
	// text: tokens biased to the delimiter, its pieces (byte level: a cut may
	// fall inside a multi-byte rune), and a few other bytes
	toks := []string{d, d, d, d[:1], d[len(d)-1:], d[:len(d)/2], d[len(d)/2:], "a", "b", "", " ", "x", "é", "\xff", "日"}
	var sb strings.Builder
	n := rapid.IntRange(0, 12).Draw(t, "sn")
	for i := 0; i < n; i++ {
		sb.WriteString(rapid.SampledFrom(toks).Draw(t, "tok"))
	}
	c.S = pbt.S(sb.String())
	m := rapid.IntRange(0, 8).Draw(t, "ln")
	for i := 0; i < m; i++ {
		var e string
		switch k := rapid.IntRange(0, 9).Draw(t, "ec"); {
		case k < 2:
			e = ""
		case k < 4:
			e = rapid.SampledFrom([]string{d[:len(d)/2], d[len(d)/2:], d[:1], d, " "}).Draw(t, "ep")
		case k < 6:
			e = rapid.SampledFrom(oddElems).Draw(t, "eo")
		default:
			e = rapid.SampledFrom(words).Draw(t, "ew")
		}
		c.Elems = append(c.Elems, pbt.S(e))
	}
	return c
}

var rtSpec = pbt.Spec[RTCase]{
	Property: "C17", Name: "roundtrip",
	Rule: "text of 0..12 tokens biased to the delimiter, its byte-level pieces and adjacent repeats (incl. invalid UTF-8) x delimiter from an 18-entry pool or 1..4 random runes (1..12 bytes) x list of 0..8 elements; oracle: @join(@split(s,d),d)==s, @split(s,d)==reference split, @len==count (\"\"->0), @join(L,d)==Join, @split(@join(L,d),d)==L when no element holds d (else the reference split); default delimiter also omitted. Non-trivial: >=3 parts, an empty element or a delimiter prefix in the text, and a multi-byte delimiter",
	Budget: pbt.Budget{Quick: 60000, Thorough: 1500000},
	Gen:    genRT, Check: checkRT, Classify: classifyRT,
}

func TestRoundTrip(t *testing.T) { pbt.Run(t, rtSpec) }

// TestSplitExhaustive: every text of length <= L over {a, b, →} against every
// delimiter of a pool built from the same symbols.
func TestSplitExhaustive(t *testing.T) {
	L := 6
	if pbt.Thorough() {
		L = 8
	}
	sp := rtSpec
	sp.Name = "splitenum"
	sp.Rule = fmt.Sprintf("bounded-exhaustive: all texts of length<=%d over {a,b,→} x delimiters {a,b,→,aa,ab,ba,aba,aab,abab,→a,a→,→→}; same oracle as roundtrip (the text also serves as the list, split on 'b'); non-trivial: >=3 parts", L)
	sp.Classify = func(c RTCase) (bool, []string) { return c.Obs.Get("parts") >= 3, nil }
	sym := []string{"a", "b", "→"}
	ds := []string{"a", "b", "→", "aa", "ab", "ba", "aba", "aab", "abab", "→a", "a→", "→→"}
	pbt.Enum(t, sp, func(yield func(RTCase) bool) {
		for n := 0; n <= L; n++ {
			total := 1
			for i := 0; i < n; i++ {
				total *= 3
			}
			for v := 0; v < total; v++ {
				var sb strings.Builder
				x := v
				for i := 0; i < n; i++ {
					sb.WriteString(sym[x%3])
					x /= 3
				}
				s := sb.String()
				for _, d := range ds {
					c := RTCase{S: pbt.S(s), D: d, Elems: pbt.SS(strings.Split(s, "b")), Obs: pbt.NewObs()}
					if !yield(c) {
						return
					}
				}
			}
		}
	})
}

// ---------- index: @select / @slice, bounded-exhaustive ---------------------

type IdxCase struct {
	L      []pbt.S
	Op     string // select | slice
	I      int    // index / begin
	N      int    // length; -1 = not given
	Obs    *pbt.Obs `json:"-"`
}

var (
	idxMu    sync.Mutex
	idxCache = map[string][2]*expressions.CompiledKeyBuilder{}
)

func cached(tpl string) (opt, plain *expressions.CompiledKeyBuilder, err error) {
	idxMu.Lock()
	defer idxMu.Unlock()
	if p, ok := idxCache[tpl]; ok {
		return p[0], p[1], nil
	}
	opt, plain, err = compile(tpl)
	if err == nil {
		idxCache[tpl] = [2]*expressions.CompiledKeyBuilder{opt, plain}
	}
	return
}

func isPrefix(got, l []string) bool {
	if len(got) > len(l) {
		return false
	}
	for i := range got {
		if got[i] != l[i] {
			return false
		}
	}
	return true
}

func checkIdx(c IdxCase) error {
	l := pbt.Strs(c.L)
	for _, e := range l {
		if strings.Contains(e, nul) {
			return fmt.Errorf("harness: element holds NUL")
		}
	}
	enc := encode(l)
	if enc == "" {
		l = nil // the empty list and [""] are the same text
	}
	n := len(l)
	var tpl string
	switch {
	case c.Op == "select":
		tpl = fmt.Sprintf("{@select {0} %d}", c.I)
	case c.N < 0:
		tpl = fmt.Sprintf("{@slice {0} %d}", c.I)
	default:
		tpl = fmt.Sprintf("{@slice {0} %d %d}", c.I, c.N)
	}
	opt, plain, err := cached(tpl)
	if err != nil {
		return err
	}
	ctx := &expressions.KeyBuilderContextArray{Elements: []string{enc}}
	for _, kb := range []*expressions.CompiledKeyBuilder{opt, plain} {
		got, perr := safeBuild(kb, ctx)
		if perr != nil {
			return fmt.Errorf("%v\n  template: %s on %s", perr, tpl, showList(enc))
		}
		fail := func(want string) error {
			return fmt.Errorf("%s on %s\n   got: %q %s\n  want: %s", tpl, showList(enc), got, showList(got), want)
		}
		i := c.I
		if c.Op == "select" {
			// "Selects a single item at an index out of array."
			switch {
			case i >= n || i < -n:
				if got != "" {
					return fail(`"" (no element has that index)`)
				}
			case i >= 0:
				if got != l[i] {
					return fail(strconv.Quote(l[i]))
				}
			default: // documentation silent: from the end, or nothing
				if got != l[n+i] && got != "" {
					return fail(strconv.Quote(l[n+i]) + ` (counted from the end) or ""`)
				}
			}
			continue
		}
		// "Gets a slice of an array. If begin is a negative number, will start from the end."
		switch {
		case n == 0 || i >= n || c.N == 0:
			if got != "" {
				return fail(`"" (no element is indexed)`)
			}
		case i >= -n:
			lo := i
			if lo < 0 {
				lo += n
			}
			hi := n
			if c.N >= 0 && c.N < n-lo { // the elements lo .. lo+N-1 that exist (no addition: N may be MaxInt64)
				hi = lo + c.N
			}
			if got != encode(l[lo:hi]) {
				return fail(showList(encode(l[lo:hi])))
			}
		default:
			// begin lies before the first element: the documentation does
			// not say what is taken, but whatever it is must be a well-formed
			// run of elements from the front of the list, no longer than asked
			g := decode(got)
			if !isPrefix(g, l) {
				return fail("a (possibly empty) run of elements from the front of the list, without stray separators")
			}
			if c.N >= 0 && len(g) > c.N {
				return fail(fmt.Sprintf("at most %d element(s)", c.N))
			}
		}
	}
	o := c.Obs
	o.Add("n", n)
	o.Label(c.I < 0, "negative-index")
	o.Label(c.I >= n || c.I < -n, "index-out-of-range")
	o.Label(c.I < -n, "begin-before-list")
	o.Label(c.I > 1<<30 || c.I < -(1<<30), "astronomic-index")
	o.Label(c.N > 1<<30, "astronomic-length")
	for _, e := range l {
		o.Label(e == "", "empty-element")
	}
	return nil
}

func classifyIdx(c IdxCase) (bool, []string) {
	o := c.Obs
	return o.Get("n") >= 2, append([]string{c.Op}, o.All()...)
}

var (
	farIndexes = []int{-(1 << 62), 1 << 62, math.MinInt64, math.MinInt64 + 1, math.MaxInt64}
	farLengths = []int{1 << 31, 1 << 62, math.MaxInt64 - 1, math.MaxInt64}
)

func TestIndexExhaustive(t *testing.T) {
	L, R := 4, 7
	if pbt.Thorough() {
		L, R = 6, 9
	}
	sp := pbt.Spec[IdxCase]{
		Property: "C17", Name: "index",
		Rule:     fmt.Sprintf("bounded-exhaustive: every list of 0..%d elements over {\"\",a,b} x {@select i, @slice b, @slice b n} x i,b in [-%d,%d] + {-2^62, 2^62, MinInt64, MinInt64+1, MaxInt64} x n in [0,%d] + {2^31, 2^62, MaxInt64-1, MaxInt64}; oracle: in-range = exact element / sub-list (negative begin from the end), out of range = empty, begin before the list = well-formed run from the front, negative @select = from the end or empty; non-trivial: >=2 elements", L, R, R, R),
		Check:    checkIdx, Classify: classifyIdx,
	}
	sym := []string{"", "a", "b"}
	// indexes and lengths near the list, and at the ends of the integer range
	// (begin + length must not be computed in a way that wraps around)
	var begins, lengths []int
	for i := -R; i <= R; i++ {
		begins = append(begins, i)
	}
	begins = append(begins, farIndexes...)
	for m := -1; m <= R; m++ {
		lengths = append(lengths, m)
	}
	lengths = append(lengths, farLengths...)
	pbt.Enum(t, sp, func(yield func(IdxCase) bool) {
		for n := 0; n <= L; n++ {
			total := 1
			for i := 0; i < n; i++ {
				total *= 3
			}
			for v := 0; v < total; v++ {
				l := make([]pbt.S, n)
				x := v
				for i := range l {
					l[i] = pbt.S(sym[x%3])
					x /= 3
				}
				for _, i := range begins {
					if !yield(IdxCase{L: l, Op: "select", I: i, N: -1, Obs: pbt.NewObs()}) {
						return
					}
					for _, m := range lengths {
						if !yield(IdxCase{L: l, Op: "slice", I: i, N: m, Obs: pbt.NewObs()}) {
							return
						}
					}
				}
			}
		}
	})
}

// ---------- gen: @range / @for sequences, bounded-exhaustive ---------------

type SeqCase struct {
	Op    string // range1 | range2 | range3 | for-count | for-value | for-text
	A, B  int    // start, stop / bound
	Step  int
	Start pbt.S  // for-text: first element
	Add   pbt.S  // for-text: text appended each step
	Via   string // const | group | key : how the numbers reach the helper
	Obs   *pbt.Obs `json:"-"`
}

func progression(a, b, step int) []string {
	var out []string
	for i := a; (step > 0 && i < b) || (step < 0 && i > b); i += step {
		out = append(out, itoa(i))
	}
	return out
}

func checkSeq(c SeqCase) error {
	ctx := &expressions.KeyBuilderContextArray{
		Elements: []string{itoa(c.A), itoa(c.B), itoa(c.Step), string(c.Start)},
		Keys:     map[string]string{"a": itoa(c.A), "b": itoa(c.B), "st": itoa(c.Step), "add": string(c.Add), "first": string(c.Start)},
	}
	a, b, st := itoa(c.A), itoa(c.B), itoa(c.Step)
	first, add := "{3}", "{add}"
	switch c.Via {
	case "group":
		a, b, st = "{0}", "{1}", "{2}"
		if strings.HasPrefix(c.Op, "for-") {
			// inside @for's sub-expressions {0}/{1} are the value and the
			// index, so the enclosing match is reached through named keys
			b, st = "{b}", "{st}"
		}
	case "key":
		a, b, st = "{a}", "{b}", "{st}"
		first = "{first}"
	}
	var tpl string
	var accept []string
	var what string
	switch c.Op {
	case "range1": // {@range 5} -> [0,1,2,3,4]
		tpl = "{@range " + b + "}"
		what = "@range stop = 0,1,..,stop-1"
		if c.B < 0 {
			accept = []string{"<VALUE>", ""}
		} else {
			accept = []string{encode(progression(0, c.B, 1))}
		}
	case "range2":
		tpl = "{@range " + a + " " + b + "}"
		what = "@range start stop = start,..,stop-1"
		if c.A > c.B {
			accept = []string{"<VALUE>", ""}
		} else {
			accept = []string{encode(progression(c.A, c.B, 1))}
		}
	case "range3": // {@range 1 10 2} -> [1,3,5,7,9]
		tpl = "{@range " + a + " " + b + " " + st + "}"
		what = "@range start stop incr = start, start+incr, .. before stop"
		switch {
		case c.Step == 0:
			accept = []string{"<VALUE>"} // "eg. range incrementer is 0"
		case (c.Step > 0 && c.A > c.B) || (c.Step < 0 && c.A < c.B):
			accept = []string{"<VALUE>", ""}
		default:
			accept = []string{encode(progression(c.A, c.B, c.Step))}
		}
	case "for-count": // {@for 1 {lt {1} 5} {sumi {0} {0}}}: B elements, doubling from A
		tpl = "{@for " + a + " {lt {1} " + b + "} {sumi {0} {0}}}"
		what = "@for start {lt {1} n} {sumi {0} {0}} = n elements, each twice the one before"
		var out []string
		v := c.A
		for i := 0; i < c.B; i++ {
			out = append(out, itoa(v))
			v += v
		}
		accept = []string{encode(out)}
	case "for-value": // {@for 0 {lt {0} 5} {sumi {0} 1}} -> [0,1,2,3,4]
		if c.Step < 1 {
			return fmt.Errorf("harness: for-value needs a positive step")
		}
		tpl = "{@for " + a + " {lt {0} " + b + "} {sumi {0} " + st + "}}"
		what = "@for start {lt {0} stop} {sumi {0} step} = start, start+step, .. below stop"
		accept = []string{encode(progression(c.A, c.B, c.Step))}
	case "for-text": // B elements: first, first+add, first+add+add ..
		tpl = "{@for " + first + " {lt {1} " + b + "} {0}" + add + "}"
		what = "@for first {lt {1} n} {0}{add} = n elements, each the one before with {add} appended"
		var out []string
		v := string(c.Start)
		for i := 0; i < c.B; i++ {
			out = append(out, v)
			v += string(c.Add)
		}
		accept = []string{encode(out)}
	default:
		return fmt.Errorf("harness: op %q", c.Op)
	}
	opt, plain, err := cached(tpl)
	if err != nil {
		return err
	}
	for _, kb := range []*expressions.CompiledKeyBuilder{opt, plain} {
		got, perr := safeBuild(kb, ctx)
		if perr != nil {
			return fmt.Errorf("%v\n  template: %s a=%d b=%d step=%d first=%q add=%q", perr, tpl, c.A, c.B, c.Step, string(c.Start), string(c.Add))
		}
		ok := false
		for _, w := range accept {
			ok = ok || got == w
		}
		if !ok {
			ws := make([]string, len(accept))
			for i, w := range accept {
				ws[i] = strconv.Quote(w) + " " + showList(w)
			}
			return fmt.Errorf("%s\n  template: %s a=%d b=%d step=%d first=%q add=%q\n   got: %q %s\n  want: %s", what, tpl, c.A, c.B, c.Step, string(c.Start), string(c.Add), got, showList(got), strings.Join(ws, " or "))
		}
	}
	c.Obs.Add("n", len(decode(accept[0])))
	c.Obs.Label(len(accept) > 1, "contradictory-step")
	c.Obs.Label(c.Op == "range3" && c.Step == 0, "zero-step")
	c.Obs.Label(c.Op == "for-text" && c.Start == "" && c.B >= 2, "for-first-element-empty")
	return nil
}

func TestSequencesExhaustive(t *testing.T) {
	R := 6
	if pbt.Thorough() {
		R = 12
	}
	sp := pbt.Spec[SeqCase]{
		Property: "C17", Name: "gen",
		Rule:     fmt.Sprintf("bounded-exhaustive: @range with 1/2/3 arguments for start,stop in [-%d,%d], incr in [-4,4] (0 => <VALUE>; step pointing away => <VALUE> or empty), and the documented @for shapes (count-bounded doubling, value-bounded stepping, text growth incl. empty first element and named key), numbers given as constants, groups and keys; oracle = the documented sequence, exactly; non-trivial: >=2 elements", R, R),
		Check:    checkSeq,
		Classify: func(c SeqCase) (bool, []string) { return c.Obs.Get("n") >= 2, append([]string{c.Op, "via-" + c.Via}, c.Obs.All()...) },
	}
	pbt.Enum(t, sp, func(yield func(SeqCase) bool) {
		for _, via := range []string{"const", "group", "key"} {
			for a := -R; a <= R; a++ {
				for b := -R; b <= R; b++ {
					if a == 0 {
						if !yield(SeqCase{Op: "range1", B: b, Via: via, Obs: pbt.NewObs()}) {
							return
						}
					}
					if !yield(SeqCase{Op: "range2", A: a, B: b, Via: via, Obs: pbt.NewObs()}) {
						return
					}
					for st := -4; st <= 4; st++ {
						if !yield(SeqCase{Op: "range3", A: a, B: b, Step: st, Via: via, Obs: pbt.NewObs()}) {
							return
						}
						if st >= 1 {
							if !yield(SeqCase{Op: "for-value", A: a, B: b, Step: st, Via: via, Obs: pbt.NewObs()}) {
								return
							}
						}
					}
					if b >= 0 && b <= 8 {
						if !yield(SeqCase{Op: "for-count", A: a, B: b, Via: via, Obs: pbt.NewObs()}) {
							return
						}
					}
				}
			}
			for _, first := range []string{"", "x", " ", "é", "a b"} {
				for _, add := range []string{"", "y", ",", "→"} {
					for b := 0; b <= 5; b++ {
						if !yield(SeqCase{Op: "for-text", B: b, Start: pbt.S(first), Add: pbt.S(add), Via: via, Obs: pbt.NewObs()}) {
							return
						}
					}
				}
			}
		}
	})
}

var _ = sort.Strings
