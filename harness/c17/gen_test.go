// Generators for C17: typed expression trees over the array helpers and the
// match contexts they are evaluated in.
package c17

import (
	"math"
	"strings"

	"pgregory.net/rapid"
	"verifharness/pbt"
)

// element types, ordered: num ⊂ ascii ⊂ any. They only steer the generator
// (so that numeric helpers mostly meet numbers); the model handles whatever
// actually flows.
const (
	tNum   = "num"
	tAscii = "ascii"
	tAny   = "any"
)

func sub(a, b string) bool { // a ⊆ b
	return a == b || b == tAny || (a == tNum && b == tAscii)
}

var words = []string{"a", "b", "ab", "abc", "B", "joe", "is", "cool", "x", "yz", "Zed", "q"}

// odd elements: multi-byte runes, invalid UTF-8, truncated runes, delimiter
// pieces, markers, long text. Anything but NUL (an element cannot hold the
// separator).
var oddElems = []string{"é", "→", "日本", "\xff", "\xe2\x86", "a→b", "ß", "naïve", strings.Repeat("k", 40),
	"a,b", ", ", "::", ":", ",", "a b", "x\ty", "-", "--", "<VALUE>", "#", " ,", "a:", "|"}

var blanks = []string{" ", "  ", "\t"}

// delimiters: 1..7 bytes, single ASCII, multi-character, multi-byte runes,
// self-overlapping ("aa", "aba").
var delims = []string{" ", ",", ", ", "::", ":", "→", " → ", "aa", "ab", "aba", "--", "-", "|", "é", "\t", ";;;", "日本", "→→"}

// literal words used as constants inside templates (all safeLit).
var litWords = []string{"a", "b", "ab", "x", "joe", "B", "", " ", "a b", "é", "-", "q", "cool", "abc", "x y z", "→"}

type gen struct {
	t     *rapid.T
	fl0   string // element type of the list in group 0
	flL   string // element type of the list in key L
	delim string // the delimiter the raw-text slots were built with
	multi bool   // several contexts (goroutines)
}

func (g *gen) n(lo, hi int, label string) int { return rapid.IntRange(lo, hi).Draw(g.t, label) }
func (g *gen) p(percent int, label string) bool {
	return rapid.IntRange(0, 99).Draw(g.t, label) < percent
}
func (g *gen) pick(l []string, label string) string { return rapid.SampledFrom(l).Draw(g.t, label) }

// ---------- values ---------------------------------------------------------

func (g *gen) intVal() int {
	if g.p(85, "smallint") {
		return g.n(-20, 20, "int")
	}
	return g.n(-1000000, 1000000, "bigint")
}

func (g *gen) elem(ty string) string {
	switch ty {
	case tNum:
		return itoa(g.intVal())
	case tAscii:
		switch c := g.n(0, 9, "eclass"); {
		case c < 2:
			return ""
		case c < 3:
			return g.pick(blanks, "blank")
		case c < 5:
			return itoa(g.intVal())
		case c < 6:
			return rapid.StringMatching(`[a-cA-C]{1,4}`).Draw(g.t, "rword")
		default:
			return g.pick(words, "word")
		}
	default:
		switch c := g.n(0, 9, "eclass"); {
		case c < 2:
			return ""
		case c < 3:
			return g.pick(blanks, "blank")
		case c < 7:
			return g.pick(oddElems, "odd")
		case c < 8:
			return g.delimPiece()
		default:
			return g.pick(words, "word")
		}
	}
}

// delimPiece: a proper prefix or suffix of the case delimiter, the delimiter
// itself, or the delimiter doubled — text that makes a splitter that skips a
// wrong number of bytes, or re-scans, visible.
func (g *gen) delimPiece() string {
	d := g.delim
	switch g.n(0, 4, "piece") {
	case 0:
		return d[:g.n(0, len(d)-1, "cut")]
	case 1:
		return d[g.n(1, len(d), "cut"):]
	case 2:
		return d
	case 3:
		return d + d
	default:
		return d[:1] + "a" + d[len(d)-1:]
	}
}

func (g *gen) listLen() int {
	switch c := g.n(0, 19, "lenclass"); {
	case c < 2:
		return 0
	case c < 4:
		return 1
	case c < 6:
		return 2
	case c < 19:
		return g.n(3, 8, "len")
	default:
		return g.n(9, 14, "len")
	}
}

func (g *gen) listVal(ty string) []string {
	n := g.listLen()
	l := make([]string, n)
	for i := range l {
		l[i] = g.elem(ty)
	}
	return l
}

// rawText: text to be split on the case delimiter.
func (g *gen) rawText() string {
	if g.p(60, "rawjoin") {
		ty := g.pick([]string{tAscii, tAny, tAny}, "rawty")
		return strings.Join(g.listVal(ty), g.delim)
	}
	d := g.delim
	toks := []string{d, d, d[:1], d[len(d)-1:], "a", "b", " ", "", "x"}
	n := g.n(0, 10, "rawn")
	var sb strings.Builder
	for i := 0; i < n; i++ {
		sb.WriteString(g.pick(toks, "tok"))
	}
	return sb.String()
}

func (g *gen) context() Ctx {
	var c Ctx
	c.G = []pbt.S{
		pbt.S(encode(g.listVal(g.fl0))),       // {0}: a list
		pbt.S(g.rawText()),                     // {1}: text holding the delimiter
		pbt.S(itoa(g.n(-20, 20, "g2"))),        // {2}: a small integer
		pbt.S(g.elem(tAscii)),                  // {3}: ASCII scalar (may be empty/blank/number)
	}
	nn := g.listLen()
	nums := make([]string, nn)
	for i := range nums {
		nums[i] = itoa(g.n(0, 50, "nsv"))
	}
	c.K = []KV{
		{"L", pbt.S(encode(g.listVal(g.flL)))},
		{"k", pbt.S(g.pick(words, "k"))},
		{"n", pbt.S(itoa(g.n(0, 12, "n")))},
		{"ns", pbt.S(strings.Join(nums, g.delim))},
		{"o", pbt.S(g.elem(tAny))},
		{"s", pbt.S(g.rawText())},
	}
	return c
}

// ---------- expression trees ---------------------------------------------

// scope says what {0} and {1} mean where an expression is placed.
type scope struct {
	top    bool
	v0, v1 string // element types; "" = not bound
	// free: groups the helper does not bind in this sub-expression ({1}, {2}
	// in @map/@filter - "{0} is the current element" -, {2} in @reduce/@for).
	// They read as empty, like any group a match does not have, whatever was
	// evaluated before.
	free []int
	hot  bool // read the free groups often (the readers of a history)
}

var (
	freeMap    = []int{1, 1, 1, 2} // @map / @filter
	freeReduce = []int{2}          // @reduce / @for
)

func (g *gen) freeP(sc scope, percent int, label string) bool {
	if len(sc.free) == 0 {
		return false
	}
	if sc.hot {
		percent = 45
	}
	return g.p(percent, label)
}

func (g *gen) freeGrp(sc scope) *Node { return grp(sc.free[g.n(0, len(sc.free)-1, "freegrp")]) }

// boundAtom: an atom that is not a free group.
func (g *gen) boundAtom(sc scope, want string) *Node {
	sc.free = nil
	return g.atom(sc, want)
}

// unboundRead: an expression that looks at a group its helper does not bind,
// directly or through a scalar helper. Empty is the only documented value, so
// the forms are chosen to make any other value visible in the result.
func (g *gen) unboundRead(sc scope, want string) *Node {
	k := g.freeGrp(sc)
	kk := func() *Node { return grp(k.I) }
	switch g.n(0, 8, "unbform") {
	case 0:
		return call("coalesce", kk(), g.boundAtom(sc, want))
	case 1:
		return call("if", kk(), lit(g.pick([]string{"7", "set"}, "ifset")), g.boundAtom(sc, want))
	case 2:
		return call("not", kk())
	case 3:
		return call("eq", kk(), lit(""))
	case 4:
		return call("len", kk())
	case 5:
		if want != tNum {
			return cat(g.boundAtom(sc, want), lit(g.pick([]string{":", "-", "", "/"}, "unbsep")), kk())
		}
		return call("sumi", g.boundAtom(sc, tNum), call("len", kk()))
	case 6:
		if want != tNum {
			return cat(lit("<"), kk(), g.boundAtom(sc, want), lit(">"))
		}
		return call("coalesce", kk(), kk(), lit(itoa(g.n(-3, 9, "coalint"))))
	case 7:
		return call("coalesce", call("if", kk(), kk()), g.boundAtom(sc, want))
	default:
		return kk()
	}
}

func (g *gen) anyDelim() string {
	if g.p(70, "casedelim") {
		return g.delim
	}
	return g.pick(delims, "delim")
}

// withDelim appends the delimiter argument (or leaves it out when it is the
// documented default " ").
func (g *gen) withDelim(f string, arg *Node, d string) *Node {
	if d == " " && g.p(60, "defaultdelim") {
		return call(f, arg)
	}
	return call(f, arg, lit(d))
}

func (g *gen) quoteMaybe(n *Node) *Node {
	if n.T == "call" {
		n.Q = g.p(50, "quoted")
	}
	return n
}

// sureNum: an atom that is a canonical integer in every context.
func (g *gen) sureNum(sc scope, lo, hi int) *Node {
	switch c := g.n(0, 9, "sn"); {
	case c < 6:
		return lit(itoa(g.n(lo, hi, "snlit")))
	case c < 8 && sc.top:
		return grp(2)
	default:
		return key("n")
	}
}

func (g *gen) atom(sc scope, want string) *Node {
	if g.freeP(sc, 8, "freeatom") {
		return g.freeGrp(sc)
	}
	var opts []*Node
	add := func(n *Node, w int) {
		for i := 0; i < w; i++ {
			opts = append(opts, n)
		}
	}
	// bound variables first: sub-expressions should look at their element
	if sc.v0 != "" && sub(sc.v0, want) {
		add(grp(0), 6)
	}
	if sc.v1 != "" && sub(sc.v1, want) {
		add(grp(1), 4)
	}
	add(key("n"), 2)
	if sc.top {
		add(grp(2), 2)
	}
	if want != tNum {
		add(key("k"), 3)
		if sc.top {
			add(grp(3), 2)
		}
	}
	if want == tAny {
		add(key("o"), 2)
	}
	if g.p(30, "atomlit") || len(opts) == 0 {
		if want == tNum {
			return lit(itoa(g.intVal()))
		}
		if g.p(30, "numlit") {
			return lit(itoa(g.n(-5, 12, "litint")))
		}
		return lit(g.pick(litWords, "litword"))
	}
	o := opts[g.n(0, len(opts)-1, "atom")]
	return &Node{T: o.T, S: o.S, I: o.I}
}

// catOf: literal text mixed with variables inside one argument ("{0}bob").
func (g *gen) catOf(sc scope, want string) *Node {
	n := g.n(2, 3, "catn")
	var parts []*Node
	for i := 0; i < n; i++ {
		if g.p(50, "catlit") {
			parts = append(parts, lit(g.pick([]string{"x", ",", "-", " ", "bob", ":", "é", "_", "a b"}, "cattxt")))
		} else {
			a := g.atom(sc, want)
			parts = append(parts, a)
		}
	}
	return cat(parts...)
}

// scalar: an expression whose value is a single string (no separator), of
// (about) the wanted type.
func (g *gen) scalar(sc scope, depth int, want string) *Node {
	if g.freeP(sc, 8, "freescalar") {
		return g.unboundRead(sc, want)
	}
	if depth <= 0 || g.p(25, "scalaratom") {
		if want != tNum && g.p(25, "cat") {
			return g.catOf(sc, want)
		}
		return g.atom(sc, want)
	}
	d := depth - 1
	switch want {
	case tNum:
		switch g.n(0, 8, "numop") {
		case 0:
			l, _ := g.list(sc, d)
			return call("@len", l)
		case 1:
			return call("sumi", g.scalar(sc, d, tNum), g.scalar(sc, d, tNum))
		case 2:
			return call("multi", g.scalar(sc, d, tNum), lit(itoa(g.n(-3, 3, "mul"))))
		case 3:
			return call(g.pick([]string{"subi", "maxi", "mini"}, "arith"), g.scalar(sc, d, tNum), g.scalar(sc, d, tNum))
		case 4:
			return call("len", g.scalar(sc, d, tAscii))
		case 5:
			l := g.listOf(sc, d, tNum)
			return g.reduce(sc, d, l, tNum)
		case 6:
			return call("if", g.pred(sc, d), g.scalar(sc, d, tNum), g.scalar(sc, d, tNum))
		case 7:
			l, _ := g.list(sc, d)
			return call("@len", g.withDelim("@split", g.withDelim("@join", l, g.anyDelim()), g.anyDelim()))
		default:
			return call("sumi", g.scalar(sc, d, tNum), g.scalar(sc, d, tNum), g.scalar(sc, 0, tNum))
		}
	case tAscii:
		switch g.n(0, 7, "asciiop") {
		case 0:
			return call(g.pick([]string{"upper", "lower"}, "case"), g.scalar(sc, d, tAscii))
		case 1:
			l := g.listOf(sc, d, tAscii)
			return g.withDelim("@join", l, g.pick([]string{" ", ",", ", ", "::", "-", "ab"}, "adelim"))
		case 2:
			l := g.listOf(sc, d, tAscii)
			return g.selectOf(l)
		case 3:
			return call("if", g.pred(sc, d), g.scalar(sc, d, tAscii), g.scalar(sc, d, tAscii))
		case 4:
			return g.pred(sc, d)
		case 5:
			return g.scalar(sc, d, tNum)
		case 6:
			l := g.listOf(sc, d, tAscii)
			return g.reduce(sc, d, l, tAscii)
		default:
			return g.catOf(sc, tAscii)
		}
	default:
		switch g.n(0, 6, "anyop") {
		case 0:
			l, _ := g.list(sc, d)
			return g.withDelim("@join", l, g.anyDelim())
		case 1:
			l, _ := g.list(sc, d)
			return g.selectOf(l)
		case 2:
			l, ty := g.list(sc, d)
			return g.reduce(sc, d, l, ty)
		case 3:
			return call("if", g.pred(sc, d), g.scalar(sc, d, tAny), g.scalar(sc, d, tAny))
		case 4:
			return g.scalar(sc, d, tAscii)
		case 5:
			// the inverse pair, directly: join(split(s,d),d)
			dl := g.anyDelim()
			return g.withDelim("@join", g.withDelim("@split", g.rawSource(sc), dl), dl)
		default:
			return g.catOf(sc, tAny)
		}
	}
}

func (g *gen) index() *Node {
	if g.p(80, "nearidx") {
		return lit(itoa(g.n(-10, 10, "idx")))
	}
	return lit(itoa(g.pick2([]int{-100, -15, 15, 100, 1 << 40, -(1 << 40), 1 << 62, -(1 << 62), math.MaxInt64, math.MinInt64 + 1, math.MinInt64}, "faridx")))
}

func (g *gen) pick2(l []int, label string) int { return rapid.SampledFrom(l).Draw(g.t, label) }

func (g *gen) selectOf(l *Node) *Node { return call("@select", l, g.index()) }

func (g *gen) constList() *Node {
	switch g.n(0, 4, "constlist") {
	case 0:
		return lit(g.pick([]string{"", "a", "ab", "5"}, "cl1"))
	case 1:
		return call("@range", lit(itoa(g.n(0, 12, "clr"))))
	case 2:
		return call("@split", lit(g.pick([]string{"a,b,c", "a,,b", ",", "joe,is,cool", "1,2,3"}, "cls")), lit(","))
	default:
		n := g.n(1, 5, "cln")
		args := make([]*Node, n)
		for i := range args {
			if g.p(30, "clnum") {
				args[i] = lit(itoa(g.n(-3, 12, "clint")))
			} else {
				args[i] = lit(g.pick(litWords, "clword"))
			}
		}
		return call(g.pick([]string{"@", "$"}, "arr"), args...)
	}
}

// pred: an expression used for its truthiness.
func (g *gen) pred(sc scope, depth int) *Node {
	d := depth - 1
	if d < 0 {
		d = 0
	}
	want := tAny
	if sc.v0 != "" {
		want = sc.v0
	}
	if g.freeP(sc, 10, "freepred") {
		return g.unboundRead(sc, want)
	}
	switch g.n(0, 11, "pred") {
	case 0:
		return call(g.pick([]string{"isnum", "isint"}, "isnum"), g.atom(sc, tAny))
	case 1:
		return call(g.pick([]string{"eq", "neq"}, "eq"), g.atom(sc, tAny), g.atom(sc, tAny))
	case 2:
		return call(g.pick([]string{"lt", "gt", "lte", "gte"}, "cmp"), g.scalar(sc, d, tNum), g.scalar(sc, d, tNum))
	case 3:
		return call("not", g.atom(sc, tAny))
	case 4:
		return g.atom(sc, tAny) // the element itself: non-blank = truthy
	case 5:
		return call("@in", g.atom(sc, tAny), g.constList())
	case 6:
		l, _ := g.list(sc, d)
		return call(g.pick([]string{"lt", "gt", "lte", "gte"}, "cmp"), call("@len", l), lit(itoa(g.n(0, 5, "lenb"))))
	case 7:
		return lit(g.pick([]string{"1", "", " ", "x"}, "constpred"))
	case 8:
		if sub(want, tNum) {
			return call(g.pick([]string{"lt", "gt", "lte", "gte"}, "cmp"), g.atom(sc, tNum), lit(itoa(g.n(-5, 10, "cmpb"))))
		}
		return call("eq", g.atom(sc, want), g.atom(sc, want))
	case 9:
		return call("if", g.pred(sc, d), g.pred(sc, d), lit(""))
	case 10:
		return call(g.pick([]string{"eq", "neq"}, "eq"), g.scalar(sc, d, tAny), g.scalar(sc, d, tAny))
	default:
		if sub(want, tAscii) {
			return call("gt", call("len", g.atom(sc, want)), lit(itoa(g.n(0, 3, "lenb"))))
		}
		return call("neq", g.atom(sc, tAny), lit(""))
	}
}

// reduce builds {@reduce l reducer [initial]}.
func (g *gen) reduce(sc scope, depth int, l *Node, ty string) *Node {
	var init *Node
	memoTy := ty
	inner := func(v0 string) scope { return scope{v0: v0, v1: ty, free: freeReduce, hot: sc.hot} }
	var red *Node
	switch c := g.n(0, 11, "reducer"); {
	case ty == tNum && c < 5:
		if g.p(40, "rinit") {
			init = lit(itoa(g.n(-5, 10, "initv")))
		}
		switch g.n(0, 4, "numred") {
		case 0:
			red = call("sumi", grp(0), grp(1))
		case 1:
			red = call(g.pick([]string{"maxi", "mini", "subi"}, "nr"), grp(0), grp(1))
		case 2:
			red = call("sumi", grp(0), grp(1), key("n"))
		case 3:
			red = call("if", call("gt", grp(1), grp(0)), grp(1), grp(0))
		default:
			red = call("sumi", grp(0), g.scalar(inner(tNum), depth-1, tNum))
		}
	case c < 6: // count / total length with an initial value
		init = lit("0")
		if sub(ty, tAscii) && g.p(50, "sumlen") {
			red = call("sumi", grp(0), call("len", grp(1)))
		} else {
			red = call("sumi", grp(0), lit("1"))
		}
	case c < 7:
		red = grp(g.n(0, 1, "firstlast"))
		if g.p(30, "rinit") {
			init = lit(g.pick([]string{"z", "0", " ", "a b"}, "initw"))
		}
	case c < 8: // reverse the list: the memo is itself a list
		red = call(g.pick([]string{"@", "$"}, "arr"), grp(1), grp(0))
	default:
		memoTy = tAny
		if ty == tNum || ty == tAscii {
			memoTy = tAscii
		}
		parts := [][]*Node{
			{grp(0), grp(1)}, {grp(0), lit(","), grp(1)}, {grp(1), grp(0)}, {grp(0), key("k"), grp(1)},
			{grp(0), lit(" "), grp(1)}, {lit("("), grp(0), lit("+"), grp(1), lit(")")},
		}
		red = cat(parts[g.n(0, len(parts)-1, "catred")]...)
		if g.p(30, "rinit") {
			init = lit(g.pick([]string{"z", "0", " ", "a b", "<"}, "initw"))
		}
	}
	_ = memoTy
	red = g.quoteMaybe(red)
	if init != nil {
		return call("@reduce", l, red, init)
	}
	return call("@reduce", l, red)
}

// rawSource: text to split.
func (g *gen) rawSource(sc scope) *Node {
	var opts []*Node
	opts = append(opts, key("s"), key("s"))
	if sc.top {
		opts = append(opts, grp(1), grp(1))
	}
	if sc.v0 != "" && sc.v0 != tNum {
		opts = append(opts, grp(0), grp(0), grp(0))
		opts = append(opts, cat(grp(0), lit(g.delim), key("k")))
	}
	if g.p(10, "rawlit") {
		return lit(g.pick([]string{"a, b, c", "a,b", "a::b::c", "x", "", "1 2 3", "a→b→c", "aaa"}, "rawlit"))
	}
	return opts[g.n(0, len(opts)-1, "raw")]
}

// listOf: a list expression whose elements are (about) of the wanted type.
func (g *gen) listOf(sc scope, depth int, want string) *Node {
	for try := 0; try < 3; try++ {
		l, ty := g.list(sc, depth)
		if sub(ty, want) {
			return l
		}
	}
	// build one from scalars
	n := g.n(0, 5, "arrn")
	if n == 0 {
		return lit("")
	}
	args := make([]*Node, n)
	for i := range args {
		args[i] = g.scalar(sc, 0, want)
	}
	return call("@", args...)
}

// list: a list-valued expression and the type of its elements.
func (g *gen) list(sc scope, depth int) (*Node, string) {
	c := g.n(0, 19, "listop")
	if depth <= 0 && c >= 8 {
		c = g.n(0, 7, "listop0")
	}
	d := depth - 1
	switch c {
	case 0, 1: // a list held by the match
		if sc.top && g.p(60, "g0") {
			return grp(0), g.fl0
		}
		return key("L"), g.flL
	case 2, 3: // {@ ..} / {$ ..}
		ty := g.pick([]string{tNum, tAscii, tAny}, "arrty")
		n := g.n(1, 5, "arrn")
		args := make([]*Node, n)
		for i := range args {
			args[i] = g.scalar(sc, min(d, 1), ty)
		}
		return call(g.pick([]string{"@", "$"}, "arr"), args...), ty
	case 4, 5: // @split of raw text
		if g.p(25, "numsplit") {
			return g.withDelim("@split", key("ns"), g.delim), tNum
		}
		return g.withDelim("@split", g.rawSource(sc), g.anyDelim()), tAny
	case 6:
		return g.rangeOf(sc), tNum
	case 7:
		return g.forOf(sc, d)
	case 8, 9, 10: // @map
		l, ty := g.list(sc, d)
		inner := scope{v0: ty, free: freeMap, hot: sc.hot}
		rt := g.pick([]string{tNum, tAscii, tAny}, "mapty")
		if !sub(ty, rt) && g.p(50, "keepty") {
			rt = ty
		}
		f := g.scalar(inner, d, rt)
		if ty != tNum && rt == tNum && usesVar(f) {
			rt = tAscii // numbers computed from non-numbers may be markers
		}
		return call("@map", l, g.quoteMaybe(f)), rt
	case 11, 12, 13: // @filter
		l, ty := g.list(sc, d)
		inner := scope{v0: ty, free: freeMap, hot: sc.hot}
		if g.p(25, "isnumfilter") {
			return call("@filter", l, g.quoteMaybe(call(g.pick([]string{"isnum", "isint"}, "isnum"), grp(0)))), tNum
		}
		return call("@filter", l, g.quoteMaybe(g.pred(inner, d))), ty
	case 14, 15, 16: // @slice
		l, ty := g.list(sc, d)
		if g.p(50, "slicelen") {
			if g.p(12, "farlen") {
				return call("@slice", l, g.index(), lit(itoa(g.pick2([]int{100, 1 << 31, 1 << 62, math.MaxInt64 - 1, math.MaxInt64}, "farslen")))), ty
			}
			return call("@slice", l, g.index(), lit(itoa(g.n(0, 10, "slen")))), ty
		}
		return call("@slice", l, g.index()), ty
	case 17: // list built by a reduce (reverse)
		l, ty := g.list(sc, d)
		return call("@reduce", l, g.quoteMaybe(call("@", grp(1), grp(0)))), ty
	case 18: // split(join(L))
		l, ty := g.list(sc, d)
		dl := g.anyDelim()
		if ty == tNum && !strings.Contains(dl, "-") {
			return g.withDelim("@split", g.withDelim("@join", l, dl), dl), tNum
		}
		return g.withDelim("@split", g.withDelim("@join", l, dl), dl), tAny
	default: // concatenation of lists: {@ L1 L2}
		l1, t1 := g.list(sc, d)
		l2, t2 := g.list(sc, d)
		ty := t1
		if !sub(t2, t1) {
			ty = t2
			if !sub(t1, t2) {
				ty = tAny
			}
		}
		if ty == tNum {
			ty = tAscii // an empty list contributes one empty element
		}
		return call(g.pick([]string{"@", "$"}, "arr"), l1, l2), ty
	}
}

func usesVar(n *Node) bool {
	found := false
	n.walk(func(x *Node, _ int, _ bool) {
		if x.T == "grp" {
			found = true
		}
	}, 0, false)
	return found
}

// rangeOf: {@range [start] stop [incr]} with small spans, zero and
// contradictory steps, rarely a non-number.
func (g *gen) rangeOf(sc scope) *Node {
	arg := func(lo, hi int) *Node {
		if g.p(4, "rangebad") {
			return lit(g.pick([]string{"abc", "x", ""}, "badnum"))
		}
		if sc.v0 == tNum && g.p(30, "rangevar") {
			return grp(0)
		}
		return g.sureNum(sc, lo, hi)
	}
	switch g.n(0, 9, "rangeform") {
	case 0, 1, 2:
		if g.p(5, "longrange") {
			return call("@range", lit(itoa(g.n(100, 2000, "long"))))
		}
		return call("@range", arg(-3, 15))
	case 3, 4, 5:
		return call("@range", arg(-10, 10), arg(-10, 20))
	default:
		step := lit(itoa(g.pick2([]int{1, 1, 2, 3, 7, -1, -1, -2, -5, 0}, "step")))
		if g.p(15, "stepvar") {
			step = g.sureNum(sc, -3, 3)
		}
		return call("@range", arg(-15, 15), arg(-15, 25), step)
	}
}

// boundCond: the comparison that ends a @for. A bound read from the match is
// empty in the all-empty context the optimiser probes with; {lt {1} ""} is
// <BAD-TYPE>, which is truthy, so the probe would run to @for's 1 000 000
// iteration cap (0.3 s with a number, an honest >10 min of copying when the
// value is a text that grows every round). The comparison is therefore
// guarded by the bound itself: {if {n} {lt {1} {n}} ""}.
func boundCond(op string, bound *Node, boundFirst bool, other *Node) *Node {
	var cmp *Node
	if boundFirst {
		cmp = call(op, bound, other)
	} else {
		cmp = call(op, other, bound)
	}
	if bound.T == "lit" {
		return cmp
	}
	return call("if", bound, cmp, lit(""))
}

// forOf: {@for start while incr}, built so that the documented iteration ends
// after a few steps in every context (the optimiser's empty one included).
func (g *gen) forOf(sc scope, depth int) (*Node, string) {
	if depth < 0 {
		depth = 0
	}
	if g.p(45, "forvalue") {
		// bounded by value: numeric start, strictly monotone increment
		start := g.sureNum(sc, -5, 5)
		b := g.sureNum(scope{}, -3, 15) // used inside the sub-expression: groups of the match are shadowed there
		var step *Node
		switch g.n(0, 3, "forstep") {
		case 0:
			step = lit(itoa(g.n(1, 4, "step")))
		case 1:
			step = lit("1")
		default:
			step = lit(itoa(g.n(1, 3, "step")))
		}
		// a start read from the match is empty in the optimiser's probe
		// context, the comparison then <BAD-TYPE> (truthy) for ever: guard
		// the comparison by the value being a number
		numGuard := func(cond *Node, dyn bool) *Node {
			if !dyn {
				return cond
			}
			return call("if", call("isint", grp(0)), cond, lit(""))
		}
		if g.p(35, "fordown") {
			cond := boundCond(g.pick([]string{"gt", "gte"}, "forcmp"), b, false, grp(0))
			incr := call("subi", grp(0), step)
			return call("@for", start, g.quoteMaybe(numGuard(cond, start.T != "lit")), g.quoteMaybe(incr)), tNum
		}
		var cond *Node
		switch g.n(0, 2, "forcond") {
		case 0:
			cond = boundCond("lt", b, false, grp(0))
		case 1:
			cond = boundCond("lte", b, false, grp(0))
		default:
			cond = boundCond("gt", b, true, grp(0))
		}
		var incr *Node
		switch g.n(0, 3, "forincr") {
		case 0:
			incr = call("sumi", grp(0), step)
		case 1: // uses a named key of the enclosing match
			incr = call("sumi", grp(0), step, call("len", key("k")))
		case 2:
			incr = call("sumi", grp(0), step, grp(1))
		default:
			incr = call("sumi", grp(0), step, call("len", key("n")))
		}
		return call("@for", start, g.quoteMaybe(numGuard(cond, start.T != "lit")), g.quoteMaybe(incr)), tNum
	}
	// bounded by the index
	ty := g.pick([]string{tNum, tAscii, tAny}, "forty")
	b := g.sureNum(scope{}, 0, 10)
	inner := scope{v0: ty, v1: tNum, free: freeReduce, hot: sc.hot}
	var cond *Node = boundCond("lt", b, false, grp(1))
	if g.p(30, "forand") {
		cond = call("if", boundCond("lt", b, false, grp(1)), g.pred(inner, depth), lit(""))
	}
	var start *Node
	if ty == tNum {
		start = g.sureNum(sc, -5, 9)
	} else {
		start = g.scalar(sc, 0, ty)
	}
	var incr *Node
	if ty == tNum {
		switch g.n(0, 5, "forincr") {
		case 0:
			incr = call("sumi", grp(0), grp(0))
		case 1:
			incr = call("sumi", grp(0), grp(1))
		case 2:
			incr = call("multi", grp(0), lit(itoa(g.n(-2, 3, "mul"))))
		case 3:
			incr = call("sumi", grp(0), key("n"))
		case 4:
			incr = grp(1)
		default:
			incr = call("sumi", grp(0), call("len", key("k")))
		}
	} else {
		switch g.n(0, 6, "forincr") {
		case 0:
			incr = cat(grp(0), lit(g.pick([]string{"x", ",", "-", "é", " "}, "grow")))
		case 1:
			incr = cat(lit(g.pick([]string{"x", ",", "-"}, "grow")), grp(0))
		case 2:
			incr = key("k")
		case 3:
			incr = grp(1)
		case 4:
			incr = cat(grp(0), grp(1))
		case 5:
			incr = cat(grp(0), key("k"))
		default:
			if ty == tAscii {
				incr = call("upper", cat(grp(0), lit("a")))
			} else {
				incr = grp(0)
			}
		}
	}
	return call("@for", start, g.quoteMaybe(cond), g.quoteMaybe(incr)), ty
}

// root: the whole template is one helper call.
func (g *gen) root(depth int) *Node {
	sc := scope{top: true}
	{
		var n *Node
		switch g.n(0, 9, "root") {
		case 0, 1, 2, 3, 4:
			n, _ = g.list(sc, depth)
		case 5:
			l, _ := g.list(sc, depth-1)
			n = call("@len", l)
		case 6:
			l, _ := g.list(sc, depth-1)
			n = g.withDelim("@join", l, g.anyDelim())
		case 7:
			if g.p(35, "inlistprobe") {
				// the probed value is itself a list - a run of consecutive members of the set, a permuted run,
				// a member followed by a stranger: a list is never an ELEMENT of the set
				k := g.n(2, 9, "inset")
				words := make([]*Node, k)
				for i := range words {
					words[i] = lit(g.pick(litWords, "inword"))
				}
				i := g.n(0, k-2, "inat")
				probe := []*Node{words[i], words[i+1]}
				switch g.n(0, 3, "inprobekind") {
				case 1:
					probe = []*Node{words[i+1], words[i]}
				case 2:
					probe = []*Node{words[i], lit("stranger")}
				case 3:
					if i+2 < k {
						probe = append(probe, words[i+2])
					}
				}
				n = call("@in", call("@", probe...), call(g.pick([]string{"@", "$"}, "arr"), words...))
			} else {
				n = call("@in", g.scalar(sc, depth-1, tAny), g.constList())
			}
		default:
			n = g.scalar(sc, depth, g.pick([]string{tNum, tAscii, tAny}, "rootty"))
		}
		if n.T == "call" {
			return n
		}
		// a bare variable is not an array helper: wrap it
		return call("@", n)
	}
}

func min(a, b int) int {
	if a < b {
		return a
	}
	return b
}
