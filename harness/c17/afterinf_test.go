// C17, "after-inf": @for gives up after 1 000 000 rounds and answers <INF>.
// That exit path borrows and returns a pooled sub-context like the normal
// one; if it hands the object back twice (or not at all), later array helpers
// that nest - one helper inside another's sub-expression - share one
// sub-context and lose their {0}/{1} and the match's named keys. The
// generated `ops` cases never run an endless @for (each costs 0.3 s), so this
// fixed sequence does: nested helpers are evaluated fresh, after a bounded
// @for, and after an endless one, and must give the same lists each time.
package c17

import (
	"fmt"
	"strings"
	"testing"

	"rare/pkg/expressions"
	"verifharness/pbt"
)

type AfterInfCase struct {
	Template string
	Want     pbt.S
	Obs      *pbt.Obs `json:"-"`
}

var afterInfCtx = &expressions.KeyBuilderContextArray{
	Elements: []string{"a\x00b\x00c"},
	Keys:     map[string]string{"k": "K", "n": "2", "L": "1\x002\x003"},
}

func evalStd(tpl string) (string, error) {
	opt, _, err := compile(tpl)
	if err != nil {
		return "", err
	}
	return safeBuild(opt, afterInfCtx)
}

func checkAfterInf(c AfterInfCase) error {
	for phase, pre := range []string{"", "{@for 0 {lt {0} 5} {sumi {0} 1}}", "{@for 0 1 {sumi {0} 1}}"} {
		if pre != "" {
			got, err := evalStd(pre)
			if err != nil {
				return err
			}
			if phase == 2 && got != "<INF>" {
				return fmt.Errorf("an endless @for gave %q, documented is the marker <INF> after 1 000 000 rounds", pbt.Trunc(got, 60))
			}
		}
		for rep := 0; rep < 2; rep++ {
			got, err := evalStd(c.Template)
			if err != nil {
				return err
			}
			if got != string(c.Want) {
				return fmt.Errorf("%s evaluated %s gives %q %s, want %q %s", c.Template, []string{"first", "after a bounded @for", "after an endless @for (<INF>)"}[phase], got, showList(got), string(c.Want), showList(string(c.Want)))
			}
		}
	}
	return nil
}

func TestAfterInf(t *testing.T) {
	sp := pbt.Spec[AfterInfCase]{
		Property: "C17", Name: "after-inf",
		Rule:     "bounded-exhaustive (fixed list): nested array helpers whose inner sub-expression reads the outer element, its own element and a named key of the match, evaluated before any @for, after a bounded @for and after an endless @for that ended in <INF>: the same documented list every time. Non-trivial: all",
		Check:    checkAfterInf,
		Classify: func(c AfterInfCase) (bool, []string) { return true, nil },
	}
	join := func(xs ...string) pbt.S { return pbt.S(strings.Join(xs, "\x00")) }
	cases := []AfterInfCase{
		{Template: `{@map {0} {@join {@map {L} {0}{k}} +}}`, Want: join("1K+2K+3K", "1K+2K+3K", "1K+2K+3K")},
		{Template: `{@map {0} {0}{@len {@filter {L} {gt {0} {n}}}}}`, Want: join("a1", "b1", "c1")},
		{Template: `{@filter {0} {@reduce {L} {sumi {0} {1}}}}`, Want: join("a", "b", "c")},
		{Template: `{@reduce {@map {L} {sumi {0} {@len {@map {L} x}}}} {sumi {0} {1}}}`, Want: "15"},
		{Template: `{@map {@for 1 {lt {1} 3} {sumi {0} {n}}} {0}:{@join {@map {L} {k}} ,}}`, Want: join("1:K,K,K", "3:K,K,K", "5:K,K,K")},
	}
	pbt.Enum(t, sp, func(yield func(AfterInfCase) bool) {
		for _, c := range cases {
			c.Obs = pbt.NewObs()
			if !yield(c) {
				return
			}
		}
	})
}
