// C02 — each match carries its true source, line number, text and groups.
package c02

import (
	"bytes"
	"fmt"
	"os"
	"os/exec"
	"path/filepath"
	"reflect"
	"regexp"
	"strconv"
	"strings"
	"sync"
	"testing"

	"pgregory.net/rapid"
	"verifharness/model"
	"verifharness/pbt"
	"verifharness/pipe"
)

var (
	dirOnce sync.Once
	workDir string
	tick    int
)

func caseDir() string {
	dirOnce.Do(func() {
		d := os.Getenv("VERIF_SCRATCH")
		if d == "" {
			d = os.TempDir()
		}
		workDir, _ = os.MkdirTemp(d, "c02-")
	})
	return workDir
}

// fullExtract builds a template that exposes every capture the property
// names: {src} {line} {0} {1}..{6} (existing or not), every named group, {@}.
func fullExtract(m pipe.Matcher) string {
	var sb strings.Builder
	sb.WriteString("{src}|{line}|{0}|{1}|{2}|{3}|{4}|{5}|{6}")
	for _, name := range []string{"verb", "path", "status", "size", "k", "v", "a", "b", "c", "d", "code", "first", "rest", "ts", "msg", "second", "x", "p", "all", "w1", "w2", "w3"} {
		if strings.Contains(m.Pattern, "<"+name+">") || strings.Contains(m.Pattern, "%{"+name+"}") {
			sb.WriteString("|{" + name + "}")
		}
	}
	sb.WriteString("|{@}")
	return sb.String()
}

type key struct {
	src string
	n   uint64
}

func check(c pipe.Case) error {
	c.Hold = true
	g, err := pipe.Run(&c, caseDir())
	if err != nil {
		return err
	}
	ref, err := pipe.Reference(&c, g.Sources)
	if err != nil {
		return fmt.Errorf("harness: reference: %v", err)
	}
	// provoke reuse of anything rare released too early
	if tick++; tick%64 == 0 {
		pbt.Churn(8)
	}
	byKey := map[key]*pipe.RefLine{}
	var wantSeq []key
	for i := range ref {
		l := &ref[i]
		byKey[key{l.Source, l.LineNo}] = l
		if l.Class == pipe.Matched {
			wantSeq = append(wantSeq, key{l.Source, l.LineNo})
		}
	}
	seen := map[key]bool{}
	for i, cp := range g.Copies {
		k := key{cp.Source, cp.LineNumber}
		l := byKey[k]
		if l == nil {
			return fmt.Errorf("match #%d reports source %q line %d, which does not exist (input has other names / fewer lines); text %s", i, cp.Source, cp.LineNumber, pbt.Trunc(strconv.Quote(cp.Line), 200))
		}
		if seen[k] {
			return fmt.Errorf("source %q line %d was emitted twice", cp.Source, cp.LineNumber)
		}
		seen[k] = true
		if l.Class != pipe.Matched {
			return fmt.Errorf("source %q line %d (%s) was emitted but the sequential evaluation classifies it %d (0=unmatched,1=ignored)", cp.Source, cp.LineNumber, pbt.Q(l.Line), l.Class)
		}
		if cp.Line != string(l.Line) {
			return fmt.Errorf("match text is not the line: source %q line %d: got %s want %s", cp.Source, cp.LineNumber, pbt.Trunc(strconv.Quote(cp.Line), 200), pbt.Q(l.Line))
		}
		if !reflect.DeepEqual(cp.Indices, l.Indices) {
			return fmt.Errorf("capture offsets differ from the leftmost match: source %q line %d (%s): got %v want %v", cp.Source, cp.LineNumber, pbt.Q(l.Line), cp.Indices, l.Indices)
		}
		if cp.Extracted != l.Key {
			return fmt.Errorf("capture values differ: source %q line %d (%s) template %q: got %s want %s", cp.Source, cp.LineNumber, pbt.Q(l.Line), c.Extract, pbt.Trunc(strconv.Quote(cp.Extracted), 300), pbt.Trunc(strconv.Quote(l.Key), 300))
		}
		// retention: what the consumer still holds, long after reception
		held := g.Matches[i]
		if held.Line != cp.Line {
			return fmt.Errorf("held match text changed after reception: source %q line %d: now %s, was %s", cp.Source, cp.LineNumber, pbt.Trunc(strconv.Quote(held.Line), 200), pbt.Trunc(strconv.Quote(cp.Line), 200))
		}
		if !reflect.DeepEqual(held.Indices, cp.Indices) {
			return fmt.Errorf("held match offsets changed after reception: source %q line %d: now %v, was %v", cp.Source, cp.LineNumber, held.Indices, cp.Indices)
		}
		if held.Source != cp.Source || held.LineNumber != cp.LineNumber || held.Extracted != cp.Extracted {
			return fmt.Errorf("held match changed after reception: %q/%d", cp.Source, cp.LineNumber)
		}
	}
	if len(g.Copies) != len(wantSeq) {
		return fmt.Errorf("%d matches emitted, sequential evaluation has %d", len(g.Copies), len(wantSeq))
	}
	ordered := c.Workers == 1 && (c.ViaReader || c.Readers == 1)
	if ordered {
		for i, cp := range g.Copies {
			if (key{cp.Source, cp.LineNumber}) != wantSeq[i] {
				return fmt.Errorf("one reader, one worker: emission #%d is %q:%d, input order says %q:%d", i, cp.Source, cp.LineNumber, wantSeq[i].src, wantSeq[i].n)
			}
		}
	}
	observe(&c, g, ref, ordered)
	return nil
}

func observe(c *pipe.Case, g *pipe.Got, ref []pipe.RefLine, ordered bool) {
	o := c.Obs
	if o == nil {
		return
	}
	maxMatchedLine := uint64(0)
	nonpart, named := false, false
	matched := 0
	perSrc := map[string]int{}
	for _, l := range ref {
		perSrc[l.Source]++
		if l.Class != pipe.Matched {
			continue
		}
		matched++
		if l.LineNo > maxMatchedLine {
			maxMatchedLine = l.LineNo
		}
		for i := 2; i+1 < len(l.Indices); i += 2 {
			if l.Indices[i] < 0 {
				nonpart = true
			}
		}
	}
	named = strings.Contains(c.Matcher.Pattern, "(?P<") || (c.Matcher.Kind == "dissect" && strings.Contains(c.Matcher.Pattern, "%{") && !strings.Contains(c.Extract, "{0}|{1}|{2}|{3}|{4}|{5}|{6}|{@}"))
	maxLines := 0
	for _, n := range perSrc {
		if n > maxLines {
			maxLines = n
		}
	}
	o.Add("matched", matched)
	o.Label(maxLines >= 3*c.Batch, ">=3-batches-one-source")
	o.Label(maxMatchedLine > uint64(c.Batch), "match-beyond-first-batch")
	o.Label(nonpart, "non-participating-group")
	o.Label(named, "named-group")
	o.Label(c.Matcher.Kind == "dissect" && matched > 1024*c.Workers/c.Workers && matched > 1024, "pool-refill(>1024)")
	o.Label(ordered, "ordered(1 reader,1 worker)")
	o.Label(c.ViaReader, "reader-path")
	if c.ViaReader && c.Batch > 0 {
		o.Label(g.Batches > (len(ref)+c.Batch-1)/c.Batch, "timer-flush-observed")
	}
	for _, in := range c.Inputs {
		b := []byte(in.Content)
		for k := 1; k*pipe.ReadBuf <= len(b); k++ {
			o.Label(b[k*pipe.ReadBuf-1] == '\n', "newline-is-last-byte-of-read-buffer")
		}
		if i := bytes.Index(b, bytes.Repeat([]byte{'y'}, 70000)); i >= 0 {
			// a >128KiB line followed by more lines => the read buffer was regrown with live slices
			if j := bytes.IndexByte(b[i:], '\n'); j >= 0 && i+j+1 < len(b) {
				o.Label(true, "buffer-regrowth-with-following-lines")
			}
		}
	}
	o.Label(c.Matcher.IgnoreCase, "ignore-case")
	o.Label(c.Matcher.Posix, "posix")
	o.Label(c.Matcher.Kind == "default", "default-matcher")
	observeLiteral(c, ref)
	// -z with inputs that are not gzip: read from their first byte
	if c.UseGunzip() {
		o.Label(true, "-z(no input is gzip)")
		at := 0
		for _, in := range c.Inputs {
			n := len(model.Lines([]byte(in.Content)))
			if pipe.HasGzipMagic(in.Content) {
				o.Label(true, "-z:starts-with-gzip-magic,not-gzip")
				o.Label(len(in.Content) < 10, "-z:gzip-magic,shorter-than-a-header")
				for k := 0; k < n && at+k < len(ref); k++ {
					if ref[at+k].Class == pipe.Matched {
						o.Label(true, "-z:gzip-magic-input-has-a-match")
						o.Label(k == 0, "-z:gzip-magic-line-1-matched")
						break
					}
				}
			}
			at += n
		}
	}
}

// observeLiteral labels the literal / anchored pattern classes and the two
// decisions they are there for: the anchors accept a line, and the anchors
// reject a line that contains the literal.
func observeLiteral(c *pipe.Case, ref []pipe.RefLine) {
	o := c.Obs
	if c.Matcher.Kind != "regex" {
		return
	}
	lp := pipe.LiteralInfo(c.Matcher.Pattern)
	if lp == nil {
		return
	}
	switch {
	case lp.Left && lp.Right:
		o.Label(true, "literal-pattern:anchored-both-sides")
	case lp.Left || lp.Right:
		o.Label(true, "literal-pattern:anchored-one-side")
	default:
		o.Label(true, "literal-pattern:bare")
	}
	o.Label(!lp.Grouped, "literal-pattern:group-free")
	o.Label(lp.Literal != regexp.QuoteMeta(lp.Literal), "literal-pattern:escaped-metacharacters")
	lit := []byte(lp.Literal)
	if c.Matcher.IgnoreCase {
		lit = bytes.ToLower(lit)
	}
	for _, l := range ref {
		line := l.Line
		if c.Matcher.IgnoreCase {
			line = bytes.ToLower(line)
		}
		if !bytes.Contains(line, lit) {
			continue
		}
		anchored := lp.Left || lp.Right
		switch {
		case l.Indices == nil:
			o.Label(true, "anchors-reject-line-containing-the-literal")
		case anchored && len(line) == len(lit):
			o.Label(true, "anchored-literal-matches-line-equal-to-it")
		case anchored:
			o.Label(true, "half-anchored-literal-matches-longer-line")
		default:
			o.Label(true, "bare-literal-matches")
		}
	}
}

func classify(c pipe.Case) (bool, []string) {
	o := c.Obs
	nt := o.Has(">=3-batches-one-source") && o.Has("match-beyond-first-batch") &&
		(o.Has("non-participating-group") || o.Has("named-group") || o.Has("pool-refill(>1024)") || o.Has("timer-flush-observed") || o.Has("buffer-regrowth-with-following-lines") ||
			o.Has("anchors-reject-line-containing-the-literal") || o.Has("-z:gzip-magic-input-has-a-match"))
	return nt, o.All()
}

const rule = "same pipeline harness as C01 (generated corpora incl. lines equal to / properly containing the literals of the literal patterns, matcher pools incl. bare, half and fully anchored literals (^ $ \\A \\z (?m), escaped metacharacters, group-free and grouped), tunings, latency plans; file path: -z over non-gzip inputs incl. files that begin with the gzip magic 1f 8b but whose header a gzip reader rejects, which are plain text from their first byte); the consumer holds every Match until the channel closes, memory is churned, then each held match is compared with the sequential reference: source name, 1-based line number, byte-identical line text, capture offsets == leftmost match of an independently compiled regexp (resp. a private dissect instance), and the value of a template exposing {src} {line} {0}..{6} every named group and {@} evaluated through rare's match context vs an independent context; each (source,line) at most once; with one reader and one worker emission order == input order. Non-trivial: >=3 batches from one source, a match beyond the first batch, and one of: non-participating group, named group, >1024 dissect matches (pool refill), timer flush observed, >128KiB line followed by more lines, an anchored literal pattern rejecting a line that contains its literal, a match in a file that starts with the gzip magic without being gzip read under -z; distinct by case JSON"

func genFull(t *rapid.T, c pipe.Case) pipe.Case {
	if rapid.IntRange(0, 3).Draw(t, "fullExtract") != 0 {
		c.Extract = fullExtract(c.Matcher)
	}
	if rapid.IntRange(0, 2).Draw(t, "noIgnore") != 0 {
		c.Ignores = nil
	}
	return c
}

func TestFiles(t *testing.T) {
	pbt.Run(t, pbt.Spec[pipe.Case]{
		Property: "C02", Name: "files", Rule: "file path: " + rule,
		Budget: pbt.Budget{Quick: 9000, Thorough: 300000},
		Gen: func(t *rapid.T) pipe.Case {
			c := genFull(t, pipe.GenCase(t, 4, 300))
			if rapid.IntRange(0, 2).Draw(t, "serial") == 0 {
				c.Workers, c.Readers = 1, 1
			}
			return c
		},
		Check: check, Classify: classify,
	})
}

func TestReader(t *testing.T) {
	pbt.Run(t, pbt.Spec[pipe.Case]{
		Property: "C02", Name: "reader", Rule: "reader path (chunked reads incl. 0-byte reads): " + rule,
		Budget: pbt.Budget{Quick: 5000, Thorough: 150000},
		Gen: func(t *rapid.T) pipe.Case {
			c := genFull(t, pipe.GenReaderCase(t, 240, false))
			if rapid.IntRange(0, 2).Draw(t, "serial") == 0 {
				c.Workers = 1
			}
			return c
		},
		Check: check, Classify: classify,
	})
}

func TestTimeFlush(t *testing.T) {
	pbt.Run(t, pbt.Spec[pipe.Case]{
		Property: "C02", Name: "timeflush", Rule: "reader path with read stalls of 270 ms (> 250 ms auto-flush) so batches are cut by the timer, where the line-number bookkeeping differs from the size-based cut: " + rule,
		Budget: pbt.Budget{Quick: 128, Thorough: 2400},
		Gen: func(t *rapid.T) pipe.Case {
			c := genFull(t, pipe.GenReaderCase(t, 160, true))
			c.Batch = rapid.SampledFrom([]int{7, 64, 1000}).Draw(t, "bigbatch")
			return c
		},
		Check: check,
		Classify: func(c pipe.Case) (bool, []string) {
			// here the interesting event is the timer cut itself
			return c.Obs.Has("timer-flush-observed") && c.Obs.Get("matched") >= 3, c.Obs.All()
		},
	})
}

// TestBulk: >1024 dissect matches through few workers (forces the capture
// offset pool of a dissect instance to be refilled while earlier results are
// still held), and long regex runs.
func TestBulk(t *testing.T) {
	pbt.Run(t, pbt.Spec[pipe.Case]{
		Property: "C02", Name: "bulk", Rule: "1100-2600 lines assembled from a few generated line shapes, dissect or regex matcher, 1-2 workers, everything held until the end (dissect capture-offset pool refill after 1024 results): " + rule,
		Budget: pbt.Budget{Quick: 320, Thorough: 8000},
		Gen: func(t *rapid.T) pipe.Case {
			c := pipe.Case{Obs: pbt.NewObs()}
			shapes := rapid.IntRange(2, 5).Draw(t, "nshapes")
			var sh [][]byte
			for i := 0; i < shapes; i++ {
				sh = append(sh, pipe.GenContent(t, 3, false))
			}
			n := rapid.IntRange(1100, 2600).Draw(t, "n")
			var sb bytes.Buffer
			for i := 0; i < n; i++ {
				fmt.Fprintf(&sb, "%s %d a=b ", []string{"GET /x", "k=v", "err", "w1 w2 w3"}[i%4], i)
				sb.Write(sh[i%len(sh)])
				if sb.Len() == 0 || sb.Bytes()[sb.Len()-1] != '\n' {
					sb.WriteByte('\n')
				}
			}
			c.Inputs = []pipe.Input{{Name: "bulk.log", Content: pbt.S(sb.Bytes())}}
			if rapid.IntRange(0, 3).Draw(t, "kind") == 0 {
				c.Matcher = pipe.Matcher{Kind: "regex", Pattern: rapid.SampledFrom(pipe.RegexPool).Draw(t, "rpat")}
			} else {
				c.Matcher = pipe.Matcher{Kind: "dissect", Pattern: rapid.SampledFrom([]string{`%{a} %{b}`, `%{k}=%{v}`, `%{} %{second}`, `%{all}`, `%{w1} %{w2} %{w3}`, `=%{v}`, `GET %{p}`}).Draw(t, "dpat")}
			}
			c.Extract = fullExtract(c.Matcher)
			c.Batch = rapid.SampledFrom([]int{1, 7, 64, 1000}).Draw(t, "batch")
			c.Workers = rapid.IntRange(1, 2).Draw(t, "workers")
			c.Readers, c.BatchBuffer = 1, rapid.IntRange(1, 8).Draw(t, "bb")
			c.Procs = rapid.SampledFrom([]int{1, 4, 16}).Draw(t, "procs")
			return c
		},
		Check: check, Classify: classify,
	})
}

// ---- CLI layer: default filter output is the matched line ---------------

type CLICase struct {
	P     pipe.Case
	Color bool
	Lines bool // -l
}

var codes = func() []string {
	out := []string{"\x1b[0m"}
	for _, n := range []string{"31", "32", "33", "34", "35", "36"} {
		out = append(out, "\x1b["+n+"m", "\x1b["+n+";1m")
	}
	return out
}()

func stripCodes(s string) string {
	for _, c := range codes {
		s = strings.ReplaceAll(s, c, "")
	}
	return s
}

func checkCLI(cc CLICase) error {
	bin := os.Getenv("VERIF_RARE_BIN")
	if bin == "" {
		return nil
	}
	c := cc.P
	c.Extract = "{0}"
	c.Ignores = nil
	dir := caseDir()
	var files []string
	for i, in := range c.Inputs {
		fn := filepath.Join(dir, fmt.Sprintf("cli%02d-%s", i, in.Name))
		if err := os.WriteFile(fn, []byte(in.Content), 0o644); err != nil {
			return fmt.Errorf("harness: %v", err)
		}
		files = append(files, fn)
		defer os.Remove(fn)
	}
	args := []string{"--noformat"}
	if cc.Color {
		args = append(args, "--color")
	} else {
		args = append(args, "--nocolor")
	}
	args = append(args, "filter", "--batch", strconv.Itoa(c.Batch), "--workers", strconv.Itoa(c.Workers),
		"--readers", strconv.Itoa(c.Readers), "--batch-buffer", strconv.Itoa(c.BatchBuffer))
	if cc.Lines {
		args = append(args, "-l")
	}
	if c.UseGunzip() {
		args = append(args, "-z")
	}
	switch c.Matcher.Kind {
	case "regex":
		args = append(args, "-m", c.Matcher.Pattern)
		if c.Matcher.Posix {
			args = append(args, "-p")
		}
	case "dissect":
		args = append(args, "-d", c.Matcher.Pattern)
	}
	if c.Matcher.IgnoreCase && c.Matcher.Kind != "default" {
		args = append(args, "-I")
	}
	args = append(args, files...)
	cmd := exec.Command(bin, args...)
	cmd.Env = append(os.Environ(), "GOMAXPROCS="+strconv.Itoa(c.Procs))
	var stdout, stderr bytes.Buffer
	cmd.Stdout, cmd.Stderr = &stdout, &stderr
	runErr := cmd.Run()
	if ee, ok := runErr.(*exec.ExitError); ok {
		if ee.ExitCode() != 1 {
			return fmt.Errorf("rare %q exited %d\nstderr: %s", args, ee.ExitCode(), pbt.Trunc(stderr.String(), 1500))
		}
	} else if runErr != nil {
		return fmt.Errorf("harness: cannot run rare: %v", runErr)
	}
	ref, err := pipe.Reference(&c, files)
	if err != nil {
		return fmt.Errorf("harness: reference: %v", err)
	}
	var want []string
	for _, l := range ref {
		// the default extractor is {0}: a line whose whole match is empty has an empty key and is not emitted
		if l.Class == pipe.Matched {
			want = append(want, lineOut(cc, l))
		}
	}
	out := stdout.String()
	var got []string
	if out != "" {
		if !strings.HasSuffix(out, "\n") {
			return fmt.Errorf("stdout does not end with a newline")
		}
		got = strings.Split(strings.TrimSuffix(out, "\n"), "\n")
	}
	for i := range got {
		if cc.Color {
			got[i] = stripCodes(got[i])
		}
	}
	if c.Workers == 1 && c.Readers == 1 {
		if len(got) != len(want) {
			return fmt.Errorf("default filter output has %d lines, %d lines match\nargs=%q", len(got), len(want), args)
		}
		for i := range want {
			if got[i] != want[i] {
				return fmt.Errorf("default filter output line %d (colour codes removed) is %s, the matched line is %s\nargs=%q", i+1, pbt.Trunc(strconv.Quote(got[i]), 300), pbt.Trunc(strconv.Quote(want[i]), 300), args)
			}
		}
	} else if d := pipe.DiffMultiset(pipe.KeyMultiset(got), pipe.KeyMultiset(want)); d != "" {
		return fmt.Errorf("default filter output (colour codes removed) differs from the matched lines:\n%s\nargs=%q", d, args)
	}
	observe(&c, &pipe.Got{}, ref, c.Workers == 1 && c.Readers == 1)
	c.Obs.Label(cc.Color, "colour")
	c.Obs.Label(cc.Lines, "-l")
	return nil
}

func lineOut(cc CLICase, l pipe.RefLine) string {
	if cc.Lines {
		return fmt.Sprintf("%s %d: %s", l.Source, l.LineNo, l.Line)
	}
	return string(l.Line)
}

func TestCLI(t *testing.T) {
	pbt.Run(t, pbt.Spec[CLICase]{
		Property: "C02", Name: "cli",
		Rule:   "the real binary without -e: rare [--color|--nocolor] filter [-l] [-m|-d ..] files..; stdout with exactly the codes WrapIndices can emit (12 group colours + reset) removed must be the matched lines (with -l prefixed by 'source line: '), in input order for one reader and one worker, as a multiset otherwise. Lines containing ESC are excluded by construction in colour mode. Non-trivial as above",
		Budget: pbt.Budget{Quick: 400, Thorough: 12000},
		Gen: func(t *rapid.T) CLICase {
			cc := CLICase{P: pipe.GenCase(t, 3, 200)}
			cc.Color = rapid.Bool().Draw(t, "color")
			cc.Lines = rapid.IntRange(0, 2).Draw(t, "l") == 0
			cc.P.MatchDelay, cc.P.ConsumeDelay = nil, nil
			if rapid.IntRange(0, 1).Draw(t, "serial") == 0 {
				cc.P.Workers, cc.P.Readers = 1, 1
			}
			if cc.Color {
				for i := range cc.P.Inputs {
					if bytes.Contains([]byte(cc.P.Inputs[i].Content), []byte{0x1b}) {
						pbt.Exclude("colour-mode-input-containing-ESC")
						cc.P.Inputs[i].Content = pbt.S(bytes.ReplaceAll([]byte(cc.P.Inputs[i].Content), []byte{0x1b}, []byte{'E'}))
					}
				}
			}
			return cc
		},
		Check: checkCLI,
		Classify: func(cc CLICase) (bool, []string) {
			return classify(cc.P)
		},
	})
}
