// Package pbt is the shared driver of every property check under /verif.
//
// A property package states each sub-property as a Spec: a rapid generator
// for a JSON-serialisable case, an oracle (Check) that returns an error when
// the property is violated on that case, and a classifier that says whether
// the case is non-trivial and which labels describe it. Run drives rapid with
// the seed and budget given by the launcher (/verif/check), counts what was
// generated, journals the running case, turns panics and non-termination into
// violations, and writes a replay file holding the (shrunk) failing case.
//
// Environment (set by /verif/check):
//
//	VERIF_OUT     directory for evidence fragments, journals, replays
//	VERIF_SEED    integer seed (0 is remapped)
//	VERIF_TIER    quick | thorough
//	VERIF_SHARD   k   (0-based)      VERIF_SHARDS n
//	VERIF_REPLAY  path of a replay file: run the oracle on that case only
//	VERIF_SCALE   float multiplier applied to every case budget (default 1)
package pbt

import (
	"encoding/binary"
	"encoding/json"
	"flag"
	"fmt"
	"hash/fnv"
	"os"
	"path/filepath"
	"runtime"
	"runtime/debug"
	"sort"
	"strconv"
	"strings"
	"sync"
	"sync/atomic"
	"testing"
	"time"

	"pgregory.net/rapid"
)

// Budget is the number of generated cases per tier (whole run, all shards).
type Budget struct {
	Quick, Thorough int
}

// Spec is one generated sub-property.
type Spec[C any] struct {
	Property string // C04
	Name     string // sub-property name, unique within the property
	Rule     string // how cases are generated and what makes one non-trivial
	Budget   Budget
	Gen      func(t *rapid.T) C
	// Check is the oracle. nil = held. It runs under recover and a watchdog.
	Check func(c C) error
	// Classify says whether the case is non-trivial and labels it.
	Classify func(c C) (nontrivial bool, labels []string)
	// Watchdog bounds one case (default 20s). Non-return is a violation.
	Watchdog time.Duration
	// Steps sets -rapid.steps for state-machine specs (0 = default).
	Steps int
	// NoWatchdogViolation: when true a watchdog expiry is reported as
	// inconclusive (exit 2) rather than as a violation.
	NoWatchdogViolation bool
}

type fragment struct {
	Property    string            `json:"property"`
	Sub         string            `json:"sub"`
	Shard       int               `json:"shard"`
	Seed        uint64            `json:"seed"`
	RapidSeed   uint64            `json:"rapid_seed"`
	Tier        string            `json:"tier"`
	Rule        string            `json:"rule"`
	Evaluations int               `json:"evaluations"`
	Nontrivial  int               `json:"nontrivial_evaluations"`
	Distinct    int               `json:"distinct_nontrivial"`
	HashFile    string            `json:"hash_file"`
	HashCapped  bool              `json:"hash_capped"`
	Labels      map[string]int    `json:"labels"`
	Excluded    map[string]int    `json:"excluded"`
	Samples     []json.RawMessage `json:"samples"`
	Exhaustive  bool              `json:"exhaustive"`
	WallS       float64           `json:"wall_s"`
	Requested   int               `json:"requested"`
	Failed      bool              `json:"failed"`
	Replay      string            `json:"replay,omitempty"`
	Message     string            `json:"message,omitempty"`
}

const hashCap = 400000

type counter struct {
	mu       sync.Mutex
	frag     fragment
	hashes   map[uint64]struct{}
	shrink   bool
	outDir   string
	lastFail string
}

var (
	exclMu   sync.Mutex
	excluded = map[string]int{}
)

// Exclude records that a generator left out (or an oracle skipped) a case of
// the named class; the counts are reported in the evidence file.
func Exclude(class string) {
	exclMu.Lock()
	excluded[class]++
	exclMu.Unlock()
}

func envInt(name string, def int) int {
	if v := os.Getenv(name); v != "" {
		if n, err := strconv.Atoi(v); err == nil {
			return n
		}
	}
	return def
}

// Tier returns "quick" or "thorough".
func Tier() string {
	if os.Getenv("VERIF_TIER") == "thorough" {
		return "thorough"
	}
	return "quick"
}

// Thorough reports whether the thorough tier is running.
func Thorough() bool { return Tier() == "thorough" }

// Seed returns the user seed (VERIF_SEED), remapped away from 0.
func Seed() uint64 {
	s, err := strconv.ParseUint(os.Getenv("VERIF_SEED"), 10, 64)
	if err != nil || s == 0 {
		if v, err2 := strconv.ParseInt(os.Getenv("VERIF_SEED"), 10, 64); err2 == nil && v != 0 {
			return uint64(v)
		}
		return 0x5eed5eed
	}
	return s
}

func splitmix(x uint64) uint64 {
	x += 0x9e3779b97f4a7c15
	x = (x ^ (x >> 30)) * 0xbf58476d1ce4e5b9
	x = (x ^ (x >> 27)) * 0x94d049bb133111eb
	return x ^ (x >> 31)
}

func strHash(s string) uint64 {
	h := fnv.New64a()
	h.Write([]byte(s))
	return h.Sum64()
}

// Shard returns (k, n).
func Shard() (int, int) {
	n := envInt("VERIF_SHARDS", 1)
	if n < 1 {
		n = 1
	}
	k := envInt("VERIF_SHARD", 0)
	return k, n
}

// OutDir is where fragments / journals / replays go.
func OutDir() string {
	d := os.Getenv("VERIF_OUT")
	if d == "" {
		d = filepath.Join(os.TempDir(), "verif-out")
	}
	os.MkdirAll(d, 0o755)
	return d
}

func scale() float64 {
	if v := os.Getenv("VERIF_SCALE"); v != "" {
		if f, err := strconv.ParseFloat(v, 64); err == nil && f > 0 {
			return f
		}
	}
	return 1
}

// Cases returns the number of cases this shard should run for a budget.
func Cases(b Budget) int {
	n := b.Quick
	if Thorough() {
		n = b.Thorough
	}
	_, shards := Shard()
	n = int(float64(n) * scale())
	per := n / shards
	if per < 1 {
		per = 1
	}
	return per
}

type replayFile struct {
	Property string          `json:"property"`
	Sub      string          `json:"sub"`
	Seed     uint64          `json:"seed"`
	Error    string          `json:"error"`
	Case     json.RawMessage `json:"case"`
}

func newCounter(prop, sub, rule string) *counter {
	k, _ := Shard()
	c := &counter{hashes: map[uint64]struct{}{}, outDir: OutDir()}
	c.frag = fragment{Property: prop, Sub: sub, Shard: k, Seed: Seed(), Tier: Tier(), Rule: rule,
		Labels: map[string]int{}, Excluded: map[string]int{}}
	return c
}

func (c *counter) base() string {
	return filepath.Join(c.outDir, fmt.Sprintf("%s.%s.%d", c.frag.Property, c.frag.Sub, c.frag.Shard))
}

func (c *counter) journal(js []byte) {
	os.WriteFile(c.base()+".current", js, 0o644)
}

func (c *counter) record(js []byte, nontrivial bool, labels []string) {
	c.mu.Lock()
	defer c.mu.Unlock()
	c.frag.Evaluations++
	for _, l := range labels {
		c.frag.Labels[l]++
	}
	if nontrivial {
		c.frag.Nontrivial++
		h := fnv.New64a()
		h.Write([]byte(c.frag.Sub))
		h.Write([]byte{0})
		h.Write(js)
		hv := h.Sum64()
		if len(c.hashes) < hashCap {
			c.hashes[hv] = struct{}{}
		} else {
			c.frag.HashCapped = true
		}
		if len(c.frag.Samples) < 3 && len(js) < 4000 {
			c.frag.Samples = append(c.frag.Samples, json.RawMessage(append([]byte(nil), js...)))
		}
	}
}

func (c *counter) writeReplay(js []byte, err error) string {
	p := c.base() + ".replay.json"
	rf := replayFile{Property: c.frag.Property, Sub: c.frag.Sub, Seed: c.frag.Seed, Error: err.Error(), Case: js}
	out, _ := json.MarshalIndent(rf, "", " ")
	os.WriteFile(p, out, 0o644)
	return p
}

func (c *counter) flush(start time.Time) {
	c.mu.Lock()
	defer c.mu.Unlock()
	c.frag.WallS = time.Since(start).Seconds()
	c.frag.Distinct = len(c.hashes)
	if n := slowCases.Swap(0); n > 0 {
		Note(c.frag.Property, "slow_cases", n)
	}
	exclMu.Lock()
	for k, v := range excluded {
		c.frag.Excluded[k] = v
	}
	exclMu.Unlock()
	hf := c.base() + ".hashes"
	buf := make([]byte, 0, 8*len(c.hashes))
	for h := range c.hashes {
		buf = binary.LittleEndian.AppendUint64(buf, h)
	}
	os.WriteFile(hf, buf, 0o644)
	c.frag.HashFile = hf
	out, _ := json.Marshal(c.frag)
	os.WriteFile(c.base()+".frag.json", out, 0o644)
	os.Remove(c.base() + ".current")
}

// Guard runs f under recover, converting a panic into an error carrying the
// stack.
func Guard(f func() error) (err error) {
	defer func() {
		if r := recover(); r != nil {
			st := string(debug.Stack())
			if len(st) > 3000 {
				st = st[:3000]
			}
			err = fmt.Errorf("panic: %v\n%s", r, st)
		}
	}()
	return f()
}

// ErrHang is returned by WithWatchdog when f did not return in time.
type ErrHang struct{ After time.Duration }

func (e ErrHang) Error() string {
	return fmt.Sprintf("did not return within %v (non-termination)", e.After)
}

// graceFactor: a case that has not returned after d is given graceFactor*d
// more before it is called non-terminating. d is already two to three orders
// of magnitude above an honest case on an idle machine; the grace covers a
// machine that is busy with other checks (load 30+ on 16 cores was seen to
// stretch a sleeping pipeline case past 20 s). A case that finishes inside
// the grace is counted as slow (evidence note "slow_cases"), not as a hang.
const graceFactor = 12

var slowCases atomic.Int64

// SlowCases reports how many cases needed the grace period.
func SlowCases() int64 { return slowCases.Load() }

// WithWatchdog runs f in a goroutine under recover and waits at most d (plus
// the grace period) for it.
func WithWatchdog(d time.Duration, f func() error) error {
	done := make(chan error, 1)
	go func() { done <- Guard(f) }()
	tm := time.NewTimer(d)
	defer tm.Stop()
	select {
	case err := <-done:
		return err
	case <-tm.C:
	}
	grace := graceFactor * d
	if grace > 4*time.Minute {
		grace = 4 * time.Minute
	}
	tm2 := time.NewTimer(grace)
	defer tm2.Stop()
	select {
	case err := <-done:
		slowCases.Add(1)
		fmt.Printf("VERIF-SLOW case needed more than %v (finished within the grace period)\n", d)
		return err
	case <-tm2.C:
		return ErrHang{d + grace}
	}
}

func setFlag(name, val string) {
	if f := flag.Lookup(name); f != nil {
		f.Value.Set(val)
	}
}

func loadReplay[C any](t *testing.T, path, prop, sub string) (C, bool) {
	var zero C
	raw, err := os.ReadFile(path)
	if err != nil {
		t.Fatalf("replay: %v", err)
	}
	var rf replayFile
	if err := json.Unmarshal(raw, &rf); err != nil {
		t.Fatalf("replay: %v", err)
	}
	if rf.Property != prop || rf.Sub != sub {
		return zero, false
	}
	var c C
	if err := json.Unmarshal(rf.Case, &c); err != nil {
		t.Fatalf("replay: cannot decode case: %v", err)
	}
	return c, true
}

// Run drives one sub-property.
func Run[C any](t *testing.T, spec Spec[C]) {
	t.Helper()
	wd := spec.Watchdog
	if wd == 0 {
		wd = 20 * time.Second
	}
	oracle := func(c C) error {
		return WithWatchdog(wd, func() error { return spec.Check(c) })
	}

	if rp := os.Getenv("VERIF_REPLAY"); rp != "" {
		c, ok := loadReplay[C](t, rp, spec.Property, spec.Name)
		if !ok {
			t.Skip("replay file is for another sub-property")
		}
		if err := oracle(c); err != nil {
			fmt.Printf("REPLAY-FAIL property=%s sub=%s: %v\n", spec.Property, spec.Name, err)
			t.Fatalf("replay fails: %v", err)
		}
		fmt.Printf("REPLAY-OK property=%s sub=%s\n", spec.Property, spec.Name)
		return
	}

	cnt := newCounter(spec.Property, spec.Name, spec.Rule)
	start := time.Now()
	k, _ := Shard()
	n := Cases(spec.Budget)
	rs := splitmix(Seed()*0x100000001b3 ^ splitmix(uint64(k)+1) ^ strHash(spec.Property+"/"+spec.Name))
	rs &= (1 << 62) - 1
	if rs == 0 {
		rs = 1
	}
	cnt.frag.RapidSeed = rs
	cnt.frag.Requested = n
	setFlag("rapid.checks", strconv.Itoa(n))
	setFlag("rapid.seed", strconv.FormatUint(rs, 10))
	setFlag("rapid.nofailfile", "true")
	if spec.Steps > 0 {
		setFlag("rapid.steps", strconv.Itoa(spec.Steps))
	}
	defer cnt.flush(start)

	// regression tier: saved witnesses of earlier failures, fed straight to
	// the oracle with no library in between (shard 0 only).
	if k == 0 {
		files, _ := filepath.Glob(filepath.Join(os.Getenv("VERIF_REGRESS"), "*.json"))
		sort.Strings(files)
		for _, f := range files {
			c, ok := loadReplay[C](t, f, spec.Property, spec.Name)
			if !ok {
				continue
			}
			cnt.mu.Lock()
			cnt.frag.Labels["regression-case"]++
			cnt.mu.Unlock()
			if err := oracle(c); err != nil {
				js, _ := json.Marshal(c)
				p := cnt.writeReplay(js, err)
				cnt.frag.Failed = true
				cnt.frag.Replay = p
				cnt.frag.Message = fmt.Sprintf("regression case %s fails: %v", filepath.Base(f), err)
				t.Fatalf("regression case %s: %v", f, err)
			}
		}
	}

	rapid.Check(t, func(rt *rapid.T) {
		c := spec.Gen(rt)
		js, jerr := json.Marshal(c)
		if jerr != nil {
			panic(fmt.Sprintf("pbt: case not serialisable: %v", jerr))
		}
		cnt.journal(js)
		err := oracle(c)
		nt, labels := false, []string(nil)
		if spec.Classify != nil {
			nt, labels = spec.Classify(c)
		}
		cnt.record(js, nt, labels)
		if err != nil {
			p := cnt.writeReplay(js, err)
			cnt.mu.Lock()
			cnt.frag.Failed = true
			cnt.frag.Replay = p
			cnt.frag.Message = err.Error()
			cnt.mu.Unlock()
			if _, hang := err.(ErrHang); hang {
				// the stuck goroutine cannot be reclaimed: report and leave.
				verdict := "VERIF-FAIL"
				if spec.NoWatchdogViolation {
					verdict = "VERIF-INCONCLUSIVE"
					cnt.mu.Lock()
					cnt.frag.Failed = false // inconclusive, not a violation
					cnt.mu.Unlock()
				}
				cnt.flush(start)
				fmt.Printf("%s property=%s sub=%s replay=%s :: %v\n", verdict, spec.Property, spec.Name, p, err)
				os.Stdout.Sync()
				os.Exit(7)
			}
			rt.Fatalf("%v", err)
		}
	})
}

// Enum drives a bounded-exhaustive enumeration: next is called with
// successive indexes until it returns false; cases are distributed over the
// shards by index.
func Enum[C any](t *testing.T, spec Spec[C], each func(yield func(c C) bool)) {
	t.Helper()
	wd := spec.Watchdog
	if wd == 0 {
		wd = 20 * time.Second
	}
	if rp := os.Getenv("VERIF_REPLAY"); rp != "" {
		c, ok := loadReplay[C](t, rp, spec.Property, spec.Name)
		if !ok {
			t.Skip("replay file is for another sub-property")
		}
		if err := WithWatchdog(wd, func() error { return spec.Check(c) }); err != nil {
			fmt.Printf("REPLAY-FAIL property=%s sub=%s: %v\n", spec.Property, spec.Name, err)
			t.Fatalf("replay fails: %v", err)
		}
		fmt.Printf("REPLAY-OK property=%s sub=%s\n", spec.Property, spec.Name)
		return
	}
	cnt := newCounter(spec.Property, spec.Name, spec.Rule)
	cnt.frag.Exhaustive = true
	start := time.Now()
	defer cnt.flush(start)
	k, n := Shard()
	idx := 0
	var fail error
	each(func(c C) bool {
		mine := idx%n == k
		idx++
		if !mine {
			return true
		}
		err := Guard(func() error { return spec.Check(c) })
		var js []byte
		nt, labels := false, []string(nil)
		if spec.Classify != nil {
			nt, labels = spec.Classify(c)
		}
		if nt || err != nil {
			js, _ = json.Marshal(c)
		}
		cnt.record(js, nt, labels)
		if err != nil {
			p := cnt.writeReplay(js, err)
			cnt.frag.Failed = true
			cnt.frag.Replay = p
			cnt.frag.Message = err.Error()
			fail = err
			return false
		}
		return true
	})
	cnt.frag.Requested = cnt.frag.Evaluations
	if fail != nil {
		t.Fatalf("%v", fail)
	}
}

// Known prints the KNOWN-FINDING line the launcher relays, when the witness
// of a listed finding still fails. witness returns an error iff the defect is
// (still) present.
func Known(property, key, what string, witness func() error) {
	err := WithWatchdog(20*time.Second, witness)
	if err != nil {
		fmt.Printf("KNOWN-FINDING: property=%s %s [%s]\n", property, what, key)
	} else {
		fmt.Printf("KNOWN-FINDING-GONE: property=%s key=%s (witness passes on this tree)\n", property, key)
	}
}

type knownEntry struct {
	Property string `json:"property"`
	Key      string `json:"key"`
	Status   string `json:"status"`
	What     string `json:"what"`
	Line     string `json:"line"`
}

var (
	knownOnce sync.Once
	knownList []knownEntry
)

func loadKnown() {
	knownOnce.Do(func() {
		p := os.Getenv("VERIF_KNOWN")
		if p == "" {
			p = "/verif/known_findings.json"
		}
		raw, err := os.ReadFile(p)
		if err != nil {
			return
		}
		var f struct {
			Findings []knownEntry `json:"findings"`
		}
		if json.Unmarshal(raw, &f) == nil {
			knownList = f.Findings
		}
	})
}

// IsKnown reports whether known_findings.json (committed, read-only at run
// time) lists (property, key) with status "known". Generators use it to leave
// the listed class out of the search (counting what they leave out with
// Exclude); when the entry is absent or "fixed" the class is searched like
// any other, so a fixed defect that returns is reported as a VIOLATION.
func IsKnown(property, key string) bool {
	loadKnown()
	for _, e := range knownList {
		if e.Property == property && e.Key == key && e.Status == "known" {
			return true
		}
	}
	return false
}

// ReportKnown replays the witness of a listed known finding (shard 0 only)
// and prints the KNOWN-FINDING line when it still fails. It does nothing when
// the finding is not listed as known.
func ReportKnown(property, key string, witness func() error) {
	if !IsKnown(property, key) {
		return
	}
	if k, _ := Shard(); k != 0 {
		return
	}
	what := key
	for _, e := range knownList {
		if e.Property == property && e.Key == key && e.What != "" {
			what = e.What
		}
	}
	Known(property, key, what, witness)
}

// Note appends free-form numbers to the evidence (merged by the launcher).
func Note(property, key string, v any) {
	d := OutDir()
	k, _ := Shard()
	js, _ := json.Marshal(map[string]any{"key": key, "value": v})
	f, err := os.OpenFile(filepath.Join(d, fmt.Sprintf("%s.notes.%d.jsonl", property, k)), os.O_APPEND|os.O_CREATE|os.O_WRONLY, 0o644)
	if err == nil {
		f.Write(append(js, '\n'))
		f.Close()
	}
}

// Labels is a small helper to build label lists.
type Labels []string

func (l *Labels) Add(cond bool, name string) {
	if cond {
		*l = append(*l, name)
	}
}

// SortedKeys returns the sorted keys of a map.
func SortedKeys[V any](m map[string]V) []string {
	ks := make([]string, 0, len(m))
	for k := range m {
		ks = append(ks, k)
	}
	sort.Strings(ks)
	return ks
}

// Churn allocates and scribbles to provoke reuse of freed memory, then GCs.
func Churn(mib int) {
	var keep [][]byte
	for i := 0; i < mib; i++ {
		b := make([]byte, 1<<20)
		for j := 0; j < len(b); j += 512 {
			b[j] = 0xA5
		}
		keep = append(keep, b)
	}
	runtime.KeepAlive(keep)
	keep = nil
	runtime.GC()
}

// Trunc shortens a string for messages.
func Trunc(s string, n int) string {
	if len(s) <= n {
		return s
	}
	return s[:n] + "…(" + strconv.Itoa(len(s)) + " bytes)"
}

// Q quotes bytes for messages.
func Q(b []byte) string { return Trunc(strconv.Quote(string(b)), 300) }

var _ = strings.TrimSpace
