package pbt

import (
	"encoding/json"
	"fmt"
	"strconv"
)

// S is a byte string that survives JSON exactly and stays readable: it is
// written as a JSON string holding the Go-quoted (strconv.QuoteToASCII) form,
// so NUL, invalid UTF-8 and control characters round-trip byte for byte.
type S string

func (s S) MarshalJSON() ([]byte, error) {
	return json.Marshal(strconv.QuoteToASCII(string(s)))
}

func (s *S) UnmarshalJSON(b []byte) error {
	var q string
	if err := json.Unmarshal(b, &q); err != nil {
		return err
	}
	u, err := strconv.Unquote(q)
	if err != nil {
		return fmt.Errorf("pbt.S: %v", err)
	}
	*s = S(u)
	return nil
}

// SS converts a list of strings.
func SS(in []string) []S {
	out := make([]S, len(in))
	for i, s := range in {
		out[i] = S(s)
	}
	return out
}

// Strs converts back.
func Strs(in []S) []string {
	out := make([]string, len(in))
	for i, s := range in {
		out[i] = string(s)
	}
	return out
}

// Obs is a side channel from an oracle to the classifier: a case struct
// embeds `Obs *pbt.Obs` with `json:"-"`; the generator allocates it, the
// oracle records what it observed while running (labels that cannot be
// computed from the case alone), the classifier reads it. All methods are
// nil-safe because a replayed case has no Obs.
type Obs struct {
	Labels []string
	Flags  map[string]bool
	N      map[string]int
}

func NewObs() *Obs { return &Obs{Flags: map[string]bool{}, N: map[string]int{}} }

func (o *Obs) Label(cond bool, name string) {
	if o == nil || !cond || o.Flags[name] {
		return
	}
	o.Flags[name] = true
	o.Labels = append(o.Labels, name)
}

func (o *Obs) Has(name string) bool { return o != nil && o.Flags[name] }

func (o *Obs) Add(name string, n int) {
	if o != nil {
		o.N[name] += n
	}
}

func (o *Obs) Get(name string) int {
	if o == nil {
		return 0
	}
	return o.N[name]
}

func (o *Obs) All() []string {
	if o == nil {
		return nil
	}
	return o.Labels
}
