// C03 — final aggregates equal the reference aggregation, for every tuning.
// Always through the real binary.
package c03

import (
	"bytes"
	"compress/gzip"
	"fmt"
	"math"
	"math/big"
	"os"
	"os/exec"
	"path/filepath"
	"regexp"
	"sort"
	"strconv"
	"strings"
	"sync"
	"testing"

	"pgregory.net/rapid"
	"rare/pkg/multiterm"
	"rare/pkg/multiterm/termrenderers"
	"verifharness/model"
	"verifharness/pbt"
	"verifharness/pipe"
)

var (
	dirOnce sync.Once
	workDir string
)

func caseDir() string {
	dirOnce.Do(func() {
		d := os.Getenv("VERIF_SCRATCH")
		if d == "" {
			d = os.TempDir()
		}
		workDir, _ = os.MkdirTemp(d, "c03-")
	})
	return workDir
}

// Tuning is one way of running the same aggregation.
type Tuning struct {
	Workers, Batch, BatchBuffer, Readers, Procs int
	Cuts                                        []int  // the line list is cut into len(Cuts)+1 files at these line indexes (sorted)
	Order                                       []int  // permutation of the file arguments
	Stdin                                       bool   // all lines on stdin instead of files
	Gzip                                        []bool // per file: written gzip-compressed (then -z is passed)
}

// Case: a command, its expressions, the corpus as a list of lines, and >=2 tunings.
type Case struct {
	Cmd      string   // histo | table | heatmap | spark | bars | analyze | reduce | reduce-serial
	Lines    []pbt.S  // every line is written newline-terminated
	Extracts []string // -e (joined with NUL by rare)
	Ignores  []string
	Flags    []string // command specific flags (sort, delim..)
	Delim    string   // table | heatmap | spark: --delim (the key/sub-key/increment separator written into one -e); "" = several -e, joined by the default NUL
	Groups   []string // reduce -g
	Accums   []string // reduce -a
	Tunings  []Tuning
	Obs      *pbt.Obs `json:"-"`
}

const matchExpr = `^([^ ]*) ?([^ ]*) ?([^ ]*)$`

var (
	keyPool  = []string{"a", "b", "c", "aa", "B", `"q"`, "x,y", "", "é", "\xff", "\t", "k\r", "10", "9", "-", "a\"b", ",", "\r"}
	subPool  = []string{"x", "y", "z", "", `"`, "p,q", "X", "2", "11", "\r", "é"}
	incPool  = []string{"1", "2", "-3", "0", "7", "1000000", "9223372036854775807", "-9223372036854775808", "abc", "1.5", "+5", "", " ", "-", "+", "9223372036854775808", "007", "0x10", "1_0"}
	goodIncs = []string{"1", "2", "-3", "0", "7", "1000000", "41"}
	numPool  = []string{"1", "2", "3", "3", "10", "-4", "0", "250", "7", "7", "1000", "15", "2.5", "-0.5", "1e3", "abc", ""}
)

var ignorePool = []string{`{eq {1} a}`, `{eq {2} x}`, `{not {2}}`, `{lt {len {0}} 3}`, `{eq {1} b}`, `{eq {2} y}`, `{prefix {1} k}`}
var ignoreIdx = []int{0, 1, 2, 3, 4, 5, 6}

func genLines(t *rapid.T, cmd string) []pbt.S {
	n := rapid.IntRange(0, 60).Draw(t, "nlines")
	if rapid.IntRange(0, 5).Draw(t, "many") == 0 {
		n = rapid.IntRange(60, 1500).Draw(t, "nlines2")
	}
	out := make([]pbt.S, 0, n)
	if cmd != "analyze" && rapid.IntRange(0, 24).Draw(t, "aligned") == 0 {
		// fixed 32-byte records spanning 1-2 read buffers (128 KiB): every
		// 4096th line ends exactly on a buffer boundary when read from one file
		n = rapid.SampledFrom([]int{4096, 4100, 8192, 8200}).Draw(t, "nrecords")
		for i := 0; i < n; i++ {
			k := fmt.Sprintf("k%d", i%5)
			rest := fmt.Sprintf(" s%d %d", i%3, 1+i%4)
			for len(k)+len(rest) < 31 {
				k += "p"
			}
			out = append(out, pbt.S(k+rest))
		}
		return out
	}
	// a small per-case vocabulary so that keys collide
	nk := rapid.IntRange(1, 6).Draw(t, "nk")
	var ks, ss []string
	for i := 0; i < nk; i++ {
		ks = append(ks, rapid.SampledFrom(keyPool).Draw(t, "k"))
		ss = append(ss, rapid.SampledFrom(subPool).Draw(t, "s"))
	}
	incs := incPool
	if cmd == "reduce" || cmd == "reduce-serial" {
		incs = goodIncs
		if rapid.IntRange(0, 2).Draw(t, "emptyGroup") == 0 {
			ks[0] = "" // a group whose key is empty (no parts) among others
		}
	}
	if cmd == "analyze" {
		incs = numPool
	}
	badIncs := rapid.IntRange(0, 2).Draw(t, "badIncs") == 0
	for i := 0; i < n; i++ {
		k := ks[rapid.IntRange(0, nk-1).Draw(t, "ki")]
		s := ss[rapid.IntRange(0, nk-1).Draw(t, "si")]
		var line string
		shape := rapid.IntRange(0, 5).Draw(t, "shape")
		if cmd == "reduce" || cmd == "reduce-serial" {
			shape = 5 // the accumulators read {3}: always present and an integer
		}
		switch shape {
		case 0:
			line = k
		case 1:
			line = k + " " + s
		default:
			inc := rapid.SampledFrom(incs).Draw(t, "inc")
			if !badIncs && cmd != "analyze" {
				if _, err := strconv.ParseInt(inc, 10, 64); err != nil {
					inc = "1"
				}
			}
			line = k + " " + s + " " + inc
		}
		out = append(out, pbt.S(line))
	}
	return out
}

func genTuning(t *rapid.T, nlines int, serial bool, allowStdin bool) Tuning {
	tu := Tuning{
		Workers:     rapid.IntRange(1, 16).Draw(t, "workers"),
		Batch:       rapid.SampledFrom([]int{1, 2, 3, 7, 50, 1000}).Draw(t, "batch"),
		BatchBuffer: rapid.IntRange(1, 16).Draw(t, "bb"),
		Readers:     rapid.IntRange(1, 6).Draw(t, "readers"),
		Procs:       rapid.SampledFrom([]int{1, 2, 4, 16}).Draw(t, "procs"),
	}
	if serial {
		tu.Workers, tu.Readers = 1, 1
	}
	if allowStdin && rapid.IntRange(0, 5).Draw(t, "stdin") == 0 {
		tu.Stdin = true
		return tu
	}
	nf := rapid.IntRange(1, 6).Draw(t, "nfiles")
	for i := 1; i < nf; i++ {
		tu.Cuts = append(tu.Cuts, rapid.IntRange(0, nlines).Draw(t, "cut"))
	}
	sort.Ints(tu.Cuts)
	tu.Order = make([]int, nf)
	for i := range tu.Order {
		tu.Order[i] = i
	}
	if !serial {
		for i := nf - 1; i > 0; i-- {
			j := rapid.IntRange(0, i).Draw(t, "perm")
			tu.Order[i], tu.Order[j] = tu.Order[j], tu.Order[i]
		}
	}
	if rapid.IntRange(0, 3).Draw(t, "gz") == 0 {
		tu.Gzip = make([]bool, nf)
		for i := range tu.Gzip {
			tu.Gzip[i] = rapid.Bool().Draw(t, "gzi")
		}
	}
	return tu
}

func gen(t *rapid.T) Case {
	c := Case{Obs: pbt.NewObs()}
	c.Cmd = rapid.SampledFrom([]string{"histo", "histo", "table", "table", "heatmap", "spark", "bars", "bars", "analyze", "reduce", "reduce-serial"}).Draw(t, "cmd")
	c.Lines = genLines(t, c.Cmd)
	withInc := rapid.Bool().Draw(t, "withInc")
	nl := rapid.IntRange(0, 3).Draw(t, "newlineKey") == 0
	k1 := "{1}"
	if nl {
		k1 = `{1}\n{2}` // a key containing a line feed
	}
	switch c.Cmd {
	case "histo":
		c.Extracts = []string{k1}
		if withInc {
			c.Extracts = append(c.Extracts, "{3}")
		}
		c.Flags = append(c.Flags, "--sort", rapid.SampledFrom([]string{"value", "text", "value:asc", "text:desc"}).Draw(t, "sort"))
		if rapid.Bool().Draw(t, "x") {
			c.Flags = append(c.Flags, "-x")
		}
		c.Flags = append(c.Flags, "-n", strconv.Itoa(rapid.SampledFrom([]int{0, 1, 5, 100}).Draw(t, "n")))
	case "table", "heatmap", "spark":
		c.Extracts = []string{k1, "{2}"}
		if withInc {
			c.Extracts = append(c.Extracts, "{3}")
		}
		c.Flags = append(c.Flags, "--sort-rows", rapid.SampledFrom([]string{"text", "value", "text:desc"}).Draw(t, "sr"),
			"--sort-cols", rapid.SampledFrom([]string{"text", "value", "value:asc"}).Draw(t, "sc"))
		if c.Cmd == "spark" {
			c.Flags = append(c.Flags, "--notruncate")
		}
		if rapid.IntRange(0, 2).Draw(t, "delim") == 0 && !strings.ContainsAny(k1, "\\") {
			// a separator of the user's choice, one or several bytes long
			c.Delim = rapid.SampledFrom([]string{";", "::", "→", " | "}).Draw(t, "delimText")
		}
		if c.Cmd == "table" && rapid.Bool().Draw(t, "x") {
			c.Flags = append(c.Flags, "-x")
		}
	case "bars":
		c.Extracts = []string{k1, "{2}"}
		if withInc {
			c.Extracts = append(c.Extracts, "{3}")
		}
		c.Flags = append(c.Flags, "--sort", rapid.SampledFrom([]string{"text", "value", "text:desc"}).Draw(t, "sort"))
		if rapid.Bool().Draw(t, "stacked") {
			c.Flags = append(c.Flags, "-s")
		}
	case "analyze":
		c.Extracts = []string{"{3}"}
		if rapid.Bool().Draw(t, "x") {
			c.Flags = append(c.Flags, "-x", "-q", "50", "-q", "90")
		}
	case "reduce":
		c.Extracts = []string{"{1}", "{2}", "{3}"}
		if rapid.IntRange(0, 3).Draw(t, "grouped") != 0 {
			c.Groups = []string{"k={1}"}
			if rapid.Bool().Draw(t, "g2") {
				c.Groups = append(c.Groups, "s={2}")
			}
		}
		c.Accums = []string{"n={sumi {.} 1}", "sum={sumi {.} {3}}", "mx={maxi {.} {3}}"}
		// rows ordered by a data column instead of by group name: the CSV is
		// then written in an order in which an empty group value can follow
		// a non-empty one (the writer reuses one row buffer)
		switch rapid.IntRange(0, 3).Draw(t, "rsort") {
		case 1:
			c.Flags = append(c.Flags, "--sort", "{sum}")
		case 2:
			c.Flags = append(c.Flags, "--sort", "{n}", "--sort-reverse")
		}
	case "reduce-serial":
		c.Extracts = []string{"{1}", "{2}", "{3}"}
		c.Groups = []string{"k={1}"}
		c.Accums = []string{"n={sumi {.} 1}", "cat:={.}{2};", "last:={3}", "diff={subi {multi {.} 2} {3}}"}
	}
	// display options of the command line: they select / decorate what the final frame shows, never what
	// is aggregated, so the CSV export and the exit status must not move and the snapshot must stay a
	// function of the data (compared between tunings like everything else)
	if rapid.IntRange(0, 2).Draw(t, "display") == 0 {
		opt := func(label string, flag ...string) {
			if rapid.Bool().Draw(t, label) {
				c.Flags = append(c.Flags, flag...)
			}
		}
		small := func(label string) string {
			return strconv.Itoa(rapid.SampledFrom([]int{0, 1, 2, 3, 7, 50}).Draw(t, label))
		}
		switch c.Cmd {
		case "histo":
			opt("all", "-a")
			opt("bars", "-b")
			opt("pct", "--percentage")
			opt("atleast", "--atleast", small("atleastN"))
		case "table":
			opt("num", "--num", small("numN"))
			opt("cols", "--cols", small("colsN"))
			opt("rowtotal", "--rowtotal")
			opt("coltotal", "--coltotal")
		case "heatmap":
			opt("num", "--num", small("numN"))
			opt("cols", "--cols", small("colsN"))
			opt("min", "--min", rapid.SampledFrom([]string{"0", "-5", "2", "1000"}).Draw(t, "minV"))
			opt("max", "--max", rapid.SampledFrom([]string{"0", "3", "10", "100000"}).Draw(t, "maxV"))
		case "spark":
			opt("num", "--num", small("numN"))
		case "analyze":
			opt("reverse", "--reverse")
		case "reduce", "reduce-serial":
			opt("table", "--table")
			opt("num", "--num", small("numN"))
			opt("cols", "--cols", small("colsN"))
		}
	}
	switch rapid.IntRange(0, 5).Draw(t, "ignore") {
	case 0:
		c.Ignores = []string{rapid.SampledFrom(ignorePool).Draw(t, "ig")}
	case 1:
		// several -i expressions that fire on different lines (the ignore set is shared by all workers)
		n := rapid.IntRange(2, 3).Draw(t, "nignore")
		for _, i := range rapid.Permutation(ignoreIdx).Draw(t, "igs")[:n] {
			c.Ignores = append(c.Ignores, ignorePool[i])
		}
	}
	serial := c.Cmd == "reduce-serial"
	nt := rapid.IntRange(2, 3).Draw(t, "ntunings")
	for i := 0; i < nt; i++ {
		// {src}/{line} never appear in these expressions, so re-partitioning is admissible
		c.Tunings = append(c.Tunings, genTuning(t, len(c.Lines), serial, true))
	}
	return c
}

// ---- running one tuning -------------------------------------------------

type result struct {
	csv      []byte
	snapshot string
	code     int
	stderr   string
	args     []string
}

func writeFiles(c *Case, tu *Tuning, idx int) ([]string, []byte, error) {
	dir := caseDir()
	var all bytes.Buffer
	for _, l := range c.Lines {
		all.WriteString(string(l))
		all.WriteByte('\n')
	}
	if tu.Stdin {
		return nil, all.Bytes(), nil
	}
	bounds := append([]int{0}, tu.Cuts...)
	bounds = append(bounds, len(c.Lines))
	var files []string
	for i := 0; i+1 < len(bounds); i++ {
		var fb bytes.Buffer
		for _, l := range c.Lines[bounds[i]:bounds[i+1]] {
			fb.WriteString(string(l))
			fb.WriteByte('\n')
		}
		data := fb.Bytes()
		name := fmt.Sprintf("t%d-f%d.log", idx, i)
		if tu.Gzip != nil && i < len(tu.Gzip) && tu.Gzip[i] {
			var zb bytes.Buffer
			zw := gzip.NewWriter(&zb)
			zw.Write(data)
			zw.Close()
			data = zb.Bytes()
			name += ".gz"
		}
		fn := filepath.Join(dir, name)
		if err := os.WriteFile(fn, data, 0o644); err != nil {
			return nil, nil, err
		}
		files = append(files, fn)
	}
	ordered := make([]string, len(files))
	for i, j := range tu.Order {
		ordered[i] = files[j]
	}
	return ordered, nil, nil
}

func baseArgs(c *Case, tu *Tuning) []string {
	cmd := c.Cmd
	if cmd == "reduce-serial" {
		cmd = "reduce"
	}
	args := []string{"--nocolor", "--noformat", cmd, "-m", matchExpr,
		"--workers", strconv.Itoa(tu.Workers), "--batch", strconv.Itoa(tu.Batch),
		"--batch-buffer", strconv.Itoa(tu.BatchBuffer), "--readers", strconv.Itoa(tu.Readers)}
	if c.Delim != "" {
		args = append(args, "-e", strings.Join(c.Extracts, c.Delim), "--delim", c.Delim)
	} else {
		for _, e := range c.Extracts {
			args = append(args, "-e", e)
		}
	}
	for _, e := range c.Ignores {
		args = append(args, "-i", e)
	}
	for _, g := range c.Groups {
		args = append(args, "-g", g)
	}
	for _, a := range c.Accums {
		args = append(args, "-a", a)
	}
	args = append(args, c.Flags...)
	if tu.Gzip != nil && !tu.Stdin {
		args = append(args, "-z")
	}
	return args
}

func runRare(bin string, args []string, stdin []byte, procs int) (stdout []byte, stderr string, code int, err error) {
	cmd := exec.Command(bin, args...)
	cmd.Env = append(os.Environ(), "GOMAXPROCS="+strconv.Itoa(procs))
	if stdin != nil {
		cmd.Stdin = bytes.NewReader(stdin)
	}
	var so, se bytes.Buffer
	cmd.Stdout, cmd.Stderr = &so, &se
	runErr := cmd.Run()
	if ee, ok := runErr.(*exec.ExitError); ok {
		code = ee.ExitCode()
	} else if runErr != nil {
		return nil, "", 0, runErr
	}
	return so.Bytes(), se.String(), code, nil
}

func runTuning(bin string, c *Case, idx int) (*result, error) {
	tu := &c.Tunings[idx]
	files, stdin, err := writeFiles(c, tu, idx)
	if err != nil {
		return nil, fmt.Errorf("harness: %v", err)
	}
	defer func() {
		for _, f := range files {
			os.Remove(f)
		}
	}()
	r := &result{}
	args := baseArgs(c, tu)
	r.args = args
	tail := files
	if tu.Stdin {
		tail = nil
	}
	// snapshot run (stdout is a pipe => buffered terminal, final state only)
	so, se, code, err := runRare(bin, append(append([]string{}, args...), tail...), stdin, tu.Procs)
	if err != nil {
		return nil, fmt.Errorf("harness: cannot run rare: %v", err)
	}
	r.snapshot, r.stderr, r.code = string(so), se, code
	if c.Cmd != "analyze" {
		cargs := append([]string{}, args...)
		if c.Cmd == "histo" {
			// histo -a prints the full table to stdout as well; the CSV run leaves it out so that
			// stdout holds the export only
			k := cargs[:0]
			for _, a := range cargs {
				if a != "-a" {
					k = append(k, a)
				}
			}
			cargs = k
		}
		cargs = append(cargs, "--csv", "-")
		if (len(c.Lines)+idx)%3 == 0 {
			// an explicit --snapshot next to --csv -: stdout still belongs to the export alone
			cargs = append(cargs, "--snapshot")
			c.Obs.Label(true, "csv-run-with---snapshot")
		}
		so2, se2, code2, err := runRare(bin, append(cargs, tail...), stdin, tu.Procs)
		if err != nil {
			return nil, fmt.Errorf("harness: cannot run rare: %v", err)
		}
		r.csv = so2
		if code2 != code {
			return nil, fmt.Errorf("same command line exits %d without --csv and %d with --csv -\nargs=%q\nstderr=%s", code, code2, cargs, pbt.Trunc(se2, 600))
		}
	}
	for _, s := range []string{r.stderr} {
		if strings.Contains(s, "panic:") || strings.Contains(s, "goroutine ") {
			return nil, fmt.Errorf("rare crashed: args=%q\n%s", args, pbt.Trunc(s, 3000))
		}
	}
	return r, nil
}

var statusLine = regexp.MustCompile(`(?m)^(\[\d+/\d+\] )?\d[^\n]* \([^\n]*/s\) [^\n]*$`)

// maskSnapshot blanks the status line (byte rate, [n/m], active files): the
// one part of the snapshot that is timing dependent by design.
func maskSnapshot(s string) string {
	lines := strings.Split(s, "\n")
	for i := len(lines) - 1; i >= 0 && i >= len(lines)-3; i-- {
		if statusLine.MatchString(lines[i]) {
			lines[i] = "<status>"
			break
		}
	}
	// histo -a prints the full table after the footer, so the status line is followed by more text;
	// it is recognised by its position directly under the summary line
	for i := 1; i < len(lines); i++ {
		if strings.HasPrefix(lines[i-1], "Matched: ") && statusLine.MatchString(lines[i]) {
			lines[i] = "<status>"
		}
	}
	return strings.Join(lines, "\n")
}

var floatLine = regexp.MustCompile(`(?m)^(Mean|StdDev): .*$`)

// normSnapshot is what must be identical between tunings. analyze: mean and
// standard deviation are floating-point sums whose last printed digit may
// depend on sample order (they are compared with the reference within a
// tolerance instead); count, min, max, median, mode and quantiles are exact.
// reduce: the row order of the table view comes from the contextual sorter
// (ordering is C13's subject), so rows are compared as a multiset.
func normSnapshot(c *Case, s string) string {
	s = maskSnapshot(s)
	switch c.Cmd {
	case "analyze":
		s = floatLine.ReplaceAllString(s, "$1: <float>")
	case "reduce", "reduce-serial":
		lines := strings.Split(s, "\n")
		sort.Strings(lines)
		s = strings.Join(lines, "\n")
	}
	return s
}

const knownRenderHistory = "snapshot-render-history"

var blanks = regexp.MustCompile(`[ ]+`)

func collapseBlanks(s string) string {
	lines := strings.Split(s, "\n")
	for i, l := range lines {
		lines[i] = strings.TrimRight(blanks.ReplaceAllString(l, " "), " ")
	}
	return strings.Join(lines, "\n")
}

// valuesCanDecrease: some explicit increment is negative or large enough to
// wrap an int64 sum, so a displayed value is not monotone over time.
func valuesCanDecrease(c *Case) bool {
	if c.Cmd == "analyze" || c.Cmd == "reduce" || c.Cmd == "reduce-serial" {
		return false
	}
	for _, l := range c.Lines {
		f := strings.Split(string(l), " ")
		if len(f) >= 3 {
			if v, err := strconv.ParseInt(f[2], 10, 64); err == nil && (v < 0 || v > 1<<40) {
				return true
			}
		}
	}
	return false
}

// renderHistoryWitness is the deterministic witness of the known finding:
// the same final table state rendered with and without an intermediate
// render gives different text.
func renderHistoryWitness() error {
	render := func(intermediate bool) string {
		vt := multiterm.NewVirtualTerm()
		tw := termrenderers.NewTable(vt, 2, 2)
		if intermediate {
			tw.WriteRow(0, "wide-key", "1")
		}
		tw.WriteRow(0, "k", "1")
		var sb strings.Builder
		vt.WriteToOutput(&sb)
		return sb.String()
	}
	a, b := render(false), render(true)
	if a != b {
		return fmt.Errorf("final frame depends on an intermediate render: %q vs %q", a, b)
	}
	return nil
}

// ---- the reference aggregation -------------------------------------------

type refAgg struct {
	matched     int
	parseErrors int
	counter     map[string]*big.Int            // histo
	grid        map[string]map[string]*big.Int // first key -> second key -> value (bars: key->subkey ; table: col->row)
	subKeys     map[string]bool
	rows        map[string]bool
	nums        []float64
	groups      map[string][]string // reduce: group key -> data columns
	groupOrder  []string
}

func wrap64(b *big.Int) int64 {
	m := new(big.Int).And(b, new(big.Int).SetUint64(math.MaxUint64))
	return int64(m.Uint64())
}

func addTo(m map[string]*big.Int, k string, v int64) {
	if m[k] == nil {
		m[k] = new(big.Int)
	}
	m[k].Add(m[k], big.NewInt(v))
}

func reference(c *Case) (*refAgg, error) {
	sepr := "\x00"
	if c.Delim != "" {
		sepr = c.Delim
	}
	pc := pipe.Case{Matcher: pipe.Matcher{Kind: "regex", Pattern: matchExpr}, Extract: strings.Join(c.Extracts, sepr), Ignores: c.Ignores}
	var all bytes.Buffer
	for _, l := range c.Lines {
		all.WriteString(string(l))
		all.WriteByte('\n')
	}
	pc.Inputs = []pipe.Input{{Name: "all", Content: pbt.S(all.Bytes())}}
	ref, err := pipe.Reference(&pc, []string{"all"})
	if err != nil {
		return nil, err
	}
	a := &refAgg{counter: map[string]*big.Int{}, grid: map[string]map[string]*big.Int{}, subKeys: map[string]bool{}, rows: map[string]bool{}, groups: map[string][]string{}}
	for _, l := range ref {
		if l.Class != pipe.Matched {
			continue
		}
		a.matched++
		parts := strings.Split(l.Key, sepr)
		switch c.Cmd {
		case "histo":
			inc := int64(1)
			if len(parts) >= 2 {
				v, err := strconv.ParseInt(parts[1], 10, 64)
				if err != nil {
					a.parseErrors++
					continue
				}
				inc = v
			}
			addTo(a.counter, parts[0], inc)
		case "bars", "table", "heatmap", "spark":
			k1, k2 := parts[0], ""
			if len(parts) >= 2 {
				k2 = parts[1]
			}
			inc := int64(1)
			if len(parts) >= 3 {
				v, err := strconv.ParseInt(parts[2], 10, 64)
				if err != nil {
					a.parseErrors++
					continue
				}
				inc = v
			}
			if a.grid[k1] == nil {
				a.grid[k1] = map[string]*big.Int{}
			}
			addTo(a.grid[k1], k2, inc)
			a.subKeys[k2] = true
		case "analyze":
			v, err := strconv.ParseFloat(l.Key, 64)
			if err != nil {
				a.parseErrors++
				continue
			}
			a.nums = append(a.nums, v)
		case "reduce", "reduce-serial":
			p := func(i int) string {
				if i < len(parts) {
					return parts[i]
				}
				return ""
			}
			var gk []string
			for _, g := range c.Groups {
				switch g {
				case "k={1}":
					gk = append(gk, p(0))
				case "s={2}":
					gk = append(gk, p(1))
				}
			}
			key := strings.Join(gk, "\x00")
			row, ok := a.groups[key]
			if !ok {
				row = make([]string, len(c.Accums))
				for i, ac := range c.Accums {
					row[i] = "0"
					if strings.Contains(strings.SplitN(ac, "=", 2)[0], ":") {
						row[i] = strings.SplitN(strings.SplitN(ac, "=", 2)[0], ":", 2)[1]
					}
				}
				a.groupOrder = append(a.groupOrder, key)
			}
			atoi := func(s string) int64 { v, _ := strconv.ParseInt(s, 10, 64); return v }
			for i, ac := range c.Accums {
				switch ac {
				case "n={sumi {.} 1}":
					row[i] = strconv.FormatInt(atoi(row[i])+1, 10)
				case "sum={sumi {.} {3}}":
					row[i] = strconv.FormatInt(atoi(row[i])+atoi(p(2)), 10)
				case "mx={maxi {.} {3}}":
					if v := atoi(p(2)); v > atoi(row[i]) {
						row[i] = strconv.FormatInt(v, 10)
					}
				case "cat:={.}{2};":
					row[i] = row[i] + p(1) + ";"
				case "last:={3}":
					row[i] = p(2)
				case "diff={subi {multi {.} 2} {3}}":
					row[i] = strconv.FormatInt(atoi(row[i])*2-atoi(p(2)), 10)
				}
			}
			a.groups[key] = row
		}
	}
	return a, nil
}

func expectedExit(c *Case, a *refAgg) int {
	if a.parseErrors > 0 {
		return 2
	}
	if a.matched == 0 {
		return 1
	}
	return 0
}

// compareCSV parses the export back (RFC 4180) and compares with the reference.
func compareCSV(c *Case, a *refAgg, csvBytes []byte) error {
	recs, err := model.ParseRFC4180(csvBytes)
	if err != nil {
		return fmt.Errorf("CSV export is not RFC 4180: %v\n%s", err, pbt.Q(csvBytes))
	}
	if len(recs) == 0 {
		return fmt.Errorf("CSV export has no header")
	}
	switch c.Cmd {
	case "histo":
		if len(recs[0]) != 2 || recs[0][0] != "group" || recs[0][1] != "value" {
			return fmt.Errorf("histogram CSV header is %q", recs[0])
		}
		got := map[string]string{}
		for _, r := range recs[1:] {
			if len(r) != 2 {
				return fmt.Errorf("histogram CSV row has %d fields: %q", len(r), r)
			}
			if _, dup := got[r[0]]; dup {
				return fmt.Errorf("histogram CSV lists key %q twice", r[0])
			}
			got[r[0]] = r[1]
		}
		if len(got) != len(a.counter) {
			return fmt.Errorf("histogram CSV has %d keys, reference aggregation %d\ncsv=%s", len(got), len(a.counter), pbt.Q(csvBytes))
		}
		for k, v := range a.counter {
			if got[k] != strconv.FormatInt(wrap64(v), 10) {
				return fmt.Errorf("histogram CSV: key %q = %q, reference %d", k, got[k], wrap64(v))
			}
		}
	case "bars":
		var subs []string
		for s := range a.subKeys {
			subs = append(subs, s)
		}
		sort.Strings(subs)
		if len(recs[0]) != 1+len(subs) || recs[0][0] != "group" {
			return fmt.Errorf("bargraph CSV header %q, reference sub-keys %q", recs[0], subs)
		}
		for i, s := range subs {
			if recs[0][i+1] != s {
				return fmt.Errorf("bargraph CSV header %q, reference sub-keys %q", recs[0], subs)
			}
		}
		if len(recs)-1 != len(a.grid) {
			return fmt.Errorf("bargraph CSV has %d rows, reference %d keys", len(recs)-1, len(a.grid))
		}
		seen := map[string]bool{}
		for _, r := range recs[1:] {
			if len(r) != 1+len(subs) {
				return fmt.Errorf("bargraph CSV row %q has %d fields, header has %d", r, len(r), 1+len(subs))
			}
			if seen[r[0]] {
				return fmt.Errorf("bargraph CSV lists key %q twice", r[0])
			}
			seen[r[0]] = true
			row, ok := a.grid[r[0]]
			if !ok {
				return fmt.Errorf("bargraph CSV has key %q unknown to the reference", r[0])
			}
			for i, s := range subs {
				want := int64(0)
				if row[s] != nil {
					want = wrap64(row[s])
				}
				if r[i+1] != strconv.FormatInt(want, 10) {
					return fmt.Errorf("bargraph CSV: key %q sub-key %q = %q, reference %d", r[0], s, r[i+1], want)
				}
			}
		}
	case "table", "heatmap", "spark":
		var cols []string
		for k := range a.grid {
			cols = append(cols, k)
		}
		sort.Strings(cols)
		rowset := map[string]bool{}
		for _, m := range a.grid {
			for r := range m {
				rowset[r] = true
			}
		}
		if len(recs[0]) != 1+len(cols) || recs[0][0] != "" {
			return fmt.Errorf("table CSV header %q, reference columns %q", recs[0], cols)
		}
		for i, s := range cols {
			if recs[0][i+1] != s {
				return fmt.Errorf("table CSV header %q, reference columns %q", recs[0], cols)
			}
		}
		if len(recs)-1 != len(rowset) {
			return fmt.Errorf("table CSV has %d rows, reference %d", len(recs)-1, len(rowset))
		}
		seen := map[string]bool{}
		for _, r := range recs[1:] {
			if len(r) != 1+len(cols) {
				return fmt.Errorf("table CSV row %q has %d fields, header %d", r, len(r), 1+len(cols))
			}
			if seen[r[0]] || !rowset[r[0]] {
				return fmt.Errorf("table CSV row key %q duplicated or unknown to the reference", r[0])
			}
			seen[r[0]] = true
			for i, col := range cols {
				want := int64(0)
				if v := a.grid[col][r[0]]; v != nil {
					want = wrap64(v)
				}
				if r[i+1] != strconv.FormatInt(want, 10) {
					return fmt.Errorf("table CSV: row %q column %q = %q, reference %d", r[0], col, r[i+1], want)
				}
			}
		}
	case "reduce", "reduce-serial":
		var hdr []string
		for _, g := range c.Groups {
			hdr = append(hdr, strings.SplitN(g, "=", 2)[0])
		}
		for _, ac := range c.Accums {
			hdr = append(hdr, strings.SplitN(strings.SplitN(ac, "=", 2)[0], ":", 2)[0])
		}
		if strings.Join(recs[0], "\x01") != strings.Join(hdr, "\x01") {
			return fmt.Errorf("reduce CSV header %q, expected %q", recs[0], hdr)
		}
		if len(recs)-1 != len(a.groups) {
			return fmt.Errorf("reduce CSV has %d rows, reference %d groups\ncsv=%s", len(recs)-1, len(a.groups), pbt.Q(csvBytes))
		}
		ng := len(c.Groups)
		seen := map[string]bool{}
		for _, r := range recs[1:] {
			if len(r) != len(hdr) {
				return fmt.Errorf("reduce CSV row %q has %d fields, header %d", r, len(r), len(hdr))
			}
			key := strings.Join(r[:ng], "\x00")
			row, ok := a.groups[key]
			if !ok || seen[key] {
				return fmt.Errorf("reduce CSV group %q duplicated or unknown to the reference", r[:ng])
			}
			seen[key] = true
			for i := range row {
				if r[ng+i] != row[i] {
					return fmt.Errorf("reduce CSV: group %q column %s = %q, sequential fold gives %q", r[:ng], hdr[ng+i], r[ng+i], row[i])
				}
			}
		}
	}
	return nil
}

var numLine = regexp.MustCompile(`(?m)^(Samples|Mean|StdDev|Min|Max): +(\S+)$`)

func compareAnalyze(a *refAgg, snap string) error {
	got := map[string]string{}
	for _, m := range numLine.FindAllStringSubmatch(snap, -1) {
		got[m[1]] = m[2]
	}
	if got["Samples"] != strconv.Itoa(len(a.nums)) {
		return fmt.Errorf("analyze shows Samples: %q, reference %d\n%s", got["Samples"], len(a.nums), snap)
	}
	if len(a.nums) == 0 {
		return nil
	}
	mean, mn, mx := 0.0, math.Inf(1), math.Inf(-1)
	for _, v := range a.nums {
		mean += v
		mn = math.Min(mn, v)
		mx = math.Max(mx, v)
	}
	mean /= float64(len(a.nums))
	sd := 0.0
	if len(a.nums) > 1 {
		for _, v := range a.nums {
			sd += (v - mean) * (v - mean)
		}
		sd = math.Sqrt(sd / float64(len(a.nums)-1))
	}
	chk := func(name string, want float64) error {
		g, err := strconv.ParseFloat(got[name], 64)
		if err != nil {
			return fmt.Errorf("analyze %s: cannot read %q", name, got[name])
		}
		if math.Abs(g-want) > 1.5e-4+1e-9*math.Abs(want) {
			return fmt.Errorf("analyze %s: shown %v, reference %v", name, g, want)
		}
		return nil
	}
	for _, e := range []error{chk("Mean", mean), chk("Min", mn), chk("Max", mx)} {
		if e != nil {
			return e
		}
	}
	if len(a.nums) > 1 {
		if e := chk("StdDev", sd); e != nil {
			return e
		}
	}
	return nil
}

func check(c Case) error {
	bin := os.Getenv("VERIF_RARE_BIN")
	if bin == "" {
		return fmt.Errorf("harness: VERIF_RARE_BIN not set")
	}
	ref, err := reference(&c)
	if err != nil {
		return fmt.Errorf("harness: reference: %v", err)
	}
	var results []*result
	for i := range c.Tunings {
		r, err := runTuning(bin, &c, i)
		if err != nil {
			return err
		}
		results = append(results, r)
	}
	want := expectedExit(&c, ref)
	for i, r := range results {
		if r.code != want {
			return fmt.Errorf("tuning %d: exit status %d, expected %d (matched=%d parseErrors=%d)\nargs=%q\nstderr=%s", i, r.code, want, ref.matched, ref.parseErrors, r.args, pbt.Trunc(r.stderr, 600))
		}
		if c.Cmd == "analyze" {
			if err := compareAnalyze(ref, r.snapshot); err != nil {
				return fmt.Errorf("tuning %d: %v\nargs=%q", i, err, r.args)
			}
		} else if err := compareCSV(&c, ref, r.csv); err != nil {
			return fmt.Errorf("tuning %d: %v\nargs=%q", i, err, r.args)
		}
	}
	r0 := results[0]
	for i, r := range results[1:] {
		if !bytes.Equal(r.csv, r0.csv) {
			return fmt.Errorf("CSV export differs between tuning 0 and tuning %d\n--- tuning 0 args=%q\n%s\n--- tuning %d args=%q\n%s", i+1, r0.args, pbt.Q(r0.csv), i+1, r.args, pbt.Q(r.csv))
		}
		a, b := normSnapshot(&c, r0.snapshot), normSnapshot(&c, r.snapshot)
		if a != b && pbt.IsKnown("C03", knownRenderHistory) {
			// known finding: renderers keep running maxima (column widths, bar
			// scale) across renders, so the final frame depends on whether a
			// 100 ms render tick fired on an intermediate state. Excluded class:
			// (1) differences in runs of blanks only; (2) any difference when a
			// displayed value can decrease (negative / wrapping increments).
			if collapseBlanks(a) == collapseBlanks(b) {
				pbt.Exclude("known:" + knownRenderHistory + ":padding-only-difference")
				continue
			}
			if valuesCanDecrease(&c) {
				pbt.Exclude("known:" + knownRenderHistory + ":decreasing-values")
				continue
			}
		}
		if a != b {
			return fmt.Errorf("snapshot output differs between tuning 0 and tuning %d\n--- tuning 0 args=%q\n%s\n--- tuning %d args=%q\n%s", i+1, r0.args, pbt.Trunc(strconv.Quote(a), 1500), i+1, r.args, pbt.Trunc(strconv.Quote(b), 1500))
		}
	}
	// observations
	o := c.Obs
	if o != nil {
		keys := map[string]bool{}
		quoting := false
		for k := range ref.counter {
			keys[k] = true
		}
		for k, m := range ref.grid {
			keys[k] = true
			for s := range m {
				if strings.ContainsAny(s, ",\"\r\n") {
					quoting = true
				}
			}
		}
		for k := range ref.groups {
			keys[k] = true
		}
		for k := range keys {
			if strings.ContainsAny(k, ",\"\r\n") || strings.HasPrefix(k, " ") {
				quoting = true
			}
		}
		o.Add("keys", len(keys))
		o.Label(quoting, "key-needs-csv-quoting")
		o.Label(len(c.Extracts) >= 2 && c.Cmd == "histo" || len(c.Extracts) >= 3, "explicit-increment")
		o.Label(ref.parseErrors > 0, "parse-errors(exit 2)")
		o.Label(ref.matched == 0, "no-match(exit 1)")
		o.Label(true, "cmd:"+c.Cmd)
		o.Label(len(c.Ignores) >= 2, ">=2-ignore-expressions")
		for _, f := range c.Flags {
			switch f {
			case "-a", "-b", "--percentage", "--atleast", "--num", "--cols", "--rowtotal", "--coltotal", "--min", "--max", "--reverse", "--table":
				o.Label(true, "display-option")
				o.Label(true, "display:"+f)
			}
		}
		diffWB, multiFile, perm, repart, stdin, gz := false, false, false, false, false, false
		for i, tu := range c.Tunings {
			if len(tu.Cuts) > 0 {
				multiFile = true
			}
			for k, v := range tu.Order {
				if k != v {
					perm = true
				}
			}
			if tu.Stdin {
				stdin = true
			}
			if tu.Gzip != nil {
				gz = true
			}
			if i > 0 {
				p := c.Tunings[0]
				if tu.Workers != p.Workers && tu.Batch != p.Batch {
					diffWB = true
				}
				if len(tu.Cuts) != len(p.Cuts) || tu.Stdin != p.Stdin {
					repart = true
				}
			}
		}
		o.Label(diffWB, "tunings-differ-in-workers-and-batch")
		o.Label(multiFile, ">=2-files")
		o.Label(perm, "file-order-permuted")
		o.Label(repart, "re-partitioned")
		o.Label(stdin, "stdin")
		o.Label(gz, "gzip")
	}
	return nil
}

func classify(c Case) (bool, []string) {
	o := c.Obs
	nt := o.Has(">=2-files") && o.Get("keys") >= 2 && (o.Has("tunings-differ-in-workers-and-batch") || c.Cmd == "reduce-serial") && (o.Has("key-needs-csv-quoting") || o.Has("explicit-increment"))
	return nt, o.All()
}

func TestAggregates(t *testing.T) {
	pbt.ReportKnown("C03", knownRenderHistory, renderHistoryWitness)
	pbt.Run(t, pbt.Spec[Case]{
		Property: "C03", Name: "aggregates",
		Rule:   "the real binary: corpus = generated list of 'key [subkey [increment]]' lines (hostile keys: commas, quotes, CR, non-UTF-8, empty, tab; increments absent/negative/zero/huge/non-numeric/empty) x command in {histo, table, heatmap, spark --notruncate, bars, analyze, reduce with order-insensitive accumulators, reduce with order-sensitive accumulators under 1 reader + 1 worker} x generated -e/-i/sort flags x (1 in 3) display options of the command (histo -a -b --percentage --atleast; table --num --cols --rowtotal --coltotal; heatmap --num --cols --min --max; spark --num; analyze --reverse; reduce --table --num --cols) (keys with a line feed via \\n in the expression) x 2-3 tunings drawn independently: --workers 1-16, --batch 1-1000, --batch-buffer 1-16, --readers 1-6, GOMAXPROCS 1-16, re-partition of the same lines into 1-6 files, permutation of the file arguments, all lines on stdin, some files gzip with -z. Oracle: (a) differential: byte-identical --csv - output, identical snapshot stdout after masking the status line, identical exit status; (b) reference: own RFC 4180 parser reads the CSV back == independent sequential fold of the sequentially extracted keys (big.Int, wrapped to int64), exit status == 2 on parse errors else 1 on no match else 0; analyze: count exact, mean/stddev/min/max within 1.5e-4 (printed with 4 decimals). Non-trivial: >=2 files, >=2 distinct keys, tunings differing in workers and batch, and a key needing CSV quoting or an explicit increment; distinct by case JSON",
		Budget: pbt.Budget{Quick: 2400, Thorough: 60000},
		Gen:    gen, Check: check, Classify: classify,
	})
}
