// C03, "spark-trim": `rare spark` without --notruncate drops, at every
// refresh, the columns that are not among the last --cols ones. In general
// that makes the result depend on when a refresh happens (a dropped column
// that receives samples again starts from zero) - which is why the
// `aggregates` sub-property always passes --notruncate. There is one family
// of inputs for which the final aggregate IS a function of the input alone:
// a single ordered stream (one reader, one worker) whose column keys arrive
// in non-decreasing sort order, as time buckets of a log do. A dropped column
// then never comes back, and the export must be exactly the last --cols
// columns with their complete counts - however the stream is cut into
// batches and wherever it pauses long enough for refreshes to happen.
package c03

import (
	"bytes"
	"fmt"
	"io"
	"os"
	"os/exec"
	"sort"
	"strconv"
	"strings"
	"testing"
	"time"

	"pgregory.net/rapid"
	"verifharness/model"
	"verifharness/pbt"
)

type SparkTrimCase struct {
	Rows    []string // row key of each line
	Cols    []int    // column number of each line (non-decreasing)
	Incs    []int    // increment of each line (>= 1)
	Limit   int      // --cols
	Batch   int
	Pauses  []int // line indexes before which the writer pauses ...
	PauseMs int   // ... for this long (the 100 ms refresh fires in between)
	Obs     *pbt.Obs `json:"-"`
}

func runSparkTrim(bin string, c SparkTrimCase) ([]byte, string, int, error) {
	args := []string{"--nocolor", "--noformat", "spark", "-m", `^(\S+) (\S+) (\d+)$`, "-e", "{1}", "-e", "{2}", "-e", "{3}",
		"--cols", strconv.Itoa(c.Limit), "--workers", "1", "--readers", "1", "--batch", strconv.Itoa(c.Batch), "--csv", "-"}
	cmd := exec.Command(bin, args...)
	cmd.Env = append(os.Environ(), "NO_COLOR=1", "TERM=dumb")
	in, err := cmd.StdinPipe()
	if err != nil {
		return nil, "", 0, err
	}
	var so, se bytes.Buffer
	cmd.Stdout, cmd.Stderr = &so, &se
	if err := cmd.Start(); err != nil {
		return nil, "", 0, err
	}
	pause := map[int]bool{}
	for _, p := range c.Pauses {
		pause[p] = true
	}
	for i := range c.Rows {
		if pause[i] {
			time.Sleep(time.Duration(c.PauseMs) * time.Millisecond)
		}
		// column first, row second: spark's key order is {column, row, increment}
		if _, err := io.WriteString(in, fmt.Sprintf("%04d %s %d\n", c.Cols[i], c.Rows[i], c.Incs[i])); err != nil {
			break
		}
	}
	in.Close()
	werr := cmd.Wait()
	code := 0
	if ee, ok := werr.(*exec.ExitError); ok {
		code = ee.ExitCode()
	} else if werr != nil {
		return nil, "", 0, werr
	}
	return so.Bytes(), se.String(), code, nil
}

func checkSparkTrim(c SparkTrimCase) error {
	bin := os.Getenv("VERIF_RARE_BIN")
	if bin == "" {
		pbt.Exclude("no rare binary")
		return nil
	}
	if len(c.Rows) == 0 || len(c.Rows) != len(c.Cols) || len(c.Rows) != len(c.Incs) || c.Limit < 1 {
		return nil
	}
	for i := 1; i < len(c.Cols); i++ {
		if c.Cols[i] < c.Cols[i-1] {
			return nil // outside the family (hand-edited replay)
		}
	}
	out, stderr, code, err := runSparkTrim(bin, c)
	if err != nil {
		return fmt.Errorf("harness: cannot run rare: %v", err)
	}
	if strings.Contains(stderr, "panic:") || strings.Contains(stderr, "goroutine ") {
		return fmt.Errorf("rare crashed:\n%s", pbt.Trunc(stderr, 2000))
	}
	if code != 0 {
		return fmt.Errorf("exit status %d for a stream in which every line matches\nstderr=%s", code, pbt.Trunc(stderr, 600))
	}
	// reference: the last Limit distinct columns, complete counts
	distinct := []int{}
	for i, v := range c.Cols {
		if i == 0 || v != c.Cols[i-1] {
			distinct = append(distinct, v)
		}
	}
	keep := map[int]bool{}
	first := len(distinct) - c.Limit
	if first < 0 {
		first = 0
	}
	for _, v := range distinct[first:] {
		keep[v] = true
	}
	want := map[string]map[string]int{} // row -> column -> count
	for i := range c.Rows {
		if !keep[c.Cols[i]] {
			continue
		}
		col := fmt.Sprintf("%04d", c.Cols[i])
		if want[c.Rows[i]] == nil {
			want[c.Rows[i]] = map[string]int{}
		}
		want[c.Rows[i]][col] += c.Incs[i]
	}
	recs, perr := model.ParseRFC4180(out)
	if perr != nil {
		return fmt.Errorf("CSV export does not parse: %v\n%s", perr, pbt.Q(out))
	}
	if len(recs) == 0 {
		return fmt.Errorf("empty CSV export")
	}
	var wantCols []string
	for _, v := range distinct[first:] {
		wantCols = append(wantCols, fmt.Sprintf("%04d", v))
	}
	gotCols := append([]string(nil), recs[0][1:]...)
	sort.Strings(gotCols)
	if strings.Join(gotCols, ",") != strings.Join(wantCols, ",") {
		return fmt.Errorf("spark --cols %d over columns arriving in order kept the columns %v, the last %d columns of the stream are %v (pauses of %d ms before lines %v, batch %d)\ncsv=%s",
			c.Limit, recs[0][1:], c.Limit, wantCols, c.PauseMs, c.Pauses, c.Batch, pbt.Q(out))
	}
	got := map[string]map[string]int{}
	for _, r := range recs[1:] {
		if len(r) != len(recs[0]) {
			return fmt.Errorf("CSV row %q has %d fields, header %d", r, len(r), len(recs[0]))
		}
		m := map[string]int{}
		for j, cell := range r[1:] {
			n, err := strconv.Atoi(cell)
			if err != nil {
				return fmt.Errorf("CSV cell %q is not a count", cell)
			}
			if n != 0 {
				m[recs[0][j+1]] = n
			}
		}
		got[r[0]] = m
	}
	for row, wm := range want {
		gm := got[row]
		for col, n := range wm {
			if gm[col] != n {
				return fmt.Errorf("row %q column %s: exported %d, the stream holds %d (pauses of %d ms before lines %v, batch %d)\ncsv=%s", row, col, gm[col], n, c.PauseMs, c.Pauses, c.Batch, pbt.Q(out))
			}
		}
	}
	for row, gm := range got {
		for col, n := range gm {
			if want[row][col] != n {
				return fmt.Errorf("row %q column %s: exported %d, the stream holds %d\ncsv=%s", row, col, n, want[row][col], pbt.Q(out))
			}
		}
	}
	c.Obs.Label(len(distinct) > c.Limit, "more-columns-than-limit")
	c.Obs.Label(len(c.Pauses) > 0, "paused-stream")
	c.Obs.Add("columns", len(distinct))
	return nil
}

func genSparkTrim(t *rapid.T) SparkTrimCase {
	c := SparkTrimCase{Obs: pbt.NewObs()}
	n := rapid.IntRange(4, 40).Draw(t, "lines")
	col := rapid.IntRange(0, 50).Draw(t, "firstCol")
	rows := []string{"a", "b", "c", "web-1", "é"}
	for i := 0; i < n; i++ {
		if i > 0 && rapid.IntRange(0, 2).Draw(t, "advance") != 0 {
			col += rapid.IntRange(1, 3).Draw(t, "step")
		}
		c.Cols = append(c.Cols, col)
		c.Rows = append(c.Rows, rapid.SampledFrom(rows).Draw(t, "row"))
		c.Incs = append(c.Incs, rapid.IntRange(1, 9).Draw(t, "inc"))
	}
	c.Limit = rapid.IntRange(1, 6).Draw(t, "limit")
	c.Batch = rapid.SampledFrom([]int{1, 1, 2, 5, 1000}).Draw(t, "batch")
	np := rapid.IntRange(0, 2).Draw(t, "npauses")
	for i := 0; i < np; i++ {
		c.Pauses = append(c.Pauses, rapid.IntRange(1, n-1).Draw(t, "pauseAt"))
	}
	c.PauseMs = rapid.SampledFrom([]int{130, 220, 320}).Draw(t, "pauseMs")
	return c
}

func TestSparkTrim(t *testing.T) {
	pbt.Run(t, pbt.Spec[SparkTrimCase]{
		Property: "C03", Name: "spark-trim",
		Rule:   "the real binary: `rare spark --cols N` (truncating) on one ordered stream (stdin, 1 reader, 1 worker, batch 1-1000) of 4-40 lines whose column keys arrive in non-decreasing order, written with 0-2 pauses of 130-320 ms so that refreshes (and their column trimming) happen mid-stream; oracle: the CSV export holds exactly the last N distinct columns with their complete counts and the rows that have a cell in them - the one family of inputs on which truncating spark is a function of the input alone. Non-trivial: more distinct columns than N and >=1 pause",
		Budget: pbt.Budget{Quick: 160, Thorough: 3000},
		Gen:    genSparkTrim, Check: checkSparkTrim,
		Classify: func(c SparkTrimCase) (bool, []string) {
			return c.Obs.Has("more-columns-than-limit") && c.Obs.Has("paused-stream"), c.Obs.All()
		},
		Watchdog: 60 * time.Second,
	})
}
