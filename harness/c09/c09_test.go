package c09

import (
	"errors"
	"fmt"
	"sort"
	"strings"
	"testing"
	"unicode/utf8"

	"pgregory.net/rapid"
	"rare/pkg/expressions"
	"verifharness/pbt"
)

// ---------- running a template ------------------------------------------------

var classOf = map[string]error{
	"unterminated": expressions.ErrorUnterminated,
	"empty":        expressions.ErrorEmptyStatement,
	"missing":      expressions.ErrorMissingFunction,
}

func errClasses(err *expressions.CompilerErrors) []string {
	if err == nil {
		return nil
	}
	var out []string
	for _, name := range []string{"unterminated", "empty", "missing"} {
		if errors.Is(err, classOf[name]) {
			out = append(out, name)
		}
	}
	if len(out) == 0 {
		out = append(out, "other")
	}
	return out
}

// mustEval: a well-formed template compiles without error, with and without
// the optimiser, and evaluates to want against the recording context.
func mustEval(std bool, tpl, want string) error {
	for o := 0; o < 2; o++ {
		c, err := builders[b2i(std)][o].Compile(tpl)
		if err != nil {
			return fmt.Errorf("well-formed template reported a compile error (std=%v optimize=%v)\n template: %s\n error:    %v", std, o == 1, pbt.Trunc(fmt.Sprintf("%q", tpl), 600), err)
		}
		if c == nil {
			return fmt.Errorf("Compile returned neither a builder nor an error for %s", pbt.Trunc(fmt.Sprintf("%q", tpl), 600))
		}
		got := c.BuildKey(recCtx{})
		if got != want {
			return fmt.Errorf("value differs from what the tree dictates (std=%v optimize=%v)\n template: %s\n got:      %s\n want:     %s", std, o == 1,
				pbt.Trunc(fmt.Sprintf("%q", tpl), 600), pbt.Trunc(fmt.Sprintf("%q", got), 400), pbt.Trunc(fmt.Sprintf("%q", want), 400))
		}
	}
	return nil
}

// ---------- (a) literal round trip -------------------------------------------

type LitCase struct {
	S        pbt.S  // the string
	Mode     string // all | minimal | bare-rbrace | mnemonic | mixed
	Mask     uint32 // which optional escapes "mixed" takes
	Template pbt.S  // escaped rendering of S
}

func escapeLit(s, mode string, mask uint32) string {
	p := &printer{choose: func(int) int { return 0 }}
	switch mode {
	case "all":
		p.escAll = true
	case "all-mnemonic":
		p.escAll, p.mnem = true, true
	case "minimal":
	case "bare-rbrace":
		p.bareR = true
	case "mnemonic":
		p.mnem = true
	case "mixed":
		p.optMask = mask
		p.mnem = mask&1 == 1
		p.bareR = mask&2 == 2
	default:
		panic("c09: mode " + mode)
	}
	p.lit(s, 0, false)
	return p.sb.String()
}

var litModes = []string{"all", "all-mnemonic", "minimal", "bare-rbrace", "mnemonic", "mixed"}

var litAlphabet = []rune{
	'\\', '\\', '{', '{', '}', '}', '"', '"', ' ', ' ', '\t', '\n', '\r',
	'n', 't', 'r', 'a', 'b', 'Z', '0', '1', '9', 'x', 'x', 'u', 'f', '4',
	'-', '_', '.', ',', ':', ';', '[', ']', '(', ')', '<', '>', '=', '+', '*', '/', '|', '&', '%', '$', '#', '@', '!', '?', '\'', '`', '~', '^',
	'é', 'ß', '世', '😀', '\u00a0', '\u2003', '\u0085', '\u2028', 0, 0x7f, 0x1b, '\ufffd', '\u0301', '\v', '\f',
}

func genRunes(t *rapid.T, label string, alphabet []rune, lo, hi int) string {
	n := rapid.IntRange(lo, hi).Draw(t, label+"len")
	var sb strings.Builder
	for i := 0; i < n; i++ {
		sb.WriteRune(alphabet[rapid.IntRange(0, len(alphabet)-1).Draw(t, label)])
	}
	return sb.String()
}

func genAnyString(t *rapid.T, label string, hi int) string {
	if rapid.IntRange(0, 5).Draw(t, label+"kind") == 0 {
		s := rapid.StringN(0, hi, -1).Draw(t, label+"u")
		if !utf8.ValidString(s) {
			pbt.Exclude("literal-not-utf8")
			s = strings.ToValidUTF8(s, "?")
		}
		return s
	}
	return genRunes(t, label, litAlphabet, 0, hi)
}

func genLit(t *rapid.T) LitCase {
	c := LitCase{}
	c.S = pbt.S(genAnyString(t, "s", 24))
	c.Mode = rapid.SampledFrom(litModes).Draw(t, "mode")
	if c.Mode == "mixed" {
		c.Mask = rapid.Uint32().Draw(t, "mask")
	}
	c.Template = pbt.S(escapeLit(string(c.S), c.Mode, c.Mask))
	return c
}

func checkLit(c LitCase) error {
	if !utf8.ValidString(string(c.S)) {
		return nil // outside the domain (templates are Unicode text)
	}
	for _, std := range []bool{false, true} {
		if err := mustEval(std, string(c.Template), string(c.S)); err != nil {
			return fmt.Errorf("escaped rendering (%s) of %q does not evaluate to it: %v", c.Mode, string(c.S), err)
		}
	}
	return nil
}

func countSpecials(s string) (n int) {
	for _, r := range s {
		if r == '{' || r == '}' || r == '"' || r == '\\' {
			n++
		}
	}
	return
}

func classifyLit(c LitCase) (bool, []string) {
	s := string(c.S)
	var l pbt.Labels
	l = append(l, "mode:"+c.Mode)
	l.Add(strings.ContainsRune(s, '\\'), "has-backslash")
	l.Add(strings.ContainsRune(s, '{'), "has-lbrace")
	l.Add(strings.ContainsRune(s, '}'), "has-rbrace")
	l.Add(strings.ContainsRune(s, '"'), "has-quote")
	l.Add(strings.ContainsAny(s, "\n\t\r"), "has-control-ntr")
	l.Add(strings.ContainsAny(s, "ntr"), "has-letter-ntr")
	l.Add(strings.HasSuffix(s, "\\"), "ends-in-backslash")
	l.Add(strings.ContainsRune(s, 0), "has-NUL")
	l.Add(s == "", "empty")
	nonASCII := false
	for _, r := range s {
		if r > 127 {
			nonASCII = true
		}
	}
	l.Add(nonASCII, "non-ascii")
	return countSpecials(s) >= 2, l
}

var litSpec = pbt.Spec[LitCase]{
	Property: "C09", Name: "literal",
	Rule: "strings over an alphabet weighted towards \\ { } \" blanks, control characters, the letters n t r, NUL, non-ASCII and Unicode spaces (1 in 6: arbitrary rapid Unicode strings) x rendering mode {every rune escaped, every rune escaped with \\n\\t\\r mnemonics, only \\ { } escaped, '}' left bare, mnemonics, a random subset of optional escapes}; oracle: template compiles without error (plain and funclib builder, optimiser on and off) and BuildKey == s. Non-trivial: s holds >=2 of { } \" \\; distinct by case JSON",
	Budget: pbt.Budget{Quick: 120000, Thorough: 3000000},
	Gen:    genLit, Check: checkLit, Classify: classifyLit,
}

func TestLiteral(t *testing.T) { pbt.Run(t, litSpec) }

// TestLiteralExhaustive: every string of length <= L over a small alphabet
// holding each syntactically relevant character, in every rendering mode.
func TestLiteralExhaustive(t *testing.T) {
	L := 5
	if pbt.Thorough() {
		L = 6
	}
	sym := []rune{'\\', '{', '}', '"', 'n', ' ', '\n', 'a'}
	modes := []string{"all", "all-mnemonic", "minimal", "bare-rbrace", "mnemonic"}
	sp := litSpec
	sp.Name = "literal-exhaustive"
	sp.Rule = fmt.Sprintf("bounded-exhaustive: all strings of length<=%d over {\\ { } \" n space NL a} x rendering modes %v; same oracle; non-trivial: >=2 of { } \" \\", L, modes)
	pbt.Enum(t, sp, func(yield func(LitCase) bool) {
		for n := 0; n <= L; n++ {
			total := 1
			for i := 0; i < n; i++ {
				total *= len(sym)
			}
			for v := 0; v < total; v++ {
				rs := make([]rune, n)
				x := v
				for i := range rs {
					rs[i] = sym[x%len(sym)]
					x /= len(sym)
				}
				s := string(rs)
				for _, m := range modes {
					if !yield(LitCase{S: pbt.S(s), Mode: m, Template: pbt.S(escapeLit(s, m, 0))}) {
						return
					}
				}
			}
		}
	})
}

// ---------- (b) tree round trip ---------------------------------------------

type TreeCase struct {
	Std      bool     // funclib builder with tab/$/@/coalesce, or the recording functions
	Tree     []Node   // top-level pieces
	Template pbt.S    // one printed variant of the tree
	Labels   []string // what the printer did (for the evidence histogram)
	NonTriv  bool
}

var keyPool = []string{"2nd", "10th", "404s", "5xx_errors", "3rd.party", "1st", "src", "line", ".", "#", ".#", "@", "key", "val_1", "a.b", "a-b", "K9", "héllo", "ключ", "名", "nilkey", "tab", "f", "coalesce", "x", "voilà", "Ålesund", "寅", "tà_b"}

// literal alphabets for arguments
var wordAlphabet = []rune{'a', 'b', 'n', 't', 'r', 'Z', '0', '1', '5', '-', '_', '.', ',', ':', '[', ']', '=', '+', '/', '\'', 'é', '世', '😀', '@', '#', '$', '!', '<', '>',
	// runes whose UTF-8 encoding holds a byte that is white space when read as Latin-1 (0x85, 0xA0)
	'à', 'Å', '≠', '寅'}
var specAlphabet = []rune{'\\', '{', '}', '"', '\\', '{', '}', '"', 'a', 'n', '1', '-', 'é'}
var blankAlphabet = []rune{' ', ' ', ' ', '\t', '\n', '\r', '\u00a0', '\u2003', 'a', 'b', 'n', '1', ',', 0, '\v'}
var blankSpecAlphabet = []rune{' ', ' ', '\t', '\n', '\\', '{', '}', '"', 'a', 'n'}

func genKeyName(t *rapid.T) string {
	if rapid.IntRange(0, 3).Draw(t, "keykind") == 0 {
		k := rapid.StringMatching(`([a-z_]|[0-9]{1,3}[g-np-wyz])[a-z0-9_]{0,6}`).Draw(t, "keygen")
		if keyOK(k) {
			return k
		}
	}
	return rapid.SampledFrom(keyPool).Draw(t, "key")
}

func genGroup(t *rapid.T) Node {
	if rapid.IntRange(0, 4).Draw(t, "gbig") == 0 {
		return Group(rapid.IntRange(0, 99).Draw(t, "g"))
	}
	return Group(rapid.IntRange(0, 12).Draw(t, "g"))
}

// depth = number of braces around the literal; special characters cost
// 2^(1+2*depth)-1 backslashes each, so their number shrinks with depth.
func genArgLit(t *rapid.T, depth int, noQuoteNeeded bool) Node {
	maxSpec := []int{8, 4, 2, 1}[depth]
	maxLen := []int{12, 8, 5, 3}[depth]
	k := rapid.IntRange(0, 9).Draw(t, "litkind")
	if noQuoteNeeded && k >= 6 {
		k = k % 6
	}
	switch {
	case k <= 3: // plain word
		return Lit(genRunes(t, "w", wordAlphabet, 1, maxLen))
	case k <= 5: // specials
		return Lit(genRunes(t, "sp", specAlphabet, 1, maxSpec))
	case k <= 7: // blanks (always quoted)
		return Lit(genRunes(t, "bl", blankAlphabet, 1, maxLen))
	case k == 8: // blanks and specials
		return Lit(genRunes(t, "bs", blankSpecAlphabet, 1, maxSpec))
	default:
		return Lit("")
	}
}

func genCall(t *rapid.T, std bool, depth, maxDepth int) Node {
	f := rapid.SampledFrom(fnNames(std)).Draw(t, "fn")
	nargs := []int{1, 1, 2, 2, 2, 3, 3, 4}[rapid.IntRange(0, 7).Draw(t, "nargs")]
	args := make([]Node, nargs)
	for i := range args {
		args[i] = genArg(t, std, depth+1, maxDepth)
	}
	return Call(f, args...)
}

// depth = number of braces around the argument (1 for arguments of a
// top-level call).
func genArg(t *rapid.T, std bool, depth, maxDepth int) Node {
	k := rapid.IntRange(0, 19).Draw(t, "argkind")
	switch {
	case k <= 8:
		return genArgLit(t, depth, false)
	case k <= 10:
		return genGroup(t)
	case k <= 12:
		return Key(genKeyName(t))
	case k <= 16:
		if depth < maxDepth {
			return genCall(t, std, depth, maxDepth)
		}
		return genArgLit(t, depth, false)
	default: // cat: pieces adjacent without blanks
		n := rapid.IntRange(2, 3).Draw(t, "ncat")
		var kids []Node
		nonLit := 0
		for i := 0; i < n; i++ {
			ck := rapid.IntRange(0, 4).Draw(t, "catkind")
			if i == n-1 && nonLit == 0 && ck <= 1 {
				ck = 2
			}
			switch {
			case ck <= 1 && (len(kids) == 0 || kids[len(kids)-1].K != "lit"):
				kids = append(kids, genArgLit(t, depth, true))
			case ck == 3 && depth < maxDepth:
				kids = append(kids, genCall(t, std, depth, maxDepth))
				nonLit++
			case ck == 4:
				kids = append(kids, Key(genKeyName(t)))
				nonLit++
			default:
				kids = append(kids, genGroup(t))
				nonLit++
			}
		}
		return Cat(kids...)
	}
}

func genPieces(t *rapid.T, std bool, maxDepth int) []Node {
	n := rapid.IntRange(1, 4).Draw(t, "npieces")
	out := make([]Node, 0, n)
	calls := 0
	for i := 0; i < n; i++ {
		k := rapid.IntRange(0, 9).Draw(t, "piecekind")
		if i == n-1 && calls == 0 {
			k = 9
		}
		switch {
		case k <= 2:
			out = append(out, Lit(genRunes(t, "toplit", litAlphabet, 0, 8)))
		case k == 3:
			out = append(out, genGroup(t))
		case k == 4:
			out = append(out, Key(genKeyName(t)))
		default:
			out = append(out, genCall(t, std, 0, maxDepth))
			calls++
		}
	}
	return out
}

func rapidChooser(t *rapid.T) func(int) int {
	return func(n int) int { return rapid.IntRange(0, n-1).Draw(t, "v") }
}

func newPrinter(t *rapid.T) *printer {
	p := &printer{choose: rapidChooser(t)}
	switch rapid.IntRange(0, 5).Draw(t, "escstyle") {
	case 0: // a few optional escapes
		p.optMask = rapid.Uint32().Draw(t, "mask") & rapid.Uint32().Draw(t, "mask2")
	case 1:
		p.mnem = true
		p.optMask = rapid.Uint32().Draw(t, "mask") | 1
	case 2:
		p.bareR = true
	}
	return p
}

func treeLabels(p *printer, std bool, pieces []Node) (bool, []string) {
	st := p.st
	var l pbt.Labels
	if std {
		l = append(l, "funcs:std")
	} else {
		l = append(l, "funcs:recording")
	}
	l = append(l, fmt.Sprintf("depth:%d", st.maxDepth))
	l.Add(st.quoted > 0, "quoted-arg")
	l.Add(st.emptyQ > 0, "empty-string-arg")
	l.Add(st.bare > 0, "bare-arg")
	l.Add(st.cats > 0, "cat-arg")
	l.Add(st.groups > 0, "group-ref")
	l.Add(st.keys > 0, "key-ref")
	l.Add(st.zeroGroup > 0, "zero-padded-group")
	l.Add(st.sepTab > 0, "sep-tab")
	l.Add(st.sepNL > 0, "sep-newline")
	l.Add(st.sepRun > 0, "sep-run")
	l.Add(st.padIn > 0, "blank-inside-braces")
	l.Add(st.lastNested > 0, "nested-call-last")
	l.Add(st.midNested > 0, "nested-call-middle")
	l.Add(st.specInBraces > 0, "escaped-special-in-braces")
	l.Add(st.escBlank > 0, "bare-arg-with-escaped-blank")
	l.Add(st.opt > 0, "optional-escape")
	l.Add(st.mnem > 0, "mnemonic")
	l.Add(st.strayR > 0, "bare-rbrace-depth0")
	l.Add(st.maxRun >= 7, "backslash-run>=7")
	l.Add(st.maxRun >= 31, "backslash-run>=31")
	l.Add(st.maxRun >= 127, "backslash-run>=127")
	topSpec := false
	for _, n := range pieces {
		if n.K == "lit" && countSpecials(string(n.S)) >= 2 {
			topSpec = true
		}
	}
	nt := (st.maxDepth >= 2 && st.quoted >= 1 && st.must >= 1) || topSpec
	return nt, l
}

func genTree(t *rapid.T) TreeCase {
	c := TreeCase{}
	c.Std = rapid.IntRange(0, 3).Draw(t, "std") == 0
	maxDepth := 3
	if rapid.IntRange(0, 2).Draw(t, "shallow") == 0 {
		maxDepth = 2
	}
	c.Tree = genPieces(t, c.Std, maxDepth)
	if e := wellFormed(c.Tree, c.Std); e != "" {
		panic("c09 generator: " + e)
	}
	p := newPrinter(t)
	p.top(c.Tree)
	c.Template = pbt.S(p.sb.String())
	c.NonTriv, c.Labels = treeLabels(p, c.Std, c.Tree)
	return c
}

func checkTree(c TreeCase) error {
	if e := wellFormed(c.Tree, c.Std); e != "" {
		return nil // not a case of this domain
	}
	return mustEval(c.Std, string(c.Template), EvalTop(c.Tree))
}

func classifyTree(c TreeCase) (bool, []string) { return c.NonTriv, c.Labels }

var treeSpec = pbt.Spec[TreeCase]{
	Property: "C09", Name: "tree",
	Rule: "expression trees over {literal, group, key, call, adjacent pieces} (1-4 top-level pieces, call nesting <=3, 1-4 arguments) printed with a drawn variant per site: bare or quoted literal (always quoted when empty or holding a blank), separators from {space, runs, tab, newline, CRLF}, blanks after '{' and before '}', zero-padded group numbers, nested call in last/middle position, special characters with one backslash layer per reading (1+2*depth) plus optional redundant escapes and \\n\\t\\r mnemonics; functions: recording functions name(len:arg;...) or funclib's tab/$/@/coalesce; oracle: compiles without error (optimiser on and off) and BuildKey(recording context) == interpreter(tree). Non-trivial: depth>=2 with >=1 quoted argument and >=1 escaped character, or a top-level literal with >=2 of { } \" \\",
	Budget: pbt.Budget{Quick: 250000, Thorough: 8000000},
	Gen:    genTree, Check: checkTree, Classify: classifyTree,
}

func TestTree(t *testing.T) { pbt.Run(t, treeSpec) }

// TestTreeExhaustive: every sequence of <=3 arguments from a pool holding each
// argument form, under 12 fixed choice patterns for blanks/quoting.
func TestTreeExhaustive(t *testing.T) {
	pool := []Node{
		Lit("a"), Lit("a b"), Lit(""), Lit(`"`), Lit("{"), Lit("}"), Lit(`\`), Lit("n\n"),
		Group(1), Key("k"),
		Call("g", Lit("p q"), Group(0)), Call("g", Lit("")), Call("g", Lit(`"}`)),
		Cat(Lit("x"), Group(2)), Cat(Group(0), Group(1)),
	}
	sp := treeSpec
	sp.Name = "tree-exhaustive"
	sp.Rule = fmt.Sprintf("bounded-exhaustive: '<' {f args} '>' for every argument sequence of length 1..3 from a pool of %d argument forms (plain, blank, empty, each special character, group, key, nested call, adjacent pieces) x 12 fixed choice patterns for separators/blanks/quoting/zero padding x mnemonics on/off; same oracle", len(pool))
	pbt.Enum(t, sp, func(yield func(TreeCase) bool) {
		var seqs [][]Node
		for _, a := range pool {
			seqs = append(seqs, []Node{a})
			for _, b := range pool {
				seqs = append(seqs, []Node{a, b})
				for _, c := range pool {
					seqs = append(seqs, []Node{a, b, c})
				}
			}
		}
		for _, args := range seqs {
			tree := []Node{Lit("<"), Call("f", args...), Lit(">")}
			for pat := 0; pat < 12; pat++ {
				k := 0
				p := &printer{choose: func(n int) int { k++; return (pat + k*(pat%3)) % n }, mnem: pat%2 == 1}
				p.top(tree)
				c := TreeCase{Tree: tree, Template: pbt.S(p.sb.String())}
				c.NonTriv, c.Labels = treeLabels(p, false, tree)
				c.NonTriv = len(args) >= 2
				if !yield(c) {
					return
				}
			}
		}
	})
}

// ---------- (c) malformed mutations ---------------------------------------------

type MalCase struct {
	Std      bool
	Base     pbt.S    // the well-formed template the mutations were applied to
	Template pbt.S    // the mutated template
	Muts     []string // what was done
	Expect   []string // error classes that must be reported: unterminated | empty | missing
	NoErr    bool     // must compile without any error
	Want     *pbt.S   // value it must have (when NoErr)
	LoneBS   bool     // ends in a backslash that escapes nothing: only "no crash" (+ Expect) is asserted
	NonTriv  bool
	Labels   []string
}

type edit struct {
	a, b int // replace text[a:b]
	with string
}

var blanksOnly = []string{"", "", " ", "\t", "  \n", "\r\n"}

func trailingBackslashes(s string) int {
	n := 0
	for n < len(s) && s[len(s)-1-n] == '\\' {
		n++
	}
	return n
}

func genMal(t *rapid.T) MalCase {
	c := MalCase{}
	c.Std = rapid.IntRange(0, 3).Draw(t, "std") == 0
	tree := genPieces(t, c.Std, 3)
	p := newPrinter(t)
	p.bareR = false // a bare '}' after a deleted closing brace would close it again
	p.top(tree)
	base := p.sb.String()
	c.Base = pbt.S(base)
	spans := p.spans
	var l pbt.Labels

	kind := rapid.SampledFrom([]string{"delete-close", "truncate", "empty", "insert-empty", "unknown", "stray-rbrace", "two", "two+unterminated"}).Draw(t, "mutation")
	pickSpan := func(label string, callOnly bool, maxTop int) (span, bool) {
		var cand []span
		for _, s := range spans {
			if callOnly && s.FnA < 0 {
				continue
			}
			if maxTop >= 0 && s.Top >= maxTop {
				continue
			}
			cand = append(cand, s)
		}
		if len(cand) == 0 {
			return span{}, false
		}
		return cand[rapid.IntRange(0, len(cand)-1).Draw(t, label)], true
	}
	var edits []edit
	expect := map[string]bool{}
	addEmpty := func(s span) {
		edits = append(edits, edit{s.Open + 1, s.Close, rapid.SampledFrom(blanksOnly).Draw(t, "blank")})
		expect["empty"] = true
		c.Muts = append(c.Muts, fmt.Sprintf("empty statement at %d (depth %d)", s.Open, s.Depth))
		l.Add(s.Depth > 0, "empty-nested")
		l.Add(s.Depth == 0, "empty-top")
	}
	addUnknown := func(s span) {
		edits = append(edits, edit{s.FnA, s.FnB, rapid.SampledFrom(unknownNames).Draw(t, "unk")})
		expect["missing"] = true
		c.Muts = append(c.Muts, fmt.Sprintf("unknown function at %d (depth %d)", s.FnA, s.Depth))
		l.Add(s.Depth > 0, "unknown-nested")
		l.Add(s.Depth == 0, "unknown-top")
	}
	addDelete := func(s span) {
		edits = append(edits, edit{s.Close, s.Close + 1, ""})
		expect["unterminated"] = true
		c.Muts = append(c.Muts, fmt.Sprintf("closing brace deleted at %d (depth %d)", s.Close, s.Depth))
		l.Add(s.Depth > 0, "delete-close-nested")
		l.Add(s.Depth == 0, "delete-close-top")
	}
	disjoint := func(a, b span) bool { return a.Close < b.Open || b.Close < a.Open }
	emptyOrUnknown := func(s span, label string) {
		if s.FnA >= 0 && rapid.Bool().Draw(t, label) {
			addUnknown(s)
		} else {
			addEmpty(s)
		}
	}

	switch kind {
	case "delete-close":
		s, _ := pickSpan("site", false, -1)
		addDelete(s)
	case "empty":
		s, _ := pickSpan("site", false, -1)
		addEmpty(s)
	case "unknown":
		s, _ := pickSpan("site", true, -1)
		addUnknown(s)
	case "insert-empty":
		b := p.bounds[rapid.IntRange(0, len(p.bounds)-1).Draw(t, "bound")]
		edits = append(edits, edit{b, b, "{" + rapid.SampledFrom(blanksOnly).Draw(t, "blank") + "}"})
		expect["empty"] = true
		c.Muts = append(c.Muts, fmt.Sprintf("empty statement inserted at %d", b))
		l = append(l, "insert-empty")
	case "stray-rbrace":
		bi := rapid.IntRange(0, len(p.bounds)-1).Draw(t, "bound")
		b := p.bounds[bi]
		edits = append(edits, edit{b, b, "}"})
		c.NoErr = true
		want := pbt.S(EvalTop(tree[:bi]) + "}" + EvalTop(tree[bi:]))
		c.Want = &want
		c.Muts = append(c.Muts, fmt.Sprintf("'}' inserted outside braces at %d", b))
		l = append(l, "stray-rbrace")
	case "truncate":
		// cut at a rune boundary strictly inside the text
		var cuts []int
		for i := range base {
			if i > 0 {
				cuts = append(cuts, i)
			}
		}
		if len(cuts) == 0 {
			cuts = []int{len(base)}
		}
		o := cuts[rapid.IntRange(0, len(cuts)-1).Draw(t, "cut")]
		if rapid.IntRange(0, 3).Draw(t, "cutAtBackslash") == 0 {
			// prefer a cut right behind a backslash when there is one
			var bs []int
			for _, x := range cuts {
				if base[x-1] == '\\' {
					bs = append(bs, x)
				}
			}
			if len(bs) > 0 {
				o = bs[rapid.IntRange(0, len(bs)-1).Draw(t, "cutbs")]
			}
		}
		edits = append(edits, edit{o, len(base), ""})
		inside := false
		for _, s := range spans {
			if s.Depth == 0 && s.Open < o && o <= s.Close {
				inside = true
			}
		}
		c.LoneBS = trailingBackslashes(base[:o])%2 == 1
		if inside {
			expect["unterminated"] = true
		} else if !c.LoneBS {
			c.NoErr = true
		}
		if c.NoErr {
			for bi, b := range p.bounds {
				if b == o {
					want := pbt.S(EvalTop(tree[:bi]))
					c.Want = &want
				}
			}
		}
		c.Muts = append(c.Muts, fmt.Sprintf("truncated to %d bytes", o))
		l.Add(inside, "truncate-inside-statement")
		l.Add(!inside, "truncate-outside")
		l.Add(c.LoneBS, "lone-trailing-backslash")
	case "two", "two+unterminated":
		maxTop := -1
		if kind == "two+unterminated" {
			// the unterminated statement swallows the rest of the text, so
			// the other mutations go into earlier top-level pieces
			s, _ := pickSpan("usite", false, -1)
			addDelete(s)
			maxTop = s.Top
		}
		a, ok := pickSpan("site1", false, maxTop)
		if ok {
			emptyOrUnknown(a, "u1")
			if b, ok2 := pickSpan("site2", false, maxTop); ok2 && disjoint(a, b) {
				emptyOrUnknown(b, "u2")
			}
		}
	}
	// apply right to left
	sort.Slice(edits, func(i, j int) bool { return edits[i].a > edits[j].a })
	out := base
	for _, e := range edits {
		out = out[:e.a] + e.with + out[e.b:]
	}
	c.Template = pbt.S(out)
	for _, k := range []string{"unterminated", "empty", "missing"} {
		if expect[k] {
			c.Expect = append(c.Expect, k)
		}
	}
	l = append(l, "mutation:"+kind)
	l.Add(len(c.Expect) >= 2, "two-error-classes")
	l.Add(len(edits) >= 2, "two-mutations")
	l.Add(p.st.maxDepth >= 2, "base-depth>=2")
	c.Labels = l
	nested := false
	for _, m := range c.Muts {
		if strings.Contains(m, "(depth ") && !strings.Contains(m, "(depth 0)") {
			nested = true
		}
	}
	c.NonTriv = len(edits) >= 2 || nested || (p.st.maxDepth >= 2 && (p.st.quoted > 0 || p.st.must > 0))
	return c
}

func checkMal(c MalCase) error {
	tpl := string(c.Template)
	nRunes := utf8.RuneCountInString(tpl)
	for o := 0; o < 2; o++ {
		comp, err := builders[b2i(c.Std)][o].Compile(tpl)
		desc := fmt.Sprintf("(std=%v optimize=%v)\n base:     %s\n mutated:  %s\n mutations: %v", c.Std, o == 1,
			pbt.Trunc(fmt.Sprintf("%q", string(c.Base)), 500), pbt.Trunc(fmt.Sprintf("%q", tpl), 500), c.Muts)
		if c.NoErr {
			if err != nil {
				return fmt.Errorf("template without a malformed statement reported a compile error %s\n error: %v", desc, err)
			}
			if comp == nil {
				return fmt.Errorf("no builder and no error %s", desc)
			}
			if c.Want != nil {
				if got := comp.BuildKey(recCtx{}); got != string(*c.Want) {
					return fmt.Errorf("value differs %s\n got:  %q\n want: %q", desc, got, string(*c.Want))
				}
			}
			continue
		}
		if len(c.Expect) > 0 && err == nil {
			return fmt.Errorf("malformed template compiled without error, want %v %s", c.Expect, desc)
		}
		for _, k := range c.Expect {
			if !errors.Is(err, classOf[k]) {
				return fmt.Errorf("compile error lacks class %q (reported: %v) %s\n error: %v", k, errClasses(err), desc, err)
			}
		}
		if err != nil {
			if len(err.Errors) == 0 {
				return fmt.Errorf("non-nil CompilerErrors without entries %s", desc)
			}
			for _, e := range err.Errors {
				if e.Index < 0 || e.Index > nRunes {
					return fmt.Errorf("error offset %d outside the template (0..%d) %s\n error: %v", e.Index, nRunes, desc, e)
				}
			}
			if err.Error() == "" {
				return fmt.Errorf("empty error text %s", desc)
			}
		}
		if comp != nil {
			comp.BuildKey(recCtx{}) // whatever is returned must be usable (no crash)
		}
	}
	return nil
}

func classifyMal(c MalCase) (bool, []string) { return c.NonTriv, c.Labels }

var malSpec = pbt.Spec[MalCase]{
	Property: "C09", Name: "malformed",
	Rule: "a printed tree (as in 'tree') with one or two mutations placed by the printer's site map: closing brace of a statement deleted (any depth), text truncated (1 in 4 right behind a backslash), a statement's content replaced by blanks / an empty statement inserted, a function renamed to an unregistered name (any depth), a '}' inserted outside braces; two mutations in disjoint statements, optionally followed by an unterminated one; oracle: each expected class (ErrorUnterminated / ErrorEmptyStatement / ErrorMissingFunction) is reported through errors.Is, offsets lie within the template, a returned builder is usable; '}' outside braces and cuts between top-level pieces give no error (and the value the tree dictates). Non-trivial: mutation at nesting depth>=1, two mutations, or base of depth>=2 with quoted/escaped arguments",
	Budget: pbt.Budget{Quick: 150000, Thorough: 4000000},
	Gen:    genMal, Check: checkMal, Classify: classifyMal,
}

func TestMalformed(t *testing.T) { pbt.Run(t, malSpec) }
