// C09, sub-property "cli": the same literal and tree round trips observed where a user sees them,
// at `rare expression` (template as an argument, or on stdin with "-"), data as -d / -k.
package c09

import (
	"bytes"
	"fmt"
	"os"
	"os/exec"
	"strconv"
	"strings"
	"testing"
	"unicode/utf8"

	"pgregory.net/rapid"
	"verifharness/pbt"
)

type CLICase struct {
	Kind    string    // literal | tree
	Stdin   bool      // template handed over on stdin ("-") instead of as an argument
	NoOpt   bool      `json:",omitempty"`
	Newline bool      `json:",omitempty"` // without -n: one line feed follows the result
	Lit     *LitCase  `json:",omitempty"`
	Tree    *TreeCase `json:",omitempty"`
	Labels  []string  `json:",omitempty"`
}

func treeKeys(ns []Node, f func(Node)) {
	for _, n := range ns {
		f(n)
		treeKeys(n.Kids, f)
	}
}

func genCLI(t *rapid.T) CLICase {
	c := CLICase{Stdin: rapid.IntRange(0, 2).Draw(t, "stdin") == 0, NoOpt: rapid.IntRange(0, 3).Draw(t, "noopt") == 0, Newline: rapid.IntRange(0, 3).Draw(t, "newline") == 0}
	if rapid.IntRange(0, 2).Draw(t, "kind") == 0 {
		c.Kind = "literal"
		l := genLit(t)
		c.Lit = &l
		return c
	}
	c.Kind = "tree"
	tc := TreeCase{Std: true}
	maxDepth := 2 + rapid.IntRange(0, 1).Draw(t, "deep")
	tc.Tree = genPieces(t, true, maxDepth)
	// `rare expression` computes the special keys itself: lookups of them become lookups of ordinary keys
	var fix func(ns []Node)
	fix = func(ns []Node) {
		for i := range ns {
			if ns[i].K == "key" {
				for _, sp := range specialKeys {
					if string(ns[i].S) == sp {
						ns[i].S = pbt.S("key")
					}
				}
			}
			fix(ns[i].Kids)
		}
	}
	fix(tc.Tree)
	if e := wellFormed(tc.Tree, true); e != "" {
		panic("c09 generator: " + e)
	}
	p := newPrinter(t)
	p.top(tc.Tree)
	tc.Template = pbt.S(p.sb.String())
	tc.NonTriv, tc.Labels = treeLabels(p, true, tc.Tree)
	c.Tree = &tc
	return c
}

func checkCLI(c CLICase) error {
	bin := os.Getenv("VERIF_RARE_BIN")
	if bin == "" {
		return fmt.Errorf("harness: VERIF_RARE_BIN not set")
	}
	var tpl, want string
	args := []string{"expression", "-r"}
	if !c.Newline {
		args = append(args, "-n")
	}
	if c.NoOpt {
		args = append(args, "--no-optimize")
	}
	switch c.Kind {
	case "literal":
		tpl, want = string(c.Lit.Template), string(c.Lit.S)
		if !utf8.ValidString(want) {
			return nil
		}
	case "tree":
		if e := wellFormed(c.Tree.Tree, true); e != "" {
			return nil
		}
		tpl, want = string(c.Tree.Template), EvalTop(c.Tree.Tree)
		maxG := -1
		keys := map[string]bool{}
		treeKeys(c.Tree.Tree, func(n Node) {
			if n.K == "group" && n.N > maxG {
				maxG = n.N
			}
			if n.K == "key" {
				keys[string(n.S)] = true
			}
		})
		for i := 0; i <= maxG; i++ {
			args = append(args, "-d", matchVal(i))
		}
		for _, k := range keyPool { // fixed order
			if keys[k] {
				args = append(args, "-k", k+"="+keyVal(k))
				delete(keys, k)
			}
		}
		for k := range keys { // generated names: order is irrelevant to the result
			args = append(args, "-k", k+"="+keyVal(k))
		}
	}
	if tpl == "" || tpl == "-" {
		pbt.Exclude("cli:empty-expression-or-dash")
		return nil
	}
	stdin := c.Stdin
	if strings.ContainsRune(tpl, 0) {
		stdin = true // an argument cannot hold NUL
	}
	cmd := exec.Command(bin)
	if stdin {
		cmd.Args = append(cmd.Args, append(args, "-")...)
		cmd.Stdin = strings.NewReader(tpl)
	} else {
		cmd.Args = append(cmd.Args, append(args, "--", tpl)...)
	}
	var so, se bytes.Buffer
	cmd.Stdout, cmd.Stderr = &so, &se
	err := cmd.Run()
	if _, isExit := err.(*exec.ExitError); err != nil && !isExit {
		return fmt.Errorf("harness: cannot run rare: %v", err)
	}
	if err != nil {
		return fmt.Errorf("rare expression failed on a well-formed template: %v\n template: %s\n args: %q\n stderr: %s", err, strconv.Quote(tpl), cmd.Args[1:], pbt.Trunc(se.String(), 600))
	}
	if c.Newline {
		want += "\n"
	}
	if got := so.String(); got != want {
		return fmt.Errorf("rare expression prints something else than the template's value\n template: %s (stdin=%v)\n got:      %s\n want:     %s\n args: %q", pbt.Trunc(strconv.Quote(tpl), 600), stdin,
			pbt.Trunc(strconv.Quote(got), 400), pbt.Trunc(strconv.Quote(want), 400), cmd.Args[1:])
	}
	return nil
}

func classifyCLI(c CLICase) (bool, []string) {
	var l pbt.Labels
	l = append(l, "kind:"+c.Kind)
	l.Add(c.Stdin, "template-on-stdin")
	l.Add(c.NoOpt, "no-optimize")
	l.Add(c.Newline, "with-newline")
	nt := false
	switch c.Kind {
	case "literal":
		s := string(c.Lit.S)
		l.Add(strings.ContainsRune(s, '%'), "has-percent")
		l.Add(strings.ContainsRune(s, 0), "has-NUL")
		nt = countSpecials(s) >= 1 || strings.ContainsAny(s, "%\n\t ")
	case "tree":
		l.Add(strings.ContainsRune(string(c.Tree.Template), '%'), "has-percent")
		l = append(l, c.Tree.Labels...)
		nt = c.Tree.NonTriv
	}
	return nt, l
}

var cliSpec = pbt.Spec[CLICase]{
	Property: "C09", Name: "cli",
	Rule:   "the real binary: `rare expression -r [-n] [--no-optimize] -d <M0> .. -k name=<K:name> ..` with the template as the argument after `--` or (1 in 3, and whenever it holds NUL) on stdin with `-`; templates: escaped renderings of strings (as in 'literal', incl. % signs) and printed trees over funclib's tab/$/@/coalesce (as in 'tree'; lookups of the keys the command computes itself are turned into ordinary keys). Oracle: exit status 0 and stdout == the string / the tree interpreter's value (+ one line feed without -n), byte for byte. Non-trivial: a literal with a special character, blank or % / the tree rule",
	Budget: pbt.Budget{Quick: 2400, Thorough: 60000},
	Gen:    genCLI, Check: checkCLI, Classify: classifyCLI,
}

func TestCLI(t *testing.T) { pbt.Run(t, cliSpec) }
