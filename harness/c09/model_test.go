// C09 — template syntax: literals, escapes, quotes and nesting parse as
// documented.
//
// This file holds what the oracles are made of and nothing that looks at
// rare's parser: the expression tree, its interpreter (the meaning of a tree
// is defined on the tree, never on text), the recording context, the two
// function tables the trees are evaluated against, and the printer that turns
// a tree into rare syntax with every admissible whitespace / quoting / escape
// variant.
package c09

import (
	"strconv"
	"strings"
	"unicode"
	"unicode/utf8"

	"rare/pkg/expressions"
	"rare/pkg/expressions/funclib"
	"verifharness/pbt"
)

// ---------- expression tree -------------------------------------------------

// Node kinds: lit (S = text), group (N = index), key (S = name),
// call (S = function, Kids = arguments), cat (Kids = adjacent pieces forming
// one argument, e.g. a{0}b).
type Node struct {
	K    string `json:"k"`
	S    pbt.S  `json:"s,omitempty"`
	N    int    `json:"n,omitempty"`
	Kids []Node `json:"kids,omitempty"`
}

func Lit(s string) Node            { return Node{K: "lit", S: pbt.S(s)} }
func Group(n int) Node             { return Node{K: "group", N: n} }
func Key(k string) Node            { return Node{K: "key", S: pbt.S(k)} }
func Call(f string, a ...Node) Node { return Node{K: "call", S: pbt.S(f), Kids: a} }
func Cat(a ...Node) Node           { return Node{K: "cat", Kids: a} }

// ---------- recording context ----------------------------------------------

// recCtx answers every lookup with a string that names the lookup, so the
// value of a template tells which lookups were made, in which order, inside
// which call. A few lookups are empty by rule so that coalesce has something
// to skip: groups whose index ends in 9 and keys starting with "nil".
type recCtx struct{}

func matchVal(i int) string {
	if i%10 == 9 {
		return ""
	}
	return "<M" + strconv.Itoa(i) + ">"
}

func keyVal(k string) string {
	if strings.HasPrefix(k, "nil") {
		return ""
	}
	return "<K:" + k + ">"
}

func (recCtx) GetMatch(i int) string  { return matchVal(i) }
func (recCtx) GetKey(k string) string { return keyVal(k) }

// ---------- function tables -------------------------------------------------

// recording functions: name(len:arg;len:arg;...) — injective in the argument
// list, any arity, never a construction error.
var recNames = []string{"f", "g", "fn2", "join.x"}

func recFunc(name string) expressions.KeyBuilderFunction {
	return func(args []expressions.KeyBuilderStage) (expressions.KeyBuilderStage, error) {
		return func(ctx expressions.KeyBuilderContext) string {
			var sb strings.Builder
			sb.WriteString(name)
			sb.WriteByte('(')
			for _, a := range args {
				v := a(ctx)
				sb.WriteString(strconv.Itoa(len(v)))
				sb.WriteByte(':')
				sb.WriteString(v)
				sb.WriteByte(';')
			}
			sb.WriteByte(')')
			return sb.String()
		}, nil
	}
}

// documented helpers whose meaning is one sentence of docs/usage/expressions.md:
// tab: "Concatenates the values of the arguments separated by a table character";
// $ / @: "Concatenates a set of arguments with a null separator";
// coalesce: "Evaluates arguments in-order, choosing the first non-empty result".
var stdNames = []string{"tab", "$", "@", "coalesce"}

func evalCall(name string, args []string) string {
	switch name {
	case "tab":
		return strings.Join(args, "\t")
	case "$", "@":
		return strings.Join(args, "\x00")
	case "coalesce":
		for _, a := range args {
			if a != "" {
				return a
			}
		}
		return ""
	}
	var sb strings.Builder
	sb.WriteString(name)
	sb.WriteByte('(')
	for _, v := range args {
		sb.WriteString(strconv.Itoa(len(v)))
		sb.WriteByte(':')
		sb.WriteString(v)
		sb.WriteByte(';')
	}
	sb.WriteByte(')')
	return sb.String()
}

// Eval is the meaning of a tree.
func Eval(n Node) string {
	switch n.K {
	case "lit":
		return string(n.S)
	case "group":
		return matchVal(n.N)
	case "key":
		return keyVal(string(n.S))
	case "cat":
		var sb strings.Builder
		for _, k := range n.Kids {
			sb.WriteString(Eval(k))
		}
		return sb.String()
	case "call":
		args := make([]string, len(n.Kids))
		for i, k := range n.Kids {
			args[i] = Eval(k)
		}
		return evalCall(string(n.S), args)
	}
	panic("c09: bad node kind " + n.K)
}

func EvalTop(pieces []Node) string {
	var sb strings.Builder
	for _, p := range pieces {
		sb.WriteString(Eval(p))
	}
	return sb.String()
}

// builders under test: [std][optimize]
var builders [2][2]*expressions.KeyBuilder

func init() {
	for o := 0; o < 2; o++ {
		kb := expressions.NewKeyBuilderEx(o == 1)
		for _, n := range recNames {
			kb.Func(n, recFunc(n))
		}
		builders[0][o] = kb
		builders[1][o] = funclib.NewKeyBuilderEx(o == 1)
	}
}

func b2i(b bool) int {
	if b {
		return 1
	}
	return 0
}

func fnNames(std bool) []string {
	if std {
		return stdNames
	}
	return recNames
}

// names that are registered in neither table
var unknownNames = []string{"nosuchfn", "zzz", "f9", "tabb", "Coalesce2", "gg", "x_y", "unk.fn"}

// ---------- printer ---------------------------------------------------------

// needsQuote: a literal argument that holds anything a reader could call
// whitespace (or nothing at all) is always printed in double quotes.
func needsQuote(s string) bool {
	if s == "" {
		return true
	}
	for _, r := range s {
		if r == ' ' || !unicode.IsPrint(r) {
			return true
		}
	}
	return false
}

type span struct {
	Open, Close int // byte offsets of '{' and '}'
	FnA, FnB    int // byte span of the function name (call only; else -1)
	Top         int // index of the top-level piece holding it
	Depth       int // 0 = top-level statement
}

type stats struct {
	must, opt, mnem, maxRun                 int
	quoted, emptyQ, bare, cats, calls       int
	maxDepth, groups, keys                  int
	sepTab, sepNL, sepRun, padIn, zeroGroup int
	lastNested, midNested, strayR          int
	specInBraces, escBlank                  int
}

// printer writes rare syntax. Every choice is taken through choose(n) in
// [0,n), which the caller backs with rapid draws (or an enumeration).
type printer struct {
	sb     strings.Builder
	choose func(n int) int
	spans  []span
	bounds []int // byte offsets of top-level piece boundaries
	curTop int
	st     stats
	// literal rendering options at depth 0 / in arguments
	optMask uint32 // which optional escapes are taken
	mnem    bool   // write NL/TAB/CR as \n \t \r where a compile pass allows
	escAll  bool   // depth 0: escape every rune that may be escaped
	bareR   bool   // depth 0: leave '}' unescaped (it is a literal there)
}

var seps = []string{" ", " ", " ", "  ", "\t", "\n", "\r\n", " \t ", "   ", "\n  "}
var pads = []string{"", "", "", " ", "  ", "\t", "\n", " \t"}

func (p *printer) sep() string {
	s := seps[p.choose(len(seps))]
	if strings.ContainsAny(s, "\t") {
		p.st.sepTab++
	}
	if strings.ContainsAny(s, "\n") {
		p.st.sepNL++
	}
	if len(s) > 1 {
		p.st.sepRun++
	}
	return s
}

func (p *printer) pad() string {
	s := pads[p.choose(len(pads))]
	if s != "" {
		p.st.padIn++
	}
	return s
}

// renderRune writes one literal rune that sits inside `depth` pairs of braces.
// The text between the outermost template and the place where the rune is
// finally a literal is read 1+2*depth times: by the template scanner (C), then
// per nesting level by the argument splitter (S) and the scanner of the
// argument (C). Each reading removes one backslash layer; only C knows the
// \n \t \r mnemonics. The rendering is built backwards, one layer per reading.
func (p *printer) renderRune(r rune, idx, depth int, quoted bool) {
	t := []rune{r}
	n := 1 + 2*depth
	escapedHere := false
	for i := n - 1; i >= 0; i-- {
		isC := i%2 == 0
		out := make([]rune, 0, 2*len(t)+1)
		for j := 0; j < len(t)-1; j++ {
			_ = j
			out = append(out, '\\', '\\')
		}
		x := t[len(t)-1]
		optBit := p.escAll || (p.optMask>>(uint(idx*5+i*3)&31))&1 == 1
		switch {
		case x == '\\' || x == '{' || (x == '}' && !(p.bareR && depth == 0)):
			out = append(out, '\\', x)
			escapedHere = true
		case x == '}': // depth 0, left bare on purpose
			out = append(out, x)
			p.st.strayR++
		case x == '"' && !isC:
			out = append(out, '\\', x)
			escapedHere = true
		case !quoted && depth > 0 && i == n-2 && unicode.IsSpace(x):
			// a blank of a bare (unquoted) argument: literal for the splitter of its own statement
			// only when escaped there ("\x makes any character literal")
			out = append(out, '\\', x)
			escapedHere = true
			p.st.escBlank++
		case isC && p.mnem && (x == '\n' || x == '\t' || x == '\r') && (depth == 0 || (p.optMask>>(uint(idx*7+i)&31))&1 == 1):
			m := map[rune]rune{'\n': 'n', '\t': 't', '\r': 'r'}[x]
			out = append(out, '\\', m)
			p.st.mnem++
		case x == 'n' || x == 't' || x == 'r':
			out = append(out, x) // \n would be a newline to a C reading; never escaped
		case optBit:
			out = append(out, '\\', x)
			p.st.opt++
		default:
			out = append(out, x)
		}
		t = out
	}
	if escapedHere {
		p.st.must++
		if depth > 0 {
			p.st.specInBraces++
		}
	}
	if run := len(t) - 1; run > p.st.maxRun {
		p.st.maxRun = run
	}
	p.sb.WriteString(string(t))
	_ = quoted
}

func (p *printer) lit(s string, depth int, quoted bool) {
	idx := 0
	for _, r := range s {
		p.renderRune(r, idx, depth, quoted)
		idx++
	}
}

func (p *printer) top(pieces []Node) {
	for i, nd := range pieces {
		p.bounds = append(p.bounds, p.sb.Len())
		p.curTop = i
		if nd.K == "lit" {
			p.lit(string(nd.S), 0, false)
		} else {
			p.stmt(nd, 0)
		}
	}
	p.bounds = append(p.bounds, p.sb.Len())
}

func (p *printer) stmt(nd Node, depth int) {
	if depth+1 > p.st.maxDepth {
		p.st.maxDepth = depth + 1
	}
	sp := span{Open: p.sb.Len(), FnA: -1, FnB: -1, Top: p.curTop, Depth: depth}
	p.sb.WriteByte('{')
	p.sb.WriteString(p.pad())
	switch nd.K {
	case "group":
		p.st.groups++
		z := []int{0, 0, 0, 1, 2}[p.choose(5)]
		if z > 0 {
			p.st.zeroGroup++
		}
		p.sb.WriteString(strings.Repeat("0", z) + strconv.Itoa(nd.N))
	case "key":
		p.st.keys++
		p.sb.WriteString(string(nd.S))
	case "call":
		p.st.calls++
		sp.FnA = p.sb.Len()
		p.sb.WriteString(string(nd.S))
		sp.FnB = p.sb.Len()
		for i, a := range nd.Kids {
			p.sb.WriteString(p.sep())
			if a.K == "call" {
				if i == len(nd.Kids)-1 {
					p.st.lastNested++
				} else {
					p.st.midNested++
				}
			}
			p.arg(a, depth+1)
		}
	default:
		panic("c09: stmt of " + nd.K)
	}
	p.sb.WriteString(p.pad())
	sp.Close = p.sb.Len()
	p.sb.WriteByte('}')
	p.spans = append(p.spans, sp)
}

func (p *printer) arg(nd Node, depth int) {
	switch nd.K {
	case "lit":
		s := string(nd.S)
		bareBlank := s != "" && needsQuote(s) && p.choose(4) == 0 // blanks escaped instead of quoted
		if (needsQuote(s) && !bareBlank) || (!bareBlank && p.choose(3) == 0) {
			p.st.quoted++
			if s == "" {
				p.st.emptyQ++
			}
			p.sb.WriteByte('"')
			p.lit(s, depth, true)
			p.sb.WriteByte('"')
		} else {
			p.st.bare++
			p.lit(s, depth, false)
		}
	case "cat":
		p.st.cats++
		for _, k := range nd.Kids {
			if k.K == "lit" {
				p.lit(string(k.S), depth, false)
			} else {
				p.stmt(k, depth)
			}
		}
	default:
		p.stmt(nd, depth)
	}
}

// wellFormed guards the generator's own contract (never the code under test).
func wellFormed(pieces []Node, std bool) string {
	var chk func(n Node, top, inCat bool) string
	known := map[string]bool{}
	for _, f := range fnNames(std) {
		known[f] = true
	}
	chk = func(n Node, top, inCat bool) string {
		switch n.K {
		case "lit":
			if !utf8.ValidString(string(n.S)) {
				return "literal not UTF-8"
			}
			if inCat && needsQuote(string(n.S)) {
				return "cat literal needs quotes"
			}
		case "group":
			if n.N < 0 || n.N > 99 {
				return "group out of range"
			}
		case "key":
			if !keyOK(string(n.S)) {
				return "bad key name"
			}
		case "call":
			if !known[string(n.S)] || len(n.Kids) == 0 {
				return "bad call"
			}
			for _, k := range n.Kids {
				if e := chk(k, false, false); e != "" {
					return e
				}
			}
		case "cat":
			if top || inCat || len(n.Kids) < 2 {
				return "bad cat"
			}
			nonLit := 0
			for i, k := range n.Kids {
				if k.K == "cat" {
					return "cat in cat"
				}
				if k.K == "lit" && i > 0 && n.Kids[i-1].K == "lit" {
					return "adjacent cat literals"
				}
				if k.K != "lit" {
					nonLit++
				}
				if e := chk(k, false, true); e != "" {
					return e
				}
			}
			if nonLit == 0 {
				return "cat without statement"
			}
		default:
			return "bad kind"
		}
		return ""
	}
	for _, p := range pieces {
		if e := chk(p, true, false); e != "" {
			return e
		}
	}
	return ""
}

// keyOK: a "word": starts with a letter or underscore (or is one of the
// documented special keys), holds no blank, quote, brace or backslash, and is
// not something a number parser could accept.
var specialKeys = []string{".", "#", ".#", "@", "src", "line"}

func keyOK(k string) bool {
	for _, s := range specialKeys {
		if k == s {
			return true
		}
	}
	if k == "" {
		return false
	}
	// a word that starts with digits is a key as long as it is not an integer:
	// admitted when it holds a letter that occurs in no integer spelling
	// (no hex digit, exponent or base marker), e.g. 2xx -> no (x), 5xxs -> yes
	digitLed := k[0] >= '0' && k[0] <= '9' && strings.ContainsAny(k, "ghijklmnpqrstuvwyzGHIJKLMNPQRSTUVWYZ")
	for i, r := range k {
		if i == 0 && !(unicode.IsLetter(r) || r == '_' || digitLed) {
			return false
		}
		if !(unicode.IsLetter(r) || unicode.IsDigit(r) || r == '_' || r == '.' || r == '-') {
			return false
		}
	}
	return true
}
