// Generators of C16: hostile captured texts and group names.
package c16

import (
	"strings"
	"unicode/utf8"

	"pgregory.net/rapid"
)

// numeric shapes named by the property's quantifier ("digits with leading
// zeros, signs, decimals") plus neighbours that must not be mistaken.
var numericPool = []string{
	"0", "7", "42", "007", "00", "000", "01", "0123", "10", "100", "1.", ".5", "1.5", "1.50", "0.5", "0.0", "00.5", "01.5", "0.", "-3", "+3", "-0", "-0.5", "- 3",
	"1e5", "1E5", "1e+5", "1e-5", "1e", "e5", "1.5e3", "123456789012345678901234567890", "0.000000000000000000001", "9223372036854775808",
	"18446744073709551616", "1.2.3", "1..2", ".", "-", "+", "--1", "1-", "0x10", "0b1", "0o7", "1_000", "1,000", " 1", "1 ", "1\n", "\t1",
	// decimals a float64 cannot hold exactly (nanosecond timestamps, long fractions, integers past 2^53 written with a point)
	"1700000000.123456789", "1700000000.123456788", "9007199254740993.0", "0.1234567890123456789", "123456789012345678.5", "3.141592653589793238", "0.10000000000000001", "99999999999999999.99",
	"Infinity", "-Infinity", "NaN", "nan", "inf", "١٢٣", "１２", "1/2", "1a", "a1", "0 0", "3.14159", "200", "404", "1024", "00000000000000000000000000000001",
}

var boolPool = []string{
	"true", "false", "TRUE", "FALSE", "True", "False", "tRuE", "fAlSe", "falſe", "FALſE", "ſ", "trué", "true ", " false", "truee", "tru", "fals", "t", "f", "yes", "no",
	"null", "NULL", "Null", "nil", "undefined", "none", "truefalse", "true\x00", "\"true\"",
}

var injectPool = []string{
	`","x":"1`, `"}`, `{"a":1}`, `[1,2]`, `A`, `\"`, `\\`, `\`, `"`, `""`, `\n`, `\u000`, `a\`, `\"}`, `": "`, `', '`, `/`, `</script>`, `{}`, `[`, `]`, `:`, `,`,
}

var wordPool = []string{"GET", "POST", "index.html", "error", "INFO", "user_1", "a", "b", "x y", "200 OK", "/api/v1/x?y=1&z=2", "2020-01-02T03:04:05Z", "127.0.0.1", "-"}

// non-ASCII and invalid UTF-8 fragments
var uniPool = []string{
	"\u00e9", "\u00df", "\u65e5\u672c", "\U0001f600", "\u2028", "\u2029", "\ufffd", "\u0080", "\u009f", "\u00a0", "\ufeff", "\U0010ffff", "\u07ff", "\u0800", "\uffff", "\u017f", "\u212a",
}
var badUTF8Pool = []string{
	"\xff", "\xfe", "\x80", "\xbf", "\xc3", "\xc0\x80", "\xe2\x82", "\xed\xa0\x80", "\xf0\x9f\x98", "\xf4\x90\x80\x80", "\xc3\x28", "\xf8\x88\x80\x80\x80", "\xe9",
}

// genByteString draws 1..n fragments from the hostile alphabet: every control
// character 0x00..0x1F, quote, backslash, slash, DEL, plain ASCII, non-ASCII,
// invalid UTF-8.
func genByteString(t *rapid.T, label string, maxFrags int) string {
	n := rapid.IntRange(1, maxFrags).Draw(t, label+"n")
	var sb strings.Builder
	for i := 0; i < n; i++ {
		switch rapid.IntRange(0, 11).Draw(t, label+"f") {
		case 0, 1, 2:
			sb.WriteByte(byte(rapid.IntRange(0, 0x1f).Draw(t, label+"ctl")))
		case 3:
			sb.WriteByte('"')
		case 4:
			sb.WriteByte('\\')
		case 5:
			sb.WriteString(rapid.SampledFrom([]string{"/", "\x7f", " ", "'", "<", "&", "{", "}", "%", "=", ":", ","}).Draw(t, label+"p"))
		case 6:
			sb.WriteString(rapid.SampledFrom(uniPool).Draw(t, label+"u"))
		case 7:
			sb.WriteString(rapid.SampledFrom(badUTF8Pool).Draw(t, label+"x"))
		case 8:
			sb.WriteByte(byte(rapid.IntRange(0, 255).Draw(t, label+"any")))
		default:
			sb.WriteString(rapid.SampledFrom([]string{"a", "b", "Z", "0", "1", "9", "x", "_"}).Draw(t, label+"a"))
		}
	}
	return sb.String()
}

func genNumeric(t *rapid.T, label string) string {
	if rapid.IntRange(0, 2).Draw(t, label+"k") > 0 {
		return rapid.SampledFrom(numericPool).Draw(t, label)
	}
	// assembled from the numeric alphabet
	n := rapid.IntRange(1, 7).Draw(t, label+"n")
	var sb strings.Builder
	for i := 0; i < n; i++ {
		sb.WriteString(rapid.SampledFrom([]string{"0", "0", "1", "5", "9", ".", "-", "+", "e", "E"}).Draw(t, label+"c"))
	}
	return sb.String()
}

// genValue draws one captured text. forbid lists byte sequences that must not
// occur (the delimiters of the matcher the text is embedded in); they are
// removed, never filtered by rejection.
func genValue(t *rapid.T, label string, forbid []string) string {
	var v string
	switch rapid.IntRange(0, 13).Draw(t, label+"class") {
	case 0:
		v = ""
	case 1, 2, 3:
		v = genNumeric(t, label+"num")
	case 4:
		v = rapid.SampledFrom(boolPool).Draw(t, label+"bool")
	case 5, 6, 7, 8:
		v = genByteString(t, label+"bs", 6)
	case 9:
		v = rapid.SampledFrom(injectPool).Draw(t, label+"inj")
	case 10:
		v = rapid.SampledFrom(wordPool).Draw(t, label+"w")
	case 11:
		// a numeric or boolean shape disturbed by one hostile byte
		v = genNumeric(t, label+"num2") + genByteString(t, label+"bs2", 1)
	case 12:
		v = genByteString(t, label+"bs3", 1) + rapid.SampledFrom(boolPool).Draw(t, label+"bool2")
	default:
		v = strings.Repeat(genByteString(t, label+"bs4", 3), rapid.IntRange(1, 20).Draw(t, label+"rep"))
	}
	return scrub(v, forbid)
}

func scrub(v string, forbid []string) string {
	for changed := true; changed; {
		changed = false
		for _, f := range forbid {
			if f != "" && strings.Contains(v, f) {
				v = strings.ReplaceAll(v, f, "")
				changed = true
			}
		}
	}
	return v
}

var plainNames = []string{"a", "b", "c", "val", "num", "ip", "status", "X", "_", "a1", "k_2", "user", "msg", "Z9"}

// regexp group names are word characters by the regexp syntax.
func genWordName(t *rapid.T, label string) string {
	if rapid.IntRange(0, 2).Draw(t, label+"k") > 0 {
		return rapid.SampledFrom(plainNames).Draw(t, label)
	}
	return rapid.StringMatching(`[A-Za-z_][A-Za-z0-9_]{0,6}`).Draw(t, label)
}

// dissect token names are arbitrary text up to the closing brace.
func genTextName(t *rapid.T, label string) string {
	switch rapid.IntRange(0, 5).Draw(t, label+"k") {
	case 0, 1:
		return rapid.SampledFrom(plainNames).Draw(t, label)
	case 2:
		return rapid.SampledFrom([]string{`a"b`, `"`, `a\`, `\`, `a b`, "tab\there", "nl\nx", "é", "日本", "k\x00", "\x01", "\x1f", "a/b", "[a][b]", "a.b", "a:b", "x\xff", "\xc3", `A`, `a","b":"c`, "%", "{", "a%{b", "+a", "&a", "a->b", "😀"}).Draw(t, label)
	default:
		return genByteString(t, label+"bs", 4)
	}
}

func allDigits(s string) bool {
	if s == "" {
		return false
	}
	for i := 0; i < len(s); i++ {
		if !isDigit(s[i]) {
			return false
		}
	}
	return true
}

// needsEscape reports whether s holds a byte RFC 8259 does not allow raw in a
// string.
func needsEscape(s string) bool {
	for i := 0; i < len(s); i++ {
		if s[i] < 0x20 || s[i] == '"' || s[i] == '\\' {
			return true
		}
	}
	return false
}

func hasRareControl(s string) bool {
	for i := 0; i < len(s); i++ {
		c := s[i]
		if c < 0x20 && c != '\b' && c != '\f' && c != '\n' && c != '\r' && c != '\t' {
			return true
		}
	}
	return false
}

// looksNumericNotCanonical: a decimal spelling (liberal reading) that is not
// itself a JSON number token.
func looksNumericNotCanonical(s string) bool {
	if _, ok := parseDecimal(s); !ok {
		return false
	}
	p := &jparser{s: s}
	_, err := p.number()
	return err != nil || p.i != len(s)
}

func isJSONNumber(s string) bool {
	p := &jparser{s: s}
	_, err := p.number()
	return err == nil && p.i == len(s) && s != ""
}

func nonASCII(s string) bool {
	for i := 0; i < len(s); i++ {
		if s[i] >= 0x80 {
			return true
		}
	}
	return false
}

// textLabels classifies one captured text (or name) for the evidence.
func textLabels(prefix, s string, add func(bool, string)) {
	add(s == "", prefix+"empty")
	add(needsEscape(s), prefix+"needs-escape")
	add(hasRareControl(s), prefix+"control-without-short-escape")
	add(strings.ContainsAny(s, "\b\f\n\r\t"), prefix+"control-with-short-escape")
	add(strings.Contains(s, `"`), prefix+"quote")
	add(strings.Contains(s, `\`), prefix+"backslash")
	add(strings.Contains(s, "\x00"), prefix+"NUL")
	add(strings.Contains(s, "\x7f"), prefix+"DEL")
	add(nonASCII(s) && utf8.ValidString(s), prefix+"non-ascii")
	add(!utf8.ValidString(s), prefix+"invalid-utf8")
	add(isJSONNumber(s), prefix+"canonical-number")
	add(looksNumericNotCanonical(s), prefix+"numeric-not-canonical")
	add(len(s) > 1 && s[0] == '0' && isDigit(s[1]), prefix+"leading-zero")
	lo := asciiLower(s)
	add(lo == "true" || lo == "false", prefix+"boolean")
	add(lo == "null", prefix+"null-word")
}
