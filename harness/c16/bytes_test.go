// C16: bounded-exhaustive sweeps, the model self-check and the native fuzz target.
package c16

import (
	"encoding/json"
	"fmt"
	"strings"
	"testing"

	"verifharness/pbt"
)

// TestBytesWriter enumerates, through the writer oracle:
//   - every byte value 0x00..0xFF in five contexts, as an inferred value, as a
//     string value and inside a member name;
//   - every pair of bytes from the set {all control characters, quote,
//     backslash, slash, DEL, 0x80, 0xC3, 0xA9, 0xFF, 'a', '0'};
//   - every string of length <= L over the numeric alphabet {0 1 9 . - + e};
//   - every upper/lower-case spelling of true, false and null, bare and with
//     one byte before or after.
func TestBytesWriter(t *testing.T) {
	L := 5
	if pbt.Thorough() {
		L = 7
	}
	sp := writerSpec
	sp.Name = "bytes-writer"
	sp.Rule = fmt.Sprintf("bounded-exhaustive through the writer oracle: every byte 0x00..0xFF in contexts {b, a+b, b+a, a+b+b', bb} as inferred value / string value / member name; every pair of bytes from {controls, quote, backslash, slash, DEL, 0x80, 0xC3, 0xA9, 0xFF, a, 0}; every string of length<=%d over {0 1 9 . - + e}; every case spelling of true/false/null bare and with one neighbour byte. Non-trivial: needs escaping or non-canonical numeric spelling", L)
	one := func(kind, key, val string) WriterCase {
		return WriterCase{Ops: []Op{{Kind: kind, Key: pbt.S(key), Val: pbt.S(val)}}, Obs: pbt.NewObs()}
	}
	pbt.Enum(t, sp, func(yield func(WriterCase) bool) {
		for b := 0; b < 256; b++ {
			c := string([]byte{byte(b)})
			for _, s := range []string{c, "a" + c, c + "a", "a" + c + "b", c + c} {
				if !yield(one("inferred", "k", s)) || !yield(one("string", "k", s)) || !yield(one("inferred", s, "v")) {
					return
				}
				// two members: the separator must survive whatever the first one holds
				two := WriterCase{Ops: []Op{{Kind: "inferred", Key: pbt.S(s), Val: pbt.S(s)}, {Kind: "inferred", Key: "z", Val: "1"}}, Obs: pbt.NewObs()}
				if !yield(two) {
					return
				}
			}
		}
		var set []byte
		for b := 0; b < 0x20; b++ {
			set = append(set, byte(b))
		}
		set = append(set, '"', '\\', '/', 0x7f, 0x80, 0xc3, 0xa9, 0xff, 'a', '0')
		for _, b1 := range set {
			for _, b2 := range set {
				s := string([]byte{b1, b2})
				if !yield(one("inferred", "k", s)) || !yield(one("inferred", s, "v")) {
					return
				}
			}
		}
		alpha := []byte("019.-+e")
		for n := 0; n <= L; n++ {
			total := 1
			for i := 0; i < n; i++ {
				total *= len(alpha)
			}
			buf := make([]byte, n)
			for v := 0; v < total; v++ {
				x := v
				for i := range buf {
					buf[i] = alpha[x%len(alpha)]
					x /= len(alpha)
				}
				if !yield(one("inferred", "k", string(buf))) {
					return
				}
			}
		}
		for _, w := range []string{"true", "false", "null"} {
			for mask := 0; mask < 1<<len(w); mask++ {
				b := []byte(w)
				for i := range b {
					if mask&(1<<i) != 0 {
						b[i] -= 32
					}
				}
				s := string(b)
				for _, v := range []string{s, " " + s, s + " ", "x" + s, s + "x", "\x00" + s, s + "\x00", s + "\n", s + s} {
					if !yield(one("inferred", "k", v)) {
						return
					}
				}
			}
		}
	})
}

// TestBytesView pushes every byte value through the real matchers: as the
// text of a named regexp group, as the text of a dissect token and inside a
// dissect token name.
func TestBytesView(t *testing.T) {
	sp := viewSpec
	sp.Name = "bytes-view"
	sp.Rule = "bounded-exhaustive through the view oracle: every byte 0x00..0xFF (except the matcher's own delimiter) as the captured text {b, a+b+b'} of a named regexp group and of a dissect token, for keys {.} and {.#}, two groups, 4 evaluations; every byte (except '}') inside a dissect token name. Non-trivial: as view"
	pbt.Enum(t, sp, func(yield func(ViewCase) bool) {
		for b := 0; b < 256; b++ {
			ch := string([]byte{byte(b)})
			for _, kind := range []string{"regex", "dissect"} {
				if ch == "|" {
					continue
				}
				for _, v := range []string{ch, "a" + ch + "b"} {
					for _, key := range []string{".", ".#"} {
						m := MatcherSpec{Kind: kind, Pieces: []Piece{{Kind: "cap", Name: "x"}, {Kind: "cap", Name: "y"}}}
						if kind == "dissect" {
							m.Pieces = []Piece{{Kind: "tok", Name: "x", Delim: "|"}, {Kind: "tok", Name: "y"}}
						}
						c := ViewCase{M: m, Lines: [][]pbt.S{{pbt.S(v), "7"}}, Key: key, Reps: 4, Workers: 1, Batch: 2, Obs: pbt.NewObs()}
						if !yield(c) {
							return
						}
					}
				}
			}
			if ch != "}" {
				m := MatcherSpec{Kind: "dissect", Pieces: []Piece{{Kind: "tok", Name: pbt.S("n" + ch + "m"), Delim: "|"}, {Kind: "tok", Name: "y"}}}
				c := ViewCase{M: m, Lines: [][]pbt.S{{"v", "w"}}, Key: ".", Reps: 4, Workers: 1, Batch: 2, Obs: pbt.NewObs()}
				if !yield(c) {
					return
				}
			}
		}
	})
}

// TestModelSelfCheck guards the oracle itself: on a fixed, seed-independent
// list of texts the own recogniser must agree with encoding/json.Valid about
// acceptance (both are consulted for every verdict; this makes sure that a
// disagreement seen in a run is rare's doing). It does not touch rare.
func TestModelSelfCheck(t *testing.T) {
	if k, _ := pbt.Shard(); k != 0 {
		t.Skip("shard 0 only")
	}
	frags := []string{"{", "}", "\"", "a", "\\", ":", ",", " ", "0", "1", "-", ".", "e", "true", "null", "\\u00", "\\u0041", "\\ud83d", "\\ude00", "\x01", "\n", "\xff", "[", "]", "\"k\"", "\"k\":", "\"k\":1", "1.5", "01", "+1", "\\n", "\\x", "/", "\\/"}
	n := 0
	var rec func(prefix string, depth int)
	rec = func(prefix string, depth int) {
		text := prefix
		_, err := parseObject(text)
		mine := err == nil
		std := false
		if json.Valid([]byte(text)) {
			t := strings.TrimLeft(text, " \t\r\n")
			std = strings.HasPrefix(t, "{")
		}
		if mine != std {
			t.Fatalf("model self-check: own recogniser says %v (%v), encoding/json says %v for %q", mine, err, std, text)
		}
		n++
		if depth == 0 {
			return
		}
		for _, f := range frags {
			rec(prefix+f, depth-1)
		}
	}
	rec("", 3)
	for _, mid := range []string{`"a":"b"`, `"a": 1, "b": [1,{"c":null}]`, `"a":-0.0e+10`, `"a":1.`, `"a":.5`, `"a":1e`, `"a":00`, `"a":-`, `"a":"\u12"`, `"a":"\ud800"`, `"a":"\udc00\ud800"`, `"a":"😀"`, `"a" "b"`, `"a":1,`, `,"a":1`, `"a":tru`, `"a":True`, "\"a\":\"\t\"", "\"a\":\"\x7f\"", "\"a\":\"\xc3\x28\"", `"":""`, `"a":{}`, `"a":[]`, `"a":[,]`, `"a":"x" , "b" : false `} {
		for _, wrap := range [][2]string{{"{", "}"}, {" { ", " } "}, {"{", "}}"}, {"{", "} x"}, {"", ""}, {"[{", "}]"}, {"{", ""}} {
			text := wrap[0] + mid + wrap[1]
			_, err := parseObject(text)
			std := json.Valid([]byte(text)) && strings.HasPrefix(strings.TrimLeft(text, " \t\r\n"), "{")
			if (err == nil) != std {
				t.Fatalf("model self-check: own recogniser says %v (%v), encoding/json says %v for %q", err == nil, err, std, text)
			}
			n++
		}
	}
	// decimal comparison
	eq := [][2]string{{"1", "1.0"}, {"1e5", "100000"}, {"+3", "3"}, {"007", "7"}, {"-0", "0"}, {".5", "0.5"}, {"1.", "1"}, {"1.50", "1.5"}, {"15e-1", "1.5"}, {"0e99", "0"}, {"123456789012345678901234567890", "123456789012345678901234567890"}}
	ne := [][2]string{{"1", "2"}, {"1", "-1"}, {"1e5", "1e6"}, {"0.1", "0.10000000000000001"}, {"9007199254740993", "9007199254740992"}}
	for _, p := range eq {
		a, ok1 := parseDecimal(p[0])
		b, ok2 := parseDecimal(p[1])
		if !ok1 || !ok2 || !a.equal(b) {
			t.Fatalf("model self-check: %q and %q must be equal decimals", p[0], p[1])
		}
	}
	for _, p := range ne {
		a, _ := parseDecimal(p[0])
		b, _ := parseDecimal(p[1])
		if a.equal(b) {
			t.Fatalf("model self-check: %q and %q must differ", p[0], p[1])
		}
	}
	for _, s := range []string{"", ".", "-", "+", "e5", "1e", "1.2.3", "0x10", "1_0", " 1", "1 ", "NaN", "Infinity", "1/2", "--1"} {
		if _, ok := parseDecimal(s); ok {
			t.Fatalf("model self-check: %q must not read as a decimal", s)
		}
	}
	pbt.Note("C16", "model_selfcheck_texts", n)
}

// FuzzViews: native coverage-guided fuzzing over two (name, text) pairs, with
// the full oracle inside: the writer oracle on the pairs, and - when the names
// are admissible dissect token names - the view oracle through a real dissect
// matcher and extractor.
func FuzzViews(f *testing.F) {
	seeds := [][4]string{
		{"a", "1", "b", "x"}, {"val", "007", "n", "1.50"}, {"k", "true", "j", "FALSE"}, {"a\"b", "x\x01y", "c\\", "\n\t\r\b\f"},
		{"é", "日本\xff", "z", "-3"}, {"x", "1e5", "y", ".5"}, {"x", "1.", "y", "+3"}, {"", "", "q", "\"}"}, {"n", "null", "m", "123456789012345678901234567890"},
		{"a", "\x00", "b", "\x1f\x7f"}, {"a", "\\u0041", "b", "\xed\xa0\x80"}, {"src", "00", "line", "0.0"},
	}
	for _, s := range seeds {
		f.Add(s[0], s[1], s[2], s[3], uint8(0))
	}
	f.Fuzz(func(t *testing.T, k1, v1, k2, v2 string, sel uint8) {
		if len(k1)+len(v1)+len(k2)+len(v2) > 4096 {
			return
		}
		kinds := []string{"inferred", "string"}
		w := WriterCase{Ops: []Op{{Kind: kinds[int(sel)&1], Key: pbt.S(k1), Val: pbt.S(v1)}}}
		if subst(k1) != subst(k2) {
			w.Ops = append(w.Ops, Op{Kind: kinds[int(sel>>1)&1], Key: pbt.S(k2), Val: pbt.S(v2)})
		}
		if err := checkWriter(w); err != nil {
			t.Fatalf("writer: %v", err)
		}
		const delim = "\x1e|"
		m := MatcherSpec{Kind: "dissect", Pieces: []Piece{{Kind: "tok", Name: pbt.S(k1), Delim: delim}, {Kind: "tok", Name: pbt.S(k2)}}}
		if m.admissible() != nil || strings.Contains(k1, "%") || strings.Contains(k2, "%") {
			return
		}
		c := ViewCase{M: m, Lines: [][]pbt.S{{pbt.S(scrub(v1, []string{delim})), pbt.S(v2)}}, Key: viewKeys[int(sel>>2)&3], Reps: 8, Workers: 1, Batch: 4}
		if err := checkViewCase(c); err != nil {
			t.Fatalf("view: %v", err)
		}
	})
}
