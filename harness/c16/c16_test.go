// C16 — JSON views `{.}`, `{#}`, `{.#}` of a match are valid, faithful and
// deterministic.
//
// Sub-properties:
//
//	view        real matchers (regexp / dissect) + extractor.New with -e "{.}" etc.
//	writer      minijson.JsonObjectBuilder driven directly
//	bytes       bounded-exhaustive: every byte value / every short numeric spelling
//	cli         the rare binary: filter + histo over identical lines, separate processes
//	expression  the `rare expression -k a=.. -d ..` emulation of the special keys
package c16

import (
	"fmt"
	"sort"
	"strconv"
	"strings"
	"testing"

	"pgregory.net/rapid"
	"rare/pkg/extractor"
	"rare/pkg/matchers"
	"rare/pkg/matchers/dissect"
	"rare/pkg/matchers/fastregex"
	"rare/pkg/minijson"
	"verifharness/pbt"
)

// ---------------------------------------------------------------------------
// view: matcher description
// ---------------------------------------------------------------------------

// Piece is one capture site of the generated matcher.
//
//	regex:   cap  -> ([^|]*) or (?P<Name>[^|]*)
//	         opt  -> (~)? or (?P<Name>~)?         participates iff the line holds "~" there
//	         nest -> (?P<Name>([^|=]*)=([^|]*))   three groups, the outer one named or not
//	dissect: tok  -> %{Name}    skip -> %{} (Name=="") or %{?Name}
//
// Regex pieces are joined with a literal '|'; every dissect piece is followed
// by its Delim (the last one may have none: the token then runs to the end).
type Piece struct {
	Kind  string
	Name  pbt.S
	Delim pbt.S
}

type MatcherSpec struct {
	Kind   string // regex | dissect
	Prefix pbt.S  // dissect only: literal before the first token
	Pieces []Piece
}

func (m MatcherSpec) pattern() string {
	var sb strings.Builder
	if m.Kind == "regex" {
		sb.WriteString("^")
		for i, p := range m.Pieces {
			if i > 0 {
				sb.WriteString(`\|`)
			}
			open := "("
			if p.Name != "" {
				open = "(?P<" + string(p.Name) + ">"
			}
			switch p.Kind {
			case "opt":
				sb.WriteString(open + "~)?")
			case "nest":
				sb.WriteString(open + "([^|=]*)=([^|]*))")
			default:
				sb.WriteString(open + "[^|]*)")
			}
		}
		sb.WriteString("$")
		return sb.String()
	}
	sb.WriteString(string(m.Prefix))
	for _, p := range m.Pieces {
		switch p.Kind {
		case "skip":
			if p.Name == "" {
				sb.WriteString("%{}")
			} else {
				sb.WriteString("%{?" + string(p.Name) + "}")
			}
		default:
			sb.WriteString("%{" + string(p.Name) + "}")
		}
		sb.WriteString(string(p.Delim))
	}
	return sb.String()
}

// line embeds one value per piece.
func (m MatcherSpec) line(vals []pbt.S) string {
	var sb strings.Builder
	val := func(i int) string {
		if i < len(vals) {
			return string(vals[i])
		}
		return ""
	}
	if m.Kind == "regex" {
		for i := range m.Pieces {
			if i > 0 {
				sb.WriteByte('|')
			}
			sb.WriteString(val(i))
		}
		return sb.String()
	}
	sb.WriteString(string(m.Prefix))
	for i, p := range m.Pieces {
		sb.WriteString(val(i))
		sb.WriteString(string(p.Delim))
	}
	return sb.String()
}

// groups lists the capture groups in index order (index 0, the whole match,
// is not listed): the name of each ("" = unnamed).
func (m MatcherSpec) groups() []string {
	var gs []string
	for _, p := range m.Pieces {
		switch p.Kind {
		case "skip":
		case "nest":
			gs = append(gs, string(p.Name), "", "")
		default:
			gs = append(gs, string(p.Name))
		}
	}
	return gs
}

func (m MatcherSpec) compile() (matchers.Factory, error) {
	if m.Kind == "regex" {
		re, err := fastregex.Compile(m.pattern())
		if err != nil {
			return nil, err
		}
		return matchers.ToFactory(re), nil
	}
	d, err := dissect.Compile(m.pattern())
	if err != nil {
		return nil, err
	}
	return matchers.ToFactory(d), nil
}

// admissible says whether the names are inside the generated domain (also
// applied to replayed / fuzzed cases, which do not come from the generator).
func (m MatcherSpec) admissible() error {
	seen := map[string]bool{}
	for _, p := range m.Pieces {
		n := string(p.Name)
		if m.Kind == "dissect" {
			if strings.Contains(n, "}") {
				return fmt.Errorf("dissect name contains '}'")
			}
			if p.Kind != "skip" && (n == "" || n[0] == '?') {
				return fmt.Errorf("dissect name empty or starting with '?'")
			}
			if strings.Contains(string(p.Delim), "%") || strings.Contains(string(m.Prefix), "%") {
				return fmt.Errorf("'%%' in a dissect literal")
			}
		}
		if p.Kind == "skip" || n == "" {
			continue
		}
		if allDigits(n) {
			return fmt.Errorf("all-digit group name")
		}
		k := subst(n)
		if seen[k] {
			return fmt.Errorf("duplicate group name")
		}
		seen[k] = true
	}
	return nil
}

// ---------------------------------------------------------------------------
// view: running the real extractor
// ---------------------------------------------------------------------------

type extracted struct {
	Logical int // index of the generated line this match belongs to
	LineNo  uint64
	Line    string
	Idx     []int
	Text    string
}

// runExtractor feeds the lines (each repeated reps times, in batches) through
// extractor.New and returns what came out, ordered by generated line. With
// sources > 1 the generated lines are dealt round-robin to that many inputs,
// each numbering its lines from 1, and the batches of the inputs are sent
// alternately - the way several files reach one worker - so that different
// matches carry the same line number.
func runExtractor(f matchers.Factory, expr string, lines []string, reps, workers, batch, sources int) ([]extracted, error) {
	if sources < 1 {
		sources = 1
	}
	in := make(chan extractor.InputBatch, 4)
	ex, err := extractor.New(in, &extractor.Config{Matcher: f, Extract: expr, Workers: workers})
	if err != nil {
		close(in)
		return nil, fmt.Errorf("extractor.New(%q): %v", expr, err)
	}
	type key struct {
		src string
		no  uint64
	}
	logical := map[key]int{}
	perSource := make([][]extractor.InputBatch, sources)
	for si := 0; si < sources; si++ {
		src := "src"
		if sources > 1 {
			src = fmt.Sprintf("src%d", si)
		}
		var cur []extractor.BString
		start, n := uint64(1), uint64(0)
		for li := si; li < len(lines); li += sources {
			for r := 0; r < reps; r++ {
				cur = append(cur, extractor.BString(append([]byte(nil), lines[li]...)))
				n++
				logical[key{src, n}] = li
				if len(cur) >= batch {
					perSource[si] = append(perSource[si], extractor.InputBatch{Batch: cur, Source: src, BatchStart: start})
					start += uint64(len(cur))
					cur = nil
				}
			}
		}
		if len(cur) > 0 {
			perSource[si] = append(perSource[si], extractor.InputBatch{Batch: cur, Source: src, BatchStart: start})
		}
	}
	go func() {
		for k := 0; ; k++ {
			sent := false
			for si := range perSource {
				if k < len(perSource[si]) {
					in <- perSource[si][k]
					sent = true
				}
			}
			if !sent {
				break
			}
		}
		close(in)
	}()
	var out []extracted
	for b := range ex.ReadChan() {
		for _, m := range b {
			li, ok := logical[key{m.Source, m.LineNumber}]
			if !ok {
				li = -1
			}
			out = append(out, extracted{Logical: li, LineNo: m.LineNumber, Line: strings.Clone(m.Line), Idx: append([]int(nil), m.Indices...), Text: m.Extracted})
		}
	}
	sort.SliceStable(out, func(i, j int) bool { return out[i].Logical < out[j].Logical })
	return out, nil
}

func groupText(line string, idx []int, g int) string {
	if 2*g+1 >= len(idx) {
		return ""
	}
	s, e := idx[2*g], idx[2*g+1]
	if s < 0 || e < 0 || s > e || e > len(line) {
		return ""
	}
	return line[s:e]
}

// wantsFor lists the groups a view has to show, from the group names of the
// matcher and the real match indices (the captured texts are the matcher's;
// whether the matcher captured the right thing is C02/C12).
func wantsFor(key string, names []string, line string, idx []int) []want {
	var ws []want
	if strings.Contains(key, ".") {
		for g, n := range names {
			if n != "" {
				ws = append(ws, want{Key: n, Text: groupText(line, idx, g+1)})
			}
		}
	}
	if strings.Contains(key, "#") {
		for g := 0; g < len(idx)/2; g++ {
			ws = append(ws, want{Key: strconv.Itoa(g), Text: groupText(line, idx, g)})
		}
	}
	return ws
}

var viewKeys = []string{".", "#", ".#", "#."}

type ViewCase struct {
	M       MatcherSpec
	Lines   [][]pbt.S // values per piece, per line
	Key     string    // . # .# #.
	Reps    int       // evaluations of each match
	Workers int       // extractor goroutines
	Batch   int       // lines per input batch
	Sources int       // inputs the lines are dealt to, each numbering from 1 (0 = 1)
	Twice   bool      // the view is evaluated twice inside one expression: "{K}<TAB>{K}"
	Obs     *pbt.Obs  `json:"-"`
}

func checkViewCase(c ViewCase) error {
	if err := c.M.admissible(); err != nil {
		pbt.Exclude("inadmissible-matcher:" + err.Error())
		return nil
	}
	okKey := false
	for _, k := range viewKeys {
		okKey = okKey || k == c.Key
	}
	if !okKey {
		return nil
	}
	f, err := c.M.compile()
	if err != nil {
		// the generated patterns are valid by construction; a rejected one is
		// outside the property (no match exists)
		c.Obs.Label(true, "pattern-rejected")
		return nil
	}
	reps, workers, batch := c.Reps, c.Workers, c.Batch
	if reps < 1 {
		reps = 1
	}
	if reps > 256 {
		reps = 256
	}
	if workers < 1 {
		workers = 1
	}
	if workers > 8 {
		workers = 8
	}
	if batch < 1 {
		batch = 1
	}
	lines := make([]string, len(c.Lines))
	for i, vals := range c.Lines {
		lines[i] = c.M.line(vals)
	}
	expr := "{" + c.Key + "}"
	if c.Twice {
		// a raw TAB cannot occur inside the rendered object (JSON escapes it)
		expr = expr + "\t" + expr
	}
	out, err := runExtractor(f, expr, lines, reps, workers, batch, c.Sources)
	if err != nil {
		return err
	}
	names := c.M.groups()
	first := map[int]string{} // logical line -> first rendering
	matched := 0
	for _, e := range out {
		if c.Twice {
			a, b, ok := strings.Cut(e.Text, "\t")
			if !ok || a != b {
				return fmt.Errorf("%s pattern %s, line %s: {%s} evaluated twice in one expression rendered two different texts:\n %s",
					c.M.Kind, pbt.Q([]byte(c.M.pattern())), pbt.Q([]byte(e.Line)), c.Key, pbt.Q([]byte(e.Text)))
			}
			e.Text = a
		}
		li := e.Logical
		if li < 0 || li >= len(lines) || e.Line != lines[li] {
			// not this property's business (C02), and nothing can be compared
			c.Obs.Label(true, "line-number-mismatch")
			continue
		}
		prev, seen := first[li]
		if !seen {
			first[li] = e.Text
			matched++
			if err := checkView(e.Text, wantsFor(c.Key, names, e.Line, e.Idx)); err != nil {
				return fmt.Errorf("%s pattern %s, line %s, {%s}:\n %v", c.M.Kind, pbt.Q([]byte(c.M.pattern())), pbt.Q([]byte(e.Line)), c.Key, err)
			}
			continue
		}
		if prev != e.Text {
			return fmt.Errorf("%s pattern %s, line %s: {%s} of the same match rendered two different texts:\n %s\n %s",
				c.M.Kind, pbt.Q([]byte(c.M.pattern())), pbt.Q([]byte(e.Line)), c.Key, pbt.Q([]byte(prev)), pbt.Q([]byte(e.Text)))
		}
	}
	c.Obs.Add("matched", matched)
	c.Obs.Add("evaluations", len(out))
	return nil
}

// dedup keeps the first occurrence of every label.
func dedup(in []string) []string {
	seen := map[string]bool{}
	out := in[:0:0]
	for _, s := range in {
		if !seen[s] {
			seen[s] = true
			out = append(out, s)
		}
	}
	return out
}

func classifyView(c ViewCase) (bool, []string) {
	var l pbt.Labels
	l.Add(true, c.M.Kind)
	l.Add(true, "key:"+c.Key)
	named := 0
	nameEsc := false
	for _, p := range c.M.Pieces {
		if p.Kind != "skip" && p.Name != "" {
			named++
			nameEsc = nameEsc || needsEscape(string(p.Name))
			textLabels("name:", string(p.Name), func(b bool, s string) {
				if b && (strings.HasSuffix(s, "needs-escape") || strings.HasSuffix(s, "invalid-utf8") || strings.HasSuffix(s, "non-ascii") || strings.HasSuffix(s, "NUL") || strings.HasSuffix(s, "quote") || strings.HasSuffix(s, "backslash")) {
					l.Add(true, s)
				}
			})
		}
		l.Add(p.Kind == "opt" || p.Kind == "nest" || p.Kind == "skip", "piece:"+p.Kind)
	}
	l.Add(true, fmt.Sprintf("named-groups=%d", min(named, 5)))
	l.Add(c.Workers > 1, "workers>1")
	l.Add(c.Sources > 1, "several-sources")
	l.Add(c.Twice, "view-twice-in-one-expression")
	hostile := false
	seen := map[string]bool{}
	for _, vals := range c.Lines {
		for i, v := range vals {
			if i < len(c.M.Pieces) && c.M.Pieces[i].Kind == "skip" {
				continue
			}
			s := string(v)
			hostile = hostile || needsEscape(s) || looksNumericNotCanonical(s)
			textLabels("value:", s, func(b bool, name string) {
				if b && !seen[name] {
					seen[name] = true
					l.Add(true, name)
				}
			})
		}
	}
	showsNames := strings.Contains(c.Key, ".")
	nt := c.Obs.Get("matched") > 0 && ((named >= 2 && showsNames && c.Reps >= 2) || hostile || (nameEsc && showsNames))
	l.Add(c.Obs.Get("matched") == 0, "no-match")
	return nt, dedup(append([]string(l), c.Obs.All()...))
}

var regexDelims = []string{"|", "~", "="}

func genRegexSpec(t *rapid.T) MatcherSpec {
	m := MatcherSpec{Kind: "regex"}
	n := rapid.IntRange(1, 5).Draw(t, "pieces")
	used := map[string]bool{}
	for i := 0; i < n; i++ {
		p := Piece{Kind: "cap"}
		switch rapid.IntRange(0, 9).Draw(t, "pk") {
		case 0:
			p.Kind = "opt"
		case 1:
			p.Kind = "nest"
		}
		if rapid.IntRange(0, 3).Draw(t, "named") > 0 {
			nm := genWordName(t, "name")
			for used[nm] {
				nm += "_"
			}
			used[nm] = true
			p.Name = pbt.S(nm)
		}
		m.Pieces = append(m.Pieces, p)
	}
	return m
}

var dissectDelims = []string{"|", "||", " ", " - ", ";", "\t", "=", `":"`, ", ", "\x00", "] ["}

func genDissectSpec(t *rapid.T) MatcherSpec {
	m := MatcherSpec{Kind: "dissect"}
	m.Prefix = pbt.S(rapid.SampledFrom([]string{"", "", "[", "ts=", "> "}).Draw(t, "prefix"))
	n := rapid.IntRange(1, 5).Draw(t, "pieces")
	used := map[string]bool{}
	for i := 0; i < n; i++ {
		p := Piece{Kind: "tok"}
		if rapid.IntRange(0, 7).Draw(t, "pk") == 0 {
			p.Kind = "skip"
			if rapid.Bool().Draw(t, "skipnamed") {
				p.Name = pbt.S(strings.ReplaceAll(genWordName(t, "skipname"), "}", ""))
			}
		} else {
			nm := strings.ReplaceAll(genTextName(t, "name"), "}", "")
			nm = strings.TrimLeft(nm, "?")
			if nm == "" {
				nm = "k"
			}
			if allDigits(nm) {
				// a token named like a group index collides with the numbered
				// members of {.#}; RFC 8259 leaves duplicate names undefined
				pbt.Exclude("all-digit-group-name")
				nm = "n" + nm
			}
			for used[subst(nm)] {
				nm += "_"
			}
			used[subst(nm)] = true
			p.Name = pbt.S(nm)
		}
		if i < n-1 || rapid.Bool().Draw(t, "lastdelim") {
			p.Delim = pbt.S(rapid.SampledFrom(dissectDelims).Draw(t, "delim"))
		}
		m.Pieces = append(m.Pieces, p)
	}
	return m
}

func genLineValues(t *rapid.T, m MatcherSpec, extraForbid []string) []pbt.S {
	vals := make([]pbt.S, len(m.Pieces))
	for i, p := range m.Pieces {
		switch {
		case m.Kind == "regex" && p.Kind == "opt":
			if rapid.Bool().Draw(t, "participates") {
				vals[i] = "~"
			}
		case m.Kind == "regex" && p.Kind == "nest":
			forbid := append([]string{"|", "="}, extraForbid...)
			vals[i] = pbt.S(genValue(t, "v", forbid) + "=" + genValue(t, "v", append([]string{"|"}, extraForbid...)))
		case m.Kind == "regex":
			vals[i] = pbt.S(genValue(t, "v", append([]string{"|"}, extraForbid...)))
		default:
			forbid := append([]string{}, extraForbid...)
			if p.Delim != "" {
				forbid = append(forbid, string(p.Delim))
				// also a prefix of the delimiter at the end of the value would
				// move the capture boundary; harmless (the real indices are the
				// truth) but it makes samples hard to read
				forbid = append(forbid, string(p.Delim[:1]))
			}
			if i == 0 && m.Prefix != "" {
				forbid = append(forbid, string(m.Prefix))
			}
			vals[i] = pbt.S(genValue(t, "v", forbid))
		}
	}
	return vals
}

func genView(t *rapid.T) ViewCase {
	c := ViewCase{Obs: pbt.NewObs()}
	if rapid.Bool().Draw(t, "dissect") {
		c.M = genDissectSpec(t)
	} else {
		c.M = genRegexSpec(t)
	}
	c.Sources = rapid.SampledFrom([]int{1, 1, 2, 3}).Draw(t, "sources")
	nl := rapid.IntRange(1, 3).Draw(t, "lines")
	if c.Sources > 1 {
		nl = rapid.IntRange(2, 6).Draw(t, "lines2")
	}
	for i := 0; i < nl; i++ {
		c.Lines = append(c.Lines, genLineValues(t, c.M, nil))
	}
	c.Key = rapid.SampledFrom(viewKeys).Draw(t, "key")
	c.Twice = rapid.IntRange(0, 3).Draw(t, "twice") == 0
	c.Reps = rapid.SampledFrom([]int{1, 1, 8, 32, 32, 64}).Draw(t, "reps")
	c.Workers = rapid.SampledFrom([]int{1, 1, 2, 4}).Draw(t, "workers")
	c.Batch = rapid.SampledFrom([]int{1, 4, 1000}).Draw(t, "batch")
	return c
}

var viewSpec = pbt.Spec[ViewCase]{
	Property: "C16", Name: "view",
	Rule:   "real matcher (regexp with 0-5 capture sites: named/unnamed, optional non-participating, nested; or dissect with arbitrary-text token names, skip tokens, multi-byte delimiters) x 1-3 lines whose captured texts come from a hostile alphabet (all control characters, quote, backslash, slash, DEL, non-ASCII, invalid UTF-8, numeric spellings incl. leading zeros/signs/exponents/30 digits, true/false/null spellings, JSON-injection fragments, empty) x key in {. # .# #.} (1 in 4: twice inside one expression) x each line evaluated 1..64 times through extractor.New with 1..4 workers, the lines dealt to 1-3 inputs that each number their lines from 1 and whose batches alternate (different matches then carry the same line number on one worker). Oracle: own RFC 8259 recogniser and encoding/json both accept one object and agree; members = groups (names from the generated matcher, texts from the real match indices), each a string equal to the captured text (invalid UTF-8 modulo U+FFFD), or a number of equal exact decimal value, or a boolean equal to the ASCII-folded text; every evaluation of one match gives one text. Non-trivial: the line matched and (>=2 named groups shown and >=2 evaluations, or a captured text that needs escaping or is a non-canonical numeric spelling, or a group name that needs escaping)",
	Budget: pbt.Budget{Quick: 64000, Thorough: 640000},
	Gen:    genView, Check: checkViewCase, Classify: classifyView,
}

func TestView(t *testing.T) { pbt.Run(t, viewSpec) }

// ---------------------------------------------------------------------------
// writer: minijson.JsonObjectBuilder directly
// ---------------------------------------------------------------------------

type Op struct {
	Kind string // inferred | string | int
	Key  pbt.S
	Val  pbt.S
	N    int
}

type WriterCase struct {
	Ops  []Op
	Hint int      // OpenEx hint (0 = Open)
	Obs  *pbt.Obs `json:"-"`
}

func buildWriter(c WriterCase) string {
	var jb minijson.JsonObjectBuilder
	if c.Hint > 0 {
		jb.OpenEx(c.Hint)
	} else {
		jb.Open()
	}
	for _, op := range c.Ops {
		switch op.Kind {
		case "string":
			jb.WriteString(string(op.Key), string(op.Val))
		case "int":
			jb.WriteInt(string(op.Key), op.N)
		default:
			jb.WriteInferred(string(op.Key), string(op.Val))
		}
	}
	jb.Close()
	return jb.String()
}

func checkWriter(c WriterCase) error {
	seen := map[string]bool{}
	var ws []want
	for _, op := range c.Ops {
		k := subst(string(op.Key))
		if seen[k] {
			pbt.Exclude("duplicate-member-name")
			return nil
		}
		seen[k] = true
		txt := string(op.Val)
		if op.Kind == "int" {
			txt = strconv.Itoa(op.N)
		}
		ws = append(ws, want{Key: string(op.Key), Text: txt})
	}
	text := buildWriter(c)
	ms, err := decodeValid(text)
	if err != nil {
		return err
	}
	if err := faithful(ms, ws); err != nil {
		return fmt.Errorf("%v\n text: %s", err, pbt.Q([]byte(text)))
	}
	if again := buildWriter(c); again != text {
		return fmt.Errorf("same writes, two texts:\n %s\n %s", pbt.Q([]byte(text)), pbt.Q([]byte(again)))
	}
	return nil
}

func classifyWriter(c WriterCase) (bool, []string) {
	var l pbt.Labels
	nt := false
	seen := map[string]bool{}
	for _, op := range c.Ops {
		l.Add(!seen["op:"+op.Kind], "op:"+op.Kind)
		seen["op:"+op.Kind] = true
		if needsEscape(string(op.Key)) {
			nt = true
		}
		textLabels("key:", string(op.Key), func(b bool, n string) {
			if b && !seen[n] && (strings.HasSuffix(n, "needs-escape") || strings.HasSuffix(n, "invalid-utf8") || strings.HasSuffix(n, "NUL") || strings.HasSuffix(n, "control-without-short-escape")) {
				seen[n] = true
				l.Add(true, n)
			}
		})
		if op.Kind == "int" {
			continue
		}
		s := string(op.Val)
		if needsEscape(s) || looksNumericNotCanonical(s) {
			nt = true
		}
		textLabels("value:", s, func(b bool, n string) {
			if b && !seen[n] {
				seen[n] = true
				l.Add(true, n)
			}
		})
	}
	l.Add(true, fmt.Sprintf("members=%d", min(len(c.Ops), 9)))
	return nt, l
}

func genWriter(t *rapid.T) WriterCase {
	c := WriterCase{Obs: pbt.NewObs()}
	n := rapid.SampledFrom([]int{0, 1, 1, 2, 2, 3, 3, 4, 5, 6, 7, 8}).Draw(t, "ops")
	if rapid.IntRange(0, 3).Draw(t, "hinted") == 0 {
		c.Hint = rapid.IntRange(1, 300).Draw(t, "hint")
	}
	used := map[string]bool{}
	for i := 0; i < n; i++ {
		op := Op{Kind: rapid.SampledFrom([]string{"inferred", "inferred", "inferred", "string", "string", "int"}).Draw(t, "kind")}
		k := genTextName(t, "key")
		if rapid.IntRange(0, 9).Draw(t, "emptykey") == 0 {
			k = ""
		}
		for used[subst(k)] {
			k += "_"
		}
		used[subst(k)] = true
		op.Key = pbt.S(k)
		if op.Kind == "int" {
			op.N = rapid.SampledFrom([]int{0, 1, -1, 7, 42, -100, 1 << 31, -(1 << 31), 1<<63 - 1, -(1 << 63)}).Draw(t, "n")
		} else {
			op.Val = pbt.S(genValue(t, "v", nil))
		}
		c.Ops = append(c.Ops, op)
	}
	return c
}

var writerSpec = pbt.Spec[WriterCase]{
	Property: "C16", Name: "writer",
	Rule:   "minijson.JsonObjectBuilder driven directly: 0-8 writes (WriteInferred / WriteString / WriteInt) with arbitrary-text member names (quotes, backslashes, control characters, non-ASCII, invalid UTF-8, empty) and hostile values (same alphabet as view). Oracle: both decoders accept one object; every write with a non-empty text is present exactly once and nothing else is; value is a string equal to the text, a number of equal exact value or a boolean of equal ASCII-folded spelling; building twice gives one text. Non-trivial: some name or value needs escaping, or a value is a non-canonical numeric spelling",
	Budget: pbt.Budget{Quick: 96000, Thorough: 1000000},
	Gen:    genWriter, Check: checkWriter, Classify: classifyWriter,
}

func TestWriter(t *testing.T) { pbt.Run(t, writerSpec) }
