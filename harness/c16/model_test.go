// Reference side of C16: a strict RFC 8259 object recogniser/decoder written
// from the RFC (not from rare's writer), a second opinion from encoding/json,
// and the "faithful" relation of the property statement.
package c16

import (
	"bytes"
	"encoding/json"
	"fmt"
	"io"
	"math/big"
	"strings"
	"unicode/utf8"

	"verifharness/pbt"
)

// member is one name/value pair of the top-level object, in text order.
type member struct {
	Key  string // decoded name (raw bytes >= 0x80 are kept as they are)
	Kind byte   // 's' string, 'n' number, 't' true, 'f' false, 'z' null, 'o' object/array
	Text string // decoded string value, or the literal text of a number
}

type jparser struct {
	s string
	i int
}

func (p *jparser) errf(format string, a ...any) error {
	return fmt.Errorf("offset %d: %s", p.i, fmt.Sprintf(format, a...))
}

func (p *jparser) ws() {
	for p.i < len(p.s) {
		switch p.s[p.i] {
		case ' ', '\t', '\n', '\r':
			p.i++
		default:
			return
		}
	}
}

func hexv(b byte) int {
	switch {
	case b >= '0' && b <= '9':
		return int(b - '0')
	case b >= 'a' && b <= 'f':
		return int(b-'a') + 10
	case b >= 'A' && b <= 'F':
		return int(b-'A') + 10
	}
	return -1
}

func (p *jparser) hex4() (rune, error) {
	if p.i+4 > len(p.s) {
		return 0, p.errf("truncated \\u escape")
	}
	v := 0
	for k := 0; k < 4; k++ {
		h := hexv(p.s[p.i+k])
		if h < 0 {
			return 0, p.errf("bad hex digit %q in \\u escape", p.s[p.i+k])
		}
		v = v<<4 | h
	}
	p.i += 4
	return rune(v), nil
}

// str parses a JSON string at p.i (which must point at the opening quote)
// and returns its decoded bytes. RFC 8259 §7: every character may be written
// raw except quotation mark, reverse solidus and U+0000..U+001F. Whether the
// bytes >= 0x80 form valid UTF-8 is deliberately not judged (an encoding
// question, not a syntax question; the property lists invalid UTF-8 among the
// captures and does not say what they turn into).
func (p *jparser) str() (string, error) {
	if p.i >= len(p.s) || p.s[p.i] != '"' {
		return "", p.errf("expected '\"'")
	}
	p.i++
	var out []byte
	for {
		if p.i >= len(p.s) {
			return "", p.errf("unterminated string")
		}
		c := p.s[p.i]
		switch {
		case c == '"':
			p.i++
			return string(out), nil
		case c < 0x20:
			return "", p.errf("raw control character 0x%02x inside a string", c)
		case c == '\\':
			p.i++
			if p.i >= len(p.s) {
				return "", p.errf("unterminated escape")
			}
			e := p.s[p.i]
			p.i++
			switch e {
			case '"', '\\', '/':
				out = append(out, e)
			case 'b':
				out = append(out, '\b')
			case 'f':
				out = append(out, '\f')
			case 'n':
				out = append(out, '\n')
			case 'r':
				out = append(out, '\r')
			case 't':
				out = append(out, '\t')
			case 'u':
				r, err := p.hex4()
				if err != nil {
					return "", err
				}
				if r >= 0xD800 && r <= 0xDBFF {
					// high surrogate: pairs with a following \uDC00..\uDFFF
					if p.i+6 <= len(p.s) && p.s[p.i] == '\\' && p.s[p.i+1] == 'u' {
						save := p.i
						p.i += 2
						r2, err := p.hex4()
						if err != nil {
							return "", err
						}
						if r2 >= 0xDC00 && r2 <= 0xDFFF {
							r = 0x10000 + (r-0xD800)<<10 + (r2 - 0xDC00)
						} else {
							p.i = save
							r = utf8.RuneError
						}
					} else {
						r = utf8.RuneError
					}
				} else if r >= 0xDC00 && r <= 0xDFFF {
					r = utf8.RuneError
				}
				out = utf8.AppendRune(out, r)
			default:
				return "", p.errf("invalid escape \\%c", e)
			}
		default:
			out = append(out, c)
			p.i++
		}
	}
}

func isDigit(b byte) bool { return b >= '0' && b <= '9' }

// number = [ "-" ] ( "0" / digit1-9 *DIGIT ) [ "." 1*DIGIT ] [ ("e"/"E") ["+"/"-"] 1*DIGIT ]
func (p *jparser) number() (string, error) {
	st := p.i
	if p.i < len(p.s) && p.s[p.i] == '-' {
		p.i++
	}
	if p.i >= len(p.s) || !isDigit(p.s[p.i]) {
		return "", p.errf("invalid number")
	}
	if p.s[p.i] == '0' {
		p.i++
		if p.i < len(p.s) && isDigit(p.s[p.i]) {
			return "", p.errf("number with a leading zero")
		}
	} else {
		for p.i < len(p.s) && isDigit(p.s[p.i]) {
			p.i++
		}
	}
	if p.i < len(p.s) && p.s[p.i] == '.' {
		p.i++
		if p.i >= len(p.s) || !isDigit(p.s[p.i]) {
			return "", p.errf("number with no digit after the decimal point")
		}
		for p.i < len(p.s) && isDigit(p.s[p.i]) {
			p.i++
		}
	}
	if p.i < len(p.s) && (p.s[p.i] == 'e' || p.s[p.i] == 'E') {
		p.i++
		if p.i < len(p.s) && (p.s[p.i] == '+' || p.s[p.i] == '-') {
			p.i++
		}
		if p.i >= len(p.s) || !isDigit(p.s[p.i]) {
			return "", p.errf("number with an empty exponent")
		}
		for p.i < len(p.s) && isDigit(p.s[p.i]) {
			p.i++
		}
	}
	return p.s[st:p.i], nil
}

func (p *jparser) lit(word string) bool {
	if strings.HasPrefix(p.s[p.i:], word) {
		p.i += len(word)
		return true
	}
	return false
}

// value parses any JSON value; nested containers are recognised (depth
// limited) but reported as kind 'o'.
func (p *jparser) value(depth int) (byte, string, error) {
	if p.i >= len(p.s) {
		return 0, "", p.errf("value expected")
	}
	if depth > 64 {
		return 0, "", p.errf("nesting too deep")
	}
	switch c := p.s[p.i]; {
	case c == '"':
		s, err := p.str()
		return 's', s, err
	case c == '-' || isDigit(c):
		n, err := p.number()
		return 'n', n, err
	case c == 't':
		if p.lit("true") {
			return 't', "true", nil
		}
	case c == 'f':
		if p.lit("false") {
			return 'f', "false", nil
		}
	case c == 'n':
		if p.lit("null") {
			return 'z', "null", nil
		}
	case c == '{':
		st := p.i
		if _, err := p.object(depth + 1); err != nil {
			return 0, "", err
		}
		return 'o', p.s[st:p.i], nil
	case c == '[':
		st := p.i
		p.i++
		p.ws()
		if p.i < len(p.s) && p.s[p.i] == ']' {
			p.i++
			return 'o', p.s[st:p.i], nil
		}
		for {
			p.ws()
			if _, _, err := p.value(depth + 1); err != nil {
				return 0, "", err
			}
			p.ws()
			if p.i < len(p.s) && p.s[p.i] == ',' {
				p.i++
				continue
			}
			if p.i < len(p.s) && p.s[p.i] == ']' {
				p.i++
				return 'o', p.s[st:p.i], nil
			}
			return 0, "", p.errf("expected ',' or ']'")
		}
	}
	return 0, "", p.errf("unexpected character %q where a value must start", p.s[p.i])
}

func (p *jparser) object(depth int) ([]member, error) {
	if p.i >= len(p.s) || p.s[p.i] != '{' {
		return nil, p.errf("expected '{'")
	}
	p.i++
	p.ws()
	var ms []member
	if p.i < len(p.s) && p.s[p.i] == '}' {
		p.i++
		return ms, nil
	}
	for {
		p.ws()
		k, err := p.str()
		if err != nil {
			return nil, fmt.Errorf("member name: %v", err)
		}
		p.ws()
		if p.i >= len(p.s) || p.s[p.i] != ':' {
			return nil, p.errf("expected ':' after member name %q", k)
		}
		p.i++
		p.ws()
		kind, text, err := p.value(depth)
		if err != nil {
			return nil, fmt.Errorf("value of member %q: %v", k, err)
		}
		ms = append(ms, member{Key: k, Kind: kind, Text: text})
		p.ws()
		if p.i < len(p.s) && p.s[p.i] == ',' {
			p.i++
			continue
		}
		if p.i < len(p.s) && p.s[p.i] == '}' {
			p.i++
			return ms, nil
		}
		return nil, p.errf("expected ',' or '}' after member %q", k)
	}
}

// parseObject accepts exactly one JSON object (RFC 8259 grammar, optional
// surrounding white space, nothing else) and returns its members.
func parseObject(text string) ([]member, error) {
	p := &jparser{s: text}
	p.ws()
	ms, err := p.object(0)
	if err != nil {
		return nil, err
	}
	p.ws()
	if p.i != len(p.s) {
		return nil, p.errf("trailing data after the object")
	}
	return ms, nil
}

// subst maps every byte that is not part of a valid UTF-8 sequence to U+FFFD
// (one replacement per byte), which is what both encoding/json and any
// rune-wise writer do with such bytes.
func subst(s string) string {
	if utf8.ValidString(s) {
		return s
	}
	return string([]rune(s))
}

// stdDecode is the second opinion: encoding/json's scanner and decoder.
func stdDecode(text string) ([]member, error) {
	if !json.Valid([]byte(text)) {
		var v any
		err := json.Unmarshal([]byte(text), &v)
		return nil, fmt.Errorf("encoding/json rejects the text: %v", err)
	}
	dec := json.NewDecoder(strings.NewReader(text))
	dec.UseNumber()
	tok, err := dec.Token()
	if err != nil {
		return nil, err
	}
	if d, ok := tok.(json.Delim); !ok || d != '{' {
		return nil, fmt.Errorf("encoding/json: top-level value is not an object (%v)", tok)
	}
	var ms []member
	for dec.More() {
		kt, err := dec.Token()
		if err != nil {
			return nil, err
		}
		k, ok := kt.(string)
		if !ok {
			return nil, fmt.Errorf("encoding/json: member name is %T", kt)
		}
		var raw json.RawMessage
		if err := dec.Decode(&raw); err != nil {
			return nil, err
		}
		m := member{Key: k}
		switch raw[0] {
		case '"':
			var s string
			if err := json.Unmarshal(raw, &s); err != nil {
				return nil, err
			}
			m.Kind, m.Text = 's', s
		case 't':
			m.Kind, m.Text = 't', "true"
		case 'f':
			m.Kind, m.Text = 'f', "false"
		case 'n':
			m.Kind, m.Text = 'z', "null"
		case '{', '[':
			m.Kind, m.Text = 'o', string(raw)
		default:
			m.Kind, m.Text = 'n', string(bytes.TrimSpace(raw))
		}
		ms = append(ms, m)
	}
	if _, err := dec.Token(); err != nil { // closing brace
		return nil, err
	}
	if _, err := dec.Token(); err != io.EOF {
		return nil, fmt.Errorf("encoding/json: data after the object")
	}
	return ms, nil
}

// decodeValid is clause 1 of the property ("one syntactically valid JSON
// object"): the own recogniser and encoding/json must both accept, and they
// must agree on what the members are.
func decodeValid(text string) ([]member, error) {
	ms, err := parseObject(text)
	if err != nil {
		return nil, fmt.Errorf("not one valid JSON object (RFC 8259 recogniser: %v): %s", err, pbt.Q([]byte(text)))
	}
	std, err := stdDecode(text)
	if err != nil {
		return nil, fmt.Errorf("not one valid JSON object (%v): %s", err, pbt.Q([]byte(text)))
	}
	if len(std) != len(ms) {
		return nil, fmt.Errorf("decoders disagree on the number of members (%d vs %d) of %s", len(ms), len(std), pbt.Q([]byte(text)))
	}
	for i := range ms {
		if subst(ms[i].Key) != std[i].Key || ms[i].Kind != std[i].Kind {
			return nil, fmt.Errorf("decoders disagree on member %d of %s: %q/%c vs %q/%c", i, pbt.Q([]byte(text)), ms[i].Key, ms[i].Kind, std[i].Key, std[i].Kind)
		}
		if ms[i].Kind == 's' && subst(ms[i].Text) != std[i].Text {
			return nil, fmt.Errorf("decoders disagree on the value of member %q of %s: %q vs %q", ms[i].Key, pbt.Q([]byte(text)), ms[i].Text, std[i].Text)
		}
		if ms[i].Kind == 'n' && ms[i].Text != std[i].Text {
			return nil, fmt.Errorf("decoders disagree on the number of member %q: %q vs %q", ms[i].Key, ms[i].Text, std[i].Text)
		}
	}
	return ms, nil
}

// ---- numbers --------------------------------------------------------------

// decimal is a canonical exact decimal: value = (-1)^neg * digits * 10^exp,
// digits without leading or trailing zeros ("" for zero).
type decimal struct {
	neg    bool
	digits string
	exp    *big.Int
}

// parseDecimal reads a liberal decimal spelling: optional sign, digits with
// an optional decimal point on either side of which digits may be missing
// (not both), optional exponent. This is the widest reading of
// "numeric-looking" under which "a JSON number of equal value" has a meaning;
// it is only used to judge a number the implementation chose to emit.
func parseDecimal(s string) (decimal, bool) {
	var d decimal
	i := 0
	if i < len(s) && (s[i] == '+' || s[i] == '-') {
		d.neg = s[i] == '-'
		i++
	}
	st := i
	for i < len(s) && isDigit(s[i]) {
		i++
	}
	intPart := s[st:i]
	frac := ""
	if i < len(s) && s[i] == '.' {
		i++
		st = i
		for i < len(s) && isDigit(s[i]) {
			i++
		}
		frac = s[st:i]
	}
	if intPart == "" && frac == "" {
		return d, false
	}
	exp := new(big.Int)
	if i < len(s) && (s[i] == 'e' || s[i] == 'E') {
		i++
		st = i
		if i < len(s) && (s[i] == '+' || s[i] == '-') {
			i++
		}
		ds := i
		for i < len(s) && isDigit(s[i]) {
			i++
		}
		if ds == i {
			return d, false
		}
		if _, ok := exp.SetString(s[st:i], 10); !ok {
			return d, false
		}
	}
	if i != len(s) {
		return d, false
	}
	digits := intPart + frac
	exp.Sub(exp, big.NewInt(int64(len(frac))))
	digits = strings.TrimLeft(digits, "0")
	t := strings.TrimRight(digits, "0")
	exp.Add(exp, big.NewInt(int64(len(digits)-len(t))))
	d.digits = t
	d.exp = exp
	if t == "" {
		d.neg = false
		d.exp = new(big.Int)
	}
	return d, true
}

func (a decimal) equal(b decimal) bool {
	return a.neg == b.neg && a.digits == b.digits && a.exp.Cmp(b.exp) == 0
}

// ---- the faithful relation ---------------------------------------------------

// want is one group the view must (or may) show.
type want struct {
	Key  string // member name (group name, or decimal group index)
	Text string // captured text
}

func asciiLower(s string) string {
	b := []byte(s)
	for i, c := range b {
		if c >= 'A' && c <= 'Z' {
			b[i] = c + 32
		}
	}
	return string(b)
}

// valueFaithful is clause 2 for one member: "decode to the captured group
// texts (numeric-looking and true/false captures may appear as JSON
// numbers/booleans of equal value, everything else as correctly escaped
// strings)".
func valueFaithful(m member, text string) error {
	switch m.Kind {
	case 's':
		// Invalid UTF-8 cannot be carried by a JSON string; the statement does
		// not say what it becomes, so raw pass-through and U+FFFD substitution
		// (what every decoder does with raw bytes anyway) are both accepted.
		if subst(m.Text) != subst(text) {
			return fmt.Errorf("member %q decodes to the string %s, the captured text is %s", m.Key, pbt.Q([]byte(m.Text)), pbt.Q([]byte(text)))
		}
		return nil
	case 'n':
		got, ok := parseDecimal(m.Text)
		if !ok {
			return fmt.Errorf("member %q: cannot read number %q", m.Key, m.Text)
		}
		w, ok := parseDecimal(text)
		if !ok {
			return fmt.Errorf("member %q is the JSON number %s but the captured text %s is not a number", m.Key, m.Text, pbt.Q([]byte(text)))
		}
		if !got.equal(w) {
			return fmt.Errorf("member %q is the JSON number %s, which differs in value from the captured text %s", m.Key, m.Text, pbt.Q([]byte(text)))
		}
		return nil
	case 't', 'f':
		// ASCII case folding is what "true/false captures" plainly covers;
		// Unicode simple folds of the same letters (U+017F for s) are not
		// asserted either way: the statement is silent, the generator does not
		// produce them, and strings.EqualFold is accepted here.
		if asciiLower(text) == m.Text || strings.EqualFold(text, m.Text) {
			return nil
		}
		return fmt.Errorf("member %q is the JSON boolean %s but the captured text is %s", m.Key, m.Text, pbt.Q([]byte(text)))
	case 'z':
		return fmt.Errorf("member %q is null; the captured text is %s", m.Key, pbt.Q([]byte(text)))
	default:
		return fmt.Errorf("member %q is a nested %s; the captured text is %s", m.Key, pbt.Trunc(m.Text, 60), pbt.Q([]byte(text)))
	}
}

// faithful checks the members against the groups the view has to show.
// A group whose text is empty may be shown (as "") or left out: the numbered
// view is documented to leave such groups out, and the statement does not ask
// for more than that members decode to captured texts. Every group with a
// non-empty text must be shown exactly once; nothing else may be shown.
func faithful(ms []member, wants []want) error {
	idx := map[string]int{}
	for i, w := range wants {
		idx[subst(w.Key)] = i
	}
	seen := make([]bool, len(wants))
	for _, m := range ms {
		i, ok := idx[subst(m.Key)]
		if !ok {
			return fmt.Errorf("unexpected member %s (groups: %s)", pbt.Q([]byte(m.Key)), wantKeys(wants))
		}
		if seen[i] {
			return fmt.Errorf("member %s appears twice", pbt.Q([]byte(m.Key)))
		}
		seen[i] = true
		if err := valueFaithful(m, wants[i].Text); err != nil {
			return err
		}
	}
	for i, w := range wants {
		if !seen[i] && w.Text != "" {
			return fmt.Errorf("group %s with captured text %s has no member", pbt.Q([]byte(w.Key)), pbt.Q([]byte(w.Text)))
		}
	}
	return nil
}

func wantKeys(ws []want) string {
	var sb strings.Builder
	for i, w := range ws {
		if i > 0 {
			sb.WriteByte(' ')
		}
		sb.WriteString(pbt.Q([]byte(w.Key)))
	}
	return sb.String()
}

// checkView applies clauses 1 and 2 to one rendered view.
func checkView(text string, wants []want) error {
	ms, err := decodeValid(text)
	if err != nil {
		return err
	}
	if err := faithful(ms, wants); err != nil {
		return fmt.Errorf("%v\n view: %s", err, pbt.Q([]byte(text)))
	}
	return nil
}
