// C16, thin CLI layer: the rare binary (VERIF_RARE_BIN) in separate processes.
package c16

import (
	"bytes"
	"context"
	"encoding/csv"
	"fmt"
	"os"
	"os/exec"
	"path/filepath"
	"strconv"
	"strings"
	"testing"
	"time"
	"unicode"

	"pgregory.net/rapid"
	"verifharness/pbt"
)

func rareBin() string { return os.Getenv("VERIF_RARE_BIN") }

var fileSeq int

func scratchFile(content []byte) (string, error) {
	dir := os.Getenv("VERIF_SCRATCH")
	if dir == "" {
		dir = os.TempDir()
	}
	fileSeq++
	p := filepath.Join(dir, fmt.Sprintf("c16-%d-%d.log", os.Getpid(), fileSeq))
	return p, os.WriteFile(p, content, 0o644)
}

type runResult struct {
	Stdout, Stderr string
	TimedOut       bool
	Err            error
}

func runRare(args ...string) runResult {
	ctx, cancel := context.WithTimeout(context.Background(), 120*time.Second)
	defer cancel()
	cmd := exec.CommandContext(ctx, rareBin(), args...)
	var so, se bytes.Buffer
	cmd.Stdout, cmd.Stderr = &so, &se
	cmd.Stdin = nil
	cmd.Env = append(os.Environ(), "NO_COLOR=1", "TERM=dumb")
	err := cmd.Run()
	return runResult{Stdout: so.String(), Stderr: se.String(), TimedOut: ctx.Err() != nil, Err: err}
}

func crashed(r runResult) bool {
	return strings.Contains(r.Stderr, "panic:") || strings.Contains(r.Stderr, "fatal error:")
}

// ---------------------------------------------------------------------------
// cli: filter / histo over N identical lines
// ---------------------------------------------------------------------------

type CliCase struct {
	M    MatcherSpec
	Vals []pbt.S
	Key  string
	N    int      // identical lines in the file
	Runs int      // separate filter processes
	Obs  *pbt.Obs `json:"-"`
}

func checkCli(c CliCase) error {
	if rareBin() == "" {
		pbt.Exclude("no-rare-binary")
		return nil
	}
	if err := c.M.admissible(); err != nil {
		pbt.Exclude("inadmissible-matcher:" + err.Error())
		return nil
	}
	pat := c.M.pattern()
	line := c.M.line(c.Vals)
	if strings.ContainsAny(pat, "\x00") || strings.ContainsAny(line, "\n\r") {
		pbt.Exclude("cli:NUL-in-argument-or-line-terminator-in-line")
		return nil
	}
	ok := false
	for _, k := range viewKeys {
		ok = ok || k == c.Key
	}
	if !ok {
		return nil
	}
	n, runs := c.N, c.Runs
	if n < 1 {
		n = 1
	}
	if n > 2000 {
		n = 2000
	}
	if runs < 1 {
		runs = 1
	}
	if runs > 8 {
		runs = 8
	}
	// what the match is: the same matcher code, in-process
	f, err := c.M.compile()
	if err != nil {
		c.Obs.Label(true, "pattern-rejected")
		return nil
	}
	idx := f.CreateInstance().FindSubmatchIndex([]byte(line))
	if len(idx) == 0 {
		c.Obs.Label(true, "no-match")
		return nil
	}
	idx = append([]int(nil), idx...)
	wants := wantsFor(c.Key, c.M.groups(), line, idx)

	file, err := scratchFile(bytes.Repeat([]byte(line+"\n"), n))
	if err != nil {
		return nil // scratch trouble is not a verdict
	}
	defer os.Remove(file)
	matchFlag := "--match=" + pat
	if c.M.Kind == "dissect" {
		matchFlag = "--dissect=" + pat
	}
	extract := "--extract={" + c.Key + "}"

	var ref string
	for r := 0; r < runs; r++ {
		res := runRare("filter", matchFlag, extract, file)
		if res.TimedOut {
			c.Obs.Label(true, "cli-timeout")
			return nil
		}
		if crashed(res) {
			return fmt.Errorf("rare filter %s %s crashed on line %s:\n%s", pbt.Q([]byte(matchFlag)), extract, pbt.Q([]byte(line)), pbt.Trunc(res.Stderr, 1500))
		}
		out := strings.TrimSuffix(res.Stdout, "\n")
		if out == "" {
			c.Obs.Label(true, "cli-no-output")
			return nil
		}
		rows := strings.Split(out, "\n")
		if r == 0 {
			ref = rows[0]
			if err := checkView(ref, wants); err != nil {
				// a view that holds a raw line feed is cut by the line split
				return fmt.Errorf("rare filter %s %s, line %s:\n %v\n full output: %s", pbt.Q([]byte(matchFlag)), extract, pbt.Q([]byte(line)), err, pbt.Q([]byte(res.Stdout)))
			}
			c.Obs.Add("rows", len(rows))
		}
		for i, row := range rows {
			if row != ref {
				return fmt.Errorf("rare filter %s %s over %d identical lines %s: process %d row %d differs from process 0 row 0:\n %s\n %s",
					pbt.Q([]byte(matchFlag)), extract, n, pbt.Q([]byte(line)), r, i, pbt.Q([]byte(row)), pbt.Q([]byte(ref)))
			}
		}
	}
	// aggregation key: identical lines must land in one group
	res := runRare("histo", "--csv", "-", "--noout", matchFlag, extract, file)
	if res.TimedOut {
		c.Obs.Label(true, "cli-timeout")
		return nil
	}
	if crashed(res) {
		return fmt.Errorf("rare histo %s %s crashed:\n%s", pbt.Q([]byte(matchFlag)), extract, pbt.Trunc(res.Stderr, 1500))
	}
	rd := csv.NewReader(strings.NewReader(res.Stdout))
	rd.FieldsPerRecord = -1
	recs, err := rd.ReadAll()
	if err != nil || len(recs) < 2 {
		c.Obs.Label(true, "histo-csv-unreadable")
		return nil
	}
	groups := recs[1:]
	if len(groups) != 1 {
		var ks []string
		for _, g := range groups {
			ks = append(ks, pbt.Q([]byte(strings.Join(g, ","))))
		}
		return fmt.Errorf("rare histo %s %s over %d identical lines %s reports %d groups, want 1:\n %s",
			pbt.Q([]byte(matchFlag)), extract, n, pbt.Q([]byte(line)), len(groups), strings.Join(ks, "\n "))
	}
	// how the csv layer carries the key is C03's business: only recorded
	c.Obs.Label(groups[0][0] != ref, "histo-csv-key-differs-from-filter-row")
	c.Obs.Label(true, "histo-one-group")
	return nil
}

func classifyCli(c CliCase) (bool, []string) {
	var l pbt.Labels
	l.Add(true, c.M.Kind)
	l.Add(true, "key:"+c.Key)
	named := 0
	nameEsc := false
	for _, p := range c.M.Pieces {
		if p.Kind != "skip" && p.Name != "" {
			named++
			nameEsc = nameEsc || needsEscape(string(p.Name))
		}
	}
	l.Add(true, fmt.Sprintf("named-groups=%d", min(named, 5)))
	l.Add(nameEsc, "name:needs-escape")
	hostile := false
	for i, v := range c.Vals {
		if i < len(c.M.Pieces) && c.M.Pieces[i].Kind == "skip" {
			continue
		}
		s := string(v)
		hostile = hostile || needsEscape(s) || looksNumericNotCanonical(s)
		textLabels("value:", s, func(b bool, n string) { l.Add(b, n) })
	}
	shows := strings.Contains(c.Key, ".")
	nt := c.Obs.Has("histo-one-group") && ((named >= 2 && shows) || hostile || (nameEsc && shows))
	return nt, dedup(append([]string(l), c.Obs.All()...))
}

func scrubS(v pbt.S, forbid ...string) pbt.S { return pbt.S(scrub(string(v), forbid)) }

func genCli(t *rapid.T) CliCase {
	c := CliCase{Obs: pbt.NewObs()}
	if rapid.Bool().Draw(t, "dissect") {
		c.M = genDissectSpec(t)
		// argv cannot carry NUL
		c.M.Prefix = scrubS(c.M.Prefix, "\x00")
		used := map[string]bool{}
		for i := range c.M.Pieces {
			p := &c.M.Pieces[i]
			if p.Delim == "\x00" {
				p.Delim = "|"
			}
			if p.Kind == "skip" {
				continue
			}
			nm := strings.ReplaceAll(string(p.Name), "\x00", "")
			nm = strings.TrimLeft(nm, "?")
			if nm == "" || allDigits(nm) {
				nm = "k" + nm
			}
			for used[subst(nm)] {
				nm += "_"
			}
			used[subst(nm)] = true
			p.Name = pbt.S(nm)
		}
	} else {
		c.M = genRegexSpec(t)
	}
	// lines are split at \n (and a \r before it is dropped): keep both out
	c.Vals = genLineValues(t, c.M, []string{"\n", "\r"})
	c.Key = rapid.SampledFrom(viewKeys).Draw(t, "key")
	c.N = rapid.SampledFrom([]int{1, 16, 64, 300}).Draw(t, "n")
	c.Runs = rapid.IntRange(1, 3).Draw(t, "runs")
	return c
}

var cliSpec = pbt.Spec[CliCase]{
	Property: "C16", Name: "cli",
	Rule:   "the rare binary: a file of N (1..300) identical lines built for a generated regexp/dissect matcher with hostile captured texts (no NUL in arguments, no line terminators in the line); `rare filter --match|--dissect -e {key}` in 1..3 separate processes, then `rare histo --csv - --noout -e {key}`. Oracle: the first output row is one valid JSON object faithful to the match (indices from the same matcher in-process), every row of every process equals it, histo reports exactly one group. Non-trivial: histo ran and (>=2 named groups shown, or a captured text / group name that needs escaping, or a non-canonical numeric spelling)",
	Budget: pbt.Budget{Quick: 640, Thorough: 4800},
	Gen:    genCli, Check: checkCli, Classify: classifyCli,
	// several processes per case on a loaded machine; a stuck process is not
	// a verdict about JSON
	Watchdog: 10 * time.Minute, NoWatchdogViolation: true,
}

func TestCli(t *testing.T) { pbt.Run(t, cliSpec) }

// ---------------------------------------------------------------------------
// expression: `rare expression -k name=value -d value '{.}'`
// ---------------------------------------------------------------------------

type KV struct {
	Name pbt.S
	Val  pbt.S
}

type ExprCase struct {
	Keys []KV
	Data []pbt.S
	Key  string
	Runs int
	Obs  *pbt.Obs `json:"-"`
}

var specialNames = map[string]bool{"src": true, "line": true, ".": true, "#": true, ".#": true, "#.": true, "@": true}

func checkExpr(c ExprCase) error {
	if rareBin() == "" {
		pbt.Exclude("no-rare-binary")
		return nil
	}
	ok := false
	for _, k := range viewKeys {
		ok = ok || k == c.Key
	}
	if !ok {
		return nil
	}
	args := []string{"expression", "--raw", "--skip-newline"}
	seen := map[string]bool{}
	var wants []want
	// argv cannot carry NUL; the flag parser splits values at commas and trims
	// white space around each
	bad := func(s string) bool { return strings.ContainsAny(s, "\x00,") }
	edge := func(s string) bool { return strings.TrimSpace(s) != s }
	for _, kv := range c.Keys {
		n := string(kv.Name)
		if edge(n+"="+string(kv.Val)) || bad(n) || bad(string(kv.Val)) || strings.Contains(n, "=") || allDigits(n) || specialNames[n] || seen[subst(n)] {
			pbt.Exclude("expression:name-or-value-outside-argv-domain")
			return nil
		}
		seen[subst(n)] = true
		args = append(args, "--key="+n+"="+string(kv.Val))
		if strings.Contains(c.Key, ".") {
			wants = append(wants, want{Key: n, Text: string(kv.Val)})
		}
	}
	for i, d := range c.Data {
		if bad(string(d)) || edge(string(d)) {
			pbt.Exclude("expression:name-or-value-outside-argv-domain")
			return nil
		}
		args = append(args, "--data="+string(d))
		if strings.Contains(c.Key, "#") {
			wants = append(wants, want{Key: strconv.Itoa(i), Text: string(d)})
		}
	}
	args = append(args, "--", "{"+c.Key+"}")
	runs := c.Runs
	if runs < 1 {
		runs = 1
	}
	if runs > 16 {
		runs = 16
	}
	var ref string
	for r := 0; r < runs; r++ {
		res := runRare(args...)
		if res.TimedOut {
			c.Obs.Label(true, "cli-timeout")
			return nil
		}
		if crashed(res) {
			return fmt.Errorf("rare %s crashed:\n%s", pbt.Q([]byte(strings.Join(args, " "))), pbt.Trunc(res.Stderr, 1500))
		}
		if res.Err != nil {
			c.Obs.Label(true, "cli-rejected")
			return nil
		}
		if r == 0 {
			ref = res.Stdout
			if err := checkView(ref, wants); err != nil {
				return fmt.Errorf("rare %s:\n %v", pbt.Q([]byte(strings.Join(args, " "))), err)
			}
			c.Obs.Label(true, "ran")
			continue
		}
		if res.Stdout != ref {
			return fmt.Errorf("rare %s printed two different texts in two runs:\n %s\n %s", pbt.Q([]byte(strings.Join(args, " "))), pbt.Q([]byte(ref)), pbt.Q([]byte(res.Stdout)))
		}
	}
	return nil
}

func classifyExpr(c ExprCase) (bool, []string) {
	var l pbt.Labels
	l.Add(true, "key:"+c.Key)
	l.Add(true, fmt.Sprintf("named=%d", min(len(c.Keys), 5)))
	l.Add(true, fmt.Sprintf("numbered=%d", min(len(c.Data), 5)))
	hostile := false
	shows := strings.Contains(c.Key, ".")
	for _, kv := range c.Keys {
		hostile = hostile || (shows && (needsEscape(string(kv.Name)) || needsEscape(string(kv.Val)) || looksNumericNotCanonical(string(kv.Val))))
		l.Add(needsEscape(string(kv.Name)), "name:needs-escape")
		textLabels("value:", string(kv.Val), func(b bool, n string) { l.Add(b, n) })
	}
	for _, d := range c.Data {
		hostile = hostile || (strings.Contains(c.Key, "#") && (needsEscape(string(d)) || looksNumericNotCanonical(string(d))))
		textLabels("value:", string(d), func(b bool, n string) { l.Add(b, n) })
	}
	nt := c.Obs.Has("ran") && (hostile || (shows && len(c.Keys) >= 2 && c.Runs >= 2))
	return nt, dedup(append([]string(l), c.Obs.All()...))
}

// trimRight removes what strings.TrimSpace would remove at the end.
func trimRight(s string) string { return strings.TrimRightFunc(s, unicode.IsSpace) }

func genExpr(t *rapid.T) ExprCase {
	c := ExprCase{Obs: pbt.NewObs()}
	argv := []string{"\x00", ","}
	nk := rapid.IntRange(0, 5).Draw(t, "nkeys")
	used := map[string]bool{}
	for i := 0; i < nk; i++ {
		nm := strings.TrimSpace(scrub(genTextName(t, "name"), []string{"\x00", ",", "="}))
		if nm == "" || allDigits(nm) || specialNames[nm] {
			nm = "k" + nm
		}
		for used[subst(nm)] {
			nm += "_"
		}
		used[subst(nm)] = true
		c.Keys = append(c.Keys, KV{Name: pbt.S(nm), Val: pbt.S(trimRight(genValue(t, "v", argv)))})
	}
	nd := rapid.IntRange(0, 3).Draw(t, "ndata")
	for i := 0; i < nd; i++ {
		c.Data = append(c.Data, pbt.S(strings.TrimSpace(genValue(t, "d", argv))))
	}
	c.Key = rapid.SampledFrom(viewKeys).Draw(t, "key")
	c.Runs = rapid.SampledFrom([]int{1, 4, 8}).Draw(t, "runs")
	return c
}

var exprSpec = pbt.Spec[ExprCase]{
	Property: "C16", Name: "expression",
	Rule:   "`rare expression --raw --skip-newline --key=name=value ... --data=value ... -- {key}` (the emulation of the special keys in cmd/expressions.go) with 0-5 named and 0-3 positional values from the hostile alphabet (argv domain: no NUL; no comma and no white space at the edges because the flag parser splits and trims; names without '='), run in 1..8 separate processes. Oracle: stdout is one valid JSON object faithful to the given values; all processes print the same text. Non-trivial: the command ran and (a shown name/value needs escaping or is a non-canonical numeric spelling, or >=2 named values shown and >=2 processes)",
	Budget: pbt.Budget{Quick: 640, Thorough: 4800},
	Gen:    genExpr, Check: checkExpr, Classify: classifyExpr,
	Watchdog: 10 * time.Minute, NoWatchdogViolation: true,
}

func TestExpression(t *testing.T) { pbt.Run(t, exprSpec) }
