// C16, `rare expression` with argument lists in which a -k name is given more
// than once: the JSON views must show what the expression context of the SAME
// run holds.
//
// The `expression` sub-property derives what the view has to show from the
// arguments, which is only possible while every name is given once (the
// documentation does not say which of several values of one name is kept).
// Here the reference is rare itself: `{name}` for every distinct name and
// `{0}`.. for every -d value are evaluated in the same invocation, in front of
// the view; whatever these lookups print is "the captured group text" the view
// has to decode to. Which of the repeated values wins is recorded, not asserted.
package c16

import (
	"fmt"
	"strconv"
	"strings"
	"testing"
	"time"
	"unicode"
	"unicode/utf8"

	"pgregory.net/rapid"
	"verifharness/pbt"
)

// ctxSep separates the lookups from each other and from the view in the
// template. It is removed from every generated value (a value that holds it is
// excluded by the check), and it is a plain literal for the expression
// compiler.
const ctxSep = "\x1f"

type CtxArg struct {
	Kind string // "k": --key=Name=Val, "kbare": --key=Name, "d": --data=Val
	Name pbt.S
	Val  pbt.S
}

type ExprCtxCase struct {
	Args []CtxArg // in command line order
	Key  string
	Runs int
	Obs  *pbt.Obs `json:"-"`
}

// lookupable: the name can be written as `{name}` and reaches the key lookup
// unchanged: valid UTF-8 (the compiler works on runes), nothing the expression
// syntax gives a meaning to (braces, quote, backslash, white space), no
// control characters, not an integer (those address the -d values) and not one
// of the emulated special keys.
func lookupable(n string) bool {
	if n == "" || !utf8.ValidString(n) || specialNames[n] {
		return false
	}
	if _, err := strconv.Atoi(n); err == nil {
		return false
	}
	for _, r := range n {
		if r < 0x20 || r == 0x7f || unicode.IsSpace(r) || unicode.IsControl(r) || strings.ContainsRune("{}\"\\=,\ufffd", r) {
			return false
		}
	}
	return true
}

func checkExprCtx(c ExprCtxCase) error {
	if rareBin() == "" {
		pbt.Exclude("no-rare-binary")
		return nil
	}
	ok := false
	for _, k := range viewKeys {
		ok = ok || k == c.Key
	}
	if !ok {
		return nil
	}
	// argv cannot carry NUL; the flag parser splits values at commas and trims
	// white space around each; the separator must stay unique
	bad := func(s string) bool { return strings.ContainsAny(s, "\x00,"+ctxSep) }
	edge := func(s string) bool { return strings.TrimSpace(s) != s }
	args := []string{"expression", "--raw", "--skip-newline"}
	var names []string           // distinct names, order of first occurrence
	given := map[string][]string{} // name -> values in command line order
	var data []string
	for _, a := range c.Args {
		n, v := string(a.Name), string(a.Val)
		switch a.Kind {
		case "k", "kbare":
			arg := n + "=" + v
			if a.Kind == "kbare" {
				arg, v = n, n
			}
			if !lookupable(n) || bad(v) || edge(arg) {
				pbt.Exclude("expression-context:name-or-value-outside-argv-or-lookup-domain")
				return nil
			}
			if _, seen := given[n]; !seen {
				names = append(names, n)
			}
			given[n] = append(given[n], v)
			args = append(args, "--key="+arg)
		case "d":
			if bad(v) || edge(v) {
				pbt.Exclude("expression-context:name-or-value-outside-argv-or-lookup-domain")
				return nil
			}
			data = append(data, v)
			args = append(args, "--data="+v)
		default:
			return nil
		}
	}
	// the template: every lookup, then the view
	var tpl strings.Builder
	for _, n := range names {
		tpl.WriteString("{" + n + "}" + ctxSep)
	}
	for i := range data {
		tpl.WriteString("{" + strconv.Itoa(i) + "}" + ctxSep)
	}
	tpl.WriteString("{" + c.Key + "}")
	args = append(args, "--", tpl.String())
	cmdline := pbt.Q([]byte(strings.Join(args, " ")))

	runs := c.Runs
	if runs < 1 {
		runs = 1
	}
	if runs > 8 {
		runs = 8
	}
	var ref string
	for r := 0; r < runs; r++ {
		res := runRare(args...)
		if res.TimedOut {
			c.Obs.Label(true, "cli-timeout")
			return nil
		}
		if crashed(res) {
			return fmt.Errorf("rare %s crashed:\n%s", cmdline, pbt.Trunc(res.Stderr, 1500))
		}
		if res.Err != nil {
			c.Obs.Label(true, "cli-rejected")
			return nil
		}
		if r == 0 {
			ref = res.Stdout
			continue
		}
		if res.Stdout != ref {
			return fmt.Errorf("rare %s printed two different texts in two runs:\n %s\n %s", cmdline, pbt.Q([]byte(ref)), pbt.Q([]byte(res.Stdout)))
		}
	}
	nl := len(names) + len(data)
	parts := strings.SplitN(ref, ctxSep, nl+1)
	if len(parts) != nl+1 {
		// the literals of the template did not arrive: not a statement about the views
		c.Obs.Label(true, "output-not-splittable")
		return nil
	}
	view := parts[nl]
	var wants []want
	for i, n := range names {
		got := parts[i]
		vs := given[n]
		if len(vs) >= 2 {
			differ := false
			for _, v := range vs[1:] {
				differ = differ || v != vs[0]
			}
			if differ {
				switch {
				case subst(got) == subst(vs[len(vs)-1]):
					c.Obs.Label(true, "lookup-of-repeated-name:last-given")
				case subst(got) == subst(vs[0]):
					c.Obs.Label(true, "lookup-of-repeated-name:first-given")
				default:
					c.Obs.Label(true, "lookup-of-repeated-name:other")
				}
			}
		} else {
			c.Obs.Label(subst(got) != subst(vs[0]), "lookup-of-single-name-differs-from-argument")
		}
		if strings.Contains(c.Key, ".") {
			wants = append(wants, want{Key: n, Text: got})
		}
	}
	for i := range data {
		got := parts[len(names)+i]
		// the flag parser turns invalid UTF-8 into U+FFFD before the context sees it
		c.Obs.Label(subst(got) != subst(data[i]), "lookup-of-data-differs-from-argument")
		if strings.Contains(c.Key, "#") {
			wants = append(wants, want{Key: strconv.Itoa(i), Text: got})
		}
	}
	if err := checkView(view, wants); err != nil {
		var lk []string
		for i, n := range names {
			lk = append(lk, "{"+n+"} = "+pbt.Q([]byte(parts[i])))
		}
		for i := range data {
			lk = append(lk, "{"+strconv.Itoa(i)+"} = "+pbt.Q([]byte(parts[len(names)+i])))
		}
		return fmt.Errorf("rare %s: {%s} does not show what the lookups of the same run give:\n %v\n lookups: %s", cmdline, c.Key, err, strings.Join(lk, ", "))
	}
	c.Obs.Label(true, "ran")
	return nil
}

func classifyExprCtx(c ExprCtxCase) (bool, []string) {
	var l pbt.Labels
	l.Add(true, "key:"+c.Key)
	given := map[string][]string{}
	var names []string
	nd, bare := 0, false
	for _, a := range c.Args {
		switch a.Kind {
		case "k", "kbare":
			n, v := string(a.Name), string(a.Val)
			if a.Kind == "kbare" {
				v, bare = n, true
			}
			if _, seen := given[n]; !seen {
				names = append(names, n)
			}
			given[n] = append(given[n], v)
		case "d":
			nd++
			textLabels("value:", string(a.Val), func(b bool, n string) { l.Add(b, n) })
		}
	}
	l.Add(bare, "key-without-equals")
	l.Add(true, fmt.Sprintf("distinct-names=%d", min(len(names), 4)))
	l.Add(true, fmt.Sprintf("numbered=%d", min(nd, 4)))
	maxRep, differ := 0, false
	for _, n := range names { // slice order, not map order
		vs := given[n]
		maxRep = max(maxRep, len(vs))
		l.Add(n != "" && n[0] >= 0x80 || strings.ContainsAny(n, ".:/[]-'&%+@#"), "name:not-a-word")
		if len(vs) < 2 {
			continue
		}
		asc, desc, d := true, true, false
		num, text := false, false
		for i, v := range vs {
			if isJSONNumber(v) || looksNumericNotCanonical(v) {
				num = true
			} else {
				text = true
			}
			if i > 0 {
				d = d || v != vs[i-1]
				asc = asc && vs[i-1] <= v
				desc = desc && vs[i-1] >= v
			}
			textLabels("repeated-value:", v, func(b bool, n string) { l.Add(b, n) })
		}
		differ = differ || d
		l.Add(d && asc, "repeated-values:ascending-byte-order")
		l.Add(d && desc, "repeated-values:descending-byte-order")
		l.Add(d && !asc && !desc, "repeated-values:unordered")
		l.Add(!d, "repeated-values:all-equal")
		l.Add(num && !text, "repeated-values:all-numeric-looking")
		l.Add(num && text, "repeated-values:numeric-looking-and-text")
		l.Add(!num, "repeated-values:all-text")
	}
	l.Add(true, fmt.Sprintf("max-occurrences-of-a-name=%d", min(maxRep, 4)))
	nt := c.Obs.Has("ran") && differ && strings.Contains(c.Key, ".")
	return nt, dedup(append([]string(l), c.Obs.All()...))
}

var ctxOddNames = []string{"a.b", "a:b", "a/b", "é", "日本", "[a][b]", "a->b", "😀", "&a", "%", "a-b", "x'y", "+a", "@x", "#1", "a#", "..", "k.", "1a", "0x10", "-", "env", "host"}

// small values that are easy to tell apart and come in every byte order
var ctxSmallValues = []string{"1", "2", "10", "02", "1.0", "2.50", "-1", "a", "b", "B", "", "old", "new", "dev", "prod", "alpha", "beta", "true", "false", "TRUE", "x y", `q"t`, `b\s`, "é"}

func genCtxName(t *rapid.T) string {
	var nm string
	switch rapid.IntRange(0, 3).Draw(t, "namek") {
	case 0, 1:
		nm = rapid.SampledFrom(plainNames).Draw(t, "name")
	case 2:
		nm = rapid.StringMatching(`[A-Za-z_][A-Za-z0-9_]{0,6}`).Draw(t, "name")
	default:
		nm = rapid.SampledFrom(ctxOddNames).Draw(t, "name")
	}
	if !lookupable(nm) {
		nm = "k_" + nm
	}
	return nm
}

func genCtxValue(t *rapid.T, label string) string {
	forbid := []string{"\x00", ",", ctxSep}
	switch rapid.IntRange(0, 4).Draw(t, label+"k") {
	case 0, 1:
		return rapid.SampledFrom(ctxSmallValues).Draw(t, label)
	case 2:
		return scrub(genNumeric(t, label+"num"), forbid)
	default:
		return genValue(t, label, forbid)
	}
}

func genExprCtx(t *rapid.T) ExprCtxCase {
	c := ExprCtxCase{Obs: pbt.NewObs()}
	np := rapid.IntRange(1, 3).Draw(t, "nnames")
	var pool []string
	used := map[string]bool{}
	for i := 0; i < np; i++ {
		nm := genCtxName(t)
		for used[nm] {
			nm += "_"
		}
		used[nm] = true
		pool = append(pool, nm)
	}
	nk := rapid.IntRange(2, 5).Draw(t, "nkeys")
	var ks []CtxArg
	count := map[string]int{}
	for i := 0; i < nk; i++ {
		nm := pool[rapid.IntRange(0, np-1).Draw(t, "which")]
		count[nm]++
		if rapid.IntRange(0, 11).Draw(t, "bare") == 0 {
			ks = append(ks, CtxArg{Kind: "kbare", Name: pbt.S(nm)})
			continue
		}
		ks = append(ks, CtxArg{Kind: "k", Name: pbt.S(nm), Val: pbt.S(trimRight(genCtxValue(t, "v")))})
	}
	// at least one name is given twice
	rep := false
	for _, a := range ks {
		rep = rep || count[string(a.Name)] >= 2
	}
	if !rep {
		ks[len(ks)-1].Name = ks[0].Name
	}
	// -d values next to them, anywhere in the argument list
	seq := ks
	nd := rapid.IntRange(0, 3).Draw(t, "ndata")
	for i := 0; i < nd; i++ {
		d := CtxArg{Kind: "d", Val: pbt.S(strings.TrimSpace(genCtxValue(t, "d")))}
		at := rapid.IntRange(0, len(seq)).Draw(t, "at")
		seq = append(seq[:at:at], append([]CtxArg{d}, seq[at:]...)...)
	}
	c.Args = seq
	c.Key = rapid.SampledFrom(viewKeys).Draw(t, "key")
	c.Runs = rapid.SampledFrom([]int{1, 2, 3}).Draw(t, "runs")
	return c
}

var exprCtxSpec = pbt.Spec[ExprCtxCase]{
	Property: "C16", Name: "expression-context",
	Rule:   "`rare expression --raw --skip-newline` with 2-5 --key arguments over 1-3 names so that at least one name is given 2+ times (values in generated order: small distinct words and numbers, numeric shapes, the hostile alphabet; occasionally `--key=name` without '='), 0-3 --data values anywhere between them, and the template `{name1}\\x1f{name2}\\x1f..{0}\\x1f..{view}` (names restricted to what `{name}` can spell: valid UTF-8, no expression syntax, not an integer; no \\x1f, NUL, comma or edge white space in values), run in 1..3 separate processes. Oracle: all processes print the same text; the view is one valid JSON object with exactly one member per distinct name (for . views) and per --data value (for # views; empty texts may be left out) whose value equals what the lookup of the SAME run printed for that name / index (string, or number/boolean of equal value). Which of the repeated values the context keeps is recorded, never asserted. Non-trivial: the command ran, a repeated name has differing values and the view shows the named values",
	Budget: pbt.Budget{Quick: 480, Thorough: 3600},
	Gen:    genExprCtx, Check: checkExprCtx, Classify: classifyExprCtx,
	Watchdog: 10 * time.Minute, NoWatchdogViolation: true,
}

func TestExpressionContext(t *testing.T) { pbt.Run(t, exprCtxSpec) }
