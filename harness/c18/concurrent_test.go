// C18, "concurrent": one compiled expression is shared by all extractor
// workers of rare (several by default), each evaluating it for ITS lines while
// the others evaluate theirs. "For every instant ... report the calendar
// fields of that instant" / "parses what timeformat printed back to the same
// instant" is what each worker relies on for its own line: the value for a
// text must not depend on what another goroutine is evaluating at the same
// moment. No new semantics: the expected value of a line is what the same
// line gives evaluated alone, sequentially, on a fresh compile of the same
// expression (the value the other sub-properties judge against the calendar).
//
// One case = one expression of a shape the other sub-properties use (time,
// buckettime, timeformat, timeattr, duration, durationformat and their
// compositions; explicit named format, `auto`, or the format-remembering
// default) + 2-8 goroutines with 1-4 lines each; every goroutine walks its
// lines (each repeated 1-5 times in a row, as consecutive log lines of one
// second are) for a number of rounds, all released together.
//
// The format-remembering default ("the first seen date will determine the
// format for all dates going forward") is only judged where that state cannot
// change a value: all lines of such a case are printed in one format, and a
// sequential guard establishes that, whichever line is seen first, every line
// still evaluates to its alone value; otherwise the case is excluded.
package c18

import (
	"fmt"
	"runtime"
	"strconv"
	"sync"
	"testing"
	"time"

	"pgregory.net/rapid"
	"rare/pkg/expressions"
	"verifharness/pbt"
)

type ConcCase struct {
	Shape  string     // label: which helper(s) the expression is made of
	Mode   string     // label: explicit | auto | cache | n/a (no time parsing stage)
	Expr   string     // the expression, reading its input from {0}
	Lines  [][]string // per goroutine: the {0} of its lines, in order
	Repeat int        // consecutive evaluations of each line
	Rounds int        // how often each goroutine walks its lines
	Guard  bool       // the expression remembers the first seen format: run the sequential guard
	Host   int64      // selects the zone of the host (see hostZones)
	Obs    *pbt.Obs   `json:"-"`
}

func freshCompile(expr string) (*expressions.CompiledKeyBuilder, error) { return compile(expr, false) }

func evalOn(kb *expressions.CompiledKeyBuilder, text string) string {
	return kb.BuildKey(&expressions.KeyBuilderContextArray{Elements: []string{text}})
}

func checkConc(c ConcCase) error {
	if len(c.Lines) < 2 || len(c.Lines) > 64 {
		return nil
	}
	// the replay of a case must see real parallelism as well
	if runtime.GOMAXPROCS(0) < 8 {
		defer runtime.GOMAXPROCS(runtime.GOMAXPROCS(8))
	}
	resetGlobals()
	c.Obs.Label(true, "host-zone:"+setHostZone(c.Host))
	defer func() { time.Local = time.UTC }()

	// ---- every distinct line evaluated alone, each on its own fresh compile
	var texts []string // distinct, in order of first appearance
	alone := map[string]string{}
	for _, ls := range c.Lines {
		if len(ls) == 0 {
			return nil
		}
		for _, text := range ls {
			if _, seen := alone[text]; seen {
				continue
			}
			kb, err := freshCompile(c.Expr)
			if err != nil {
				return err
			}
			alone[text] = evalOn(kb, text)
			texts = append(texts, text)
		}
	}

	// ---- remembered format: must not be able to change any value
	if c.Guard {
		for _, first := range texts {
			kb, err := freshCompile(c.Expr)
			if err != nil {
				return err
			}
			evalOn(kb, first)
			for _, text := range texts {
				if evalOn(kb, text) != alone[text] {
					pbt.Exclude("concurrent: value depends on which line's format is remembered first (documented state, judged nowhere)")
					c.Obs.Label(true, "excluded:first-seen-format-decides")
					return nil
				}
			}
		}
	}

	// ---- the same lines, from all goroutines at once, on ONE compile
	kb, err := freshCompile(c.Expr)
	if err != nil {
		return err
	}
	rounds, repeat := c.Rounds, c.Repeat
	if rounds < 1 {
		rounds = 1
	}
	if repeat < 1 {
		repeat = 1
	}
	n := len(c.Lines)
	want := make([][]string, n)
	for i, ls := range c.Lines {
		want[i] = make([]string, len(ls))
		for j, text := range ls {
			want[i][j] = alone[text]
		}
	}
	var wg sync.WaitGroup
	errs := make([]error, n)
	start := make(chan struct{})
	for i := 0; i < n; i++ {
		wg.Add(1)
		go func(i int) {
			defer wg.Done()
			ctx := &expressions.KeyBuilderContextArray{Elements: []string{""}}
			lines, wants := c.Lines[i], want[i]
			<-start
			for r := 0; r < rounds; r++ {
				for j, text := range lines {
					ctx.Elements[0] = text
					for p := 0; p < repeat; p++ {
						if got := kb.BuildKey(ctx); got != wants[j] {
							errs[i] = fmt.Errorf("%s with {0}=%q: goroutine %d of %d (round %d, line %d, evaluation %d of %d in a row) got %q; evaluated alone on a fresh compile the same line gives %q%s",
								c.Expr, text, i, n, r, j, p+1, repeat, got, wants[j], whoseValue(c, want, got, i))
							return
						}
					}
				}
			}
		}(i)
	}
	close(start)
	wg.Wait()
	for _, e := range errs {
		if e != nil {
			return e
		}
	}

	// ---- observations
	o := c.Obs
	if o != nil {
		distinct, markers, parsed := map[string]bool{}, 0, 0
		for _, text := range texts {
			distinct[alone[text]] = true
			if isMarker(alone[text]) {
				markers++
			} else {
				parsed++
			}
		}
		owners := map[string]int{}
		shared := false
		for i, ls := range c.Lines {
			for _, text := range ls {
				if k, ok := owners[text]; ok && k != i {
					shared = true
				}
				owners[text] = i
			}
		}
		o.Label(len(distinct) >= 2, "goroutines-expect-different-values")
		o.Label(markers > 0 && parsed > 0, "error-marker-lines-among-good-ones")
		o.Label(parsed == 0, "no-line-parses")
		o.Label(shared, "a-text-shared-by-goroutines")
		o.Label(c.Guard, "guard:first-seen-format-cannot-decide")
		o.Label(true, "goroutines:"+strconv.Itoa(n))
		o.Label(runtime.GOMAXPROCS(0) >= 2 && runtime.NumCPU() >= 2, "parallel:gomaxprocs>=2,cpus>=2")
		o.Add("evaluations", n*rounds*repeat)
	}
	return nil
}

// whoseValue tells, for the message, whether a wrong value is the value of a
// line another goroutine was evaluating.
func whoseValue(c ConcCase, want [][]string, got string, me int) string {
	for i := range want {
		if i == me {
			continue
		}
		for j := range want[i] {
			if want[i][j] == got {
				return fmt.Sprintf(" - %q is the value of line %q, which goroutine %d evaluates", got, c.Lines[i][j], i)
			}
		}
	}
	return ""
}

// ---------------------------------------------------------------------------
// generator

var (
	concAutoFormats  = []string{"ANSIC", "UNIX", "RUBY", "RFC822", "RFC822Z", "RFC1123", "RFC1123Z", "RFC3339"} // what `auto` is documented for: dates "in different formats"
	concCacheFormats = []string{"RFC822Z", "RFC1123", "RFC1123Z", "RFC3339", "RFC3339"}
	concPartFormats  = []string{"YEAR", "MONTH", "DAY", "HOUR", "MINUTE", "SECOND", "WEEKDAY", "MONTHNAME", "NTIMEZONE", "TIMEZONE"}
	concJunk         = []string{"", "n/a", "-", "yesterday", "12:61", "T"}
	concSteps        = []int64{1, 1, 60, 3600, 86400, 1801, 2592000}
)

func genConc(t *rapid.T) ConcCase {
	zl := zones()
	c := ConcCase{Obs: pbt.NewObs(), Mode: "n/a"}
	c.Host = rapid.Int64Range(0, 3).Draw(t, "host")
	drawZone := func(label string) string {
		switch k := rapid.IntRange(0, 7).Draw(t, label+"Class"); {
		case k == 0:
			return ""
		case k == 1 || len(zl) == 0:
			return "utc"
		default:
			return zl[rapid.IntRange(0, len(zl)-1).Draw(t, label)].name
		}
	}
	zone := drawZone("zone")
	loc, trans, _ := lookup(zone)
	bucket := func() string {
		b := buckets[rapid.IntRange(0, len(buckets)-1).Draw(t, "bucket")]
		return b.word[:rapid.IntRange(b.min, len(b.word)).Draw(t, "bucketLen")]
	}

	// what the lines are: time texts (in which format), unix seconds, duration texts, seconds
	input := "text"
	textFormat := "" // format the lines are printed in; "" = drawn per goroutine (auto)
	c.Shape = rapid.SampledFrom([]string{
		"time", "time", "time", "buckettime", "buckettime", "time+buckettime", "timeformat(time)",
		"time(timeformat)", "buckettime(timeformat)", "timeformat", "timeattr",
		"duration", "durationformat", "duration(durationformat)", "durationformat(duration)",
	}).Draw(t, "shape")
	switch c.Shape {
	case "time", "buckettime", "time+buckettime", "timeformat(time)":
		// the format argument of the parsing stage
		formatArg := ""
		switch k := rapid.IntRange(0, 9).Draw(t, "mode"); {
		case k <= 4:
			c.Mode = "explicit"
			textFormat = rapid.SampledFrom(allNamedFormats).Draw(t, "format")
			formatArg = textFormat
		case k <= 6:
			c.Mode, formatArg = "auto", "auto"
		default:
			c.Mode, c.Guard = "cache", true
			textFormat = rapid.SampledFrom(concCacheFormats).Draw(t, "cacheTextFormat")
			if rapid.Bool().Draw(t, "cacheSpelled") {
				formatArg = "cache"
			}
		}
		ptz := zone
		if rapid.IntRange(0, 3).Draw(t, "otherParseZone") == 0 {
			ptz = drawZone("parseZone")
		}
		switch c.Shape {
		case "time":
			c.Expr = call("time", "{0}", formatArg, ptz)
		case "buckettime":
			c.Expr = call("buckettime", "{0}", bucket(), formatArg, ptz)
		case "time+buckettime":
			c.Expr = call("time", "{0}", formatArg, ptz) + " " + call("buckettime", "{0}", bucket(), formatArg, ptz)
		default: // the documented way to reformat a time
			out := rapid.SampledFrom(append(append([]string{}, allNamedFormats...), concPartFormats...)).Draw(t, "outFormat")
			c.Expr = call("timeformat", call("time", "{0}", formatArg, ptz), out, zone)
		}
	case "time(timeformat)":
		input, c.Mode = "unix", "explicit"
		f := rapid.SampledFrom(allNamedFormats).Draw(t, "format")
		c.Expr = call("time", call("timeformat", "{0}", f, zone), f, zone)
	case "buckettime(timeformat)":
		input, c.Mode = "unix", "explicit"
		c.Expr = call("buckettime", call("timeformat", "{0}", "RFC3339", zone), bucket(), "RFC3339", zone)
	case "timeformat":
		input = "unix"
		f := rapid.SampledFrom(append(append([]string{""}, allNamedFormats...), concPartFormats...)).Draw(t, "format")
		if f == "" {
			c.Expr = "{timeformat {0}}"
		} else {
			c.Expr = call("timeformat", "{0}", f, zone)
		}
	case "timeattr":
		input = "unix"
		c.Expr = call("timeattr", "{0}", rapid.SampledFrom([]string{"weekday", "week", "yearweek", "quarter"}).Draw(t, "attr"), zone)
	case "duration":
		input, c.Expr = "duration", "{duration {0}}"
	case "durationformat":
		input, c.Expr = "seconds", "{durationformat {0}}"
	case "duration(durationformat)":
		input, c.Expr = "seconds", "{duration {durationformat {0}}}"
	case "durationformat(duration)":
		input, c.Expr = "duration", "{durationformat {duration {0}}}"
	}

	workers := rapid.IntRange(2, 8).Draw(t, "goroutines")
	var firstBase int64
	for w := 0; w < workers; w++ {
		nLines := rapid.IntRange(1, 4).Draw(t, "lines")
		var lines []string
		switch input {
		case "text", "unix":
			// each goroutine its own stretch of a log; 1 in 5 reads the same stretch as the first one
			var base int64
			switch k := rapid.IntRange(0, 9).Draw(t, "instantClass"); {
			case w > 0 && k <= 1:
				base = firstBase
			case k <= 4:
				base = rapid.Int64Range(minUnix, maxUnix).Draw(t, "unix")
			case k <= 7: // around a month (quarter, year) boundary
				y, m := rapid.IntRange(1970, 2100).Draw(t, "year"), rapid.IntRange(1, 12).Draw(t, "month")
				base = localMidnight(loc, DaysFromCivil(y, m, 1)) + rapid.SampledFrom(smallDeltas).Draw(t, "delta")
			default: // around a zone transition
				if len(trans) > 0 {
					base = trans[rapid.IntRange(0, len(trans)-1).Draw(t, "trans")] + rapid.SampledFrom(smallDeltas).Draw(t, "delta")
				} else {
					base = localMidnight(loc, rapid.Int64Range(0, maxUnix/86400).Draw(t, "day")) + rapid.SampledFrom(smallDeltas).Draw(t, "delta")
				}
			}
			if w == 0 {
				firstBase = base
			}
			step := rapid.SampledFrom(concSteps).Draw(t, "step")
			f := textFormat
			if input == "text" && f == "" {
				f = rapid.SampledFrom(concAutoFormats).Draw(t, "autoTextFormat")
			}
			for k := 0; k < nLines; k++ {
				u := clampUnix(base + int64(k)*step)
				if input == "unix" {
					lines = append(lines, strconv.FormatInt(u, 10))
					continue
				}
				abbr, off := offsetAt(loc, u)
				lines = append(lines, CivilOf(u, off).Named(f, off, abbr, " "))
			}
		case "seconds":
			base := rapid.Int64Range(-100000, 100000).Draw(t, "secs")
			if rapid.IntRange(0, 3).Draw(t, "wide") == 0 {
				base = rapid.Int64Range(-9000000000, 9000000000).Draw(t, "secsWide")
			}
			step := rapid.SampledFrom([]int64{1, 59, 60, 3600, 86399}).Draw(t, "step")
			for k := 0; k < nLines; k++ {
				lines = append(lines, strconv.FormatInt(base+int64(k)*step, 10))
			}
		case "duration":
			for k := 0; k < nLines; k++ {
				h := rapid.IntRange(0, 3000).Draw(t, "h")
				m := rapid.IntRange(0, 600).Draw(t, "m")
				s := rapid.IntRange(0, 100000).Draw(t, "s")
				text := ""
				switch rapid.IntRange(0, 4).Draw(t, "durForm") {
				case 0:
					text = fmt.Sprintf("%dh%dm%ds", h, m, s)
				case 1:
					text = fmt.Sprintf("%dm%ds", m, s)
				case 2:
					text = fmt.Sprintf("%ds", s)
				case 3:
					text = fmt.Sprintf("%dh", h)
				default:
					text = fmt.Sprintf("-%dh%dm", h, m)
				}
				lines = append(lines, text)
			}
		}
		// a line that is no time / number / duration at all: 1 in 10
		for k := range lines {
			if rapid.IntRange(0, 9).Draw(t, "junkLine") == 0 {
				lines[k] = rapid.SampledFrom(concJunk).Draw(t, "junk")
			}
		}
		c.Lines = append(c.Lines, lines)
	}
	c.Repeat = rapid.IntRange(1, 5).Draw(t, "repeat")
	c.Rounds = rapid.SampledFrom([]int{50, 200, 800}).Draw(t, "rounds")
	return c
}

func classifyConc(c ConcCase) (bool, []string) {
	labels := append([]string{"shape:" + c.Shape, "mode:" + c.Mode}, c.Obs.All()...)
	return c.Obs.Has("goroutines-expect-different-values"), labels
}

var concSpec = pbt.Spec[ConcCase]{
	Property: "C18", Name: "concurrent",
	Rule: "one expression of the shapes the other sub-properties use - {time x F tz}, {buckettime x b F tz}, both side by side, {timeformat {time x F} F2 tz}, {time {timeformat u F tz} F tz}, {buckettime {timeformat u RFC3339 tz} b RFC3339 tz}, " +
		"{timeformat u F tz} (named and part formats, default), {timeattr u attr tz}, {duration d}, {durationformat s} and their two compositions; F an explicit named format, `auto` (lines of each goroutine printed by the model in a named format of their own) " +
		"or the remembering default (omitted / `cache`; all lines in one format, and only when a sequential guard shows that no line's remembered format changes any line's value) - compiled ONCE and evaluated by 2-8 goroutines released together, " +
		"each walking its own 1-4 lines (consecutive instants of a stretch of a log: uniform, around a month boundary or a zone transition; 1 in 5 the same stretch as the first goroutine; 1 line in 10 not a time at all), each line 1-5 times in a row, for 50-800 rounds, GOMAXPROCS >= 8. " +
		"Oracle: every result equals what the same line gives evaluated alone, sequentially, on a fresh compile of the same expression (the value the calendar / duration / errors sub-properties judge). " +
		"Non-trivial: the goroutines expect at least two different values; distinct by case JSON",
	// C18 runs at scale 4 (quick) / 6 (thorough): 2000 / 60000 cases; a case costs 1-10 ms of CPU
	Budget: pbt.Budget{Quick: 500, Thorough: 10000},
	Gen:    genConc, Check: checkConc, Classify: classifyConc,
}

func TestConcurrent(t *testing.T) {
	if runtime.GOMAXPROCS(0) < 8 {
		defer runtime.GOMAXPROCS(runtime.GOMAXPROCS(8))
	}
	pbt.Run(t, concSpec)
}
