// C18 — time helpers agree with the calendar and round-trip.
//
// Sub-properties:
//
//	calendar   rapid: (unix second, zone) -> every documented output of
//	           timeformat / timeattr / buckettime / time compared with the
//	           civil-time model of civil.go
//	sweep      bounded-exhaustive: the same oracle on every month boundary
//	           and every zone transition (quick), every day boundary
//	           1970-2100 (thorough), in every zone
//	duration   rapid: duration / durationformat against an own h/m/s reader
//	errors     rapid: unparseable input yields the error marker
//	concurrent rapid: one compiled expression evaluated by 2-8 goroutines on
//	           their own lines at once; every value equals the one the line
//	           gives evaluated alone (concurrent_test.go)
package c18

import (
	"fmt"
	"os"
	"regexp"
	"sort"
	"strconv"
	"strings"
	"sync"
	"testing"
	"time"

	"pgregory.net/rapid"
	"rare/pkg/expressions"
	"rare/pkg/expressions/stdlib"
	"verifharness/pbt"
)

const (
	// 1970-01-01T00:00:00Z .. 2100-12-31T23:59:59Z
	minUnix = int64(0)
	maxUnix = int64(4133980799)
)

// ---------------------------------------------------------------------------
// zones: only what time.LoadLocation finds on this host, whole-minute offsets

var candidateZones = []string{
	"Etc/GMT+5",           // fixed offset, abbreviation "-05"
	"America/New_York",    // DST, negative offset
	"Europe/London",       // DST around offset 0 (prints Z in winter), +1 all year 1968-71
	"Australia/Lord_Howe", // 30-minute DST
	"Asia/Kolkata",        // +05:30, no DST
	"Asia/Kathmandu",      // +05:45 (+05:30 before 1986)
	"America/St_Johns",    // -03:30 with DST (and a 2-hour DST in 1988)
	"Pacific/Chatham",     // +12:45 with DST
	"Pacific/Apia",        // skipped 2011-12-30 (-10 -> +14)
	"America/Sao_Paulo",   // DST starting at midnight (00:00 does not exist)
	"Europe/Dublin",       // negative DST in tzdata
	"Pacific/Kiritimati",  // +14
	// legacy names of the tz database that look like abbreviations: fixed offsets all year (EST is -05:00 in
	// July too), next to the rule-based names spelled almost alike
	"EST", "MST", "HST", "EST5EDT", "PST8PDT", "CET", "Japan", "US/Eastern",
}

type zoneInfo struct {
	name  string
	loc   *time.Location
	trans []int64 // instants where the offset or abbreviation changes, ascending, within the domain ± 2 years
}

var (
	zoneOnce  sync.Once
	zoneList  []*zoneInfo // loadable, whole-minute zones (never includes utc)
	zoneIndex map[string]*zoneInfo
)

func zones() []*zoneInfo {
	zoneOnce.Do(func() {
		zoneIndex = map[string]*zoneInfo{}
		for _, name := range candidateZones {
			loc, err := time.LoadLocation(name)
			if err != nil {
				pbt.Exclude("zone-not-on-host:" + name)
				continue
			}
			zi := &zoneInfo{name: name, loc: loc}
			ok := true
			// Transitions are found by probing the offset/abbreviation every
			// 6 hours and bisecting where it changes (Time.ZoneBounds is not
			// usable past the last explicit transition of the tz file).
			const step = 6 * 3600
			lo := minUnix - 2*366*86400
			end := maxUnix + 2*366*86400
			pn, po := offsetAt(loc, lo)
			if po%60 != 0 {
				ok = false
			}
			for u := lo + step; u <= end && ok; u += step {
				n, o := offsetAt(loc, u)
				if n == pn && o == po {
					continue
				}
				a, b := u-step, u // zone(a) = previous, zone(b) = new
				for b-a > 1 {
					mid := a + (b-a)/2
					if mn, mo := offsetAt(loc, mid); mn == pn && mo == po {
						a = mid
					} else {
						b = mid
					}
				}
				zi.trans = append(zi.trans, b)
				pn, po = offsetAt(loc, b)
				if po%60 != 0 {
					ok = false
				}
				if pn != n || po != o { // two changes within one step: rescan from b
					u = b - b%step
				}
			}
			if !ok {
				pbt.Exclude("zone-with-sub-minute-offset:" + name)
				continue
			}
			zoneList = append(zoneList, zi)
			zoneIndex[name] = zi
		}
	})
	return zoneList
}

// lookup returns the location, its transition list and whether the zone can
// be used here. "" (argument omitted) and "utc" are UTC.
func lookup(zone string) (*time.Location, []int64, bool) {
	zones()
	if zone == "" || zone == "utc" {
		return time.UTC, nil, true
	}
	if zi, ok := zoneIndex[zone]; ok {
		return zi.loc, zi.trans, true
	}
	return nil, nil, false
}

// offsetAt is the one thing taken from Go's tz database.
func offsetAt(loc *time.Location, unix int64) (string, int) {
	return time.Unix(unix, 0).In(loc).Zone()
}

// nearTransition reports whether a zone transition lies within d seconds of
// unix (either side).
func nearTransition(trans []int64, unix, d int64) bool {
	i := sort.Search(len(trans), func(i int) bool { return trans[i] >= unix-d })
	return i < len(trans) && trans[i] <= unix+d
}

// ---------------------------------------------------------------------------
// running rare expressions

var (
	kbMu    sync.Mutex
	kbCache = map[string]*expressions.CompiledKeyBuilder{}
	stdKB   = stdlib.NewStdKeyBuilder()
)

func compile(expr string, cache bool) (*expressions.CompiledKeyBuilder, error) {
	if cache {
		kbMu.Lock()
		kb, ok := kbCache[expr]
		kbMu.Unlock()
		if ok {
			return kb, nil
		}
	}
	kb, errs := stdKB.Compile(expr)
	if errs != nil {
		return nil, fmt.Errorf("expression %s does not compile: %v", expr, errs)
	}
	if kb == nil {
		return nil, fmt.Errorf("expression %s: Compile returned nil without an error", expr)
	}
	if cache {
		kbMu.Lock()
		kbCache[expr] = kb
		kbMu.Unlock()
	}
	return kb, nil
}

// eval compiles (cached unless the expression embeds per-case constants) and
// evaluates expr with the given match groups {0}, {1}, ….
func eval(expr string, cache bool, groups ...string) (string, error) {
	kb, err := compile(expr, cache)
	if err != nil {
		return "", err
	}
	return kb.BuildKey(&expressions.KeyBuilderContextArray{Elements: groups}), nil
}

// call builds {fn a b c}; trailing empty arguments are omitted, inner ones
// are written as "".
func call(fn string, args ...string) string {
	for len(args) > 0 && args[len(args)-1] == "" {
		args = args[:len(args)-1]
	}
	var sb strings.Builder
	sb.WriteString("{" + fn)
	for _, a := range args {
		sb.WriteByte(' ')
		switch {
		case a == "":
			sb.WriteString(`""`)
		case strings.HasPrefix(a, "{"):
			sb.WriteString(a)
		default:
			sb.WriteString(`"` + a + `"`)
		}
	}
	sb.WriteString("}")
	return sb.String()
}

func resetGlobals() {
	stdlib.DisableLoad = false
}

// hostZones: the zone of the machine rare runs on. The property speaks of the
// requested zone (default utc); what the host's own zone is must not show.
// time.Unix() yields values in time.Local, so a conversion that is skipped
// "because the zone is UTC anyway" is only wrong on a host that is not on
// UTC - which this sandbox is. The host zone is therefore part of the case
// (derived from the instant, so that a replay sees the same one).
var hostZones = func() []*time.Location {
	zs := []*time.Location{time.UTC, time.FixedZone("HOST+0530", 5*3600+1800), time.FixedZone("HOST-0900", -9*3600)}
	if ny, err := time.LoadLocation("America/New_York"); err == nil {
		zs = append(zs, ny)
	}
	return zs
}()

func setHostZone(sel int64) string {
	if sel < 0 {
		sel = -sel
	}
	z := hostZones[int(sel%int64(len(hostZones)))]
	time.Local = z
	return z.String()
}

// ---------------------------------------------------------------------------
// calendar

type Case struct {
	Unix   int64
	Zone   string   // "" = tz argument omitted (documented default utc), "utc", or an IANA name
	Spell  uint32   // picks the spelling of each bucket name and the tz handed to {time}
	Inline bool     // the unix second is written into the template (constant expression) instead of {0}
	Frac   int      // nanoseconds appended to the text given to {buckettime … nano}
	Obs    *pbt.Obs `json:"-"`
}

// documented: (*n*ano, *s*econd, *m*inute, *h*our, *d*ay, *mo*nth, *y*ear):
// every spelling from the marked abbreviation up to the word shown.
var buckets = []struct {
	word string
	min  int
	keep int // number of leading calendar fields kept: year=1 … second=6, nano=7
}{
	{"nano", 1, 7}, {"second", 1, 6}, {"minute", 1, 5}, {"hour", 1, 4}, {"day", 1, 3}, {"month", 2, 2}, {"year", 1, 1},
}

var (
	roundTripFormats = []string{"RUBY", "RFC822Z", "RFC1123Z", "RFC3339", "RFC3339N", "NGINX"}
	allNamedFormats  = []string{"ANSIC", "UNIX", "RUBY", "RFC822", "RFC822Z", "RFC1123", "RFC1123Z", "RFC3339", "RFC3339N", "NGINX"}
	digitsRe         = regexp.MustCompile(`[0-9]+`)
	allDigitsRe      = regexp.MustCompile(`^[0-9]+$`)
	yearWeekRe       = regexp.MustCompile(`^([0-9]+)[^0-9]+([0-9]+)$`)
)

func mismatch(expr, in, got, want, why string) error {
	return fmt.Errorf("%s with {0}=%q: got %q, want %s (%s)", expr, in, got, want, why)
}

func checkCalendar(c Case) error {
	resetGlobals()
	c.Obs.Label(true, "host-zone:"+setHostZone(c.Unix/7))
	defer func() { time.Local = time.UTC }()
	loc, trans, ok := lookup(c.Zone)
	if !ok {
		pbt.Exclude("replayed-zone-not-on-host")
		return nil
	}
	if c.Unix < minUnix || c.Unix > maxUnix {
		return nil // outside the quantified domain (hand-edited replay)
	}
	u := strconv.FormatInt(c.Unix, 10)
	abbr, off := offsetAt(loc, c.Unix)
	if off%60 != 0 {
		return nil
	}
	cv := CivilOf(c.Unix, off)
	where := fmt.Sprintf("unix %d in zone %q (offset %+ds) is %04d-%02d-%02d %02d:%02d:%02d, weekday %s, ISO week %d of %d, quarter %d",
		c.Unix, c.Zone, off, cv.Year, cv.Month, cv.Day, cv.Hour, cv.Minute, cv.Second, dayNames[cv.Weekday], cv.ISOWeek, cv.ISOYear, cv.Quarter)

	// the unix second as an argument: match group {0}, or written into the template
	uArg, cache := "{0}", true
	if c.Inline {
		uArg, cache = u, false
	}
	run := func(expr string) (string, error) { return eval(expr, cache, u) }

	// ---- timeformat: part formats -------------------------------------
	numParts := []struct {
		name string
		want int
	}{{"YEAR", cv.Year}, {"MONTH", cv.Month}, {"DAY", cv.Day}, {"HOUR", cv.Hour}, {"MINUTE", cv.Minute}, {"SECOND", cv.Second}}
	for _, p := range numParts {
		if c.Inline {
			break // constant expressions are compiled per case: a reduced set keeps them affordable
		}
		expr := call("timeformat", uArg, p.name, c.Zone)
		got, err := run(expr)
		if err != nil {
			return err
		}
		if n, e := strconv.Atoi(got); e != nil || !allDigitsRe.MatchString(got) || n != p.want {
			return mismatch(expr, u, got, strconv.Itoa(p.want), where)
		}
	}
	textParts := []struct{ name, want string }{
		{"WEEKDAY", dayNames[cv.Weekday]}, {"WDAY", dayNames[cv.Weekday][:3]},
		{"MONTHNAME", monthNames[cv.Month]}, {"MNTH", monthNames[cv.Month][:3]},
		{"NTIMEZONE", numOffset(off, false)}, {"TIMEZONE", abbr},
	}
	for _, p := range textParts {
		if c.Inline {
			break
		}
		expr := call("timeformat", uArg, p.name, c.Zone)
		got, err := run(expr)
		if err != nil {
			return err
		}
		if got != p.want {
			return mismatch(expr, u, got, strconv.Quote(p.want), where)
		}
	}

	// ---- timeformat: named formats ------------------------------------
	for i, f := range allNamedFormats {
		if c.Inline && i != int(c.Spell>>4)%len(allNamedFormats) {
			continue
		}
		expr := call("timeformat", uArg, f, c.Zone)
		got, err := run(expr)
		if err != nil {
			return err
		}
		want := cv.Named(f, off, abbr, " ")
		// NGINX is rare's own format; whether a one-digit day is padded with
		// a blank or a zero is not documented: both accepted.
		if got != want && !(f == "NGINX" && got == cv.Named(f, off, abbr, "0")) {
			return mismatch(expr, u, got, strconv.Quote(want), where)
		}
	}
	if c.Zone == "" {
		// documented defaults: format RFC3339, tz utc
		expr := call("timeformat", uArg)
		got, err := run(expr)
		if err != nil {
			return err
		}
		if want := cv.Named("RFC3339", 0, "UTC", ""); got != want {
			return mismatch(expr, u, got, strconv.Quote(want), "documented default format RFC3339 in utc; "+where)
		}
	}

	// ---- timeattr -------------------------------------------------------
	{
		expr := call("timeattr", uArg, "weekday", c.Zone)
		got, err := run(expr)
		if err != nil {
			return err
		}
		// the numbering is not documented: Sunday may be 0 or 7, the other days are 1..6 either way
		n, e := strconv.Atoi(got)
		if e != nil || !allDigitsRe.MatchString(got) || n > 7 || n%7 != cv.Weekday {
			return mismatch(expr, u, got, fmt.Sprintf("%d", cv.Weekday), where)
		}
		expr = call("timeattr", uArg, "week", c.Zone)
		if got, err = run(expr); err != nil {
			return err
		}
		if n, e := strconv.Atoi(got); e != nil || !allDigitsRe.MatchString(got) || n != cv.ISOWeek {
			return mismatch(expr, u, got, fmt.Sprintf("%d", cv.ISOWeek), where)
		}
		expr = call("timeattr", uArg, "yearweek", c.Zone)
		if got, err = run(expr); err != nil {
			return err
		}
		m := yearWeekRe.FindStringSubmatch(got)
		bad := m == nil
		if !bad {
			y, _ := strconv.Atoi(m[1])
			w, _ := strconv.Atoi(m[2])
			bad = y != cv.ISOYear || w != cv.ISOWeek
		}
		if bad {
			return mismatch(expr, u, got, fmt.Sprintf("ISO week-year %d and week %d", cv.ISOYear, cv.ISOWeek), where)
		}
		expr = call("timeattr", uArg, "quarter", c.Zone)
		if got, err = run(expr); err != nil {
			return err
		}
		if got != strconv.Itoa(cv.Quarter) {
			return mismatch(expr, u, got, fmt.Sprintf("%d", cv.Quarter), "quarter is 1..4 with January-March = 1; "+where)
		}
	}

	// ---- buckettime -----------------------------------------------------
	fields := []int{cv.Year, cv.Month, cv.Day, cv.Hour, cv.Minute, cv.Second}
	modelText := cv.Named("RFC3339", off, abbr, "")
	for i, b := range buckets {
		n := b.min + int((c.Spell>>(3*uint(i)))&7)%(len(b.word)-b.min+1)
		name := b.word[:n]
		if c.Inline && i != int(c.Spell>>12)%len(buckets) {
			continue
		}
		keep := b.keep
		if keep > 6 {
			keep = 6
		}
		verify := func(expr, in, got string) error {
			groups := digitsRe.FindAllString(got, -1)
			want := fields[:keep]
			okN := len(groups) == keep || (b.keep == 7 && len(groups) == 7)
			if okN {
				for j := range want {
					if v, _ := strconv.Atoi(groups[j]); v != want[j] {
						okN = false
					}
				}
			}
			if !okN {
				return mismatch(expr, in, got, fmt.Sprintf("the fields %v", want), "bucket "+b.word+"; "+where)
			}
			return nil
		}
		// (a) through rare's own rendering of the instant
		expr := call("buckettime", call("timeformat", uArg, "RFC3339", c.Zone), name, "RFC3339", c.Zone)
		got, err := run(expr)
		if err != nil {
			return err
		}
		if err := verify(expr, u, got); err != nil {
			return err
		}
		// (b) from the model's rendering; the zone is explicit in the text,
		// so it must win over the tz argument (given or omitted)
		tz := c.Zone
		if c.Spell&(1<<30) != 0 {
			tz = ""
		}
		text := modelText
		frac := ""
		if b.keep == 7 && c.Frac > 0 {
			frac = strings.TrimRight(fmt.Sprintf("%09d", c.Frac), "0")
			text = text[:19] + "." + frac + text[19:]
		}
		expr = call("buckettime", "{0}", name, "RFC3339", tz)
		got, err = eval(expr, true, text)
		if err != nil {
			return err
		}
		if err := verify(expr, text, got); err != nil {
			return err
		}
		if frac != "" {
			groups := digitsRe.FindAllString(got, -1)
			if len(groups) != 7 || strings.TrimRight(groups[6], "0") != frac {
				return mismatch(expr, text, got, "a fraction ."+frac, "bucket nano keeps the sub-second part")
			}
		}
	}

	// ---- time(timeformat(t)) round trips --------------------------------
	zl := zones()
	// the formats: the fixed ones and every further name that the documentation
	// of the tree under test lists and that, by what rare prints with it, holds
	// date, time and numeric offset (docformats_test.go)
	rts := roundTripSet()
	for i, rf := range rts {
		f := rf.name
		if c.Inline && i != int(c.Spell>>16)%len(rts) {
			continue
		}
		if rf.yy && (cv.Year < 1969 || cv.Year > 2068) {
			// a two-digit year cannot say which century; the reading of
			// 69..99 / 00..68 is Go's convention, not documented by rare
			if f == "RFC822Z" {
				pbt.Exclude("rfc822z-two-digit-year-outside-1969..2068")
			} else {
				pbt.Exclude("doc-format-two-digit-year-outside-1969..2068:" + f)
			}
			continue
		}
		if rf.fromDocs {
			c.Obs.Label(true, "round-trip-format-from-docs:"+f)
		}
		// tz handed to {time}: the same zone, omitted, or another zone. The
		// offset is explicit in the text, so the instant may not depend on it.
		ptz := c.Zone
		switch (c.Spell >> (21 + 2*uint(i)%8)) & 3 {
		case 1:
			ptz = ""
		case 2:
			if len(zl) > 0 {
				ptz = zl[int(c.Spell>>8)%len(zl)].name
			}
		}
		inner := call("timeformat", uArg, f, c.Zone)
		expr := call("time", inner, f, ptz)
		got, err := run(expr)
		if err != nil {
			return err
		}
		want := c.Unix
		if rf.minute {
			want -= want % 60 // the format carries minutes
		}
		if got != strconv.FormatInt(want, 10) {
			text, _ := run(inner)
			return mismatch(expr, u, got, strconv.FormatInt(want, 10), fmt.Sprintf("round trip through %q; %s", text, where))
		}
	}
	// a named format without any zone (ANSIC): the tz argument decides
	// ("processed as UTC unless explicit in the datetime itself, or overridden
	// via a parameter"). Only where the wall clock reading is unambiguous
	// beyond doubt: no zone transition within 36 hours.
	if nearTransition(trans, c.Unix, 36*3600) {
		pbt.Exclude("ansic-roundtrip-near-zone-transition")
	} else if !c.Inline || c.Spell&(1<<29) != 0 {
		inner := call("timeformat", uArg, "ANSIC", c.Zone)
		expr := call("time", inner, "ANSIC", c.Zone)
		got, err := run(expr)
		if err != nil {
			return err
		}
		if got != u {
			text, _ := run(inner)
			return mismatch(expr, u, got, u, fmt.Sprintf("round trip through %q, a wall clock reading in zone %q; %s", text, c.Zone, where))
		}
	}

	// ---- observations ---------------------------------------------------
	o := c.Obs
	if o != nil {
		last := daysIn(cv.Year, cv.Month)
		edge := cv.Day == 1 || cv.Day == last
		o.Label(edge, "month-boundary±1d")
		o.Label((cv.Day == 1 && cv.Month%3 == 1) || (cv.Day == last && cv.Month%3 == 0), "quarter-boundary±1d")
		o.Label((cv.Day == 1 && cv.Month == 1) || (cv.Day == 31 && cv.Month == 12), "year-boundary±1d")
		o.Label(cv.ISOWeekday == 1 || cv.ISOWeekday == 7, "isoweek-boundary±1d")
		o.Label(cv.ISOYear != cv.Year, "isoyear!=year")
		o.Label(cv.ISOWeek == 53, "isoweek-53")
		o.Label(cv.Month%3 == 0, "month-3/6/9/12")
		o.Label(cv.Month == 2 && cv.Day == 29, "feb-29")
		o.Label(cv.Year == 2100, "year-2100")
		o.Label(cv.Year < 1970, "local-year-1969")
		o.Label(nearTransition(trans, c.Unix, 86400), "zone-transition±1d")
		o.Label(nearTransition(trans, c.Unix, 2), "zone-transition±2s")
		o.Label(cv.Hour == 0 && cv.Minute == 0 && cv.Second <= 2, "first-seconds-of-day")
		o.Label(cv.Hour == 23 && cv.Minute == 59 && cv.Second >= 58, "last-seconds-of-day")
		o.Label(off%3600 != 0, "offset-not-whole-hours")
		o.Label(off == 0 && c.Zone != "" && c.Zone != "utc", "zone-at-offset-0")
		o.Label(cv.Day < 10, "one-digit-day")
	}
	return nil
}

func classifyCalendar(c Case) (bool, []string) {
	o := c.Obs
	z := c.Zone
	if z == "" {
		z = "(omitted)"
	}
	labels := append([]string{"zone:" + z}, o.All()...)
	if c.Inline {
		labels = append(labels, "inline-constant")
	}
	nonUTC := c.Zone != "" && c.Zone != "utc"
	nt := nonUTC && (o.Has("month-boundary±1d") || o.Has("isoweek-boundary±1d") || o.Has("zone-transition±1d"))
	return nt, labels
}

// localMidnight returns the instant at which the local day `days` (since
// 1970-01-01) begins in loc, as far as one offset lookup can tell (the small
// deltas the generator adds cover the rest).
func localMidnight(loc *time.Location, days int64) int64 {
	b := days * 86400
	_, off := offsetAt(loc, b)
	u := b - int64(off)
	if _, off2 := offsetAt(loc, u); off2 != off {
		u = b - int64(off2)
	}
	return u
}

func clampUnix(u int64) int64 {
	if u < minUnix {
		return minUnix
	}
	if u > maxUnix {
		return maxUnix
	}
	return u
}

var smallDeltas = []int64{-2, -1, 0, 1, 2, -60, 59, 60, -3600, -1800, 1800, 3599, 3600, -86400, -86401, 86399, 86400}

func genCalendar(t *rapid.T) Case {
	zl := zones()
	c := Case{Obs: pbt.NewObs()}
	// zone: 1/8 omitted, 1/8 "utc", rest IANA
	switch k := rapid.IntRange(0, 15).Draw(t, "zoneClass"); {
	case k == 0:
		c.Zone = ""
	case k == 1:
		c.Zone = "utc"
	default:
		if len(zl) == 0 {
			c.Zone = "utc"
		} else {
			c.Zone = zl[rapid.IntRange(0, len(zl)-1).Draw(t, "zone")].name
		}
	}
	loc, trans, _ := lookup(c.Zone)
	c.Spell = rapid.Uint32().Draw(t, "spell")
	c.Inline = rapid.IntRange(0, 7).Draw(t, "inline") == 0
	if rapid.Bool().Draw(t, "hasFrac") {
		c.Frac = rapid.SampledFrom([]int{1, 120000000, 123000000, 123456789, 999999999, 500000000, 1000}).Draw(t, "frac")
	}
	delta := rapid.SampledFrom(smallDeltas).Draw(t, "delta")
	year := func() int { return rapid.IntRange(1970, 2100).Draw(t, "year") }
	switch rapid.IntRange(0, 9).Draw(t, "class") {
	case 0, 1: // anywhere
		c.Unix = rapid.Int64Range(minUnix, maxUnix).Draw(t, "unix")
	case 2, 3: // month (hence quarter / year) boundary
		y, m := year(), rapid.IntRange(1, 12).Draw(t, "month")
		c.Unix = localMidnight(loc, DaysFromCivil(y, m, 1)) + delta
	case 4: // quarter boundary
		y, q := year(), rapid.IntRange(0, 3).Draw(t, "q")
		c.Unix = localMidnight(loc, DaysFromCivil(y, 1+3*q, 1)) + delta
	case 5: // days around new year: ISO week-year differs from the calendar year
		y := year()
		c.Unix = localMidnight(loc, DaysFromCivil(y, 1, 1)+int64(rapid.IntRange(-4, 4).Draw(t, "dayOff"))) + delta
	case 6: // Monday 00:00 (ISO week boundary); day 4 (1970-01-05) was a Monday
		w := rapid.Int64Range(0, (maxUnix/86400-4)/7).Draw(t, "week")
		c.Unix = localMidnight(loc, 4+7*w) + delta
	case 7, 8: // zone transition
		if len(trans) > 0 {
			c.Unix = trans[rapid.IntRange(0, len(trans)-1).Draw(t, "trans")] + delta
		} else {
			c.Unix = localMidnight(loc, rapid.Int64Range(0, maxUnix/86400).Draw(t, "day")) + delta
		}
	default: // any day boundary
		c.Unix = localMidnight(loc, rapid.Int64Range(0, maxUnix/86400).Draw(t, "day")) + delta
	}
	c.Unix = clampUnix(c.Unix)
	return c
}

const calendarRule = "unix second in [1970-01-01, 2100-12-31] x zone in {omitted, utc, fixed offset, 11 DST/odd-offset IANA zones loadable on this host} x bucket-name spelling x {match group, inline constant}; " +
	"instants: uniform, or within {0,±1,±2 s, ±1 min, ±30 min, ±1 h, ±1 d} of a local month / quarter / year / ISO-week boundary, any local midnight, or a zone transition. " +
	"Oracle: own civil-time model (days since epoch -> y/m/d, weekday, ISO week and week-year, quarter=ceil(month/3)) applied to unix+offset, only the offset/abbreviation taken from Go's tz database: " +
	"timeformat for the 12 documented part formats and the 10 named formats, timeattr weekday/week/yearweek/quarter, buckettime for all 7 buckets (via rare's and via the model's RFC3339 text), " +
	"time(timeformat(t,F,tz),F,tz')==t for RUBY RFC1123Z RFC3339 RFC3339N NGINX (to the minute for RFC822Z), for every further format name the tree's documentation lists that prints date, time and numeric offset (probed through rare), and for zone-less ANSIC away from transitions. " +
	"Non-trivial: non-UTC zone and local time within a day of a month/quarter/year/ISO-week boundary or of a zone transition; distinct by case JSON"

var calendarSpec = pbt.Spec[Case]{
	Property: "C18", Name: "calendar", Rule: calendarRule,
	Budget: pbt.Budget{Quick: 120000, Thorough: 1200000},
	Gen:    genCalendar, Check: checkCalendar, Classify: classifyCalendar,
}

func TestCalendar(t *testing.T) {
	sp := calendarSpec
	sp.Rule += docFormatsRule()
	pbt.Run(t, sp)
}

// TestSweep: bounded-exhaustive part. For every zone: both sides (last
// second / first second) of every month boundary 1970-2100 and of every zone
// transition; in the thorough tier of every day boundary 1970-2100.
func TestSweep(t *testing.T) {
	sp := calendarSpec
	sp.Name = "sweep"
	what := "every local month boundary 1970-2101"
	if pbt.Thorough() {
		what = "every local day boundary 1970-2101"
	}
	sp.Rule = "bounded-exhaustive: " + what + " and every zone transition 1968-2102 clipped to the domain, instants boundary-1s and boundary, in each of {omitted, utc, " +
		strconv.Itoa(len(zones())) + " IANA zones}; same oracle as calendar; non-trivial: non-UTC zone (every case is at a boundary)" + docFormatsRule()
	sp.Classify = func(c Case) (bool, []string) {
		_, labels := classifyCalendar(c)
		return c.Zone != "" && c.Zone != "utc", labels
	}
	pbt.Enum(t, sp, func(yield func(Case) bool) {
		names := []string{"", "utc"}
		for _, z := range zones() {
			names = append(names, z.name)
		}
		var n uint32
		emit := func(zone string, u int64) bool {
			for _, d := range []int64{-1, 0} {
				v := u + d
				if v < minUnix || v > maxUnix {
					continue
				}
				n++
				// spelling and frac vary deterministically with the index
				c := Case{Unix: v, Zone: zone, Spell: n * 2654435761, Frac: int(n%3) * 123456789 % 1000000000, Obs: pbt.NewObs()}
				if !yield(c) {
					return false
				}
			}
			return true
		}
		lastDay := maxUnix/86400 + 1
		for _, zone := range names {
			loc, trans, _ := lookup(zone)
			if pbt.Thorough() {
				for d := int64(0); d <= lastDay; d++ {
					if !emit(zone, localMidnight(loc, d)) {
						return
					}
				}
			} else {
				for y := 1970; y <= 2101; y++ {
					for m := 1; m <= 12; m++ {
						if !emit(zone, localMidnight(loc, DaysFromCivil(y, m, 1))) {
							return
						}
					}
				}
			}
			for _, tr := range trans {
				if !emit(zone, tr) {
					return
				}
			}
		}
	})
}

// ---------------------------------------------------------------------------
// duration / durationformat

type DurCase struct {
	Kind string   // "format" (seconds -> text -> seconds) | "parse" (text -> seconds -> text)
	N    int64    // seconds (Kind format) / expected seconds (Kind parse)
	Text string   // duration text (Kind parse)
	Obs  *pbt.Obs `json:"-"`
}

var durRe = regexp.MustCompile(`^(-?)(?:([0-9]+)h)?(?:([0-9]+)m)?(?:([0-9]+)(?:\.([0-9]+))?s)?$`)

// readHMS is an own reader of the "4h0m0s" notation: whole hours, minutes,
// seconds, optional leading '-'. ok=false when the text is something else.
func readHMS(s string) (int64, bool) {
	m := durRe.FindStringSubmatch(s)
	if m == nil || (m[2] == "" && m[3] == "" && m[4] == "") {
		return 0, false
	}
	if strings.Trim(m[5], "0") != "" {
		return 0, false
	}
	var total int64
	for k, mul := range []int64{3600, 60, 1} {
		part := m[2+k]
		if part == "" {
			continue
		}
		v, err := strconv.ParseInt(part, 10, 64)
		if err != nil {
			return 0, false
		}
		total += v * mul
	}
	if m[1] == "-" {
		total = -total
	}
	return total, true
}

func checkDuration(c DurCase) error {
	resetGlobals()
	switch c.Kind {
	case "format":
		if c.N < -9000000000 || c.N > 9000000000 {
			return nil
		}
		n := strconv.FormatInt(c.N, 10)
		text, err := eval("{durationformat {0}}", true, n)
		if err != nil {
			return err
		}
		if v, ok := readHMS(text); !ok || v != c.N {
			return fmt.Errorf("{durationformat %s} = %q, which does not read as %d seconds in h/m/s notation", n, text, c.N)
		}
		back, err := eval("{duration {durationformat {0}}}", true, n)
		if err != nil {
			return err
		}
		if back != n {
			return fmt.Errorf("{duration {durationformat %s}} = %q (through %q), want %s", n, back, text, n)
		}
	case "edge":
		// single-unit texts around the largest duration rare can hold (about
		// 292 years). Beyond it the documented answer is the error marker; a
		// number is acceptable only if it is the exact number of seconds AND
		// durationformat can say it back ("consistent").
		got, err := eval("{duration {0}}", true, c.Text)
		if err != nil {
			return err
		}
		if isMarker(got) {
			c.Obs.Label(true, "edge:error-marker")
			return nil
		}
		want := strconv.FormatInt(c.N, 10)
		if got != want {
			return fmt.Errorf("{duration %s} = %q: neither an error marker nor the %s seconds the text denotes", c.Text, got, want)
		}
		text, err := eval("{durationformat {duration {0}}}", true, c.Text)
		if err != nil {
			return err
		}
		if v, ok := readHMS(text); !ok || v != c.N {
			return fmt.Errorf("{duration %s} = %s, but {durationformat ..} of it prints %q, which does not read as %d seconds", c.Text, got, text, c.N)
		}
		c.Obs.Label(true, "edge:number")
	case "parse":
		want := strconv.FormatInt(c.N, 10)
		got, err := eval("{duration {0}}", true, c.Text)
		if err != nil {
			return err
		}
		if got != want {
			return fmt.Errorf("{duration %s} = %q, want %s seconds", c.Text, got, want)
		}
		text, err := eval("{durationformat {duration {0}}}", true, c.Text)
		if err != nil {
			return err
		}
		if v, ok := readHMS(text); !ok || v != c.N {
			return fmt.Errorf("{durationformat {duration %s}} = %q, which does not read as %d seconds", c.Text, text, c.N)
		}
		again, err := eval("{duration {durationformat {duration {0}}}}", true, c.Text)
		if err != nil {
			return err
		}
		if again != want {
			return fmt.Errorf("{duration {durationformat {duration %s}}} = %q (through %q), want %s", c.Text, again, text, want)
		}
	}
	return nil
}

func classifyDuration(c DurCase) (bool, []string) {
	var l pbt.Labels
	l = append(l, "kind:"+c.Kind)
	a := c.N
	if a < 0 {
		a = -a
	}
	l.Add(c.N < 0, "negative")
	l.Add(c.N == 0, "zero")
	l.Add(a >= 60 && a < 3600, "minutes-range")
	l.Add(a >= 3600 && a < 86400, "hours-range")
	l.Add(a >= 86400, ">=1day")
	l.Add(a >= 1000000000, ">=1e9s")
	l.Add(a%60 == 0 && a != 0, "whole-minutes")
	l.Add(a%3600 == 0 && a != 0, "whole-hours")
	l.Add(strings.Contains(c.Text, "."), "decimal-component")
	l.Add(strings.Count(c.Text, "h")+strings.Count(c.Text, "m")+strings.Count(c.Text, "s") >= 2, "multi-component")
	return a >= 60, l
}

// exact decimal fractions: value in seconds for one hour / one minute
var (
	hourFracs = []struct {
		s    string
		secs int64
	}{{".5", 1800}, {".25", 900}, {".75", 2700}, {".1", 360}, {".2", 720}, {".05", 180}, {".01", 36}, {".50", 1800}}
	minFracs = []struct {
		s    string
		secs int64
	}{{".5", 30}, {".25", 15}, {".1", 6}, {".2", 12}, {".05", 3}, {".75", 45}}
)

func genDuration(t *rapid.T) DurCase {
	c := DurCase{Obs: pbt.NewObs()}
	if rapid.IntRange(0, 7).Draw(t, "edge") == 0 {
		// n units with n*unit within a few units of MaxInt64 nanoseconds (9223372036.85 s), or far beyond
		c.Kind = "edge"
		u := rapid.SampledFrom([]struct {
			s    string
			secs int64
		}{{"h", 3600}, {"m", 60}, {"s", 1}}).Draw(t, "unit")
		limit := int64(9223372036) / u.secs // largest whole count that still fits
		n := limit + rapid.Int64Range(-3, 3).Draw(t, "around")
		if rapid.IntRange(0, 3).Draw(t, "far") == 0 {
			n = limit * rapid.Int64Range(2, 900).Draw(t, "times")
		}
		neg := rapid.IntRange(0, 3).Draw(t, "neg") == 0
		c.N = n * u.secs
		c.Text = strconv.FormatInt(n, 10) + u.s
		if neg {
			c.N, c.Text = -c.N, "-"+c.Text
		}
		return c
	}
	if rapid.Bool().Draw(t, "parse") {
		c.Kind = "parse"
		var sb strings.Builder
		var total int64
		neg := rapid.IntRange(0, 3).Draw(t, "neg") == 0
		if neg {
			sb.WriteByte('-')
		}
		mask := rapid.IntRange(1, 7).Draw(t, "units")
		num := func(label string, max int64) int64 {
			if rapid.Bool().Draw(t, label+"Small") {
				return rapid.Int64Range(0, 100).Draw(t, label)
			}
			return rapid.Int64Range(0, max).Draw(t, label+"Big")
		}
		if mask&4 != 0 {
			v := num("h", 2000000)
			sb.WriteString(strconv.FormatInt(v, 10))
			total += v * 3600
			if rapid.IntRange(0, 3).Draw(t, "hFrac") == 0 {
				f := hourFracs[rapid.IntRange(0, len(hourFracs)-1).Draw(t, "hf")]
				sb.WriteString(f.s)
				total += f.secs
			}
			sb.WriteByte('h')
		}
		if mask&2 != 0 {
			v := num("m", 10000000)
			sb.WriteString(strconv.FormatInt(v, 10))
			total += v * 60
			if rapid.IntRange(0, 3).Draw(t, "mFrac") == 0 {
				f := minFracs[rapid.IntRange(0, len(minFracs)-1).Draw(t, "mf")]
				sb.WriteString(f.s)
				total += f.secs
			}
			sb.WriteByte('m')
		}
		if mask&1 != 0 {
			v := num("s", 1000000000)
			sb.WriteString(strconv.FormatInt(v, 10))
			total += v
			sb.WriteByte('s')
		}
		if neg {
			total = -total
		}
		c.Text, c.N = sb.String(), total
		return c
	}
	c.Kind = "format"
	switch rapid.IntRange(0, 4).Draw(t, "class") {
	case 0:
		c.N = rapid.Int64Range(-200, 200).Draw(t, "n")
	case 1: // around multiples of a minute / hour / day
		unit := rapid.SampledFrom([]int64{60, 3600, 86400}).Draw(t, "unit")
		c.N = unit*rapid.Int64Range(-2000, 2000).Draw(t, "k") + rapid.Int64Range(-2, 2).Draw(t, "d")
	case 2:
		c.N = rapid.Int64Range(-100000, 100000).Draw(t, "n")
	case 3:
		c.N = rapid.Int64Range(-9000000000, 9000000000).Draw(t, "n")
	default:
		c.N = rapid.SampledFrom([]int64{0, 1, -1, 59, 60, 61, 3599, 3600, 3601, 86399, 86400, 14400, 9000000000, -9000000000, 2147483647, 2147483648, 4294967296}).Draw(t, "n")
	}
	return c
}

var durationSpec = pbt.Spec[DurCase]{
	Property: "C18", Name: "duration",
	Rule: "format: whole seconds n in ±9e9 (small, around multiples of 60/3600/86400, wide, boundary pool): durationformat(n) read by an own h/m/s reader = n and duration(durationformat(n)) = n. " +
		"parse: text [-]<H[.f]>h<M[.f]>m<S>s (any non-empty subset of units, in that order; decimal fractions only where they are a whole number of seconds) with |total| <= 8.8e9: duration(text) = total, durationformat(duration(text)) reads as total, and back again. " +
		"Non-trivial: |seconds| >= 60 (more than one unit involved); distinct by case JSON",
	Budget: pbt.Budget{Quick: 48000, Thorough: 400000},
	Gen:    genDuration, Check: checkDuration, Classify: classifyDuration,
}

func TestDuration(t *testing.T) { pbt.Run(t, durationSpec) }

// ---------------------------------------------------------------------------
// unparseable input -> error marker

type ErrCase struct {
	Func  string // time | buckettime | timeformat | timeattr | duration | durationformat
	Input pbt.S
	Arg   string // format (time, buckettime, timeformat) or attribute (timeattr)
	Zone  string
	Obs   *pbt.Obs `json:"-"`
}

func isMarker(s string) bool { return s == "<PARSE-ERROR>" || s == "<BAD-TYPE>" }

func checkErr(c ErrCase) error {
	resetGlobals()
	if _, _, ok := lookup(c.Zone); !ok {
		return nil
	}
	var expr string
	switch c.Func {
	case "time":
		expr = call("time", "{0}", c.Arg, c.Zone)
	case "buckettime":
		expr = call("buckettime", "{0}", "day", c.Arg, c.Zone)
	case "timeformat":
		expr = call("timeformat", "{0}", c.Arg, c.Zone)
	case "timeattr":
		expr = call("timeattr", "{0}", c.Arg, c.Zone)
	case "duration":
		expr = "{duration {0}}"
	case "durationformat":
		expr = "{durationformat {0}}"
	default:
		return nil
	}
	got, err := eval(expr, true, string(c.Input))
	if err != nil {
		return err
	}
	if !isMarker(got) {
		return fmt.Errorf("%s with {0}=%q: got %q, want the error marker <PARSE-ERROR> or <BAD-TYPE>", expr, string(c.Input), got)
	}
	return nil
}

// structurally different offset-bearing formats: text of one never parses as another
var crossFormats = []string{"RFC3339", "NGINX", "RFC1123Z", "RUBY"}

func genErr(t *rapid.T) ErrCase {
	zl := zones()
	c := ErrCase{Obs: pbt.NewObs()}
	c.Func = rapid.SampledFrom([]string{"time", "time", "buckettime", "timeformat", "timeattr", "duration", "durationformat"}).Draw(t, "func")
	if len(zl) > 0 && rapid.Bool().Draw(t, "tz") {
		c.Zone = zl[rapid.IntRange(0, len(zl)-1).Draw(t, "zone")].name
	}
	// text without any digit: no date, no integer, no duration
	junk := func() string {
		if rapid.IntRange(0, 5).Draw(t, "empty") == 0 {
			return ""
		}
		return rapid.StringOfN(rapid.RuneFrom([]rune("abcxyzTZ :-/+.,é")), 1, 14, -1).Draw(t, "junk")
	}
	switch c.Func {
	case "time", "buckettime":
		c.Arg = rapid.SampledFrom(allNamedFormats).Draw(t, "format")
		if rapid.Bool().Draw(t, "cross") {
			// a well-formed time of another, structurally different format
			to := rapid.SampledFrom(crossFormats).Draw(t, "to")
			from := rapid.SampledFrom(crossFormats).Draw(t, "from")
			if from == to {
				c.Input = pbt.S(junk())
			} else {
				u := rapid.Int64Range(minUnix, maxUnix).Draw(t, "unix")
				loc, _, _ := lookup(c.Zone)
				abbr, off := offsetAt(loc, u)
				c.Input = pbt.S(CivilOf(u, off).Named(from, off, abbr, " "))
				c.Arg = to
			}
		} else {
			c.Input = pbt.S(junk())
		}
	case "timeformat":
		c.Arg = rapid.SampledFrom(append([]string{""}, allNamedFormats...)).Draw(t, "format")
		if c.Arg == "" {
			c.Zone = ""
		}
		c.Input = pbt.S(junk())
	case "timeattr":
		c.Arg = rapid.SampledFrom([]string{"weekday", "week", "yearweek", "quarter"}).Draw(t, "attr")
		c.Input = pbt.S(junk())
	default:
		c.Zone = ""
		c.Input = pbt.S(junk())
	}
	return c
}

func classifyErr(c ErrCase) (bool, []string) {
	l := pbt.Labels{"func:" + c.Func}
	l.Add(len(c.Input) == 0, "empty-input")
	l.Add(len(c.Input) > 0 && strings.ContainsAny(string(c.Input), "0123456789"), "well-formed-time-of-another-format")
	l.Add(c.Zone != "", "with-tz")
	return len(c.Input) > 0, l
}

var errSpec = pbt.Spec[ErrCase]{
	Property: "C18", Name: "errors",
	Rule: "input that cannot be what the function reads: text without any digit (letters, blanks, punctuation, non-ASCII; or empty) given to time/buckettime with every named format, to timeformat/timeattr/durationformat (which read an integer) and to duration; " +
		"or a well-formed time in one of RFC3339/NGINX/RFC1123Z/RUBY given to time/buckettime with another of them. Oracle: result is the documented marker <PARSE-ERROR> or <BAD-TYPE> (the docs do not separate the two sharply; either accepted). Non-trivial: non-empty input",
	Budget: pbt.Budget{Quick: 24000, Thorough: 200000},
	Gen:    genErr, Check: checkErr, Classify: classifyErr,
}

func TestErrors(t *testing.T) { pbt.Run(t, errSpec) }

// ---------------------------------------------------------------------------
// harness self-check (development aid, not part of the verdict): the model
// against package time. Run with C18_SELFTEST=1.

func TestModelSelfCheck(t *testing.T) {
	if os.Getenv("C18_SELFTEST") == "" {
		t.Skip("set C18_SELFTEST=1")
	}
	names := []string{"utc"}
	for _, z := range zones() {
		names = append(names, z.name)
	}
	for _, zn := range names {
		loc, _, _ := lookup(zn)
		for u := minUnix; u <= maxUnix; u += 86400/2 - 7 {
			tt := time.Unix(u, 0).In(loc)
			_, off := tt.Zone()
			c := CivilOf(u, off)
			iy, iw := tt.ISOWeek()
			if c.Year != tt.Year() || c.Month != int(tt.Month()) || c.Day != tt.Day() || c.Hour != tt.Hour() || c.Minute != tt.Minute() || c.Second != tt.Second() ||
				c.Weekday != int(tt.Weekday()) || c.ISOYear != iy || c.ISOWeek != iw || c.YearDay != tt.YearDay()-1 {
				t.Fatalf("model disagrees with package time at %d in %s: %+v vs %v (iso %d-%d)", u, zn, c, tt, iy, iw)
			}
			if DaysFromCivil(c.Year, c.Month, c.Day) != c.Days {
				t.Fatalf("DaysFromCivil not inverse at %d", u)
			}
		}
	}
}
