// Named time formats of the tree under test.
//
// The statement quantifies the round trip over "every named format holding
// date, time and numeric offset". Which names exist is a fact of the tree
// being checked, not of the harness: the names are read from the list of
// supported formats in the tree's own docs/usage/expressions.md (section
// "Time Format"). A name the harness has no model for is classified by what
// rare prints with it: it joins the round-trip law iff the text carries a
// full date, a time of day and an offset written in digits.
package c18

import (
	"fmt"
	"os"
	"path/filepath"
	"regexp"
	"strconv"
	"strings"
	"sync"
	"testing"
	"unicode"

	"verifharness/pbt"
)

// rtFormat is one member of the round-trip law.
type rtFormat struct {
	name     string
	minute   bool // the text carries minutes, not seconds
	yy       bool // the text carries the year modulo 100 only
	fromDocs bool // found in the documentation, unknown to the harness's fixed tables
}

var (
	docOnce    sync.Once
	docListed  []string          // names listed in the documentation, in order, without repeats
	docVerdict map[string]string // name -> what the harness does with it
	rtSet      []rtFormat        // the fixed formats followed by the ones discovered
	docProblem string            // why the documentation could not be used ("" = fine)

	docHeadingRe = regexp.MustCompile(`^(#+)\s*(.*?)\s*$`)
	docListRe    = regexp.MustCompile(`^\*\*([^*]*):\*\*\s*(.*)$`)
	docNameRe    = regexp.MustCompile(`^[A-Za-z][A-Za-z0-9_]*$`)
)

// part formats the calendar oracle models field by field
var harnessPartFormats = []string{"MONTH", "MONTHNAME", "MNTH", "DAY", "WEEKDAY", "WDAY", "YEAR", "HOUR", "MINUTE", "SECOND", "TIMEZONE", "NTIMEZONE"}

func repoDir() string {
	if d := os.Getenv("VERIF_REPO"); d != "" {
		return d
	}
	return "/repo"
}

// parseDocFormatNames extracts the format names of the "Time Format" section:
// every bold "**… formats:**" header there is followed by a comma separated
// list (or bullets) of names; prose is not a name.
func parseDocFormatNames(md string) (names []string, problem string) {
	lines := strings.Split(md, "\n")
	start, level := -1, 0
	for i, l := range lines {
		if m := docHeadingRe.FindStringSubmatch(l); m != nil && strings.EqualFold(m[2], "Time Format") {
			start, level = i, len(m[1])
			break
		}
	}
	if start < 0 {
		return nil, "no heading 'Time Format' in docs/usage/expressions.md"
	}
	seen := map[string]bool{}
	inList, taken := false, 0 // taken: non-blank list lines since the last header
	take := func(text string) {
		for _, tok := range strings.Split(text, ",") {
			tok = strings.TrimSpace(tok)
			tok = strings.TrimLeft(tok, "*-+ ")
			tok = strings.Trim(tok, "` \t\r.;")
			if docNameRe.MatchString(tok) && !seen[tok] {
				seen[tok] = true
				names = append(names, tok)
			}
		}
	}
	for _, l := range lines[start+1:] {
		if m := docHeadingRe.FindStringSubmatch(l); m != nil && len(m[1]) <= level {
			break
		}
		if m := docListRe.FindStringSubmatch(strings.TrimSpace(l)); m != nil {
			inList, taken = strings.Contains(strings.ToLower(m[1]), "format"), 0
			if inList && m[2] != "" {
				take(m[2])
				taken++
			}
			continue
		}
		if strings.TrimSpace(l) == "" {
			if taken > 0 { // a blank line ends a list that has begun
				inList = false
			}
			continue
		}
		if inList {
			take(l)
			taken++
		}
	}
	if len(names) == 0 {
		return nil, "no list of format names under 'Time Format' in docs/usage/expressions.md"
	}
	return names, ""
}

func stripLetters(s string) string {
	return strings.Map(func(r rune) rune {
		if unicode.IsLetter(r) {
			return -1
		}
		return r
	}, s)
}

// wallInstant: the instant at which a clock in loc (no transition nearby)
// reads y-m-d h:mi:s.
func wallInstant(zone string, y, m, d, h, mi, s int) (int64, bool) {
	loc, trans, ok := lookup(zone)
	if !ok {
		return 0, false
	}
	w := DaysFromCivil(y, m, d)*86400 + int64(h*3600+mi*60+s)
	_, off := offsetAt(loc, w)
	u := w - int64(off)
	if _, off2 := offsetAt(loc, u); off2 != off || nearTransition(trans, u, 3*86400) {
		return 0, false
	}
	return u, true
}

// classifyDocFormat decides by behaviour what a name the harness has no model
// for prints. Only rare's own timeformat is asked.
func classifyDocFormat(name string) (rtFormat, string) {
	f := rtFormat{name: name, fromDocs: true}
	show := func(zone string, u int64) (string, error) {
		got, err := eval(call("timeformat", "{0}", name, zone), true, strconv.FormatInt(u, 10))
		if err != nil {
			return "", err
		}
		if isMarker(got) || got == "" {
			return "", fmt.Errorf("prints %q", got)
		}
		return got, nil
	}
	// zones for the probes: utc, and zones with an offset that has minutes
	// whose abbreviation is made of letters (so that digits in the text that
	// change with the zone are an offset, not an abbreviation like "+0545")
	var alpha []string
	for _, z := range []string{"Asia/Kolkata", "America/St_Johns", "America/New_York", "Europe/London", "Japan"} {
		loc, _, ok := lookup(z)
		if !ok {
			continue
		}
		u, ok := wallInstant(z, 2003, 2, 4, 5, 6, 7)
		if !ok {
			continue
		}
		abbr, off := offsetAt(loc, u)
		if off != 0 && stripLetters(abbr) == "" {
			alpha = append(alpha, z)
		}
	}
	if len(alpha) == 0 {
		return f, "unclassified: no zone with an alphabetic abbreviation on this host"
	}
	fieldZones := []string{"utc", alpha[0]}
	type probe struct {
		what             string
		y, m, d, h, i, s int
	}
	base := probe{"base", 2003, 2, 4, 5, 6, 7}
	fields := []probe{
		{"year", 2004, 2, 4, 5, 6, 7}, {"month", 2003, 3, 4, 5, 6, 7}, {"day", 2003, 2, 5, 5, 6, 7}, {"day+7", 2003, 2, 11, 5, 6, 7},
		{"hour", 2003, 2, 4, 6, 6, 7}, {"hour+12", 2003, 2, 4, 17, 6, 7}, {"minute", 2003, 2, 4, 5, 7, 7},
	}
	for _, z := range fieldZones {
		ub, ok := wallInstant(z, base.y, base.m, base.d, base.h, base.i, base.s)
		if !ok {
			return f, "unclassified: probe instant near a transition of " + z
		}
		tb, err := show(z, ub)
		if err != nil {
			return f, "not accepted by timeformat: " + err.Error()
		}
		for _, p := range fields {
			up, ok := wallInstant(z, p.y, p.m, p.d, p.h, p.i, p.s)
			if !ok {
				return f, "unclassified: probe instant near a transition of " + z
			}
			tp, err := show(z, up)
			if err != nil {
				return f, "not accepted by timeformat: " + err.Error()
			}
			if tp == tb {
				return f, fmt.Sprintf("no full date and time of day: the text %q does not change with the %s", tb, p.what)
			}
		}
		// precision: seconds or minutes
		if ts, err := show(z, ub+1); err == nil && ts == tb {
			f.minute = true
		}
	}
	// year modulo 100: 400 years later the calendar repeats, weekday included
	{
		ub, _ := wallInstant("utc", base.y, base.m, base.d, base.h, base.i, base.s)
		ul, _ := wallInstant("utc", base.y+400, base.m, base.d, base.h, base.i, base.s)
		tb, _ := show("utc", ub)
		if tl, err := show("utc", ul); err == nil && tl == tb {
			f.yy = true
		}
	}
	// the offset: the same clock reading in utc and in each alphabetic zone;
	// without its letters the text must differ between any two of them
	var texts []string
	for _, z := range append([]string{"utc"}, alpha...) {
		u, _ := wallInstant(z, base.y, base.m, base.d, base.h, base.i, base.s)
		tx, err := show(z, u)
		if err != nil {
			return f, "not accepted by timeformat in zone " + z + ": " + err.Error()
		}
		texts = append(texts, stripLetters(tx))
	}
	for i := range texts {
		for j := i + 1; j < len(texts); j++ {
			if texts[i] == texts[j] {
				return f, "no numeric offset: apart from letters the text is the same in zones of different offset"
			}
		}
	}
	return f, "round-trip"
}

// roundTripSet returns the formats of the round-trip law: the harness's fixed
// ones and every further name of the documentation that holds date, time and
// numeric offset by behaviour.
func roundTripSet() []rtFormat {
	docOnce.Do(func() {
		resetGlobals()
		for _, n := range roundTripFormats {
			rtSet = append(rtSet, rtFormat{name: n, minute: n == "RFC822Z", yy: n == "RFC822Z"})
		}
		docVerdict = map[string]string{}
		known := map[string]bool{}
		for _, n := range allNamedFormats {
			known[n] = true
		}
		for _, n := range harnessPartFormats {
			known[n] = true
		}
		data, err := os.ReadFile(filepath.Join(repoDir(), "docs", "usage", "expressions.md"))
		if err != nil {
			docProblem = "documentation not readable: " + err.Error()
		} else {
			docListed, docProblem = parseDocFormatNames(string(data))
		}
		if docProblem != "" {
			pbt.Exclude("doc-format-names-unavailable: " + docProblem)
		}
		kept := []string{}
		for _, n := range docListed {
			if known[n] {
				docVerdict[n] = "modelled by the harness"
				continue
			}
			f, verdict := classifyDocFormat(n)
			docVerdict[n] = "not modelled; by behaviour: " + verdict
			if verdict == "round-trip" {
				rtSet = append(rtSet, f)
				kept = append(kept, n)
			}
		}
		if k, _ := pbt.Shard(); k == 0 {
			pbt.Note("C18", "time-format-names-listed-in-docs", docListed)
			pbt.Note("C18", "time-format-names-classification", docVerdict)
			pbt.Note("C18", "time-format-names-added-to-round-trip-by-behaviour", kept)
			if docProblem != "" {
				pbt.Note("C18", "time-format-names-problem", docProblem)
			}
		}
	})
	return rtSet
}

// docFormatsRule is appended to the rule text of calendar / sweep.
func docFormatsRule() string {
	set := roundTripSet()
	var extra []string
	for _, f := range set {
		if f.fromDocs {
			extra = append(extra, f.name)
		}
	}
	s := "; format names listed in the tree's docs/usage/expressions.md (Time Format): " + strings.Join(docListed, " ")
	if docProblem != "" {
		s += " [" + docProblem + "]"
	}
	s += "; of these, not modelled by the harness and joined to the round-trip law because rare prints a full date, time of day and numeric offset with them: "
	if len(extra) == 0 {
		s += "(none)"
	} else {
		s += strings.Join(extra, " ")
	}
	return s
}

// TestDocFormatClassifierSelfCheck (development aid, C18_SELFTEST=1): the
// classification by behaviour agrees with what is known of the fixed formats
// and of some layouts (rare takes an unknown name as a layout).
func TestDocFormatClassifierSelfCheck(t *testing.T) {
	if os.Getenv("C18_SELFTEST") == "" {
		t.Skip("set C18_SELFTEST=1")
	}
	want := map[string]string{
		"RUBY": "rt", "RFC822Z": "rt,minute,yy", "RFC1123Z": "rt", "RFC3339": "rt", "RFC3339N": "rt", "NGINX": "rt",
		"ANSIC": "no numeric offset", "UNIX": "no numeric offset", "RFC822": "no numeric offset", "RFC1123": "no numeric offset",
		"2006-01-02T15:04:05Z07": "rt", "2006-01-02 15:04:05 -0700": "rt", "2006-01-02T15:04Z07:00": "rt,minute",
		"Jan _2 03:04:05 -0700 2006": "no full date", "Jan _2 03:04:05PM -0700 2006": "rt", "01-02 15:04:05 -0700": "no full date",
		"Mon 15:04:05 -0700 Jan 2006": "no full date", "2006-01-02 -0700": "no full date", "2006-01-02T15:04:05 MST": "no numeric offset",
		"NOSUCHNAME": "no full date",
	}
	for _, p := range harnessPartFormats {
		want[p] = "no full date"
	}
	for _, n := range pbt.SortedKeys(want) {
		f, verdict := classifyDocFormat(n)
		got := verdict
		if verdict == "round-trip" {
			got = "rt"
			if f.minute {
				got += ",minute"
			}
			if f.yy {
				got += ",yy"
			}
		}
		if !strings.HasPrefix(got, want[n]) || (got[:2] == "rt" && got != want[n]) {
			t.Errorf("%q classified %q, want %q", n, got, want[n])
		}
	}
	for _, md := range []string{
		"#### Time Format\n\n**Supported Formats:**\n\nA1, `B2`,\nC3\n\nprose, here, too\n#### Next\n**Formats:** X",
		"## time format\n**Formats:** A1, B2\n* C3\n",
	} {
		names, problem := parseDocFormatNames(md)
		if problem != "" || strings.Join(names, " ") != "A1 B2 C3" {
			t.Errorf("parse %q: %v %q", md, names, problem)
		}
	}
}
