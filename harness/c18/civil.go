// Package c18 checks property C18: the time helpers of rare's expression
// library agree with the calendar and round-trip.
//
// civil.go is the reference model: a proleptic-Gregorian civil-time
// computation written from the calendar's definition (days since 1970-01-01
// -> year/month/day, weekday, ISO-8601 week and week-year, quarter). It uses
// nothing of package time; the only thing the oracle takes from Go's tz
// database is the zone offset (and abbreviation) in force at an instant.
package c18

import "fmt"

// Civil holds the calendar fields of one local second.
type Civil struct {
	Year, Month, Day     int
	Hour, Minute, Second int
	Weekday              int // 0 = Sunday … 6 = Saturday
	ISOYear, ISOWeek     int
	ISOWeekday           int   // 1 = Monday … 7 = Sunday
	Quarter              int   // 1..4, January-March = 1
	YearDay              int   // 0-based
	Days                 int64 // local days since 1970-01-01
}

func floorDiv(a, b int64) int64 {
	q := a / b
	if (a%b != 0) && ((a < 0) != (b < 0)) {
		q--
	}
	return q
}

func isLeap(y int) bool { return y%4 == 0 && (y%100 != 0 || y%400 == 0) }

func daysIn(y, m int) int {
	switch m {
	case 4, 6, 9, 11:
		return 30
	case 2:
		if isLeap(y) {
			return 29
		}
		return 28
	}
	return 31
}

// DaysFromCivil returns the number of days from 1970-01-01 to y-m-d.
// Plain definition: whole years since 1970 (or back to y), then whole months,
// then days.
func DaysFromCivil(y, m, d int) int64 {
	var n int64
	if y >= 1970 {
		for yy := 1970; yy < y; yy++ {
			n += 365
			if isLeap(yy) {
				n++
			}
		}
	} else {
		for yy := y; yy < 1970; yy++ {
			n -= 365
			if isLeap(yy) {
				n--
			}
		}
	}
	for mm := 1; mm < m; mm++ {
		n += int64(daysIn(y, mm))
	}
	return n + int64(d-1)
}

// ymd converts days since 1970-01-01 into year, month, day, day-of-year by
// counting 400/100/4/1-year cycles from 0000-03-01 (a year that starts in
// March puts the leap day last).
func ymd(days int64) (y, m, d, yday int) {
	const d400 = 146097 // days in 400 years
	z := days + 719468  // days since 0000-03-01
	era := floorDiv(z, d400)
	doe := z - era*d400                                    // [0, 146096]
	yoe := (doe - doe/1460 + doe/36524 - doe/146096) / 365 // [0, 399]
	doy := doe - (365*yoe + yoe/4 - yoe/100)               // [0, 365], March-based
	mp := (5*doy + 2) / 153                                // [0, 11], 0 = March
	d = int(doy - (153*mp+2)/5 + 1)
	if mp < 10 {
		m = int(mp) + 3
	} else {
		m = int(mp) - 9
	}
	y = int(yoe + era*400)
	if m <= 2 {
		y++
	}
	yday = int(days - DaysFromCivil(y, 1, 1))
	return
}

// CivilOf returns the calendar fields of the local second unix+offset.
func CivilOf(unix int64, offset int) Civil {
	l := unix + int64(offset)
	days := floorDiv(l, 86400)
	sod := l - days*86400
	var c Civil
	c.Days = days
	c.Year, c.Month, c.Day, c.YearDay = ymd(days)
	c.Hour = int(sod / 3600)
	c.Minute = int(sod % 3600 / 60)
	c.Second = int(sod % 60)
	// 1970-01-01 was a Thursday.
	c.Weekday = int(((days+4)%7 + 7) % 7)
	c.ISOWeekday = c.Weekday
	if c.ISOWeekday == 0 {
		c.ISOWeekday = 7
	}
	// ISO 8601: a week belongs to the year that holds its Thursday; week 1 is
	// the week holding the year's first Thursday.
	thu := days - int64(c.ISOWeekday) + 4
	ty, _, _, tyday := ymd(thu)
	c.ISOYear = ty
	c.ISOWeek = tyday/7 + 1
	c.Quarter = (c.Month + 2) / 3
	return c
}

var (
	dayNames   = [7]string{"Sunday", "Monday", "Tuesday", "Wednesday", "Thursday", "Friday", "Saturday"}
	monthNames = [13]string{"", "January", "February", "March", "April", "May", "June", "July", "August", "September", "October", "November", "December"}
)

// numOffset renders a zone offset as ±hhmm or ±hh:mm. Offsets are whole
// minutes in every zone the generator admits.
func numOffset(off int, colon bool) string {
	sign := '+'
	if off < 0 {
		sign = '-'
		off = -off
	}
	if colon {
		return fmt.Sprintf("%c%02d:%02d", sign, off/3600, off%3600/60)
	}
	return fmt.Sprintf("%c%02d%02d", sign, off/3600, off%3600/60)
}

// Named renders the civil time in one of the documented named formats
// (their well-known definitions: ANSI C asctime, unix date(1), Ruby Time#to_s
// classic, RFC 822 / 1123 / 3339, nginx $time_local).
// dayPad is the padding of a one-digit day where the format pads with a
// blank ('_') in Go's definition.
func (c Civil) Named(format string, off int, abbr string, dayPad string) string {
	wd := dayNames[c.Weekday][:3]
	mon := monthNames[c.Month][:3]
	hms := fmt.Sprintf("%02d:%02d:%02d", c.Hour, c.Minute, c.Second)
	day2 := fmt.Sprintf("%02d", c.Day)
	dayB := fmt.Sprintf("%d", c.Day)
	if c.Day < 10 {
		dayB = dayPad + dayB
	}
	switch format {
	case "ANSIC":
		return fmt.Sprintf("%s %s %s %s %04d", wd, mon, dayB, hms, c.Year)
	case "UNIX":
		return fmt.Sprintf("%s %s %s %s %s %04d", wd, mon, dayB, hms, abbr, c.Year)
	case "RUBY":
		return fmt.Sprintf("%s %s %s %s %s %04d", wd, mon, day2, hms, numOffset(off, false), c.Year)
	case "RFC822":
		return fmt.Sprintf("%s %s %02d %02d:%02d %s", day2, mon, c.Year%100, c.Hour, c.Minute, abbr)
	case "RFC822Z":
		return fmt.Sprintf("%s %s %02d %02d:%02d %s", day2, mon, c.Year%100, c.Hour, c.Minute, numOffset(off, false))
	case "RFC1123":
		return fmt.Sprintf("%s, %s %s %04d %s %s", wd, day2, mon, c.Year, hms, abbr)
	case "RFC1123Z":
		return fmt.Sprintf("%s, %s %s %04d %s %s", wd, day2, mon, c.Year, hms, numOffset(off, false))
	case "RFC3339", "RFC3339N":
		z := "Z"
		if off != 0 {
			z = numOffset(off, true)
		}
		return fmt.Sprintf("%04d-%02d-%02dT%s%s", c.Year, c.Month, c.Day, hms, z)
	case "NGINX":
		return fmt.Sprintf("%s/%s/%04d:%s %s", dayB, mon, c.Year, hms, numOffset(off, false))
	}
	return ""
}
