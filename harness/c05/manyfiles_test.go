// C05, "many-files": termination and the final-render invariants on the
// input shape where readers spend their time at end-of-file.
//
// The 'loop' sub-property reads 1-8 files, so a run has at most 8 moments in
// which a reader has reached the end of its file and hands over the remainder
// of its last batch, and its latency plan makes the workers (not the
// aggregator) the slow stage, so the batch channel is seldom full in such a
// moment. Here a run reads 50-500 short files through the real
// batchers.OpenFilesToChan with 1-6 concurrent readers: with files shorter
// than one batch every batch is an end-of-file remainder, and a Sample
// latency makes the aggregation loop the slowest stage, so that the 5-slot
// match channel and the tiny batch channel (--batch-buffer 1-3) stay full:
// workers park in their send, readers park in the send of a remainder batch,
// and the 100 ms render ticks (several per run) call what the commands call -
// FWriteExtractorSummary and batcher.StatusString() - in exactly that state.
//
// The oracle is the one of 'loop' (same check function): the run terminates
// (driver watchdog + grace period), Sample and render never overlap, the final
// render comes after the last Sample and equals the sequential reference, the
// intermediate renders are bounded by and monotone towards the final counts.
package c05

import (
	"fmt"
	"testing"
	"time"

	"pgregory.net/rapid"
	"verifharness/pbt"
	"verifharness/pipe"
)

// remainderShare: of the batches the readers will send, how many (per cent)
// are end-of-file remainders (sent after the scan loop, shorter than --batch).
func remainderShare(c *pipe.Case) (share int, batches int) {
	rem := 0
	for _, in := range c.Inputs {
		l := int(pipe.EngineFreeLineCount([]byte(in.Content)))
		batches += l / c.Batch
		if l%c.Batch != 0 {
			batches++
			rem++
		}
	}
	if batches == 0 {
		return 0, 0
	}
	return rem * 100 / batches, batches
}

func genMany(t *rapid.T) Case {
	var c Case
	p := pipe.Case{Obs: pbt.NewObs()}
	// 50-500 files (a sampled base plus jitter: IntRange alone favours the low end)
	nfiles := rapid.SampledFrom([]int{50, 80, 120, 200, 300, 450}).Draw(t, "nfilesBase") + rapid.IntRange(0, 50).Draw(t, "nfilesJitter")
	// a small pool of short contents (0-12 lines, with and without a final
	// newline, CRLF, hostile bytes ...); every file takes one of them
	maxLines := rapid.SampledFrom([]int{1, 2, 3, 3, 6, 12}).Draw(t, "maxLines")
	npool := rapid.IntRange(1, 5).Draw(t, "npool")
	pool := make([]pbt.S, npool)
	for i := range pool {
		pool[i] = pbt.S(pipe.GenContent(t, maxLines, false))
		if len(pool[i]) == 0 && i == 0 {
			pool[i] = pbt.S("GET /a 200\nerr k=v\nab 12\n") // at least one content with lines
		}
	}
	lines := 0
	for i := 0; i < nfiles; i++ {
		k := 0
		if npool > 1 {
			k = rapid.IntRange(0, npool-1).Draw(t, "content")
		}
		p.Inputs = append(p.Inputs, pipe.Input{Name: fmt.Sprintf("m%d.log", i), Content: pool[k]})
		lines += int(pipe.EngineFreeLineCount([]byte(pool[k])))
	}
	if rapid.IntRange(0, 3).Draw(t, "anyMatcher") == 0 {
		p.Matcher, p.Extract = pipe.GenMatcher(t)
	} else {
		// most lines match, so the aggregation loop has work for every batch
		p.Matcher = pipe.Matcher{Kind: rapid.SampledFrom([]string{"default", "regex"}).Draw(t, "mkind")}
		if p.Matcher.Kind == "regex" {
			p.Matcher.Pattern = rapid.SampledFrom([]string{`.`, `(\w+)`, `^(\S+)\s*(\S+)?`, `x*`}).Draw(t, "pat")
		}
		p.Extract = rapid.SampledFrom(append([]string{`{0}`, `{0}`, `{src}`, `{line}`, `{src}:{line}`}, sharedStateExtracts...)).Draw(t, "extract")
	}
	p.Batch = rapid.SampledFrom([]int{1, 2, 3, 7, 64, 1000, 1000}).Draw(t, "batch")
	p.Workers = rapid.IntRange(1, 4).Draw(t, "workers")
	p.Readers = rapid.IntRange(1, 6).Draw(t, "readers")
	p.BatchBuffer = rapid.SampledFrom([]int{1, 1, 2, 3}).Draw(t, "bb")
	p.Procs = rapid.SampledFrom([]int{1, 2, 4, 16}).Draw(t, "procs")
	if rapid.IntRange(0, 3).Draw(t, "md") == 0 {
		p.MatchDelay = []int{1} // workers yield per line
	}
	c.P = p
	sanitize(&c.P)

	// Sample latency: every ev-th Sample sleeps d µs, at most ~800 sleeps per
	// run, d chosen so that the run lasts 0.2-0.7 s (2-7 render ticks) if all
	// lines match; the aggregation loop is then the slowest stage
	if lines < 1 {
		lines = 1
	}
	ev := rapid.SampledFrom([]int{1, 2, 4}).Draw(t, "sleepEvery")
	for lines/ev > 800 {
		ev *= 2
	}
	target := rapid.SampledFrom([]int{200000, 400000, 700000}).Draw(t, "targetUs")
	d := target / (lines/ev + 1)
	if d < 100 {
		d = 100
	}
	if d > 5000 {
		d = 5000
	}
	c.SampleDelay = make([]int, ev)
	c.SampleDelay[0] = d
	if ev > 1 && rapid.Bool().Draw(t, "yieldBetween") {
		c.SampleDelay[ev-1] = 1
	}
	n := rapid.IntRange(1, 3).Draw(t, "rdN")
	for i := 0; i < n; i++ {
		c.RenderDelay = append(c.RenderDelay, rapid.SampledFrom([]int{0, 1, 200, 2000}).Draw(t, "rd"))
	}
	return c
}

func classifyMany(c Case) (bool, []string) {
	o := c.P.Obs
	var l pbt.Labels
	l = append(l, o.All()...)
	share, batches := remainderShare(&c.P)
	nf := len(c.P.Inputs)
	l.Add(nf >= 200, "files>=200")
	l.Add(nf < 200, "files:50-199")
	l.Add(share == 100, "every-batch-an-eof-remainder")
	l.Add(share >= 50 && share < 100, "eof-remainders>=50%")
	l.Add(share < 50, "eof-remainders<50%")
	l.Add(c.P.Readers >= 2, "readers>=2")
	l.Add(c.P.BatchBuffer == 1, "batch-buffer=1")
	full := o.Get("renders-with-full-channels")
	l.Add(full >= 2, ">=2-renders-while-both-channels-full")
	// non-trivial: the state the sub-property is about was observed - at
	// least two render ticks found readers active with both channels full,
	// in a run where at least half of the batches are end-of-file remainders
	nt := share >= 50 && batches >= 50 && full >= 2 && o.Has("render-overlapping-active-reader")
	return nt, l
}

func TestManyFiles(t *testing.T) {
	pbt.Run(t, pbt.Spec[Case]{
		Property: "C05", Name: "many-files",
		Rule:   "the real helpers.RunAggregationLoop over batchers.OpenFilesToChan on 50-500 short files (0-12 lines each, batch 1-1000: with files shorter than a batch every batch is an end-of-file remainder) with 1-6 concurrent readers, batch-buffer 1-3, 1-4 workers, GOMAXPROCS 1-16 and a Sample latency that makes the aggregation loop the slowest stage (both channels stay full: workers and readers park in their sends, readers mostly in the send of a file's remainder) for 0.2-0.7 s, i.e. several 100 ms render ticks; the render callback does what the commands do (sorted items, FWriteExtractorSummary, batcher.StatusString, ActiveFileCount). Under the race detector. Invariants as in 'loop': terminates (watchdog 15 s + 180 s grace), Sample and render never overlap, final render after the last Sample and equal to the reference, intermediate renders bounded/monotone. Non-trivial: >=50% of >=50 batches are end-of-file remainders and >=2 renders ran while readers were active and both channels were full; distinct by case JSON",
		Budget: pbt.Budget{Quick: 96, Thorough: 2400},
		Gen:    genMany, Check: check, Classify: classifyMany,
		Watchdog: 15 * time.Second,
	})
}
